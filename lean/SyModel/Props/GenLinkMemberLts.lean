/-
  GenLinkMemberLts — the CONCURRENT tie: the translated hard-link hand-off `Transferrer::transfer_link_member`
  (`SyModel/Generated/Code/LinkMember.lean`, regenerated on every run from /repo/src/sync/transfer.rs) SIMULATES the
  handwritten labelled transition system of `Hardlink/Protocol.lean`, the model of property C13, so that the theorems of
  Props/C13.lean hold of schedules of runs of the TRANSLATED function.

  The instance `ltsExt cfg w fuel : Ext LWorld` (the generated function run AS worker `w` of the LTS; TRUSTED, described
  field by field in Lemmas/GenLinkMemberLts.lean §2), the encodings, `genPoll` and the chains are in
  Lemmas/GenLinkMemberLts.lean.

  Part 0 — the encodings are injective; the error values are distinct
  Part 1 — `poll_eq_generated`: ONE run of the generated function from the top of the function (fuel ≥ 1, every state —
           reachable or not — of the repaired variant) = the model's `poll`: state, label sequence, the way it ends;
           `poll_eq_generated_resume`: the same for a worker suspended at `notified.await`;
           the claim's two map operations are one atomic micro-step; a run never interleaves (`run_is_own_execution`)
  Part 2 — `genPoll_eq_poll`, schedules of generated polls = schedules of model polls (`genSched_eq_pollSched`)
  Part 3 — the C13 theorems about schedules of runs of the TRANSLATED function:
           `gen_run_reachable`, `gen_every_run_completes`, `gen_fair_schedule_completes`, `gen_owner_failure_surfaces`,
           `gen_link_structure`
  Part 4 — the hypotheses are satisfiable; concrete runs
-/
import SyModel.Lemmas.GenLinkMemberLts
import SyModel.Props.GenLinkMember
import SyModel.Props.C13
set_option linter.unusedVariables false
set_option linter.unusedSimpArgs false
namespace SyModel.Props.GenLinkMemberLts
open SyModel SyModel.Hardlink SyModel.Generated SyModel.Generated.LinkMember SyModel.Lemmas.GenLinkMember
  SyModel.Lemmas.GenLinkMemberLts
open SyModel.Lemmas.GenTransfer (runM op runM_op runM_pure runM_throw runM_bind runM_bind_ok runM_bind_error)

/-! ## Part 0 — encodings -/

/-- the LTS's path identifiers (worker ids) map injectively to the unit's `Rs.Path` -/
theorem path_encoding_injective (a b : Nat) (h : encPath a = encPath b) : a = b := encPath_injective h
/-- the LTS's map values map injectively to the unit's `InodeState` (Notify identities and inode numbers are the same
    numbers on both sides) -/
theorem entry_encoding_injective (a b : Entry) (h : encEntry a = encEntry b) : a = b := encEntry_injective h
/-- the errors of the operations are distinct from each other, from the blocked exit, from the desynchronisation marker
    and from the fuel's `Err(other)` -/
theorem error_encoding (a b : Op) :
    (errOf a = errOf b → a = b) ∧ errOf a ≠ blockedErr ∧ errOf a ≠ desyncErr ∧ errOf a ≠ Rs.Err.other ∧
      blockedErr ≠ desyncErr :=
  ⟨errOf_injective, errOf_ne_blocked a, errOf_ne_desync a, errOf_ne_other a, blocked_ne_desync⟩

/-! ## Part 1 — one run of the generated function = one `poll` of the model -/

/-- **poll_eq_generated.**  Repaired variant, worker `w < cfg.n` of a link group (`linked`), no await points inside its
    transport operations, at the TOP of the function (`pc = start`) in ANY state `s` — reachable or not —, any `self`
    and `source`, any fuel ≥ 1.  ONE run of the GENERATED `transfer_link_member` on `ltsExt cfg w`, called with the
    worker's own destination path, inode and `is_update`:
    * ends in exactly the state of the model's `poll cfg s w`,
    * has logged exactly its label sequence,
    * and ends the same way: `Ok(_)` ↔ `ready ok`; `Err(errOf o)` ↔ `ready (err o)` (the error of the operation that
      failed); the blocked exit (`Err(blockedErr)`, flag set) ↔ `pending`.
    In particular the run never answers `desyncErr` (every operation was called where the LTS expects it, with the
    arguments the LTS expects) and never runs out of fuel. -/
theorem poll_eq_generated (cfg : Cfg) (hv : cfg.variant = .repaired) (s : State) (w : Nat) (hw : w < cfg.n)
    (hl : (cfg.worker w).linked = true)
    (hy : (cfg.worker w).yMkdir = 0 ∧ (cfg.worker w).yCopy = 0 ∧ (cfg.worker w).yLink = 0)
    (hpc : s.pc w = .start) (fuel : Nat) (self : Transferrer) (source : FileEntry) :
    ∃ (res : Except Rs.Err (Option TransferResult)) (b : Bool),
      runM (Transferrer.transfer_link_member (ltsExt cfg w (fuel + 1)) self source (encPath w)
          (encInode (cfg.worker w).inode) (isUpdate cfg w)) ⟨s, [], false⟩ =
        (res, ⟨(poll cfg s w).1, (poll cfg s w).2.1, b⟩) ∧
      Ended res b (poll cfg s w).2.2 := by
  have hm : Member cfg w := ⟨hv, hw, hl, hy.1, hy.2.1, hy.2.2⟩
  obtain ⟨res, ls', t', b, out, hst, hrun, hend, hpe⟩ := genCall_sim hm self source hpc fuel
  have hp := poll_of_steps hst hpe
  refine ⟨res, b, ?_, ?_⟩
  · have := hrun []
    rw [hp]
    simpa [genCall] using this
  · rw [hp]; exact hend

/-- the same as one equation between triples (state, labels, outcome) -/
theorem poll_eq_generated' (cfg : Cfg) (hv : cfg.variant = .repaired) (s : State) (w : Nat) (hw : w < cfg.n)
    (hl : (cfg.worker w).linked = true)
    (hy : (cfg.worker w).yMkdir = 0 ∧ (cfg.worker w).yCopy = 0 ∧ (cfg.worker w).yLink = 0)
    (hpc : s.pc w = .start) (fuel : Nat) (self : Transferrer) (source : FileEntry) :
    let r := runM (Transferrer.transfer_link_member (ltsExt cfg w (fuel + 1)) self source (encPath w)
          (encInode (cfg.worker w).inode) (isUpdate cfg w)) ⟨s, [], false⟩
    (r.2.s, r.2.labels, outcome r.1 r.2.blocked) = poll cfg s w := by
  obtain ⟨res, b, hrun, hend⟩ := poll_eq_generated cfg hv s w hw hl hy hpc fuel self source
  simp only [hrun, hend.outcome]

/-- **resumption after a wake-up.**  The worker is suspended at `notified.await` (`pc = waiting g snap`).  Polling it
    again = polling the await and, when it completes, going round the loop: `await_notified snap` followed by the generated
    function (the loop carries no state: `Props.GenLinkMember.transfer_link_member_eq`, so what follows `continue` IS
    the function from its top).  State, labels and the way it ends are those of the model's `poll`:
    counter unchanged ⇒ still `pending`, nothing happens; counter moved ⇒ `wake`, then one full round. -/
theorem poll_eq_generated_resume (cfg : Cfg) (hv : cfg.variant = .repaired) (s : State) (w : Nat) (hw : w < cfg.n)
    (hl : (cfg.worker w).linked = true)
    (hy : (cfg.worker w).yMkdir = 0 ∧ (cfg.worker w).yCopy = 0 ∧ (cfg.worker w).yLink = 0)
    (g snap : Nat) (hpc : s.pc w = .waiting g snap) (fuel : Nat) (self : Transferrer) (source : FileEntry) :
    ∃ (res : Except Rs.Err (Option TransferResult)) (b : Bool),
      runM ((ltsExt cfg w (fuel + 1)).await_notified snap >>= fun _ =>
          Transferrer.transfer_link_member (ltsExt cfg w (fuel + 1)) self source (encPath w)
            (encInode (cfg.worker w).inode) (isUpdate cfg w)) ⟨s, [], false⟩ =
        (res, ⟨(poll cfg s w).1, (poll cfg s w).2.1, b⟩) ∧
      Ended res b (poll cfg s w).2.2 := by
  have hm : Member cfg w := ⟨hv, hw, hl, hy.1, hy.2.1, hy.2.2⟩
  obtain ⟨res, ls', t', b, out, hst, hrun, hend, hpe⟩ := resume_sim hm self source hpc fuel
  have hp := poll_of_steps hst hpe
  refine ⟨res, b, ?_, ?_⟩
  · have := hrun []
    rw [hp]
    simpa [genCall] using this
  · rw [hp]; exact hend

/-- the wake-up really goes round the loop: when the counter has moved, the resumed poll starts with `wake` and goes on
    with what a poll from the top does in the state after the wake-up -/
theorem resume_goes_round (cfg : Cfg) (hv : cfg.variant = .repaired) (s : State) (w : Nat) (hw : w < cfg.n)
    (hl : (cfg.worker w).linked = true)
    (hy : (cfg.worker w).yMkdir = 0 ∧ (cfg.worker w).yCopy = 0 ∧ (cfg.worker w).yLink = 0)
    (g snap : Nat) (hpc : s.pc w = .waiting g snap) (hc : s.calls g ≠ snap) :
    poll cfg s w =
      ((poll cfg (s.apply w (cfg.worker w).inode { pc := .start }) w).1,
       .wake :: (poll cfg (s.apply w (cfg.worker w).inode { pc := .start }) w).2.1,
       (poll cfg (s.apply w (cfg.worker w).inode { pc := .start }) w).2.2) := by
  have hm : Member cfg w := ⟨hv, hw, hl, hy.1, hy.2.1, hy.2.2⟩
  have hwk := runs_await_wake 1 hm hpc hc
  obtain ⟨res, ls', t', b, out, hst, hrun, hend, hpe⟩ := genCall_sim hm default default
    (t := s.apply w (cfg.worker w).inode { pc := .start }) (apply_pc_self ..) 0
  rw [poll_of_steps hst hpe, poll_of_steps (hwk.1.trans hst) hpe]
  rfl

/-- the waiter's path with its labels: from the top, entry `InProgress(g)`: register, re-check, BLOCK — in this order -/
theorem waiter_blocks (cfg : Cfg) (hv : cfg.variant = .repaired) (s : State) (w : Nat) (hw : w < cfg.n)
    (hl : (cfg.worker w).linked = true)
    (hy : (cfg.worker w).yMkdir = 0 ∧ (cfg.worker w).yCopy = 0 ∧ (cfg.worker w).yLink = 0)
    (hpc : s.pc w = .start) (g : Nat) (he : s.map (cfg.worker w).inode = some (.inProgress g)) :
    (poll cfg s w).2 = ([.readInProgress g, .arm g, .recheckSame], .pending) ∧
      (poll cfg s w).1.pc w = .waiting g (s.calls g) := by
  have hm : Member cfg w := ⟨hv, hw, hl, hy.1, hy.2.1, hy.2.2⟩
  have h0 := runs_get_inProgress 1 hm hpc he
  obtain ⟨t', hr, _, hpc', hs⟩ := waitArm_sim 1 hm (t := s.apply w (cfg.worker w).inode { pc := .sawInProgress g })
    (apply_pc_self ..) he
  have hnd : ∀ r, t'.pc w ≠ .done r := by intro r h; rw [hpc'] at h; cases h
  rw [poll_of_steps_blocked (h0.1.trans hr.1) hnd hs]
  exact ⟨rfl, hpc'⟩

/-- **the claim's lock scope is atomic.**  Rust holds the mutex across `contains_key` and `insert`; the translation
    emits two operations.  On `ltsExt`: (1) `map_contains` answering "absent" changes NOTHING (the lock is held);
    (2) a `map_insert(InProgress)` that goes through is exactly the LTS's ONE step `claimOk` of `w` from the state the read
    saw; (3) no other worker's step comes between them — nor between any two operations: -/
theorem claim_pair_is_one_step (cfg : Cfg) (w fuel i n : Nat) (lw lw1 lw2 : LWorld)
    (h1 : runM ((ltsExt cfg w fuel).map_contains i) lw = (.ok false, lw1))
    (h2 : runM ((ltsExt cfg w fuel).map_insert i (.InProgress n)) lw1 = (.ok (), lw2)) :
    lw1 = lw ∧ lw.s.map i = none ∧ step cfg lw.s w = some (.claimOk, lw2.s) ∧ lw2.labels = lw.labels ++ [.claimOk] := by
  have e := contains_false_holds_lock cfg w fuel i lw lw1 h1
  subst e
  obtain ⟨_, _, _, he, hs, hl, _⟩ := insert_claim_is_claimOk cfg w fuel i n lw1 lw2 h2
  exact ⟨rfl, he, hs, hl⟩

/-- **a run of the generated function on `ltsExt` is ONE worker's uninterrupted macro-step**: from every world, with
    every fuel and all arguments, the state after the run is reached by micro-steps of `w` alone (an execution of the LTS
    whose schedule is `[w, w, …, w]`) -/
theorem run_is_own_execution (cfg : Cfg) (w fuel : Nat) (self : Transferrer) (source : FileEntry) (dest : Rs.Path)
    (inode : Nat) (upd : Bool) (lw : LWorld) :
    ∃ k, Exec cfg lw.s (List.replicate k w)
      (runM (Transferrer.transfer_link_member (ltsExt cfg w fuel) self source dest inode upd) lw).2.s :=
  own_generated cfg w fuel self source dest inode upd lw

/-! ## Part 2 — polls and schedules of polls -/

/-- no transport operation of a link-group member has an await point (the generated code has no representation of a
    pending transport future) -/
def NoYields (cfg : Cfg) : Prop :=
  ∀ v, v < cfg.n → (cfg.worker v).linked = true →
    (cfg.worker v).yMkdir = 0 ∧ (cfg.worker v).yCopy = 0 ∧ (cfg.worker v).yLink = 0

/-- a point at which a link-group member can be polled by `genPoll`: the top of the function, suspended at
    `notified.await`, or returned -/
def AtBoundary (s : State) (w : Nat) : Prop :=
  s.pc w = .start ∨ (∃ g snap, s.pc w = .waiting g snap) ∨ ∃ r, s.pc w = .done r

def Boundaries (cfg : Cfg) (s : State) : Prop :=
  ∀ v, v < cfg.n → (cfg.worker v).linked = true → AtBoundary s v

theorem boundaries_init (cfg : Cfg) : Boundaries cfg (init cfg) := by
  intro v _ _
  unfold AtBoundary init
  simp only
  split
  · exact Or.inr (Or.inr ⟨_, rfl⟩)
  · exact Or.inl rfl

theorem pollEnd_boundary {cfg : Cfg} {w : Nat} {t' : State} {out : PollOut} (hw : w < cfg.n)
    (h : PollEnd cfg w t' out) : AtBoundary t' w := by
  rcases h with ⟨r, _, hd⟩ | ⟨_, hnd, hs⟩
  · exact Or.inr (Or.inr ⟨r, hd⟩)
  · refine Or.inr (Or.inl ?_)
    apply Classical.byContradiction
    intro hne
    have hd : (t'.pc w).isDone = false := by
      cases hp : t'.pc w <;> simp [Pc.isDone]
      exact absurd hp (hnd _)
    have := step_isSome hw hd (fun g snap hp => absurd ⟨g, snap, hp⟩ hne)
    rw [hs] at this
    cases this

/-- **`genPoll` = `poll`** at every poll boundary, and the boundary is kept -/
theorem genPoll_eq_poll (cfg : Cfg) (hv : cfg.variant = .repaired) (hy : NoYields cfg) (fuel : Nat)
    (self : Transferrer) (source : FileEntry) (s : State) (w : Nat) (hw : w < cfg.n)
    (hb : (cfg.worker w).linked = true → AtBoundary s w) :
    genPoll cfg (fuel + 1) self source s w = poll cfg s w ∧
      ((cfg.worker w).linked = true → AtBoundary (poll cfg s w).1 w) := by
  cases hl : (cfg.worker w).linked with
  | false => exact ⟨by simp [genPoll, hl], fun h => by cases h⟩
  | true =>
    have hm : Member cfg w := ⟨hv, hw, hl, (hy w hw hl).1, (hy w hw hl).2.1, (hy w hw hl).2.2⟩
    rcases hb hl with hpc | ⟨g, snap, hpc⟩ | ⟨r, hpc⟩
    · obtain ⟨res, ls', t', b, out, hst, hrun, hend, hpe⟩ := genCall_sim hm self source hpc fuel
      have hp := poll_of_steps hst hpe
      refine ⟨?_, fun _ => by rw [hp]; exact pollEnd_boundary hw hpe⟩
      simp only [genPoll, hl, hpc, ↓reduceIte, hrun [], hp, hend.outcome, List.nil_append]
    · obtain ⟨res, ls', t', b, out, hst, hrun, hend, hpe⟩ := resume_sim hm self source hpc fuel
      have hp := poll_of_steps hst hpe
      refine ⟨?_, fun _ => by rw [hp]; exact pollEnd_boundary hw hpe⟩
      simp only [genPoll, hl, hpc, ↓reduceIte, hrun [], hp, hend.outcome, List.nil_append]
    · refine ⟨?_, fun _ => by rw [poll_done hpc]; exact Or.inr (Or.inr ⟨r, hpc⟩)⟩
      simp only [genPoll, hl, hpc, ↓reduceIte, poll_done hpc]

/-- the state after a schedule of polls, every poll of a link-group member being a run of the GENERATED function on
    `ltsExt` (`genPoll`); `src v` is the scanned entry of path `v` -/
def genSched (cfg : Cfg) (fuel : Nat) (self : Transferrer) (src : Nat → FileEntry) : State → List Nat → State
  | s, [] => s
  | s, w :: ws => genSched cfg fuel self src (genPoll cfg fuel self (src w) s w).1 ws

theorem poll_keeps_boundaries {cfg : Cfg} {s : State} {w : Nat} (hb : Boundaries cfg s)
    (hw' : (cfg.worker w).linked = true → AtBoundary (poll cfg s w).1 w) : Boundaries cfg (poll cfg s w).1 := by
  intro v hv hl
  by_cases hvw : v = w
  · subst hvw; exact hw' hl
  · obtain ⟨k, hk⟩ := poll_exec cfg s w
    have := exec_pc_other hk hvw
    unfold AtBoundary
    rw [this]
    exact hb v hv hl

/-- **a schedule of generated polls = the same schedule of model polls**, from every state whose link-group members
    are at poll boundaries (the initial state is one) -/
theorem genSched_eq_pollSched (cfg : Cfg) (hv : cfg.variant = .repaired) (hy : NoYields cfg) (fuel : Nat)
    (self : Transferrer) (src : Nat → FileEntry) :
    ∀ (ws : List Nat) (s : State), (∀ w ∈ ws, w < cfg.n) → Boundaries cfg s →
      genSched cfg (fuel + 1) self src s ws = pollSched cfg s ws ∧ Boundaries cfg (pollSched cfg s ws)
  | [], s, _, hb => ⟨rfl, hb⟩
  | w :: ws, s, hws, hb => by
    have hw := hws w (List.mem_cons_self ..)
    obtain ⟨he, hb'⟩ := genPoll_eq_poll cfg hv hy fuel self (src w) s w hw (hb w hw)
    unfold genSched pollSched
    rw [he]
    exact genSched_eq_pollSched cfg hv hy fuel self src ws _ (fun v hv => hws v (List.mem_cons_of_mem _ hv))
      (poll_keeps_boundaries hb hb')

theorem pollSched_reachable {cfg : Cfg} : ∀ (ws : List Nat) (s : State), Reachable cfg s →
    Reachable cfg (pollSched cfg s ws)
  | [], s, h => h
  | w :: ws, s, h => by
    unfold pollSched
    obtain ⟨k, hk⟩ := poll_exec cfg s w
    exact pollSched_reachable ws _ (reachable_exec h hk)

/-! ## Part 3 — the C13 theorems about schedules of runs of the translated function -/

section Transfer
variable (cfg : Cfg) (hv : cfg.variant = .repaired) (hy : NoYields cfg) (fuel : Nat) (self : Transferrer)
  (src : Nat → FileEntry)
include hv hy

/-- every state reached by a schedule of generated polls is a reachable state of the LTS: ALL the safety theorems of
    Props/C13.lean (`single_owner`, `in_progress_is_held`, `link_structure`, `no_cross_group_sharing`, …) apply to it -/
theorem gen_run_reachable (ws : List Nat) (hws : ∀ w ∈ ws, w < cfg.n) :
    Reachable cfg (genSched cfg (fuel + 1) self src (init cfg) ws) := by
  rw [(genSched_eq_pollSched cfg hv hy fuel self src ws _ hws (boundaries_init cfg)).1]
  exact pollSched_reachable ws _ (reachable_init cfg)

/-- no generated poll makes progress any more: every worker's poll logs nothing -/
def Quiescent (s : State) : Prop :=
  ∀ w, w < cfg.n → (genPoll cfg (fuel + 1) self (src w) s w).2.1 = []

omit hv hy in
theorem allDone_of_not_enabled (hv : cfg.variant = .repaired) {s : State} (hr : Reachable cfg s)
    (hq : ∀ w, w < cfg.n → enabled cfg s w = false) : allDone cfg s := by
  apply Classical.byContradiction
  intro hnf
  obtain ⟨w, hw, hen⟩ := C13.no_stuck cfg hv s hr hnf
  rw [hq w hw] at hen
  cases hen

/-- **every_run_completes**, about the TRANSLATED function.  Run any schedule of polls from the initial state, each poll
    of a link-group member being a run of the generated function on `ltsExt`.  If afterwards no poll makes progress any
    more (the run is maximal), then EVERY worker's future has returned: nobody is left waiting — whatever failed, in
    whatever order the polls came. -/
theorem gen_every_run_completes (ws : List Nat) (hws : ∀ w ∈ ws, w < cfg.n)
    (hq : Quiescent cfg fuel self src (genSched cfg (fuel + 1) self src (init cfg) ws)) :
    allDone cfg (genSched cfg (fuel + 1) self src (init cfg) ws) ∧
      ∀ w, w < cfg.n → ∃ r, (genPoll cfg (fuel + 1) self (src w) (genSched cfg (fuel + 1) self src (init cfg) ws) w).2.2
        = .ready r := by
  have hr := gen_run_reachable cfg hv hy fuel self src ws hws
  obtain ⟨he, hb⟩ := genSched_eq_pollSched cfg hv hy fuel self src ws _ hws (boundaries_init cfg)
  rw [← he] at hb
  generalize genSched cfg (fuel + 1) self src (init cfg) ws = s at *
  have hne : ∀ w, w < cfg.n → enabled cfg s w = false := by
    intro w hw
    have := hq w hw
    rw [(genPoll_eq_poll cfg hv hy fuel self (src w) s w hw (hb w hw)).1] at this
    exact poll_nil_not_enabled this
  have hd := allDone_of_not_enabled cfg hv hr hne
  refine ⟨hd, fun w hw => ?_⟩
  rw [(genPoll_eq_poll cfg hv hy fuel self (src w) s w hw (hb w hw)).1]
  have := hd w hw
  cases hp : s.pc w <;> rw [hp] at this <;> simp [Pc.isDone] at this
  exact ⟨_, by rw [poll_done hp]⟩

/-- the states of an infinite schedule `σ` of generated polls -/
def genTrace (σ : Nat → Nat) : Nat → State
  | 0 => init cfg
  | i + 1 => (genPoll cfg (fuel + 1) self (src (σ i)) (genTrace σ i) (σ i)).1

/-- every worker is polled again and again -/
def Fair (σ : Nat → Nat) : Prop := (∀ i, σ i < cfg.n) ∧ ∀ w, w < cfg.n → ∀ i, ∃ j, i ≤ j ∧ σ j = w

omit hv hy in
theorem genTrace_spec (hv : cfg.variant = .repaired) (hy : NoYields cfg) (σ : Nat → Nat) (hσ : ∀ i, σ i < cfg.n) :
    ∀ i, Reachable cfg (genTrace cfg fuel self src σ i) ∧ Boundaries cfg (genTrace cfg fuel self src σ i) ∧
      genTrace cfg fuel self src σ (i + 1) = (poll cfg (genTrace cfg fuel self src σ i) (σ i)).1
  | 0 => by
    refine ⟨reachable_init cfg, boundaries_init cfg, ?_⟩
    show (genPoll cfg (fuel + 1) self (src (σ 0)) (init cfg) (σ 0)).1 = _
    rw [(genPoll_eq_poll cfg hv hy fuel self _ _ _ (hσ 0) (boundaries_init cfg _ (hσ 0))).1]
    rfl
  | i + 1 => by
    obtain ⟨hr, hb, he⟩ := genTrace_spec hv hy σ hσ i
    have hb' : Boundaries cfg (genTrace cfg fuel self src σ (i + 1)) := by
      rw [he]
      exact poll_keeps_boundaries hb (genPoll_eq_poll cfg hv hy fuel self (src (σ i)) _ _ (hσ i) (hb _ (hσ i))).2
    have hr' : Reachable cfg (genTrace cfg fuel self src σ (i + 1)) := by
      rw [he]
      obtain ⟨k, hk⟩ := poll_exec cfg (genTrace cfg fuel self src σ i) (σ i)
      exact reachable_exec hr hk
    refine ⟨hr', hb', ?_⟩
    show (genPoll cfg (fuel + 1) self (src (σ (i + 1))) (genTrace cfg fuel self src σ (i + 1)) (σ (i + 1))).1 = _
    rw [(genPoll_eq_poll cfg hv hy fuel self _ _ _ (hσ (i + 1)) (hb' _ (hσ (i + 1)))).1]

/-- **liveness under a fair schedule**, about the TRANSLATED function: for every fair infinite schedule of polls — each
    poll of a link-group member a run of the generated function on `ltsExt` — there is a point after which every worker
    has returned (and stays returned). -/
theorem gen_fair_schedule_completes (σ : Nat → Nat) (hf : Fair cfg σ) :
    ∃ N, allDone cfg (genTrace cfg fuel self src σ N) := by
  have spec := genTrace_spec cfg fuel self src hv hy σ hf.1
  -- the variant never increases along the trace
  have mono : ∀ i k, measure cfg (genTrace cfg fuel self src σ (i + k)) ≤ measure cfg (genTrace cfg fuel self src σ i) := by
    intro i k
    induction k with
    | zero => exact Nat.le_refl _
    | succ k ih =>
      have : genTrace cfg fuel self src σ (i + (k + 1)) = _ := (spec (i + k)).2.2
      rw [this]
      exact Nat.le_trans (poll_measure_le cfg _ _) ih
  -- by induction on a bound of the variant
  have key : ∀ M i, measure cfg (genTrace cfg fuel self src σ i) ≤ M → ∃ N, allDone cfg (genTrace cfg fuel self src σ N) := by
    intro M
    induction M with
    | zero =>
      intro i hM
      refine ⟨i, ?_⟩
      apply Classical.byContradiction
      intro hnf
      obtain ⟨w, hw, hen⟩ := C13.no_stuck cfg hv _ (spec i).1 hnf
      have := poll_enabled_less hen
      omega
    | succ M ih =>
      intro i hM
      apply Classical.byContradiction
      intro hno
      have hnf : ¬ allDone cfg (genTrace cfg fuel self src σ i) := fun h => hno ⟨i, h⟩
      obtain ⟨w, hw, hen⟩ := C13.no_stuck cfg hv _ (spec i).1 hnf
      obtain ⟨j, hij, hj⟩ := hf.2 w hw i
      obtain ⟨d, rfl⟩ : ∃ d, j = i + d := ⟨j - i, by omega⟩
      -- either some poll before `j` made progress, or the state at `j` is the state at `i` and the poll of `w` does
      have stay : ∀ d', d' ≤ d →
          (genTrace cfg fuel self src σ (i + d') = genTrace cfg fuel self src σ i) ∨
            measure cfg (genTrace cfg fuel self src σ (i + d')) < measure cfg (genTrace cfg fuel self src σ i) := by
        intro d'
        induction d' with
        | zero => intro _; exact Or.inl rfl
        | succ d' ihd =>
          intro hle
          have hstep : genTrace cfg fuel self src σ (i + (d' + 1)) = _ := (spec (i + d')).2.2
          rcases ihd (by omega) with hs | hs
          · rcases poll_same_or_less cfg (genTrace cfg fuel self src σ (i + d')) (σ (i + d')) with h | h
            · left; rw [hstep, h, hs]
            · right; rw [hstep]; rw [hs] at h ⊢; exact h
          · right
            rw [hstep]
            exact Nat.lt_of_le_of_lt (poll_measure_le cfg _ _) hs
      have hlt : measure cfg (genTrace cfg fuel self src σ (i + d + 1)) < measure cfg (genTrace cfg fuel self src σ i) := by
        have hstep : genTrace cfg fuel self src σ (i + d + 1) = _ := (spec (i + d)).2.2
        rcases stay d (Nat.le_refl _) with hs | hs
        · rw [hstep, hj, hs]
          exact poll_enabled_less hen
        · rw [hstep]
          exact Nat.lt_of_le_of_lt (poll_measure_le cfg _ _) hs
      exact hno (ih (i + d + 1) (by omega))
  exact key _ 0 (Nat.le_refl _)

/-- **owner_failure_surfaces**, about the TRANSLATED function.  After any schedule of generated polls, let the poll of
    worker `g` — a run of the generated function — return the error of the operation `o` (`ready (err o)`: the function
    answered `Err(errOf o)`).  Then after EVERY continuation of generated polls that is maximal: every worker has returned
    (no waiter of `g` is left hanging), `g`'s result is still exactly that error, and no `InProgress` entry is left in the
    map. -/
theorem gen_owner_failure_surfaces (ws : List Nat) (hws : ∀ w ∈ ws, w < cfg.n) (g : Nat) (hg : g < cfg.n) (o : Op)
    (hfail : (genPoll cfg (fuel + 1) self (src g) (genSched cfg (fuel + 1) self src (init cfg) ws) g).2.2 = .ready (.err o))
    (ws' : List Nat) (hws' : ∀ w ∈ ws', w < cfg.n)
    (hq : Quiescent cfg fuel self src (genSched cfg (fuel + 1) self src (init cfg) (ws ++ g :: ws'))) :
    allDone cfg (genSched cfg (fuel + 1) self src (init cfg) (ws ++ g :: ws')) ∧
      (genSched cfg (fuel + 1) self src (init cfg) (ws ++ g :: ws')).pc g = .done (.err o) ∧
      ∀ i g', (genSched cfg (fuel + 1) self src (init cfg) (ws ++ g :: ws')).map i ≠ some (.inProgress g') := by
  have hall : ∀ w ∈ ws ++ g :: ws', w < cfg.n := by
    intro w hw
    rcases List.mem_append.1 hw with h | h
    · exact hws w h
    · rcases List.mem_cons.1 h with h | h
      · rw [h]; exact hg
      · exact hws' w h
  obtain ⟨hdone, _⟩ := gen_every_run_completes cfg hv hy fuel self src _ hall hq
  have hr := gen_run_reachable cfg hv hy fuel self src _ hall
  -- the model side of the three segments
  obtain ⟨e1, b1⟩ := genSched_eq_pollSched cfg hv hy fuel self src ws _ hws (boundaries_init cfg)
  have e2 := (genSched_eq_pollSched cfg hv hy fuel self src _ _ hall (boundaries_init cfg)).1
  rw [e1, (genPoll_eq_poll cfg hv hy fuel self (src g) _ g hg (b1 g hg)).1] at hfail
  have hpcg := poll_ready_pc hfail
  have split : ∀ (a b : List Nat) (s : State), pollSched cfg s (a ++ b) = pollSched cfg (pollSched cfg s a) b := by
    intro a b
    induction a with
    | nil => intro s; rfl
    | cons x xs ih => intro s; simp only [List.cons_append, pollSched]; exact ih _
  have hsame : (pollSched cfg (init cfg) (ws ++ g :: ws')).pc g = .done (.err o) := by
    rw [split]
    show (pollSched cfg (poll cfg (pollSched cfg (init cfg) ws) g).1 ws').pc g = _
    have stable : ∀ (l : List Nat) (s : State), s.pc g = .done (.err o) → (pollSched cfg s l).pc g = .done (.err o) := by
      intro l
      induction l with
      | nil => intro s h; exact h
      | cons x xs ih =>
        intro s h
        unfold pollSched
        apply ih
        obtain ⟨k, hk⟩ := poll_exec cfg s x
        rw [exec_done_stable hk g (by rw [h]; rfl), h]
    exact stable ws' _ hpcg
  refine ⟨hdone, by rw [e2]; exact hsame, ?_⟩
  intro i g' hm
  obtain ⟨hg', _, hc⟩ := C13.in_progress_is_held cfg hv _ hr i g' hm
  have := hdone g' hg'
  rw [Pc.holdsClaim_not_done _ hc] at this
  cases this

/-- **link_structure**, about the TRANSLATED function: after ANY schedule of generated polls, two paths whose transfers
    returned `Ok` share a destination inode iff their sources do, and each has its source's content -/
theorem gen_link_structure (hwf : C13.WF cfg) (hdst : cfg.DstOk) (ws : List Nat) (hws : ∀ w ∈ ws, w < cfg.n)
    (w₁ w₂ : Nat) (hw₁ : w₁ < cfg.n) (hw₂ : w₂ < cfg.n) (ha₁ : C13.Active cfg w₁) (ha₂ : C13.Active cfg w₂)
    (hok₁ : (genSched cfg (fuel + 1) self src (init cfg) ws).pc w₁ = .done .ok)
    (hok₂ : (genSched cfg (fuel + 1) self src (init cfg) ws).pc w₂ = .done .ok) :
    ∃ f₁ f₂, (genSched cfg (fuel + 1) self src (init cfg) ws).dst w₁ = some f₁ ∧
      (genSched cfg (fuel + 1) self src (init cfg) ws).dst w₂ = some f₂ ∧
      (f₁.ino = f₂.ino ↔ (cfg.worker w₁).inode = (cfg.worker w₂).inode) ∧
      f₁.content = cfg.content (cfg.worker w₁).inode ∧ f₂.content = cfg.content (cfg.worker w₂).inode :=
  C13.link_structure cfg hwf hdst _ (gen_run_reachable cfg hv hy fuel self src ws hws) w₁ w₂ hw₁ hw₂ ha₁ ha₂ hok₁ hok₂

end Transfer

/-! ## Part 4 — the hypotheses are satisfiable; concrete runs

  `demo` (four names of one source inode to be created; the copy of 0 and the attribute writers of 1 fail, the link of 3
  fails), `demoU` (three names to be updated), `after cfg micro` (the state after a thread-level schedule of micro-steps)
  and the kernel-checked scenarios `scen_*` (generated poll = model poll along whole schedules, with the expected label
  sequences) are in Lemmas/GenLinkMemberLts.lean §4. -/

theorem demo_noYields : NoYields demo := fun _ _ _ => ⟨rfl, rfl, rfl⟩
theorem demoU_noYields : NoYields demoU := fun _ _ _ => ⟨rfl, rfl, rfl⟩

/-- `poll_eq_generated`'s hypotheses hold of worker 0 of `demo` in the initial state … -/
example : demo.variant = .repaired ∧ 0 < demo.n ∧ (demo.worker 0).linked = true ∧ (init demo).pc 0 = .start :=
  ⟨rfl, by decide, rfl, rfl⟩
/-- … and the theorem applied there: the run of the generated function ends in the model's state with the model's
    labels; the model says: claim, copy fails, release, `Err(copy)` -/
example : ∃ res b,
    runM (Transferrer.transfer_link_member (ltsExt demo 0 1) default default (encPath 0) (encInode 7) false)
      ⟨init demo, [], false⟩ = (res, ⟨(poll demo (init demo) 0).1, (poll demo (init demo) 0).2.1, b⟩) ∧
    Ended res b (poll demo (init demo) 0).2.2 :=
  poll_eq_generated demo rfl (init demo) 0 (by decide) rfl ⟨rfl, rfl, rfl⟩ rfl 0 default default
example : (poll demo (init demo) 0).2 =
    ([.readNone, .claimOk, .opOk .mkdir, .opErr .copy, .remove, .notify], .ready (.err .copy)) := by decide
/-- a worker suspended at `notified.await` (hypothesis of `poll_eq_generated_resume`), its counter unchanged … -/
example : (after demo [0, 0, 1, 1, 1]).pc 1 = .waiting 0 0 ∧ (after demo [0, 0, 1, 1, 1]).calls 0 = 0 := ⟨rfl, rfl⟩
/-- … and moved (hypothesis `hc` of `resume_goes_round`) -/
example : (after demo [0, 0, 1, 1, 1, 0, 0, 0, 0]).pc 1 = .waiting 0 0 ∧
    (after demo [0, 0, 1, 1, 1, 0, 0, 0, 0]).calls 0 ≠ 0 := ⟨rfl, by decide⟩
/-- a state in which worker 1 is at the top and finds `InProgress(0)` (hypotheses of `waiter_blocks`) -/
example : (after demo [0, 0]).pc 1 = .start ∧ (after demo [0, 0]).map (demo.worker 1).inode = some (.inProgress 0) :=
  ⟨rfl, rfl⟩
/-- the two halves of the claim go through on a concrete world (hypotheses of `claim_pair_is_one_step`): worker 0 of
    `demo` after its first read -/
example :
    runM ((ltsExt demo 0 1).map_contains 7) ⟨after demo [0], [], false⟩ = (.ok false, ⟨after demo [0], [], false⟩) ∧
    (runM ((ltsExt demo 0 1).map_insert 7 (.InProgress 0)) ⟨after demo [0], [], false⟩).1 = .ok () :=
  ⟨rfl, rfl⟩
/-- `Boundaries`, `Fair` are satisfiable -/
example : Boundaries demo (init demo) := boundaries_init demo
example : Fair demo (fun i => i % 4) :=
  ⟨fun i => by show i % 4 < 4; omega, fun w hw i => ⟨4 * (i + 1) + w, by omega, by
    have : w < 4 := hw
    show (4 * (i + 1) + w) % 4 = w
    omega⟩⟩
/-- `gen_fair_schedule_completes` applied: under round-robin polling of the generated function every worker of `demo`
    returns -/
example : ∃ N, allDone demo (genTrace demo 0 default (fun _ => default) (fun i => i % 4) N) :=
  gen_fair_schedule_completes demo rfl demo_noYields 0 default _ _
    ⟨fun i => by show i % 4 < 4; omega, fun w hw i => ⟨4 * (i + 1) + w, by omega, by
      have : w < 4 := hw
      show (4 * (i + 1) + w) % 4 = w
      omega⟩⟩
/-- `Quiescent` is satisfiable: after the generated polls `[0, 1, 2, 3]` of `demo` nothing moves any more -/
example : Quiescent demo 0 default (fun _ => default)
    (genSched demo 1 default (fun _ => default) (init demo) [0, 1, 2, 3]) := by
  rw [(genSched_eq_pollSched demo rfl demo_noYields 0 default _ [0, 1, 2, 3] _ (by decide) (boundaries_init demo)).1]
  intro w hw
  have hw' : w < 4 := hw
  have : w = 0 ∨ w = 1 ∨ w = 2 ∨ w = 3 := by omega
  rcases this with rfl | rfl | rfl | rfl <;> decide
/-- the failing poll of `gen_owner_failure_surfaces` exists: worker 0 of `demo`, first poll -/
example : (genPoll demo 1 default default (genSched demo 1 default (fun _ => default) (init demo) []) 0).2.2 =
    .ready (.err .copy) := by
  show (genPoll demo (0 + 1) default default (init demo) 0).2.2 = _
  rw [(genPoll_eq_poll demo rfl demo_noYields 0 default default _ 0 (by decide) (boundaries_init demo 0 (by decide))).1]
  decide
/-- `gen_link_structure`'s hypotheses: `demoU` is well formed, its destination is a name space, and after the generated
    polls `[0, 1]` both transfers returned `Ok` -/
example : C13.WF demoU := fun _ _ _ _ _ _ => ⟨rfl, rfl⟩
theorem demoU_dstOk : demoU.DstOk :=
  ⟨fun q f _ h => by
      simp only [demoU] at h ⊢
      cases h
      show 3 ≤ (if q = 2 then 101 else 100)
      split <;> omega,
   fun _ _ _ _ _ _ hq hr _ => by cases hq; cases hr; rfl, fun _ _ _ => rfl⟩
example : (genSched demoU 1 default (fun _ => default) (init demoU) [0, 1]).pc 0 = .done .ok ∧
    (genSched demoU 1 default (fun _ => default) (init demoU) [0, 1]).pc 1 = .done .ok := by
  rw [(genSched_eq_pollSched demoU rfl demoU_noYields 0 default _ [0, 1] _ (by decide) (boundaries_init demoU)).1]
  decide
/-- … and the theorem applied: after the translated hand-off the two updated names share one inode and show the new
    content -/
example : ∃ f₁ f₂, (genSched demoU 1 default (fun _ => default) (init demoU) [0, 1]).dst 0 = some f₁ ∧
    (genSched demoU 1 default (fun _ => default) (init demoU) [0, 1]).dst 1 = some f₂ ∧
    (f₁.ino = f₂.ino ↔ (demoU.worker 0).inode = (demoU.worker 1).inode) ∧
    f₁.content = demoU.content (demoU.worker 0).inode ∧ f₂.content = demoU.content (demoU.worker 1).inode := by
  have h : (genSched demoU 1 default (fun _ => default) (init demoU) [0, 1]).pc 0 = .done .ok ∧
      (genSched demoU 1 default (fun _ => default) (init demoU) [0, 1]).pc 1 = .done .ok := by
    rw [(genSched_eq_pollSched demoU rfl demoU_noYields 0 default _ [0, 1] _ (by decide) (boundaries_init demoU)).1]
    decide
  exact gen_link_structure demoU rfl demoU_noYields 0 default _ (fun _ _ _ _ _ _ => ⟨rfl, rfl⟩) demoU_dstOk [0, 1]
    (by decide) 0 1 (by decide) (by decide) (by simp [C13.Active, demoU]) (by simp [C13.Active, demoU]) h.1 h.2

end SyModel.Props.GenLinkMemberLts
