/-
  C06 — Deletion: extras untouched without --delete, exact mirror with it (engine level).
  Property theorems only.
-/
import SyModel.Lemmas.EngineDelete
namespace SyModel.Props.C06
open SyModel SyModel.Engine

/-- **Bloom branch = set branch.**  With a filter that has no false negatives on the source list
    (fastbloom's guarantee; `bloom` is otherwise arbitrary, so every false positive is covered) the
    Bloom-filter branch of `plan_deletions` plans exactly the deletions of the `HashSet` branch. -/
theorem bloom_eq_set (bloom : Path → Bool) (filtered scanned : List SEntry) (dst : Map DNode)
    (h : ∀ e ∈ filtered, bloom e.rel = true) :
    planDeletionsBloom bloom filtered scanned dst = planDeletions filtered scanned dst := by
  unfold planDeletionsBloom planDeletions
  congr 1
  apply List.filter_congr
  intro p _
  rw [bloomDeletes_eq bloom filtered h p]

/-- **A path whose counterpart still exists in the source is never planned for deletion** —
    whether the source entry is excluded by a rule, size-filtered, below an excluded directory or
    selected; any filter, any size bound. -/
theorem counterpart_never_planned (cfg : Cfg) (scan : List SEntry) (dst : Map DNode) (e : SEntry)
    (he : e ∈ scan) : ∀ t ∈ plan cfg scan dst, t.act = .delete → t.rel ≠ e.rel := by
  intro t ht ha
  rw [plan_eq] at ht
  rcases List.mem_append.1 ht with ht | ht
  · obtain ⟨s, _, rfl⟩ := List.mem_map.1 ht
    exact absurd ha (planEntry_act_ne_delete _ _ _)
  · split at ht
    · obtain ⟨p, rfl, _, _, hs, _⟩ := mem_planDeletions.1 ht
      exact fun h => hs e he h.symm
    · cases ht

/-- **… and it is still present after the run**, under every fault plan that does not wipe that
    very path, provided it does not sit below a stale directory that is itself deleted.  (`hne`: the
    source root itself is never an entry, `NoRoot`; needed since fix 862af11, where a directory entry
    over a destination link first unlinks the link — at the root `create_dir_all` then has nothing to do.) -/
theorem counterpart_never_deleted (cfg : Cfg) (flt : Faults) (scan : List SEntry) (dst : Map DNode) (n : Nat)
    (e : SEntry) (_he : e ∈ scan) (hne : e.rel ≠ []) (hp : dst.get? e.rel ≠ none)
    (hstale : ∀ t ∈ plan cfg scan dst, t.act = .delete → isPrefix t.rel e.rel = false)
    (hflt : ∀ t ∈ plan cfg scan dst, t.rel = e.rel → flt t ≠ some none) :
    (runF cfg flt scan dst n).dst.get? e.rel ≠ none := by
  cases hr : (runF cfg flt scan dst n).refused with
  | true => rw [runF_refused_dst hr]; exact hp
  | false =>
    rw [(runF_of_not_refused hr).1]
    apply foldl_present cfg flt _ _ _ hne hp hstale
    intro t ht hrel
    unfold faultOf
    split
    · simp
    · exact hflt t ht hrel

/-- With a parent-closed scan no scanned path sits below a stale directory, so the proviso of
    `counterpart_never_deleted` holds by itself. -/
theorem counterpart_never_deleted_wf (cfg : Cfg) (flt : Faults) (scan : List SEntry) (dst : Map DNode) (n : Nat)
    (hc : ParentClosed scan) (hroot : dst.get? [] = none)
    (e : SEntry) (he : e ∈ scan) (hp : dst.get? e.rel ≠ none)
    (hflt : ∀ t ∈ plan cfg scan dst, t.rel = e.rel → flt t ≠ some none) :
    (runF cfg flt scan dst n).dst.get? e.rel ≠ none := by
  apply counterpart_never_deleted cfg flt scan dst n e he (fun h => hp (h ▸ hroot)) hp _ hflt
  intro t ht ha
  rw [plan_eq] at ht
  rcases List.mem_append.1 ht with ht | ht
  · obtain ⟨s, _, rfl⟩ := List.mem_map.1 ht
    exact absurd ha (planEntry_act_ne_delete _ _ _)
  · split at ht
    · exact deletion_not_above hc hroot ht he
    · cases ht

/-- **Without `--delete` extras are untouched.**  A destination path that is not a scanned source
    path holds the same node after the run, under every fault plan; the only thing that can
    happen to an *absent* non-source path is to be created as a parent directory of a selected
    entry. -/
theorem extras_untouched (cfg : Cfg) (hd : cfg.delete = false) (flt : Faults) (scan : List SEntry)
    (dst : Map DNode) (n : Nat) (p : Path) (hp : ∀ e ∈ scan, e.rel ≠ p) :
    (dst.get? p ≠ none → (runF cfg flt scan dst n).dst.get? p = dst.get? p) ∧
    ((runF cfg flt scan dst n).dst.get? p = dst.get? p ∨
      ((runF cfg flt scan dst n).dst.get? p = some .dir ∧
        ∃ e ∈ scanFilter cfg scan, isPrefix p e.rel = true ∧ p ≠ e.rel)) := by
  have main : (runF cfg flt scan dst n).dst.get? p = dst.get? p ∨
      (dst.get? p = none ∧ (runF cfg flt scan dst n).dst.get? p = some .dir ∧
        ∃ e ∈ scanFilter cfg scan, isPrefix p e.rel = true ∧ p ≠ e.rel) := by
    cases hr : (runF cfg flt scan dst n).refused with
    | true => rw [runF_refused_dst hr]; exact Or.inl rfl
    | false =>
      rw [(runF_of_not_refused hr).1, finalExec_eq]
      simp only [hd, Bool.false_eq_true, ↓reduceIte, List.foldl_nil]
      rcases entry_tasks_frame cfg flt scan dst (initExec dst n) p
        (fun e he => hp e (mem_of_mem_scanFilter he)) with h | ⟨a, b, _, c⟩
      · exact Or.inl h
      · exact Or.inr ⟨a, b, c⟩
  refine ⟨fun hpres => ?_, ?_⟩
  · rcases main with h | ⟨a, _⟩
    · exact h
    · exact absurd a hpres
  · rcases main with h | ⟨_, b, c⟩
    · exact Or.inl h
    · exact Or.inr ⟨b, c⟩

/-- **Exact mirror.**  With `--delete`, nothing filtered out, links preserved and exit status 0,
    the destination paths other than sy's own metadata files are exactly the scanned source
    paths. -/
theorem mirror (cfg : Cfg) (hnd : cfg.dryRun = false) (hd : cfg.delete = true) (hl : cfg.links = .preserve)
    (flt : Faults) (scan : List SEntry) (dst : Map DNode) (n : Nat)
    (hall : scanFilter cfg scan = scan) (hu : UniqueRels scan) (hc : ParentClosed scan) (hnr : NoRoot scan)
    (hroot : dst.get? [] = none) (hino : cfg.hardlinks = true → InoConsistent scan)
    (hok : (runF cfg flt scan dst n).exit = 0) (p : Path) (hown : p ∉ ownMetadata) :
    (runF cfg flt scan dst n).dst.get? p ≠ none ↔ ∃ e ∈ scan, e.rel = p := by
  constructor
  · intro h
    rcases result_paths_scanned hnd hd hc hok p h with h | h
    · exact h
    · exact absurd h hown
  · rintro ⟨e, he, rfl⟩
    have hes : e ∈ scanFilter cfg scan := by rw [hall]; exact he
    have ep := entryPost_of_exit_zero hnd flt scan dst n hu (fun _ => ⟨hc, hroot⟩) hino hes hok
    cases hk : e.kind with
    | dir => rw [ep.dir hk (hnr e he)]; simp
    | file m k => obtain ⟨d, h1, _⟩ := ep.file m k hk; rw [h1]; simp
    | symlink text tgt => rw [ep.link_preserve text tgt hk hl]; simp

/-- **Removing a stale directory together with its contents completes without spurious errors,
    in any order of the delete tasks**: every permutation `π` of any list of delete tasks `ds`,
    run from any state, adds no error; and on a parent-closed destination (a real tree) every
    order ends in the same destination — exactly the paths at or below a deleted path are gone. -/
theorem stale_dir_no_errors (cfg : Cfg) (hnd : cfg.dryRun = false) (ds π : List Task) (hperm : π.Perm ds)
    (hdel : ∀ t ∈ ds, t.act = .delete) (st : Exec) :
    (π.foldl (execTask cfg noFaults) st).b.errors = st.b.errors ∧
    (DstParentClosed st.w.dst → (∀ t ∈ ds, t.rel ≠ []) → ∀ x,
      (π.foldl (execTask cfg noFaults) st).w.dst.get? x =
        (if ds.any (fun t => isPrefix t.rel x) then none else st.w.dst.get? x) ∧
      (π.foldl (execTask cfg noFaults) st).w.dst.get? x = (ds.foldl (execTask cfg noFaults) st).w.dst.get? x) := by
  have hdelπ : ∀ t ∈ π, t.act = .delete := fun t ht => hdel t (hperm.mem_iff.1 ht)
  refine ⟨foldl_deletes_errors hnd π st hdelπ, fun hc hne x => ?_⟩
  have hc' := (gclosed_iff _).2 hc
  have hany : π.any (fun t => isPrefix t.rel x) = ds.any (fun t => isPrefix t.rel x) := by
    rw [Bool.eq_iff_iff]
    simp only [List.any_eq_true]
    constructor <;> rintro ⟨t, ht, h⟩
    · exact ⟨t, hperm.mem_iff.1 ht, h⟩
    · exact ⟨t, hperm.mem_iff.2 ht, h⟩
  have h1 := foldl_deletes_get? hnd π st hdelπ (fun t ht => hne t (hperm.mem_iff.1 ht)) hc' x
  have h2 := foldl_deletes_get? hnd ds st hdel hne hc' x
  rw [hany] at h1
  exact ⟨h1, h1.trans h2.symm⟩

/-- the deletions planned by a run are delete tasks at non-root paths (so `stale_dir_no_errors`
    applies to them in every order) -/
theorem planned_deletions_ok (filtered scan : List SEntry) (dst : Map DNode) (hroot : dst.get? [] = none) :
    ∀ t ∈ planDeletions filtered scan dst, t.act = .delete ∧ t.rel ≠ [] := by
  intro t ht
  obtain ⟨p, rfl, hk, _⟩ := mem_planDeletions.1 ht
  refine ⟨rfl, ?_⟩
  intro h; simp only at h; subst h
  exact ((Map.mem_keys_iff dst []).1 hk) hroot

/-! ### non-vacuity -/

def exCfg : Cfg where
  delete := true
  force := true
  dryRun := false
  xattrs := true
  hardlinks := false
  threshold := 50
  links := .preserve
  compare := .default
  minSize := none
  maxSize := none
  maxErrors := 100
  tie := false

/-- the example tree without the excluded entry: nothing is filtered out -/
def scanAll : List SEntry := exScan.take 5

/-- a destination with sy's own metadata file and a nested stale directory -/
def dstStale : Map DNode :=
  [ ([".sy-state.json"], .file (exMeta 4 4 4 4)), (["d"], .dir), (["d", "f"], .file (exMeta 0 10 1000000000 100)),
    (["x"], .dir), (["x", "y"], .dir), (["x", "y", "z"], .file (exMeta 5 1 1 101)) ]

example : planDeletionsBloom (fun _ => true) scanAll scanAll dstStale = planDeletions scanAll scanAll dstStale :=
  bloom_eq_set _ _ _ _ (fun _ _ => rfl)
example : (planDeletions scanAll scanAll dstStale).map (·.rel) = [["x"], ["x", "y"], ["x", "y", "z"]] := by decide

/-- `big` is excluded by a rule, present in both trees: it survives `--delete` -/
example : (run exCfg exScan ((["big"], .file (exMeta 9 900 1 200)) :: dstStale) 1000).dst.get? ["big"] ≠ none :=
  counterpart_never_deleted_wf exCfg noFaults exScan _ 1000 (by decide) (by decide)
    ⟨["big"], .file (exMeta 9 900 1 8) 1, 900, true⟩ (by decide) (by decide) (fun _ _ _ => by simp [noFaults])

example : (run { exCfg with delete := false } exScan dstStale 1000).dst.get? ["x", "y", "z"]
    = dstStale.get? ["x", "y", "z"] :=
  (extras_untouched { exCfg with delete := false } rfl noFaults exScan dstStale 1000 ["x", "y", "z"] (by decide)).1
    (by decide)

example : (run exCfg scanAll dstStale 1000).dst.get? ["x", "y"] = none := by
  have h := mirror exCfg rfl rfl rfl noFaults scanAll dstStale 1000 (by decide) (by decide) (by decide) (by decide)
    (by decide) (fun h => by cases h) (by decide) ["x", "y"] (by decide)
  cases hg : (run exCfg scanAll dstStale 1000).dst.get? ["x", "y"] with
  | none => rfl
  | some v =>
    exfalso
    have : ∃ e ∈ scanAll, e.rel = ["x", "y"] := h.1 (by unfold run at hg; rw [hg]; simp)
    revert this; decide

/-- children first, parent last — the order that produced one `NotFound` per child before the fix -/
example : ((planDeletions scanAll scanAll dstStale).reverse.foldl (execTask exCfg noFaults)
    (initExec dstStale 1)).b.errors = [] :=
  (stale_dir_no_errors exCfg rfl _ _ (List.reverse_perm _) (fun _ ht => planDeletions_act ht) _).1

example : DstParentClosed dstStale := by decide

/-- … and in that order, too, the whole stale subtree is gone and nothing else -/
example : ((planDeletions scanAll scanAll dstStale).reverse.foldl (execTask exCfg noFaults)
      (initExec dstStale 1)).w.dst.get? ["x", "y", "z"] = none ∧
    ((planDeletions scanAll scanAll dstStale).reverse.foldl (execTask exCfg noFaults)
      (initExec dstStale 1)).w.dst.get? ["d", "f"] = dstStale.get? ["d", "f"] := by
  have h := (stale_dir_no_errors exCfg rfl _ _ (List.reverse_perm (planDeletions scanAll scanAll dstStale))
    (fun _ ht => planDeletions_act ht) (initExec dstStale 1)).2 (by decide)
    (fun t ht => (planned_deletions_ok scanAll scanAll dstStale (by decide) t ht).2)
  exact ⟨(h _).1.trans (by decide), (h _).1.trans (by decide)⟩

end SyModel.Props.C06
