/-
  Refine — the step-level model refines the entry-level engine model (closes DESIGN §12.2,
  "the refinement between step lists and `Engine.perform` is not proved; it is tested").

  Two handwritten models describe what one planned task does to the destination tree:
    * entry level, `SyModel/Engine/Model.lean`: `perform` / `execTask` / `run` on a finite map
      `Map DNode`, tasks run to completion (C01, C03, C06, C07, C08, C10, C17, C19);
    * step level, `SyModel/Engine/Steps.lean`: `stepsOfH … old task : List Step`, one `Step` per
      mutating system call, `applyAll` on worlds `Path → Option SNode` (C05, C09).
  This file connects them: `ofMap` (forget inode numbers and xattrs, which no step mentions) is a
  simulation from the entry level to the step level, task by task, run by run, and — through C05's
  main theorem — for every interleaving the semaphore admits.

  Property theorems only; helper lemmas are in `SyModel/Lemmas/StepsRefine.lean`.  Everything is for
  ALL configurations, thresholds, chunk sizes, suffixes, routes (`Hint`), destinations and tasks — by
  case analysis and induction, nothing is enumerated.

  The two models genuinely differ in four situations.  Each is excluded by a named hypothesis
  (`TaskFits`, `RunOK`) and shown on a concrete witness (`refines_counterexample_*`):
    1. `enotdir`      a strict ancestor of the path is a file/symlink — the step level has no ENOTDIR;
    2. (`update_dir`, an `update` carrying a directory, was a difference until fix 862af11: the code did nothing.
       Now it is planned exactly for a destination link standing where the source has a directory
       (`plan_update_dir_link`), the step list is `unlinkIfSymlink p, create_dir_all p`, and both levels agree —
       `refines_update_dir_over_link`; the hypothesis `noUpdateDir` is gone from `TaskFits` and `RunOK`.  What stays
       outside the RUN-level statements is a replaced link WITH planned entries below it: the engine serialises the
       replacement before everything else (a barrier the free interleaving does not have), `PlanOK.tree` /
       `RunOK.parents` exclude it — `planOK_excludes_link_with_children`.)
    3. `temp_in_use`  something exists at the working-file path — the known finding
                      `C05/user-file-named-like-temp`, seen from the other side;
    4. `not_a_tree`   the destination map has an entry without its parents — not a file system;
    5. hard-link group members under `-H` (`linkFile`/`relinkFile`) — outside the step level by
       design (`isLinkTask`: creates AND updates of multiply-named files, C13); excluded by
       `noLinkMember` / `NoLinkTasks`.
-/
import SyModel.Lemmas.StepsRefine
import SyModel.Props.C05
set_option linter.unusedVariables false
namespace SyModel.Props.Refine
open SyModel SyModel.Engine

/-! ### 1. one task -/

/-- **Refinement of one task** (every task kind, every route).  Let `w` be the entry-level world
    the task finds and compile the task against the node it finds at its path
    (`old = w.dst.get? t.rel`).  Executing the WHOLE step list on the step-level view `ofMap w.dst`
    gives the step-level view of the destination the entry-level task leaves: `w'.dst` when
    `perform` succeeds, the unchanged `w.dst` when it fails (`taskDst`; this is what `execTask`
    keeps).  Covers: create / update of files on the full-copy, followed-link, in-place, sparse-seek,
    sparse-blocks and temp + rename routes (any `Hint`, with or without link breaking), directories,
    symlinks, payload-less tasks, delete of a file / link / tree / vanished path, skip, dry run;
    under `-H` also the first member of a link group.  Hypotheses: `TaskFits` (four fields, each
    excluding one genuine difference between the models — see there). -/
theorem task_refines (cfg : Cfg) (thr ch : Nat) (sfx : String) (h : Hint) (w : World) (t : Task)
    (hf : TaskFits cfg thr sfx h w t) :
    applyAll (stepsOfH cfg thr ch sfx h (w.dst.get? t.rel) t) (ofMap w.dst) = ofMap (taskDst cfg w t) :=
  Engine.task_refines ch hf

/-- the same for the default compilation `stepsOf` (block-delta route, no link breaking) -/
theorem task_refines_default (cfg : Cfg) (thr ch : Nat) (sfx : String) (w : World) (t : Task)
    (hf : TaskFits cfg thr sfx {} w t) :
    applyAll (stepsOf cfg thr ch sfx (w.dst.get? t.rel) t) (ofMap w.dst) = ofMap (taskDst cfg w t) :=
  Engine.task_refines ch hf

/-- a task that succeeds at the entry level: the steps produce exactly its destination -/
theorem task_refines_ok (cfg : Cfg) (thr ch : Nat) (sfx : String) (h : Hint) (w w' : World) (t : Task)
    (hf : TaskFits cfg thr sfx h w t) (hp : perform cfg w t = some w') :
    applyAll (stepsOfH cfg thr ch sfx h (w.dst.get? t.rel) t) (ofMap w.dst) = ofMap w'.dst := by
  rw [Engine.task_refines ch hf]; unfold taskDst; rw [hp]

/-- a task that fails at the entry level (type conflict: a directory where a file or link is to be
    written, a file or link where a directory is to be created): every one of its system calls
    fails or is a no-op, the destination is as before -/
theorem task_refines_failed (cfg : Cfg) (thr ch : Nat) (sfx : String) (h : Hint) (w : World) (t : Task)
    (hf : TaskFits cfg thr sfx h w t) (hp : perform cfg w t = none) :
    applyAll (stepsOfH cfg thr ch sfx h (w.dst.get? t.rel) t) (ofMap w.dst) = ofMap w.dst := by
  rw [Engine.task_refines ch hf]; unfold taskDst; rw [hp]

/-- `taskDst` is what the fault-free `execTask` leaves as destination -/
theorem execTask_dst (cfg : Cfg) (st : Exec) (t : Task) :
    (execTask cfg noFaults st t).w.dst = taskDst cfg st.w t := execTask_noFaults_dst cfg st t

/-- A delete task compiled against a destination in which its target still existed, run after the
    target went away with an ancestor directory: its `unlink` / `remove_dir_all` finds nothing, like
    the entry-level task (`NotFound` is tolerated, mod.rs:1079-1087). -/
theorem stale_delete_refines (cfg : Cfg) (thr ch : Nat) (sfx : String) (h : Hint) (w : World) (t : Task)
    (old : Option DNode) (hact : t.act = .delete)
    (hgone : ∀ x, isPrefix t.rel x = true → w.dst.get? x = none) :
    applyAll (stepsOfH cfg thr ch sfx h old t) (ofMap w.dst) = ofMap (taskDst cfg w t) := by
  obtain ⟨h1, h2⟩ := delete_gone (cfg := cfg) (thr := thr) ch (sfx := sfx) (h := h) hact hgone old
  rw [h1, h2]

/-! ### 2. runs -/

/-- **Refinement of a run, any task list.**  `taskLists` compiles every task against the INITIAL
    destination.  Under `RunOK` — the plan is laid out over a tree (`PlanOK`), temp paths are fresh
    (`TempFresh`), the initial destination is a tree (`Closed`), no planned write lies below a file
    or link (`parents`), no `update` carries a directory, no hard-link groups under `-H` — the step
    lists executed one after the other, in task order, on `ofMap dst` yield `ofMap` of the
    destination of the fault-free entry-level run (the fold of `execTask`). -/
theorem tasks_run_refines (cfg : Cfg) (thr ch : Nat) (sfx : String) (hint : Task → Hint)
    (tasks : List Task) (dst : Map DNode) (nextIno : Nat) (h : RunOK cfg sfx tasks dst) :
    applyAll (taskLists cfg thr ch sfx hint dst tasks).flatten (ofMap dst) =
      ofMap (tasks.foldl (execTask cfg noFaults) (initExec dst nextIno)).w.dst :=
  Engine.tasks_run_refines ch h hint nextIno

/-- The planner emits an `update` that carries a directory only to replace a destination symlink standing where
    the source has a directory (fix 862af11).  (Until that fix: never — `plan_no_update_dir`.) -/
theorem plan_update_dir_link (cfg : Cfg) (scan : List SEntry) (dst : Map DNode) :
    ∀ t ∈ plan cfg scan dst, t.act = .update → t.payload = .dir → ∃ s, dst.get? t.rel = some (.symlink s) :=
  Engine.plan_update_dir_link cfg scan dst

/-- `RunOK` for a planned run from its four substantial hypotheses and: no task of the plan goes
    through the hard-link protocol (`NoLinkTasks`: exactly the tasks `taskLists` filters out; implied
    by `-H` off, `noLinkTasks_of_hardlinks_off`, and by `NoLinkGroups`, `noLinkTasks_of_noLinkGroups`;
    up-to-date members of link groups, planned as `skip`, are allowed). -/
theorem plan_runOK (cfg : Cfg) (sfx : String) (scan : List SEntry) (dst : Map DNode)
    (hok : PlanOK (plan cfg scan dst)) (hfresh : TempFresh sfx (plan cfg scan dst) (ofMap dst))
    (hclosed : Closed dst)
    (hparents : ∀ t ∈ plan cfg scan dst, t.writes →
      ∀ q ∈ ancestors t.rel, dst.get? q = none ∨ dst.get? q = some .dir)
    (hnl : NoLinkTasks cfg (plan cfg scan dst)) : RunOK cfg sfx (plan cfg scan dst) dst :=
  ⟨hok, hfresh, hclosed, hparents, hnl⟩

/-- **Refinement of `run`.**  For a planned run that the deletion guard does not refuse, the
    sequential step-level run ends in `ofMap` of `(run cfg scan dst n).dst`. -/
theorem run_refines (cfg : Cfg) (thr ch : Nat) (sfx : String) (hint : Task → Hint)
    (scan : List SEntry) (dst : Map DNode) (nextIno : Nat)
    (h : RunOK cfg sfx (plan cfg scan dst) dst) (hnr : (run cfg scan dst nextIno).refused = false) :
    applyAll (taskLists cfg thr ch sfx hint dst (plan cfg scan dst)).flatten (ofMap dst) =
      ofMap (run cfg scan dst nextIno).dst := by
  rw [run_dst_of_not_refused cfg scan dst nextIno hnr]
  exact Engine.tasks_run_refines ch h hint nextIno

/-- A refused run executes no task at either level: the destination is unchanged (the step lists
    are never started, mod.rs:525-586). -/
theorem refused_run_unchanged (cfg : Cfg) (scan : List SEntry) (dst : Map DNode) (nextIno : Nat)
    (h : (run cfg scan dst nextIno).refused = true) : (run cfg scan dst nextIno).dst = dst :=
  run_dst_of_refused cfg scan dst nextIno h

/-! ### 3. every interleaving -/

/-- **Every interleaving ends in the entry-level result** (any task list).  Combine
    `C05.interleave_eq_seq` with the run refinement: whatever interleaving `σ` of the tasks' step
    lists is executed, the final world is `ofMap` of the sequential entry-level run's destination. -/
theorem interleaving_refines (cfg : Cfg) (thr ch : Nat) (sfx : String) (hint : Task → Hint)
    (tasks : List Task) (dst : Map DNode) (nextIno : Nat) (h : RunOK cfg sfx tasks dst)
    (σ : List Step) (hσ : Interleaving (taskLists cfg thr ch sfx hint dst tasks) σ) :
    applyAll σ (ofMap dst) =
      ofMap (tasks.foldl (execTask cfg noFaults) (initExec dst nextIno)).w.dst := by
  rw [C05.interleave_eq_seq (C05.tasks_independent cfg thr ch sfx hint tasks dst (ofMap dst) h.plan h.fresh) hσ]
  exact Engine.tasks_run_refines ch h hint nextIno

/-- **Corollary of C05.**  For every worker count `j ≥ 1` and every run `σ` that a `j`-permit
    semaphore admits over the tasks of the plan: the final destination is the step-level view of
    the destination of the entry-level `run` — the object the theorems of C01, C03, C06, C07, C08,
    C10, C17 and C19 speak about — and no working file remains. -/
theorem C05_refines_run (cfg : Cfg) (thr ch : Nat) (sfx : String) (hint : Task → Hint)
    (scan : List SEntry) (dst : Map DNode) (nextIno : Nat)
    (h : RunOK cfg sfx (plan cfg scan dst) dst) (hnr : (run cfg scan dst nextIno).refused = false)
    (j : Nat) (hj : 1 ≤ j) (σ : List Step)
    (hσ : SemRun j (initSlots (taskLists cfg thr ch sfx hint dst (plan cfg scan dst))) σ) :
    applyAll σ (ofMap dst) = ofMap (run cfg scan dst nextIno).dst ∧ NoTemp (applyAll σ (ofMap dst)) := by
  obtain ⟨h1, h2⟩ := C05.C05 cfg thr ch sfx hint scan dst h.plan h.fresh j hj σ hσ
  exact ⟨by rw [h1]; exact run_refines cfg thr ch sfx hint scan dst nextIno h hnr, h2⟩

/-- Consequently two admitted runs — any worker counts, any schedules — agree with each other and
    with the entry-level result on every path, including inode-blind file metadata. -/
theorem C05_runs_agree_on_entries (cfg : Cfg) (thr ch : Nat) (sfx : String) (hint : Task → Hint)
    (scan : List SEntry) (dst : Map DNode) (nextIno : Nat)
    (h : RunOK cfg sfx (plan cfg scan dst) dst) (hnr : (run cfg scan dst nextIno).refused = false)
    (j : Nat) (hj : 1 ≤ j) (σ : List Step)
    (hσ : SemRun j (initSlots (taskLists cfg thr ch sfx hint dst (plan cfg scan dst))) σ) (x : Path) :
    applyAll σ (ofMap dst) x = ((run cfg scan dst nextIno).dst.get? x).map embed := by
  rw [(C05_refines_run cfg thr ch sfx hint scan dst nextIno h hnr j hj σ hσ).1]; rfl

/-! ### where the two models differ (each hypothesis is needed) -/

def cfg0 : Cfg := C05.cfg0

def w0 (dst : Map DNode) : World := (initExec dst 100).w

/-- `Refine/enotdir` — `TaskFits.parents`.  Source: directory `d` with a file `d/x`; destination: a
    regular FILE `d`.  The planner emits `create d` (fails, fix 481828a) and `create d/x`.  Entry
    level: `create_dir_all(d)` fails, the task fails, nothing changes (this is what the kernel does:
    ENOTDIR).  Step level: `mkdir d` is the tolerated EEXIST and `open(d/x)` "succeeds" — a file below
    a file.  The step-level model has no ENOTDIR; C05/C09 are silent about such destinations. -/
theorem refines_counterexample_enotdir :
    let dst : Map DNode := [(["d"], .file ⟨7, 3, 4, [], 1⟩)]
    let t : Task := ⟨.create, ["d", "x"], .file ⟨1, 10, 200, [], 12⟩ 1⟩
    perform cfg0 (w0 dst) t = none ∧
    ofMap (taskDst cfg0 (w0 dst) t) ["d", "x"] = none ∧
    applyAll (stepsOf cfg0 5000 1000 ".sy.tmp" (dst.get? t.rel) t) (ofMap dst) ["d", "x"] =
      some (.file 1 10 200) ∧
    ¬ TaskFits cfg0 5000 ".sy.tmp" {} (w0 dst) t := by
  refine ⟨by decide, by decide, by decide, ?_⟩
  intro h
  have := h.parents (by decide) ["d"] (by decide)
  revert this; decide

/-- The same situation as a whole planned run — a REACHABLE input: the plan is `create d`,
    `create d/x`; `PlanOK`, `TempFresh`, `Closed`, `NoLinkTasks` all hold and the guard does not
    refuse, only `RunOK.parents` fails.  Both entry-level tasks fail and the destination keeps the
    file `d` alone (what the program does: two errors, exit 1); the sequential step-level run ends
    with a file `d/x` below the file `d`. -/
theorem run_refines_counterexample_enotdir :
    let scan : List SEntry := [⟨["d"], .dir, 0, false⟩, ⟨["d", "x"], .file ⟨1, 10, 200, [], 12⟩ 1, 10, false⟩]
    let dst : Map DNode := [(["d"], .file ⟨7, 3, 4, [], 1⟩)]
    (plan cfg0 scan dst).map (fun t => (t.act, t.rel)) = [(.create, ["d"]), (.create, ["d", "x"])] ∧
    PlanOK (plan cfg0 scan dst) ∧ TempFresh ".sy.tmp" (plan cfg0 scan dst) (ofMap dst) ∧ Closed dst ∧
    NoLinkTasks cfg0 (plan cfg0 scan dst) ∧ (run cfg0 scan dst 100).refused = false ∧
    (run cfg0 scan dst 100).errors = [(.create, ["d"]), (.create, ["d", "x"])] ∧
    ofMap (run cfg0 scan dst 100).dst ["d", "x"] = none ∧
    applyAll (taskLists cfg0 5000 1000 ".sy.tmp" (fun _ => {}) dst (plan cfg0 scan dst)).flatten (ofMap dst)
      ["d", "x"] = some (.file 1 10 200) := by
  intro scan dst
  refine ⟨by decide, ?_, ?_, ?_, ?_, by decide, by decide, by decide, by decide⟩
  · exact ⟨by decide, by decide, by decide⟩
  · exact ⟨by decide, by decide⟩
  · exact closed_of_closedB (by decide)
  · exact noLinkTasks_of_hardlinks_off _ rfl

/-- The former `Refine/update-dir` difference is gone (fix 862af11): an `update` that carries a directory, over a
    destination symlink `d -> /outside` — the step list is `unlinkIfSymlink d`, `mkdir d`; `TaskFits` holds; both
    levels end with the directory `d` (the link's text is never used), and `task_refines` applies.  On an empty
    destination (the old witness) both levels create the directory as well. -/
theorem refines_update_dir_over_link :
    let dst : Map DNode := [(["d"], .symlink "/outside")]
    let t : Task := ⟨.update, ["d"], .dir⟩
    stepsOf cfg0 5000 1000 ".sy.tmp" (dst.get? t.rel) t = [Step.unlinkIfSymlink ["d"], Step.mkdir ["d"]] ∧
    TaskFits cfg0 5000 ".sy.tmp" {} (w0 dst) t ∧
    ofMap (taskDst cfg0 (w0 dst) t) ["d"] = some .dir ∧
    applyAll (stepsOf cfg0 5000 1000 ".sy.tmp" (dst.get? t.rel) t) (ofMap dst) = ofMap (taskDst cfg0 (w0 dst) t) ∧
    applyAll (stepsOf cfg0 5000 1000 ".sy.tmp" none t) (ofMap []) ["d"] = some .dir ∧
    ofMap (taskDst cfg0 (w0 []) t) ["d"] = some .dir := by
  intro dst t
  have hf : TaskFits cfg0 5000 ".sy.tmp" {} (w0 dst) t :=
    ⟨by decide, by decide, by decide, by intro _ m n h; cases h⟩
  exact ⟨by decide, hf, by decide, task_refines_default cfg0 5000 1000 _ (w0 dst) t hf, by decide, by decide⟩

/-- What the RUN-level statements still exclude: a replaced link with a planned entry below it.  The plan is
    `update d` (directory over the link), `create d/x`; the engine completes the first before it starts the second
    (barrier, src/sync/mod.rs), the free interleaving of `PlanOK` has no such barrier: `PlanOK.tree` fails (and so
    does `RunOK.parents`: `d/x` lies below a link of the initial destination).  The entry-level run — which runs
    tasks in plan order — succeeds: `dir_over_own_link_replaced` (Props/C02). -/
theorem planOK_excludes_link_with_children :
    let scan : List SEntry := [⟨["d"], .dir, 0, false⟩, ⟨["d", "x"], .file ⟨1, 10, 200, [], 12⟩ 1, 10, false⟩]
    let dst : Map DNode := [(["d"], .symlink "/outside")]
    (plan cfg0 scan dst).map (fun t => (t.act, t.rel)) = [(.update, ["d"]), (.create, ["d", "x"])] ∧
    ¬ PlanOK (plan cfg0 scan dst) ∧ (run cfg0 scan dst 100).exit = 0 ∧
    (run cfg0 scan dst 100).dst.get? ["d"] = some .dir ∧
    ((run cfg0 scan dst 100).dst.get? ["d", "x"]).map embed = some (.file 1 10 200) := by
  intro scan dst
  refine ⟨by decide, ?_, by decide, by decide, by decide⟩
  intro h
  have := h.tree ⟨.create, ["d", "x"], .file ⟨1, 10, 200, [], 12⟩ 1⟩ (by decide) ⟨.update, ["d"], .dir⟩ (by decide)
    (by decide) (by decide) (by decide) (by decide)
  revert this; decide

/-- `Refine/temp-in-use` — `TaskFits.tempFree`.  The user's own file `x.sy.tmp` next to a large `x`
    that is updated through temp + rename: the step level (and the program: finding
    `C05/user-file-named-like-temp`) truncates it and renames it away; the entry level, which has no
    working files, keeps it. -/
theorem refines_counterexample_temp_in_use :
    let dst : Map DNode := [(["x"], .file ⟨10, 6000, 5, [], 1⟩), (["x.sy.tmp"], .file ⟨77, 3, 4, [], 2⟩)]
    let t : Task := ⟨.update, ["x"], .file ⟨1, 7000, 50000000000, [], 0⟩ 1⟩
    ofMap (taskDst cfg0 (w0 dst) t) ["x.sy.tmp"] = some (.file 77 3 4) ∧
    applyAll (stepsOf cfg0 5000 1000 ".sy.tmp" (dst.get? t.rel) t) (ofMap dst) ["x.sy.tmp"] = none := by
  refine ⟨by decide, by decide⟩

/-- `Refine/not-a-tree` — `TaskFits.tree`.  A destination MAP may hold `a/f` without `a`; a file
    system cannot.  Updating the large `a/f` through temp + rename issues no `mkdir`, whereas the
    entry-level `writeFile` always runs `create_dir_all(parent)` and materialises `a`. -/
theorem refines_counterexample_not_a_tree :
    let dst : Map DNode := [(["a", "f"], .file ⟨10, 6000, 5, [], 1⟩)]
    let t : Task := ⟨.update, ["a", "f"], .file ⟨1, 7000, 50000000000, [], 0⟩ 1⟩
    ¬ Closed dst ∧
    ofMap (taskDst cfg0 (w0 dst) t) ["a"] = some .dir ∧
    applyAll (stepsOf cfg0 5000 1000 ".sy.tmp" (dst.get? t.rel) t) (ofMap dst) ["a"] = none := by
  refine ⟨?_, by decide, by decide⟩
  intro h
  have := h ["a", "f"] (by decide) ["a"] (by decide)
  revert this; decide

/-- `Refine/link-member` — `TaskFits.noLinkMember`.  Under `-H`, a later member of a source
    hard-link group is not written but linked to the first member's destination
    (`transfer_link_member` → `relinkFile`); the step lists know nothing of the link map (hard-link
    tasks — creates and updates alike — are outside the free interleaving by design: `isLinkTask`,
    C13; this task is one, so `taskLists` drops it and `stepsOf` is applied by hand here).  The first
    member's destination holds content 9, the task's source content is 1. -/
theorem refines_counterexample_link_member :
    let cfgH : Cfg := { cfg0 with hardlinks := true }
    let dst : Map DNode := [(["first"], .file ⟨9, 4, 44, [], 50⟩), (["second"], .file ⟨8, 3, 33, [], 51⟩)]
    let w : World := { dst := dst, linkMap := [(5, ["first"], 50)], nextIno := 100, bytes := 0 }
    let t : Task := ⟨.update, ["second"], .file ⟨1, 10, 200, [], 5⟩ 2⟩
    isLinkTask cfgH t = true ∧
    ofMap (taskDst cfgH w t) ["second"] = some (.file 9 4 44) ∧
    applyAll (stepsOf cfgH 5000 1000 ".sy.tmp" (dst.get? t.rel) t) (ofMap dst) ["second"] =
      some (.file 1 10 200) := by
  refine ⟨by decide, by decide, by decide⟩

/-! ### non-vacuity: the hypotheses hold on a small concrete plan and the conclusion is about it -/

namespace Example
open C05.Example

/-- the destination of C05's example: only the old large file `big` -/
theorem closed : Closed C05.Example.dst := closed_of_closedB (by decide)

/-- `RunOK` holds for C05's example plan: create `d`, `d/a`, `d/b`, update `big` (temp + rename) -/
theorem runOK : RunOK cfg0 Generated.TEMP_SUFFIX (plan cfg0 scan dst) dst :=
  plan_runOK cfg0 _ scan dst C05.example_planOK C05.example_tempFresh closed (by decide)
    (noLinkTasks_of_hardlinks_off _ rfl)

/-- the guard does not refuse it -/
theorem not_refused : (run cfg0 scan dst 100).refused = false := by decide

/-- `TaskFits` holds for the update of `big` on the initial destination (route: temp + rename) … -/
theorem fits_big : TaskFits cfg0 5000 Generated.TEMP_SUFFIX {} (w0 dst)
    ⟨.update, ["big"], .file ⟨3, 7000, 9000000000, [], 13⟩ 1⟩ where
  parents := by decide
  tree := by decide
  tempFree := by decide
  noLinkMember := by intro _ m n _ h; cases h

/-- … and for the creation of `d/a`, whose parent does not exist yet (full copy after `mkdir d`) -/
theorem fits_da : TaskFits cfg0 5000 Generated.TEMP_SUFFIX {} (w0 dst)
    ⟨.create, ["d", "a"], .file ⟨1, 2500, 100, [], 11⟩ 1⟩ where
  parents := by decide
  tree := by decide
  tempFree := by decide
  noLinkMember := by intro _ m n _ h; cases h

/-- `task_refines` applied: the seven system calls of `create d/a` yield the entry-level result,
    which holds `d` and the finished file -/
example :
    let t : Task := ⟨.create, ["d", "a"], .file ⟨1, 2500, 100, [], 11⟩ 1⟩
    applyAll (stepsOf cfg0 5000 1000 Generated.TEMP_SUFFIX (dst.get? t.rel) t) (ofMap dst) =
      ofMap (taskDst cfg0 (w0 dst) t) ∧
    (taskDst cfg0 (w0 dst) t).get? ["d"] = some .dir ∧
    ((taskDst cfg0 (w0 dst) t).get? ["d", "a"]).map embed = some (.file 1 2500 100) := by
  refine ⟨task_refines_default cfg0 5000 1000 _ (w0 dst) _ fits_da, by decide, by decide⟩

/-- a failing task (`TaskFits` holds, `perform` fails): a directory `big` where the source has a
    file — every call fails (EISDIR), the destination stays -/
example :
    let dst' : Map DNode := [(["big"], .dir)]
    let t : Task := ⟨.update, ["big"], .file ⟨3, 7000, 9000000000, [], 13⟩ 1⟩
    perform cfg0 (w0 dst') t = none ∧
    applyAll (stepsOf cfg0 5000 1000 Generated.TEMP_SUFFIX (dst'.get? t.rel) t) (ofMap dst') = ofMap dst' := by
  intro dst' t
  have hf : TaskFits cfg0 5000 Generated.TEMP_SUFFIX {} (w0 dst') t :=
    ⟨by decide, by decide, by decide, by intro _ m n _ h; cases h⟩
  exact ⟨by decide, task_refines_failed cfg0 5000 1000 _ {} (w0 dst') t hf (by decide)⟩

/-- `stale_delete_refines` is about a real situation: `old/x` planned for deletion after `old` -/
example :
    let dst' : Map DNode := [(["keep"], .dir)]
    let t : Task := ⟨.delete, ["old", "x"], .nothing⟩
    applyAll (stepsOfH cfg0 5000 1000 Generated.TEMP_SUFFIX {} (some (.file ⟨1, 2, 3, [], 4⟩)) t) (ofMap dst') =
      ofMap (taskDst cfg0 (w0 dst') t) := by
  intro dst' t
  refine stale_delete_refines cfg0 5000 1000 _ {} (w0 dst') t _ rfl ?_
  intro x hx
  have hne : x ≠ ["keep"] := by intro h; subst h; revert hx; decide
  simp [dst', w0, initExec, Map.get?_cons, Ne.symm hne]

/-- the conclusion of `C05_refines_run` on the example: every admitted interleaving, for every
    worker count, ends in the entry-level run's destination — which is the synced tree -/
example (j : Nat) (hj : 1 ≤ j) (σ : List Step) (hσ : SemRun j (initSlots lists) σ) :
    applyAll σ (ofMap dst) = ofMap (run cfg0 scan dst 100).dst ∧
    (run cfg0 scan dst 100).dst.get? ["d"] = some .dir ∧
    ((run cfg0 scan dst 100).dst.get? ["d", "a"]).map embed = some (.file 1 2500 100) ∧
    ((run cfg0 scan dst 100).dst.get? ["d", "b"]).map embed = some (.file 2 10 200) ∧
    ((run cfg0 scan dst 100).dst.get? ["big"]).map embed = some (.file 3 7000 9000000000) ∧
    (run cfg0 scan dst 100).dst.get? ["big.sy.tmp"] = none := by
  refine ⟨(C05_refines_run cfg0 5000 1000 Generated.TEMP_SUFFIX (fun _ => {}) scan dst 100 runOK
    not_refused j hj σ hσ).1, by decide, by decide, by decide, by decide, by decide⟩

def singleName (t : Task) : Bool :=
  match t.payload with
  | .file _ n => decide (n ≤ 1)
  | _ => true

/-- `NoLinkGroups` is not vacuous under `-H` either: a plan whose files all have one name -/
example : NoLinkGroups { cfg0 with hardlinks := true } (plan cfg0 scan dst) := by
  intro t ht m n hp _
  have : ∀ t ∈ plan cfg0 scan dst, singleName t = true := by decide
  have := this t ht
  unfold singleName at this
  rw [hp] at this; simpa using this

/-- `NoLinkTasks` under `-H` with a real link group in the source: both names are up to date at
    the destination (planned as `skip`), a third file is new.  `NoLinkGroups` fails here, `NoLinkTasks`
    holds — the second run of a `-H` sync is covered. -/
example :
    let cfgH : Cfg := { cfg0 with hardlinks := true }
    let scanH : List SEntry :=
      [⟨["l1"], .file ⟨5, 10, 200, [], 77⟩ 2, 10, false⟩, ⟨["l2"], .file ⟨5, 10, 200, [], 77⟩ 2, 10, false⟩,
       ⟨["new"], .file ⟨6, 3, 300, [], 78⟩ 1, 3, false⟩]
    let dstH : Map DNode := [(["l1"], .file ⟨5, 10, 200, [], 9⟩), (["l2"], .file ⟨5, 10, 200, [], 9⟩)]
    (plan cfgH scanH dstH).map (fun t => (t.act, t.rel)) = [(.skip, ["l1"]), (.skip, ["l2"]), (.create, ["new"])] ∧
    NoLinkTasks cfgH (plan cfgH scanH dstH) ∧ ¬ NoLinkGroups cfgH (plan cfgH scanH dstH) := by
  intro cfgH scanH dstH
  refine ⟨by decide, by unfold NoLinkTasks; decide, ?_⟩
  intro h
  have := h ⟨.skip, ["l1"], .file ⟨5, 10, 200, [], 77⟩ 2⟩ (by decide) _ _ rfl rfl
  omega

end Example

end SyModel.Props.Refine
