/-
  C13 — Hard-link structure is preserved and link coordination always terminates.
  Property theorems only; the model is `SyModel/Hardlink/Protocol.lean`, helper lemmas live in
  `SyModel/Lemmas/Hardlink*.lean`.

  All theorems are for an arbitrary number of workers `cfg.n`, arbitrary partitions into link
  groups (`(cfg.worker w).inode`), arbitrary scripted await points, arbitrary fault plans and
  arbitrary *micro-step* schedules (thread-level interleavings at mutex granularity; the
  `poll`-level schedules of a single-threaded executor are a special case, `poll_is_execution`).

  Status on the pinned tree: the shipped protocol (`Variant.pinned`) falsifies `no_stuck`
  (`no_stuck_counterexample_pinned`, the A11 hang; `lost_wakeup_counterexample_pinned`);
  `fix-c13-hardlink-hang.diff` (`Variant.repaired`) is what `no_stuck`, `no_infinite_execution`
  and `owner_failure_surfaces` are proved for.  `single_owner`, `link_structure` and `terminates`
  hold for both variants.  tokio's `Notify` is modelled, not verified.
-/
import SyModel.Lemmas.HardlinkProps
import SyModel.Lemmas.HardlinkUpdate
namespace SyModel.Props.C13
open SyModel SyModel.Hardlink

/-! ### single owner -/

/-- In every reachable state at most one worker per source inode is between a successful claim and
    the release of its claim: two claim holders of the same inode are the same worker.
    (Both variants.) -/
theorem single_owner (cfg : Cfg) (s : State) (hr : Reachable cfg s) (w₁ w₂ : Nat)
    (hl₁ : (cfg.worker w₁).linked = true) (hl₂ : (cfg.worker w₂).linked = true)
    (hsame : (cfg.worker w₁).inode = (cfg.worker w₂).inode)
    (h₁ : (s.pc w₁).holdsClaim = true) (h₂ : (s.pc w₂).holdsClaim = true) : w₁ = w₂ := by
  have hi := inv_reachable hr
  have e₁ := hi.claimMap w₁ hl₁ h₁
  have e₂ := hi.claimMap w₂ hl₂ h₂
  rw [hsame, e₂] at e₁
  cases e₁
  rfl

/-- … and the map entry always names that worker: an `InProgress` entry is held by exactly the
    worker it names (repaired protocol: a failed owner never leaves its entry behind). -/
theorem in_progress_is_held (cfg : Cfg) (hv : cfg.variant = .repaired) (s : State)
    (hr : Reachable cfg s) (i g : Nat) (h : s.map i = some (.inProgress g)) :
    g < cfg.n ∧ (cfg.worker g).inode = i ∧ (s.pc g).holdsClaim = true := by
  obtain ⟨hg, _, hino, hc⟩ := (inv_reachable hr).mapClaim i g h
  refine ⟨hg, hino, ?_⟩
  cases hc with
  | inl h => exact h
  | inr h => rw [hv] at h; cases h.1

/-! ### link structure -/

/-- Files that share a source inode are all hard-link candidates (`nlink > 1`); a file outside the
    hard-link branch has an inode of its own. -/
def WF (cfg : Cfg) : Prop :=
  ∀ w₁ w₂, w₁ < cfg.n → w₂ < cfg.n → w₁ ≠ w₂ →
    (cfg.worker w₁).inode = (cfg.worker w₂).inode →
      (cfg.worker w₁).linked = true ∧ (cfg.worker w₂).linked = true

/-- For entries created in the run (both variants, any fault plan, any schedule, any reachable
    state — in particular the final one): two destination files whose creation returned `Ok` share
    an inode **iff** their sources do, and each has its source's content. -/
theorem link_structure (cfg : Cfg) (hwf : WF cfg) (s : State) (hr : Reachable cfg s)
    (w₁ w₂ : Nat) (hw₁ : w₁ < cfg.n) (hw₂ : w₂ < cfg.n)
    (hok₁ : s.pc w₁ = .done .ok) (hok₂ : s.pc w₂ = .done .ok) :
    ∃ f₁ f₂, s.dst w₁ = some f₁ ∧ s.dst w₂ = some f₂ ∧
      (f₁.ino = f₂.ino ↔ (cfg.worker w₁).inode = (cfg.worker w₂).inode) ∧
      f₁.content = cfg.content (cfg.worker w₁).inode ∧
      f₂.content = cfg.content (cfg.worker w₂).inode := by
  have hi := inv_reachable hr
  cases hl₁ : (cfg.worker w₁).linked <;> cases hl₂ : (cfg.worker w₂).linked
  · -- two ordinary files
    refine ⟨_, _, hi.okPlain w₁ hl₁ hok₁, hi.okPlain w₂ hl₂ hok₂, ⟨?_, ?_⟩, rfl, rfl⟩
    · intro h; simp only at h; rw [h]
    · intro h
      apply Classical.byContradiction
      intro hne
      have := (hwf w₁ w₂ hw₁ hw₂ hne h).1
      rw [hl₁] at this; cases this
  · -- ordinary file and link-group member
    obtain ⟨p, hm, hd⟩ := hi.okLinked w₂ hl₂ hok₂
    obtain ⟨_, hlp, _, _, _⟩ := hi.mapDone _ p hm
    refine ⟨_, _, hi.okPlain w₁ hl₁ hok₁, hd, ⟨?_, ?_⟩, rfl, rfl⟩
    · intro h; simp only at h; rw [← h, hl₁] at hlp; cases hlp
    · intro h
      have hne : w₁ ≠ w₂ := by intro e; rw [e, hl₂] at hl₁; cases hl₁
      have := (hwf w₁ w₂ hw₁ hw₂ hne h).1
      rw [hl₁] at this; cases this
  · obtain ⟨p, hm, hd⟩ := hi.okLinked w₁ hl₁ hok₁
    obtain ⟨_, hlp, _, _, _⟩ := hi.mapDone _ p hm
    refine ⟨_, _, hd, hi.okPlain w₂ hl₂ hok₂, ⟨?_, ?_⟩, rfl, rfl⟩
    · intro h; simp only at h; rw [h, hl₂] at hlp; cases hlp
    · intro h
      have hne : w₁ ≠ w₂ := by intro e; rw [e, hl₂] at hl₁; cases hl₁
      have := (hwf w₁ w₂ hw₁ hw₂ hne h).2
      rw [hl₂] at this; cases this
  · -- two link-group members: both share the inode of the recorded first path of their group
    obtain ⟨p₁, hm₁, hd₁⟩ := hi.okLinked w₁ hl₁ hok₁
    obtain ⟨p₂, hm₂, hd₂⟩ := hi.okLinked w₂ hl₂ hok₂
    obtain ⟨_, _, hi₁, _, _⟩ := hi.mapDone _ p₁ hm₁
    obtain ⟨_, _, hi₂, _, _⟩ := hi.mapDone _ p₂ hm₂
    refine ⟨_, _, hd₁, hd₂, ⟨?_, ?_⟩, rfl, rfl⟩
    · intro h; simp only at h; rw [← hi₁, ← hi₂, h]
    · intro h; simp only; rw [h, hm₂] at hm₁; cases hm₁; rfl

/-- A run in which no operation fails. -/
def Clean (cfg : Cfg) : Prop := ∀ w, w < cfg.n → (cfg.worker w).clean = true

/-- In a clean run every worker that returns, returns `Ok` … -/
theorem clean_all_ok (cfg : Cfg) (hc : Clean cfg) (s : State) (hr : Reachable cfg s)
    (w : Nat) (r : Res) (h : s.pc w = .done r) : r = .ok := by
  obtain ⟨sched, hex⟩ := hr
  have := clean_exec hc hex (fun _ => rfl) w
  rw [h] at this
  cases r with
  | ok => rfl
  | err op => simp [Pc.errish] at this

/-- … hence in the final state of a clean run *all* destination files exist, have their source's
    content, and share an inode exactly when their sources do. -/
theorem link_structure_clean (cfg : Cfg) (hwf : WF cfg) (hc : Clean cfg) (s : State)
    (hr : Reachable cfg s) (hfin : allDone cfg s) (w₁ w₂ : Nat) (hw₁ : w₁ < cfg.n) (hw₂ : w₂ < cfg.n) :
    ∃ f₁ f₂, s.dst w₁ = some f₁ ∧ s.dst w₂ = some f₂ ∧
      (f₁.ino = f₂.ino ↔ (cfg.worker w₁).inode = (cfg.worker w₂).inode) ∧
      f₁.content = cfg.content (cfg.worker w₁).inode ∧
      f₂.content = cfg.content (cfg.worker w₂).inode := by
  have ok : ∀ w, w < cfg.n → s.pc w = .done .ok := by
    intro w hw
    have hd := hfin w hw
    cases hp : s.pc w <;> rw [hp] at hd <;> simp [Pc.isDone] at hd
    case done r => rw [clean_all_ok cfg hc s hr w r hp]
  exact link_structure cfg hwf s hr w₁ w₂ hw₁ hw₂ (ok w₁ hw₁) (ok w₂ hw₂)

/-! ### no reachable state is stuck (repaired protocol) -/

/-- Every reachable state that is not final has an enabled micro-step — whatever failed before,
    whatever the schedule was. -/
theorem no_stuck (cfg : Cfg) (hv : cfg.variant = .repaired) (s : State) (hr : Reachable cfg s)
    (hnf : ¬ allDone cfg s) : ∃ w, w < cfg.n ∧ enabled cfg s w = true := by
  have hR := invR_reachable hv hr
  have : ∃ w, w < cfg.n ∧ (s.pc w).isDone = false := by
    apply Classical.byContradiction
    intro hne
    apply hnf
    intro w hw
    cases hd : (s.pc w).isDone
    · exact absurd ⟨w, hw, hd⟩ hne
    · rfl
  obtain ⟨w, hw, hd⟩ := this
  cases enabled_or_owner_enabled hR hw hd with
  | inl h => exact ⟨w, hw, h⟩
  | inr h => obtain ⟨g, hg, _, hen⟩ := h; exact ⟨g, hg, hen⟩

/-- A blocked waiter always waits on a worker that can move: nobody waits for a worker that has
    returned or that waits itself. -/
theorem waiter_has_live_owner (cfg : Cfg) (hv : cfg.variant = .repaired) (s : State)
    (hr : Reachable cfg s) (w : Nat) (hw : w < cfg.n) (hd : (s.pc w).isDone = false)
    (hblocked : enabled cfg s w = false) :
    ∃ g, g < cfg.n ∧ (s.pc w).waitsOn = some g ∧ enabled cfg s g = true := by
  cases enabled_or_owner_enabled (invR_reachable hv hr) hw hd with
  | inl h => unfold enabled at hblocked; rw [h] at hblocked; cases hblocked
  | inr h => exact h

/-! ### termination -/

/-- The variant `measure` strictly decreases on **every** micro-step of **every** worker, in every
    state, for both variants: no livelock, no unbounded re-arming of a wait. -/
theorem terminates (cfg : Cfg) (s s' : State) (w : Nat) (l : Label)
    (h : step cfg s w = some (l, s')) : measure cfg s' < measure cfg s :=
  step_measure_lt h

/-- Hence every execution from `s` — any schedule, any worker count — has at most `measure cfg s`
    micro-steps. -/
theorem execution_bounded (cfg : Cfg) (s s' : State) (sched : List Nat) (h : Exec cfg s sched s') :
    sched.length ≤ measure cfg s := by
  have := exec_measure h
  omega

/-- There is no infinite execution: no infinite sequence of states linked by micro-steps, for any
    infinite schedule `σ`. -/
theorem no_infinite_execution (cfg : Cfg) (σ : Nat → Nat) (st : Nat → State) :
    ¬ ∀ i, ∃ l, step cfg (st i) (σ i) = some (l, st (i + 1)) := by
  intro h
  have key : ∀ i, measure cfg (st i) + i ≤ measure cfg (st 0) := by
    intro i
    induction i with
    | zero => simp
    | succ i ih =>
      obtain ⟨l, hl⟩ := h i
      have := step_measure_lt hl
      omega
  have := key (measure cfg (st 0) + 1)
  omega

/-- Repaired protocol: every maximal execution (one that stops only when no worker is enabled)
    ends with every worker returned, within `measure cfg init` micro-steps. -/
theorem every_run_completes (cfg : Cfg) (hv : cfg.variant = .repaired) (sched : List Nat) (s : State)
    (h : Exec cfg init sched s) (hmax : ∀ w, w < cfg.n → enabled cfg s w = false) :
    allDone cfg s ∧ sched.length ≤ measure cfg init := by
  refine ⟨?_, execution_bounded cfg init s sched h⟩
  apply Classical.byContradiction
  intro hnf
  obtain ⟨w, hw, hen⟩ := no_stuck cfg hv s ⟨sched, h⟩ hnf
  rw [hmax w hw] at hen
  cases hen

/-! ### a failing owner -/

/-- Repaired protocol. Let an operation `op` of hard-link candidate `g` fail in a reachable state
    (`g` is the owner of its group if `op` is a copy-side operation). Then in every maximal
    continuation: every worker has returned (nobody is left waiting), `g` returned exactly that
    error, no `InProgress` entry is left behind, and the continuation is bounded by the variant. -/
theorem owner_failure_surfaces (cfg : Cfg) (hv : cfg.variant = .repaired) (s s₁ s₂ : State)
    (hr : Reachable cfg s) (g : Nat) (op : Op) (hl : (cfg.worker g).linked = true)
    (hfail : step cfg s g = some (.opErr op, s₁))
    (sched : List Nat) (hex : Exec cfg s₁ sched s₂)
    (hmax : ∀ w, w < cfg.n → enabled cfg s₂ w = false) :
    allDone cfg s₂ ∧ s₂.pc g = .done (.err op) ∧
      (∀ i g', s₂.map i ≠ some (.inProgress g')) ∧ sched.length ≤ measure cfg s₁ := by
  have hr₁ := reachable_step hr hfail
  have hr₂ := reachable_exec hr₁ hex
  have hdone : allDone cfg s₂ := by
    apply Classical.byContradiction
    intro hnf
    obtain ⟨w, hw, hen⟩ := no_stuck cfg hv s₂ hr₂ hnf
    rw [hmax w hw] at hen
    cases hen
  obtain ⟨hg, e, hnext, rfl⟩ := step_eq_some hfail
  have h₁ : ((s.apply g (cfg.worker g).inode e).pc g).errPath op = true := by
    rw [apply_pc_self]
    exact opErr_enters_errPath _ _ _ _ _ _ _ _ _ hv hl hnext
  have h₂ := errPath_exec hex h₁
  refine ⟨hdone, ?_, ?_, execution_bounded cfg _ s₂ sched hex⟩
  · have hd := hdone g hg
    cases hp : s₂.pc g <;> rw [hp] at hd h₂ <;> simp [Pc.isDone] at hd
    case done r =>
      cases r with
      | ok => simp [Pc.errPath] at h₂
      | err o => simp [Pc.errPath] at h₂; rw [h₂]
  · intro i g' hm
    obtain ⟨hg', _, hc⟩ := in_progress_is_held cfg hv s₂ hr₂ i g' hm
    have := hdone g' hg'
    rw [Pc.holdsClaim_not_done _ hc] at this
    cases this

/-! ### the `poll` macro-step of a single-threaded executor -/

/-- One `poll` of worker `w` is an execution of micro-steps of `w` alone, so every theorem above
    covers all poll-level schedules. -/
theorem poll_is_execution (cfg : Cfg) (s : State) (w : Nat) :
    ∃ k, Exec cfg s (List.replicate k w) (poll cfg s w).1 :=
  (pollN_spec cfg w _ s []).1

/-- The fuel `poll` gives itself is always enough. -/
theorem poll_never_out_of_fuel (cfg : Cfg) (s : State) (w : Nat) :
    (poll cfg s w).2.2 ≠ .outOfFuel :=
  (pollN_spec cfg w _ s []).2 (Nat.lt_succ_self _)

/-! ### the pinned protocol violates `no_stuck` -/

/-- A11: three links of one inode, the parent directory of the destination cannot be created. -/
def a11 : Cfg where
  variant := .pinned
  n := 3
  worker := fun _ => { inode := 7, linked := true, yMkdir := 0, yCopy := 0, yLink := 0,
                       failMkdir := true, failCopy := false, failMeta := false, failLink := false }
  content := fun _ => 1

/-- worker 0 claims; workers 1 and 2 see `InProgress` and wait; worker 0's `create_dir_all` fails
    and it returns through `?`. -/
def a11Sched : List Nat := [0, 0, 1, 1, 2, 2, 0]

def a11Stuck : State := (runMicro a11 init a11Sched).1

/-- **`no_stuck` is false for the code as shipped** (`C13/owner-failure-leaves-waiters`): the state
    reached by `a11Sched` is reachable, not final (workers 1 and 2 are still waiting), the owner has
    returned its error, the entry is still `InProgress`, and no worker is enabled — the run hangs. -/
theorem no_stuck_counterexample_pinned :
    a11.variant = .pinned ∧ Reachable a11 a11Stuck ∧ ¬ allDone a11 a11Stuck ∧
      a11Stuck.pc 0 = .done (.err .mkdir) ∧ a11Stuck.map 7 = some (.inProgress 0) ∧
      a11Stuck.pc 1 = .waiting 0 0 ∧ a11Stuck.pc 2 = .waiting 0 0 ∧
      ∀ w, enabled a11 a11Stuck w = false := by
  refine ⟨rfl, ⟨a11Sched, exec_of_runMicro a11Sched init rfl⟩, ?_, rfl, rfl, rfl, rfl, ?_⟩
  · intro h
    have := h 1 (by decide)
    exact absurd this (by decide)
  · intro w
    match w with
    | 0 => rfl
    | 1 => rfl
    | 2 => rfl
    | w + 3 =>
      unfold enabled
      rw [step_none_of_ge (by show 3 ≤ w + 3; omega)]
      rfl

/-- The same configuration under the repaired protocol does not get stuck there: after the same
    schedule the failing owner is still enabled (it is about to remove its entry). -/
theorem a11_repaired_not_stuck :
    enabled { a11 with variant := .repaired } (runMicro { a11 with variant := .repaired } init a11Sched).1 0
      = true := rfl

/-- Two links, nothing fails. -/
def lw : Cfg where
  variant := .pinned
  n := 2
  worker := fun _ => { inode := 7, linked := true, yMkdir := 0, yCopy := 0, yLink := 0,
                       failMkdir := false, failCopy := false, failMeta := false, failLink := false }
  content := fun _ => 1

/-- worker 0 claims; worker 1 reads `InProgress` and drops the lock; worker 0 copies, inserts
    `Completed` and calls `notify_waiters()` (nobody is registered); only now worker 1 creates its
    `notified()` future. -/
def lwSched : List Nat := [0, 0, 1, 0, 0, 0, 0, 0, 1]

def lwStuck : State := (runMicro lw init lwSched).1

/-- **Lost wake-up in the code as shipped** (`C13/lost-wakeup`, thread-level schedule, no failure
    involved): worker 1 ends up awaiting a `Notified` future created *after* the only
    `notify_waiters()` call; the owner has returned `Ok`, the entry is `Completed`, and nothing is
    enabled. -/
theorem lost_wakeup_counterexample_pinned :
    lw.variant = .pinned ∧ Clean lw ∧ Reachable lw lwStuck ∧ ¬ allDone lw lwStuck ∧
      lwStuck.pc 0 = .done .ok ∧ lwStuck.map 7 = some (.completed 0) ∧
      lwStuck.pc 1 = .waiting 0 1 ∧ lwStuck.calls 0 = 1 ∧
      ∀ w, enabled lw lwStuck w = false := by
  refine ⟨rfl, fun _ _ => rfl, ⟨lwSched, exec_of_runMicro lwSched init rfl⟩, ?_, rfl, rfl, rfl, rfl, ?_⟩
  · intro h
    have := h 1 (by decide)
    exact absurd this (by decide)
  · intro w
    match w with
    | 0 => rfl
    | 1 => rfl
    | w + 2 =>
      unfold enabled
      rw [step_none_of_ge (by show 2 ≤ w + 2; omega)]
      rfl

/-- Under the repaired protocol the same schedule lets worker 1 see that the entry changed and go
    round the loop again (it will find `Completed` and link). -/
theorem lost_wakeup_repaired_proceeds :
    ((runMicro { lw with variant := .repaired } init (lwSched ++ [1, 1])).1).pc 1 = .linkOp 0 0 := rfl

/-! ### "… and after later updates" — holds below the delta threshold, fails at or above it

  `Transferrer::update` has no hard-link handling (`transfer.rs:213-234`); what happens to the
  destination's inode classes depends only on how `sync_file_with_delta` replaces the file
  (`SyModel/Hardlink/Update.lean`). Replayed on the real binary: an 11 MB group of three links is
  split into three inodes by its first content update (`C13/update-splits-link-group`); a new link
  added to an already synced group is created as an independent copy
  (`C13/update-new-link-not-joined`). Both are recorded findings (no small repair: `update` would
  need the planner to compare inode classes, and an in-place rewrite would give up C09's atomic
  replacement). -/

/-- Updates that go through `fs::copy` (destination below the 10 MiB threshold) write *through* the
    shared inode: no pair of destination paths changes its same-inode relation, whichever path is
    updated, and every name of the updated inode shows the new content. -/
theorem update_small_preserves_structure (d : Dst) (p c : Nat) :
    (∀ q r, sameIno (updateSmall d p c) q r ↔ sameIno d q r) ∧
    (∀ q, sameIno d p q → ∃ f, updateSmall d p c q = some f ∧ f.content = c) :=
  ⟨fun q r => updateSmall_sameIno d p c q r, fun q h => updateSmall_content d p c q h⟩

/-- … hence any sequence of such updates keeps the link structure established at creation. -/
theorem updates_small_preserve_structure (ups : List (Nat × Nat)) (d : Dst) (q r : Nat) :
    sameIno (ups.foldl (fun d u => updateSmall d u.1 u.2) d) q r ↔ sameIno d q r := by
  induction ups generalizing d with
  | nil => exact Iff.rfl
  | cons u us ih => rw [List.foldl_cons, ih, updateSmall_sameIno]

/-- two names `0`, `1` of one destination inode `5` (content `1`). -/
def linkedPair : Dst := fun q => if q = 0 ∨ q = 1 then some ⟨5, 1⟩ else none

/-- **`C13/update-splits-link-group`**: updating both names through temp+rename (what the code does
    at or above the threshold) leaves two different inodes although the sources still share one —
    the full-strength "after later updates" clause is false for the code as it is. -/
theorem update_counterexample_splits_link_group :
    sameIno linkedPair 0 1 ∧
    ¬ sameIno (updateLarge (updateLarge linkedPair 0 10 2) 1 11 2) 0 1 := by
  refine ⟨⟨⟨5, 1⟩, ⟨5, 1⟩, rfl, rfl, rfl⟩, ?_⟩
  rintro ⟨f, g, hf, hg, h⟩
  have hf' : f = ⟨10, 2⟩ := by
    have : (updateLarge (updateLarge linkedPair 0 10 2) 1 11 2) 0 = some ⟨10, 2⟩ := rfl
    rw [this] at hf; cases hf; rfl
  have hg' : g = ⟨11, 2⟩ := by
    have : (updateLarge (updateLarge linkedPair 0 10 2) 1 11 2) 1 = some ⟨11, 2⟩ := rfl
    rw [this] at hg; cases hg; rfl
  rw [hf', hg'] at h
  cases h

/-- **`C13/update-new-link-not-joined`**: a hard-link candidate that is the only member of its group
    taking part in a run (the other names were synced earlier and are skipped, so no worker ever
    records them in the map) always ends on a fresh inode of its own — it cannot be joined to the
    names already in the destination. -/
theorem sole_member_gets_fresh_inode (cfg : Cfg) (s : State) (hr : Reachable cfg s) (w : Nat)
    (hl : (cfg.worker w).linked = true)
    (hsole : ∀ v, v < cfg.n → (cfg.worker v).inode = (cfg.worker w).inode → v = w)
    (hok : s.pc w = .done .ok) :
    s.dst w = some ⟨w, cfg.content (cfg.worker w).inode⟩ := by
  have hi := inv_reachable hr
  obtain ⟨p, hm, hd⟩ := hi.okLinked w hl hok
  obtain ⟨hp, _, hino, _, _⟩ := hi.mapDone _ p hm
  rw [hsole p hp hino] at hd
  exact hd

/-- What remains true of the property's structure clause on the code as it is (complement of the
    two recorded signatures): exact for everything created in the run (`link_structure`), and
    stable under every later update that stays below the delta threshold. -/
theorem link_structure_partial (cfg : Cfg) (hwf : WF cfg) (s : State) (hr : Reachable cfg s)
    (w₁ w₂ : Nat) (hw₁ : w₁ < cfg.n) (hw₂ : w₂ < cfg.n)
    (hok₁ : s.pc w₁ = .done .ok) (hok₂ : s.pc w₂ = .done .ok) (ups : List (Nat × Nat)) :
    sameIno (ups.foldl (fun d u => updateSmall d u.1 u.2) s.dst) w₁ w₂ ↔
      (cfg.worker w₁).inode = (cfg.worker w₂).inode := by
  rw [updates_small_preserve_structure]
  obtain ⟨f₁, f₂, h₁, h₂, hiff, _, _⟩ := link_structure cfg hwf s hr w₁ w₂ hw₁ hw₂ hok₁ hok₂
  constructor
  · rintro ⟨a, b, ha, hb, hab⟩
    rw [h₁] at ha; rw [h₂] at hb; cases ha; cases hb
    exact hiff.mp hab
  · intro h
    exact ⟨f₁, f₂, h₁, h₂, hiff.mpr h⟩

/-! ### non-vacuity -/

/-- two links of inode 7 and one ordinary file; the first link's copy fails. -/
def ex : Cfg where
  variant := .repaired
  n := 3
  worker := fun w =>
    if w = 2 then { inode := 9, linked := false, yMkdir := 1, yCopy := 0, yLink := 0,
                    failMkdir := false, failCopy := false, failMeta := false, failLink := false }
    else { inode := 7, linked := true, yMkdir := 0, yCopy := 1, yLink := 1,
           failMkdir := false, failCopy := w = 0, failMeta := false, failLink := false }
  content := fun i => i + 100

/-- `WF` is satisfiable with a shared inode and an ordinary file. -/
example : WF ex := by
  intro w₁ w₂ h₁ h₂ hne hi
  have h₁' : w₁ = 0 ∨ w₁ = 1 ∨ w₁ = 2 := by simp only [ex] at h₁; omega
  have h₂' : w₂ = 0 ∨ w₂ = 1 ∨ w₂ = 2 := by simp only [ex] at h₂; omega
  rcases h₁' with rfl | rfl | rfl <;> rcases h₂' with rfl | rfl | rfl <;>
    first | exact absurd rfl hne | exact ⟨rfl, rfl⟩ | (simp [ex] at hi)

/-- a complete run of `ex`: worker 0 claims and fails, worker 1 takes over and copies, worker 2
    copies its ordinary file. -/
def exSched : List Nat :=
  [0, 0, 1, 1, 1, 0, 0, 0, 0, 0, 1, 1, 1, 1, 1, 1, 1, 1, 1, 2, 2, 2, 2, 2]

def exFinal : State := (runMicro ex init exSched).1

example : Reachable ex exFinal := ⟨exSched, exec_of_runMicro exSched init rfl⟩
/-- the hypotheses of `owner_failure_surfaces` / `every_run_completes` are met by a real run: the
    failing owner returned its error, the waiter took over and finished. -/
example : exFinal.pc 0 = .done (.err .copy) ∧ exFinal.pc 1 = .done .ok ∧ exFinal.pc 2 = .done .ok ∧
    exFinal.map 7 = some (.completed 1) ∧ allDoneB ex exFinal = true := ⟨rfl, rfl, rfl, rfl, rfl⟩
/-- `link_structure`'s hypotheses (two `Ok` results) are met, with different inodes. -/
example : exFinal.dst 1 = some ⟨1, 107⟩ ∧ exFinal.dst 2 = some ⟨2, 109⟩ := ⟨rfl, rfl⟩
/-- a state with two claim holders of *different* inodes exists (`single_owner` is not about an
    empty set of states). -/
example : ((runMicro ex init [0, 0]).1.pc 0).holdsClaim = true := rfl
/-- a clean configuration and a final state of it in which a link was made. -/
def exClean : Cfg := { lw with variant := .repaired }
example : Clean exClean := fun _ _ => rfl
example : (runMicro exClean init [0, 0, 1, 1, 1, 0, 0, 0, 0, 0, 1, 1, 1]).1.dst 1 = some ⟨0, 1⟩ := rfl
/-- a blocked waiter exists in the repaired protocol (hypothesis of `waiter_has_live_owner`). -/
example : enabled exClean (runMicro exClean init [0, 0, 1, 1, 1]).1 1 = false := rfl
/-- `sole_member_gets_fresh_inode`: a run whose only worker is a link candidate. -/
example : (runMicro { exClean with n := 1 } init [0, 0, 0, 0, 0, 0, 0]).1.pc 0 = .done .ok := rfl
/-- `updateSmall` on a linked pair: both names show the new content, still one inode. -/
example : updateSmall linkedPair 0 9 1 = some ⟨5, 9⟩ := rfl
/-- `poll` really runs several micro-steps: worker 0 of `ex` runs to the await point inside its copy. -/
example : (poll ex init 0).2.1 = [.readNone, .claimOk, .opOk .mkdir, .yield .copy] ∧
    (poll ex init 0).2.2 = .pending := ⟨rfl, rfl⟩

end SyModel.Props.C13
