/-
  C13 — Hard-link structure is preserved and link coordination always terminates.
  Property theorems only; the model is `SyModel/Hardlink/Protocol.lean`, helper lemmas live in
  `SyModel/Lemmas/Hardlink*.lean`.

  All theorems are for an arbitrary number of paths `cfg.n` — each created, updated or skipped —,
  arbitrary partitions into link groups (`(cfg.worker w).inode`), arbitrary pre-run destinations,
  arbitrary scripted await points, arbitrary fault plans and arbitrary *micro-step* schedules
  (thread-level interleavings at mutex granularity; the `poll`-level schedules of a single-threaded
  executor are a special case, `poll_is_execution`).

  Status on the current tree (a68466f, 8b4f96e): `Variant.repaired` is the code as it is — the hand-off
  `transfer_link_member` is shared by `create` and `update`. `Variant.pinned` keeps the protocol as
  originally shipped, with its machine-checked hang witnesses (`no_stuck_counterexample_pinned`,
  `lost_wakeup_counterexample_pinned`). `single_owner`, `link_structure` and `terminates` hold for
  both variants. Still false on the current code, each with a witness here and a replay on the real
  binary: `new_link_not_joined_counterexample`, `skipped_members_keep_stale_structure_counterexample`,
  `foreign_link_write_through_counterexample`. tokio's `Notify` is modelled, not verified.
-/
import SyModel.Lemmas.HardlinkProps
import SyModel.Lemmas.HardlinkLocal
import SyModel.Lemmas.HardlinkUpdate
namespace SyModel.Props.C13
open SyModel SyModel.Hardlink

/-! ### single owner -/

/-- In every reachable state at most one worker per source inode is between a successful claim and
    the release of its claim: two claim holders of the same inode are the same worker.
    (Both variants.) -/
theorem single_owner (cfg : Cfg) (s : State) (hr : Reachable cfg s) (w₁ w₂ : Nat)
    (hl₁ : (cfg.worker w₁).linked = true) (hl₂ : (cfg.worker w₂).linked = true)
    (hsame : (cfg.worker w₁).inode = (cfg.worker w₂).inode)
    (h₁ : (s.pc w₁).holdsClaim = true) (h₂ : (s.pc w₂).holdsClaim = true) : w₁ = w₂ := by
  have hi := inv_reachable hr
  have e₁ := hi.claimMap w₁ hl₁ h₁
  have e₂ := hi.claimMap w₂ hl₂ h₂
  rw [hsame, e₂] at e₁
  cases e₁
  rfl

/-- … and the map entry always names that worker: an `InProgress` entry is held by exactly the
    worker it names (repaired protocol: a failed owner never leaves its entry behind). -/
theorem in_progress_is_held (cfg : Cfg) (hv : cfg.variant = .repaired) (s : State)
    (hr : Reachable cfg s) (i g : Nat) (h : s.map i = some (.inProgress g)) :
    g < cfg.n ∧ (cfg.worker g).inode = i ∧ (s.pc g).holdsClaim = true := by
  obtain ⟨hg, _, hino, hc⟩ := (inv_reachable hr).mapClaim i g h
  refine ⟨hg, hino, ?_⟩
  cases hc with
  | inl h => exact h
  | inr h => rw [hv] at h; cases h.1

/-! ### link structure — after creation *and* after updates -/

/-- Files that share a source inode are all hard-link candidates (`nlink > 1`); a file outside the
    hard-link branch has an inode of its own. -/
def WF (cfg : Cfg) : Prop :=
  ∀ w₁ w₂, w₁ < cfg.n → w₂ < cfg.n → w₁ ≠ w₂ →
    (cfg.worker w₁).inode = (cfg.worker w₂).inode →
      (cfg.worker w₁).linked = true ∧ (cfg.worker w₂).linked = true

/-- The path is transferred (created or updated) in this run, not skipped. -/
def Active (cfg : Cfg) (w : Nat) : Prop := (cfg.worker w).action ≠ .skip

/-- For every path **created or updated** in the run — any mix of both, files below or at/above the
    delta gate, both variants, any fault plan, any schedule, any reachable state (in particular the
    final one) — and any pre-run destination, *whatever* names share an inode there (links left from
    a source that has been regrouped since included): two destination files whose transfer
    returned `Ok` share an inode **iff** their sources do, and each has its source's content.
    (Before a68466f this held for created paths only.) -/
theorem link_structure (cfg : Cfg) (hwf : WF cfg) (hdst : cfg.DstOk) (s : State)
    (hr : Reachable cfg s) (w₁ w₂ : Nat) (hw₁ : w₁ < cfg.n) (hw₂ : w₂ < cfg.n)
    (ha₁ : Active cfg w₁) (ha₂ : Active cfg w₂)
    (hok₁ : s.pc w₁ = .done .ok) (hok₂ : s.pc w₂ = .done .ok) :
    ∃ f₁ f₂, s.dst w₁ = some f₁ ∧ s.dst w₂ = some f₂ ∧
      (f₁.ino = f₂.ino ↔ (cfg.worker w₁).inode = (cfg.worker w₂).inode) ∧
      f₁.content = cfg.content (cfg.worker w₁).inode ∧
      f₂.content = cfg.content (cfg.worker w₂).inode := by
  have hi := inv_reachable hr
  have hd := invD_reachable hdst hr
  -- each path exists with its source's content
  have cont : ∀ w, Active cfg w → s.pc w = .done .ok →
      (s.dst w).map File.content = some (cfg.content (cfg.worker w).inode) := by
    intro w ha hok
    cases hl : (cfg.worker w).linked
    · exact hd.okPlain w hl ha hok
    · obtain ⟨p, hm⟩ := hd.okLinkedMap w hl ha hok
      exact (hd.okLinkedDst w p hl ha hok hm).2
  have c₁ := cont w₁ ha₁ hok₁
  have c₂ := cont w₂ ha₂ hok₂
  cases h₁ : s.dst w₁ with
  | none => rw [h₁] at c₁; cases c₁
  | some f₁ =>
    cases h₂ : s.dst w₂ with
    | none => rw [h₂] at c₂; cases c₂
    | some f₂ =>
      rw [h₁] at c₁; rw [h₂] at c₂
      simp only [Option.map_some, Option.some.injEq] at c₁ c₂
      refine ⟨f₁, f₂, rfl, rfl, ⟨?_, ?_⟩, c₁, c₂⟩
      · -- every name of the inode of w₁'s root — w₁ itself for an ordinary file, the recorded first
        -- path of its group otherwise — belongs to w₁'s source inode
        intro he
        cases hl : (cfg.worker w₁).linked
        · exact hd.refines w₁ w₂ f₁.ino (by rw [hok₁]; rfl) (Or.inl ⟨hl, ha₁⟩) (by rw [h₁]; rfl)
            (by rw [h₂, he]; rfl)
        · obtain ⟨p, hm⟩ := hd.okLinkedMap w₁ hl ha₁ hok₁
          have e₁ := (hd.okLinkedDst w₁ p hl ha₁ hok₁ hm).1
          obtain ⟨_, _, hpi, hpc⟩ := hi.mapDone _ p hm
          have hroot : (s.pc p).rootPc = true := by rcases hpc with h | h <;> rw [h] <;> rfl
          have := hd.refines p w₂ f₁.ino hroot (Or.inr (Or.inr (by rw [hpi]; exact hm)))
            (by rw [← e₁, h₁]; rfl) (by rw [h₂, he]; rfl)
          rw [← hpi]; exact this
      · -- members of one source group share the inode of the recorded first path
        intro he
        by_cases hne : w₁ = w₂
        · subst hne; rw [h₁] at h₂; cases h₂; rfl
        · obtain ⟨hl₁, hl₂⟩ := hwf w₁ w₂ hw₁ hw₂ hne he
          obtain ⟨p₁, hm₁⟩ := hd.okLinkedMap w₁ hl₁ ha₁ hok₁
          obtain ⟨p₂, hm₂⟩ := hd.okLinkedMap w₂ hl₂ ha₂ hok₂
          have e₁ := (hd.okLinkedDst w₁ p₁ hl₁ ha₁ hok₁ hm₁).1
          have e₂ := (hd.okLinkedDst w₂ p₂ hl₂ ha₂ hok₂ hm₂).1
          rw [he, hm₂] at hm₁
          cases hm₁
          rw [h₁] at e₁; rw [h₂, ← e₁] at e₂
          simp only [Option.map_some, Option.some.injEq] at e₂
          exact e₂.symm

/-- A run in which no operation fails. -/
def Clean (cfg : Cfg) : Prop := ∀ w, w < cfg.n → (cfg.worker w).clean = true

/-- In a clean run every path that returns, returns `Ok` … -/
theorem clean_all_ok (cfg : Cfg) (hc : Clean cfg) (hdst : cfg.DstOk) (s : State)
    (hr : Reachable cfg s) (w : Nat) (r : Res) (h : s.pc w = .done r) : r = .ok := by
  obtain ⟨sched, hex⟩ := hr
  have h0 : ∀ v, ((init cfg).pc v).errish = false := by
    intro v; simp only [init]; split <;> rfl
  have hu : ∀ v, ((init cfg).pc v).updateOnly = true → (cfg.worker v).action = .update := by
    intro v hv; simp only [init] at hv; split at hv <;> simp [Pc.updateOnly] at hv
  have := clean_exec hc hex (inv_init cfg) (invD_init cfg hdst) hu h0 w
  rw [h] at this
  cases r with
  | ok => rfl
  | err op => simp [Pc.errish] at this

/-- … hence in the final state of a clean run *all* transferred paths exist, have their source's
    content, and share an inode exactly when their sources do. In particular: when every member of
    a link group is updated in one run — through the shared inode below the delta gate, through a
    temp file and `rename` at or above it — the group is still one inode afterwards. -/
theorem link_structure_clean (cfg : Cfg) (hwf : WF cfg) (hc : Clean cfg) (hdst : cfg.DstOk)
    (s : State) (hr : Reachable cfg s) (hfin : allDone cfg s) (w₁ w₂ : Nat)
    (hw₁ : w₁ < cfg.n) (hw₂ : w₂ < cfg.n) (ha₁ : Active cfg w₁) (ha₂ : Active cfg w₂) :
    ∃ f₁ f₂, s.dst w₁ = some f₁ ∧ s.dst w₂ = some f₂ ∧
      (f₁.ino = f₂.ino ↔ (cfg.worker w₁).inode = (cfg.worker w₂).inode) ∧
      f₁.content = cfg.content (cfg.worker w₁).inode ∧
      f₂.content = cfg.content (cfg.worker w₂).inode := by
  have ok : ∀ w, w < cfg.n → s.pc w = .done .ok := by
    intro w hw
    have hd := hfin w hw
    cases hp : s.pc w <;> rw [hp] at hd <;> simp [Pc.isDone] at hd
    case done r => rw [clean_all_ok cfg hc hdst s hr w r hp]
  exact link_structure cfg hwf hdst s hr w₁ w₂ hw₁ hw₂ ha₁ ha₂ (ok w₁ hw₁) (ok w₂ hw₂)

/-- Every name of the inode of a path transferred `Ok` — a path of this run that was transferred
    too, is still being transferred, failed, or was **skipped** as up to date — belongs to the same
    source inode and shows the same content: no destination inode is shared across source groups
    with a transferred path, whatever links the pre-run destination had (8b4f96e). -/
theorem no_cross_group_sharing (cfg : Cfg) (hdst : cfg.DstOk) (s : State) (hr : Reachable cfg s)
    (w r : Nat) (ha : Active cfg w) (hok : s.pc w = .done .ok)
    (fw fr : File) (hq : s.dst w = some fw) (hr' : s.dst r = some fr)
    (he : fw.ino = fr.ino) : (cfg.worker w).inode = (cfg.worker r).inode ∧ fw.content = fr.content := by
  have hi := inv_reachable hr
  have hd := invD_reachable hdst hr
  refine ⟨?_, ?_⟩
  · cases hl : (cfg.worker w).linked
    · exact hd.refines w r fw.ino (by rw [hok]; rfl) (Or.inl ⟨hl, ha⟩) (by rw [hq]; rfl)
        (by rw [hr', he]; rfl)
    · obtain ⟨p, hm⟩ := hd.okLinkedMap w hl ha hok
      have e₁ := (hd.okLinkedDst w p hl ha hok hm).1
      obtain ⟨_, _, hpi, hpc⟩ := hi.mapDone _ p hm
      have hroot : (s.pc p).rootPc = true := by rcases hpc with h | h <;> rw [h] <;> rfl
      have := hd.refines p r fw.ino hroot (Or.inr (Or.inr (by rw [hpi]; exact hm)))
        (by rw [← e₁, hq]; rfl) (by rw [hr', he]; rfl)
      rw [← hpi]; exact this
  · have := hd.inoContent w r fw.ino (by rw [hq]; rfl) (by rw [hr', he]; rfl)
    rw [hq, hr'] at this
    simpa using this

/-- Once a worker has returned — in particular a **skipped**, up-to-date name, which has returned
    before the run starts — nobody changes its destination path any more: not its inode, not its
    content. (Before 8b4f96e an update could write through an inode it shared with such a name.) -/
theorem returned_path_untouched (cfg : Cfg) (hdst : cfg.DstOk) (s s' : State) (sched : List Nat)
    (hr : Reachable cfg s) (hex : Exec cfg s sched s') (q : Nat) (hdone : (s.pc q).isDone = true) :
    s'.dst q = s.dst q :=
  (exec_done_untouched (inv_reachable hr) (invD_reachable hdst hr) hex q hdone).1

theorem skipped_names_untouched (cfg : Cfg) (hdst : cfg.DstOk) (s : State) (hr : Reachable cfg s)
    (q : Nat) (hq : q < cfg.n) (hskip : (cfg.worker q).action = .skip) :
    s.dst q = (cfg.worker q).dst0 := by
  obtain ⟨sched, hex⟩ := hr
  have h0 : ((init cfg).pc q).isDone = true := by simp [init, hskip, Pc.isDone]
  have := (exec_done_untouched (inv_init cfg) (invD_init cfg hdst) hex q h0).1
  rw [this]; simp [init, hq]

/-! ### no reachable state is stuck (repaired protocol) -/

/-- Every reachable state that is not final has an enabled micro-step — whatever failed before,
    whatever the schedule was. -/
theorem no_stuck (cfg : Cfg) (hv : cfg.variant = .repaired) (s : State) (hr : Reachable cfg s)
    (hnf : ¬ allDone cfg s) : ∃ w, w < cfg.n ∧ enabled cfg s w = true := by
  have hR := invR_reachable hv hr
  have : ∃ w, w < cfg.n ∧ (s.pc w).isDone = false := by
    apply Classical.byContradiction
    intro hne
    apply hnf
    intro w hw
    cases hd : (s.pc w).isDone
    · exact absurd ⟨w, hw, hd⟩ hne
    · rfl
  obtain ⟨w, hw, hd⟩ := this
  cases enabled_or_owner_enabled hR hw hd with
  | inl h => exact ⟨w, hw, h⟩
  | inr h => obtain ⟨g, hg, _, hen⟩ := h; exact ⟨g, hg, hen⟩

/-- A blocked waiter always waits on a worker that can move: nobody waits for a worker that has
    returned or that waits itself. -/
theorem waiter_has_live_owner (cfg : Cfg) (hv : cfg.variant = .repaired) (s : State)
    (hr : Reachable cfg s) (w : Nat) (hw : w < cfg.n) (hd : (s.pc w).isDone = false)
    (hblocked : enabled cfg s w = false) :
    ∃ g, g < cfg.n ∧ (s.pc w).waitsOn = some g ∧ enabled cfg s g = true := by
  cases enabled_or_owner_enabled (invR_reachable hv hr) hw hd with
  | inl h => unfold enabled at hblocked; rw [h] at hblocked; cases hblocked
  | inr h => exact h

/-! ### termination -/

/-- The variant `measure` strictly decreases on **every** micro-step of **every** worker, in every
    state, for both variants: no livelock, no unbounded re-arming of a wait. -/
theorem terminates (cfg : Cfg) (s s' : State) (w : Nat) (l : Label)
    (h : step cfg s w = some (l, s')) : measure cfg s' < measure cfg s :=
  step_measure_lt h

/-- Hence every execution from `s` — any schedule, any worker count — has at most `measure cfg s`
    micro-steps. -/
theorem execution_bounded (cfg : Cfg) (s s' : State) (sched : List Nat) (h : Exec cfg s sched s') :
    sched.length ≤ measure cfg s := by
  have := exec_measure h
  omega

/-- There is no infinite execution: no infinite sequence of states linked by micro-steps, for any
    infinite schedule `σ`. -/
theorem no_infinite_execution (cfg : Cfg) (σ : Nat → Nat) (st : Nat → State) :
    ¬ ∀ i, ∃ l, step cfg (st i) (σ i) = some (l, st (i + 1)) := by
  intro h
  have key : ∀ i, measure cfg (st i) + i ≤ measure cfg (st 0) := by
    intro i
    induction i with
    | zero => simp
    | succ i ih =>
      obtain ⟨l, hl⟩ := h i
      have := step_measure_lt hl
      omega
  have := key (measure cfg (st 0) + 1)
  omega

/-- Repaired protocol: every maximal execution (one that stops only when no worker is enabled)
    ends with every worker returned, within `measure cfg init` micro-steps. -/
theorem every_run_completes (cfg : Cfg) (hv : cfg.variant = .repaired) (sched : List Nat) (s : State)
    (h : Exec cfg (init cfg) sched s) (hmax : ∀ w, w < cfg.n → enabled cfg s w = false) :
    allDone cfg s ∧ sched.length ≤ measure cfg (init cfg) := by
  refine ⟨?_, execution_bounded cfg (init cfg) s sched h⟩
  apply Classical.byContradiction
  intro hnf
  obtain ⟨w, hw, hen⟩ := no_stuck cfg hv s ⟨sched, h⟩ hnf
  rw [hmax w hw] at hen
  cases hen

/-! ### a failing owner -/

/-- Repaired protocol. Let an operation `op` of hard-link candidate `g` fail in a reachable state
    (`g` is the owner of its group if `op` is a copy-side operation). Then in every maximal
    continuation: every worker has returned (nobody is left waiting), `g` returned exactly that
    error, no `InProgress` entry is left behind, and the continuation is bounded by the variant. -/
theorem owner_failure_surfaces (cfg : Cfg) (hv : cfg.variant = .repaired) (s s₁ s₂ : State)
    (hr : Reachable cfg s) (g : Nat) (op : Op) (hl : (cfg.worker g).linked = true)
    (hfail : step cfg s g = some (.opErr op, s₁))
    (sched : List Nat) (hex : Exec cfg s₁ sched s₂)
    (hmax : ∀ w, w < cfg.n → enabled cfg s₂ w = false) :
    allDone cfg s₂ ∧ s₂.pc g = .done (.err op) ∧
      (∀ i g', s₂.map i ≠ some (.inProgress g')) ∧ sched.length ≤ measure cfg s₁ := by
  have hr₁ := reachable_step hr hfail
  have hr₂ := reachable_exec hr₁ hex
  have hdone : allDone cfg s₂ := by
    apply Classical.byContradiction
    intro hnf
    obtain ⟨w, hw, hen⟩ := no_stuck cfg hv s₂ hr₂ hnf
    rw [hmax w hw] at hen
    cases hen
  obtain ⟨hg, e, hnext, rfl⟩ := step_eq_some hfail
  have h₁ : ((s.apply g (cfg.worker g).inode e).pc g).errPath op = true := by
    rw [apply_pc_self]
    exact opErr_enters_errPath _ _ _ _ _ _ _ _ _ hv hl hnext
  have h₂ := errPath_exec hex h₁
  refine ⟨hdone, ?_, ?_, execution_bounded cfg _ s₂ sched hex⟩
  · have hd := hdone g hg
    cases hp : s₂.pc g <;> rw [hp] at hd h₂ <;> simp [Pc.isDone] at hd
    case done r =>
      cases r with
      | ok => simp [Pc.errPath] at h₂
      | err o => simp [Pc.errPath] at h₂; rw [h₂]
  · intro i g' hm
    obtain ⟨hg', _, hc⟩ := in_progress_is_held cfg hv s₂ hr₂ i g' hm
    have := hdone g' hg'
    rw [Pc.holdsClaim_not_done _ hc] at this
    cases this

/-! ### the `poll` macro-step of a single-threaded executor -/

/-- One `poll` of worker `w` is an execution of micro-steps of `w` alone, so every theorem above
    covers all poll-level schedules. -/
theorem poll_is_execution (cfg : Cfg) (s : State) (w : Nat) :
    ∃ k, Exec cfg s (List.replicate k w) (poll cfg s w).1 :=
  (pollN_spec cfg w _ s []).1

/-- The fuel `poll` gives itself is always enough. -/
theorem poll_never_out_of_fuel (cfg : Cfg) (s : State) (w : Nat) :
    (poll cfg s w).2.2 ≠ .outOfFuel :=
  (pollN_spec cfg w _ s []).2 (Nat.lt_succ_self _)

/-! ### the pinned protocol violates `no_stuck` -/

/-- A11: three links of one inode, the parent directory of the destination cannot be created. -/
def a11 : Cfg where
  variant := .pinned
  n := 3
  worker := fun _ => { inode := 7, linked := true, yMkdir := 0, yCopy := 0, yLink := 0,
                       failMkdir := true, failCopy := false, failMeta := false, failLink := false }
  content := fun _ => 1

/-- worker 0 claims; workers 1 and 2 see `InProgress` and wait; worker 0's `create_dir_all` fails
    and it returns through `?`. -/
def a11Sched : List Nat := [0, 0, 1, 1, 2, 2, 0]

def a11Stuck : State := (runMicro a11 (init a11) a11Sched).1

/-- **`no_stuck` is false for the code as shipped** (`C13/owner-failure-leaves-waiters`): the state
    reached by `a11Sched` is reachable, not final (workers 1 and 2 are still waiting), the owner has
    returned its error, the entry is still `InProgress`, and no worker is enabled — the run hangs. -/
theorem no_stuck_counterexample_pinned :
    a11.variant = .pinned ∧ Reachable a11 a11Stuck ∧ ¬ allDone a11 a11Stuck ∧
      a11Stuck.pc 0 = .done (.err .mkdir) ∧ a11Stuck.map 7 = some (.inProgress 0) ∧
      a11Stuck.pc 1 = .waiting 0 0 ∧ a11Stuck.pc 2 = .waiting 0 0 ∧
      ∀ w, enabled a11 a11Stuck w = false := by
  refine ⟨rfl, ⟨a11Sched, exec_of_runMicro a11Sched (init a11) rfl⟩, ?_, rfl, rfl, rfl, rfl, ?_⟩
  · intro h
    have := h 1 (by decide)
    exact absurd this (by decide)
  · intro w
    match w with
    | 0 => rfl
    | 1 => rfl
    | 2 => rfl
    | w + 3 =>
      unfold enabled
      rw [step_none_of_ge (by show 3 ≤ w + 3; omega)]
      rfl

/-- The same configuration under the repaired protocol does not get stuck there: after the same
    schedule the failing owner is still enabled (it is about to remove its entry). -/
theorem a11_repaired_not_stuck :
    enabled { a11 with variant := .repaired } (runMicro { a11 with variant := .repaired } (init a11) a11Sched).1 0
      = true := rfl

/-- Two links, nothing fails. -/
def lw : Cfg where
  variant := .pinned
  n := 2
  worker := fun _ => { inode := 7, linked := true, yMkdir := 0, yCopy := 0, yLink := 0,
                       failMkdir := false, failCopy := false, failMeta := false, failLink := false }
  content := fun _ => 1

/-- worker 0 claims; worker 1 reads `InProgress` and drops the lock; worker 0 copies, inserts
    `Completed` and calls `notify_waiters()` (nobody is registered); only now worker 1 creates its
    `notified()` future. -/
def lwSched : List Nat := [0, 0, 1, 0, 0, 0, 0, 0, 1]

def lwStuck : State := (runMicro lw (init lw) lwSched).1

/-- **Lost wake-up in the code as shipped** (`C13/lost-wakeup`, thread-level schedule, no failure
    involved): worker 1 ends up awaiting a `Notified` future created *after* the only
    `notify_waiters()` call; the owner has returned `Ok`, the entry is `Completed`, and nothing is
    enabled. -/
theorem lost_wakeup_counterexample_pinned :
    lw.variant = .pinned ∧ Clean lw ∧ Reachable lw lwStuck ∧ ¬ allDone lw lwStuck ∧
      lwStuck.pc 0 = .done .ok ∧ lwStuck.map 7 = some (.completed 0) ∧
      lwStuck.pc 1 = .waiting 0 1 ∧ lwStuck.calls 0 = 1 ∧
      ∀ w, enabled lw lwStuck w = false := by
  refine ⟨rfl, fun _ _ => rfl, ⟨lwSched, exec_of_runMicro lwSched (init lw) rfl⟩, ?_, rfl, rfl, rfl, rfl, ?_⟩
  · intro h
    have := h 1 (by decide)
    exact absurd this (by decide)
  · intro w
    match w with
    | 0 => rfl
    | 1 => rfl
    | w + 2 =>
      unfold enabled
      rw [step_none_of_ge (by show 2 ≤ w + 2; omega)]
      rfl

/-- Under the repaired protocol the same schedule lets worker 1 see that the entry changed and go
    round the loop again (it will find `Completed` and link). -/
theorem lost_wakeup_repaired_proceeds :
    ((runMicro { lw with variant := .repaired } (init lw) (lwSched ++ [1, 1])).1).pc 1 = .linkOp 0 0 := rfl

/-! ### what is still false on the current code

  Replayed on the real binary (a68466f) before being stated here; each is a recorded finding.
  * `C13/update-new-link-not-joined` — a new link added to an already synced group (whose other
    names are up to date and therefore skipped) is created as an independent copy;
  * `C13/skipped-members-keep-stale-structure` — a group broken up, or formed, in the source with
    equal size and mtime is skipped altogether: the destination keeps the old structure;
  `C13/update-writes-through-foreign-link` (a destination inode shared by names of *different*
  source inodes was rewritten in place by the update of one of them when that source still had
  `nlink > 1`) is fixed by 8b4f96e — `foreign_link_not_written_through` below, and in general
  `link_structure` / `skipped_names_untouched`, which no longer need `noForeignLinks`.
  `C13/update-splits-link-group` (≥ 10 MiB members each replaced by its own temp file) is fixed
  by a68466f; `uncoordinated_update_splits_link_group` keeps the old behaviour's witness. -/

/-- names `0`, `1` of source inode 7 are in the destination as one inode 100 and up to date
    (skipped); name `2` is a new link to the same source inode. -/
def joinCfg : Cfg where
  variant := .repaired
  n := 3
  worker := fun w =>
    { inode := 7, linked := true, action := if w = 2 then .create else .skip,
      dst0 := if w = 2 then none else some ⟨100, 7⟩,
      yMkdir := 0, yCopy := 0, yLink := 0,
      failMkdir := false, failCopy := false, failMeta := false, failLink := false }
  content := fun i => i

def joinFinal : State := (runMicro joinCfg (init joinCfg) [2, 2, 2, 2, 2, 2, 2]).1

/-- **`C13/update-new-link-not-joined`**: a well-formed destination, a clean run, everything
    returned `Ok` — and the new name is a file of its own although its source shares the inode of
    names `0` and `1`. Nothing ever records the skipped names in the inode map. -/
theorem new_link_not_joined_counterexample :
    joinCfg.DstOk ∧ Clean joinCfg ∧ Reachable joinCfg joinFinal ∧ allDoneB joinCfg joinFinal = true ∧
      joinFinal.pc 2 = .done .ok ∧
      (joinCfg.worker 0).inode = (joinCfg.worker 2).inode ∧
      joinFinal.dst 0 = some ⟨100, 7⟩ ∧ joinFinal.dst 2 = some ⟨2, 7⟩ := by
  refine ⟨⟨?_, ?_, ?_⟩, fun _ _ => rfl,
    ⟨_, exec_of_runMicro [2, 2, 2, 2, 2, 2, 2] (init joinCfg) rfl⟩, rfl, rfl, rfl, rfl, rfl⟩
  · intro q f _ h
    simp only [joinCfg] at h ⊢
    split at h <;> cases h
    decide
  · intro q r fq fr _ _ hq hr _
    simp only [joinCfg] at hq hr
    split at hq <;> split at hr <;> cases hq <;> cases hr
    rfl
  · intro q _ h
    simp only [joinCfg] at h
    split at h <;> cases h

/-- two up-to-date names (skipped): in `staleLink` their sources are different files but the
    destination still has them as one inode; in `missingLink` their sources are one inode but the
    destination has two files. -/
def staleLink : Cfg where
  variant := .repaired
  n := 2
  worker := fun w =>
    { inode := 7 + w, linked := false, action := .skip, dst0 := some ⟨100, 7⟩,
      yMkdir := 0, yCopy := 0, yLink := 0,
      failMkdir := false, failCopy := false, failMeta := false, failLink := false }
  content := fun _ => 7

def missingLink : Cfg where
  variant := .repaired
  n := 2
  worker := fun w =>
    { inode := 7, linked := true, action := .skip, dst0 := some ⟨100 + w, 7⟩,
      yMkdir := 0, yCopy := 0, yLink := 0,
      failMkdir := false, failCopy := false, failMeta := false, failLink := false }
  content := fun _ => 7

/-- **`C13/skipped-members-keep-stale-structure`**: when every name of a regrouped file is skipped
    (equal size and mtime) the run is over before it starts, and the destination keeps a link the
    source no longer has / lacks a link the source has. -/
theorem skipped_members_keep_stale_structure_counterexample :
    (allDone staleLink (init staleLink) ∧
      (staleLink.worker 0).inode ≠ (staleLink.worker 1).inode ∧
      (init staleLink).dst 0 = some ⟨100, 7⟩ ∧ (init staleLink).dst 1 = some ⟨100, 7⟩) ∧
    (allDone missingLink (init missingLink) ∧
      (missingLink.worker 0).inode = (missingLink.worker 1).inode ∧
      (init missingLink).dst 0 = some ⟨100, 7⟩ ∧ (init missingLink).dst 1 = some ⟨101, 7⟩) :=
  ⟨⟨fun _ _ => rfl, by decide, rfl, rfl⟩, ⟨fun _ _ => rfl, rfl, rfl, rfl⟩⟩

/-- names `0` (source inode 1, up to date, skipped), `1` and `2` (source inode 2, to be updated) are
    one destination inode 100 — they were one group at the last sync; `1` and `2` are now the two
    names of a new file. -/
def foreignCfg : Cfg where
  variant := .repaired
  n := 3
  worker := fun w =>
    { inode := if w = 0 then 1 else 2, linked := w ≠ 0,
      action := if w = 0 then .skip else .update,
      dst0 := some ⟨100, 1⟩,
      yMkdir := 0, yCopy := 0, yLink := 0,
      failMkdir := false, failCopy := false, failMeta := false, failLink := false }
  content := fun i => i

def foreignFinal : State :=
  (runMicro foreignCfg (init foreignCfg) [1, 1, 1, 1, 1, 1, 2, 2, 2, 2]).1

/-- **`C13/update-writes-through-foreign-link`** (*fixed* by 8b4f96e: `break_unshared_hard_link`
    now replaces every multiply-linked destination name before it is rewritten): the update of name
    `1` gets a fresh inode, name `2` is removed and re-linked to it, and the skipped name `0` keeps
    its inode and its content. Every transfer returned `Ok`. -/
theorem foreign_link_not_written_through :
    Clean foreignCfg ∧ Reachable foreignCfg foreignFinal ∧ allDoneB foreignCfg foreignFinal = true ∧
      foreignFinal.pc 1 = .done .ok ∧ foreignFinal.pc 2 = .done .ok ∧
      (foreignCfg.worker 0).inode ≠ (foreignCfg.worker 1).inode ∧
      foreignCfg.content (foreignCfg.worker 0).inode = 1 ∧
      foreignFinal.dst 0 = some ⟨100, 1⟩ ∧ foreignFinal.dst 1 = some ⟨1, 2⟩ ∧
      foreignFinal.dst 2 = some ⟨1, 2⟩ :=
  ⟨fun _ _ => rfl, ⟨_, exec_of_runMicro [1, 1, 1, 1, 1, 1, 2, 2, 2, 2] (init foreignCfg) rfl⟩,
    rfl, rfl, rfl, by decide, rfl, rfl, rfl, rfl⟩

/-- the hypotheses of `link_structure` are met by a destination *with* foreign links -/
theorem foreignCfg_dstOk : foreignCfg.DstOk :=
  ⟨fun _ f _ h => by cases h; decide, fun _ _ _ _ _ _ hq hr _ => by cases hq; cases hr; rfl,
   fun _ _ _ => rfl⟩

example : foreignFinal.dst 0 = (foreignCfg.worker 0).dst0 :=
  skipped_names_untouched foreignCfg foreignCfg_dstOk foreignFinal
    ⟨_, exec_of_runMicro [1, 1, 1, 1, 1, 1, 2, 2, 2, 2] (init foreignCfg) rfl⟩ 0 (by decide) rfl

/-- … and the witness of the old behaviour, kept so that the violation stays visible: an in-place
    rewrite (`writeThrough`) of name `1` while name `0` still shares its inode hands name `0` the
    other file's content. -/
theorem write_through_shared_inode_damages_other_name :
    writeThrough (init foreignCfg).dst 1 2 0 = some ⟨100, 2⟩ ∧ (init foreignCfg).dst 0 = some ⟨100, 1⟩ :=
  ⟨rfl, rfl⟩

/-! ### a single `sync_file_with_delta` in isolation (the pre-a68466f update of a group member) -/

/-- A write-through update never changes which paths share an inode, and every name of the updated
    inode shows the new content. -/
theorem update_small_preserves_structure (d : Dst) (p c : Nat) :
    (∀ q r, sameIno (updateSmall d p c) q r ↔ sameIno d q r) ∧
    (∀ q, sameIno d p q → ∃ f, updateSmall d p c q = some f ∧ f.content = c) :=
  ⟨fun q r => updateSmall_sameIno d p c q r, fun q h => updateSmall_content d p c q h⟩

theorem updates_small_preserve_structure (ups : List (Nat × Nat)) (d : Dst) (q r : Nat) :
    sameIno (ups.foldl (fun d u => updateSmall d u.1 u.2) d) q r ↔ sameIno d q r := by
  induction ups generalizing d with
  | nil => exact Iff.rfl
  | cons u us ih => rw [List.foldl_cons, ih, updateSmall_sameIno]

/-- two names `0`, `1` of one destination inode `5` (content `1`). -/
def linkedPair : Dst := fun q => if q = 0 ∨ q = 1 then some ⟨5, 1⟩ else none

/-- `C13/update-splits-link-group` (**fixed** by a68466f, kept as the witness of the old
    behaviour): updating both names *independently* through temp+rename leaves two inodes. -/
theorem uncoordinated_update_splits_link_group :
    sameIno linkedPair 0 1 ∧
    ¬ sameIno (updateLarge (updateLarge linkedPair 0 10 2) 1 11 2) 0 1 := by
  refine ⟨⟨⟨5, 1⟩, ⟨5, 1⟩, rfl, rfl, rfl⟩, ?_⟩
  rintro ⟨f, g, hf, hg, h⟩
  have hf' : f = ⟨10, 2⟩ := by
    have : (updateLarge (updateLarge linkedPair 0 10 2) 1 11 2) 0 = some ⟨10, 2⟩ := rfl
    rw [this] at hf; cases hf; rfl
  have hg' : g = ⟨11, 2⟩ := by
    have : (updateLarge (updateLarge linkedPair 0 10 2) 1 11 2) 1 = some ⟨11, 2⟩ := rfl
    rw [this] at hg; cases hg; rfl
  rw [hf', hg'] at h
  cases h

/-! ### non-vacuity -/

/-- two links of inode 7 and one ordinary file, all to be created; the first link's copy fails. -/
def ex : Cfg where
  variant := .repaired
  n := 3
  worker := fun w =>
    if w = 2 then { inode := 9, linked := false, yMkdir := 1, yCopy := 0, yLink := 0,
                    failMkdir := false, failCopy := false, failMeta := false, failLink := false }
    else { inode := 7, linked := true, yMkdir := 0, yCopy := 1, yLink := 1,
           failMkdir := false, failCopy := w = 0, failMeta := false, failLink := false }
  content := fun i => i + 100

/-- `WF` is satisfiable with a shared inode and an ordinary file. -/
example : WF ex := by
  intro w₁ w₂ h₁ h₂ hne hi
  have h₁' : w₁ = 0 ∨ w₁ = 1 ∨ w₁ = 2 := by simp only [ex] at h₁; omega
  have h₂' : w₂ = 0 ∨ w₂ = 1 ∨ w₂ = 2 := by simp only [ex] at h₂; omega
  rcases h₁' with rfl | rfl | rfl <;> rcases h₂' with rfl | rfl | rfl <;>
    first | exact absurd rfl hne | exact ⟨rfl, rfl⟩ | (simp [ex] at hi)

/-- a complete run of `ex`: worker 0 claims and fails, worker 1 takes over and copies, worker 2
    copies its ordinary file. -/
def exSched : List Nat :=
  [0, 0, 1, 1, 1, 0, 0, 0, 0, 0, 1, 1, 1, 1, 1, 1, 1, 1, 1, 2, 2, 2, 2, 2]

def exFinal : State := (runMicro ex (init ex) exSched).1

example : Reachable ex exFinal := ⟨exSched, exec_of_runMicro exSched (init ex) rfl⟩
/-- the hypotheses of `owner_failure_surfaces` / `every_run_completes` are met by a real run: the
    failing owner returned its error, the waiter took over and finished. -/
example : exFinal.pc 0 = .done (.err .copy) ∧ exFinal.pc 1 = .done .ok ∧ exFinal.pc 2 = .done .ok ∧
    exFinal.map 7 = some (.completed 1) ∧ allDoneB ex exFinal = true := ⟨rfl, rfl, rfl, rfl, rfl⟩
/-- `link_structure`'s hypotheses (two `Ok` results) are met, with different inodes. -/
example : exFinal.dst 1 = some ⟨1, 107⟩ ∧ exFinal.dst 2 = some ⟨2, 109⟩ := ⟨rfl, rfl⟩
/-- a state with a claim holder exists (`single_owner` is not about an empty set of states). -/
example : ((runMicro ex (init ex) [0, 0]).1.pc 0).holdsClaim = true := rfl
/-- a clean configuration and a final state of it in which a link was made. -/
def exClean : Cfg := { lw with variant := .repaired }
example : Clean exClean := fun _ _ => rfl
example : (runMicro exClean (init exClean) [0, 0, 1, 1, 1, 0, 0, 0, 0, 0, 1, 1, 1]).1.dst 1 = some ⟨0, 1⟩ := rfl
/-- a blocked waiter exists in the repaired protocol (hypothesis of `waiter_has_live_owner`). -/
example : enabled exClean (runMicro exClean (init exClean) [0, 0, 1, 1, 1]).1 1 = false := rfl

/-- three names of source inode 7, all to be **updated**; the destination has them as one inode 100
    with stale content 1; `large` selects temp file + rename for the owner. -/
def upd (large : Bool) : Cfg where
  variant := .repaired
  n := 3
  worker := fun _ =>
    { inode := 7, linked := true, action := .update, large := large, dst0 := some ⟨100, 1⟩,
      yMkdir := 0, yCopy := 1, yLink := 0,
      failMkdir := false, failCopy := false, failMeta := false, failLink := false }
  content := fun i => i

/-- `Cfg.DstOk` is satisfiable by a destination that really has a link group. -/
example (large : Bool) : (upd large).DstOk :=
  ⟨fun _ f _ h => by cases h; simp [upd], fun _ _ _ _ _ _ hq hr _ => by cases hq; cases hr; rfl,
   fun _ _ _ => rfl⟩

def updSched : List Nat := [0, 0, 1, 1, 1, 0, 0, 0, 0, 0, 1, 1, 1, 2, 2]

/-- at or above the gate: the owner's path gets the fresh inode 0; name 1 (which waited) and name 2
    (which came later) are removed and re-linked — one inode, new content. -/
example : (runMicro (upd true) (init (upd true)) (updSched ++ [1, 1, 2, 2])).1.dst 0 = some ⟨0, 7⟩ ∧
    (runMicro (upd true) (init (upd true)) (updSched ++ [1, 1, 2, 2])).1.dst 1 = some ⟨0, 7⟩ ∧
    (runMicro (upd true) (init (upd true)) (updSched ++ [1, 1, 2, 2])).1.dst 2 = some ⟨0, 7⟩ ∧
    allDoneB (upd true) (runMicro (upd true) (init (upd true)) (updSched ++ [1, 1, 2, 2])).1 = true :=
  ⟨rfl, rfl, rfl, rfl⟩
/-- below the gate the same happens since 8b4f96e: the destination name is multiply linked, so it
    is replaced (fresh inode 0) rather than written through, and the other names are re-linked. -/
example : (runMicro (upd false) (init (upd false)) (updSched ++ [1, 1, 2, 2])).1.dst 0 = some ⟨0, 7⟩ ∧
    (runMicro (upd false) (init (upd false)) (updSched ++ [1, 1, 2, 2])).1.dst 1 = some ⟨0, 7⟩ ∧
    (runMicro (upd false) (init (upd false)) (updSched ++ [1, 1, 2, 2])).1.dst 2 = some ⟨0, 7⟩ ∧
    allDoneB (upd false) (runMicro (upd false) (init (upd false)) (updSched ++ [1, 1, 2, 2])).1 = true :=
  ⟨rfl, rfl, rfl, rfl⟩
/-- `updateSmall` on a linked pair: both names show the new content, still one inode. -/
example : updateSmall linkedPair 0 9 1 = some ⟨5, 9⟩ := rfl
/-- `poll` really runs several micro-steps: worker 0 of `ex` runs to the await point inside its copy. -/
example : (poll ex (init ex) 0).2.1 = [.readNone, .claimOk, .opOk .mkdir, .yield .copy] ∧
    (poll ex (init ex) 0).2.2 = .pending := ⟨rfl, rfl⟩

end SyModel.Props.C13
