/-
  C12 — Bidirectional sync is a correct three-way merge across any history.
  Property theorems only; helper lemmas live in `SyModel/Lemmas/Bisync*.lean`.

  Histories: any list over {create, modify+size, modify keeping size, delete, touch, nothing}
  × {left, right} interleaved with `sync strategy maxDelete stamp`, from any two initial trees
  with no sync state. `Cfg.repaired` = /repo with `fix-bisync-state.diff` and
  `fix-bisync-content-equal.diff`; on `Cfg.pinned` (the tree as shipped) the statements are
  false and the witnesses are proved below.
-/
import SyModel.Lemmas.BisyncHistory
namespace SyModel.Props.C12
open SyModel SyModel.Bisync

/-- **paired_state** — the invariant carried along every history: the state rows of a path
    are exactly the actual metadata of the two versions agreed at the last sync (both rows or
    none), agreed versions hold one content, and whatever a side holds that is not its agreed
    version is strictly younger than every recorded mtime. -/
theorem paired_state (h : List Event) (t : Trace) (hinit : t.Init) (hfresh : FreshRun .repaired h t) :
    Inv (run .repaired h t) :=
  inv_run h t (inv_init hinit) hfresh

/-- … read right after a completed sync: every path present on both sides has both rows, with
    the sides' actual metadata, and holds one content; every other path has no row. -/
theorem paired_after_sync (h : List Event) (t : Trace) (hinit : t.Init) (hfresh : FreshRun .repaired h t)
    (strat : Strategy) (md stamp : Nat) (hf : Fresh (run .repaired h t).w stamp)
    (hnr : (sync .repaired strat md stamp (run .repaired h t).w).refused = false) (p : Path) :
    match aget p (sync .repaired strat md stamp (run .repaired h t).w).world.left,
          aget p (sync .repaired strat md stamp (run .repaired h t).w).world.right with
    | some l, some r =>
      (sync .repaired strat md stamp (run .repaired h t).w).world.rows p = (some l.meta, some r.meta) ∧
        l.content = r.content
    | _, _ => (sync .repaired strat md stamp (run .repaired h t).w).world.rows p = (none, none) := by
  have hi := paired_state h t hinit hfresh
  have hi' := inv_sync hi strat md stamp hf
  have hstep : (run .repaired h t).step .repaired (.sync strat md stamp) =
      { w := (sync .repaired strat md stamp (run .repaired h t).w).world,
        baseL := (sync .repaired strat md stamp (run .repaired h t).w).world.left,
        baseR := (sync .repaired strat md stamp (run .repaired h t).w).world.right,
        syncClock := (run .repaired h t).w.clock } := by
    simp [Trace.step, hnr]
  rw [hstep] at hi'
  have hr := hi'.rows p
  have ha := hi'.agree p
  simp only [Trace.agreed] at hr ha
  generalize (sync .repaired strat md stamp (run .repaired h t).w).world = w' at *
  cases hl : aget p w'.left <;> cases hr2 : aget p w'.right <;> simp only [hl, hr2] at hr ha ⊢
  · exact hr
  · exact hr
  · exact hr
  · exact ⟨hr, ha _ _ rfl⟩

/-- **one_sided_propagates (left).** A creation, modification (with or without size change),
    touch or deletion made on the left only since the last sync reaches the right, under every
    strategy: afterwards both sides hold the left's current version — in particular nothing
    when the left deleted the file (no resurrection), and the edit when it edited (no revert). -/
theorem one_sided_propagates_left (t : Trace) (hi : Inv t) (p : Path)
    (hL : t.changedL p) (hR : ¬ t.changedR p)
    (strat : Strategy) (md stamp : Nat) (hf : Fresh t.w stamp)
    (hnr : (sync .repaired strat md stamp t.w).refused = false) :
    (aget p (sync .repaired strat md stamp t.w).world.left).map File.content =
        (aget p t.w.left).map File.content ∧
    (aget p (sync .repaired strat md stamp t.w).world.right).map File.content =
        (aget p t.w.left).map File.content := by
  obtain ⟨hs, _, _⟩ := sync_spec .repaired rfl strat md stamp t.w hf hnr
  unfold Trace.changedL at hL
  unfold Trace.changedR at hR
  simp only [ne_eq, Decidable.not_not] at hR
  have hrows := hi.rows p
  have hmem : p ∈ t.w.allPaths := by
    rw [mem_allPaths]
    cases ha : t.agreed p with
    | none => rw [ha] at hL; exact Or.inl hL
    | some ab => rw [ha] at hR; exact Or.inr (Or.inl (by rw [hR]; simp))
  have hv := hs.own p hmem
  have e1 : aget p (sync .repaired strat md stamp t.w).world.left = (stepView .repaired strat stamp t.w.clock p (t.w.view p)).l :=
    congrArg View.l hv
  have e2 : aget p (sync .repaired strat md stamp t.w).world.right = (stepView .repaired strat stamp t.w.clock p (t.w.view p)).r :=
    congrArg View.r hv
  rw [e1, e2]
  have hview : t.w.view p = ⟨aget p t.w.left, aget p t.w.right, (t.w.rows p).1, (t.w.rows p).2⟩ := rfl
  rw [hview, hrows]
  cases ha : t.agreed p with
  | none =>
    rw [ha] at hL hR
    simp only [Option.map_none] at hL hR
    rw [hR]
    cases hl : aget p t.w.left with
    | none => exact absurd hl hL
    | some f =>
      simp [stepView, View.action, View.ctype, classifySingle, resolveOne, own, File.content]
  | some ab =>
    obtain ⟨a, b⟩ := ab
    rw [ha] at hL hR
    simp only [Option.map_some] at hL hR
    rw [hR]
    cases hl : aget p t.w.left with
    | none =>
      simp [stepView, View.action, View.ctype, classifySingle, resolveOne, own, isModified_self]
    | some f =>
      have hne : f ≠ a := fun e => hL (by rw [hl, e])
      have hmod : isModified f.entry a.meta = true := by
        cases hm : isModified f.entry a.meta
        · exact absurd (hi.unmodified_left ha hl hm) hne
        · rfl
      simp [stepView, View.action, View.ctype, classifySingle, resolveOne, own, isModified_self, hmod,
        File.content]

/-- **one_sided_propagates (right)** — the mirror image. -/
theorem one_sided_propagates_right (t : Trace) (hi : Inv t) (p : Path)
    (hL : ¬ t.changedL p) (hR : t.changedR p)
    (strat : Strategy) (md stamp : Nat) (hf : Fresh t.w stamp)
    (hnr : (sync .repaired strat md stamp t.w).refused = false) :
    (aget p (sync .repaired strat md stamp t.w).world.left).map File.content =
        (aget p t.w.right).map File.content ∧
    (aget p (sync .repaired strat md stamp t.w).world.right).map File.content =
        (aget p t.w.right).map File.content := by
  obtain ⟨hs, _, _⟩ := sync_spec .repaired rfl strat md stamp t.w hf hnr
  unfold Trace.changedL at hL
  unfold Trace.changedR at hR
  simp only [ne_eq, Decidable.not_not] at hL
  have hrows := hi.rows p
  have hmem : p ∈ t.w.allPaths := by
    rw [mem_allPaths]
    cases ha : t.agreed p with
    | none => rw [ha] at hR; exact Or.inr (Or.inl hR)
    | some ab => rw [ha] at hL; exact Or.inl (by rw [hL]; simp)
  have hv := hs.own p hmem
  have e1 : aget p (sync .repaired strat md stamp t.w).world.left = (stepView .repaired strat stamp t.w.clock p (t.w.view p)).l :=
    congrArg View.l hv
  have e2 : aget p (sync .repaired strat md stamp t.w).world.right = (stepView .repaired strat stamp t.w.clock p (t.w.view p)).r :=
    congrArg View.r hv
  rw [e1, e2]
  have hview : t.w.view p = ⟨aget p t.w.left, aget p t.w.right, (t.w.rows p).1, (t.w.rows p).2⟩ := rfl
  rw [hview, hrows]
  cases ha : t.agreed p with
  | none =>
    rw [ha] at hL hR
    simp only [Option.map_none] at hL hR
    rw [hL]
    cases hr : aget p t.w.right with
    | none => exact absurd hr hR
    | some f =>
      simp [stepView, View.action, View.ctype, classifySingle, resolveOne, own, File.content]
  | some ab =>
    obtain ⟨a, b⟩ := ab
    rw [ha] at hL hR
    simp only [Option.map_some] at hL hR
    rw [hL]
    cases hr : aget p t.w.right with
    | none =>
      simp [stepView, View.action, View.ctype, classifySingle, resolveOne, own, isModified_self]
    | some f =>
      have hne : f ≠ b := fun e => hR (by rw [hr, e])
      have hmod : isModified f.entry b.meta = true := by
        cases hm : isModified f.entry b.meta
        · exact absurd (hi.unmodified_right ha hr hm) hne
        · rfl
      simp [stepView, View.action, View.ctype, classifySingle, resolveOne, own, isModified_self, hmod,
        File.content]

/-- **only_two_sided_conflict.** A path is classified as a conflict (modified-both,
    create/create or modify/delete — the only verdicts handed to the strategy) only if it
    changed on BOTH sides since the last sync. -/
theorem only_two_sided_conflict (t : Trace) (hi : Inv t) (p : Path) (ct : ChangeType)
    (hct : t.w.ctypeAt .repaired p = some ct) (hconf : ct.isConflict = true) :
    t.changedL p ∧ t.changedR p := by
  have hspec := ctype_spec (t.w.view p) (hi.consistent.1 p)
  rw [ctypeAt_eq] at hct
  rw [hct] at hspec
  have hrows := hi.rows p
  unfold Trace.changedL Trace.changedR
  have rows_some : ∀ ra rb, (t.w.view p).rl = some ra → (t.w.view p).rr = some rb →
      ∃ a b, t.agreed p = some (a, b) ∧ ra = a.meta ∧ rb = b.meta := by
    intro ra rb h1 h2
    apply hi.rows_some
    show (aget (p, Side.source) t.w.db, aget (p, Side.dest) t.w.db) = _
    have e1 : aget (p, Side.source) t.w.db = some ra := h1
    have e2 : aget (p, Side.dest) t.w.db = some rb := h2
    rw [e1, e2]
  cases ct <;> simp only [ChangeType.isConflict, Bool.false_eq_true] at hconf <;> simp only [CtypeSpec] at hspec
  · -- modifiedBoth
    obtain ⟨a', b', ra, rb, h1, h2, h3, h4, m1, m2, _⟩ := hspec
    obtain ⟨a, b, ha, rfl, rfl⟩ := rows_some ra rb h3 h4
    have h1' : aget p t.w.left = some a' := h1
    have h2' : aget p t.w.right = some b' := h2
    rw [ha, h1', h2']
    refine ⟨?_, ?_⟩
    · intro e; cases e; rw [isModified_self] at m1; cases m1
    · intro e; cases e; rw [isModified_self] at m2; cases m2
  · -- createCreate
    obtain ⟨a', b', h1, h2, h3, h4, _⟩ := hspec
    have h1' : aget p t.w.left = some a' := h1
    have h2' : aget p t.w.right = some b' := h2
    have : t.agreed p = none := by
      cases ha : t.agreed p with
      | none => rfl
      | some ab =>
        obtain ⟨a, b⟩ := ab
        rw [ha] at hrows
        have e3 : aget (p, Side.source) t.w.db = none := h3
        simp [World.rows, e3] at hrows
    rw [this, h1', h2']; simp
  · -- modifyDelete
    rcases hspec with ⟨a', ra, rb, h1, h2, h3, h4, m⟩ | ⟨b', ra, rb, h1, h2, h3, h4, m⟩
    · obtain ⟨a, b, ha, rfl, rfl⟩ := rows_some ra rb h3 h4
      have h1' : aget p t.w.left = some a' := h1
      have h2' : aget p t.w.right = none := h2
      rw [ha, h1', h2']
      refine ⟨?_, by simp⟩
      intro e; cases e; rw [isModified_self] at m; cases m
    · obtain ⟨a, b, ha, rfl, rfl⟩ := rows_some ra rb h3 h4
      have h1' : aget p t.w.left = none := h1
      have h2' : aget p t.w.right = some b' := h2
      rw [ha, h1', h2']
      refine ⟨by simp, ?_⟩
      intro e; cases e; rw [isModified_self] at m; cases m

/-- **idle_sync_noop.** When neither side changed anything since the last sync (which, in
    particular, left no pending conflict copies), the sync performs no action under any
    strategy and any deletion limit: it is not refused, reports no error, and leaves both roots
    and every state row as they were. -/
theorem idle_sync_noop (t : Trace) (hi : Inv t) (hidle : ∀ p, ¬ t.changedL p ∧ ¬ t.changedR p)
    (strat : Strategy) (md stamp : Nat) :
    (sync .repaired strat md stamp t.w).actions = [] ∧
    (sync .repaired strat md stamp t.w).refused = false ∧
    (sync .repaired strat md stamp t.w).errors = [] ∧
    (sync .repaired strat md stamp t.w).world.left = t.w.left ∧
    (sync .repaired strat md stamp t.w).world.right = t.w.right ∧
    ∀ p, (sync .repaired strat md stamp t.w).world.rows p = t.w.rows p := by
  -- every path is in sync
  have hsync : ∀ p, Synced (t.w.view p) := by
    intro p
    obtain ⟨h1, h2⟩ := hidle p
    unfold Trace.changedL at h1
    unfold Trace.changedR at h2
    simp only [ne_eq, Decidable.not_not] at h1 h2
    have hrows := hi.rows p
    have hview : t.w.view p = ⟨aget p t.w.left, aget p t.w.right, (t.w.rows p).1, (t.w.rows p).2⟩ := rfl
    rw [hview, hrows, h1, h2]
    cases ha : t.agreed p with
    | none => simp [Synced]
    | some ab => obtain ⟨a, b⟩ := ab; simp [Synced, hi.agree p a b ha]
  have hps : PostSync t.w := fun p => Or.inl (hsync p)
  have hnr := postSync_not_refused hps strat md stamp
  have hlim : deletionLimitExceeded (t.w.changes .repaired) md = false := by
    cases hx : deletionLimitExceeded (t.w.changes .repaired) md
    · rfl
    · simp [sync, hx] at hnr
  have hacts : resolveChanges strat stamp (t.w.changes .repaired) = [] := by
    rw [actions_eq, List.filterMap_eq_nil_iff]
    intro p _
    exact synced_action (hsync p) strat stamp p
  have hw : (sync .repaired strat md stamp t.w).world =
      { left := t.w.left, right := t.w.right,
        db := updateStateRepaired t.w.left t.w.right [] t.w.db t.w.allPaths, clock := t.w.clock + 1 } := by
    unfold sync
    simp only [hlim, hacts, execActions, List.foldl_nil]
    rfl
  refine ⟨by simp [sync, hlim, hacts], hnr, by simp [sync, hlim, hacts, execActions], by rw [hw], by rw [hw], ?_⟩
  intro p
  rw [hw]
  show (aget (p, Side.source) _, aget (p, Side.dest) _) = (aget (p, Side.source) t.w.db, aget (p, Side.dest) t.w.db)
  rw [updRepaired_get _ _ _ _ (nodup_allPaths _), updRepaired_get _ _ _ _ (nodup_allPaths _)]
  by_cases hp : p ∈ t.w.allPaths
  · simp only [hp, if_true]
    have hs := hsync p
    unfold Synced at hs
    have e1 : (t.w.view p).l = aget p t.w.left := rfl
    have e2 : (t.w.view p).r = aget p t.w.right := rfl
    have e3 : (t.w.view p).rl = aget (p, Side.source) t.w.db := rfl
    have e4 : (t.w.view p).rr = aget (p, Side.dest) t.w.db := rfl
    rw [e1, e2, e3, e4] at hs
    cases hl : aget p t.w.left <;> cases hr : aget p t.w.right <;> simp only [hl, hr] at hs
    · simp [rowsOf, hs.1, hs.2]
    · simp [rowsOf, hs.2.1, hs.2.2]
  · simp [hp]

/-! ### the pinned tree falsifies the statements -/

def f : Path := ['f']

/-- A8: create `f` on the left, sync, delete it on the left, sync. -/
def hA8 (strat : Strategy) : List Event :=
  [.edit .source f (.create 6), .sync strat 0 100, .edit .source f .delete]

/-- A16: create `f` on the left, sync, edit it on the left only (size change), sync. -/
def hA16 (strat : Strategy) : List Event :=
  [.edit .source f (.create 6), .sync strat 0 100, .edit .source f .modSize]

/-- after the first sync of the shipped code only the copied-TO side has a row, holding the
    mtime of the file copied FROM: `paired_state` is false on the pinned tree. -/
theorem paired_state_counterexample_one_row_per_copy :
    Trace.empty.Init ∧ FreshRun .pinned (hA8 .newer) .empty ∧
    (run .pinned (hA8 .newer) .empty).w.rows f = (none, some ⟨1, 6⟩) ∧
    ¬ Inv (run .pinned (hA8 .newer) .empty) := by
  refine ⟨⟨rfl, rfl, rfl, by decide, ?_⟩, by decide, by decide, ?_⟩
  · intro p g h; simp [Trace.empty, aget] at h
  · intro hi
    have := hi.consistent.1 f
    revert this; decide

/-- Signature `C12/resurrect-after-one-sided-delete`: the left deleted `f`, the right did not
    touch it, and the next sync of the shipped code copies `f` back to the left. -/
theorem one_sided_propagates_counterexample_resurrect_after_one_sided_delete :
    let t := run .pinned (hA8 .newer) .empty
    t.changedL f ∧ ¬ t.changedR f ∧ Fresh t.w 101 ∧ (sync .pinned .newer 0 101 t.w).refused = false ∧
    aget f t.w.left = none ∧
    (aget f (sync .pinned .newer 0 101 t.w).world.left).map File.content = some (1, 6) := by
  refine ⟨by decide, by decide, by decide, by decide, by decide, by decide⟩

/-- Signature `C12/one-sided-edit-reverted-by-strategy`: the left edited `f` (version 3), the
    right did not touch it; under `--conflict-resolve dest` the shipped code classifies this as
    a create/create conflict and overwrites the edit with the old version; version 3 then
    exists nowhere. -/
theorem one_sided_propagates_counterexample_one_sided_edit_reverted_by_strategy :
    let t := run .pinned (hA16 .dest) .empty
    t.changedL f ∧ ¬ t.changedR f ∧ Fresh t.w 101 ∧ (sync .pinned .dest 0 101 t.w).refused = false ∧
    t.w.ctypeAt .pinned f = some .createCreate ∧
    (aget f t.w.left).map File.content = some (3, 7) ∧
    (aget f (sync .pinned .dest 0 101 t.w).world.left).map File.content = some (1, 6) ∧
    (aget f (sync .pinned .dest 0 101 t.w).world.right).map File.content = some (1, 6) := by
  refine ⟨by decide, by decide, by decide, by decide, by decide, by decide, by decide, by decide⟩

/-- the same two histories on the repaired code. -/
example : aget f (run .repaired (hA8 .newer ++ [.sync .newer 0 101]) .empty).w.left = none ∧
    aget f (run .repaired (hA8 .newer ++ [.sync .newer 0 101]) .empty).w.right = none := by decide
example : (aget f (run .repaired (hA16 .dest ++ [.sync .dest 0 101]) .empty).w.right).map File.content = some (3, 7) := by
  decide

/-! ### what counts as "changed": an observation, not a finding

`changedL/changedR` compare the whole file version — content, size AND mtime — with the agreed
one, so a `touch` (one of the edit events of the property's alphabet) is a change of that side.
The code agrees (`is_modified`: mtime strictly newer). Consequence, on the repaired code too:
an edit on the left plus a mere touch on the right is a two-sided change, is classified
`ModifiedBoth`, and `newer` lets the touched (old) content win. The property text does not say
whether a touched side is "changed"; the harness counts these cases under
`observation.touch-only-side-in-conflict` and never reports them. -/

def hTouch : List Event :=
  [.edit .dest f (.create 3), .sync .newer 0 100, .edit .source f .modSize, .edit .dest f .touch]

example : (run .repaired hTouch .empty).changedL f ∧ (run .repaired hTouch .empty).changedR f ∧
    (run .repaired hTouch .empty).w.ctypeAt .repaired f = some .modifiedBoth ∧
    (aget f (sync .repaired .newer 0 104 (run .repaired hTouch .empty).w).world.left).map File.content = some (1, 3) := by
  decide

/-! ### non-vacuity -/

/-- a history that exercises creation on both sides, a conflict, a rename, propagation of the
    conflict copies, a one-sided edit and a one-sided delete. -/
def hEx : List Event :=
  [.edit .source f (.create 3), .edit .dest f (.create 3), .sync .rename 0 100, .sync .newer 0 101,
   .edit .source ['g'] (.create 4), .sync .larger 50 102, .edit .dest ['g'] .modSame, .sync .dest 0 103,
   .edit .source ['g'] .delete]

example : Trace.empty.Init := ⟨rfl, rfl, rfl, by decide, by intro p g h; simp [Trace.empty, aget] at h⟩
example : FreshRun .repaired hEx .empty := by decide
/-- at the end of `hEx`: `g` changed on the left only … -/
example : (run .repaired hEx .empty).changedL ['g'] ∧ ¬ (run .repaired hEx .empty).changedR ['g'] := by decide
example : Fresh (run .repaired hEx .empty).w 104 := by decide
example : (sync .repaired .newer 0 104 (run .repaired hEx .empty).w).refused = false := by decide
/-- … with the default limit the same sync IS refused (1 deletion out of 1 change > 50 %): the
    hypothesis `refused = false` is a real one. -/
example : (sync .repaired .newer 50 104 (run .repaired hEx .empty).w).refused = true := by decide
/-- a conflict verdict is reachable (both sides created `f`). -/
example : (run .repaired (hEx.take 2) .empty).w.ctypeAt .repaired f = some .createCreate := by decide
/-- an idle state is reachable with files present. -/
example : ∀ p ∈ (run .repaired (hEx.take 4) .empty).w.allPaths,
    ¬ (run .repaired (hEx.take 4) .empty).changedL p ∧ ¬ (run .repaired (hEx.take 4) .empty).changedR p := by
  decide

end SyModel.Props.C12
