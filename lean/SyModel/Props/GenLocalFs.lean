/-
  Props.GenLocalFs — bridge theorems of the effect unit `LocalFs` (`Generated/Code/LocalFs.lean`, regenerated from
  src/transport/local.rs on every run): what `LocalTransport::{exists, metadata, create_dir_all, remove,
  create_hardlink, create_symlink}`, `break_unshared_hard_link` and `remove_if_symlink` do to a POSIX-level world
  (`Lemmas/GenLocalFs.lean`: `PWorld`, instance `posix` — trusted), for ALL worlds and paths, and the tie to the meanings
  the Transfer bridge ASSUMES of the transport (`Lemmas/GenTransfer.lean`, instance `extOf`).

  Every theorem is about the generated definitions run on `posix` (`runM (f posix …) w` = result and world after).
-/
import SyModel.Lemmas.GenLocalFs
set_option linter.unusedVariables false
set_option linter.unusedSimpArgs false
namespace SyModel.Props.GenLocalFs
open SyModel SyModel.Generated SyModel.Generated.LocalFs SyModel.Lemmas.GenLocalFs
open SyModel.Lemmas.GenTransfer (runM runM_op)

/-! ### `remove_if_symlink` (C02 / C17: never write through a link) -/

/-- it never fails — in particular not when `lstat` fails (nothing there) -/
theorem remove_if_symlink_never_fails (w : PWorld) (p : Rs.Path) :
    (runM (remove_if_symlink posix p) w).1 = .ok () := by
  rw [remove_if_symlink_run]
  cases h : w.lstat p with
  | none => rfl
  | some n => cases n <;> rfl

/-- afterwards the path is not a symbolic link -/
theorem remove_if_symlink_not_symlink_after (w : PWorld) (p t : Rs.Path) :
    (runM (remove_if_symlink posix p) w).2.lstat p ≠ some (.symlink t) := by
  rw [remove_if_symlink_run]
  cases h : w.lstat p with
  | none => simp [h]
  | some n =>
    cases n with
    | symlink t' => simp [lstat_unlink_same]
    | dir => simp [h]
    | file i => simp [h]

/-- a link is removed as a NAME: only that name goes; its target, every other name and every inode (content and link
    counts) are exactly as before — nothing is written through the link -/
theorem remove_if_symlink_of_symlink (w : PWorld) (p t : Rs.Path) (h : w.lstat p = some (.symlink t)) :
    let w' := (runM (remove_if_symlink posix p) w).2
    w'.lstat p = none ∧ (∀ q, q ≠ p → w'.lstat q = w.lstat q) ∧ w'.inodes = w.inodes ∧ w'.dirNlink = w.dirNlink := by
  rw [remove_if_symlink_run, h]
  exact ⟨lstat_unlink_same _ _ _, fun q hq => lstat_unlink_ne _ _ _ _ hq, rfl, rfl⟩

/-- in particular what the link pointed to is untouched -/
theorem remove_if_symlink_target_untouched (w : PWorld) (p t : Rs.Path) (h : w.lstat p = some (.symlink t))
    (hne : linkDest p t ≠ p) :
    (runM (remove_if_symlink posix p) w).2.lstat (linkDest p t) = w.lstat (linkDest p t) :=
  (remove_if_symlink_of_symlink w p t h).2.1 _ hne

/-- anything that is not a link (a file, a directory, nothing) leaves the world as it was -/
theorem remove_if_symlink_unchanged (w : PWorld) (p : Rs.Path) (h : ∀ t, w.lstat p ≠ some (.symlink t)) :
    runM (remove_if_symlink posix p) w = (.ok (), w) := by
  rw [remove_if_symlink_run]
  cases hl : w.lstat p with
  | none => rfl
  | some n =>
    cases n with
    | symlink t => exact absurd hl (h t)
    | dir => rfl
    | file i => rfl

/-! ### `create_symlink` -/

/-- the frame of `create_symlink`, success or failure: a name other than `dest` keeps what it held, or was absent and
    is now a directory on the parent chain of `dest` -/
theorem create_symlink_frame (self : LocalTransport) (w : PWorld) (t d q : Rs.Path) (hq : q ≠ d) :
    let w' := (runM (LocalTransport.create_symlink posix self t d) w).2
    w'.lstat q = w.lstat q ∨
      (w.lstat q = none ∧ w'.lstat q = some .dir ∧ ∃ par, Rs.parent d = some par ∧ q ∈ prefixes par) := by
  intro w'
  have hg := mkParent_grew w d
  suffices hs : w'.lstat q = (mkParent w d).1.lstat q by rw [hs]; exact hg.names q
  show (runM (LocalTransport.create_symlink posix self t d) w).2.lstat q = _
  rw [create_symlink_run]
  rcases hm : mkParent w d with ⟨w1, b⟩
  cases b with
  | true => rfl
  | false =>
    simp only [placeLink]
    cases hl : w1.lstat d with
    | none => simp only; split <;> simp [fail, lstat_enter, Ne.symm hq]
    | some n =>
      cases n with
      | dir => rfl
      | file i => simp only; split <;> simp [fail, lstat_enter, Ne.symm hq, lstat_unlink_ne _ _ _ _ hq]
      | symlink t' => simp only; split <;> simp [fail, lstat_enter, Ne.symm hq, lstat_unlink_ne _ _ _ _ hq]

/-- on success `dest` IS a symbolic link with exactly the given text — whatever non-directory was there before
    (nothing, a file, another link, a dangling link) -/
theorem create_symlink_ok_places (self : LocalTransport) (w : PWorld) (t d : Rs.Path)
    (hok : (runM (LocalTransport.create_symlink posix self t d) w).1 = .ok ()) :
    (runM (LocalTransport.create_symlink posix self t d) w).2.lstat d = some (.symlink t) := by
  rw [create_symlink_run] at hok ⊢
  rcases hm : mkParent w d with ⟨w1, b⟩
  rw [hm] at hok
  cases b with
  | true => simp [fail] at hok
  | false =>
    simp only [placeLink] at hok ⊢
    cases hl : w1.lstat d with
    | none =>
      rw [hl] at hok; simp only at hok ⊢
      split at hok
      · rename_i hp; simp [hp, lstat_enter]
      · simp [fail] at hok
    | some n =>
      rw [hl] at hok
      cases n with
      | dir => simp [fail] at hok
      | file i =>
        simp only at hok ⊢
        split at hok
        · rename_i hp; simp [hp, lstat_enter]
        · simp [fail] at hok
      | symlink t' =>
        simp only at hok ⊢
        split at hok
        · rename_i hp; simp [hp, lstat_enter]
        · simp [fail] at hok

/-- inodes: replacing a regular file gives back one link of ITS inode (the other names of that inode keep the
    content); in every other case the inode table is untouched.  A replaced link's target is never looked at. -/
theorem create_symlink_inodes (self : LocalTransport) (w : PWorld) (t d : Rs.Path) :
    ((runM (LocalTransport.create_symlink posix self t d) w).2.inodes = w.inodes ∨
      ∃ i, w.lstat d = some (.file i) ∧
        (runM (LocalTransport.create_symlink posix self t d) w).2.inodes = decLink w.inodes i) ∧
      (runM (LocalTransport.create_symlink posix self t d) w).2.dirNlink = w.dirNlink := by
  have hg := mkParent_grew w d
  rw [create_symlink_run]
  rcases hm : mkParent w d with ⟨w1, b⟩
  rw [hm] at hg
  have hgi : w1.inodes = w.inodes := hg.inodes
  have hgd : w1.dirNlink = w.dirNlink := hg.dirNlink
  cases b with
  | true => exact ⟨Or.inl hgi, hgd⟩
  | false =>
    simp only [placeLink]
    cases hl : w1.lstat d with
    | none => simp only; split <;> exact ⟨Or.inl hgi, hgd⟩
    | some n =>
      have hwd : n ≠ .dir → w.lstat d = some n := fun hn => hg.was hl hn
      cases n with
      | dir => exact ⟨Or.inl hgi, hgd⟩
      | file i =>
        simp only
        split
        · exact ⟨Or.inr ⟨i, hwd (by simp), by simp [PWorld.enter, PWorld.unlink, hgi]⟩, hgd⟩
        · exact ⟨Or.inr ⟨i, hwd (by simp), by simp [fail, PWorld.unlink, hgi]⟩, hgd⟩
      | symlink t' =>
        simp only
        split
        · exact ⟨Or.inl hgi, hgd⟩
        · exact ⟨Or.inl hgi, hgd⟩

/-- a directory at `dest` makes it FAIL (`symlink` answers EEXIST); the directory and everything else stay — only
    absent parents may have been created -/
theorem create_symlink_dir_fails (self : LocalTransport) (w : PWorld) (t d : Rs.Path) (h : w.lstat d = some .dir) :
    (runM (LocalTransport.create_symlink posix self t d) w).1 = .error .io ∧
      (runM (LocalTransport.create_symlink posix self t d) w).2.lstat d = some .dir ∧
      (runM (LocalTransport.create_symlink posix self t d) w).2.inodes = w.inodes := by
  have hg := mkParent_grew w d
  rw [create_symlink_run]
  rcases hm : mkParent w d with ⟨w1, b⟩
  rw [hm] at hg
  have h1 : w1.lstat d = some .dir := hg.keeps h
  have hgi : w1.inodes = w.inodes := hg.inodes
  cases b with
  | true => exact ⟨rfl, h1, hgi⟩
  | false => simp only [placeLink, h1]; exact ⟨rfl, h1, hgi⟩

/-- it SUCCEEDS whenever the parents can be created, `dest` is not a directory and `dest`'s parent is not itself
    reached through a link (the one case where removing the old entry can take the parent away) -/
theorem create_symlink_succeeds (self : LocalTransport) (w : PWorld) (t d par : Rs.Path)
    (hpar : Rs.parent d = some par) (hmk : (mkdirP w par).2 = false) (hd : w.lstat d ≠ some .dir)
    (hnl : ∀ x, w.lstat par ≠ some (.symlink x)) (hne : par ≠ d) :
    (runM (LocalTransport.create_symlink posix self t d) w).1 = .ok () := by
  have hg := mkParent_grew w d
  have hok := parentOk_of_mkParent (w := w) (d := d) (by simp [hpar])
  rw [create_symlink_run]
  have hmp : mkParent w d = mkdirP w par := by simp [mkParent, hpar]
  rw [hmp] at hg hok ⊢
  rcases hm : mkdirP w par with ⟨w1, b⟩
  rw [hm] at hg hok hmk
  simp only at hmk
  subst hmk
  have hok1 : w1.parentOk d = true := hok rfl
  simp only [placeLink]
  -- after unlinking `d` the parent is still a directory: it is a directory ITSELF
  have hkeep : ∀ n, (w1.unlink d n).parentOk d = true := by
    intro n
    unfold PWorld.parentOk at hok1 ⊢
    rw [hpar] at hok1 ⊢
    cases par with
    | nil => rfl
    | cons a r =>
      simp only at hok1 ⊢
      have hnl1 : ∀ x, w1.lstat (a :: r) ≠ some (.symlink x) := fun x hx => hnl x (hg.was hx (by simp))
      have := lstat_dir_of_isDir hok1 hnl1
      exact isDir_of_lstat_dir (by rw [lstat_unlink_ne _ _ _ _ hne]; exact this)
  cases hl : w1.lstat d with
  | none => simp [hok1]
  | some n =>
    cases n with
    | dir =>
      rcases hg.names d with e | ⟨_, _, par', hp', m⟩
      · exact absurd (e ▸ hl) hd
      · rw [hpar] at hp'; cases hp'; exact (prefix_not_self hpar m).elim
    | file i => simp [hkeep]
    | symlink t' => simp [hkeep]

/-- replacing an old link never touches what the OLD link pointed to -/
theorem create_symlink_old_target_untouched (self : LocalTransport) (w : PWorld) (t d t' : Rs.Path) (n : PNode)
    (h : w.lstat d = some (.symlink t')) (hne : linkDest d t' ≠ d) (ht : w.lstat (linkDest d t') = some n) :
    (runM (LocalTransport.create_symlink posix self t d) w).2.lstat (linkDest d t') = some n := by
  rcases create_symlink_frame self w t d _ hne with e | ⟨e, _, _⟩
  · exact e.trans ht
  · rw [ht] at e; cases e

/-! ### `break_unshared_hard_link` -/

/-- it never fails, and the only thing it ever does is unlink the NAME `dest`, and only when `dest` itself (lstat) is a
    regular file whose inode has more than one link; in every other case (a link — even one that resolves to a
    multiply-linked file —, a directory, nothing, a singly linked file) the world is unchanged -/
theorem break_unshared_hard_link_spec (w : PWorld) (s d : Rs.Path) :
    runM (break_unshared_hard_link posix s d) w =
      match w.lstat d with
      | some (.file i) => if (w.inodes i).nlink > 1 then (.ok (), w.unlink d (.file i)) else (.ok (), w)
      | _ => (.ok (), w) := by
  rw [break_unshared_hard_link_run]
  cases hl : w.lstat d with
  | none => cases w.hasLinks d <;> rfl
  | some n =>
    cases n with
    | dir => cases w.hasLinks d <;> rfl
    | symlink t => cases w.hasLinks d <;> rfl
    | file i =>
      have : w.hasLinks d = decide ((w.inodes i).nlink > 1) := by simp [PWorld.hasLinks, stat_of_lstat_file hl]
      rw [this]
      by_cases hn : (w.inodes i).nlink > 1 <;> simp [hn]

theorem break_unshared_hard_link_never_fails (w : PWorld) (s d : Rs.Path) :
    (runM (break_unshared_hard_link posix s d) w).1 = .ok () := by
  rw [break_unshared_hard_link_spec]
  cases hl : w.lstat d with
  | none => rfl
  | some n => cases n <;> simp only <;> split <;> rfl

/-- when it does break the link: `dest` is gone, every other name is as before, the inode keeps its content (size,
    mtime, xattrs) with one link less — the other names of the inode still see the old content -/
theorem break_unshared_hard_link_breaks (w : PWorld) (s d : Rs.Path) (i : Nat)
    (hl : w.lstat d = some (.file i)) (hn : (w.inodes i).nlink > 1) :
    let w' := (runM (break_unshared_hard_link posix s d) w).2
    w'.lstat d = none ∧ (∀ q, q ≠ d → w'.lstat q = w.lstat q) ∧
      (∀ j, j ≠ i → w'.inodes j = w.inodes j) ∧
      w'.inodes i = { w.inodes i with nlink := (w.inodes i).nlink - 1 } ∧ 0 < (w'.inodes i).nlink := by
  rw [break_unshared_hard_link_spec, hl]
  simp only [hn, ↓reduceIte]
  refine ⟨lstat_unlink_same _ _ _, fun q hq => lstat_unlink_ne _ _ _ _ hq, fun j hj => ?_, ?_, ?_⟩
  · simp [PWorld.unlink, decLink, hj]
  · simp [PWorld.unlink, decLink]
  · simp [PWorld.unlink, decLink]; omega

/-- in every other case nothing changes -/
theorem break_unshared_hard_link_unchanged (w : PWorld) (s d : Rs.Path)
    (h : ∀ i, w.lstat d = some (.file i) → (w.inodes i).nlink ≤ 1) :
    runM (break_unshared_hard_link posix s d) w = (.ok (), w) := by
  rw [break_unshared_hard_link_spec]
  cases hl : w.lstat d with
  | none => rfl
  | some n =>
    cases n with
    | dir => rfl
    | symlink t => rfl
    | file i => have := h i hl; simp only; rw [if_neg (by omega)]

/-! ### `remove` -/

/-- `is_dir = false` is `unlink`: a regular file or a link goes as a NAME (a link to a directory: only the link; the
    directory it points to and everything in it stay); a directory or nothing fails, world unchanged -/
theorem remove_file_mode (self : LocalTransport) (w : PWorld) (p : Rs.Path) :
    runM (LocalTransport.remove posix self p false) w =
      match w.lstat p with
      | some .dir => (.error .io, w)
      | some n => (.ok (), w.unlink p n)
      | none => (.error .io, w) := by
  rw [remove_run]
  cases hl : w.lstat p with
  | none => rfl
  | some n => cases n <;> rfl

/-- `is_dir = true` is `std::fs::remove_dir_all`: a directory goes with its subtree; a LINK is unlinked itself (it is
    not followed); a regular file or nothing fails, world unchanged -/
theorem remove_dir_mode (self : LocalTransport) (w : PWorld) (p : Rs.Path) :
    runM (LocalTransport.remove posix self p true) w =
      match w.lstat p with
      | some .dir => (.ok (), w.removeTree p)
      | some (.symlink t) => (.ok (), w.unlink p (.symlink t))
      | _ => (.error .io, w) := by
  rw [remove_run]
  cases hl : w.lstat p with
  | none => rfl
  | some n => cases n <;> rfl

/-- whatever the flag and the outcome, a name that is neither `p` nor below `p` keeps what it held -/
theorem remove_frame (self : LocalTransport) (w : PWorld) (p q : Rs.Path) (isDir : Bool) (hq : under p q = false) :
    (runM (LocalTransport.remove posix self p isDir) w).2.lstat q = w.lstat q := by
  have hne : q ≠ p := fun e => by rw [e, under_self] at hq; cases hq
  rw [remove_run]
  cases hl : w.lstat p with
  | none => rfl
  | some n =>
    cases n with
    | symlink t => exact lstat_unlink_ne _ _ _ _ hne
    | dir => cases isDir <;> simp [fail, lstat_removeTree, hq]
    | file i => cases isDir <;> simp [fail, lstat_unlink_ne _ _ _ _ hne]

/-- a directory removed with `is_dir = true`: exactly the names at and below `p` go -/
theorem remove_dir_subtree (self : LocalTransport) (w : PWorld) (p q : Rs.Path) (h : w.lstat p = some .dir) :
    (runM (LocalTransport.remove posix self p true) w).1 = .ok () ∧
    (runM (LocalTransport.remove posix self p true) w).2.lstat q = if under p q then none else w.lstat q := by
  rw [remove_dir_mode, h]
  exact ⟨rfl, lstat_removeTree _ _ _⟩

/-- THE COMBINATION THE ENGINE USES (src/sync/mod.rs:1100, `let is_dir = task.dest_path.is_dir()` — a test that
    FOLLOWS links — then `Transferrer::delete(path, is_dir)` → `transport.remove(path, is_dir)`): for a symbolic link
    at `p`, whatever it points to (a directory: flag `true`; a file, nothing, a loop: flag `false`), only the NAME `p`
    is removed: every other name — in particular everything in the directory the link points to — and every inode is
    exactly as before.  `remove_dir_all` is what makes the `true` case safe: it `lstat`s first (std docs: "does not
    follow symbolic links and it will simply remove the symbolic link itself"). -/
theorem delete_of_symlink_removes_only_the_link (self : LocalTransport) (w : PWorld) (p t : Rs.Path)
    (h : w.lstat p = some (.symlink t)) :
    let r := runM (LocalTransport.remove posix self p (w.isDir p)) w
    r.1 = .ok () ∧ r.2.lstat p = none ∧ (∀ q, q ≠ p → r.2.lstat q = w.lstat q) ∧ r.2.inodes = w.inodes := by
  rw [remove_run, h]
  exact ⟨rfl, lstat_unlink_same _ _ _, fun q hq => lstat_unlink_ne _ _ _ _ hq, rfl⟩

/-- the flag matters only for real directories and regular files, where the engine's test computes it right:
    with the flag `w.isDir p` the removal of anything present succeeds -/
theorem delete_with_engine_flag_succeeds (self : LocalTransport) (w : PWorld) (p : Rs.Path) (n : PNode)
    (h : w.lstat p = some n) :
    (runM (LocalTransport.remove posix self p (w.isDir p)) w).1 = .ok () := by
  rw [remove_run, h]
  cases n with
  | symlink t => rfl
  | dir => simp [isDir_of_lstat_dir h]
  | file i => simp [PWorld.isDir, stat_of_lstat_file h]

/-- removing a regular file gives one link of its inode back; content, size, mtime of every inode are untouched
    (the other names of a multiply-linked file keep the content) -/
theorem remove_file_inodes (self : LocalTransport) (w : PWorld) (p : Rs.Path) (i : Nat) (h : w.lstat p = some (.file i)) :
    (runM (LocalTransport.remove posix self p false) w).2.inodes = decLink w.inodes i := by
  rw [remove_file_mode, h]; rfl

/-! ### `exists`, `metadata` -/

/-- `exists` never fails and never changes anything; it FOLLOWS links: `true` iff `stat` finds a node; an error of
    `try_exists` (ELOOP) is answered `false` -/
theorem exists_spec (self : LocalTransport) (w : PWorld) (p : Rs.Path) :
    runM (LocalTransport.exists posix self p) w =
      (.ok (match w.stat p with | .node _ _ => true | _ => false), w) := exists_run self w p

/-- a link to something present exists; a dangling link does not (the link itself is not what is asked about) -/
theorem exists_follows (self : LocalTransport) (w : PWorld) (p t : Rs.Path) (h : w.lstat p = some (.symlink t)) :
    (runM (LocalTransport.exists posix self p) w).1 =
      .ok (match resolve w maxLinks (linkDest p t) with | .node _ _ => true | _ => false) := by
  rw [exists_spec]
  simp [PWorld.stat, resolve, h]

/-- `metadata` is `stat` (follows links): the node the path resolves to, an error when there is none -/
theorem metadata_spec (self : LocalTransport) (w : PWorld) (p : Rs.Path) :
    runM (LocalTransport.metadata posix self p) w =
      match w.stat p with
      | .node _ (.file i) => (.ok ⟨false, (w.inodes i).mtime, (w.inodes i).size⟩, w)
      | .node _ .dir => (.ok ⟨true, 0, 0⟩, w)
      | _ => (.error .io, w) := metadata_run self w p

/-! ### `create_dir_all` -/

/-- `create_dir_all`: success or not, it only adds directories at absent prefixes of the path; on success every prefix
    resolves to a directory; it is idempotent -/
theorem create_dir_all_spec (self : LocalTransport) (w : PWorld) (p : Rs.Path) :
    let r := runM (LocalTransport.create_dir_all posix self p) w
    Grew w r.2 (· ∈ prefixes p) ∧ (r.1 = .ok () → ∀ q ∈ prefixes p, r.2.isDir q = true) := by
  have hg := mkdirP_grew w p
  have hd := mkdirP_dirs (w := w) (p := p)
  rw [create_dir_all_run]
  rcases hm : mkdirP w p with ⟨w1, b⟩
  rw [hm] at hg hd
  cases b with
  | false => exact ⟨hg, fun _ => hd rfl⟩
  | true => exact ⟨hg, fun h => by simp [fail] at h⟩

theorem create_dir_all_idempotent (self : LocalTransport) (w : PWorld) (p : Rs.Path)
    (h : (runM (LocalTransport.create_dir_all posix self p) w).1 = .ok ()) :
    runM (LocalTransport.create_dir_all posix self p) (runM (LocalTransport.create_dir_all posix self p) w).2 =
      (.ok (), (runM (LocalTransport.create_dir_all posix self p) w).2) := by
  have hi := mkdirP_idem (w := w) (p := p)
  have e := create_dir_all_run self w p
  rcases hm : mkdirP w p with ⟨w1, b⟩
  rw [hm] at hi e
  cases b with
  | true => rw [e] at h; simp [fail] at h
  | false =>
    rw [e]
    show runM (LocalTransport.create_dir_all posix self p) w1 = (.ok (), w1)
    rw [create_dir_all_run, hi rfl]

/-- a prefix that is a regular file (or a link that does not resolve to a directory) makes it fail -/
theorem create_dir_all_fails_on_file (self : LocalTransport) (w : PWorld) (p q : Rs.Path) (i : Nat)
    (hq : q ∈ prefixes p) (hf : w.lstat q = some (.file i)) :
    (runM (LocalTransport.create_dir_all posix self p) w).1 = .error .io := by
  have hg := mkdirP_grew w p
  have hd := mkdirP_dirs (w := w) (p := p)
  rw [create_dir_all_run]
  rcases hm : mkdirP w p with ⟨w1, b⟩
  rw [hm] at hg hd
  cases b with
  | true => rfl
  | false =>
    have h1 := hd rfl q hq
    have hk : w1.lstat q = some (.file i) := hg.keeps hf
    simp [PWorld.isDir, stat_of_lstat_file hk] at h1

/-! ### `create_hardlink` -/

/-- on success with a regular file at `source`: `dest` and `source` are names of the SAME inode, whose link count grew
    by one and whose content is as before; every other inode is untouched -/
theorem create_hardlink_ok (self : LocalTransport) (w : PWorld) (s d : Rs.Path) (i : Nat)
    (hs : w.lstat s = some (.file i))
    (hok : (runM (LocalTransport.create_hardlink posix self s d) w).1 = .ok ()) :
    let w' := (runM (LocalTransport.create_hardlink posix self s d) w).2
    w'.lstat d = some (.file i) ∧ w'.lstat s = some (.file i) ∧ w.lstat d = none ∧
      w'.inodes i = { w.inodes i with nlink := (w.inodes i).nlink + 1 } ∧ (∀ j, j ≠ i → w'.inodes j = w.inodes j) := by
  have hg := mkParent_grew w d
  rw [create_hardlink_run] at hok ⊢
  rcases hm : mkParent w d with ⟨w1, b⟩
  rw [hm] at hg hok
  have hs1 : w1.lstat s = some (.file i) := hg.keeps hs
  have hgi : w1.inodes = w.inodes := hg.inodes
  cases b with
  | true => simp [fail] at hok
  | false =>
    simp only [posix, runM_op, hs1] at hok ⊢
    cases hd : w1.lstat d with
    | some n => simp [hd, fail] at hok
    | none =>
      cases hp : w1.parentOk d with
      | false => simp [hd, hp, fail] at hok
      | true =>
        have hsd : d ≠ s := fun e => by rw [e, hs1] at hd; cases hd
        have hwd : w.lstat d = none := by
          rcases hg.names d with e | ⟨e, _, _⟩
          · rw [← e]; exact hd
          · exact e
        simp only [hd, hp]
        refine ⟨by simp [lstat_enter, PWorld.lstat, PWorld.enter, lookup], ?_, hwd, by simp [incLink, hgi], fun j hj => by simp [incLink, hj, hgi]⟩
        have : (w1.enter d (.file i)).lstat s = some (.file i) := by rw [lstat_enter]; simp [hsd, hs1]
        exact this

/-- it FAILS when `dest` holds anything (EEXIST); nothing but absent parents changed -/
theorem create_hardlink_fails_when_dest_exists (self : LocalTransport) (w : PWorld) (s d : Rs.Path) (n : PNode)
    (hd : w.lstat d = some n) :
    (runM (LocalTransport.create_hardlink posix self s d) w).1 = .error .io ∧
      Grew w (runM (LocalTransport.create_hardlink posix self s d) w).2
        (fun q => ∃ par, Rs.parent d = some par ∧ q ∈ prefixes par) := by
  have hg := mkParent_grew w d
  rw [create_hardlink_run]
  rcases hm : mkParent w d with ⟨w1, b⟩
  rw [hm] at hg
  have hd1 : w1.lstat d = some n := hg.keeps hd
  cases b with
  | true => exact ⟨rfl, hg⟩
  | false => simp only [posix, runM_op, hd1]; exact ⟨rfl, hg⟩

/-! ### the tie to the Transfer bridge: the generated local transport on `posix` IMPLEMENTS the meanings that
    `Lemmas/GenTransfer.lean`'s instance `extOf` ASSUMES of `t_remove`, `t_create_dir_all`, `t_create_symlink`

    `Abs root pw d`: the model's destination map `d` represents the POSIX world `pw` below `root` (`absDst root pw` is
    such a map: `abs_absDst`).  Each theorem runs the ASSUMED operation on an `XWorld` whose destination map
    represents `pw`, and the GENERATED function on `pw`, at the same destination path `destOf root k`. -/

open SyModel.Engine
open SyModel.Lemmas.GenTransfer (XWorld extOf CleanPath destOf at_destOf removeW mkdirW)

/-- `remove`: same outcome, and the worlds after it still correspond (on failure neither changed) -/
theorem remove_implements_t_remove (cfg : Cfg) (o : Rs.Opaque) (self : LocalTransport) (xw : XWorld) (pw : PWorld)
    (k : Engine.Path) (hk : CleanPath k) (isDir : Bool) (habs : Abs xw.root pw xw.w.dst) :
    ((runM ((extOf cfg).t_remove o (destOf xw.root k) isDir) xw).1 = .ok () ↔
      (runM (LocalTransport.remove posix self (destOf xw.root k) isDir) pw).1 = .ok ()) ∧
    Abs xw.root (runM (LocalTransport.remove posix self (destOf xw.root k) isDir) pw).2
      (runM ((extOf cfg).t_remove o (destOf xw.root k) isDir) xw).2.w.dst := by
  simp only [SyModel.Lemmas.GenTransfer.extOf_t_remove, runM_op, at_destOf xw _ rfl k hk]
  rw [remove_run]
  have hg := habs k hk
  unfold removeW
  cases hl : pw.lstat (destOf xw.root k) with
  | none => rw [hl] at hg; simp [hg, fail, XWorld.outcome]; exact habs
  | some n =>
    rw [hl] at hg
    cases n with
    | symlink t =>
      simp only [Option.map_some, absNode] at hg
      simp only [hg, Option.map_some, XWorld.outcome]
      exact ⟨trivial, abs_unlink habs k hk _⟩
    | dir =>
      simp only [Option.map_some, absNode] at hg
      cases isDir with
      | true => simp only [hg, ↓reduceIte, Option.map_some, XWorld.outcome]; exact ⟨trivial, abs_removeTree habs k hk⟩
      | false => simp [hg, fail, XWorld.outcome]; exact habs
    | file i =>
      simp only [Option.map_some, absNode] at hg
      cases isDir with
      | false =>
        simp only [hg, Bool.false_eq_true, ↓reduceIte, Option.map_some, XWorld.outcome]
        exact ⟨trivial, abs_unlink habs k hk _⟩
      | true => simp [hg, fail, XWorld.outcome]; exact habs

/-- `create_dir_all`: same outcome; on success the worlds after it correspond.  On failure the model's operation is
    atomic (world unchanged) while the real one keeps the directories created before the failing prefix — they are
    absent-before directories on the path's own chain (`create_dir_all_spec`), nothing else.
    Hypotheses: the root's own chain exists, and there is no symbolic link on the key's chain (the model has no link
    resolution: see INTEGRATION.md). -/
theorem create_dir_all_implements_t_create_dir_all (cfg : Cfg) (o : Rs.Opaque) (self : LocalTransport) (xw : XWorld)
    (pw : PWorld) (k : Engine.Path) (hk : CleanPath k) (hr : RootOk xw.root pw) (hn : NoLinksTo xw.root pw k)
    (habs : Abs xw.root pw xw.w.dst) :
    ((runM ((extOf cfg).t_create_dir_all o (destOf xw.root k)) xw).1 = .ok () ↔
      (runM (LocalTransport.create_dir_all posix self (destOf xw.root k)) pw).1 = .ok ()) ∧
    ((runM ((extOf cfg).t_create_dir_all o (destOf xw.root k)) xw).1 = .ok () →
      Abs xw.root (runM (LocalTransport.create_dir_all posix self (destOf xw.root k)) pw).2
        (runM ((extOf cfg).t_create_dir_all o (destOf xw.root k)) xw).2.w.dst) := by
  simp only [SyModel.Lemmas.GenTransfer.extOf_t_create_dir_all, runM_op, at_destOf xw _ rfl k hk]
  rw [create_dir_all_run]
  have hs := mkdirP_sim xw.root pw xw.w.dst k hk hr hn habs
  unfold mkdirW
  cases hm : mkdirAll xw.w.dst k with
  | none =>
    rw [hm] at hs
    rcases hp : mkdirP pw (destOf xw.root k) with ⟨w1, b⟩
    rw [hp] at hs
    simp only at hs
    subst hs
    simp [XWorld.outcome, fail]
  | some d' =>
    rw [hm] at hs
    obtain ⟨pw', e, a, _⟩ := hs
    rw [e]
    simp only [Option.map_some, XWorld.outcome]
    exact ⟨trivial, fun _ => a⟩

/-- `create_symlink`: same outcome as the model's `writeSymlink` (parents, replace any non-directory, EEXIST on a
    directory); on success the worlds after it correspond.  Hypotheses: the root is a real directory whose chain
    exists, no symbolic link on the chain of the PARENT key. -/
theorem create_symlink_implements_t_create_symlink (cfg : Cfg) (o : Rs.Opaque) (self : LocalTransport) (xw : XWorld)
    (pw : PWorld) (k : Engine.Path) (t : Rs.Path) (hk : CleanPath k) (hr : RootOk xw.root pw)
    (hroot : xw.root ≠ [] → pw.lstat xw.root = some .dir) (hn : NoLinksTo xw.root pw (parentOf k))
    (habs : Abs xw.root pw xw.w.dst) :
    ((runM ((extOf cfg).t_create_symlink o t (destOf xw.root k)) xw).1 = .ok () ↔
      (runM (LocalTransport.create_symlink posix self t (destOf xw.root k)) pw).1 = .ok ()) ∧
    ((runM ((extOf cfg).t_create_symlink o t (destOf xw.root k)) xw).1 = .ok () →
      Abs xw.root (runM (LocalTransport.create_symlink posix self t (destOf xw.root k)) pw).2
        (runM ((extOf cfg).t_create_symlink o t (destOf xw.root k)) xw).2.w.dst) := by
  simp only [SyModel.Lemmas.GenTransfer.extOf_t_create_symlink, runM_op, at_destOf xw _ rfl k hk]
  rw [create_symlink_run]
  have hs := mkParent_sim xw.root pw xw.w.dst k hk hr hn habs
  unfold writeSymlink
  cases hm : mkdirAll xw.w.dst (parentOf k) with
  | none =>
    rw [hm] at hs
    rcases hp : mkParent pw (destOf xw.root k) with ⟨w1, b⟩
    rw [hp] at hs
    simp only at hs
    subst hs
    simp [XWorld.outcome, fail]
  | some d1 =>
    rw [hm] at hs
    obtain ⟨pw1, e, a, g⟩ := hs
    have hpok : pw1.parentOk (destOf xw.root k) = true := by
      have := parentOk_of_mkParent (w := pw) (d := destOf xw.root k) (by
        obtain ⟨ks, c, rfl⟩ : ∃ ks c, k = ks ++ [c] :=
          ⟨k.dropLast, k.getLast hk.1, (List.dropLast_concat_getLast hk.1).symm⟩
        rw [parent_destOf_snoc xw.root ks c hk]; simp)
      rw [e] at this
      exact this rfl
    have hreal : ∀ par, Rs.parent (destOf xw.root k) = some par → par ≠ [] → ∀ x, pw1.lstat par ≠ some (.symlink x) := by
      intro par hp hne x hx
      have hx0 : pw.lstat par = some (.symlink x) := g.was hx (by simp)
      obtain ⟨ks, c, rfl⟩ : ∃ ks c, k = ks ++ [c] :=
        ⟨k.dropLast, k.getLast hk.1, (List.dropLast_concat_getLast hk.1).symm⟩
      rw [parent_destOf_snoc xw.root ks c hk] at hp
      have hpk : parentOf (ks ++ [c]) = ks := by simp [parentOf]
      by_cases hks : ks = []
      · simp only [hks, ↓reduceIte, Option.some.injEq] at hp
        subst hp
        rw [hroot hne] at hx0; cases hx0
      · simp only [hks, ↓reduceIte, Option.some.injEq] at hp
        subst hp
        rw [hpk] at hn
        exact hn ks hks (isPrefix_refl _) x hx0
    have hpl := placeLink_sim xw.root pw1 d1 k t hk a hpok hreal
    rw [e]
    simp only
    cases hg : d1.get? k with
    | none =>
      rw [hg] at hpl
      obtain ⟨pw', e2, a2⟩ := hpl
      rw [e2]
      simp only [Option.map_some, XWorld.outcome]
      exact ⟨trivial, fun _ => a2⟩
    | some v =>
      rw [hg] at hpl
      cases v with
      | dir => simp only at hpl; rw [hpl]; simp [XWorld.outcome]
      | file m =>
        obtain ⟨pw', e2, a2⟩ := hpl
        rw [e2]
        simp only [Option.map_some, XWorld.outcome]
        exact ⟨trivial, fun _ => a2⟩
      | symlink s' =>
        obtain ⟨pw', e2, a2⟩ := hpl
        rw [e2]
        simp only [Option.map_some, XWorld.outcome]
        exact ⟨trivial, fun _ => a2⟩

/-- the abstraction FUNCTION `absDst root pw` (the names of `pw` below `root` as a destination map) represents `pw`:
    the three theorems above apply to `xw.w.dst = absDst xw.root pw` -/
theorem absDst_represents (root : Rs.Path) (pw : PWorld) : Abs root pw (absDst root pw) := abs_absDst root pw

/-! ### non-vacuity: one concrete world in which every hypothesis above is met

    /d (dir)   /d/f, /d/g (two names of inode 1, nlink 2)   /d/l -> /t   /d/dl -> nowhere (dangling)
    /t (dir)   /t/x (inode 2, nlink 1) -/

def pD : Rs.Path := ['/', 'd']
def pF : Rs.Path := ['/', 'd', '/', 'f']
def pG : Rs.Path := ['/', 'd', '/', 'g']
def pL : Rs.Path := ['/', 'd', '/', 'l']
def pDL : Rs.Path := ['/', 'd', '/', 'd', 'l']
def pT : Rs.Path := ['/', 't']
def pX : Rs.Path := ['/', 't', '/', 'x']
def pNew : Rs.Path := ['/', 'd', '/', 'n', '/', 'k']
def sampleW : PWorld :=
  { names := [(pD, .dir), (pF, .file 1), (pG, .file 1), (pL, .symlink pT), (pDL, .symlink ['n', 'o']),
              (pT, .dir), (pX, .file 2)],
    inodes := fun i => if i = 1 then ⟨7, 3, 100, [], 2⟩ else ⟨9, 1, 50, [], 1⟩,
    dirNlink := 2 }

example : sampleW.lstat pL = some (.symlink pT) ∧ linkDest pL pT ≠ pL := by decide
example : ∀ t, sampleW.lstat pF ≠ some (.symlink t) := by
  intro t h; have e : sampleW.lstat pF = some (.file 1) := by decide
  rw [e] at h; cases h
example : sampleW.lstat pD = some .dir := by decide
example : sampleW.lstat pF = some (.file 1) ∧ (sampleW.inodes 1).nlink > 1 := by decide
example : ∀ i, sampleW.lstat pX = some (.file i) → (sampleW.inodes i).nlink ≤ 1 := by
  intro i h; have : i = 2 := by (have : sampleW.lstat pX = some (.file 2) := by decide); rw [this] at h; cases h; rfl
  subst this; decide
example : under pD pF = true ∧ under pD pT = false := by decide
/-- the engine's flag on the link to a directory IS `true`: the case `delete_of_symlink_removes_only_the_link` is about -/
example : sampleW.isDir pL = true := by decide
/-- `create_symlink` over a regular file, over a link to a directory, over a dangling link, at a new name below a
    missing directory: the hypotheses of `create_symlink_succeeds` hold, so `create_symlink_ok_places` applies -/
example : Rs.parent pF = some pD ∧ (mkdirP sampleW pD).2 = false ∧ sampleW.lstat pF ≠ some .dir ∧
    (∀ x, sampleW.lstat pD ≠ some (.symlink x)) ∧ pD ≠ pF := by
  refine ⟨by decide, by decide, by decide, fun x h => ?_, by decide⟩
  have e : sampleW.lstat pD = some .dir := by decide
  rw [e] at h; cases h
example : (runM (LocalTransport.create_symlink posix {} pX pL) sampleW).1 = .ok () ∧
    (runM (LocalTransport.create_symlink posix {} pX pDL) sampleW).1 = .ok () ∧
    (runM (LocalTransport.create_symlink posix {} pX pNew) sampleW).1 = .ok () := by
  refine ⟨?_, ?_, ?_⟩ <;> rfl
example : sampleW.lstat pL = some (.symlink pT) ∧ linkDest pL pT ≠ pL ∧ sampleW.lstat (linkDest pL pT) = some .dir := by
  decide
example : (runM (LocalTransport.create_hardlink posix {} pX pNew) sampleW).1 = .ok () ∧
    sampleW.lstat pX = some (.file 2) := by
  exact ⟨rfl, by decide⟩
example : (runM (LocalTransport.create_dir_all posix {} pNew) sampleW).1 = .ok () := by
  rfl
example : pF ∈ prefixes (pF ++ ['/', 'z']) ∧ sampleW.lstat pF = some (.file 1) := by decide
/-- `exists`: the link to a directory exists, the dangling link does not, and a link to itself (ELOOP: `try_exists`
    fails) is answered `false` -/
example : (runM (LocalTransport.exists posix {} pL) sampleW).1 = .ok true ∧
    (runM (LocalTransport.exists posix {} pDL) sampleW).1 = .ok false ∧
    (runM (LocalTransport.exists posix {} pL) { sampleW with names := [(pL, .symlink pL)] }).1 = .ok false ∧
    (runM (posix.try_exists pL) { sampleW with names := [(pL, .symlink pL)] }).1 = .error .io := by
  refine ⟨?_, ?_, ?_, ?_⟩ <;> rfl

/-! non-vacuity of the tie's hypotheses: root `/d` of the sample world, key `f` (and its parent, the root) -/

def kF : Engine.Path := [String.ofList ['f']]
def sampleXW : XWorld :=
  { root := pD, w := { dst := absDst pD sampleW, linkMap := [], nextIno := 0, bytes := 0 },
    src := fun _ => .dangling, valId := fun _ => 0 }

theorem kF_clean : CleanPath kF := ⟨by simp [kF], by intro c hc; simp [kF] at hc; subst hc; simp⟩
theorem destOf_kF : destOf pD kF = pF := by simp [destOf, kF, SyModel.Lemmas.GenTransfer.textOf, Rs.join, pD, pF]

example : Abs sampleXW.root sampleW sampleXW.w.dst := absDst_represents pD sampleW
example : RootOk sampleXW.root sampleW := by
  have : prefixes pD = [pD] := by decide
  intro q hq
  rw [show sampleXW.root = pD from rfl, this] at hq
  simp only [List.mem_singleton] at hq
  subst hq; decide
example : sampleXW.root ≠ [] → sampleW.lstat sampleXW.root = some .dir := fun _ => by decide
example : NoLinksTo sampleXW.root sampleW kF := by
  intro q hq hp t
  have : q = kF := by
    cases q with
    | nil => exact absurd rfl hq
    | cons a r =>
      cases r with
      | nil => simpa [kF, isPrefix] using hp
      | cons b r' => simp [kF, isPrefix] at hp
  subst this
  rw [show sampleXW.root = pD from rfl, destOf_kF]
  intro h
  have e : sampleW.lstat pF = some (.file 1) := by decide
  rw [e] at h; cases h
example : NoLinksTo sampleXW.root sampleW (parentOf kF) := by
  intro q hq hp t
  have : parentOf kF = [] := by simp [parentOf, kF]
  rw [this] at hp
  exact absurd (isPrefix_nil_right hp) hq

end SyModel.Props.GenLocalFs
