/-
  GenEngineOrderTemp — the two translated pieces together: the ORDER fragments of `SyncEngine::sync` (unit EngineOrder) instantiated with
  the TRANSLATED naming function `working_file_path` (unit TempFile).  No parameter is left: for the code as it is,

    * `stale_working_file_deleted_before_barrier` — a planned deletion of `<dest>.sy.tmp` (the text of a planned create / update's
      destination with the suffix appended) is handed to the workers before the barrier, hence completed before that transfer starts;
    * `working_files_distinct` — two planned transfers with different (proper) destinations never have the same working file, so no
      deletion is moved before the barrier on behalf of the wrong transfer, and no two transfers share a working file (C05).
-/
import SyModel.Props.GenEngineOrder
import SyModel.Props.GenTempFile
namespace SyModel.Props.GenEngineOrderTemp
open SyModel.Generated SyModel.Generated.EngineOrder

/-- the instance of the order unit's only parameter: the translated naming function -/
def realExt (W : Type) : Ext W := { temp_file_working_file_path := SyModel.Generated.TempFile.working_file_path }

theorem stale_working_file_deleted_before_barrier {W : Type} (tasks deletions : List SyncTask) (replaced : List Rs.Path) (w : W)
    (hone : (tasks.filter (GenEngineOrder.isRepl replaced)).length = replaced.length)
    (d t : SyncTask) (hd : d ∈ deletions) (ht : t ∈ tasks) (hx : GenEngineOrder.isTransfer t = true)
    (hproper : GenTempFile.ProperName t.dest_path) (hp : d.dest_path = t.dest_path ++ GenTempFile.sfx) :
    ∃ ts m, GenEngineOrder.runM (GenEngineOrder.finalOrder (realExt W) tasks deletions replaced) w = (.ok (ts, m), w) ∧ d ∈ ts.take m := by
  apply GenEngineOrder.working_file_deletions_before_barrier (realExt W) tasks deletions replaced w hone d t hd ht hx
  show d.dest_path = SyModel.Generated.TempFile.working_file_path t.dest_path
  rw [GenTempFile.working_file_path_eq _ hproper]
  exact hp

theorem working_files_distinct (t u : SyncTask) (ht : GenTempFile.ProperName t.dest_path) (hu : GenTempFile.ProperName u.dest_path)
    (hne : t.dest_path ≠ u.dest_path) :
    SyModel.Generated.TempFile.working_file_path t.dest_path ≠ SyModel.Generated.TempFile.working_file_path u.dest_path :=
  fun h => hne (GenTempFile.working_file_path_injective _ _ ht hu h)

end SyModel.Props.GenEngineOrderTemp
