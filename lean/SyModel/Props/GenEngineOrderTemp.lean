/-
  GenEngineOrderTemp — the two translated pieces together: the ORDER fragments of `SyncEngine::sync` (unit EngineOrder) instantiated with
  the TRANSLATED naming function `working_file_path` (unit TempFile).  No parameter is left: for the code as it is,

    * `stale_working_file_deleted_before_barrier` — a planned deletion of `<dest>.sy.tmp` (the text of a planned create / update's
      destination with the suffix appended) is handed to the workers before the barrier, hence completed before that transfer starts;
    * `working_files_distinct` — two planned transfers with different (proper) destinations never have the same working file, so no
      deletion is moved before the barrier on behalf of the wrong transfer, and no two transfers share a working file (C05).
-/
import SyModel.Props.GenEngineOrder
import SyModel.Props.GenTempFile
namespace SyModel.Props.GenEngineOrderTemp
open SyModel.Generated SyModel.Generated.EngineOrder

/-- the instance of the order unit's only parameter: the translated naming function -/
def realExt (W : Type) : Ext W := { temp_file_working_file_path := SyModel.Generated.TempFile.working_file_path }

theorem stale_working_file_deleted_before_barrier {W : Type} (tasks deletions : List SyncTask) (replaced : List Rs.Path) (w : W)
    (hone : (tasks.filter (GenEngineOrder.isRepl replaced)).length = replaced.length)
    (d t : SyncTask) (hd : d ∈ deletions) (ht : t ∈ tasks) (hx : GenEngineOrder.isTransfer t = true)
    (hproper : GenTempFile.ProperName t.dest_path) (hp : d.dest_path = t.dest_path ++ GenTempFile.sfx) :
    ∃ ts m, GenEngineOrder.runM (GenEngineOrder.finalOrder (realExt W) tasks deletions replaced) w = (.ok (ts, m), w) ∧ d ∈ ts.take m := by
  apply GenEngineOrder.working_file_deletions_before_barrier (realExt W) tasks deletions replaced w hone d t hd ht hx
  show d.dest_path = SyModel.Generated.TempFile.working_file_path t.dest_path
  rw [GenTempFile.working_file_path_eq _ hproper]
  exact hp

theorem working_files_distinct (t u : SyncTask) (ht : GenTempFile.ProperName t.dest_path) (hu : GenTempFile.ProperName u.dest_path)
    (hne : t.dest_path ≠ u.dest_path) :
    SyModel.Generated.TempFile.working_file_path t.dest_path ≠ SyModel.Generated.TempFile.working_file_path u.dest_path :=
  fun h => hne (GenTempFile.working_file_path_injective _ _ ht hu h)

/-- the converse — **nothing else is moved**: a planned deletion whose path is not `<dest>.sy.tmp` of any planned create / update is
    handed out AFTER the barrier, beside the transfers (so the barrier costs an ordinary `--delete` run no parallelism, and the
    children of a stale directory are removed beside the updates: the schedule in which repair d5ee1fe's ENOTDIR arises) -/
theorem ordinary_deletion_after_barrier {W : Type} (tasks deletions : List SyncTask) (replaced : List Rs.Path) (w : W)
    (hone : (tasks.filter (GenEngineOrder.isRepl replaced)).length = replaced.length)
    (hproper : ∀ t ∈ tasks, GenEngineOrder.isTransfer t = true → GenTempFile.ProperName t.dest_path)
    (d : SyncTask) (hd : d ∈ deletions)
    (hno : ∀ t ∈ tasks, GenEngineOrder.isTransfer t = true → d.dest_path ≠ t.dest_path ++ GenTempFile.sfx) :
    ∃ ts m, GenEngineOrder.runM (GenEngineOrder.finalOrder (realExt W) tasks deletions replaced) w = (.ok (ts, m), w) ∧ d ∈ ts.drop m := by
  obtain ⟨ts, m, h, _, hdrop⟩ := GenEngineOrder.barrier_prefix (realExt W) tasks deletions replaced w hone
  refine ⟨ts, m, h, ?_⟩
  rw [hdrop]
  apply List.mem_append_right
  rw [List.mem_filter]
  refine ⟨hd, ?_⟩
  have : GenEngineOrder.atWorkingFile (realExt W).temp_file_working_file_path tasks d = false := by
    rw [Bool.eq_false_iff]
    intro hc
    unfold GenEngineOrder.atWorkingFile GenEngineOrder.workingFiles at hc
    rw [List.contains_iff_mem] at hc
    obtain ⟨t, ht, he⟩ := List.mem_map.mp hc
    obtain ⟨ht1, ht2⟩ := List.mem_filter.mp ht
    have e : SyModel.Generated.TempFile.working_file_path t.dest_path = d.dest_path := he
    rw [GenTempFile.working_file_path_eq _ (hproper t ht1 ht2)] at e
    exact hno t ht1 ht2 e.symm
  simp [this]

/-- a deletion is before the barrier on working-file grounds **iff** its path is `<dest>.sy.tmp` of a planned create / update -/
theorem at_working_file_iff (tasks : List SyncTask)
    (hproper : ∀ t ∈ tasks, GenEngineOrder.isTransfer t = true → GenTempFile.ProperName t.dest_path) (d : SyncTask) :
    GenEngineOrder.atWorkingFile SyModel.Generated.TempFile.working_file_path tasks d = true ↔
      ∃ t ∈ tasks, GenEngineOrder.isTransfer t = true ∧ d.dest_path = t.dest_path ++ GenTempFile.sfx := by
  unfold GenEngineOrder.atWorkingFile GenEngineOrder.workingFiles
  rw [List.contains_iff_mem, List.mem_map]
  constructor
  · rintro ⟨t, ht, he⟩
    obtain ⟨ht1, ht2⟩ := List.mem_filter.mp ht
    rw [GenTempFile.working_file_path_eq _ (hproper t ht1 ht2)] at he
    exact ⟨t, ht1, ht2, he.symm⟩
  · rintro ⟨t, ht1, ht2, he⟩
    refine ⟨t, List.mem_filter.mpr ⟨ht1, ht2⟩, ?_⟩
    rw [GenTempFile.working_file_path_eq _ (hproper t ht1 ht2)]
    exact he.symm

/-- non-vacuity: the example plan of `GenEngineOrder` (`big` updated, `big.sy.tmp` / `o` / `z` deleted) meets the hypotheses for `o` -/
example : ∀ t ∈ GenEngineOrder.Example.tasks, GenEngineOrder.isTransfer t = true →
    (GenEngineOrder.Example.mk ['o'] .Delete).dest_path ≠ t.dest_path ++ GenTempFile.sfx := by decide

end SyModel.Props.GenEngineOrderTemp
