/-
  GenLocalCopy — bridge for the translated unit `LocalCopy` (`SyModel/Generated/Code/LocalCopy.lean`, regenerated on
  every run from src/transport/local.rs: `LocalTransport::copy_file`, `LocalTransport::sync_file_with_delta`,
  `remove_if_symlink`, `break_unshared_hard_link`).

  The translated code is run in the POSIX-level world `LocalCopy.LWorld` with the trusted instance `LocalCopy.posix cfg`
  (`Lemmas/GenLocalCopyWorld.lean`).  What is proved here, for ALL worlds that satisfy the stated hypotheses:

    * `sync_inplace_postcondition` (C01, C03): on the in-place rebuild route `sync_file_with_delta` succeeds; the NAME
      `dest` is a fresh regular file whose bytes are the source's, whose mtime is the source's, without xattrs; the working
      file does not exist; the source and every other name/inode are untouched; the returned counters are those of the
      handwritten model `Transfer.rebuildInPlace LOCAL_BLOCK_SIZE` (`Props.C01Bytes`);
    * `sync_inplace_log` / `sync_inplace_order` (C05, C09): the exact log of mutating system calls of that route, and the
      order facts the crash proofs rely on (nothing touches `dest` before the single `rename`, the mtime is set on the
      working file before it, nothing follows it, the only other name written is `working_file_path dest`);
      `sync_inplace_steps`: the log, abstracted, IS `Engine.deltaSteps` (`createTemp`, `rename`);
    * `sync_inplace_temp_symlink_safe` (C02, C17): a symlink at the working-file path is unlinked, never written through —
      its target inode is untouched (fix d0ec669); `fs_copy_through_link_truncates` shows that the instance DOES write
      through a trailing symlink (so the statement is not vacuous);
    * non-vacuity: `exW`, a world with an 10 MiB destination that satisfies every hypothesis.

  Abstraction: bytes are `List Nat` in the world and `Bytes = List UInt8` in the model, related by `ofU8`.
-/
import SyModel.Lemmas.GenLocalCopyRoutes
import SyModel.Props.C01Bytes
import SyModel.Engine.Steps
set_option autoImplicit false
namespace SyModel.Props.GenLocalCopy
open SyModel SyModel.Generated.LocalCopy SyModel.Transfer SyModel.LocalCopy

/-! ### the loop of the translation and the handwritten model -/

/-- with the production block size the translated loop (full reads of 64 KiB) and the model (reads through a 256 KiB
    `BufReader`) compare the same blocks: same temp file, same counters, same writes -/
theorem inPlaceGo_eq_model (S D : Bytes) :
    inPlaceGo (fun _ => 65536) S D 0 (ipInit S) = rebuildInPlaceLoop LOCAL_BLOCK_SIZE S D := by
  show rebuildInPlaceK (fun _ => 65536) S D = rebuildInPlaceK (chunkAt BUF_CAP LOCAL_BLOCK_SIZE) S D
  rw [rebuildInPlaceK_eq, rebuildInPlaceK_eq]
  have h1 := cmpBlocks_plain (fun _ => 65536) 65536 (by decide) (fun _ => rfl) S D
  have h2 := C01Bytes.production_blocks_plain S D
  rw [h1, h2]

/-- the hypotheses under which `sync_file_with_delta` takes the in-place rebuild route -/
structure InPlaceRoute (cfg : LocalCopy.Cfg) (D : Bytes) (ld : Nat) : Prop where
  /-- the destination passes the size gates -/
  big : 10485760 ≤ D.length
  notSparse : cfg.sparse = false
  /-- the change-ratio gate answers "delta" or fails -/
  ratio : cfg.ratio ≠ some false
  /-- the COW strategy is not selected: no reflinks, or another file system, or the destination has hard links -/
  noCow : (cfg.cow && cfg.sameFs && !decide (1 < ld)) = false
  /-- not paranoid mode (with `verify_on_write` the route fails: see INTEGRATION.md, finding `paranoid-delta-ebadf`) -/
  noVerify : cfg.verifyOnWrite = false

theorem sync_inplace_eval (cfg : LocalCopy.Cfg) (self : LocalTransport) (w : LWorld) (src dst : Generated.Rs.Path) (is id : Nat) (S D : Bytes)
    (ms md : Nat) (xs xd : List Generated.Rs.Str) (ls ld : Nat) (h : UpdPre w src dst is id S D ms md xs xd ls ld)
    (hr : InPlaceRoute cfg D ld) :
    ∃ w', LocalTransport.sync_file_with_delta (posix cfg) self src dst w =
      (.ok (TransferResult.with_delta (inPlaceGo (fun _ => 65536) S D 0 (ipInit S)).offset
          (inPlaceGo (fun _ => 65536) S D 0 (ipInit S)).changed (inPlaceGo (fun _ => 65536) S D 0 (ipInit S)).literal), w') ∧
      w'.names dst = some (.file w.nextIno) ∧ w'.names (dst ++ TEMP_SUFFIX) = none ∧
      (∀ p, p ≠ dst → p ≠ dst ++ TEMP_SUFFIX → w'.names p = w.names p) ∧
      w'.inodes w.nextIno = some ⟨ofU8 (inPlaceGo (fun _ => 65536) S D 0 (ipInit S)).temp, ms, [], 1⟩ ∧
      w'.inodes is = some ⟨ofU8 S, ms, xs, ls⟩ ∧ w'.inodes id = some ⟨ofU8 D, md, xd, ld - 1⟩ ∧
      (∀ i, i ≠ w.nextIno → i ≠ id → w'.inodes i = w.inodes i) ∧
      w'.log = (unlinkSym w (dst ++ TEMP_SUFFIX)).log ++
        ([Op.create (dst ++ TEMP_SUFFIX) w.nextIno, Op.setLen w.nextIno S.length] ++
          (wsOf (inPlaceGo (fun _ => 65536) S D 0 (ipInit S))).map (fun x => Op.write w.nextIno x.1 x.2) ++
          [Op.utime (dst ++ TEMP_SUFFIX) w.nextIno ms, Op.rename (dst ++ TEMP_SUFFIX) dst]) ∧
      w'.guards = [] ∧ w'.fault = none := by
  obtain ⟨hbig, hsp, hratio, hcow, hv⟩ := hr
  cases hc : cfg.ratio with
  | none => exact sync_inplace_eval_ratio_none cfg self w src dst is id S D ms md xs xd ls ld h hbig hsp hc hcow hv
  | some b =>
    cases b with
    | true => exact sync_inplace_eval_ratio_true cfg self w src dst is id S D ms md xs xd ls ld h hbig hsp hc hcow hv
    | false => exact absurd hc hratio

/-! ### C01 / C03: the postcondition of the in-place rebuild route -/

/-- **Postcondition.**  For every world in which `src` is a regular file holding `S` (mtime `ms`) and `dst` is a regular
    file of at least 10 MiB holding ANY bytes `D` (shorter, longer, equal; any mtime, any stale xattrs `xd`), on the
    in-place rebuild route and without a fault, `sync_file_with_delta` returns `Ok` and
    * the name `dst` refers to a FRESH inode holding exactly `S`, with mtime `ms`, no xattr, one link;
    * the working file `dst.sy.tmp` does not exist, no guard is left armed;
    * the source inode is untouched; the old destination inode keeps its bytes (it only lost the name);
    * `bytes_written = |S|`, `delta_operations` / `literal_bytes` are the model's counters
      (`rebuildInPlace LOCAL_BLOCK_SIZE S D`, characterised by `C01Bytes.changed_blocks_spec`). -/
theorem sync_inplace_postcondition (cfg : LocalCopy.Cfg) (self : LocalTransport) (w : LWorld) (src dst : Generated.Rs.Path) (is id : Nat)
    (S D : Bytes) (ms md : Nat) (xs xd : List Generated.Rs.Str) (ls ld : Nat) (h : UpdPre w src dst is id S D ms md xs xd ls ld)
    (hr : InPlaceRoute cfg D ld) :
    ∃ w', LocalTransport.sync_file_with_delta (posix cfg) self src dst w =
      (.ok { bytes_written := S.length, delta_operations := some (rebuildInPlace LOCAL_BLOCK_SIZE S D).2.1,
             literal_bytes := some (rebuildInPlace LOCAL_BLOCK_SIZE S D).2.2, transferred_bytes := none,
             compression_used := false }, w') ∧
      w'.names dst = some (.file w.nextIno) ∧
      w'.inodes w.nextIno = some ⟨ofU8 S, ms, [], 1⟩ ∧
      w'.names (dst ++ TEMP_SUFFIX) = none ∧ w'.guards = [] ∧
      w'.names src = some (.file is) ∧ w'.inodes is = some ⟨ofU8 S, ms, xs, ls⟩ ∧
      w'.inodes id = some ⟨ofU8 D, md, xd, ld - 1⟩ := by
  obtain ⟨w', hrun, hn, ht, hnames, hino, his, hid, _, _, hg, _⟩ := sync_inplace_eval cfg self w src dst is id S D ms md xs xd ls ld h hr
  refine ⟨w', ?_, hn, ?_, ht, hg, ?_, his, hid⟩
  · rw [hrun, inPlaceGo_eq_model]
    have hoff := (C01Bytes.blockCompare_bytes_written LOCAL_BLOCK_SIZE (by decide) S D).1
    rw [hoff]
    rfl
  · rw [hino, inPlaceGo_eq_model]
    have := C01Bytes.blockCompare_inplace LOCAL_BLOCK_SIZE (by decide) S D
    simp only [rebuildInPlace] at this
    rw [this]
  · have hsd : src ≠ dst := by intro e; have := h.hsrc; rw [e, h.hdst] at this; exact h.ne (by cases this; rfl)
    have hst : src ≠ dst ++ TEMP_SUFFIX := by
      intro e; have := h.htmp; rw [← e] at this
      rcases this with h1 | ⟨t, h1⟩ <;> rw [h.hsrc] at h1 <;> cases h1
    rw [hnames src hsd hst, h.hsrc]

/-! ### C05 / C09: the log of the route and its order -/

/-- the exact sequence of mutating system calls of the route: (the unlink of a symlink at the working-file path, if
    any,) `create tmp`, `ftruncate`, one `pwrite` per 64 KiB block of the source in file order, `utimensat tmp`,
    `rename tmp dest` — nothing else, nothing after the rename -/
theorem sync_inplace_log (cfg : LocalCopy.Cfg) (self : LocalTransport) (w : LWorld) (src dst : Generated.Rs.Path) (is id : Nat)
    (S D : Bytes) (ms md : Nat) (xs xd : List Generated.Rs.Str) (ls ld : Nat) (h : UpdPre w src dst is id S D ms md xs xd ls ld)
    (hr : InPlaceRoute cfg D ld) :
    (LocalTransport.sync_file_with_delta (posix cfg) self src dst w).2.log =
      (unlinkSym w (dst ++ TEMP_SUFFIX)).log ++
        ([Op.create (dst ++ TEMP_SUFFIX) w.nextIno, Op.setLen w.nextIno S.length] ++
          (wsOf (rebuildInPlaceLoop LOCAL_BLOCK_SIZE S D)).map (fun x => Op.write w.nextIno x.1 x.2) ++
          [Op.utime (dst ++ TEMP_SUFFIX) w.nextIno ms, Op.rename (dst ++ TEMP_SUFFIX) dst]) := by
  obtain ⟨w', hrun, _, _, _, _, _, _, _, hlog, _, _⟩ := sync_inplace_eval cfg self w src dst is id S D ms md xs xd ls ld h hr
  rw [hrun, ← inPlaceGo_eq_model]
  exact hlog

/-- a log entry names, or writes the inode of, the final path `p` (inode `i` before the call) -/
def touchesDest (p : Generated.Rs.Path) (i : Nat) : Op → Bool
  | .mkdir q => q == p
  | .unlink q => q == p
  | .create q _ => q == p
  | .truncate j => j == i
  | .write j _ _ => j == i
  | .setLen j _ => j == i
  | .utime q j _ => q == p || j == i
  | .xattrRemove j _ => j == i
  | .rename q q' => q == p || q' == p

/-- **Order facts (C09).**  The operations the call appends to the log are `pre ++ [utime tmp, rename tmp dest]` where no
    operation of `pre` names `dest` or touches the inode `dest` referred to; the mtime is set on the WORKING file
    immediately before the rename; the rename is the last operation. -/
theorem sync_inplace_order (cfg : LocalCopy.Cfg) (self : LocalTransport) (w : LWorld) (src dst : Generated.Rs.Path) (is id : Nat)
    (S D : Bytes) (ms md : Nat) (xs xd : List Generated.Rs.Str) (ls ld : Nat) (h : UpdPre w src dst is id S D ms md xs xd ls ld)
    (hr : InPlaceRoute cfg D ld) :
    ∃ pre, (LocalTransport.sync_file_with_delta (posix cfg) self src dst w).2.log =
        w.log ++ pre ++ [Op.utime (dst ++ TEMP_SUFFIX) w.nextIno ms, Op.rename (dst ++ TEMP_SUFFIX) dst] ∧
      ∀ o ∈ pre, touchesDest dst id o = false := by
  have hlog := sync_inplace_log cfg self w src dst is id S D ms md xs xd ls ld h hr
  have htd : dst ++ TEMP_SUFFIX ≠ dst := by
    intro e; have := h.htmp; rw [e] at this
    rcases this with h1 | ⟨t, h1⟩ <;> rw [h.hdst] at h1 <;> cases h1
  have hid : w.nextIno ≠ id := by have := h.fresh.2; omega
  have hul : ∃ u, (unlinkSym w (dst ++ TEMP_SUFFIX)).log = w.log ++ u ∧ ∀ o ∈ u, touchesDest dst id o = false := by
    unfold unlinkSym
    split
    · exact ⟨[.unlink (dst ++ TEMP_SUFFIX)], rfl, by intro o ho; simp at ho; subst ho; simp [touchesDest, htd]⟩
    · exact ⟨[], by simp, by simp⟩
  obtain ⟨u, hu, hu2⟩ := hul
  refine ⟨u ++ ([Op.create (dst ++ TEMP_SUFFIX) w.nextIno, Op.setLen w.nextIno S.length] ++
      (wsOf (rebuildInPlaceLoop LOCAL_BLOCK_SIZE S D)).map (fun x => Op.write w.nextIno x.1 x.2)), ?_, ?_⟩
  · rw [hlog, hu]; simp [List.append_assoc]
  · intro o ho
    simp only [List.mem_append, List.mem_cons, List.mem_map, List.not_mem_nil, or_false] at ho
    rcases ho with ho | (ho | ho) | ⟨x, _, ho⟩
    · exact hu2 o ho
    · subst ho; simp [touchesDest, htd]
    · subst ho; simp [touchesDest, hid]
    · subst ho; simp [touchesDest, hid]

/-- abstraction of a POSIX-level log to the step language of `Engine.Steps`: operations on the working file's own inode
    (`ftruncate`, `pwrite`, `utimensat`) are internal to the step `createTemp` … `rename` (the step model gives a working
    file no bytes until it is renamed); the rename carries content id, size and mtime -/
def absLog (pathOf : Generated.Rs.Path → Engine.Path) (tmp : Generated.Rs.Path) (cid size mtime : Nat) : List Op → List Engine.Step
  | [] => []
  | .create q _ :: t => (if q = tmp then [Engine.Step.createTemp (pathOf q) cid] else []) ++ absLog pathOf tmp cid size mtime t
  | .rename q p :: t => Engine.Step.rename (pathOf q) (pathOf p) cid size mtime :: absLog pathOf tmp cid size mtime t
  | .unlink q :: t => Engine.Step.unlink (pathOf q) :: absLog pathOf tmp cid size mtime t
  | _ :: t => absLog pathOf tmp cid size mtime t

theorem absLog_append (pathOf : Generated.Rs.Path → Engine.Path) (tmp : Generated.Rs.Path) (cid size mtime : Nat) (a b : List Op) :
    absLog pathOf tmp cid size mtime (a ++ b) = absLog pathOf tmp cid size mtime a ++ absLog pathOf tmp cid size mtime b := by
  induction a with
  | nil => rfl
  | cons o t ih => cases o <;> simp [absLog, ih, List.append_assoc]

theorem absLog_writes (pathOf : Generated.Rs.Path → Engine.Path) (tmp : Generated.Rs.Path) (cid size mtime i : Nat) (l : List (Nat × List Nat)) :
    absLog pathOf tmp cid size mtime (l.map (fun x => Op.write i x.1 x.2)) = [] := by
  induction l with
  | nil => rfl
  | cons x t ih => simp [absLog, ih]

/-- **Step language (C05, C09).**  When the working-file path is free, the operations the call appends to the log,
    abstracted, are exactly the step list `Engine.deltaSteps` gives the temp+rename route: `createTemp tmp`,
    `rename tmp dest`.  (The data fields of the `rename` step — content id, size, mtime — are parameters of the abstraction:
    that the renamed inode holds the source's bytes and mtime is `sync_inplace_postcondition`, that the mtime was put on the
    working file BEFORE the rename is `sync_inplace_order`.) -/
theorem sync_inplace_steps (cfg : LocalCopy.Cfg) (self : LocalTransport) (w : LWorld) (src dst : Generated.Rs.Path) (is id : Nat)
    (S D : Bytes) (ms md : Nat) (xs xd : List Generated.Rs.Str) (ls ld : Nat) (h : UpdPre w src dst is id S D ms md xs xd ls ld)
    (hr : InPlaceRoute cfg D ld) (hfree : w.names (dst ++ TEMP_SUFFIX) = none)
    (pathOf : Generated.Rs.Path → Engine.Path) (suffix : String) (hsuf : pathOf (dst ++ TEMP_SUFFIX) = Engine.tempOf suffix (pathOf dst))
    (m : Engine.FileMeta) :
    ∃ ops, (LocalTransport.sync_file_with_delta (posix cfg) self src dst w).2.log = w.log ++ ops ∧
      absLog pathOf (dst ++ TEMP_SUFFIX) m.content m.size m.mtime ops = Engine.deltaSteps suffix (pathOf dst) m := by
  have hlog := sync_inplace_log cfg self w src dst is id S D ms md xs xd ls ld h hr
  rw [unlinkSym_of_none w _ hfree] at hlog
  refine ⟨_, hlog, ?_⟩
  rw [absLog_append, absLog_append, absLog_writes]
  simp [absLog, Engine.deltaSteps, hsuf]

/-! ### C02 / C17: never through a link -/

/-- **A symlink at the working-file path is never written through** (fix d0ec669).  If `dst.sy.tmp` is a symlink to
    some other file `outside` (inode `io`), the call unlinks the link first: afterwards the name `outside` and its inode
    are exactly what they were, and `dst` is a regular file holding the source's bytes. -/
theorem sync_inplace_temp_symlink_safe (cfg : LocalCopy.Cfg) (self : LocalTransport) (w : LWorld) (src dst outside : Generated.Rs.Path)
    (is id io : Nat) (S D : Bytes) (ms md : Nat) (xs xd : List Generated.Rs.Str) (ls ld : Nat)
    (h : UpdPre w src dst is id S D ms md xs xd ls ld) (hr : InPlaceRoute cfg D ld)
    (hlink : w.names (dst ++ TEMP_SUFFIX) = some (.symlink outside)) (hout : w.names outside = some (.file io))
    (hio : io < w.nextIno) (hne : io ≠ id) :
    ∃ w', (LocalTransport.sync_file_with_delta (posix cfg) self src dst w).2 = w' ∧
      w'.names outside = some (.file io) ∧ w'.inodes io = w.inodes io ∧
      w'.names dst = some (.file w.nextIno) ∧ w'.inodes w.nextIno = some ⟨ofU8 S, ms, [], 1⟩ ∧
      w'.names (dst ++ TEMP_SUFFIX) = none := by
  obtain ⟨w', hrun, hn, ht, hnames, _, _, _, hino, _, _, _⟩ := sync_inplace_eval cfg self w src dst is id S D ms md xs xd ls ld h hr
  obtain ⟨w'', hrun', _, hino', _⟩ := sync_inplace_postcondition cfg self w src dst is id S D ms md xs xd ls ld h hr
  have hww : w'' = w' := by rw [hrun] at hrun'; exact (Prod.mk.inj hrun').2.symm
  subst hww
  have hod : outside ≠ dst := by intro e; rw [e, h.hdst] at hout; cases hout; exact hne rfl
  have hot : outside ≠ dst ++ TEMP_SUFFIX := by intro e; rw [e, hlink] at hout; cases hout
  refine ⟨w'', by rw [hrun], ?_, ?_, hn, hino', ht⟩
  · rw [hnames outside hod hot, hout]
  · exact hino io (by omega) hne

/-- **Never through a destination link (C02, C17).**  `dst` is a symlink to ANYTHING — the source file itself
    (`t = src`), a file outside the destination, or nothing (dangling) — and a bare name in the current directory.  After
    `sync_file_with_delta`: the call succeeds; the NAME `dst` refers to a fresh regular file holding the source's bytes
    and mtime; every inode that existed before the call — in particular the link's target — is byte-identical (same
    record); every other name, in particular the target's, is unchanged; the operations performed are exactly
    `unlink dst`, `create dst` (a NEW inode), one write into the new inode, `utimensat dst` (reaching the new inode):
    no truncate / write / utime / xattr operation on an inode that existed before (truncation of nothing comes first,
    `set_file_mtime` is last — order fact (ii) of the full-copy route).  (`cfg.copyXattrs = false`: Linux `fs::copy`.) -/
theorem sync_symlink_dest_never_through (cfg : LocalCopy.Cfg) (self : LocalTransport) (w : LWorld) (src dst t : Generated.Rs.Path)
    (is : Nat) (ns : Inode) (hnf : w.fault = none) (hsrc : w.names src = some (.file is)) (hisrc : w.inodes is = some ns)
    (hdst : w.names dst = some (.symlink t)) (hfresh : is < w.nextIno) (hpar : Generated.Rs.parent dst = some [])
    (hx : cfg.copyXattrs = false) :
    ∃ w', LocalTransport.sync_file_with_delta (posix cfg) self src dst w = (.ok (TransferResult.new ns.bytes.length), w') ∧
      w'.names dst = some (.file w.nextIno) ∧ w'.inodes w.nextIno = some ⟨ns.bytes, ns.mtime, [], 1⟩ ∧
      (∀ p, p ≠ dst → w'.names p = w.names p) ∧ (∀ i, i ≠ w.nextIno → w'.inodes i = w.inodes i) ∧
      w'.inodes is = some ns ∧
      w'.log = w.log ++ [Op.unlink dst, Op.create dst w.nextIno, Op.write w.nextIno 0 ns.bytes, Op.utime dst w.nextIno ns.mtime] := by
  obtain ⟨w', h1, h2, h3, h4, h5, h6⟩ := sync_symlink_dest_eval cfg self w src dst t is ns hnf hsrc hisrc hdst hfresh hpar hx
  exact ⟨w', h1, h2, h3, h4, h5, by rw [h5 is (by omega), hisrc], h6⟩

-- the three kinds of link target of the property text are instances: `t := src`, `t := outside`, `t := dangling`
example (cfg : LocalCopy.Cfg) (self : LocalTransport) (w : LWorld) (src dst : Generated.Rs.Path) (is : Nat) (ns : Inode)
    (hnf : w.fault = none) (hsrc : w.names src = some (.file is)) (hisrc : w.inodes is = some ns)
    (hdst : w.names dst = some (.symlink src)) (hfresh : is < w.nextIno) (hpar : Generated.Rs.parent dst = some [])
    (hx : cfg.copyXattrs = false) :
    ∃ w', (LocalTransport.sync_file_with_delta (posix cfg) self src dst w).2 = w' ∧ w'.inodes is = some ns ∧
      w'.names src = some (.file is) := by
  obtain ⟨w', h1, _, _, h4, _, h6, _⟩ := sync_symlink_dest_never_through cfg self w src dst src is ns hnf hsrc hisrc hdst hfresh hpar hx
  have hsd : src ≠ dst := by intro e; rw [e, hdst] at hsrc; cases hsrc
  exact ⟨w', by rw [h1], h6, by rw [h4 src hsd, hsrc]⟩

/-! ### the instance does write through links: the statements above are not vacuous -/

/-- a two-name world: `d` is a symlink to `s`, `s` is a regular file (inode 0) holding `[1, 2, 3]` -/
def linkW : LWorld :=
  { names := fun p => if p = ['d'] then some (.symlink ['s']) else if p = ['s'] then some (.file 0) else none,
    inodes := fun i => if i = 0 then some ⟨[1, 2, 3], 7, [], 1⟩ else none,
    nextIno := 1, handles := fun _ => none, nextHandle := 0, guards := [], log := [], now := 9, fault := none }

def plainCfg : LocalCopy.Cfg := { sparse := false, ratio := some true, cow := false, sameFs := true, verifyOnWrite := false, copyXattrs := false }

/-- **Counterexample (what `remove_if_symlink` is for).**  `fs::copy(s, d)` with `d` a symlink to `s` itself opens the
    TARGET with `O_TRUNC`: the source file is emptied and 0 bytes are copied — the defect `C02` of the pinned tree. -/
theorem fs_copy_through_link_truncates :
    ∃ w', (posix plainCfg).fs_copy ['s'] ['d'] linkW = (.ok 0, w') ∧
      (w'.inodes 0).map (·.bytes) = some [] ∧ w'.names ['d'] = some (.symlink ['s']) ∧
      w'.log = [Op.truncate 0, Op.write 0 0 []] := by
  refine ⟨_, rfl, rfl, rfl, rfl⟩

/-- … while after `remove_if_symlink` the same copy creates a fresh file at the name and leaves the old target alone -/
theorem fs_copy_after_remove_if_symlink :
    ∃ w1 w', remove_if_symlink (posix plainCfg) ['d'] linkW = (.ok (), w1) ∧
      (posix plainCfg).fs_copy ['s'] ['d'] w1 = (.ok 3, w') ∧
      (w'.inodes 0).map (·.bytes) = some [1, 2, 3] ∧ w'.names ['d'] = some (.file 1) ∧
      (w'.inodes 1).map (·.bytes) = some [1, 2, 3] ∧
      w'.log = [Op.unlink ['d'], Op.create ['d'] 1, Op.write 1 0 [1, 2, 3]] := by
  refine ⟨_, _, rfl, rfl, rfl, rfl, rfl, rfl⟩

/-! ### non-vacuity of the hypotheses -/

/-- a world with an 10 MiB destination: `s` (inode 0, 3 bytes), `d` (inode 1, 10 MiB of zeros, a stale xattr, an old
    mtime), the working-file name free -/
def exW : LWorld :=
  { names := fun p => if p = ['s'] then some (.file 0) else if p = ['d'] then some (.file 1) else none,
    inodes := fun i => if i = 0 then some ⟨ofU8 [1, 2, 3], 7, [], 1⟩
                       else if i = 1 then some ⟨ofU8 (List.replicate 10485760 0), 5, [['u']], 1⟩ else none,
    nextIno := 2, handles := fun _ => none, nextHandle := 0, guards := [], log := [], now := 9, fault := none }

theorem exW_pre : UpdPre exW ['s'] ['d'] 0 1 [1, 2, 3] (List.replicate 10485760 0) 7 5 [] [['u']] 1 1 :=
  { nf := rfl, hsrc := rfl, hisrc := rfl, hdst := rfl, hidst := rfl, ne := by decide,
    htmp := Or.inl rfl, fresh := by decide, noguards := rfl }

theorem exW_route : InPlaceRoute plainCfg (List.replicate 10485760 0) 1 :=
  { big := by rw [List.length_replicate]; exact Nat.le_refl _, notSparse := rfl, ratio := by decide, noCow := rfl, noVerify := rfl }

/-- the same world with a symlink to an outside file at the working-file path -/
def exWLink : LWorld :=
  { exW with names := fun p => if p = ['d'] ++ TEMP_SUFFIX then some (.symlink ['o']) else if p = ['o'] then some (.file 0) else exW.names p }

example : TempOK exWLink (['d'] ++ TEMP_SUFFIX) := Or.inr ⟨['o'], rfl⟩

-- the hypotheses of `sync_symlink_dest_never_through` hold in `linkW` (`d` → `s`, the source itself)
example : linkW.fault = none ∧ linkW.names ['s'] = some (.file 0) ∧ linkW.names ['d'] = some (.symlink ['s']) ∧
    0 < linkW.nextIno ∧ Generated.Rs.parent ['d'] = some [] ∧ plainCfg.copyXattrs = false := by decide

/-- the postcondition instantiated: the 3-byte source replaces the 10 MiB destination -/
example : ∃ w', LocalTransport.sync_file_with_delta (posix plainCfg) default ['s'] ['d'] exW =
      (.ok { bytes_written := 3, delta_operations := some (rebuildInPlace LOCAL_BLOCK_SIZE [1, 2, 3] (List.replicate 10485760 0)).2.1,
             literal_bytes := some (rebuildInPlace LOCAL_BLOCK_SIZE [1, 2, 3] (List.replicate 10485760 0)).2.2,
             transferred_bytes := none, compression_used := false }, w') ∧
      w'.names ['d'] = some (.file 2) ∧ w'.inodes 2 = some ⟨ofU8 [1, 2, 3], 7, [], 1⟩ := by
  obtain ⟨w', h1, h2, h3, _⟩ := sync_inplace_postcondition plainCfg default exW ['s'] ['d'] 0 1 [1, 2, 3]
    (List.replicate 10485760 0) 7 5 [] [['u']] 1 1 exW_pre exW_route
  exact ⟨w', h1, h2, h3⟩

end SyModel.Props.GenLocalCopy
