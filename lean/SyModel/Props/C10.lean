/-
  C10 — I/O faults are contained and truthfully reported.
  Property theorems only (first part: exit status; the C01 postcondition under faults is added
  with the fault-plan model).
-/
import SyModel.Lemmas.Engine
import SyModel.Generated.Consts
namespace SyModel.Props.C10
open SyModel SyModel.Engine

/-- `main` consults both the error list and the verification-failure counter when choosing the
    exit status (regenerated from src/main.rs each run). -/
theorem consts_ok_exit_consults_errors : Generated.EXIT_CONSULTS_ERRORS = true := by decide
theorem consts_ok_exit_consults_verification : Generated.EXIT_CONSULTS_VERIFICATION = true := by decide

/-- Exit status 0 implies that the run was not refused and no planned operation failed. -/
theorem exit_zero_clean (cfg : Cfg) (flt : Faults) (scan : List SEntry) (dst : Map DNode) (n : Nat)
    (h : (runF cfg flt scan dst n).exit = 0) :
    (runF cfg flt scan dst n).refused = false ∧ (runF cfg flt scan dst n).errors = [] := by
  unfold runF at h ⊢
  simp only at h ⊢
  split
  · rename_i hg; simp [hg] at h
  · rename_i hg
    simp only [hg, Bool.false_eq_true, ↓reduceIte] at h
    refine ⟨rfl, ?_⟩
    simp only [List.reverse_eq_nil_iff]
    by_cases he : (List.foldl (execTask cfg flt) (initExec dst n) (plan cfg scan dst)).b.errors.isEmpty = true
    · simpa using he
    · simp [he] at h

/-- Conversely any failed operation makes the exit status non-zero, whatever the error budget. -/
theorem failure_exit_nonzero (cfg : Cfg) (flt : Faults) (scan : List SEntry) (dst : Map DNode) (n : Nat)
    (h : (runF cfg flt scan dst n).errors ≠ []) : (runF cfg flt scan dst n).exit ≠ 0 := by
  intro h0; exact h (exit_zero_clean cfg flt scan dst n h0).2

/-- Reaching the error budget aborts with a non-zero status. -/
theorem budget_abort (cfg : Cfg) (flt : Faults) (scan : List SEntry) (dst : Map DNode) (n : Nat)
    (h : (runF cfg flt scan dst n).aborted = true) : (runF cfg flt scan dst n).exit ≠ 0 := by
  apply failure_exit_nonzero
  unfold runF at h ⊢
  simp only at h ⊢
  split
  · rename_i hg; simp [hg] at h
  · rename_i hg
    simp only [hg, Bool.false_eq_true, ↓reduceIte, Bool.and_eq_true, decide_eq_true_eq] at h
    intro hnil
    simp only [List.reverse_eq_nil_iff] at hnil
    rw [hnil] at h; simp at h; omega

end SyModel.Props.C10
