/-
  GenLinkMember — the translated hard-link hand-off `Transferrer::transfer_link_member`
  (`SyModel/Generated/Code/LinkMember.lean`, regenerated on every run from /repo/src/sync/transfer.rs:115-260) against
  the two handwritten models of it: the entry-level step `linkMemberW` of Lemmas/GenTransfer.lean (what C01/C03/C10/C19's
  `perform` does for a member of a source link group) and the labelled transition system of Hardlink/Protocol.lean
  (what C13 is about).

  Definitions (normal form `round`/`rounds`, the instances `traceExt`, `seqExt`) and their trusted-base texts are in
  Lemmas/GenLinkMember.lean.  `runM x w` = (result, world afterwards); `andThen r k` = "`Ok` leads on to `k`, `Err` ends
  the run there".

  Part 1 — for ANY instance `ext : Ext W`: the normal form, and the call sequences
           (a) the claim is always released, by the same Notify, by `notify_waiters`;
           (b) registration before the re-check, await only after a re-check that saw the same `InProgress`;
           (c) no link before `Completed` was seen, no removal unless `same_inode` answered "no";
           (d) errors surface.
  Part 2 — the sequential bridge: on `seqExt` the translated function IS `linkMemberW`; the assumed operation
           `transfer_link_member` of `extOf cfg` replaced by the translated one; `create_eq_model`/`update_eq_model`
           of Props/GenTransfer.lean with the translated hand-off (and the translated `copy_file`) inside; where the code
           and `relinkFile` differ.
  Part 3 — (NOT DONE: the simulation against the labelled transition system of Hardlink/Protocol.lean; INTEGRATION.md says
           what is missing and how the instance `ltsExt` has to look.)
  Part 4 — the hypotheses are satisfiable; concrete runs.
-/
import SyModel.Lemmas.GenLinkMember
import SyModel.Props.GenTransfer
set_option linter.unusedVariables false
set_option linter.unusedSimpArgs false
namespace SyModel.Props.GenLinkMember
open SyModel SyModel.Generated SyModel.Generated.LinkMember SyModel.Lemmas.GenLinkMember
open SyModel.Lemmas.GenTransfer (runM op runM_op runM_pure runM_throw runM_bind runM_bind_ok runM_bind_error)

/-! ## Part 1 — the shape of the hand-off, for ANY instance -/

section anyInstance
variable {W : Type} (ext : Ext W) (self : Transferrer) (source : FileEntry) (dest : Rs.Path) (inode : Nat) (upd : Bool)
  {w w1 w2 w3 w4 w5 w6 w7 : W}

/-- **Normal form.**  For every instance the translated function IS `ext.fuel` rounds of `round` — one read of the map
    under the lock, then the arm for what was read — followed by "return what the loop returned, or fail when the fuel
    ran out".  The worker carries nothing from one round to the next.  (Proved by unfolding both sides: moving, dropping
    or adding a statement in the Rust function changes the generated term and breaks this theorem.) -/
theorem transfer_link_member_eq :
    Transferrer.transfer_link_member ext self source dest inode upd = rounds ext self source dest inode upd ext.fuel :=
  transfer_link_member_rounds ext self source dest inode upd

/-- one round = ONE lock scope reading the entry, then the arm -/
theorem round_eq :
    round ext self source dest inode upd = (ext.map_get inode >>= dispatch ext self source dest inode upd) := rfl

/-- the three arms -/
theorem dispatch_eq (first : Rs.Path) (notify : Nat) :
    dispatch ext self source dest inode upd (some (.Completed first)) = linkArm ext self dest upd first ∧
    dispatch ext self source dest inode upd (some (.InProgress notify)) = waitArm ext inode notify ∧
    dispatch ext self source dest inode upd none = claimArm ext self source dest inode upd := ⟨rfl, rfl, rfl⟩

/-- the fuel ran out: `Err` (the Rust `loop` has no exit there) and nothing was called -/
theorem out_of_fuel (h : ext.fuel = 0) :
    runM (Transferrer.transfer_link_member ext self source dest inode upd) w = (.error .other, w) := by
  rw [transfer_link_member_eq, h]; rfl

/-- a run is its first round, then: the returned value / the remaining rounds / the error -/
theorem run_unfold (n : Nat) (h : ext.fuel = n + 1) :
    runM (Transferrer.transfer_link_member ext self source dest inode upd) w =
      andThen (runM (round ext self source dest inode upd) w) (afterRound ext self source dest inode upd n) := by
  rw [transfer_link_member_eq, h, rounds_succ]

/-! ### (a) the claim is always released -/

/-- **The claim is ALWAYS released.**  A member that read no entry, created the Notify `notify`, won the double-check
    and inserted `InProgress(notify)`: whatever the copy block answers (`copied`), exactly one of
    `map_insert inode (Completed dest)` (block `Ok`) / `map_remove inode` (block `Err`) follows, then
    `notify_waiters` on the SAME `notify`, then the block's answer is the function's answer.  Any instance, any fuel ≥ 1.
    (False for `notify_one` in place of `notify_waiters`, for an error arm without the removal, for another Notify.) -/
theorem claim_always_released (n notify : Nat) (hfuel : ext.fuel = n + 1)
    (h0 : runM (ext.map_get inode) w = (.ok none, w1))
    (h1 : runM (ext.Notify_new ()) w1 = (.ok notify, w2))
    (h2 : runM (ext.map_contains inode) w2 = (.ok false, w3))
    (h3 : runM (ext.map_insert inode (.InProgress notify)) w3 = (.ok (), w4))
    (copied : Except Rs.Err TransferResult) (h4 : runM (copyBlock ext self source dest upd) w4 = (copied, w5)) :
    runM (Transferrer.transfer_link_member ext self source dest inode upd) w =
      match copied with
      | .ok result =>
        andThen (runM (ext.map_insert inode (.Completed dest)) w5) fun _ w6 =>
          andThen (runM (ext.notify_waiters notify) w6) fun _ w7 => (.ok (some result), w7)
      | .error e =>
        andThen (runM (ext.map_remove inode) w5) fun _ w6 =>
          andThen (runM (ext.notify_waiters notify) w6) fun _ w7 => (.error e, w7) := by
  rw [run_unfold ext self source dest inode upd n hfuel, round_run _ _ _ _ _ _ h0]
  simp only [dispatch, claimArm_run, h1, h2, h3, h4, andThen_ok, Bool.false_eq_true, ↓reduceIte]
  cases copied with
  | ok result => simp only [release_ok_run, andThen_assoc, andThen_ok, afterRound_finish]
  | error e => simp only [release_err_run, andThen_assoc, andThen_error]

/-- the copy block: the transfer (`sync_file_with_delta` for an update, `copy_file` for a creation), then
    `write_xattrs`, `write_acls`, `write_bsd_flags` in this order on `(source, dest)`; the first `Err` ends the block -/
theorem copy_block_sequence :
    runM (copyBlock ext self source dest upd) w =
      andThen (runM (if upd = true then ext.t_sync_file_with_delta self.transport source.path dest
                     else ext.transferrer_copy_file self source.path dest) w) fun result w1 =>
        andThen (runM (ext.write_xattrs self source dest) w1) fun _ w2 =>
          andThen (runM (ext.write_acls self source dest) w2) fun _ w3 =>
            andThen (runM (ext.write_bsd_flags self source dest) w3) fun _ w4 => (.ok result, w4) :=
  copyBlock_run ext self source dest upd

/-- **owner_failure_surfaces**, about the translated code: the copy block fails with `e`, the map operations and the
    notification go through ⇒ the function returns `Err(e)` — the SAME error — in the world after
    `map_remove inode; notify_waiters notify` (the release precedes the return). -/
theorem owner_failure_surfaces (n notify : Nat) (hfuel : ext.fuel = n + 1) (e : Rs.Err)
    (h0 : runM (ext.map_get inode) w = (.ok none, w1))
    (h1 : runM (ext.Notify_new ()) w1 = (.ok notify, w2))
    (h2 : runM (ext.map_contains inode) w2 = (.ok false, w3))
    (h3 : runM (ext.map_insert inode (.InProgress notify)) w3 = (.ok (), w4))
    (h4 : runM (copyBlock ext self source dest upd) w4 = (.error e, w5))
    (h5 : runM (ext.map_remove inode) w5 = (.ok (), w6))
    (h6 : runM (ext.notify_waiters notify) w6 = (.ok (), w7)) :
    runM (Transferrer.transfer_link_member ext self source dest inode upd) w = (.error e, w7) := by
  rw [claim_always_released ext self source dest inode upd n notify hfuel h0 h1 h2 h3 _ h4]
  simp only [h5, h6, andThen_ok]

/-- the owner's success: `Completed(dest)` — the OWN destination path — is inserted only after the block answered `Ok`,
    the waiters are woken, `Ok(Some(result))` with the block's result -/
theorem owner_success (n notify : Nat) (hfuel : ext.fuel = n + 1) (result : TransferResult)
    (h0 : runM (ext.map_get inode) w = (.ok none, w1))
    (h1 : runM (ext.Notify_new ()) w1 = (.ok notify, w2))
    (h2 : runM (ext.map_contains inode) w2 = (.ok false, w3))
    (h3 : runM (ext.map_insert inode (.InProgress notify)) w3 = (.ok (), w4))
    (h4 : runM (copyBlock ext self source dest upd) w4 = (.ok result, w5))
    (h5 : runM (ext.map_insert inode (.Completed dest)) w5 = (.ok (), w6))
    (h6 : runM (ext.notify_waiters notify) w6 = (.ok (), w7)) :
    runM (Transferrer.transfer_link_member ext self source dest inode upd) w = (.ok (some result), w7) := by
  rw [claim_always_released ext self source dest inode upd n notify hfuel h0 h1 h2 h3 _ h4]
  simp only [h5, h6, andThen_ok]

/-- the double-check (transfer.rs:198): `contains_key` answers "taken" ⇒ NOTHING is inserted, copied or notified; the
    member goes back to the top of the loop with one round less -/
theorem lost_claim_goes_round (n notify : Nat) (hfuel : ext.fuel = n + 1)
    (h0 : runM (ext.map_get inode) w = (.ok none, w1))
    (h1 : runM (ext.Notify_new ()) w1 = (.ok notify, w2))
    (h2 : runM (ext.map_contains inode) w2 = (.ok true, w3)) :
    runM (Transferrer.transfer_link_member ext self source dest inode upd) w =
      runM (rounds ext self source dest inode upd n) w3 := by
  rw [run_unfold ext self source dest inode upd n hfuel, round_run _ _ _ _ _ _ h0]
  simp only [dispatch, claimArm_run, h1, h2, andThen_ok, ↓reduceIte, afterRound_again]

/-! ### (b) registration before the re-check; await only after a re-check that saw the same `InProgress` -/

/-- **The waiter's round** (the lost-wake-up fix f492f4d).  The map answered `InProgress(notify)`: FIRST the registration
    `notified notify` (its value `t` is the future), THEN the second read of the map; `await_notified t` — the only
    point where the worker yields — runs exactly when that second read STILL answers `InProgress` of the SAME Notify;
    in every case the member goes back to the top of the loop.  (False when the registration comes after the re-check,
    and when the await is unconditional.) -/
theorem waiter_registers_then_rechecks (n notify : Nat) (hfuel : ext.fuel = n + 1)
    (h0 : runM (ext.map_get inode) w = (.ok (some (.InProgress notify)), w1)) :
    runM (Transferrer.transfer_link_member ext self source dest inode upd) w =
      andThen (runM (ext.notified notify) w1) fun t w2 =>
        andThen (runM (ext.map_get inode) w2) fun st w3 =>
          if st = some (.InProgress notify) then
            andThen (runM (ext.await_notified t) w3) fun _ w4 => runM (rounds ext self source dest inode upd n) w4
          else runM (rounds ext self source dest inode upd n) w3 := by
  rw [run_unfold ext self source dest inode upd n hfuel, round_run _ _ _ _ _ _ h0]
  simp only [dispatch, waitArm_run, andThen_assoc]
  congr 1; funext t w2; congr 1; funext st w3
  split
  · simp only [andThen_assoc, andThen_ok, afterRound_again]
  · simp only [andThen_ok, afterRound_again]

/-- … in particular: a changed entry (completed, removed, or re-claimed by ANOTHER Notify) ⇒ no await at all -/
theorem waiter_does_not_await_after_change (n notify t : Nat) (hfuel : ext.fuel = n + 1) (st : Option InodeState)
    (h0 : runM (ext.map_get inode) w = (.ok (some (.InProgress notify)), w1))
    (h1 : runM (ext.notified notify) w1 = (.ok t, w2))
    (h2 : runM (ext.map_get inode) w2 = (.ok st, w3)) (hst : st ≠ some (.InProgress notify)) :
    runM (Transferrer.transfer_link_member ext self source dest inode upd) w =
      runM (rounds ext self source dest inode upd n) w3 := by
  rw [waiter_registers_then_rechecks ext self source dest inode upd n notify hfuel h0]
  simp only [h1, h2, andThen_ok, if_neg hst]

/-! ### (c) no link before `Completed`; no removal unless `same_inode` said "no" -/

/-- **No link before `Completed`.**  A round whose read of the map did not answer `Completed` calls neither
    `create_hardlink` nor `remove` nor `same_inode`: replacing the three operations by ANY others leaves the round as it
    is.  (With `round_eq`: every `create_hardlink` of a run is preceded, in its own round, by a read that answered
    `Completed(first)`, and links to that very `first`: `link_after_completed`.) -/
theorem no_link_before_completed (st : Option InodeState) (h0 : runM (ext.map_get inode) w = (.ok st, w1))
    (hst : ∀ p, st ≠ some (.Completed p))
    (hl : Rs.Opaque → Rs.Path → Rs.Path → Rs.M W Unit) (rm : Rs.Opaque → Rs.Path → Bool → Rs.M W Unit)
    (sm : Transferrer → Rs.Path → Rs.Path → Rs.M W Bool) :
    runM (round { ext with t_create_hardlink := hl, t_remove := rm, same_inode := sm } self source dest inode upd) w =
      runM (round ext self source dest inode upd) w := by
  have h0' : runM (({ ext with t_create_hardlink := hl, t_remove := rm, same_inode := sm } : Ext W).map_get inode) w =
      (.ok st, w1) := h0
  rw [round_run _ _ _ _ _ _ h0, round_run _ _ _ _ _ _ h0']
  rcases st with _ | (nt | p)
  · rfl
  · rfl
  · exact absurd rfl (hst p)

/-- creation, the map answered `Completed(first)`: exactly one `create_hardlink(first, dest)`; `Ok` with the zero
    result, or the link's error -/
theorem link_after_completed (n : Nat) (hfuel : ext.fuel = n + 1) (first : Rs.Path)
    (h0 : runM (ext.map_get inode) w = (.ok (some (.Completed first)), w1)) :
    runM (Transferrer.transfer_link_member ext self source dest inode false) w =
      andThen (runM (ext.t_create_hardlink self.transport first dest) w1) fun _ w2 => (.ok (some zeroResult), w2) := by
  rw [run_unfold ext self source dest inode false n hfuel, round_run _ _ _ _ _ _ h0]
  simp only [dispatch, linkArm_create_run, andThen_assoc, andThen_ok, afterRound_finish]

/-- update, the map answered `Completed(first)`: `same_inode(first, dest)`; "yes" ⇒ `Ok`, NOTHING else is called (the old
    name stays); "no" ⇒ `remove(dest, false)` and then `create_hardlink(first, dest)`.  (False when the removal is
    executed before the test.) -/
theorem relink_only_when_other_inode (n : Nat) (hfuel : ext.fuel = n + 1) (first : Rs.Path)
    (h0 : runM (ext.map_get inode) w = (.ok (some (.Completed first)), w1)) :
    runM (Transferrer.transfer_link_member ext self source dest inode true) w =
      andThen (runM (ext.same_inode self first dest) w1) fun same w2 =>
        if same = true then (.ok (some zeroResult), w2)
        else andThen (runM (ext.t_remove self.transport dest false) w2) fun _ w3 =>
          andThen (runM (ext.t_create_hardlink self.transport first dest) w3) fun _ w4 => (.ok (some zeroResult), w4) := by
  rw [run_unfold ext self source dest inode true n hfuel, round_run _ _ _ _ _ _ h0]
  simp only [dispatch, linkArm_update_run, andThen_assoc]
  congr 1; funext same w2
  cases same <;> simp only [Bool.false_eq_true, ↓reduceIte, andThen_assoc, andThen_ok, afterRound_finish]

/-! ### (d) errors propagate -/

/-- an error of `create_hardlink` is the function's error (creation and update), and so is an error of `remove`; after a
    failed `remove` no link is attempted -/
theorem link_error_propagates (n : Nat) (hfuel : ext.fuel = n + 1) (first : Rs.Path) (e : Rs.Err)
    (h0 : runM (ext.map_get inode) w = (.ok (some (.Completed first)), w1))
    (h1 : runM (ext.t_create_hardlink self.transport first dest) w1 = (.error e, w2)) :
    runM (Transferrer.transfer_link_member ext self source dest inode false) w = (.error e, w2) := by
  rw [link_after_completed ext self source dest inode n hfuel first h0, h1]; rfl

theorem remove_error_propagates (n : Nat) (hfuel : ext.fuel = n + 1) (first : Rs.Path) (e : Rs.Err)
    (h0 : runM (ext.map_get inode) w = (.ok (some (.Completed first)), w1))
    (h1 : runM (ext.same_inode self first dest) w1 = (.ok false, w2))
    (h2 : runM (ext.t_remove self.transport dest false) w2 = (.error e, w3)) :
    runM (Transferrer.transfer_link_member ext self source dest inode true) w = (.error e, w3) := by
  rw [relink_only_when_other_inode ext self source dest inode n hfuel first h0, h1]
  simp only [andThen_ok, Bool.false_eq_true, ↓reduceIte, h2, andThen_error]

theorem relink_error_propagates (n : Nat) (hfuel : ext.fuel = n + 1) (first : Rs.Path) (e : Rs.Err)
    (h0 : runM (ext.map_get inode) w = (.ok (some (.Completed first)), w1))
    (h1 : runM (ext.same_inode self first dest) w1 = (.ok false, w2))
    (h2 : runM (ext.t_remove self.transport dest false) w2 = (.ok (), w3))
    (h3 : runM (ext.t_create_hardlink self.transport first dest) w3 = (.error e, w4)) :
    runM (Transferrer.transfer_link_member ext self source dest inode true) w = (.error e, w4) := by
  rw [relink_only_when_other_inode ext self source dest inode n hfuel first h0, h1]
  simp only [andThen_ok, Bool.false_eq_true, ↓reduceIte, h2, h3, andThen_error]

end anyInstance

/-! ## Part 2 — the sequential bridge -/

section sequential
open SyModel.Engine SyModel.Lemmas.GenTransfer
variable (cfg : Cfg) (fuel : Nat) (same : XWorld → Rs.Path → Rs.Path → Bool)
  (cp : Transfer.Transferrer → Rs.Path → Rs.Path → Rs.M XWorld Transfer.TransferResult)
  (self : Transfer.Transferrer) (e : Transfer.FileEntry) (inode : Nat) (xw : XWorld) (k : Engine.Path)

/-- **BRIDGE, first member** (no group recorded for the inode; creation and update, success and failure): for every
    fuel ≥ 1 the translated hand-off run on `seqExt` — read nothing, claim, copy block, release — answers and leaves
    exactly what `linkMemberW` says: the file written with the entry's attributes and the path recorded as the group's
    first path, or `Err(io)` and the world as it was (claim released). -/
theorem first_member_eq_model (hk : CleanPath k) (hf : xw.w.linkMap.find? (·.1 == inode) = none) (upd : Bool) :
    runM (seqLinkMember cfg (fuel + 1) same (fun _ => atomicCopy cfg) self e (destOf xw.root k) inode upd) xw =
      xw.at (destOf xw.root k) (fun k => linkMemberW cfg xw e k inode upd) :=
  seq_first cfg fuel same self e inode xw k hk hf upd

/-- **BRIDGE, later member of a creation** (a group is recorded): `Completed(first)` is read and the answer/world are
    the model's `linkFile` — success and failure. -/
theorem later_member_create_eq_model (hk : CleanPath k) (a b : Nat) (first : Engine.Path)
    (hf : xw.w.linkMap.find? (·.1 == inode) = some (a, first, b)) (hfc : CleanPath first) :
    runM (seqLinkMember cfg (fuel + 1) same cp self e (destOf xw.root k) inode false) xw =
      xw.at (destOf xw.root k) (fun k => linkMemberW cfg xw e k inode false) :=
  seq_later_create cfg fuel same cp self e inode xw k hk a b first hf hfc

/-- **BRIDGE, later member of an update**, `same_inode` answered "no", the path holds a file or link: `remove` +
    `create_hardlink` is the model's `relinkFile` when that succeeds; when it fails the old name is ALREADY removed
    (`relink_failure_loses_old_name`). -/
theorem later_member_update_eq_model (hk : CleanPath k) (a b : Nat) (first : Engine.Path)
    (hf : xw.w.linkMap.find? (·.1 == inode) = some (a, first, b)) (hfc : CleanPath first)
    (hs : same xw (destOf xw.root first) (destOf xw.root k) = false) (hne : first ≠ k)
    (n : DNode) (hn : xw.w.dst.get? k = some n) (hnd : n ≠ .dir) (w' : World) (hr : relinkFile xw.w k first = some w') :
    runM (seqLinkMember cfg (fuel + 1) same cp self e (destOf xw.root k) inode true) xw =
      xw.at (destOf xw.root k) (fun k => linkMemberW cfg xw e k inode true) := by
  rw [seq_later_update_other cfg fuel same cp self e inode xw k hk a b first hf hfc hs hne n hn hnd, hr,
    at_destOf xw _ rfl k hk]
  simp only [linkMemberW, hf, ↓reduceIte, hr, Option.map_some, outcome_some]

/-- **THE ASSUMPTION OF Props/GenTransfer.lean DISCHARGED.**  `extOfT cfg fuel same cp` is `extOf cfg` with its assumed
    one-step `transfer_link_member` REPLACED by the translated function run on `seqExt`.  On every world, for every member
    of a creation, and for the first member of an update, the two operations are equal (for every fuel ≥ 1, every oracle). -/
theorem handoff_assumption_discharged_create (hk : CleanPath k) (hlc : LinkMapClean xw) :
    runM ((extOfT cfg (fuel + 1) same (fun _ => atomicCopy cfg)).transfer_link_member self e (destOf xw.root k) inode false) xw =
      runM ((extOf cfg).transfer_link_member self e (destOf xw.root k) inode false) xw :=
  handoff_create_eq cfg fuel same self e inode xw k hk hlc

theorem handoff_assumption_discharged_update_first (hk : CleanPath k)
    (hf : xw.w.linkMap.find? (·.1 == inode) = none) :
    runM ((extOfT cfg (fuel + 1) same cp).transfer_link_member self e (destOf xw.root k) inode true) xw =
      runM ((extOf cfg).transfer_link_member self e (destOf xw.root k) inode true) xw :=
  handoff_update_first_eq cfg fuel same self e inode xw k hk hf cp

/-- … and for a later member of an update under `RelinkOK` (`same_inode` says "no", the first path is another path, the
    destination holds a directory — both fail — or a file/link the model can replace). -/
theorem handoff_assumption_discharged_update_later (hk : CleanPath k) (hlc : LinkMapClean xw) (a b : Nat)
    (first : Engine.Path) (hf : xw.w.linkMap.find? (·.1 == inode) = some (a, first, b)) (hok : RelinkOK same xw k first) :
    runM ((extOfT cfg (fuel + 1) same cp).transfer_link_member self e (destOf xw.root k) inode true) xw =
      runM ((extOf cfg).transfer_link_member self e (destOf xw.root k) inode true) xw :=
  handoff_update_later_eq cfg fuel same self e inode xw k hk hlc a b first cp hf hok

/-- **`create_eq_model` with the translated hand-off AND the translated `copy_file` inside.**  The translated `create`
    of unit Transfer, run on the instance whose `transfer_link_member` is the translated function of unit LinkMember on
    `seqExt` whose `copy_file` is the translated `Transferrer::copy_file` of unit Transfer on `extOf cfg`, agrees with the
    model's `perform` — same hypotheses as `Props.GenTransfer.create_eq_model`, plus `LinkMapClean`. -/
theorem create_eq_model_translated (ha : Agrees self cfg) (hk : CleanPath k) (hread : Readable cfg e)
    (hsrc : SrcFile xw e) (hino : HasInode cfg e) (hlc : LinkMapClean xw) :
    Agree xw k (runM (Transfer.Transferrer.create (extOfT cfg (fuel + 1) same (translatedCopy cfg)) self e (destOf xw.root k)) xw)
      (perform cfg xw.w (absTask cfg xw .create e k)) := by
  have base := SyModel.Props.GenTransfer.create_eq_model cfg self ha xw e k hk hread hsrc hino
  by_cases h : HandedOff self e
  · obtain ⟨hdry, hs, hd, hh, hn, hi⟩ := h
    obtain ⟨i, hi⟩ := Option.isSome_iff_exists.1 hi
    rw [(SyModel.Props.GenTransfer.hardlink_candidate_is_handed_off _ self e _ xw hdry hs hd hh hn i hi).1] at base ⊢
    rw [extOf_transfer_link_member, runM_op, at_destOf xw _ rfl k hk] at base
    show Agree xw k (runM (seqLinkMember cfg (fuel + 1) same (translatedCopy cfg) self e (destOf xw.root k) i false) xw) _
    cases hf : xw.w.linkMap.find? (·.1 == i) with
    | some x =>
      obtain ⟨a, first, b⟩ := x
      rw [seq_later_create cfg fuel same _ self e i xw k hk a b first hf (hlc _ (List.mem_of_find?_eq_some hf)),
        at_destOf xw _ rfl k hk]
      exact base
    | none =>
      cases hm : linkMemberW cfg xw e k i false with
      | some x =>
        obtain ⟨r, w'⟩ := x
        rw [seq_first_create_translated_ok cfg fuel same self e i xw k hk hf r w' hm]
        rw [hm] at base
        exact base
      | none =>
        rw [hm] at base
        obtain ⟨xw', h1, h2⟩ := seq_first_create_translated_err cfg fuel same self e i xw k hk hf hm
        rw [h1]
        cases hp : perform cfg xw.w (absTask cfg xw .create e k) with
        | some w'' =>
          rw [hp] at base
          obtain ⟨r, hr⟩ := base
          simp [XWorld.outcome] at hr
        | none => exact ⟨xw', rfl, h2.elim Or.inl (fun h => Or.inr (Or.inl h))⟩
  · have : extOfT cfg (fuel + 1) same (translatedCopy cfg) =
        { extOf cfg with transfer_link_member := seqLinkMember cfg (fuel + 1) same (translatedCopy cfg) } := rfl
    rw [this, create_tlm_irrelevant _ _ self e _ h]
    exact base

/-- **`update_eq_model` with the translated hand-off inside**, under `RelinkOK` for a later member (nothing extra for the
    first member or outside the hand-off). -/
theorem update_eq_model_translated (ha : Agrees self cfg) (hk : CleanPath k) (hread : Readable cfg e)
    (hsrc : SrcFile xw e) (hino : HasInode cfg e) (hlc : LinkMapClean xw)
    (hrel : ∀ i a first b, e.inode = some i → xw.w.linkMap.find? (·.1 == i) = some (a, first, b) →
      RelinkOK same xw k first) :
    Agree xw k (runM (Transfer.Transferrer.update (extOfT cfg (fuel + 1) same cp) self e (destOf xw.root k)) xw)
      (perform cfg xw.w (absTask cfg xw .update e k)) := by
  have base := SyModel.Props.GenTransfer.update_eq_model cfg self ha xw e k hk hread hsrc hino
  by_cases h : HandedOff self e
  · obtain ⟨hdry, hs, hd, hh, hn, hi⟩ := h
    obtain ⟨i, hi⟩ := Option.isSome_iff_exists.1 hi
    rw [(SyModel.Props.GenTransfer.hardlink_candidate_is_handed_off _ self e _ xw hdry hs hd hh hn i hi).2] at base ⊢
    cases hf : xw.w.linkMap.find? (·.1 == i) with
    | some x =>
      obtain ⟨a, first, b⟩ := x
      rw [handoff_update_later_eq cfg fuel same self e i xw k hk hlc a b first cp hf (hrel i a first b hi hf)]
      exact base
    | none =>
      rw [handoff_update_first_eq cfg fuel same self e i xw k hk hf cp]
      exact base
  · have : extOfT cfg (fuel + 1) same cp =
        { extOf cfg with transfer_link_member := seqLinkMember cfg (fuel + 1) same cp } := rfl
    rw [this, update_tlm_irrelevant _ _ self e _ h]
    exact base

/-! ### where the translated code and the model's `relinkFile` differ (update of a later member) -/

/-- `same_inode` answers "yes": `Ok` and NOTHING is touched — while `relinkFile` rewrites the node at the path with the
    first path's node.  (In the per-path representation of `Engine.World` a write-through of the first member's update is
    not visible at the other names; the model's relink is what carries it over.  On a real file system the two names
    already show the same file.) -/
theorem same_inode_touches_nothing (hk : CleanPath k) (a b : Nat) (first : Engine.Path)
    (hf : xw.w.linkMap.find? (·.1 == inode) = some (a, first, b))
    (hs : same xw (destOf xw.root first) (destOf xw.root k) = true) :
    runM (seqLinkMember cfg (fuel + 1) same cp self e (destOf xw.root k) inode true) xw = (.ok (some linkResult), xw) :=
  seq_later_update_same cfg fuel same cp self e inode xw k hk a b first hf hs

/-- NOT ATOMIC: when the link cannot be made after the removal (an ancestor is not a directory, the first path holds no
    file), the call fails and the OLD NAME IS GONE — the model's `relinkFile` answers "failed, nothing changed". -/
theorem relink_failure_loses_old_name (hk : CleanPath k) (a b : Nat) (first : Engine.Path)
    (hf : xw.w.linkMap.find? (·.1 == inode) = some (a, first, b)) (hfc : CleanPath first)
    (hs : same xw (destOf xw.root first) (destOf xw.root k) = false) (hne : first ≠ k)
    (n : DNode) (hn : xw.w.dst.get? k = some n) (hnd : n ≠ .dir) (hr : relinkFile xw.w k first = none) :
    runM (seqLinkMember cfg (fuel + 1) same cp self e (destOf xw.root k) inode true) xw =
      (.error .io, { xw with w := { xw.w with dst := xw.w.dst.erase k } }) := by
  rw [seq_later_update_other cfg fuel same cp self e inode xw k hk a b first hf hfc hs hne n hn hnd, hr]

/-- an ABSENT destination (or a directory): `remove(dest, false)` fails and so does the call, nothing is touched — the
    model's `relinkFile` would create the link at an absent path.  (An update task is planned only for an existing
    destination entry.) -/
theorem relink_needs_existing_entry (hk : CleanPath k) (a b : Nat) (first : Engine.Path)
    (hf : xw.w.linkMap.find? (·.1 == inode) = some (a, first, b))
    (hs : same xw (destOf xw.root first) (destOf xw.root k) = false)
    (hn : xw.w.dst.get? k = some .dir ∨ xw.w.dst.get? k = none) :
    runM (seqLinkMember cfg (fuel + 1) same cp self e (destOf xw.root k) inode true) xw = (.error .io, xw) :=
  seq_later_update_unremovable cfg fuel same cp self e inode xw k hk a b first hf hs hn

end sequential

/-! ## Part 4 — the hypotheses are satisfiable; concrete runs -/

section examples
open SyModel.Engine SyModel.Lemmas.GenTransfer SyModel.Props.GenTransfer

/-- Part 1's hypotheses are answers of operations; the tracing instance gives each of them -/
example : runM ((traceExt 1).map_get 3) {} = (.ok none, { log := [.get] }) := rfl
example : runM ((traceExt 1).map_get 3) { gets := [some (.InProgress 5)] } =
    (.ok (some (.InProgress 5)), { log := [.get] }) := rfl
example : runM ((traceExt 1).map_get 3) { gets := [some (.Completed ['f'])] } =
    (.ok (some (.Completed ['f'])), { log := [.get] }) := rfl
example : runM ((traceExt 1).Notify_new ()) {} = (.ok 7, { log := [.new] }) := rfl
example : runM ((traceExt 1).map_contains 3) {} = (.ok false, { log := [.contains] }) := rfl
example : runM ((traceExt 1).map_contains 3) { taken := true } = (.ok true, { log := [.contains], taken := true }) := rfl
example : runM ((traceExt 1).map_insert 3 (.InProgress 7)) {} = (.ok (), { log := [.insertInProgress 7] }) := rfl
example : runM ((traceExt 1).map_remove 3) {} = (.ok (), { log := [.remove] }) := rfl
example : runM ((traceExt 1).notify_waiters 7) {} = (.ok (), { log := [.notifyWaiters 7] }) := rfl
example : runM ((traceExt 1).notified 5) {} = (.ok 105, { log := [.notified 5] }) := rfl
example : runM ((traceExt 1).same_inode default ['f'] ['d']) {} = (.ok false, { log := [.sameInode] }) := rfl
example : runM ((traceExt 1).t_remove ⟨⟩ ['d'] false) {} = (.ok (), { log := [.tRemove] }) := rfl
example : runM ((traceExt 1).t_remove ⟨⟩ ['d'] false) { failRemove := true } =
    (.error .io, { log := [.tRemove], failRemove := true }) := rfl
example : runM ((traceExt 1).t_create_hardlink ⟨⟩ ['f'] ['d']) { failLink := true } =
    (.error .io, { log := [.link ['f']], failLink := true }) := rfl
example : (traceExt 1).fuel = 0 + 1 := rfl
example : (runM (copyBlock (traceExt 1) default default ['d'] false) { failCopy := true }).1 = .error .io := rfl
example : (runM (copyBlock (traceExt 1) default default ['d'] false) {}).1 = .ok default := rfl
example : ∀ p, (some (InodeState.InProgress 5)) ≠ some (.Completed p) := fun p h => by cases h

/-- the scripted runs of the GENERATED function (`Lemmas/GenLinkMember.lean` §0), restated -/
example : traced 3 false { failCopy := true } =
    ([.get, .new, .contains, .insertInProgress 7, .copy, .remove, .notifyWaiters 7], false) := trace_owner_failure
example : traced 3 false { gets := [some (.InProgress 5), some (.Completed ['f']), some (.Completed ['f'])] } =
    ([.get, .notified 5, .get, .get, .link ['f']], true) := trace_waiter_sees_completion

/-- the world of Props/GenTransfer.lean's examples with the group of inode 3 recorded at `a/old` -/
def exWorld2 : XWorld := { exWorld with w := { exWorld.w with linkMap := [(3, ["a", "old"], 4)] } }
/-- … and a stale file at `a/f` (another inode): the destination of an UPDATE of a later member -/
def exWorld3 : XWorld :=
  { exWorld2 with w := { exWorld2.w with dst := (["a", "f"], .file ⟨8, 1, 1, [], 6⟩) :: exWorld2.w.dst } }
def never : XWorld → Rs.Path → Rs.Path → Bool := fun _ _ _ => false

example : LinkMapClean exWorld := fun x hx => by simp [exWorld] at hx
example : LinkMapClean exWorld2 := fun x hx => by
  simp only [exWorld2, List.mem_singleton] at hx; subst hx; decide
example : CleanPath ["a", "old"] := by decide
example : exWorld.w.linkMap.find? (·.1 == 3) = none := rfl
example : exWorld2.w.linkMap.find? (·.1 == 3) = some (3, ["a", "old"], 4) := rfl
example : HandedOff exSelf exFile := ⟨rfl, rfl, rfl, rfl, by decide, rfl⟩
example : ¬ HandedOff exSelf exDir := fun h => by simpa [exDir] using h.2.2.1
example : RelinkOK never exWorld3 ["a", "f"] ["a", "old"] :=
  ⟨rfl, by decide, Or.inr ⟨.file ⟨8, 1, 1, [], 6⟩, by decide, by simp, by decide⟩⟩
example : exWorld3.w.dst.get? ["a", "f"] = some (.file ⟨8, 1, 1, [], 6⟩) := by decide
example : (relinkFile exWorld3.w ["a", "f"] ["a", "old"]).isSome = true := by decide
example : exWorld.w.dst.get? ["a", "x"] = none := by decide

/-- first member of a creation, through the translated hand-off: copied with the entry's attributes, recorded -/
example : (runM (seqLinkMember exCfg 1 never (fun _ => atomicCopy exCfg) exSelf exFile (destOf exWorld.root ["a", "f"]) 3 false)
    exWorld).2.w.linkMap = [(3, ["a", "f"], 7)] := by
  rw [first_member_eq_model exCfg 0 never exSelf exFile 3 exWorld ["a", "f"] (by decide) rfl false]; decide
/-- later member of a creation: a second name of the first path's inode -/
example : (runM (seqLinkMember exCfg 1 never (fun _ => atomicCopy exCfg) exSelf exFile (destOf exWorld2.root ["a", "g"]) 3 false)
    exWorld2).2.w.dst.get? ["a", "g"] = exWorld2.w.dst.get? ["a", "old"] := by
  rw [later_member_create_eq_model exCfg 0 never _ exSelf exFile 3 exWorld2 ["a", "g"] (by decide) 3 4 ["a", "old"] rfl
    (by decide)]; decide
/-- later member of an update: the stale file is replaced by a name of the first path's inode -/
example : (runM (seqLinkMember exCfg 1 never (fun _ => atomicCopy exCfg) exSelf exFile (destOf exWorld3.root ["a", "f"]) 3 true)
    exWorld3).2.w.dst.get? ["a", "f"] = exWorld3.w.dst.get? ["a", "old"] := by
  rw [seq_later_update_other exCfg 0 never _ exSelf exFile 3 exWorld3 ["a", "f"] (by decide) 3 4 ["a", "old"] rfl (by decide)
    rfl (by decide) (.file ⟨8, 1, 1, [], 6⟩) (by decide) (by simp)]
  decide
/-- `create_eq_model_translated` applied -/
example : Agree exWorld ["a", "f"]
    (runM (Transfer.Transferrer.create (extOfT exCfg 1 never (translatedCopy exCfg)) exSelf exFile (destOf exWorld.root ["a", "f"])) exWorld)
    (perform exCfg exWorld.w (absTask exCfg exWorld .create exFile ["a", "f"])) :=
  create_eq_model_translated exCfg 0 never exSelf exFile exWorld ["a", "f"] ⟨rfl, rfl, rfl⟩ (by decide) (fun h => by cases h)
    (fun _ _ => ⟨_, rfl⟩) (fun _ _ _ _ => rfl) (fun x hx => by simp [exWorld] at hx)

end examples

end SyModel.Props.GenLinkMember
