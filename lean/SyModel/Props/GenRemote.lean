/-
  GenRemote — the translated remote helper (`SyModel/Generated/Code/Remote.lean`, regenerated on every run from
  `main` of src/bin/sy-remote.rs — arms `ApplyDelta`, `ReceiveFile`, `ReceiveSparseFile` — and `apply_delta` of
  src/delta/applier.rs), run in the POSIX world of `Lemmas/GenRemote.lean` PART 1, computes the handwritten models
  the property theorems C04 / C04Wire / C14 are about:

      apply_delta                      ↦  Delta.applyOps                        (Delta/Core.lean)
      main, arm ApplyDelta             ↦  Delta.remoteDecode / remoteApply      (Delta/Wire.lean)
      main, arm ReceiveFile            ↦  Compress.receiveFileOver .create      (Compress/Sniff.lean)
      main, arm ReceiveSparseFile      ↦  Compress.receiveSparseFileOver .create (Compress/Sparse.lean)

  The translated code is an effect unit: a program in `Rs.M W = ExceptT Rs.Err (StateM W)` over a record `Ext W` of
  world operations.  It is run here with `W := Remote.World` and `ext := Remote.posix P` (the trusted instance); a run
  is `main (posix P) w : Except Rs.Err Unit × World` — exit status and final world.

  Abstraction map.
    * bytes: `Vec<u8>` is `List Nat` in the translated code and `Bytes = List UInt8` in the models.  Worlds are
      related to model values through `ofU8 : Bytes → List Nat` (`map UInt8.toNat`), i.e. the theorems quantify over
      all model byte strings and speak about the worlds that hold their images; `apply_delta`, which takes a
      `Delta` value of the translated type, is stated for every such value whose `Data` bytes are `< 256`
      (`OpU8`; all `Vec<u8>` are) through `absOp : DeltaOp → Delta.Op`;
    * `Generated.Remote.Compression ↦ Compress.Compression`, `DataRegion ↦ Compress.Region`, `Delta ↦ Delta.Delta`
      (`absCompression`, `concRegion`, `concDelta`: field by field);
    * a file on disk is `World.files path = some content`; its explicit mtime `World.mtime path = some ns`;
      `RemoteFile.mtimeSec = some s` corresponds to `some (Rs.duration_from_secs s)` (`UNIX_EPOCH + s` seconds);
    * `stats` (`DeltaStats`) are given as the code computes them (`literalBytes`, `bytesWritten`, `ops.length`); the
      text printed on stdout is not modelled.
  Parameters (`Remote.Parsers`): the codecs `L`, `Z` (third party), `String::from_utf8` / `as_bytes`
  (`utf8Decode` / `utf8Encode`), and — fixed — the model's JSON parsers `Delta.decodeJson`, `Compress.decodeRegions`
  for `serde_json::from_str`.

  Hypotheses, all explicit (satisfiability: the `example`s at the end).
    * the command line selects the arm (`w.cli.command = …`); stdin is fresh (`w.stdinPos = 0`);
    * `CanCreate w out` / `CanReceive w out`: `File::create out` can succeed — `out` is not a directory, is not the
      empty path, its parent exists (`apply-delta`) or can be made by `create_dir_all` (no regular file in the way).
      Without it the helper fails with ENOENT/EISDIR/ENOTDIR where the models (which have no directories) report a
      written file;
    * `base ≠ out` for `apply_delta` (DOMAIN RESTRICTION, see `apply_delta_in_place_counterexample`): with
      `old_file = new_file` the code truncates the file before reading it.  The only caller passes
      `dest` and `dest.sy-tmp` (src/transport/ssh.rs:1032-1036);
    * `P.Utf8Sound` for the `ApplyDelta` arm: `String::from_utf8` accepts 7-bit text and `as_bytes` inverts it.  The
      model parses the bytes directly; `decodeJson_ascii` (proved) shows that it only accepts 7-bit text, so the
      `from_utf8` step cannot change the outcome;
    * `w.denyUtime = false` where the mtime is compared: the code IGNORES a failing `set_file_mtime`
      (`let _ = …`), the models say the mtime is the `--mtime` argument — see `main_receive_file_mtime_denied`.
-/
import SyModel.Lemmas.GenRemote
import SyModel.Props.C04Wire
import SyModel.Props.C14
set_option autoImplicit false
namespace SyModel.Props.GenRemote
open SyModel SyModel.Generated SyModel.Generated.Remote SyModel.Remote

/-- `String::from_utf8` / `str::as_bytes`, as far as the helper depends on them -/
structure Utf8Sound (P : Parsers) : Prop where
  /-- a decoded text encodes back to the bytes it came from -/
  roundtrip : ∀ b s, P.utf8Decode b = some s → P.utf8Encode s = b
  /-- 7-bit text is valid UTF-8 -/
  ascii : ∀ b, Ascii b → (P.utf8Decode b).isSome = true

/-- what the helper left at `p` if it exited with status 0 -/
def output (r : Except Rs.Err Unit × World) (p : Rs.Path) : Option (List Nat) :=
  match r.1 with
  | .ok _ => r.2.files p
  | .error _ => none

/-! ### `apply_delta` (src/delta/applier.rs) -/

/-- `apply_delta(old_file, &delta, new_file)` on a world where `old_file` holds `old`:
    * if the model applies the ops (`applyOps = some newBytes`) the call returns `Ok(stats)` and the final world is
      the initial one with `new_file ↦ newBytes` (and the two handles; `deltaWorld`), every other file untouched;
    * otherwise (a `Copy` leaves `old`) it returns `Err` and `new_file` is LEFT HOLDING the output of the ops
      before the failing one (`applyPartial`) — the code does not remove it. -/
theorem apply_delta_eq_model (P : Parsers) (w : World) (old_file new_file : Rs.Path) (delta : Remote.Delta)
    (old : Bytes) (hold : w.files old_file = some (ofU8 old)) (hne : old_file ≠ new_file)
    (hcr : CanCreate w new_file) (hu : ∀ op ∈ delta.ops, OpU8 op) :
    match Delta.applyOps old (delta.ops.map absOp) with
    | some newBytes =>
      ∃ posOld, apply_delta (posix P) old_file delta new_file w =
        (.ok { operations_count := delta.ops.length, literal_bytes := literalBytes delta.ops,
               bytes_written := bytesWritten delta.ops },
         deltaWorld w old_file new_file posOld (ofU8 newBytes))
    | none =>
      ∃ posOld, apply_delta (posix P) old_file delta new_file w =
        (.error .io, deltaWorld w old_file new_file posOld (ofU8 (applyPartial old (delta.ops.map absOp)))) := by
  have h := apply_delta_run P w old_file new_file delta old hold hne hcr hu
  cases ha : Delta.applyOps old (delta.ops.map absOp) with
  | none => exact ⟨_, by rw [h, ha]; rfl⟩
  | some r => exact ⟨_, by rw [h, ha, applyOps_eq_partial old _ r ha]; rfl⟩

/-- the frame of `deltaWorld`: `new_file` holds the output, every other path is as before, no directory, stdin
    or mtime of another path changes. -/
theorem deltaWorld_frame (w : World) (o n : Rs.Path) (pos : Nat) (out : List Nat) :
    (deltaWorld w o n pos out).files n = some out ∧
    (∀ q, q ≠ n → (deltaWorld w o n pos out).files q = w.files q) ∧
    (deltaWorld w o n pos out).dirs = w.dirs ∧ (deltaWorld w o n pos out).stdin = w.stdin ∧
    (deltaWorld w o n pos out).stdinPos = w.stdinPos ∧
    (∀ q, q ≠ n → (deltaWorld w o n pos out).mtime q = w.mtime q) :=
  ⟨upd_same _ _ _, fun _ hq => upd_ne _ _ hq, rfl, rfl, rfl, fun _ hq => upd_ne _ _ hq⟩

/-- `stats.bytes_written` of a successful call is the size of the file written. -/
theorem apply_delta_bytes_written (old : Bytes) (delta : Remote.Delta) (newBytes : Bytes)
    (h : Delta.applyOps old (delta.ops.map absOp) = some newBytes) : bytesWritten delta.ops = newBytes.length :=
  bytesWritten_eq_length old delta.ops newBytes h

/-- DOMAIN RESTRICTION `old_file ≠ new_file`, concrete input: applying `[Copy 0 1]` to the one-byte file `a` IN PLACE
    fails (the file was truncated by `File::create` before the read) and leaves `a` empty, whereas
    `applyOps [7] [copy 0 1] = some [7]`.  The Rust source has no guard; its only caller never aliases the paths. -/
theorem apply_delta_in_place_counterexample (P : Parsers) :
    let w : World := { cli := ⟨.Scan []⟩, stdin := [], stdinPos := 0, files := fun p => if p = ['a'] then some [7] else none,
                       dirs := fun _ => false, mtime := fun _ => none, denyUtime := false, opened := 0,
                       handle := fun _ => none }
    let r := apply_delta (posix P) ['a'] { ops := [.Copy 0 1], source_size := 1, block_size := 1 } ['a'] w
    r.1 = .error .io ∧ r.2.files ['a'] = some [] ∧ Delta.applyOps [7] [.copy 0 1] = some [7] := by
  refine ⟨?_, ?_, by decide⟩ <;>
  simp [apply_delta, run_bind, run_op, posix_open, posix_create, posix_seek, posix_read_exact, openOp, createOp,
    Rs.parent, Rs.splitLastAt, World.isDir, seekOp, readExactOp, World.target, World.source, World.setPos, stdinHandle, upd]

/-! ### `sy-remote apply-delta` -/

/-- the helper's decoding of stdin is the model's: zstd sniffing on the first four bytes, `decompress`,
    `String::from_utf8`, `serde_json::from_str` together compute `remoteDecode` -/
theorem decode_eq_model (P : Parsers) (hU : Utf8Sound P) (stdin : Bytes) :
    ((Compress.sniff P.Z stdin).bind P.utf8Decode).bind (fun text => Delta.decodeJson (P.utf8Encode text)) =
      Delta.remoteDecode P.Z stdin := by
  unfold Delta.remoteDecode
  cases hs : Compress.sniff P.Z stdin with
  | none => rfl
  | some t =>
    simp only [Option.bind]
    cases hd : P.utf8Decode t with
    | none =>
      cases hj : Delta.decodeJson t with
      | none => rfl
      | some d =>
        have := hU.ascii t (decodeJson_ascii hj)
        rw [hd] at this; simp at this
    | some s => simp only [hU.roundtrip t s hd]

/-- The `ApplyDelta` arm is `remoteDecode` followed by `applyOps`:
    * stdin does not decode: exit with an error, nothing is created;
    * it decodes to `d` and the ops apply: exit 0, `output_file ↦ newBytes`;
    * a `Copy` leaves `base_file`: exit with an error, `output_file` is left holding the partial output. -/
theorem main_apply_delta_eq_model (P : Parsers) (hU : Utf8Sound P) (w : World) (base_file output_file : Rs.Path)
    (stdin old : Bytes)
    (hcli : w.cli.command = .ApplyDelta base_file output_file) (hstdin : w.stdin = ofU8 stdin) (hpos : w.stdinPos = 0)
    (hold : w.files base_file = some (ofU8 old)) (hne : base_file ≠ output_file) (hcr : CanCreate w output_file) :
    match Delta.remoteDecode P.Z stdin with
    | none => main (posix P) w = (.error .other, afterRead w)
    | some d =>
      match Delta.applyOps old d.ops with
      | some newBytes =>
        ∃ posOld, main (posix P) w = (.ok (), deltaWorld (afterRead w) base_file output_file posOld (ofU8 newBytes))
      | none =>
        ∃ posOld, main (posix P) w =
          (.error .io, deltaWorld (afterRead w) base_file output_file posOld (ofU8 (applyPartial old d.ops))) := by
  have h := main_apply_delta_run P w base_file output_file stdin old hcli hstdin hpos hold hne hcr
  have hd := decode_eq_model P hU stdin
  cases hs : (Compress.sniff P.Z stdin).bind P.utf8Decode with
  | none =>
    rw [hs] at hd h
    rw [← hd]; exact h
  | some text =>
    rw [hs] at hd h
    simp only [Option.bind] at hd
    dsimp only at h
    rw [← hd]
    cases hj : Delta.decodeJson (P.utf8Encode text) with
    | none => rw [hj] at h; exact h
    | some d =>
      rw [hj] at h
      dsimp only at h ⊢
      cases ha : Delta.applyOps old d.ops with
      | none => exact ⟨_, by rw [h, ha]; rfl⟩
      | some r => exact ⟨_, by rw [h, ha, applyOps_eq_partial old _ r ha]; rfl⟩

/-- … in one line: what `sy-remote apply-delta` leaves at `output_file` when it exits 0 is `remoteApply`. -/
theorem main_apply_delta_output (P : Parsers) (hU : Utf8Sound P) (w : World) (base_file output_file : Rs.Path)
    (stdin old : Bytes)
    (hcli : w.cli.command = .ApplyDelta base_file output_file) (hstdin : w.stdin = ofU8 stdin) (hpos : w.stdinPos = 0)
    (hold : w.files base_file = some (ofU8 old)) (hne : base_file ≠ output_file) (hcr : CanCreate w output_file) :
    output (main (posix P) w) output_file = (Delta.remoteApply P.Z old stdin).map ofU8 := by
  have h := main_apply_delta_eq_model P hU w base_file output_file stdin old hcli hstdin hpos hold hne hcr
  unfold Delta.remoteApply
  cases hd : Delta.remoteDecode P.Z stdin with
  | none => rw [hd] at h; simp only [h, output]; rfl
  | some d =>
    rw [hd] at h
    dsimp only at h ⊢
    cases ha : Delta.applyOps old d.ops with
    | none => rw [ha] at h; obtain ⟨_, h⟩ := h; simp only [h, output]; rfl
    | some r =>
      rw [ha] at h; obtain ⟨_, h⟩ := h
      simp only [h, output, (deltaWorld_frame _ _ _ _ _).1]; rfl

/-! ### `sy-remote receive-file` -/

/-- The `ReceiveFile` arm is `receiveFileOver .create`, for ANY prior content of the output path (`prior = none`: the
    path did not exist): on success the path holds the model's content, its mtime is the model's (`--mtime` in whole
    seconds, or the time of the write), every other file is untouched and the parent directory exists; the helper
    fails exactly when the model does (a zstd frame that does not decompress), and then nothing was created. -/
theorem main_receive_file_eq_model (P : Parsers) (w : World) (output_path : Rs.Path) (mtime : Option Nat)
    (stdin : Bytes) (prior : Option Bytes)
    (hcli : w.cli.command = .ReceiveFile output_path mtime) (hstdin : w.stdin = ofU8 stdin) (hpos : w.stdinPos = 0)
    (_hprior : w.files output_path = prior.map ofU8) (hcr : CanReceive w output_path) (hut : w.denyUtime = false) :
    match Compress.receiveFileOver .create P.Z prior stdin mtime with
    | some f =>
      ∃ w', main (posix P) w = (.ok (), w') ∧
        w'.files output_path = some (ofU8 f.content) ∧
        w'.mtime output_path = f.mtimeSec.map Rs.duration_from_secs ∧
        (∀ q, q ≠ output_path → w'.files q = w.files q) ∧
        (∀ d, Rs.parent output_path = some d → w'.isDir d = true)
    | none => main (posix P) w = (.error .other, afterRead w) := by
  obtain ⟨hnd, d, hp, hclear⟩ := hcr
  have h := main_receive_file_run P w output_path d mtime stdin hcli hstdin hpos hnd hp hclear
  unfold Compress.receiveFileOver
  cases hs : Compress.sniff P.Z stdin with
  | none => rw [hs] at h; exact h
  | some data =>
    rw [hs] at h
    simp only [Option.map, Compress.openOutput, Compress.writeAll, List.drop_nil, List.append_nil]
    refine ⟨_, h, upd_same _ _ _, ?_, fun _ hq => upd_ne _ _ hq, ?_⟩
    · simp only [outWorld, upd_same, hut, Bool.false_eq_true, if_false]; cases mtime <;> rfl
    · intro d' hd'
      rw [hp] at hd'; cases hd'
      exact outWorld_parent_isDir _ _ _ _ _ _ _

/-- DISAGREEMENT (reported): when the file system refuses to set the time, the code swallows the error
    (`let _ = filetime::set_file_mtime(..)`) — the helper exits 0, the content is right, but the mtime is the time of
    the write, while `receiveFileOver` says `mtimeSec = --mtime`.  The model describes the helper only under
    `denyUtime = false`. -/
theorem main_receive_file_mtime_denied (P : Parsers) (w : World) (output_path : Rs.Path) (secs : Nat)
    (stdin data : Bytes)
    (hcli : w.cli.command = .ReceiveFile output_path (some secs)) (hstdin : w.stdin = ofU8 stdin) (hpos : w.stdinPos = 0)
    (hcr : CanReceive w output_path) (hut : w.denyUtime = true) (hs : Compress.sniff P.Z stdin = some data) :
    ∃ w', main (posix P) w = (.ok (), w') ∧ w'.files output_path = some (ofU8 data) ∧ w'.mtime output_path = none ∧
      (Compress.receiveFileOver .create P.Z none stdin (some secs)).map (·.mtimeSec) = some (some secs) := by
  obtain ⟨hnd, d, hp, hclear⟩ := hcr
  have h := main_receive_file_run P w output_path d (some secs) stdin hcli hstdin hpos hnd hp hclear
  rw [hs] at h
  refine ⟨_, h, upd_same _ _ _, ?_, ?_⟩
  · simp only [outWorld, upd_same, hut, if_true]
  · simp [Compress.receiveFileOver, hs]

/-! ### `sy-remote receive-sparse-file` -/

/-- The `ReceiveSparseFile` arm is `receiveSparseFileOver .create`, for any prior content of the output path: on
    success the path holds the model's content and mtime and nothing else changed; it fails exactly when the model
    does (regions JSON does not parse — before anything is created — or stdin ends inside a region). -/
theorem main_receive_sparse_eq_model (P : Parsers) (w : World) (output_path : Rs.Path) (total_size : Nat)
    (regions : Rs.Str) (mtime : Option Nat) (stdin : Bytes) (prior : Option Bytes)
    (hcli : w.cli.command = .ReceiveSparseFile output_path total_size regions mtime)
    (hstdin : w.stdin = ofU8 stdin) (hpos : w.stdinPos = 0)
    (_hprior : w.files output_path = prior.map ofU8) (hcr : CanReceive w output_path) (hut : w.denyUtime = false) :
    match Compress.receiveSparseFileOver .create prior total_size (P.utf8Encode regions) stdin mtime with
    | some f =>
      ∃ w', main (posix P) w = (.ok (), w') ∧
        w'.files output_path = some (ofU8 f.content) ∧
        w'.mtime output_path = f.mtimeSec.map Rs.duration_from_secs ∧
        (∀ q, q ≠ output_path → w'.files q = w.files q)
    | none =>
      ∃ e w', main (posix P) w = (.error e, w') ∧ (∀ q, q ≠ output_path → w'.files q = w.files q) ∧
        (Compress.decodeRegions (P.utf8Encode regions) = none → w' = w) := by
  obtain ⟨hnd, d, hp, hclear⟩ := hcr
  have h := main_receive_sparse_run P w output_path d total_size regions mtime hcli hnd hp hclear
  unfold Compress.receiveSparseFileOver Compress.receiveSparseOver
  cases hdec : Compress.decodeRegions (P.utf8Encode regions) with
  | none => rw [hdec] at h; exact ⟨_, _, h, fun _ _ => rfl, fun _ => rfl⟩
  | some rs =>
    rw [hdec] at h
    simp only [Compress.openOutput] at *
    have hm := sparseLoop_eq_model stdin (Compress.setLen [] total_size) rs 0 0
    rw [ofU8_setLen, List.drop_zero, show (ofU8 ([] : Bytes)) = [] from rfl] at hm
    rw [hstdin, hpos] at h
    cases hg : Compress.receiveSparseGo (Compress.setLen [] total_size) rs stdin with
    | none =>
      rw [hg] at hm
      simp only [Option.isSome_none] at hm
      simp only [hm.1, Bool.false_eq_true, if_false] at h
      exact ⟨_, _, h, fun _ hq => upd_ne _ _ hq, fun hx => by simp at hx⟩
    | some c =>
      rw [hg] at hm
      simp only [Option.isSome_some] at hm
      simp only [hm.1, if_true, hm.2 c rfl] at h
      refine ⟨_, h, upd_same _ _ _, ?_, fun _ hq => upd_ne _ _ hq⟩
      simp only [outWorld, upd_same, hut, Bool.false_eq_true, if_false]

/-! ### property theorems, restated about the TRANSLATED code -/

/-- C04Wire.wire_roundtrip + C04Wire.C04_wire_mem about the translated helper: feed what `ssh.rs` sends
    (`compress(serde_json::to_string(&delta), Zstd)`) for the delta of the in-memory generator to the translated
    `main` with the command `apply-delta base out`: it exits 0 and `out` holds exactly `new`. -/
theorem translated_C04_wire_mem {H : Type} [BEq H] (P : Parsers) (hU : Utf8Sound P) (hZ : P.Z.Sound)
    (strong : Bytes → H) (old new : Bytes) (bs : Nat) (hbs : 0 < bs) (hc : Delta.NoCollision strong old new bs)
    (w : World) (base_file output_file : Rs.Path)
    (hcli : w.cli.command = .ApplyDelta base_file output_file)
    (hstdin : w.stdin = ofU8 (Delta.wireSend P.Z { ops := Delta.genMem strong (Delta.checksums strong bs old) bs new,
                                                    sourceSize := new.length, blockSize := bs }))
    (hpos : w.stdinPos = 0) (hold : w.files base_file = some (ofU8 old)) (hne : base_file ≠ output_file)
    (hcr : CanCreate w output_file) :
    output (main (posix P) w) output_file = some (ofU8 new) := by
  rw [main_apply_delta_output P hU w base_file output_file _ old hcli hstdin hpos hold hne hcr,
    C04Wire.C04_wire_mem P.Z hZ strong old new bs hbs hc]
  rfl

/-- C04Wire.wire_roundtrip about the translated helper, for ANY delta: the translated `main` applies exactly the ops
    that were sent. -/
theorem translated_wire_roundtrip (P : Parsers) (hU : Utf8Sound P) (hZ : P.Z.Sound) (d : Delta.Delta)
    (w : World) (base_file output_file : Rs.Path) (old : Bytes)
    (hcli : w.cli.command = .ApplyDelta base_file output_file) (hstdin : w.stdin = ofU8 (Delta.wireSend P.Z d))
    (hpos : w.stdinPos = 0) (hold : w.files base_file = some (ofU8 old)) (hne : base_file ≠ output_file)
    (hcr : CanCreate w output_file) :
    output (main (posix P) w) output_file = (Delta.applyOps old d.ops).map ofU8 := by
  rw [main_apply_delta_output P hU w base_file output_file _ old hcli hstdin hpos hold hne hcr]
  unfold Delta.remoteApply Delta.wireSend
  rw [C04Wire.wire_roundtrip P.Z hZ]

/-- C14.receive_file_on_frame + C14.receive_file_ignores_prior about the translated helper: a zstd frame of `x` on
    stdin of `receive-file out --mtime s`, whatever `out` held before: `out` holds `x` with mtime `s` seconds. -/
theorem translated_receive_file_on_frame (P : Parsers) (hZ : P.Z.Sound) (x : Bytes) (mtime : Option Nat)
    (prior : Option Bytes) (w : World) (output_path : Rs.Path)
    (hcli : w.cli.command = .ReceiveFile output_path mtime) (hstdin : w.stdin = ofU8 (P.Z.compress x))
    (hpos : w.stdinPos = 0) (hprior : w.files output_path = prior.map ofU8) (hcr : CanReceive w output_path)
    (hut : w.denyUtime = false) :
    ∃ w', main (posix P) w = (.ok (), w') ∧ w'.files output_path = some (ofU8 x) ∧
      w'.mtime output_path = mtime.map Rs.duration_from_secs := by
  have h := main_receive_file_eq_model P w output_path mtime _ prior hcli hstdin hpos hprior hcr hut
  have hm : Compress.receiveFileOver .create P.Z prior (P.Z.compress x) mtime =
      some { content := x, mtimeSec := mtime } := by
    have h1 := C14.receive_file_ignores_prior P.Z prior (P.Z.compress x) mtime
    have hmode : C14.receiveFileMode = .create := by
      simp [C14.receiveFileMode, Compress.OpenMode.ofTruncates, C14.consts_ok_writers_truncate.1]
    rw [hmode] at h1
    rw [h1, C14.receive_file_on_frame P.Z hZ]
  rw [hm] at h
  obtain ⟨w', h1, h2, h3, _⟩ := h
  exact ⟨w', h1, h2, h3⟩

/-- C14.sparse_helper_transparent_over_prior about the translated helper: what `copy_sparse_file` sends for a file
    whose regions cover its data, fed to the translated `main`, rebuilds the file over any prior content. -/
theorem translated_sparse_transparent (P : Parsers) (content : Bytes) (r : Compress.Region) (rs : List Compress.Region)
    (hcov : Compress.Covers content (r :: rs)) (prior : Option Bytes) (w : World) (output_path : Rs.Path)
    (regions : Rs.Str) (mtime : Option Nat)
    (hregions : P.utf8Encode regions = Compress.encodeRegions (r :: rs))
    (hcli : w.cli.command = .ReceiveSparseFile output_path content.length regions mtime)
    (hstdin : w.stdin = ofU8 ((r :: rs).flatMap (Compress.slice content))) (hpos : w.stdinPos = 0)
    (hprior : w.files output_path = prior.map ofU8) (hcr : CanReceive w output_path) (hut : w.denyUtime = false) :
    ∃ w', main (posix P) w = (.ok (), w') ∧ w'.files output_path = some (ofU8 content) ∧
      w'.mtime output_path = mtime.map Rs.duration_from_secs := by
  have h := main_receive_sparse_eq_model P w output_path content.length regions mtime _ prior hcli hstdin hpos hprior
    hcr hut
  have hm : Compress.receiveSparseFileOver .create prior content.length (P.utf8Encode regions)
      ((r :: rs).flatMap (Compress.slice content)) mtime = some { content := content, mtimeSec := mtime } := by
    have := Compress.receiveSparse_gather content (r :: rs) hcov []
    rw [List.append_nil] at this
    simp only [Compress.receiveSparseFileOver, hregions, Compress.decodeRegions_encode, Compress.receiveSparseOver,
      Compress.openOutput]
    unfold Compress.receiveSparse at this
    rw [this]
  rw [hm] at h
  obtain ⟨w', h1, h2, h3, _⟩ := h
  exact ⟨w', h1, h2, h3⟩

/-! ### the hypotheses are satisfiable -/

/-- a `from_utf8` that accepts exactly 7-bit text (the least one `Utf8Sound` allows; real UTF-8 accepts more) -/
def asciiUtf8 (L Z : Compress.Codec) : Parsers where
  L := L
  Z := Z
  utf8Decode b := if b.all (fun x => x.toNat < 128) then some (b.map fun x => Char.ofNat x.toNat) else none
  utf8Encode s := s.map fun c => c.toNat.toUInt8

theorem asciiUtf8_sound (L Z : Compress.Codec) : Utf8Sound (asciiUtf8 L Z) where
  roundtrip := by
    intro b s h
    simp only [asciiUtf8] at h ⊢
    split at h
    · rename_i hb
      simp only [Option.some.injEq] at h; subst h
      rw [List.map_map]
      conv => rhs; rw [← List.map_id b]
      apply List.map_congr_left
      intro x hx
      have hx' : x.toNat < 128 := by simpa using List.all_eq_true.mp hb x hx
      have key : ∀ n, n < 128 → (Char.ofNat n).toNat = n := by decide
      simp only [Function.comp, key _ hx', id]
      exact Delta.toUInt8_toNat x
    · simp at h
  ascii := by
    intro b hb
    simp only [asciiUtf8]
    rw [if_pos]
    · rfl
    · exact List.all_eq_true.mpr fun x hx => by simpa using hb x hx

example : Utf8Sound (asciiUtf8 Compress.toyL Compress.toyZ) := asciiUtf8_sound _ _

/-- a world for `sy-remote apply-delta a b` with `a ↦ old`: every hypothesis of `main_apply_delta_eq_model` holds -/
def applyWorld (old stdin : Bytes) : World :=
  { cli := ⟨.ApplyDelta ['a'] ['b']⟩, stdin := ofU8 stdin, stdinPos := 0,
    files := fun p => if p = ['a'] then some (ofU8 old) else none,
    dirs := fun _ => false, mtime := fun _ => none, denyUtime := false, opened := 0, handle := fun _ => none }

example (old stdin : Bytes) :
    (applyWorld old stdin).cli.command = .ApplyDelta ['a'] ['b'] ∧ (applyWorld old stdin).stdin = ofU8 stdin ∧
    (applyWorld old stdin).stdinPos = 0 ∧ (applyWorld old stdin).files ['a'] = some (ofU8 old) ∧
    (['a'] : Rs.Path) ≠ ['b'] ∧ CanCreate (applyWorld old stdin) ['b'] :=
  ⟨rfl, rfl, rfl, by simp [applyWorld], by decide, rfl, [], by decide, rfl⟩

/-- a world for `sy-remote receive-file d/f` (and `receive-sparse-file d/f …`) over prior content, `d` missing -/
def receiveWorld (cmd : Commands) (stdin : Bytes) (prior : Option Bytes) : World :=
  { cli := ⟨cmd⟩, stdin := ofU8 stdin, stdinPos := 0,
    files := fun p => if p = ['d', '/', 'f'] then prior.map ofU8 else none,
    dirs := fun _ => false, mtime := fun _ => none, denyUtime := false, opened := 0, handle := fun _ => none }

example (cmd : Commands) (stdin : Bytes) (prior : Option Bytes) :
    (receiveWorld cmd stdin prior).files ['d', '/', 'f'] = prior.map ofU8 ∧
    CanReceive (receiveWorld cmd stdin prior) ['d', '/', 'f'] := by
  refine ⟨by simp [receiveWorld], rfl, ['d'], by decide, ?_⟩
  intro a ha
  have : selfAndAncestors ['d'] = [['d']] := by decide
  rw [this] at ha
  simp only [List.mem_singleton] at ha
  subst ha
  simp [receiveWorld]

/-- the end-to-end statement on a concrete run: the toy codec's frame of the JSON of `[Copy 1 2, Data [9]]` applied to
    `[1, 2, 3]` by the translated `main` leaves `[2, 3, 9]` in `b`. -/
example : output (main (posix (asciiUtf8 Compress.toyL Compress.toyZ))
      (applyWorld [1, 2, 3] (Delta.wireSend Compress.toyZ { ops := [.copy 1 2, .data [9]], sourceSize := 3, blockSize := 2 })))
      ['b'] = some [2, 3, 9] := by
  rw [translated_wire_roundtrip (asciiUtf8 Compress.toyL Compress.toyZ) (asciiUtf8_sound _ _) Compress.toyZ_sound _ _ ['a'] ['b'] [1, 2, 3] rfl rfl rfl
    (by simp [applyWorld]) (by decide) ⟨rfl, [], by decide, rfl⟩]
  decide

end SyModel.Props.GenRemote
