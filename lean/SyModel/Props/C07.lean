/-
  C07 — Mass-deletion guard: a run never deletes more than the configured share.
  Property theorems only.
-/
import SyModel.Lemmas.Engine
import SyModel.Generated.Consts
namespace SyModel.Props.C07
open SyModel SyModel.Engine

/-- the default `--delete-threshold` extracted from src/cli.rs is a percentage below 100, so an
    all-entries deletion always exceeds it -/
theorem consts_ok_default_threshold : Generated.DELETE_THRESHOLD_DEFAULT < 100 := by decide

/-- Strictly above the threshold the guard refuses, whatever the floating-point tie bit. -/
theorem guard_refuses (cfg : Cfg) (dels cnt : Nat) (hd : cfg.delete = true) (hf : cfg.force = false)
    (hc : 0 < cnt) (hx : dels * 100 > cfg.threshold * cnt) : guardRefuses cfg dels cnt = true := by
  have hpos : 0 < dels := by
    rcases Nat.eq_zero_or_pos dels with h | h
    · subst h; simp at hx
    · exact h
  simp [guardRefuses, hd, hf, hc, hx, hpos]

/-- The guard only ever refuses at or above the threshold (and never with --force-delete or
    without --delete). -/
theorem guard_only_at_or_above (cfg : Cfg) (dels cnt : Nat) (h : guardRefuses cfg dels cnt = true) :
    cfg.delete = true ∧ cfg.force = false ∧ dels * 100 ≥ cfg.threshold * cnt := by
  simp only [guardRefuses, Bool.and_eq_true, Bool.or_eq_true, decide_eq_true_eq, Bool.not_eq_true'] at h
  obtain ⟨⟨⟨⟨h1, h2⟩, _⟩, _⟩, h5⟩ := h
  refine ⟨h1, h2, ?_⟩
  rcases h5 with h | ⟨h, _⟩ <;> omega

/-- A refused run changes nothing, performs no action and exits non-zero. -/
theorem refuse_changes_nothing (cfg : Cfg) (flt : Faults) (scan : List SEntry) (dst : Map DNode) (n : Nat)
    (h : (runF cfg flt scan dst n).refused = true) :
    (runF cfg flt scan dst n).dst = dst ∧ (runF cfg flt scan dst n).events = [] ∧
    (runF cfg flt scan dst n).created = 0 ∧ (runF cfg flt scan dst n).updated = 0 ∧
    (runF cfg flt scan dst n).deleted = 0 ∧ (runF cfg flt scan dst n).exit ≠ 0 := by
  unfold runF at h ⊢
  simp only at h ⊢
  split
  · simp
  · rename_i hg; simp [hg] at h

/-- Whenever the planned deletions exceed the configured share of the destination's entries (sy's
    own metadata files are not entries: they are neither counted nor ever deleted), the run is
    refused — before any task has run. -/
theorem exceeding_share_refused (cfg : Cfg) (flt : Faults) (scan : List SEntry) (dst : Map DNode) (n : Nat)
    (hd : cfg.delete = true) (hf : cfg.force = false) (hc : 0 < destCount dst)
    (hx : ((plan cfg scan dst).filter (·.act == .delete)).length * 100 > cfg.threshold * destCount dst) :
    (runF cfg flt scan dst n).refused = true ∧ (runF cfg flt scan dst n).dst = dst := by
  have hg := guard_refuses cfg _ _ hd hf hc hx
  unfold runF
  simp only [hg, ↓reduceIte, and_self]

/-- with an empty source every destination entry that is not sy's own metadata is planned for
    deletion -/
theorem empty_source_deletes_all (cfg : Cfg) (dst : Map DNode) (hd : cfg.delete = true) :
    ((plan cfg [] dst).filter (·.act == .delete)).length = destCount dst := by
  have hplan : plan cfg [] dst =
      (dst.keys.filter fun p => !(ownMetadata.contains p)).map (fun p => ⟨.delete, p, .nothing⟩) := by
    unfold plan planDeletions scanFilter scanFilterGo
    simp only [hd, ↓reduceIte, List.map_nil, List.nil_append, List.any_nil, Bool.not_false, Bool.true_and]
  rw [hplan, List.filter_eq_self.mpr]
  · simp [destCount]
  · intro t ht; simp at ht; obtain ⟨_, _, rfl⟩ := ht; rfl

/-- An empty (unmounted, mistaken) source cannot wipe a destination: every destination entry
    would be deleted, which exceeds any threshold below 100 % — whatever metadata files of sy's own
    earlier runs left in the destination (they are not counted, so they cannot dilute the share). -/
theorem empty_source_cannot_wipe (cfg : Cfg) (flt : Faults) (dst : Map DNode) (n : Nat)
    (hd : cfg.delete = true) (hf : cfg.force = false) (hthr : cfg.threshold < 100)
    (hne : 0 < destCount dst) :
    (runF cfg flt [] dst n).refused = true ∧ (runF cfg flt [] dst n).dst = dst := by
  apply exceeding_share_refused cfg flt [] dst n hd hf hne
  rw [empty_source_deletes_all cfg dst hd]
  have : cfg.threshold * destCount dst < 100 * destCount dst := Nat.mul_lt_mul_of_pos_right hthr hne
  omega

/-! ### non-vacuity -/

def exCfg : Cfg where
  delete := true
  force := false
  dryRun := false
  xattrs := false
  hardlinks := false
  threshold := 50
  links := .preserve
  compare := .default
  minSize := none
  maxSize := none
  maxErrors := 100
  tie := false

/-- The count the guard would use if sy's own files were counted as entries (the code as it was
    before the `fix:` commit): one user file next to a checksum database left by an earlier run is
    wiped by an empty source under the default threshold — 1 of 2 "entries" is not more than 50 %. -/
theorem counting_own_metadata_counterexample :
    guardRefuses exCfg 1 ([(["only.txt"], DNode.dir), ([".sy-checksums.db"], DNode.dir)] : Map DNode).length = false ∧
    guardRefuses exCfg 1 (destCount [(["only.txt"], DNode.dir), ([".sy-checksums.db"], DNode.dir)]) = true := by
  decide

example : guardRefuses exCfg 3 5 = true := guard_refuses exCfg 3 5 rfl rfl (by decide) (by decide)
example : guardRefuses exCfg 2 5 = false := by decide
example : (run exCfg [] [(["a"], .dir), (["b"], .dir)] 10).refused = true :=
  (empty_source_cannot_wipe exCfg noFaults _ 10 rfl rfl (by decide) (by decide)).1
example : (run exCfg [] [(["only.txt"], .dir), ([".sy-checksums.db"], .dir)] 10).refused = true :=
  (empty_source_cannot_wipe exCfg noFaults _ 10 rfl rfl (by decide) (by decide)).1

end SyModel.Props.C07
