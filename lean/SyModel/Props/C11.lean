/-
  C11 — Bidirectional sync converges and never silently loses a version.
  Property theorems only; helper lemmas live in `SyModel/Lemmas/Bisync*.lean`.

  The theorems are about `Cfg.repaired` = /repo with `fix-bisync-state.diff` and
  `fix-bisync-content-equal.diff` applied. For the tree as shipped (`Cfg.pinned`) the same
  statements are FALSE; the witnesses are proved below (`*_counterexample_*`).
-/
import SyModel.Generated.Consts
import SyModel.Lemmas.BisyncWorld
namespace SyModel.Props.C11

/-- the repaired state handling and content comparison are what the current source contains
    (flags regenerated from src/bisync/*.rs on every run; the theorems below about `Cfg.repaired`
    speak about the code only while these hold) -/
theorem consts_ok_repaired : SyModel.Generated.BISYNC_STATE_RECORDS_BOTH_SIDES = true ∧
    SyModel.Generated.BISYNC_STATE_SKIPS_FAILED = true ∧
    SyModel.Generated.BISYNC_CONTENT_EQUAL_READS_BYTES = true := by decide

theorem consts_ok_strategies :
    SyModel.Generated.BISYNC_STRATEGIES = ["newer", "larger", "smaller", "source", "dest", "rename"] := by decide
open SyModel SyModel.Bisync

/-- **converges.** After a sync that is not refused by the deletion limit and reports no
    error, both roots hold the same files with identical contents unless the run produced
    conflict copies (rename actions) — and in every case after one further sync. The further
    sync is itself never refused and reports no error. For all worlds with a consistent prior
    state, all six strategies, all limits. -/
theorem converges (strat strat2 : Strategy) (md md2 stamp stamp2 : Nat) (w : World)
    (hc : Consistent w) (hf : Fresh w stamp)
    (hnr : (sync .repaired strat md stamp w).refused = false)
    (_hok : (sync .repaired strat md stamp w).errors = [])
    (hf2 : Fresh (sync .repaired strat md stamp w).world stamp2) :
    (noRenames (sync .repaired strat md stamp w) → treesEqual (sync .repaired strat md stamp w).world) ∧
    (sync .repaired strat2 md2 stamp2 (sync .repaired strat md stamp w).world).refused = false ∧
    (sync .repaired strat2 md2 stamp2 (sync .repaired strat md stamp w).world).errors = [] ∧
    treesEqual (sync .repaired strat2 md2 stamp2 (sync .repaired strat md stamp w).world).world := by
  have hps := sync_postSync strat md stamp w hc hf hnr
  obtain ⟨hs, _, hacts⟩ := sync_spec .repaired rfl strat md stamp w hf hnr
  refine ⟨?_, postSync_not_refused hps _ _ _, ?_, ?_⟩
  · intro hno q
    -- without renames no path is one-sided
    have hren : ∀ p ∈ w.allPaths, isRen (w.act .repaired strat stamp p) = false := by
      intro p hp
      cases ha : w.act .repaired strat stamp p with
      | none => rfl
      | some a =>
        have : a ∈ (sync .repaired strat md stamp w).actions := by
          rw [hacts, List.mem_filterMap]; exact ⟨p, hp, ha⟩
        simpa [isRen] using hno a this
    have : Synced ((sync .repaired strat md stamp w).world.view q) := by
      by_cases hq : q ∈ w.allPaths
      · rw [hs.own q hq]; exact stepView_synced _ _ _ _ _ (consistent_viewOK hc q)
      · by_cases hqn : q ∈ conflictNames w stamp
        · obtain ⟨p, hp, hq2⟩ := mem_conflictNames hqn
          rcases hq2 with rfl | rfl
          · rw [hs.nameS p hp]; simp [hren p hp]; exact synced_empty
          · rw [hs.nameD p hp]; simp [hren p hp]; exact synced_empty
        · rw [hs.other q hq hqn]; exact synced_empty
    exact synced_contents this
  · exact (sync_spec .repaired rfl strat2 md2 stamp2 _ hf2 (postSync_not_refused hps _ _ _)).2.1
  · intro q
    exact synced_contents (second_sync_synced hps strat2 md2 stamp2 hf2 q)

/-- the hypothesis "reports no error" of `converges` is never violated in the model: every
    action the resolver chooses can be executed on the scanned trees. -/
theorem sync_no_errors (strat : Strategy) (md stamp : Nat) (w : World) (hf : Fresh w stamp)
    (hnr : (sync .repaired strat md stamp w).refused = false) :
    (sync .repaired strat md stamp w).errors = [] :=
  (sync_spec .repaired rfl strat md stamp w hf hnr).2.1

/-- the state a sync leaves behind is again a consistent prior state. -/
theorem sync_consistent (strat : Strategy) (md stamp : Nat) (w : World) (hc : Consistent w)
    (hf : Fresh w stamp) (hnr : (sync .repaired strat md stamp w).refused = false) :
    Consistent (sync .repaired strat md stamp w).world :=
  (sync_postSync strat md stamp w hc hf hnr).consistent

/-- a refused sync (deletion limit) changes neither root nor the state. -/
theorem refused_changes_nothing (cfg : Cfg) (strat : Strategy) (md stamp : Nat) (w : World)
    (h : (sync cfg strat md stamp w).refused = true) :
    (sync cfg strat md stamp w).world.left = w.left ∧ (sync cfg strat md stamp w).world.right = w.right ∧
    (sync cfg strat md stamp w).world.db = w.db ∧ (sync cfg strat md stamp w).actions = [] := by
  cases hl : deletionLimitExceeded (w.changes cfg) md
  · simp [sync, hl] at h
  · simp [sync, hl]

/-- **no_silent_loss.** Every file version present before the run still exists afterwards on
    at least one side (as the path's content or as a conflict copy), unless it was the
    previously synchronised version superseded by a one-sided change, or the loser explicitly
    chosen by the selected strategy on a path classified as a conflict. -/
theorem no_silent_loss (strat : Strategy) (md stamp : Nat) (w : World)
    (hp : Paired w) (hf : Fresh w stamp)
    (hnr : (sync .repaired strat md stamp w).refused = false) (v : Nat) (hv : hasVersion w v) :
    hasVersion (sync .repaired strat md stamp w).world v ∨ supersededBase w v ∨
      chosenLoser .repaired strat stamp w v := by
  obtain ⟨hs, _, _⟩ := sync_spec .repaired rfl strat md stamp w hf hnr
  obtain ⟨p, f, hpf, hcid⟩ := hv
  have hmem : p ∈ w.allPaths := by
    rw [mem_allPaths]
    rcases hpf with h | h
    · exact Or.inl (by rw [h]; simp)
    · exact Or.inr (Or.inl (by rw [h]; simp))
  have hpf' : (w.view p).l = some f ∨ (w.view p).r = some f := hpf
  rcases loss_cases strat stamp w.clock p (w.view p) (hp p) f hpf' with hk | hr | hsup | hlo
  · left
    have hown := hs.own p hmem
    rcases hk with ⟨g, hg, hgc⟩ | ⟨g, hg, hgc⟩
    · refine ⟨p, g, Or.inl ?_, hgc.trans hcid⟩
      have := congrArg View.l hown
      exact this.trans hg
    · refine ⟨p, g, Or.inr ?_, hgc.trans hcid⟩
      have := congrArg View.r hown
      exact this.trans hg
  · left
    rcases hpf' with h | h
    · refine ⟨conflictName p stamp .source, f, Or.inl ?_, hcid⟩
      have := congrArg View.l (hs.nameS p hmem)
      simp only [World.act, hr, if_true] at this
      exact this.trans h
    · refine ⟨conflictName p stamp .dest, f, Or.inr ?_, hcid⟩
      have := congrArg View.r (hs.nameD p hmem)
      simp only [World.act, hr, if_true] at this
      exact this.trans h
  · right; left
    obtain ⟨rl, rr, h1, h2, h3⟩ := hsup
    refine ⟨p, f, rl, rr, ?_, hcid, h3⟩
    show (aget (p, Side.source) w.db, aget (p, Side.dest) w.db) = _
    have e1 : aget (p, Side.source) w.db = some rl := h1
    have e2 : aget (p, Side.dest) w.db = some rr := h2
    rw [e1, e2]
  · right; right
    obtain ⟨ct, h1, h2, h3⟩ := hlo
    exact ⟨p, ct, f, h1, h2, hcid, h3⟩

/-! ### the pinned tree falsifies both statements -/

def fPath : Path := ['g']

/-- A9: `g` = AAA on the left, BBB on the right, same size, no prior state. -/
def wA9 : World := ⟨[(fPath, ⟨1, 3, 1⟩)], [(fPath, ⟨2, 3, 2⟩)], [], 3⟩

/-- Signature `C11/equal-size-different-content`: on the code as shipped the sync of `wA9`
    reports no error, renames nothing, and leaves the two roots different. -/
theorem converges_counterexample_equal_size_different_content :
    Consistent wA9 ∧ Fresh wA9 100 ∧
    (sync .pinned .newer 0 100 wA9).refused = false ∧ (sync .pinned .newer 0 100 wA9).errors = [] ∧
    noRenames (sync .pinned .newer 0 100 wA9) ∧ (sync .pinned .newer 0 100 wA9).actions = [] ∧
    ¬ treesEqual (sync .pinned .newer 0 100 wA9).world := by
  refine ⟨?_, by decide, by decide, by decide, ?_, by decide, ?_⟩
  · refine ⟨?_, ?_⟩
    · intro p; simp [World.rows, wA9, aget]
    · intro p l r rl rr _ _ h; simp [World.rows, wA9, aget] at h
  · intro a ha; have : (sync .pinned .newer 0 100 wA9).actions = [] := by decide
    rw [this] at ha; cases ha
  · intro h
    have := h fPath
    revert this; decide

/-- … and with the content comparison alone repaired the same world converges (the create/create
    conflict is seen and resolved by `newer`). -/
example : treesEqual (sync ⟨true, false⟩ .newer 0 100 wA9).world := by
  intro p
  by_cases h : p = fPath
  · subst h; decide
  · have h' : ¬ fPath = p := fun e => h e.symm
    simp [sync, wA9, World.changes, classifyChanges, scan, Db.loadAll, allPathsOf, dedup, classifyOne,
      lookup, classifySingle, contentEqual, File.entry, deletionLimitExceeded, resolveChanges, resolveOne,
      resolveConflict, resolveByMtime, execActions, execOne, copyFile, aget, aset, aerase, h', fPath,
      ChangeType.isDeletion]
    simp [show ¬ ['g'] = p from h']

/-- a same-second third conflict can overwrite an older conflict copy: `Fresh` is a real
    hypothesis (wall-clock corner, see INTEGRATION.md). Here: it is decidable and fails. -/
example : ¬ Fresh ⟨[(['f'], ⟨1, 3, 1⟩), (conflictName ['f'] 7 .source, ⟨5, 3, 5⟩)], [(['f'], ⟨2, 3, 2⟩)], [], 9⟩ 7 := by
  decide

/-- the two conflict copies of one path never collide with each other (the part of `Fresh` that
    does not depend on what else exists). -/
theorem conflict_names_distinct (p : Path) (stamp : Nat) :
    conflictName p stamp .source ≠ conflictName p stamp .dest := by
  unfold conflictName
  intro h
  have h2 := List.append_cancel_left h
  simp [Side.str] at h2

/-! ### non-vacuity -/

/-- a world with history: `f` in sync with truthful rows, then edited on both sides (equal size,
    different content, equal mtimes), plus a one-sided new file. -/
def wEx : World :=
  ⟨[(['f'], ⟨7, 3, 7⟩), (['n'], ⟨9, 4, 9⟩)], [(['f'], ⟨8, 3, 7⟩)],
   [((['f'], Side.source), ⟨1, 3⟩), ((['f'], Side.dest), ⟨2, 3⟩)], 10⟩

theorem wEx_consistent : Consistent wEx := by
  refine ⟨?_, ?_⟩
  · intro p
    by_cases h : p = ['f']
    · subst h; simp [World.rows, wEx, aget]
    · have h' : ¬ ['f'] = p := fun e => h e.symm
      simp [World.rows, wEx, aget, h']
  · intro p l r rl rr h1 h2 h3 m1 m2
    by_cases h : p = ['f']
    · subst h
      simp [World.rows, wEx, aget] at h1 h2 h3
      obtain ⟨rfl, rfl⟩ := h3
      subst h1
      simp [isModified, File.entry] at m1
    · have h' : ¬ ['f'] = p := fun e => h e.symm
      simp [World.rows, wEx, aget, h'] at h3

example : Fresh wEx 100 := by decide
example : (sync .repaired .newer 0 100 wEx).refused = false := by decide
example : (sync .repaired .newer 0 100 wEx).errors = [] := by decide
/-- equal mtimes: `newer` falls back to rename, so this run does produce conflict copies … -/
example : ¬ noRenames (sync .repaired .newer 0 100 wEx) := by
  intro h
  have := h (.renameConflict ['f'] ⟨3, 7, false, some 7⟩ ⟨3, 7, false, some 8⟩ 100) (by decide)
  revert this; decide
example : Fresh (sync .repaired .newer 0 100 wEx).world 101 := by decide
/-- … and under `source` it does not. -/
example : noRenames (sync .repaired .source 0 100 wEx) := by
  unfold noRenames; decide
example : hasVersion wEx 8 := ⟨['f'], ⟨8, 3, 7⟩, Or.inr (by decide), rfl⟩
/-- version 8 is the loser chosen by `source`. -/
example : chosenLoser .repaired .source 100 wEx 8 :=
  ⟨['f'], .modifiedBoth, ⟨8, 3, 7⟩, by decide, rfl, rfl, Or.inr ⟨by decide, by decide⟩⟩

end SyModel.Props.C11
