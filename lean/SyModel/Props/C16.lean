/-
  C16 — Filters select exactly the documented set.
  Property theorems only; helper lemmas live in `SyModel/Lemmas/Filter*.lean`, the declarative
  vocabulary (`Matches`, `WF`, `ParentsFirst`, `keptSpec`, …) in `SyModel/Filter/Spec.lean`.

  Reading of the property, clause by clause:
    * "first matching rule … includes it or no rule matches"        → `first_match_wins`, `default_include`
    * "--filter rules in the order given, then --include, then --exclude" → `rule_order`, `rule_order_cli`
    * "none of its ancestor directories is excluded", "size within bounds" → `scanFilter_spec` (+ `scanFilter_exact`,
                                                                         `scanFilter_perm`, `size_bounds`)
    * "patterns without '/' match the base name"                    → `rule_basename`
    * "patterns ending in '/' match directories together with their whole subtree"
                                                                    → `rule_dironly_subtree`, `rule_dironly_subtree_closed_partial`;
        FALSE for the bare `*/` (README-documented "directories only"): `rule_star_slash`,
        `rule_dironly_subtree_closed_counterexample_star_slash`
    * "entries that are filtered out are never created or updated"  → `scanFilter_sublist`, `transferSet_partial`
        (directory sources: nothing outside the kept list reaches the planner; the transfer side is the engine
        model's, checked at binary level by the harness);
        single-file sources: `transferSet_single_file` (fixed finding `C16/single-file-source-unfiltered`)
    * glob semantics under all of it                                → `glob_matches_iff`
-/
import SyModel.Lemmas.FilterScan
import SyModel.Generated.Consts
namespace SyModel.Props.C16
open SyModel SyModel.Filter

/-! ### side conditions on what the translator reads from the Rust source on this run -/

/-- src/main.rs feeds the engine in the order the model's `buildRules` does. -/
theorem consts_ok_rule_order : Generated.FILTER_RULE_ORDER = ruleSourceOrder := by decide

/-- … and each step calls what the model assumes: `--filter` → `add_rule`, `--include` →
    `add_include` (action `Include`), `--exclude` → `add_exclude` (action `Exclude`);
    `should_include` answers `action == Include` on the first match and `true` when nothing matches. -/
theorem consts_ok_filter_calls :
    Generated.FILTER_LOOP_CALL = "add_rule" ∧ Generated.INCLUDE_LOOP_CALL = "add_include" ∧
    Generated.EXCLUDE_LOOP_CALL = "add_exclude" ∧ Generated.ADD_INCLUDE_ACTION = "Include" ∧
    Generated.ADD_EXCLUDE_ACTION = "Exclude" ∧ Generated.FILTER_FIRST_MATCH_RETURN = "Include" ∧
    Generated.FILTER_NO_MATCH_RESULT = "true" := by decide

/-! ### glob: the backtracking matcher decides the declarative relation -/

/-- `Pattern::new` only produces token lists in which every `**` is a whole path component. -/
theorem parse_wf (p : List Char) (toks : List Token) (h : parse p = .ok toks) : WF toks :=
  parse_wf' h

/-- The backtracking matcher of the `glob` crate — including its early
    `EntirePatternDoesntMatch` exit — is sound and complete for the declarative relation
    `Matches`, for every pattern `Pattern::new` accepts and every string. -/
theorem glob_matches_iff (p : List Char) (toks : List Token) (s : List Char)
    (h : parse p = .ok toks) : globMatch toks s = true ↔ Matches toks s :=
  globMatch_iff_of_wf toks (parse_wf' h) s

/-- … more generally for every well-formed token list. -/
theorem glob_matches_iff_wf (toks : List Token) (s : List Char) (h : WF toks) :
    globMatch toks s = true ↔ Matches toks s :=
  globMatch_iff_of_wf toks h s

/-- The well-formedness hypothesis is needed: on `[*, **, b]` (which `Pattern::new` never builds —
    `***` and `x**` are errors) the early exit loses the match of `"ab"`. -/
theorem glob_matches_iff_needs_wf :
    Matches [.anySeq, .anyRecSeq, .char 'b'] ['a', 'b'] ∧
    globMatch [.anySeq, .anyRecSeq, .char 'b'] ['a', 'b'] = false ∧
    ¬ WF [.anySeq, .anyRecSeq, .char 'b'] := by
  refine ⟨?_, by decide, by decide⟩
  exact Matches.seq ['a'] (Matches.recEmpty (Matches.one (by decide) Matches.nil))

/-- The fuel of the parser model is never exhausted (its `0` branch answers `wildcards 0`). -/
theorem parse_never_out_of_fuel (p : List Char) : parse p ≠ .error (.wildcards 0) := by
  intro h; have := parse_wildcards_pos h; omega

/-! ### the documented matching classes -/

private theorem getLast?_ne_of_not_contains {pat : List Char} (h : pat.contains '/' = false) :
    (pat.getLast? == some '/') = false := by
  cases hl : pat.getLast? with
  | none => rfl
  | some c =>
    have hc : c ∈ pat := List.mem_of_getLast? hl
    have : c ≠ '/' := by
      intro e; subst e
      have : pat.contains '/' = true := by simpa using hc
      rw [h] at this; cases this
    simp [this]

/-- A pattern without `/` matches the base name: the rule matches an entry iff the glob matches
    the entry's last path component (whatever the directories above it are called, file or
    directory alike). -/
theorem rule_basename (incl : Bool) (pat : List Char) (r : Rule) (p : RelPath) (d : Bool)
    (hnew : Rule.new incl pat = .ok r) (hpat : pat.contains '/' = false) :
    r.matches p d = true ↔ ∃ b, p.getLast? = some b ∧ Matches r.toks b := by
  obtain ⟨_, _, hdo, hg, hhs, _⟩ := Rule.new_ok hnew
  have hl := getLast?_ne_of_not_contains hpat
  rw [hl] at hdo hg
  simp only [Bool.false_eq_true, if_false] at hg
  rw [hg, hpat] at hhs
  rw [Rule.matches_basename r p d hhs hdo]
  unfold matchesBase fileName
  cases hb : p.getLast? with
  | none => simp
  | some b =>
    simp only [Option.some.injEq, exists_eq_left']
    exact globMatch_iff_of_wf r.toks (Rule.new_wf hnew) b

/-- A pattern that contains `/` and does not end in `/` is matched against the full relative
    path. -/
theorem rule_fullpath (incl : Bool) (pat : List Char) (r : Rule) (p : RelPath) (d : Bool)
    (hnew : Rule.new incl pat = .ok r) (hpat : pat.contains '/' = true)
    (hend : pat.getLast? ≠ some '/') :
    r.matches p d = true ↔ Matches r.toks (pathStr p) := by
  obtain ⟨_, _, hdo, hg, hhs, _⟩ := Rule.new_ok hnew
  have hl : (pat.getLast? == some '/') = false := by simpa using hend
  rw [hl] at hdo hg
  simp only [Bool.false_eq_true, if_false] at hg
  rw [hg, hpat] at hhs
  rw [Rule.matches_fullpath r p d hhs hdo]
  exact globMatch_iff_of_wf r.toks (Rule.new_wf hnew) _

/-- A pattern ending in `/` (other than the bare `*/`) matches directories together with their
    whole subtree: an entry matches iff some directory on its path — the entry itself if it is a
    directory, or one of its proper ancestors — is matched by the pattern (by base name, or by
    full path when the pattern contains another `/`). -/
theorem rule_dironly_subtree (incl : Bool) (pat : List Char) (r : Rule) (p : RelPath) (d : Bool)
    (hnew : Rule.new incl pat = .ok r) (hend : pat.getLast? = some '/')
    (hstar : trimEndSlash pat ≠ ['*']) (hp : CleanPath p) (hne : p ≠ []) :
    r.matches p d = true ↔
      ∃ k, 0 < k ∧ k ≤ p.length ∧ (k = p.length → d = true) ∧ r.matchesDirPath (p.take k) = true := by
  obtain ⟨_, _, hdo, hg, _, _⟩ := Rule.new_ok hnew
  have hl : (pat.getLast? == some '/') = true := by simp [hend]
  rw [hl] at hdo hg
  simp only [if_true] at hg
  exact Rule.matches_dironly r p d hdo (by rw [hg]; exact hstar) hp hne

/-- … hence closed under descending: if the rule matches the directory `q`, it matches every
    entry below `q` (and `q` itself as a directory).  PARTIAL: not for the bare `*/`. -/
theorem rule_dironly_subtree_closed_partial (incl : Bool) (pat : List Char) (r : Rule)
    (q p : RelPath) (d : Bool)
    (hnew : Rule.new incl pat = .ok r) (hend : pat.getLast? = some '/')
    (hstar : trimEndSlash pat ≠ ['*']) (hp : CleanPath p) (hq : q ≠ [])
    (hpre : q <+: p) (hself : q = p → d = true)
    (hm : r.matches q true = true) : r.matches p d = true := by
  have hne : p ≠ [] := by
    intro e; subst e; exact hq (List.prefix_nil.mp hpre)
  have hcq : CleanPath q := fun n hn => hp n (hpre.subset hn)
  obtain ⟨k, hk0, hkl, _, hmk⟩ :=
    (rule_dironly_subtree incl pat r q true hnew hend hstar hcq hq).mp hm
  have hlen : q.length ≤ p.length := hpre.length_le
  have htake : p.take k = q.take k := by
    obtain ⟨t, rfl⟩ := hpre
    rw [List.take_append_of_le_length hkl]
  refine (rule_dironly_subtree incl pat r p d hnew hend hstar hp hne).mpr
    ⟨k, hk0, by omega, ?_, by rw [htake]; exact hmk⟩
  intro hkp
  apply hself
  have : q.length = p.length := by omega
  exact hpre.eq_of_length this

/-- The bare `*/` (README: "`+ */` … only .rs files in all directories", "`*/` to include all
    directories") matches every directory and nothing else. -/
theorem rule_star_slash (incl : Bool) (pat : List Char) (r : Rule) (p : RelPath) (d : Bool)
    (hnew : Rule.new incl pat = .ok r) (hend : pat.getLast? = some '/')
    (hstar : trimEndSlash pat = ['*']) :
    r.matches p d = (d && !p.isEmpty) := by
  obtain ⟨_, _, hdo, hg, hhs, hparse⟩ := Rule.new_ok hnew
  have hl : (pat.getLast? == some '/') = true := by simp [hend]
  rw [hl] at hdo hg
  simp only [if_true] at hg
  rw [hstar] at hg
  have hhs' : r.hasSlash = false := by rw [hhs, hg]; decide
  have htoks : r.toks = [.anySeq] := by
    rw [hg] at hparse
    have : parse ['*'] = .ok [.anySeq] := rfl
    rw [this] at hparse; exact (Except.ok.inj hparse).symm
  rw [Rule.matches_star_slash r p d hhs' hdo hg, htoks]
  congr 1
  unfold matchesBase fileName
  cases hb : p.getLast? with
  | none =>
    have : p = [] := List.getLast?_eq_none_iff.mp hb
    simp [this]
  | some b =>
    have hpne : p ≠ [] := by intro e; simp [e] at hb
    have : globMatch [.anySeq] b = true :=
      (globMatch_iff_of_wf _ (by decide) b).mpr (by simpa using Matches.seq b Matches.nil)
    simp [this, hpne]

/-- The rule compiled from `*/`. -/
def starSlashRule : Rule :=
  { isInclude := true, patternStr := ['*', '/'], glob := ['*'], toks := [.anySeq],
    hasSlash := false, dirOnly := true }

/-- COUNTEREXAMPLE to "patterns ending in '/' match directories together with their whole
    subtree": `*/` matches the directory `d` but not the file `d/x` below it. With
    `--filter='+ */' --filter='- *'` the real binary creates the directories and transfers no
    file (documented in README.md as the intended behaviour). -/
theorem rule_dironly_subtree_closed_counterexample_star_slash :
    Rule.new true ['*', '/'] = .ok starSlashRule ∧
    starSlashRule.matches [['d']] true = true ∧
    starSlashRule.matches [['d'], ['x']] false = false ∧
    shouldInclude [starSlashRule, { starSlashRule with isInclude := false, patternStr := ['*'], dirOnly := false }]
      [['d'], ['x']] false = false := by
  refine ⟨rfl, by decide, by decide, by decide⟩

/-! ### first match wins, default include, rule order -/

/-- `should_include` is the action of the first rule that matches; with no matching rule the
    entry is included. -/
theorem first_match_wins (rs : List Rule) (p : RelPath) (d : Bool) :
    shouldInclude rs p d =
      match rs.find? (fun r => r.matches p d) with
      | some r => r.isInclude
      | none => true :=
  shouldInclude_eq rs p d

theorem default_include (rs : List Rule) (p : RelPath) (d : Bool)
    (h : ∀ r ∈ rs, r.matches p d = false) : shouldInclude rs p d = true := by
  rw [first_match_wins]
  have : rs.find? (fun r => r.matches p d) = none := by
    rw [List.find?_eq_none]; intro r hr; simp [h r hr]
  rw [this]

/-- The rule list the process builds (src/main.rs:209-333), as (action, pattern text) keys:
    `--filter` rules in the order given (blank / comment rules contribute nothing), then the
    `--include` patterns, then the `--exclude` patterns, then the lines of `--include-from`, of
    `--exclude-from`, of every template (up to its first bad line) and of `.syignore` (likewise).
    Every rule is `FilterRule::new` of its own key. -/
theorem rule_order (c : RuleSources) (rs : List Rule) (h : buildRules c = .ok rs) :
    rs.map Rule.key =
      c.filters.flatMap specKey ++ c.includes.map (fun p => (true, p)) ++
      c.excludes.map (fun p => (false, p)) ++
      (c.includeFrom.getD []).flatMap (patLineKey true) ++
      (c.excludeFrom.getD []).flatMap (patLineKey false) ++
      c.templates.flatMap (fun ls => (ls.takeWhile lineOk).flatMap specKey) ++
      ((c.syignore.getD []).takeWhile lineOk).flatMap specKey
    ∧ ∀ r ∈ rs, Rule.new r.isInclude r.patternStr = .ok r := by
  unfold buildRules at h
  split at h
  · cases h
  rename_i r1 h1
  split at h
  · cases h
  rename_i r2 h2
  split at h
  · cases h
  rename_i r3 h3
  split at h
  · cases h
  rename_i r4 h4
  split at h
  · cases h
  rename_i r5 h5
  simp only at h
  obtain ⟨k1, c1⟩ := addAll_keys addRule specKey (fun _ _ _ hh => addRule_keys hh) _ _ _ h1
  obtain ⟨k2, c2⟩ := addAll_keys (fun rs p => addPattern rs true p) (fun p => [(true, p)])
    (fun rs rs' x hh => by
      obtain ⟨r, rfl, hr, hk⟩ := addPattern_ok hh
      exact ⟨by simp [hk], fun hc => compiled_append_new hc hr⟩) _ _ _ h2
  obtain ⟨k3, c3⟩ := addAll_keys (fun rs p => addPattern rs false p) (fun p => [(false, p)])
    (fun rs rs' x hh => by
      obtain ⟨r, rfl, hr, hk⟩ := addPattern_ok hh
      exact ⟨by simp [hk], fun hc => compiled_append_new hc hr⟩) _ _ _ h3
  have k4 : r4.map Rule.key = r3.map Rule.key ++ (c.includeFrom.getD []).flatMap (patLineKey true)
      ∧ (Compiled r3 → Compiled r4) := by
    cases hif : c.includeFrom with
    | none => rw [hif] at h4; simp only [addAllOpt] at h4; cases h4; simp
    | some ls =>
      rw [hif] at h4; simp only [addAllOpt] at h4
      exact addAll_keys _ _ (fun _ _ _ hh => addPatternLine_keys hh) _ _ _ h4
  have k5 : r5.map Rule.key = r4.map Rule.key ++ (c.excludeFrom.getD []).flatMap (patLineKey false)
      ∧ (Compiled r4 → Compiled r5) := by
    cases hif : c.excludeFrom with
    | none => rw [hif] at h5; simp only [addAllOpt] at h5; cases h5; simp
    | some ls =>
      rw [hif] at h5; simp only [addAllOpt] at h5
      exact addAll_keys _ _ (fun _ _ _ hh => addPatternLine_keys hh) _ _ _ h5
  obtain ⟨k6, c6⟩ := foldl_lenient_keys c.templates r5
  have hc5 : Compiled r5 := k5.2 (k4.2 (c3 (c2 (c1 (by intro r hr; cases hr)))))
  cases hs : c.syignore with
  | none =>
    rw [hs] at h; simp only at h; cases h
    refine ⟨?_, c6 hc5⟩
    rw [k6, k5.1, k4.1, k3, k2, k1]
    simp [flatMap_single]
  | some ls =>
    rw [hs] at h; simp only at h; cases h
    obtain ⟨k7, c7⟩ := addAllLenient_keys ls
      (c.templates.foldl (fun rs ls => addAllLenient addRule rs ls) r5)
    refine ⟨?_, c7 (c6 hc5)⟩
    rw [k7, k6, k5.1, k4.1, k3, k2, k1]
    simp [flatMap_single]

/-- … for the three repeatable flags alone: the property's sentence verbatim. -/
theorem rule_order_cli (f i x : List (List Char)) (rs : List Rule)
    (h : buildRules { filters := f, includes := i, excludes := x } = .ok rs) :
    rs.map Rule.key =
      f.flatMap specKey ++ i.map (fun p => (true, p)) ++ x.map (fun p => (false, p)) := by
  have := (rule_order _ rs h).1
  simpa using this

/-! ### the scan filter -/

/-- `--min-size` / `--max-size`: an entry passes iff its size is within the inclusive bounds. -/
theorem size_bounds (cfg : FilterCfg) (size : Nat) :
    filterBySize cfg size = false ↔
      (∀ mn, cfg.minSize = some mn → mn ≤ size) ∧ (∀ mx, cfg.maxSize = some mx → size ≤ mx) := by
  unfold filterBySize
  cases cfg.minSize <;> cases cfg.maxSize <;> simp <;> omega

/-- What the code does, exactly, for ANY scan order: an entry is kept iff the rules include it,
    no directory *listed before it* that is a path prefix of it is excluded by the rules, and
    (unless it is a directory) its size is within the bounds. -/
theorem scanFilter_exact (cfg : FilterCfg) (scan : List Entry) (e : Entry) :
    e ∈ scanFilter cfg scan ↔
      ∃ l1 l2, scan = l1 ++ e :: l2 ∧
        shouldInclude cfg.rules e.rel e.isDir = true ∧
        (∀ a ∈ l1, a.isDir = true → a.rel <+: e.rel → shouldInclude cfg.rules a.rel a.isDir = true) ∧
        (e.isDir = true ∨ filterBySize cfg e.size = false) := by
  rw [scanFilter_eq_specList, mem_specList]
  simp only [List.nil_append]
  constructor
  · rintro ⟨l1, l2, hs, hk⟩
    refine ⟨l1, l2, hs, ?_⟩
    unfold keptSpec at hk
    simp only [Bool.and_eq_true, Bool.or_eq_true, Bool.not_eq_true'] at hk
    refine ⟨hk.1.2, ?_, hk.2⟩
    intro a ha hd hp
    cases hi : shouldInclude cfg.rules a.rel a.isDir
    · have : ancOk cfg.rules l1 e = false := (ancOk_false_iff _ _ _).mpr ⟨a, ha, hd, hp, hi⟩
      rw [hk.1.1] at this; cases this
    · rfl
  · rintro ⟨l1, l2, hs, hi, hanc, hsz⟩
    refine ⟨l1, l2, hs, ?_⟩
    unfold keptSpec
    simp only [Bool.and_eq_true, Bool.or_eq_true, Bool.not_eq_true']
    refine ⟨⟨?_, hi⟩, hsz⟩
    cases hok : ancOk cfg.rules l1 e
    · obtain ⟨a, ha, hd, hp, hia⟩ := (ancOk_false_iff _ _ _).mp hok
      rw [hanc a ha hd hp] at hia; cases hia
    · rfl

/-- THE FILTER, under the scan-order assumption `ParentsFirst` (what the walker guarantees):
    an entry is kept iff it is in the scan, the rules include it, no directory of the scan that
    is a path prefix of it (its ancestors — and itself) is excluded by the rules, and, unless it
    is a directory, its size is within `--min-size` / `--max-size`. -/
theorem scanFilter_spec (cfg : FilterCfg) (scan : List Entry) (e : Entry) (h : ParentsFirst scan) :
    e ∈ scanFilter cfg scan ↔
      e ∈ scan ∧
      shouldInclude cfg.rules e.rel e.isDir = true ∧
      (∀ a ∈ scan, a.isDir = true → a.rel <+: e.rel → shouldInclude cfg.rules a.rel a.isDir = true) ∧
      (e.isDir = true ∨ filterBySize cfg e.size = false) := by
  rw [scanFilter_exact]
  constructor
  · rintro ⟨l1, l2, hs, hi, hanc, hsz⟩
    refine ⟨by rw [hs]; simp, hi, ?_, hsz⟩
    intro a ha hd hp
    rw [hs] at ha
    rcases List.mem_append.mp ha with ha | ha
    · exact hanc a ha hd hp
    · rcases List.mem_cons.mp ha with rfl | ha
      · exact hi
      · exact absurd hp (h l1 e l2 hs a ha)
  · rintro ⟨hmem, hi, hanc, hsz⟩
    obtain ⟨l1, l2, hs⟩ := List.append_of_mem hmem
    refine ⟨l1, l2, hs, hi, ?_, hsz⟩
    intro a ha hd hp
    exact hanc a (by rw [hs]; exact List.mem_append_left _ ha) hd hp

/-- Consequently the outcome does not depend on the order in which the walker yields siblings:
    two parents-first listings of the same entries keep the same entries. -/
theorem scanFilter_perm (cfg : FilterCfg) (s1 s2 : List Entry) (e : Entry)
    (h1 : ParentsFirst s1) (h2 : ParentsFirst s2) (hp : s1.Perm s2) :
    e ∈ scanFilter cfg s1 ↔ e ∈ scanFilter cfg s2 := by
  rw [scanFilter_spec cfg s1 e h1, scanFilter_spec cfg s2 e h2]
  constructor
  · rintro ⟨hm, hi, ha, hs⟩
    exact ⟨hp.mem_iff.mp hm, hi, fun a ham => ha a (hp.mem_iff.mpr ham), hs⟩
  · rintro ⟨hm, hi, ha, hs⟩
    exact ⟨hp.mem_iff.mpr hm, hi, fun a ham => ha a (hp.mem_iff.mp ham), hs⟩

/-- Nothing is invented or reordered: the kept list is a sublist of the scan, so an entry that is
    filtered out never reaches planning or transfer. -/
theorem scanFilter_sublist (cfg : FilterCfg) (scan : List Entry) :
    (scanFilter cfg scan).Sublist scan := by
  rw [scanFilter_eq_specList]; exact specList_sublist cfg scan []

/-- `ParentsFirst` cannot be dropped: listed *before* its excluded parent a child is kept
    (`--exclude d` matches the directory `d` only, its content is dropped through `excluded_dirs`;
    the code relies on the walker's order; `scanFilter_exact` is what holds in general). -/
theorem scanFilter_spec_needs_parents_first :
    let excl : Rule := { isInclude := false, patternStr := ['d'], glob := ['d'],
                         toks := [.char 'd'], hasSlash := false, dirOnly := false }
    let cfg : FilterCfg := { rules := [excl] }
    let child : Entry := { rel := [['d'], ['x']], isDir := false, size := 1 }
    let parent : Entry := { rel := [['d']], isDir := true, size := 0 }
    Rule.new false ['d'] = .ok excl ∧
    child ∈ scanFilter cfg [child, parent] ∧ child ∉ scanFilter cfg [parent, child] ∧
    ¬ ParentsFirst [child, parent] := by
  refine ⟨rfl, by decide, by decide, by decide⟩

/-! ### what is handed to the transfer step: directory sources and single-file sources -/

/-- PARTIAL (`filtered_never_transferred` for directory sources): what reaches the transfer step
    of `SyncEngine::sync` is exactly the set the property describes. -/
theorem transferSet_partial (cfg : FilterCfg) (scan : List Entry) (e : Entry) (h : ParentsFirst scan) :
    e ∈ transferSet cfg (.dir scan) ↔
      e ∈ scan ∧
      shouldInclude cfg.rules e.rel e.isDir = true ∧
      (∀ a ∈ scan, a.isDir = true → a.rel <+: e.rel → shouldInclude cfg.rules a.rel a.isDir = true) ∧
      (e.isDir = true ∨ filterBySize cfg e.size = false) :=
  scanFilter_spec cfg scan e h

/-- Single-file sources (`sync_single_file`): the file is handed to the transfer step iff the rule
    list includes its name and its size is within the bounds (fixed finding
    `C16/single-file-source-unfiltered`). -/
theorem transferSet_single_file (cfg : FilterCfg) (e x : Entry) :
    x ∈ transferSet cfg (.singleFile e) ↔
      x = e ∧ shouldInclude cfg.rules e.rel false = true ∧ filterBySize cfg e.size = false := by
  unfold transferSet
  cases h1 : shouldInclude cfg.rules e.rel false <;> cases h2 : filterBySize cfg e.size <;> simp_all

/-- regression witness of the fixed finding: `sy s/a.log d/a.log --exclude '*.log'` and
    `--max-size 2` (6-byte file) transfer nothing. -/
theorem transferSet_single_file_witness :
    let excl : Rule := { isInclude := false, patternStr := ['*', '.', 'l', 'o', 'g'],
                         glob := ['*', '.', 'l', 'o', 'g'],
                         toks := [.anySeq, .char '.', .char 'l', .char 'o', .char 'g'],
                         hasSlash := false, dirOnly := false }
    let e : Entry := { rel := [['a', '.', 'l', 'o', 'g']], isDir := false, size := 6 }
    Rule.new false ['*', '.', 'l', 'o', 'g'] = .ok excl ∧
    transferSet { rules := [excl] } (.singleFile e) = [] ∧
    transferSet { rules := [], maxSize := some 2 } (.singleFile e) = [] ∧
    transferSet { rules := [excl], maxSize := some 2 }
      (.singleFile { e with rel := [['a', '.', 't', 'x', 't']], size := 2 }) =
        [{ e with rel := [['a', '.', 't', 'x', 't']], size := 2 }] := by
  refine ⟨by decide, by decide, by decide, by decide⟩

/-- C16, composed: the rule list the process builds is `--filter` (in order), `--include`,
    `--exclude`, …; and with that list, under `ParentsFirst`, an entry of the scan is kept (handed
    to planning/transfer) iff the first rule that matches it is an include rule or no rule
    matches, the same holds for every directory of the scan above it, and its size lies within
    the bounds (directories are exempt). -/
theorem C16 (c : RuleSources) (rs : List Rule) (mn mx : Option Nat) (scan : List Entry)
    (hb : buildRules c = .ok rs) (hpf : ParentsFirst scan) :
    (∃ tail, rs.map Rule.key =
      c.filters.flatMap specKey ++ c.includes.map (fun p => (true, p)) ++
      c.excludes.map (fun p => (false, p)) ++ tail) ∧
    ∀ e, e ∈ scanFilter { rules := rs, minSize := mn, maxSize := mx } scan ↔
      e ∈ scan ∧
      (∀ a ∈ scan, a.isDir = true → a.rel <+: e.rel →
        (match rs.find? (fun r => r.matches a.rel a.isDir) with
         | some r => r.isInclude
         | none => true) = true) ∧
      (match rs.find? (fun r => r.matches e.rel e.isDir) with
       | some r => r.isInclude
       | none => true) = true ∧
      (e.isDir = true ∨
        ((∀ m, mn = some m → m ≤ e.size) ∧ (∀ m, mx = some m → e.size ≤ m))) := by
  refine ⟨⟨_, by rw [(rule_order c rs hb).1]; simp only [List.append_assoc]; rfl⟩, fun e => ?_⟩
  rw [scanFilter_spec _ scan e hpf]
  simp only [first_match_wins, size_bounds]
  constructor
  · rintro ⟨h1, h2, h3, h4⟩; exact ⟨h1, h3, h2, h4⟩
  · rintro ⟨h1, h2, h3, h4⟩; exact ⟨h1, h3, h2, h4⟩

/-! ### non-vacuity: every hypothesis above is satisfiable by a concrete, non-trivial instance -/

/-- `parse p = .ok toks` (hypothesis of `glob_matches_iff`): `a/**/*.b?` parses, with every kind of
    wildcard token. -/
example : parse ['a', '/', '*', '*', '/', '*', '.', 'b', '?', '[', '!', 'x', ']'] =
    .ok [.char 'a', .char '/', .anyRecSeq, .anySeq, .char '.', .char 'b', .anyChar,
         .anyExcept [.single 'x']] := by decide

/-- `WF toks`, and both sides of `glob_matches_iff` hold on a string that needs backtracking. -/
example : WF [.char 'a', .char '/', .anyRecSeq, .anySeq, .char '.', .char 'b'] ∧
    globMatch [.char 'a', .char '/', .anyRecSeq, .anySeq, .char '.', .char 'b'] ['a', '/', 'x', '/', 'y', '.', 'a', '.', 'b'] = true := by
  refine ⟨by decide, by decide⟩

/-- `Rule.new … = .ok r` with `pat.contains '/' = false` (`rule_basename`). -/
example : ∃ r, Rule.new false ['*', '.', 'l', 'o', 'g'] = .ok r ∧ ['*', '.', 'l', 'o', 'g'].contains '/' = false ∧
    r.matches [['d'], ['a', '.', 'l', 'o', 'g']] false = true := ⟨_, rfl, by decide, by decide⟩

/-- hypotheses of `rule_fullpath`. -/
example : ∃ r, Rule.new false ['d', '/', '*', '.', 'l', 'o', 'g'] = .ok r ∧ ['d', '/', '*', '.', 'l', 'o', 'g'].contains '/' = true ∧
    ['d', '/', '*', '.', 'l', 'o', 'g'].getLast? ≠ some '/' ∧
    r.matches [['d'], ['a', '.', 'l', 'o', 'g']] false = true := ⟨_, rfl, by decide, by decide, by decide⟩

/-- hypotheses of `rule_dironly_subtree` / `rule_dironly_subtree_closed_partial`: `build/` on
    `build` (directory) and `build/sub/x.o` (file below it). -/
example : ∃ r, Rule.new false ['b', 'u', 'i', 'l', 'd', '/'] = .ok r ∧ ['b', 'u', 'i', 'l', 'd', '/'].getLast? = some '/' ∧
    trimEndSlash ['b', 'u', 'i', 'l', 'd', '/'] ≠ ['*'] ∧
    CleanPath [['b', 'u', 'i', 'l', 'd'], ['s', 'u', 'b'], ['x', '.', 'o']] ∧
    [['b', 'u', 'i', 'l', 'd']] <+: [['b', 'u', 'i', 'l', 'd'], ['s', 'u', 'b'], ['x', '.', 'o']] ∧
    r.matches [['b', 'u', 'i', 'l', 'd']] true = true ∧
    r.matches [['b', 'u', 'i', 'l', 'd'], ['s', 'u', 'b'], ['x', '.', 'o']] false = true :=
  ⟨_, rfl, by decide, by decide, by decide, by decide, by decide, by decide⟩

/-- hypotheses of `rule_star_slash`. -/
example : Rule.new true ['*', '/'] = .ok starSlashRule ∧ ['*', '/'].getLast? = some '/' ∧
    trimEndSlash ['*', '/'] = ['*'] := ⟨rfl, by decide, by decide⟩

/-- `buildRules c = .ok rs` (`rule_order`, `C16`) with all three flags used; the resulting order is
    filter, include, exclude. -/
example : ∃ rs, buildRules { filters := [['+', ' ', 'a'], ['#', ' ', 'c'], ['-', ' ', 'b', '/']],
                             includes := [['*', '.', 'r', 's']], excludes := [['*']] } = .ok rs ∧
    rs.map Rule.key = [(true, ['a']), (false, ['b', '/']), (true, ['*', '.', 'r', 's']), (false, ['*'])] :=
  ⟨_, rfl, by decide⟩

/-- `ParentsFirst scan` (`scanFilter_spec`, `scanFilter_perm`, `C16`) on a scan with a directory,
    entries below it and a sibling — in two different sibling orders. -/
example :
    let d : Entry := { rel := [['d']], isDir := true, size := 0 }
    let dx : Entry := { rel := [['d'], ['x']], isDir := false, size := 3 }
    let a : Entry := { rel := [['a']], isDir := false, size := 5 }
    ParentsFirst [d, dx, a] ∧ ParentsFirst [a, d, dx] ∧ [d, dx, a].Perm [a, d, dx] := by
  refine ⟨by decide, by decide, by decide⟩

/-- `default_include`'s hypothesis: a non-empty rule list none of whose rules matches. -/
example : ∃ r, Rule.new false ['*', '.', 'l', 'o', 'g'] = .ok r ∧ (∀ x ∈ [r], x.matches [['a']] false = false) ∧
    shouldInclude [r] [['a']] false = true := ⟨_, rfl, by decide, by decide⟩

end SyModel.Props.C16
