/-
  C18 — Caches and databases never change the outcome.
  Property theorems only.
-/
import SyModel.Engine.Caches
import SyModel.Lemmas.Engine
import SyModel.Generated.Consts
namespace SyModel.Props.C18
open SyModel SyModel.Engine

/-- the engine never saves resume state (no `.save(` on a ResumeState in sync/mod.rs), so a state
    file can only be one that fails the integrity / compatibility checks or a hand-made one -/
theorem consts_ok_resume_never_saved : Generated.RESUME_SAVE_CALLS_IN_ENGINE = 0 := by decide

/-- the root key of the substitution test is the literal `"."` and cache keys come from scanned
    relative paths only (regenerated from src/sync/mod.rs) -/
theorem consts_ok_cache_root_key : Generated.DIRCACHE_ROOT_KEY = "." := by decide

/-- a database row is believed only when path, mtime (seconds AND nanoseconds) and size all match
    (the WHERE clause of `get_checksum`, regenerated from src/sync/checksumdb.rs): `Db.lookup`
    compares the full nanosecond mtime and the size -/
theorem consts_ok_db_lookup_guards :
    Generated.CHECKSUMDB_LOOKUP_GUARDS = "path = ?1 AND mtime_secs = ?2 AND mtime_nanos = ?3 AND size = ?4" := by
  decide

/-- the row stored at the end of a run under the source file's (path, mtime, size) carries the checksum of that same
    SOURCE file (`Db.store` files `contentOf` the scanned entry), whatever happened to its transfer — regenerated from
    the store block of src/sync/mod.rs (seeded change C18b hashed the destination copy instead) -/
theorem consts_ok_db_store_hashes_source : Generated.CHECKSUMDB_STORE_HASHED_FILE = "&file.path" := by decide

/-! ### directory cache: the substitution is unreachable -/

/-- one more run: the cache is updated from that run's scan -/
def cacheAfter : DirCache → List (List SEntry) → DirCache
  | c, [] => c
  | c, scan :: rest => cacheAfter (c.update scan) rest

/-- **The root is never cached**: over any history of runs starting from an empty, absent,
    unparsable or version-mismatched cache file, the root key never enters the cache. -/
theorem root_never_cached (h : List (List SEntry)) (hs : ∀ scan ∈ h, NoDotRels scan)
    (c : DirCache) (hc : rootKey ∉ c.dirs) : rootKey ∉ (cacheAfter c h).dirs := by
  induction h generalizing c with
  | nil => exact hc
  | cons scan rest ih =>
    apply ih (fun s hs' => hs s (List.mem_cons_of_mem _ hs'))
    simp only [DirCache.update, List.mem_append, List.mem_map, List.mem_filter, not_or]
    refine ⟨hc, ?_⟩
    rintro ⟨e, ⟨he, _⟩, hrel⟩
    exact hs scan (List.mem_cons_self ..) e he hrel

/-- … hence the cached scan is never substituted for the real one. -/
theorem cache_never_substitutes (h : List (List SEntry)) (hs : ∀ scan ∈ h, NoDotRels scan) :
    (cacheAfter DirCache.loadDamaged h).canUse = false := by
  have := root_never_cached h hs DirCache.loadDamaged (by simp [DirCache.loadDamaged, DirCache.empty])
  simpa [DirCache.canUse] using this

/-! ### checksum database: a hit returns the checksum of the current content -/

/-- With truthful rows the planner decides exactly as without the database. -/
theorem db_hit_correct (cfg : Cfg) (db : Db) (dst : Map DNode) (scan : List SEntry)
    (ht : RowsTruthful db scan) : ∀ e ∈ scan, planEntryDb cfg db dst e = planEntry cfg dst e := by
  intro e he
  unfold planEntryDb
  cases hk : e.kind with
  | dir => rfl
  | symlink t g => rfl
  | file m n =>
    simp only
    have hseen : seenContent db e.rel m = m.content := by
      unfold seenContent
      cases hl : db.lookup e.rel m.mtime m.size with
      | none => rfl
      | some ck => exact ht e he m n hk ck hl
    rw [hseen]
    simp only [planEntry, hk]

/-- Rows written by a run are truthful for the tree they were written from (distinct paths). -/
theorem stored_rows_truthful (db : Db) (scan : List SEntry) (hu : (scan.map (·.rel)).Nodup) :
    RowsTruthful (db.storeAll scan) scan := by
  -- generalised: rows for the already processed prefix are truthful and later entries do not touch them
  suffices h : ∀ (done todo : List SEntry) (d : Db), scan = done ++ todo →
      (∀ e ∈ done, ∀ m n, e.kind = .file m n → d.get? e.rel = some ⟨m.mtime, m.size, m.content⟩) →
      ∀ e ∈ done ++ todo, ∀ m n, e.kind = .file m n →
        (Db.storeAll d todo).get? e.rel = some ⟨m.mtime, m.size, m.content⟩ by
    intro e he m n hk ck hl
    have := h [] scan db rfl (by intro e he; cases he) e (by simpa using he) m n hk
    unfold Db.lookup at hl
    rw [this] at hl
    simp at hl
    exact hl.symm
  intro done todo
  induction todo generalizing done with
  | nil => intro d _ hd e he m n hk; simp at he; simpa [Db.storeAll] using hd e he m n hk
  | cons a rest ih =>
    intro d hsplit hd e he m n hk
    have hnod : ((done ++ a :: rest).map (·.rel)).Nodup := hsplit ▸ hu
    -- process `a`
    have hstep : Db.storeAll d (a :: rest) = Db.storeAll (Db.store1 d a) rest := rfl
    rw [hstep]
    apply ih (done ++ [a]) _ (by simpa using hsplit) _ e (by simpa using he) m n hk
    intro e' he' m' n' hk'
    rcases List.mem_append.mp he' with hin | hin
    · -- an earlier entry: its row is untouched by `a` (different path)
      have hne : a.rel ≠ e'.rel := by
        intro heq
        have := hnod
        rw [List.map_append, List.nodup_append] at this
        exact this.2.2 e'.rel (List.mem_map.mpr ⟨e', hin, rfl⟩) a.rel (by simp) heq.symm
      unfold Db.store1
      cases hak : a.kind with
      | file ma na => simp only; rw [Map.get?_set_ne _ _ _ _ hne]; exact hd e' hin m' n' hk'
      | dir => exact hd e' hin m' n' hk'
      | symlink t g => exact hd e' hin m' n' hk'
    · simp at hin; subst hin
      unfold Db.store1
      rw [hk']; simp

/-- Edits made with a forward-moving clock keep every matching row truthful: an edited file gets
    an mtime newer than anything recorded for it, so its stale row no longer matches. -/
theorem edit_keeps_rows_truthful (db : Db) (scan scan' : List SEntry)
    (ht : RowsTruthful db scan)
    (hedit : ∀ e' ∈ scan', ∀ m' n', e'.kind = .file m' n' →
      (∃ e ∈ scan, e.rel = e'.rel ∧ e.kind = .file m' n') ∨
      (∀ r, db.get? e'.rel = some r → r.mtime < m'.mtime)) :
    RowsTruthful db scan' := by
  intro e' he' m' n' hk' ck hl
  rcases hedit e' he' m' n' hk' with ⟨e, he, hrel, hk⟩ | hnew
  · exact ht e he m' n' hk ck (hrel ▸ hl)
  · unfold Db.lookup at hl
    cases hg : db.get? e'.rel with
    | none => simp [hg] at hl
    | some r =>
      simp only [hg] at hl
      split at hl
      · rename_i hm; have := hnew r hg; omega
      · cases hl

/-- **C18 (checksum database)**: whatever the database holds, if its rows are truthful for the
    current source — which every run establishes and every forward-clock edit preserves — the plan,
    and therefore the whole run, is the one made without the database. -/
theorem C18_db_plan_eq (cfg : Cfg) (db : Db) (dst : Map DNode) (scan : List SEntry)
    (ht : RowsTruthful db (scanFilter cfg scan)) :
    (scanFilter cfg scan).map (planEntryDb cfg db dst) = (scanFilter cfg scan).map (planEntry cfg dst) := by
  apply List.map_congr_left
  intro e he
  exact db_hit_correct cfg db dst _ ht e he

/-- The full statement fails when an edit *restores* an earlier (mtime, size) pair with different
    content without a sync in between: the stale row matches again (finding
    `C18/checksumdb-stale-row-after-mtime-restored`). -/
theorem db_hit_correct_counterexample_mtime_restored :
    let db : Db := [(["f"], ⟨100, 3, 1⟩)]                   -- row written when `f` held content 1
    let m : FileMeta := { content := 2, size := 3, mtime := 100, xattrs := [], ino := 7 }   -- now content 2, same mtime+size
    seenContent db ["f"] m = 1 ∧ m.content = 2 := by
  decide

/-! ### non-vacuity -/

def exScan : List SEntry :=
  [{ rel := ["sub"], kind := .dir, size := 4096, excluded := false },
   { rel := ["sub", "a"], kind := .file { content := 5, size := 3, mtime := 9, xattrs := [], ino := 1 } 1, size := 3, excluded := false }]

example : NoDotRels exScan := by intro e he; simp [exScan] at he; rcases he with rfl | rfl <;> decide
example : (cacheAfter DirCache.loadDamaged [exScan, exScan]).dirs = [["sub"], ["sub"]] := by decide
example : RowsTruthful (Db.storeAll [] exScan) exScan := stored_rows_truthful [] exScan (by decide)

end SyModel.Props.C18
