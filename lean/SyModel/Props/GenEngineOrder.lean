/-
  GenEngineOrder — the ORDER in which `SyncEngine::sync` (src/sync/mod.rs) hands its tasks to the workers, TRANSLATED on every run
  into `SyModel/Generated/Code/EngineOrder.lean`:

    * `replacements_first` — `tasks.sort_by_key(|t| !replaced_links.contains(&t.dest_path)); let mut deletions_first = replaced_links.len();`
    * `order_deletions`    — with `--delete`: `let working_files = …; let (mut first, rest) = deletions.into_iter().partition(…);
                              deletions_first += first.len(); first.append(&mut tasks); tasks = first; tasks.extend(rest);`

  The worker loop completes the first `deletions_first` tasks before it starts any other (`if task_index == deletions_first &&
  !handles.is_empty() { join_all(handles.drain(..)) }`, not translated: glue).  What the properties need of this code, proved here
  about the TRANSLATION, for ANY naming function `working_file_path` and any lists:

    * nothing is lost, nothing is invented, nothing is duplicated (`replacements_first_perm`, `order_deletions_perm`,
      `final_order_perm`) — C01 / C06: every planned transfer and every planned deletion reaches a worker exactly once;
    * both fragments are stable: the planned tasks keep their relative (parents-first scan) order (`replacements_first_eq`,
      `order_deletions_eq`);
    * before the barrier lie EXACTLY the deletions at the working-file path of a planned create / update and the replacements of
      destination links (`final_order_eq`, `barrier_prefix`, `working_file_deletions_before_barrier`,
      `transfer_using_working_file_after_barrier`) — C05 / C06: a stale `<name>.sy.tmp` is gone before the transfer that reuses the
      path starts (repo fix 479e3d6; seeded change C06c removed exactly this), and every entry below a replaced link finds the real
      directory (repo fix 862af11);
    * neither fragment performs an operation of the world.
-/
import SyModel.Generated.Code.EngineOrder
namespace SyModel.Props.GenEngineOrder
open SyModel.Generated SyModel.Generated.EngineOrder

def runM {W α : Type} (x : Rs.M W α) (w : W) : Except Rs.Err α × W := x.run.run w

theorem runM_bind_ok {W α β : Type} (x : Rs.M W α) (f : α → Rs.M W β) (w w' : W) (a : α) (h : runM x w = (.ok a, w')) :
    runM (x >>= f) w = runM (f a) w' := by
  simp only [runM] at h ⊢
  simp only [ExceptT.run_bind, StateT.run_bind, h]
  rfl

theorem take_drop_shape {α : Type} (F R O D : List α) (n : Nat) (h : n = (F ++ R).length) :
    (F ++ (R ++ O) ++ D).take n = F ++ R ∧ (F ++ (R ++ O) ++ D).drop n = O ++ D := by
  subst h
  have hshape : F ++ (R ++ O) ++ D = (F ++ R) ++ (O ++ D) := by simp [List.append_assoc]
  rw [hshape]
  exact ⟨List.take_left, List.drop_left⟩

/-- is the task's destination one of the replaced links -/
def isRepl (replaced : List Rs.Path) (t : SyncTask) : Bool := replaced.contains t.dest_path

/-- is the task a transfer (create / update) -/
def isTransfer (t : SyncTask) : Bool := match t.action with | .Create | .Update => true | _ => false

/-- the working-file paths of the planned transfers -/
def workingFiles (wf : Rs.Path → Rs.Path) (tasks : List SyncTask) : List Rs.Path := (tasks.filter isTransfer).map (fun t => wf t.dest_path)

/-- is the deletion at the working-file path of a planned transfer -/
def atWorkingFile (wf : Rs.Path → Rs.Path) (tasks : List SyncTask) (d : SyncTask) : Bool := (workingFiles wf tasks).contains d.dest_path

/-! ### the two fragments, in closed form -/

/-- **`replacements_first`**: the replacement tasks in their planned order, then every other task in its planned order; the barrier
    index is the number of replaced links; no operation of the world -/
theorem replacements_first_eq {W : Type} (ext : Ext W) (tasks : List SyncTask) (replaced : List Rs.Path) (w : W) :
    runM (replacements_first ext tasks replaced) w =
      (.ok (replaced.length, tasks.filter (isRepl replaced) ++ tasks.filter (fun t => !isRepl replaced t)), w) := by
  unfold replacements_first
  simp only [Rs.sort_by_key_bool, Rs.contains, Rs.len, Bool.not_not]
  rfl

/-- **`order_deletions`**: the deletions at working-file paths, then the tasks as they were, then the other deletions; the barrier
    index grows by the number of the former; no operation of the world -/
theorem order_deletions_eq {W : Type} (ext : Ext W) (tasks deletions : List SyncTask) (n : Nat) (w : W) :
    runM (order_deletions ext tasks deletions n) w =
      (.ok ((), deletions.filter (atWorkingFile ext.temp_file_working_file_path tasks) ++ tasks ++
                  deletions.filter (fun d => !atWorkingFile ext.temp_file_working_file_path tasks d),
            n + (deletions.filter (atWorkingFile ext.temp_file_working_file_path tasks)).length), w) := by
  unfold order_deletions
  simp only [Rs.partition, Rs.contains, Rs.len, Rs.collect, Rs.map, Rs.filter]
  rfl

/-! ### nothing lost, nothing duplicated -/

theorem filter_split_perm {α : Type} (l : List α) (p : α → Bool) : (l.filter p ++ l.filter (fun a => !p a)).Perm l := by
  induction l with
  | nil => exact .nil
  | cons a l ih =>
    by_cases h : p a = true
    · simp only [List.filter_cons, h, if_true, Bool.not_true, Bool.false_eq_true, if_false, List.cons_append]
      exact .cons a ih
    · have h' : p a = false := by simpa using h
      simp only [List.filter_cons, h', Bool.false_eq_true, if_false, Bool.not_false, if_true]
      exact (List.perm_middle).trans (.cons a ih)

theorem replacements_first_perm {W : Type} (ext : Ext W) (tasks : List SyncTask) (replaced : List Rs.Path) (w : W) :
    ∃ ts, runM (replacements_first ext tasks replaced) w = (.ok (replaced.length, ts), w) ∧ ts.Perm tasks :=
  ⟨_, replacements_first_eq ext tasks replaced w, filter_split_perm tasks _⟩

theorem order_deletions_perm {W : Type} (ext : Ext W) (tasks deletions : List SyncTask) (n : Nat) (w : W) :
    ∃ ts m, runM (order_deletions ext tasks deletions n) w = (.ok ((), ts, m), w) ∧ ts.Perm (tasks ++ deletions) := by
  refine ⟨_, _, order_deletions_eq ext tasks deletions n w, ?_⟩
  have h := filter_split_perm deletions (atWorkingFile ext.temp_file_working_file_path tasks)
  -- F ++ T ++ R ~ T ++ F ++ R = T ++ (F ++ R) ~ T ++ D
  refine (List.Perm.append_right _ List.perm_append_comm).trans ?_
  rw [List.append_assoc]
  exact List.Perm.append_left _ h

/-! ### the composition as the engine runs it -/

/-- the two fragments in sequence (`--delete`), the barrier index threaded: glue = the hand-over of `tasks` and `deletions_first` -/
def finalOrder {W : Type} (ext : Ext W) (tasks deletions : List SyncTask) (replaced : List Rs.Path) : Rs.M W (List SyncTask × Nat) := do
  let r ← replacements_first ext tasks replaced
  let q ← order_deletions ext r.2 deletions r.1
  pure (q.2.1, q.2.2)

/-- the list handed to the workers and the barrier index, in closed form -/
theorem final_order_eq {W : Type} (ext : Ext W) (tasks deletions : List SyncTask) (replaced : List Rs.Path) (w : W) :
    let wf := ext.temp_file_working_file_path
    let sorted := tasks.filter (isRepl replaced) ++ tasks.filter (fun t => !isRepl replaced t)
    runM (finalOrder ext tasks deletions replaced) w =
      (.ok (deletions.filter (atWorkingFile wf sorted) ++ sorted ++ deletions.filter (fun d => !atWorkingFile wf sorted d),
            replaced.length + (deletions.filter (atWorkingFile wf sorted)).length), w) := by
  intro wf sorted
  have h1 := replacements_first_eq ext tasks replaced w
  have h2 := order_deletions_eq ext sorted deletions replaced.length w
  unfold finalOrder
  rw [runM_bind_ok _ _ _ _ _ h1, runM_bind_ok _ _ _ _ _ h2]
  rfl

theorem final_order_perm {W : Type} (ext : Ext W) (tasks deletions : List SyncTask) (replaced : List Rs.Path) (w : W) :
    ∃ ts m, runM (finalOrder ext tasks deletions replaced) w = (.ok (ts, m), w) ∧ ts.Perm (tasks ++ deletions) := by
  refine ⟨_, _, final_order_eq ext tasks deletions replaced w, ?_⟩
  have hs := filter_split_perm tasks (isRepl replaced)
  have hd := filter_split_perm deletions
    (atWorkingFile ext.temp_file_working_file_path (tasks.filter (isRepl replaced) ++ tasks.filter (fun t => !isRepl replaced t)))
  refine (List.Perm.append_right _ List.perm_append_comm).trans ?_
  rw [List.append_assoc]
  exact List.Perm.append hs hd

/-- the working-file paths do not depend on the order of the tasks (as a set) -/
theorem atWorkingFile_perm (wf : Rs.Path → Rs.Path) {a b : List SyncTask} (h : a.Perm b) (d : SyncTask) :
    atWorkingFile wf a d = atWorkingFile wf b d := by
  unfold atWorkingFile workingFiles
  have : ((a.filter isTransfer).map fun t => wf t.dest_path).Perm ((b.filter isTransfer).map fun t => wf t.dest_path) :=
    (h.filter _).map _
  rw [Bool.eq_iff_iff]
  simp only [List.contains_iff_mem]
  exact this.mem_iff

/-- **what lies before the barrier**: the first `barrier` tasks are exactly the deletions at working-file paths followed by the
    replacement tasks — provided each replaced link is the destination of exactly one planned task (the planning loop pushes the
    path once, when it plans that task: `GenEnginePlan`) -/
theorem barrier_prefix {W : Type} (ext : Ext W) (tasks deletions : List SyncTask) (replaced : List Rs.Path) (w : W)
    (hone : (tasks.filter (isRepl replaced)).length = replaced.length) :
    ∃ ts m, runM (finalOrder ext tasks deletions replaced) w = (.ok (ts, m), w) ∧
      ts.take m = deletions.filter (atWorkingFile ext.temp_file_working_file_path tasks) ++ tasks.filter (isRepl replaced) ∧
      ts.drop m = tasks.filter (fun t => !isRepl replaced t) ++
        deletions.filter (fun d => !atWorkingFile ext.temp_file_working_file_path tasks d) := by
  refine ⟨_, _, final_order_eq ext tasks deletions replaced w, ?_⟩
  have hp : ∀ d, atWorkingFile ext.temp_file_working_file_path
      (tasks.filter (isRepl replaced) ++ tasks.filter (fun t => !isRepl replaced t)) d =
      atWorkingFile ext.temp_file_working_file_path tasks d :=
    fun d => atWorkingFile_perm _ (filter_split_perm tasks _) d
  have e1 : (deletions.filter (atWorkingFile ext.temp_file_working_file_path
      (tasks.filter (isRepl replaced) ++ tasks.filter (fun t => !isRepl replaced t)))) =
      deletions.filter (atWorkingFile ext.temp_file_working_file_path tasks) := by
    congr 1; funext d; exact hp d
  have e2 : (deletions.filter (fun d => !atWorkingFile ext.temp_file_working_file_path
      (tasks.filter (isRepl replaced) ++ tasks.filter (fun t => !isRepl replaced t)) d)) =
      deletions.filter (fun d => !atWorkingFile ext.temp_file_working_file_path tasks d) := by
    congr 1; funext d; rw [hp d]
  simp only [e1, e2]
  exact take_drop_shape _ _ _ _ _ (by simp [hone, Nat.add_comm])

/-- **C05 / C06**: every planned deletion whose path is the working-file path of a planned create / update is handed out BEFORE the
    barrier … -/
theorem working_file_deletions_before_barrier {W : Type} (ext : Ext W) (tasks deletions : List SyncTask) (replaced : List Rs.Path)
    (w : W) (hone : (tasks.filter (isRepl replaced)).length = replaced.length)
    (d t : SyncTask) (hd : d ∈ deletions) (ht : t ∈ tasks) (hx : isTransfer t = true)
    (hp : d.dest_path = ext.temp_file_working_file_path t.dest_path) :
    ∃ ts m, runM (finalOrder ext tasks deletions replaced) w = (.ok (ts, m), w) ∧ d ∈ ts.take m := by
  obtain ⟨ts, m, h, htake, _⟩ := barrier_prefix ext tasks deletions replaced w hone
  refine ⟨ts, m, h, ?_⟩
  rw [htake]
  apply List.mem_append_left
  rw [List.mem_filter]
  refine ⟨hd, ?_⟩
  unfold atWorkingFile workingFiles
  rw [List.contains_iff_mem, hp]
  exact List.mem_map.mpr ⟨t, List.mem_filter.mpr ⟨ht, hx⟩, rfl⟩

/-- … and every transfer that is not itself a replacement is handed out AFTER it: when such a transfer starts, every deletion at its
    working-file path has completed (the worker loop joins all handles at the barrier) -/
theorem transfer_using_working_file_after_barrier {W : Type} (ext : Ext W) (tasks deletions : List SyncTask) (replaced : List Rs.Path)
    (w : W) (hone : (tasks.filter (isRepl replaced)).length = replaced.length)
    (t : SyncTask) (ht : t ∈ tasks) (hr : isRepl replaced t = false) :
    ∃ ts m, runM (finalOrder ext tasks deletions replaced) w = (.ok (ts, m), w) ∧ t ∈ ts.drop m := by
  obtain ⟨ts, m, h, _, hdrop⟩ := barrier_prefix ext tasks deletions replaced w hone
  refine ⟨ts, m, h, ?_⟩
  rw [hdrop]
  exact List.mem_append_left _ (List.mem_filter.mpr ⟨ht, by simp [hr]⟩)

/-- stability: the tasks that are not replacements keep their planned (parents-first) relative order, and so do the replacements -/
theorem planned_order_kept {W : Type} (ext : Ext W) (tasks : List SyncTask) (replaced : List Rs.Path) (w : W) :
    ∃ ts, runM (replacements_first ext tasks replaced) w = (.ok (replaced.length, ts), w) ∧
      (tasks.filter (fun t => !isRepl replaced t)).Sublist tasks ∧ (tasks.filter (isRepl replaced)).Sublist tasks ∧
      ts = tasks.filter (isRepl replaced) ++ tasks.filter (fun t => !isRepl replaced t) :=
  ⟨_, replacements_first_eq ext tasks replaced w, List.filter_sublist, List.filter_sublist, rfl⟩

/-- without replaced links the sort is the identity and the barrier index is 0 -/
theorem replacements_first_none {W : Type} (ext : Ext W) (tasks : List SyncTask) (w : W) :
    runM (replacements_first ext tasks []) w = (.ok (0, tasks), w) := by
  rw [replacements_first_eq]
  have h1 : tasks.filter (isRepl []) = [] := List.filter_eq_nil_iff.mpr (fun t _ => by simp [isRepl])
  have h2 : tasks.filter (fun t => !isRepl [] t) = tasks := List.filter_eq_self.mpr (fun t _ => by simp [isRepl])
  rw [h1, h2]; rfl

/-! ### non-vacuity: a concrete plan -/
namespace Example
def mk (p : List Char) (a : SyncAction) : SyncTask := { source := none, dest_path := p, action := a, source_checksum := none, dest_checksum := none }
def sfx : List Char := ['.', 's', 'y', '.', 't', 'm', 'p']
def wfx : Ext Unit := { temp_file_working_file_path := fun p => p ++ sfx }
def tasks : List SyncTask := [mk ['a'] .Skip, mk ['b', 'i', 'g'] .Update, mk ['l'] .Update, mk ['l', '/', 'x'] .Create]
def deletions : List SyncTask := [mk ['o'] .Delete, mk (['b', 'i', 'g'] ++ sfx) .Delete, mk ['z'] .Delete]

/-- the replacement `l` and the stale working file `big.sy.tmp` lie before the barrier (index 2), everything else after it, in
    planned order -/
theorem final_order_example :
    (match (runM (finalOrder wfx tasks deletions [['l']]) ()).1 with
     | .ok r => r == ([mk (['b', 'i', 'g'] ++ sfx) .Delete, mk ['l'] .Update, mk ['a'] .Skip, mk ['b', 'i', 'g'] .Update, mk ['l', '/', 'x'] .Create,
                       mk ['o'] .Delete, mk ['z'] .Delete], 2)
     | .error _ => false) = true := by
  decide
end Example

end SyModel.Props.GenEngineOrder
