/-
  GenEngineTask — the translated per-task body of `SyncEngine::sync` (`SyModel/Generated/Code/EngineTask.lean`:
  `run_task`, regenerated on every run from src/sync/mod.rs ≈ 838-1190 — executor call, the counters of `SyncStats`,
  post-transfer verification accounting, the JSON event, the error record pushed on `stats.errors`, the rate limiter,
  the rule "a deletion whose entry is already gone is a success") does the bookkeeping that C19 ("the machine-readable
  report is truthful"), C10 ("faults are reported") and C06 (deletions) need, and is the `execTask` of the handwritten
  model (`Engine/Model.lean`) those properties are proved about.

  `run_task ext task transferrer verifier stats dry_run json verification_mode rate_limiter perf_monitor` answers
  `(result, stats')` in the monad `Rs.M W`; `runM x w` = (outcome, world afterwards).

  Part 0 — NORMAL FORM (`run_task_eq_spec`, for ANY `Ext`): `run_task` = `taskSpec`, the structured program of
           Lemmas/GenEngineTask §1; `run_task_iff_ran`: the same as a big-step relation.  Everything below goes through
           these two and never looks at the generated body again.
  Part 1 — bookkeeping for ANY instance: `own_counter_iff_ok`, `counter_sum_iff_ok`, `failed_counts_nothing`,
           `errors_iff_err`, `counted_or_recorded`; events under the logging discipline `Logs ext log`:
           `events_logged`, `failed_emits_nothing`, `no_json_emits_nothing`, `counters_eq_events_step`; verification:
           `verification_outcome`, `verification_iff_due`, `verify_error_is_failure`, `verify_error_keeps_event`; frame:
           `scan_fields_untouched`, `foreign_fields_untouched`, `failed_changes_only_errors`.
  Part 2 — deletions, for ANY instance: `delete_ok_iff` (the "already gone" rule is exactly `Io ∧ NotFound`),
           `delete_other_error_recorded`, `delete_not_found_counts`, `delete_flag_is_path_is_dir`,
           `delete_calls_executor_once`.
  Part 3 — bridge to `Engine.execTask` on the instance `engineExt cfg` that composes this unit with the translated
           executors of unit Transfer: `create_eq_execTask`, `update_eq_execTask`, `skip_eq_model`, `delete_eq_model`,
           `delete_absent_agrees`, `run_task_eq_execTask_model`, `engine_logs`.
  Part 4 — non-vacuity: the call-logging world `logExt` with kernel-evaluated runs (`run_*`), satisfiability examples
           for every hypothesis, the instance of Part 3 run on a concrete tree.

  What the outer `.ok` in `runM (run_task …) w = (.ok (res, st'), w')` means: `emit`, `limiter.consume`, `sleep`,
  `Path::is_dir` are typed `Rs.M W _` like every operation of `Ext`, so an instance could make them throw; in Rust they
  cannot fail.  The theorems of Parts 1-2 speak about the runs in which they did not (all runs, for the instances of
  Parts 3 and 4).
-/
import SyModel.Lemmas.GenEngineTask
import SyModel.Props.GenTransfer
set_option linter.unusedVariables false
set_option linter.unusedSimpArgs false
namespace SyModel.Props.GenEngineTask
open SyModel SyModel.Generated SyModel.Generated.EngineTask SyModel.GenEngineTask
open SyModel.Lemmas.GenTransfer (runM runM_bind runM_bind_ok runM_bind_error runM_pure runM_throw)

/-! ## Part 0 — normal form -/

section anyInstance
variable {W : Type} (ext : Ext W) (task : SyncTask) (transferrer verifier : Rs.Opaque) (stats : SyncStats)
  (dry json : Bool) (mode : ChecksumType) (limiter pm : Option Rs.Opaque)

/-- NORMAL FORM. For ANY `Ext`, the generated `run_task` IS the structured program: per action,
    `executor call → on Ok: bookOk (counters, optional verification, optional event) → Ok(()) | on Err e: push the error
    record → Err e`.  (`perf_monitor` occurs on the left only: the translation keeps its `if let Some(monitor)` shells
    with empty bodies.)  This is the only theorem that depends on the shape of the generated code. -/
theorem run_task_eq_spec :
    run_task ext task transferrer verifier stats dry json mode limiter pm =
      taskSpec ext task transferrer verifier stats dry json mode limiter :=
  run_task_eq_taskSpec ext task transferrer verifier stats dry json mode limiter pm

/-- … and the structured program, run from a world `w`, answers `(res, st')` in the world `w'` exactly in the six ways
    listed by the relation `Ran` (Lemmas/GenEngineTask §3): no source entry | executor failed | executor succeeded |
    skip | deletion succeeded or "already gone" | deletion failed. -/
theorem run_task_iff_ran (w w' : W) (res : Except Rs.Err Unit) (st' : SyncStats) :
    runM (run_task ext task transferrer verifier stats dry json mode limiter pm) w = (.ok (res, st'), w') ↔
      Ran ext task transferrer verifier stats dry json mode limiter w res st' w' :=
  run_task_ran ext task transferrer verifier stats dry json mode limiter pm w w' res st'

/-! ## Part 1 — bookkeeping, for ANY instance

  `h` reads: the task body, run from the world `w`, answered `(res, st')` and left the world `w'`.  (The outer `.ok`:
  the operations that cannot fail in Rust — `emit`, `limiter.consume`, `sleep`, `Path::is_dir` — did not throw; an
  instance in which they do is outside what the Rust code can do, and nothing is claimed about it.) -/

variable {w w' : W} {res : Except Rs.Err Unit} {st' : SyncStats}

/-- the four task counters -/
def counters (st : SyncStats) : Nat × Nat × Nat × Nat :=
  (st.files_created, st.files_updated, st.files_skipped, st.files_deleted)

/-- the task's own counter, incremented by one -/
def bump : SyncAction → Nat × Nat × Nat × Nat → Nat × Nat × Nat × Nat
  | .Create, (c, u, s, d) => (c + 1, u, s, d)
  | .Update, (c, u, s, d) => (c, u + 1, s, d)
  | .Skip, (c, u, s, d) => (c, u, s + 1, d)
  | .Delete, (c, u, s, d) => (c, u, s, d + 1)

/-- the task has something to do: a Create/Update task without a source entry does nothing and counts nothing -/
def hasWork (task : SyncTask) : Bool :=
  match task.action with
  | .Create | .Update => task.source.isSome
  | _ => true

def isOk (res : Except Rs.Err Unit) : Bool := match res with | .ok _ => true | .error _ => false

/-- C19 (counters): exactly the task's OWN counter goes up, by exactly one, exactly when the result is `Ok` (and the
    task has a source entry when it is a Create/Update); no counter moves otherwise. -/
theorem own_counter_iff_ok
    (h : runM (run_task ext task transferrer verifier stats dry json mode limiter pm) w = (.ok (res, st'), w')) :
    counters st' = if isOk res && hasWork task then bump task.action (counters stats) else counters stats := by
  rw [run_task_iff_ran] at h
  cases h with
  | noSource ha hs => rcases ha with ha | ha <;> simp [hasWork, ha, hs]
  | xferErr ha source hs e w1 hx => simp [isOk, counters]
  | xferOk ha source hs r w1 w2 w' hx ht he =>
    rcases ha with ha | ha <;> split <;> simp [isOk, hasWork, ha, hs, counters, bump, countOf]
  | skip ha w' he => simp [isOk, hasWork, ha, counters, bump]
  | delOk ha isDir st1 w1 w2 w' dres hp hd hg he =>
    obtain ⟨n, rfl⟩ := deletePre_stats ext task dry stats hp
    simp [isOk, hasWork, ha, counters, bump]
  | delErr ha isDir st1 w1 w2 dres e hp hd hg =>
    obtain ⟨n, rfl⟩ := deletePre_stats ext task dry stats hp
    simp [isOk, counters]

/-- … read as a count: the sum of the four counters grows by one exactly for an `Ok` task that had something to do. -/
theorem counter_sum_iff_ok
    (h : runM (run_task ext task transferrer verifier stats dry json mode limiter pm) w = (.ok (res, st'), w')) :
    st'.files_created + st'.files_updated + st'.files_skipped + st'.files_deleted =
      stats.files_created + stats.files_updated + stats.files_skipped + stats.files_deleted +
        (if isOk res && hasWork task then 1 else 0) := by
  have := own_counter_iff_ok ext task transferrer verifier stats dry json mode limiter pm h
  simp only [counters] at this
  cases hc : (isOk res && hasWork task) <;> rw [hc] at this
  · simp only [Bool.false_eq_true, if_false, Prod.mk.injEq] at this ⊢; omega
  · simp only [if_true] at this ⊢
    cases ha : task.action <;> rw [ha] at this <;> simp only [bump, Prod.mk.injEq] at this <;> omega

/-- C10: a failed task increments NO counter. -/
theorem failed_counts_nothing (e : Rs.Err)
    (h : runM (run_task ext task transferrer verifier stats dry json mode limiter pm) w = (.ok (.error e, st'), w')) :
    counters st' = counters stats := by
  have := own_counter_iff_ok ext task transferrer verifier stats dry json mode limiter pm h
  simpa [isOk] using this

/-- the error record of a failed task -/
def errorRecord (task : SyncTask) (e : Rs.Err) : SyncError :=
  { path := task.dest_path, error := Rs.to_string e, action := actionName task.action }

/-- C10 (failures represented): `stats.errors` grows by exactly ONE record — path = the task's destination path,
    action = the task's own action name — exactly when the result is `Err`, and is unchanged otherwise. -/
theorem errors_iff_err
    (h : runM (run_task ext task transferrer verifier stats dry json mode limiter pm) w = (.ok (res, st'), w')) :
    st'.errors = match res with
      | .ok _ => stats.errors
      | .error e => stats.errors ++ [errorRecord task e] := by
  rw [run_task_iff_ran] at h
  cases h with
  | noSource ha hs => rfl
  | xferErr ha source hs e w1 hx => rfl
  | xferOk ha source hs r w1 w2 w' hx ht he =>
    rcases ha with ha | ha <;> split <;> simp [ha, countOf]
  | skip ha w' he => rfl
  | delOk ha isDir st1 w1 w2 w' dres hp hd hg he =>
    obtain ⟨n, rfl⟩ := deletePre_stats ext task dry stats hp
    rfl
  | delErr ha isDir st1 w1 w2 dres e hp hd hg =>
    obtain ⟨n, rfl⟩ := deletePre_stats ext task dry stats hp
    rfl

/-- the action names are the four the report uses, one per action -/
theorem actionName_injective : ∀ a b, actionName a = actionName b → a = b := by
  intro a b; cases a <;> cases b <;> decide

/-- C10/C19: every task that had something to do is represented exactly once — in its own counter or in the error
    list, never in both, never in neither. -/
theorem counted_or_recorded
    (h : runM (run_task ext task transferrer verifier stats dry json mode limiter pm) w = (.ok (res, st'), w')) :
    (st'.files_created + st'.files_updated + st'.files_skipped + st'.files_deleted) + st'.errors.length =
      (stats.files_created + stats.files_updated + stats.files_skipped + stats.files_deleted) + stats.errors.length +
        (if hasWork task then 1 else 0) := by
  have h1 := counter_sum_iff_ok ext task transferrer verifier stats dry json mode limiter pm h
  have h2 := errors_iff_err ext task transferrer verifier stats dry json mode limiter pm h
  have h3 : isOk res = false → hasWork task = true := by
    intro hr
    rw [run_task_iff_ran] at h
    cases h with
    | xferErr ha source hs e w1 hx => rcases ha with ha | ha <;> simp [hasWork, ha, hs]
    | delErr ha isDir st1 w1 w2 dres e hp hd hg => simp [hasWork, ha]
    | _ => simp [isOk] at hr
  rcases res with e | u
  · simp only [isOk, Bool.false_and, Bool.false_eq_true, if_false] at h1
    simp only [] at h2
    rw [h1, h2, h3 rfl]; simp; omega
  · simp only [isOk, Bool.true_and] at h1
    simp only [] at h2
    rw [h1, h2]; omega

/-! ### events — stated for any instance whose world carries a log that `emit` appends to and nothing else touches -/

/-- the logging discipline: `log` projects the event log out of the world; `emit ev` appends `ev`; every other
    operation leaves the log alone -/
structure Logs (ext : Ext W) (log : W → List SyncEvent) : Prop where
  emit : ∀ ev w, log (runM (ext.emit ev) w).2 = log w ++ [ev]
  create : ∀ t e p w, log (runM (ext.transferrer_create t e p) w).2 = log w
  update : ∀ t e p w, log (runM (ext.transferrer_update t e p) w).2 = log w
  delete : ∀ t p b w, log (runM (ext.transferrer_delete t p b) w).2 = log w
  verify : ∀ v s d w, log (runM (ext.verify_transfer v s d) w).2 = log w
  consume : ∀ l n w, log (runM (ext.limiter_consume l n) w).2 = log w
  sleep : ∀ d w, log (runM (ext.tokio_time_sleep d) w).2 = log w
  metadata : ∀ p w, log (runM (ext.std_fs_metadata p) w).2 = log w
  is_dir : ∀ p w, log (runM (ext.path_is_dir p) w).2 = log w

/-- the events `run_task` may emit for a task: its own kind, its own path -/
def OwnEvent (task : SyncTask) : SyncEvent → Prop
  | .Create p sz _ => task.action = .Create ∧ p = task.dest_path ∧ ∃ s, task.source = some s ∧ sz = s.size
  | .Update p sz _ _ => task.action = .Update ∧ p = task.dest_path ∧ ∃ s, task.source = some s ∧ sz = s.size
  | .Skip p reason => task.action = .Skip ∧ p = task.dest_path ∧ reason = "up_to_date".toList
  | .Delete p => task.action = .Delete ∧ p = task.dest_path
  | _ => False

variable {log : W → List SyncEvent}

theorem throttle_log (hl : Logs ext log) (n : Nat) (w : W) : log (runM (throttle ext limiter n) w).2 = log w := by
  unfold throttle
  cases limiter with
  | none => rfl
  | some l =>
    simp only []
    split
    · rw [runM_bind]
      have h1 := hl.consume l n w
      rcases hc : runM (ext.limiter_consume l n) w with ⟨e | d, w1⟩ <;> rw [hc] at h1 <;> simp only [] at h1 ⊢
      · exact h1
      · split
        · rw [hl.sleep]; exact h1
        · exact h1
    · rfl

theorem verifyPhase_log (hl : Logs ext log) (source : FileEntry) (dest : Rs.Path) (r : Option TransferResult)
    (st : SyncStats) (w : W) : log (runM (verifyPhase ext verifier mode dry source dest r st) w).2 = log w := by
  rw [verifyPhase_run]
  split
  · exact hl.verify _ _ _ _
  · rfl

theorem emitIf_log (hl : Logs ext log) (ev : SyncEvent) (w : W) :
    log (runM (emitIf ext json ev) w).2 = log w ++ (if json then [ev] else []) := by
  rw [emitIf_run]
  cases json
  · simp
  · simp [hl.emit]

theorem deletePre_log (hl : Logs ext log) {w w1 : W} {isDir : Bool} {st1 : SyncStats}
    (h : runM (deletePre ext task dry stats) w = (.ok (isDir, st1), w1)) : log w1 = log w := by
  obtain ⟨w0, h0, h | h⟩ := deletePre_inv ext task dry stats h
  · rw [h.2.1]; have := hl.is_dir task.dest_path w; rw [h0] at this; exact this
  · rw [h.2.1, hl.metadata]; have := hl.is_dir task.dest_path w; rw [h0] at this; exact this

/-- C19 (events), the whole statement: the log after the task is the log before it, plus — exactly when `json` is on,
    the result is `Ok` and the task had something to do — ONE event, of the task's own kind, for the task's own path. -/
theorem events_logged (hl : Logs ext log)
    (h : runM (run_task ext task transferrer verifier stats dry json mode limiter pm) w = (.ok (res, st'), w')) :
    if (json && isOk res && hasWork task) = true then ∃ ev, log w' = log w ++ [ev] ∧ OwnEvent task ev
    else log w' = log w := by
  rw [run_task_iff_ran] at h
  cases h with
  | noSource ha hs => rcases ha with ha | ha <;> simp [hasWork, ha, hs]
  | xferErr ha source hs e w1 hx =>
    simp only [isOk, Bool.and_false, Bool.false_and, Bool.false_eq_true, if_false]
    rcases ha with ha | ha <;> simp only [xferCall, ha] at hx
    · have := hl.create transferrer source task.dest_path w; rw [hx] at this; exact this
    · have := hl.update transferrer source task.dest_path w; rw [hx] at this; exact this
  | xferOk ha source hs r w1 w2 w' hx ht he =>
    have h1 : log w1 = log w := by
      rcases ha with ha | ha <;> simp only [xferCall, ha] at hx
      · have := hl.create transferrer source task.dest_path w; rw [hx] at this; exact this
      · have := hl.update transferrer source task.dest_path w; rw [hx] at this; exact this
    have h2 : log w2 = log w1 := by
      have := throttle_log ext limiter hl (bytesOf r) w1; rw [ht] at this; exact this
    have h3 := emitIf_log ext json hl (ownEvent task source r)
      (runM (verifyPhase ext verifier mode dry source task.dest_path r (countOf task.action dry source r stats)) w2).2
    rw [he, verifyPhase_log ext verifier dry mode hl, h2, h1] at h3
    have hw : hasWork task = true := by rcases ha with ha | ha <;> simp [hasWork, ha, hs]
    cases json
    · simpa using h3
    · simp only [isOk, hw, Bool.and_self, if_true]
      refine ⟨_, h3, ?_⟩
      rcases ha with ha | ha <;> simp [ownEvent, ha, createEvent, updateEvent, OwnEvent, hs]
  | skip ha w' he =>
    have h3 := emitIf_log ext json hl (skipEvent task) w
    rw [he] at h3
    cases json
    · simpa using h3
    · simp only [isOk, hasWork, ha, Bool.and_self, if_true]
      exact ⟨_, h3, by simp [skipEvent, OwnEvent, ha]⟩
  | delOk ha isDir st1 w1 w2 w' dres hp hd hg he =>
    have h1 := deletePre_log ext task stats dry hl hp
    have h2 : log w2 = log w1 := by
      have := hl.delete transferrer task.dest_path isDir w1; rw [hd] at this; exact this
    have h3 := emitIf_log ext json hl (deleteEvent task) w2
    rw [he, h2, h1] at h3
    cases json
    · simpa using h3
    · simp only [isOk, hasWork, ha, Bool.and_self, if_true]
      exact ⟨_, h3, by simp [deleteEvent, OwnEvent, ha]⟩
  | delErr ha isDir st1 w1 w2 dres e hp hd hg =>
    simp only [isOk, Bool.and_false, Bool.false_and, Bool.false_eq_true, if_false]
    have h1 := deletePre_log ext task stats dry hl hp
    have := hl.delete transferrer task.dest_path isDir w1; rw [hd] at this
    rw [this, h1]

/-- C10/C19: a FAILED task emits no event. -/
theorem failed_emits_nothing (hl : Logs ext log) (e : Rs.Err)
    (h : runM (run_task ext task transferrer verifier stats dry json mode limiter pm) w = (.ok (.error e, st'), w')) :
    log w' = log w := by
  have := events_logged ext task transferrer verifier stats dry json mode limiter pm hl h
  simpa [isOk] using this

/-- without `--json` nothing is emitted. -/
theorem no_json_emits_nothing (hl : Logs ext log)
    (h : runM (run_task ext task transferrer verifier stats dry false mode limiter pm) w = (.ok (res, st'), w')) :
    log w' = log w := by
  have := events_logged ext task transferrer verifier stats dry false mode limiter pm hl h
  simpa using this

/-- C19 (counters equal events): with `--json` the number of events the task added equals the amount its counters grew
    by — event and counter can never come apart. -/
theorem counters_eq_events_step (hl : Logs ext log)
    (h : runM (run_task ext task transferrer verifier stats dry true mode limiter pm) w = (.ok (res, st'), w')) :
    (log w').length + (stats.files_created + stats.files_updated + stats.files_skipped + stats.files_deleted) =
      (log w).length + (st'.files_created + st'.files_updated + st'.files_skipped + st'.files_deleted) := by
  have h1 := events_logged ext task transferrer verifier stats dry true mode limiter pm hl h
  have h2 := counter_sum_iff_ok ext task transferrer verifier stats dry true mode limiter pm h
  simp only [Bool.true_and] at h1
  split at h1
  · rename_i hc
    obtain ⟨ev, hev, _⟩ := h1
    rw [hc] at h2
    rw [hev, h2]; simp; omega
  · rename_i hc
    have hc' : (isOk res && hasWork task) = false := by simpa using hc
    rw [hc'] at h2
    rw [h1, h2]; simp

/-! ### verification accounting -/

theorem wantsVerify_iff (source : FileEntry) (r : Option TransferResult) :
    wantsVerify mode dry source r = true ↔
      mode ≠ ChecksumType.None ∧ dry = false ∧ source.is_dir = false ∧ r.isSome = true := by
  unfold wantsVerify
  cases mode <;> cases dry <;> cases source.is_dir <;> cases r <;> simp

/-- the executor of a Create/Update answered `Ok`: then the TASK answers `Ok(())` — nothing that follows (rate limiter,
    verification, event) can turn it into `Err` — and the verification fields are exactly:
    `files_verified` + 1 iff verification was due and `verify_transfer` answered `Ok(true)`;
    `verification_failures` + 1 iff it was due and the answer was ANYTHING else — `Ok(false)` or `Err(_)`. -/
theorem verification_outcome (source : FileEntry) (r : Option TransferResult) {w1 w2 : W}
    (ha : task.action = .Create ∨ task.action = .Update) (hs : task.source = some source)
    (hx : runM (xferCall ext task transferrer source) w = (.ok r, w1))
    (ht : runM (throttle ext limiter (bytesOf r)) w1 = (.ok (), w2))
    (h : runM (run_task ext task transferrer verifier stats dry json mode limiter pm) w = (.ok (res, st'), w')) :
    res = .ok () ∧
    st'.files_verified = stats.files_verified +
      (if (wantsVerify mode dry source r &&
          verdictOk (runM (ext.verify_transfer verifier source.path task.dest_path) w2).1) = true then 1 else 0) ∧
    st'.verification_failures = stats.verification_failures +
      (if (wantsVerify mode dry source r &&
          !verdictOk (runM (ext.verify_transfer verifier source.path task.dest_path) w2).1) = true then 1 else 0) := by
  rw [run_task_iff_ran] at h
  cases h with
  | noSource ha' hs' => rw [hs] at hs'; cases hs'
  | xferErr ha' source' hs' e w1' hx' =>
    rw [hs] at hs'; cases hs'; rw [hx] at hx'; cases hx'
  | xferOk ha' source' hs' r' w1' w2' w'' hx' ht' he' =>
    rw [hs] at hs'; cases hs'; rw [hx] at hx'; cases hx'; rw [ht] at ht'; cases ht'
    refine ⟨rfl, ?_, ?_⟩
    · cases hwv : wantsVerify mode dry source r
      · rcases ha with ha | ha <;> simp [countOf, ha]
      · rcases ha with ha | ha <;> simp [countOf, ha, verifyStats_verified]
    · cases hwv : wantsVerify mode dry source r
      · rcases ha with ha | ha <;> simp [countOf, ha]
      · rcases ha with ha | ha <;> simp [countOf, ha, verifyStats_failures] <;> split <;> simp_all
  | skip ha' => rcases ha with ha | ha <;> rw [ha] at ha' <;> cases ha'
  | delOk ha' => rcases ha with ha | ha <;> rw [ha] at ha' <;> cases ha'
  | delErr ha' => rcases ha with ha | ha <;> rw [ha] at ha' <;> cases ha'

/-- verification is DUE for this task: a Create/Update with a source entry whose executor answered `Ok(Some(result))`,
    `verification_mode ≠ None`, not a dry run, the source is not a directory -/
def VerifyDue (w : W) : Prop :=
  ∃ source r w1, (task.action = .Create ∨ task.action = .Update) ∧ task.source = some source ∧
    runM (xferCall ext task transferrer source) w = (.ok (some r), w1) ∧
    mode ≠ ChecksumType.None ∧ dry = false ∧ source.is_dir = false

/-- C19 (verification): `files_verified + verification_failures` grows by exactly one when verification is due, and
    not at all otherwise (failed tasks, Skip, Delete, `Ok(None)` from the executor — dry run, skipped or preserved
    symlink, directory —, mode `None`). -/
theorem verification_iff_due
    (h : runM (run_task ext task transferrer verifier stats dry json mode limiter pm) w = (.ok (res, st'), w')) :
    (VerifyDue ext task transferrer dry mode w →
      st'.files_verified + st'.verification_failures = stats.files_verified + stats.verification_failures + 1) ∧
    (¬ VerifyDue ext task transferrer dry mode w →
      st'.files_verified = stats.files_verified ∧ st'.verification_failures = stats.verification_failures) := by
  have h0 := h
  rw [run_task_iff_ran] at h
  cases h with
  | noSource ha hs =>
    refine ⟨fun ⟨s, r, w1, _, hs', _⟩ => ?_, fun _ => ⟨rfl, rfl⟩⟩
    rw [hs] at hs'; cases hs'
  | xferErr ha source hs e w1 hx =>
    refine ⟨fun ⟨s, r, w1', _, hs', hx', _⟩ => ?_, fun _ => ⟨rfl, rfl⟩⟩
    rw [hs] at hs'; cases hs'; rw [hx] at hx'; cases hx'
  | xferOk ha source hs r w1 w2 w' hx ht he =>
    obtain ⟨_, hv, hf⟩ := verification_outcome ext task transferrer verifier stats dry json mode limiter pm source r
      ha hs hx ht h0
    constructor
    · rintro ⟨s, r', w1', _, hs', hx', hm, hd, hdir⟩
      rw [hs] at hs'; cases hs'; rw [hx] at hx'; cases hx'
      have hwv : wantsVerify mode dry source (some r') = true := (wantsVerify_iff dry mode source _).2 ⟨hm, hd, hdir, rfl⟩
      rw [hv, hf, hwv]
      cases verdictOk (runM (ext.verify_transfer verifier source.path task.dest_path) w2).1 <;> simp <;> omega
    · intro hnd
      have hwv : wantsVerify mode dry source r = false := by
        cases hwv : wantsVerify mode dry source r
        · rfl
        · obtain ⟨hm, hd, hdir, hr⟩ := (wantsVerify_iff dry mode source r).1 hwv
          obtain ⟨r', rfl⟩ := Option.isSome_iff_exists.1 hr
          exact absurd ⟨source, r', w1, ha, hs, hx, hm, hd, hdir⟩ hnd
      rw [hv, hf, hwv]; simp
  | skip ha w' he =>
    refine ⟨fun ⟨s, r, w1, ha', _⟩ => ?_, fun _ => ⟨rfl, rfl⟩⟩
    rcases ha' with ha' | ha' <;> rw [ha] at ha' <;> cases ha'
  | delOk ha isDir st1 w1 w2 w' dres hp hd hg he =>
    obtain ⟨n, rfl⟩ := deletePre_stats ext task dry stats hp
    refine ⟨fun ⟨s, r, w1, ha', _⟩ => ?_, fun _ => ⟨rfl, rfl⟩⟩
    rcases ha' with ha' | ha' <;> rw [ha] at ha' <;> cases ha'
  | delErr ha isDir st1 w1 w2 dres e hp hd hg =>
    obtain ⟨n, rfl⟩ := deletePre_stats ext task dry stats hp
    refine ⟨fun ⟨s, r, w1, ha', _⟩ => ?_, fun _ => ⟨rfl, rfl⟩⟩
    rcases ha' with ha' | ha' <;> rw [ha] at ha' <;> cases ha'

/-- C19b: an `Err` of `verify_transfer` (the re-read failed) is a verification FAILURE — never "verified", never
    dropped — and the task still answers `Ok(())`. -/
theorem verify_error_is_failure (source : FileEntry) (r : TransferResult) {w1 w2 : W} (e : Rs.Err)
    (ha : task.action = .Create ∨ task.action = .Update) (hs : task.source = some source)
    (hx : runM (xferCall ext task transferrer source) w = (.ok (some r), w1))
    (ht : runM (throttle ext limiter r.bytes_written) w1 = (.ok (), w2))
    (hm : mode ≠ ChecksumType.None) (hd : dry = false) (hdir : source.is_dir = false)
    (hve : (runM (ext.verify_transfer verifier source.path task.dest_path) w2).1 = .error e)
    (h : runM (run_task ext task transferrer verifier stats dry json mode limiter pm) w = (.ok (res, st'), w')) :
    res = .ok () ∧ st'.verification_failures = stats.verification_failures + 1 ∧
      st'.files_verified = stats.files_verified := by
  obtain ⟨h1, hv, hf⟩ := verification_outcome ext task transferrer verifier stats dry json mode limiter pm source
    (some r) ha hs hx ht h
  have hwv : wantsVerify mode dry source (some r) = true := (wantsVerify_iff dry mode source _).2 ⟨hm, hd, hdir, rfl⟩
  rw [hwv, hve] at hv hf
  exact ⟨h1, by simpa [verdictOk] using hf, by simpa [verdictOk] using hv⟩

/-- … and its event is still emitted (with `--json`): the log grows by the task's own event. -/
theorem verify_error_keeps_event (hl : Logs ext log) (source : FileEntry) (r : TransferResult) {w1 w2 : W} (e : Rs.Err)
    (ha : task.action = .Create ∨ task.action = .Update) (hs : task.source = some source)
    (hx : runM (xferCall ext task transferrer source) w = (.ok (some r), w1))
    (ht : runM (throttle ext limiter r.bytes_written) w1 = (.ok (), w2))
    (h : runM (run_task ext task transferrer verifier stats dry true mode limiter pm) w = (.ok (res, st'), w')) :
    ∃ ev, log w' = log w ++ [ev] ∧ OwnEvent task ev := by
  obtain ⟨h1, _, _⟩ := verification_outcome ext task transferrer verifier stats dry true mode limiter pm source
    (some r) ha hs hx ht h
  have := events_logged ext task transferrer verifier stats dry true mode limiter pm hl h
  have hw : hasWork task = true := by rcases ha with ha | ha <;> simp [hasWork, ha, hs]
  rw [h1] at this
  simpa [isOk, hw] using this

/-! ### what is never touched -/

/-- `files_scanned` and `duration` belong to the scan and to the end of the run: no task changes them. -/
theorem scan_fields_untouched
    (h : runM (run_task ext task transferrer verifier stats dry json mode limiter pm) w = (.ok (res, st'), w')) :
    st'.files_scanned = stats.files_scanned ∧ st'.duration = stats.duration := by
  rw [run_task_iff_ran] at h
  cases h with
  | noSource ha hs => exact ⟨rfl, rfl⟩
  | xferErr ha source hs e w1 hx => exact ⟨rfl, rfl⟩
  | xferOk ha source hs r w1 w2 w' hx ht he => rcases ha with ha | ha <;> split <;> simp [ha, countOf]
  | skip ha w' he => exact ⟨rfl, rfl⟩
  | delOk ha isDir st1 w1 w2 w' dres hp hd hg he =>
    obtain ⟨n, rfl⟩ := deletePre_stats ext task dry stats hp; exact ⟨rfl, rfl⟩
  | delErr ha isDir st1 w1 w2 dres e hp hd hg =>
    obtain ⟨n, rfl⟩ := deletePre_stats ext task dry stats hp; exact ⟨rfl, rfl⟩

/-- the stats fields a task of each kind can NOT change (besides the three foreign task counters of
    `own_counter_iff_ok` and the two fields of `scan_fields_untouched`) -/
def ForeignUntouched (a : SyncAction) (st st' : SyncStats) : Prop :=
  match a with
  | .Create => st'.files_delta_synced = st.files_delta_synced ∧ st'.delta_bytes_saved = st.delta_bytes_saved ∧
      st'.bytes_would_change = st.bytes_would_change ∧ st'.bytes_would_delete = st.bytes_would_delete
  | .Update => st'.bytes_would_add = st.bytes_would_add ∧ st'.bytes_would_delete = st.bytes_would_delete
  | .Skip => st' = { st with files_skipped := st.files_skipped + 1 }
  | .Delete => st'.bytes_transferred = st.bytes_transferred ∧ st'.files_delta_synced = st.files_delta_synced ∧
      st'.delta_bytes_saved = st.delta_bytes_saved ∧ st'.files_compressed = st.files_compressed ∧
      st'.compression_bytes_saved = st.compression_bytes_saved ∧ st'.files_verified = st.files_verified ∧
      st'.verification_failures = st.verification_failures ∧ st'.bytes_would_add = st.bytes_would_add ∧
      st'.bytes_would_change = st.bytes_would_change

theorem foreign_fields_untouched
    (h : runM (run_task ext task transferrer verifier stats dry json mode limiter pm) w = (.ok (res, st'), w')) :
    ForeignUntouched task.action stats st' := by
  rw [run_task_iff_ran] at h
  cases h with
  | noSource ha hs => rcases ha with ha | ha <;> simp [ForeignUntouched, ha]
  | xferErr ha source hs e w1 hx => rcases ha with ha | ha <;> simp [ForeignUntouched, ha]
  | xferOk ha source hs r w1 w2 w' hx ht he =>
    rcases ha with ha | ha <;> split <;> simp [ForeignUntouched, ha, countOf]
  | skip ha w' he => simp [ForeignUntouched, ha]
  | delOk ha isDir st1 w1 w2 w' dres hp hd hg he =>
    obtain ⟨n, rfl⟩ := deletePre_stats ext task dry stats hp; simp [ForeignUntouched, ha]
  | delErr ha isDir st1 w1 w2 dres e hp hd hg =>
    obtain ⟨n, rfl⟩ := deletePre_stats ext task dry stats hp; simp [ForeignUntouched, ha]

/-- a FAILED task changes nothing but the error list (and, for a deletion in a dry run, `bytes_would_delete`). -/
theorem failed_changes_only_errors (e : Rs.Err)
    (h : runM (run_task ext task transferrer verifier stats dry json mode limiter pm) w = (.ok (.error e, st'), w')) :
    ∃ n, st' = { stats with errors := stats.errors ++ [errorRecord task e], bytes_would_delete := n } ∧
      (task.action ≠ .Delete → n = stats.bytes_would_delete) := by
  rw [run_task_iff_ran] at h
  cases h with
  | xferErr ha source hs e' w1 hx =>
    refine ⟨stats.bytes_would_delete, rfl, fun _ => rfl⟩
  | delErr ha isDir st1 w1 w2 dres e' hp hd hg =>
    obtain ⟨n, rfl⟩ := deletePre_stats ext task dry stats hp
    exact ⟨n, rfl, fun hne => absurd ha hne⟩

/-! ## Part 2 — deletions: the "already gone" rule (still for ANY instance) -/

/-- C06/C10/C19 (the rule itself): the Delete arm answers `Ok` EXACTLY when `transferrer.delete` answered `Ok`, or
    failed with an error `e` that IS an `Io` error AND whose kind IS `NotFound`.  Nothing else is consulted: not the
    file system, not `exists()`. -/
theorem delete_ok_iff (ha : task.action = .Delete) {isDir : Bool} {st1 : SyncStats} {w1 w2 : W}
    {dres : Except Rs.Err Unit}
    (hp : runM (deletePre ext task dry stats) w = (.ok (isDir, st1), w1))
    (hd : runM (ext.transferrer_delete transferrer task.dest_path isDir) w1 = (dres, w2))
    (h : runM (run_task ext task transferrer verifier stats dry json mode limiter pm) w = (.ok (res, st'), w')) :
    res = .ok () ↔
      dres = .ok () ∨ ∃ e, dres = .error e ∧ ext.err_is_io e = true ∧ goneKind ext e = true := by
  rw [← goneRule_ok_iff]
  rw [run_task_iff_ran] at h
  cases h with
  | noSource ha' => rcases ha' with ha' | ha' <;> rw [ha] at ha' <;> cases ha'
  | xferErr ha' => rcases ha' with ha' | ha' <;> rw [ha] at ha' <;> cases ha'
  | xferOk ha' => rcases ha' with ha' | ha' <;> rw [ha] at ha' <;> cases ha'
  | skip ha' => rw [ha] at ha'; cases ha'
  | delOk ha' isDir' st1' w1' w2' w'' dres' hp' hd' hg he =>
    rw [hp] at hp'; cases hp'; rw [hd] at hd'; cases hd'
    simp [hg]
  | delErr ha' isDir' st1' w1' w2' dres' e hp' hd' hg =>
    rw [hp] at hp'; cases hp'; rw [hd] at hd'; cases hd'
    simp [hg]

/-- every OTHER error of `transferrer.delete` — not an `Io` error, or an `Io` error of another kind (EIO, EACCES,
    EISDIR, ENOTEMPTY …) — is returned as it is, recorded with action "delete", and NOT counted as a deletion. -/
theorem delete_other_error_recorded (ha : task.action = .Delete) {isDir : Bool} {st1 : SyncStats} {w1 w2 : W} (e : Rs.Err)
    (hp : runM (deletePre ext task dry stats) w = (.ok (isDir, st1), w1))
    (hd : runM (ext.transferrer_delete transferrer task.dest_path isDir) w1 = (.error e, w2))
    (hne : ¬ (ext.err_is_io e = true ∧ goneKind ext e = true))
    (h : runM (run_task ext task transferrer verifier stats dry json mode limiter pm) w = (.ok (res, st'), w')) :
    res = .error e ∧ st'.errors = stats.errors ++ [errorRecord task e] ∧ st'.files_deleted = stats.files_deleted ∧
      w' = w2 := by
  have hiff := delete_ok_iff ext task transferrer verifier stats dry json mode limiter pm ha hp hd h
  rw [run_task_iff_ran] at h
  cases h with
  | noSource ha' => rcases ha' with ha' | ha' <;> rw [ha] at ha' <;> cases ha'
  | xferErr ha' => rcases ha' with ha' | ha' <;> rw [ha] at ha' <;> cases ha'
  | xferOk ha' => rcases ha' with ha' | ha' <;> rw [ha] at ha' <;> cases ha'
  | skip ha' => rw [ha] at ha'; cases ha'
  | delOk ha' isDir' st1' w1' w2' w'' dres' hp' hd' hg he =>
    exfalso
    rcases hiff.1 rfl with h1 | ⟨e', h1, h2, h3⟩
    · cases h1
    · cases h1; exact hne ⟨h2, h3⟩
  | delErr ha' isDir' st1' w1' w2' dres' e' hp' hd' hg =>
    rw [hp] at hp'; cases hp'; rw [hd] at hd'; cases hd'
    obtain ⟨h1, _⟩ := goneRule_error ext _ _ hg
    cases h1
    obtain ⟨n, rfl⟩ := deletePre_stats ext task dry stats hp
    exact ⟨rfl, rfl, rfl, rfl⟩

/-- an entry that is already gone IS a deletion: counted, no error record (and, with `--json`, its `delete` event —
    `events_logged`). -/
theorem delete_not_found_counts (ha : task.action = .Delete) {isDir : Bool} {st1 : SyncStats} {w1 w2 : W} (e : Rs.Err)
    (hp : runM (deletePre ext task dry stats) w = (.ok (isDir, st1), w1))
    (hd : runM (ext.transferrer_delete transferrer task.dest_path isDir) w1 = (.error e, w2))
    (hio : ext.err_is_io e = true) (hk : goneKind ext e = true)
    (h : runM (run_task ext task transferrer verifier stats dry json mode limiter pm) w = (.ok (res, st'), w')) :
    res = .ok () ∧ st'.files_deleted = stats.files_deleted + 1 ∧ st'.errors = stats.errors := by
  have hres : res = .ok () :=
    (delete_ok_iff ext task transferrer verifier stats dry json mode limiter pm ha hp hd h).2 (.inr ⟨e, rfl, hio, hk⟩)
  subst hres
  have h1 := own_counter_iff_ok ext task transferrer verifier stats dry json mode limiter pm h
  have h2 := errors_iff_err ext task transferrer verifier stats dry json mode limiter pm h
  simp only [isOk, hasWork, ha, Bool.and_self, if_true, bump, counters, Prod.mk.injEq] at h1
  exact ⟨rfl, h1.2.2.2, h2⟩

/-- the flag handed to the executor is `Path::is_dir(dest_path)`, asked in the world the task STARTED in — before
    `metadata`, before the deletion. -/
theorem delete_flag_is_path_is_dir {isDir : Bool} {st1 : SyncStats} {w1 : W}
    (hp : runM (deletePre ext task dry stats) w = (.ok (isDir, st1), w1)) :
    ∃ w0, runM (ext.path_is_dir task.dest_path) w = (.ok isDir, w0) :=
  let ⟨w0, h, _⟩ := deletePre_inv ext task dry stats hp
  ⟨w0, h⟩

/-- … and `transferrer.delete` is called exactly once, with that flag: the world after the task is the world after
    that ONE call followed by the event (whatever the instance does). -/
theorem delete_calls_executor_once (ha : task.action = .Delete)
    (h : runM (run_task ext task transferrer verifier stats dry json mode limiter pm) w = (.ok (res, st'), w')) :
    ∃ isDir st1 w1, runM (deletePre ext task dry stats) w = (.ok (isDir, st1), w1) ∧
      (w' = (runM (ext.transferrer_delete transferrer task.dest_path isDir) w1).2 ∨
       runM (emitIf ext json (deleteEvent task)) (runM (ext.transferrer_delete transferrer task.dest_path isDir) w1).2 =
         (.ok (), w')) := by
  rw [run_task_iff_ran] at h
  cases h with
  | noSource ha' => rcases ha' with ha' | ha' <;> rw [ha] at ha' <;> cases ha'
  | xferErr ha' => rcases ha' with ha' | ha' <;> rw [ha] at ha' <;> cases ha'
  | xferOk ha' => rcases ha' with ha' | ha' <;> rw [ha] at ha' <;> cases ha'
  | skip ha' => rw [ha] at ha'; cases ha'
  | delOk ha' isDir st1 w1 w2 w'' dres hp hd hg he => exact ⟨isDir, st1, w1, hp, .inr (by rw [hd]; exact he)⟩
  | delErr ha' isDir st1 w1 w2 dres e hp hd hg => exact ⟨isDir, st1, w1, hp, .inl (by rw [hd])⟩

end anyInstance

/-! ## Part 3 — bridge to the handwritten model (`Engine.execTask`, the model C19 / C19Truth / C10 / C10Post / C06 are about)

  The instance `engineExt cfg : Ext EWorld` (Lemmas/GenEngineTask §5, TRUSTED): `transferrer_create/update/delete` ARE
  the GENERATED `Transferrer::{create, update, delete}` of unit Transfer run on `extOf cfg` (Lemmas/GenTransfer) with the
  `Transferrer` value the engine builds from its configuration (`selfOf cfg`) — the two translated units composed;
  `path_is_dir` / `std_fs_metadata` read the destination tree; `verify_transfer` compares content ids; `emit` appends to
  the event stream `EWorld.log`; all errors are `Err.io`, and `io_error_kind` answers `NotFound` (consulted only on an
  error of `transferrer_delete`, which on this instance fails only for an absent entry: `delete_fails_only_absent`).

  Abstraction: `absExec ew st = ⟨ew.xw.w, absBook root st ew.log⟩` — counters ↦ `created/updated/skipped/deleted`, the
  event stream ↦ `(Act × Path)` through `keyOf root`, the error records ↦ `(Act × Path)` through the action NAME and
  `keyOf root` (both lists newest-first, as the model keeps them).

  Hypotheses (those of the GenTransfer bridges; examples in Part 4): `CleanPath k` and `task.dest_path = destOf root k`;
  for a Create/Update task a source entry with `Readable`, `SrcFile`, `HasInode`; `dry_run = cfg.dryRun`; `json = true`
  (the model records an event for every successful task; without `--json` see `no_json_emits_nothing`). -/

section bridge
open SyModel.Engine SyModel.Lemmas.GenTransfer
variable (cfg : Cfg) (ew : EWorld) (task : SyncTask) (k : Engine.Path) (transferrer verifier : Rs.Opaque)
  (stats : SyncStats) (mode : ChecksumType) (limiter pm : Option Rs.Opaque)

/-- the instance obeys the logging discipline of Part 1: the event theorems apply to it -/
theorem engine_logs : Logs (engineExt cfg) (fun ew => ew.log) where
  emit _ _ := rfl
  create _ _ _ _ := rfl
  update _ _ _ _ := rfl
  delete _ _ _ _ := rfl
  verify _ _ _ _ := rfl
  consume _ _ _ := rfl
  sleep _ _ := rfl
  metadata _ _ := rfl
  is_dir _ _ := rfl

/-- BRIDGE (Create): see `xfer_eq_execTask`. -/
theorem create_eq_execTask (hk : CleanPath k) (hd : task.dest_path = destOf ew.xw.root k) (e : FileEntry)
    (ha : task.action = .Create) (hs : task.source = some e)
    (hread : Readable cfg (toE e)) (hsrc : SrcFile ew.xw (toE e)) (hino : HasInode cfg (toE e)) :
    ∃ res st' ew',
      runM (run_task (engineExt cfg) task transferrer verifier stats cfg.dryRun true mode limiter pm) ew =
        (.ok (res, st'), ew') ∧
      ew'.xw.root = ew.xw.root ∧
      absBook ew'.xw.root st' ew'.log = (execTask cfg noFaults (absExec ew stats) (absTaskE cfg ew.xw task k)).b ∧
      (∀ u, res = .ok u → ew'.xw.w = (execTask cfg noFaults (absExec ew stats) (absTaskE cfg ew.xw task k)).w ∧
        (perform cfg ew.xw.w (absTaskE cfg ew.xw task k)).isSome = true) ∧
      (∀ er, res = .error er → (execTask cfg noFaults (absExec ew stats) (absTaskE cfg ew.xw task k)).w = ew.xw.w ∧
        Left ew.xw ew'.xw k ∧ perform cfg ew.xw.w (absTaskE cfg ew.xw task k) = none) :=
  xfer_eq_execTask cfg ew task k transferrer verifier stats mode limiter pm hk hd e (.inl ha) hs hread hsrc hino

/-- BRIDGE (Update): the same through `Transferrer::update` (every entry kind, the directory-over-link replacement of
    fix 862af11 included). -/
theorem update_eq_execTask (hk : CleanPath k) (hd : task.dest_path = destOf ew.xw.root k) (e : FileEntry)
    (ha : task.action = .Update) (hs : task.source = some e)
    (hread : Readable cfg (toE e)) (hsrc : SrcFile ew.xw (toE e)) (hino : HasInode cfg (toE e)) :
    ∃ res st' ew',
      runM (run_task (engineExt cfg) task transferrer verifier stats cfg.dryRun true mode limiter pm) ew =
        (.ok (res, st'), ew') ∧
      ew'.xw.root = ew.xw.root ∧
      absBook ew'.xw.root st' ew'.log = (execTask cfg noFaults (absExec ew stats) (absTaskE cfg ew.xw task k)).b ∧
      (∀ u, res = .ok u → ew'.xw.w = (execTask cfg noFaults (absExec ew stats) (absTaskE cfg ew.xw task k)).w ∧
        (perform cfg ew.xw.w (absTaskE cfg ew.xw task k)).isSome = true) ∧
      (∀ er, res = .error er → (execTask cfg noFaults (absExec ew stats) (absTaskE cfg ew.xw task k)).w = ew.xw.w ∧
        Left ew.xw ew'.xw k ∧ perform cfg ew.xw.w (absTaskE cfg ew.xw task k) = none) :=
  xfer_eq_execTask cfg ew task k transferrer verifier stats mode limiter pm hk hd e (.inr ha) hs hread hsrc hino

/-- BRIDGE (Skip): the abstraction after `run_task` IS `execTask` of the model (any `dry_run`). -/
theorem skip_eq_model (hk : CleanPath k) (hd : task.dest_path = destOf ew.xw.root k) (ha : task.action = .Skip)
    (dry : Bool) :
    ∃ st' ew',
      runM (run_task (engineExt cfg) task transferrer verifier stats dry true mode limiter pm) ew =
        (.ok (.ok (), st'), ew') ∧
      absExec ew' st' = execTask cfg noFaults (absExec ew stats) (absTaskE cfg ew.xw task k) :=
  skip_eq_execTask cfg ew task k transferrer verifier stats mode limiter pm hk hd ha dry

/-- BRIDGE (Delete): the abstraction after `run_task` IS `execTask` of the model, for EVERY node at the key — a
    directory (with its subtree), a file, a link, NOTHING (already gone) — and in a dry run; the task always answers
    `Ok`. -/
theorem delete_eq_model (hk : CleanPath k) (hd : task.dest_path = destOf ew.xw.root k) (ha : task.action = .Delete) :
    ∃ st' ew',
      runM (run_task (engineExt cfg) task transferrer verifier stats cfg.dryRun true mode limiter pm) ew =
        (.ok (.ok (), st'), ew') ∧
      absExec ew' st' = execTask cfg noFaults (absExec ew stats) (absTaskE cfg ew.xw task k) :=
  delete_eq_execTask cfg ew task k transferrer verifier stats mode limiter pm hk hd ha

/-- the deletion of an ABSENT entry, spelled out: the translated executor fails (`Err.io`, which the instance calls
    `NotFound`: `GenTransfer.delete_absent_is_not_found`), the rule of `run_task` turns that into `Ok(())`, the deletion is
    COUNTED and its event emitted, no error is recorded, the world is untouched — and the model's `perform` answers
    "deleted" with the same world: they agree. -/
theorem delete_absent_agrees (hk : CleanPath k) (hd : task.dest_path = destOf ew.xw.root k) (ha : task.action = .Delete)
    (hdry : cfg.dryRun = false) (hn : ew.xw.w.dst.get? k = none) :
    runM ((engineExt cfg).transferrer_delete transferrer task.dest_path false) ew = (.error .io, ew) ∧
    (engineExt cfg).err_is_io .io = true ∧ (engineExt cfg).io_error_kind .io = ErrorKind.NotFound ∧
    perform cfg ew.xw.w (absTaskE cfg ew.xw task k) = some ew.xw.w ∧
    ∃ st' ew',
      runM (run_task (engineExt cfg) task transferrer verifier stats cfg.dryRun true mode limiter pm) ew =
        (.ok (.ok (), st'), ew') ∧
      ew'.xw = ew.xw ∧ ew'.log = ew.log ++ [SyncEvent.Delete task.dest_path] ∧
      st'.files_deleted = stats.files_deleted + 1 ∧ st'.errors = stats.errors := by
  have hrun : runM ((engineExt cfg).transferrer_delete transferrer task.dest_path false) ew = (.error .io, ew) := by
    rw [hd, delete_engine_run cfg ew k transferrer hk]
    simp [hdry, removeW, hn]
  have hperf : perform cfg ew.xw.w (absTaskE cfg ew.xw task k) = some ew.xw.w := by
    have : absTaskE cfg ew.xw task k = ⟨.delete, k, (absTaskE cfg ew.xw task k).payload⟩ := by
      simp [absTaskE, ha, absAct]
    rw [this, perform_delete_at]; simp [hdry, hn]
  refine ⟨hrun, rfl, rfl, hperf, ?_⟩
  obtain ⟨n, hp⟩ := deletePre_engine cfg ew task stats cfg.dryRun
  have hflag : (nodeAt ew.xw task.dest_path == some DNode.dir) = false := by
    rw [hd, nodeAt_destOf _ _ hk, hn]; rfl
  rw [hflag] at hp
  have hran := Ran.delOk (ext := engineExt cfg) (task := task) (transferrer := transferrer) (verifier := verifier)
    (stats := stats) (dry := cfg.dryRun) (json := true) (mode := mode) (limiter := limiter) (w := ew)
    ha _ _ _ _ _ _ hp hrun rfl (emit_engine cfg ew _)
  exact ⟨_, _, (run_task_iff_ran _ _ _ _ _ _ _ _ _ pm _ _ _ _).2 hran, rfl, rfl, rfl, rfl⟩

/-- BRIDGE, lifted to every task kind the model has: `Book` (counters, events, errors) agrees in EVERY case; the whole
    `Exec` (world included) agrees whenever the task answers `Ok`; after an `Err` (Create/Update only) the model keeps
    its world and the instance's differs from it as `Left` says (parents of `k` created / replaced link removed). -/
theorem run_task_eq_execTask_model (hk : CleanPath k) (hd : task.dest_path = destOf ew.xw.root k)
    (hsrc : ∀ e, task.source = some e → Readable cfg (toE e) ∧ SrcFile ew.xw (toE e) ∧ HasInode cfg (toE e))
    (hwork : (task.action = .Create ∨ task.action = .Update) → task.source.isSome = true) :
    ∃ res st' ew',
      runM (run_task (engineExt cfg) task transferrer verifier stats cfg.dryRun true mode limiter pm) ew =
        (.ok (res, st'), ew') ∧
      ew'.xw.root = ew.xw.root ∧
      (absExec ew' st').b = (execTask cfg noFaults (absExec ew stats) (absTaskE cfg ew.xw task k)).b ∧
      (∀ u, res = .ok u →
        absExec ew' st' = execTask cfg noFaults (absExec ew stats) (absTaskE cfg ew.xw task k)) ∧
      (∀ er, res = .error er → (execTask cfg noFaults (absExec ew stats) (absTaskE cfg ew.xw task k)).w = ew.xw.w ∧
        Left ew.xw ew'.xw k) :=
  run_task_eq_execTask cfg ew task k transferrer verifier stats mode limiter pm hk hd hsrc hwork

end bridge

/-! ## Part 4 — non-vacuity: a world that LOGS every call, the translated function run on it by the kernel, and the
    instance of Part 3 run on a concrete tree -/

/-- the world is the list of calls made so far -/
abbrev Log := List String

def logged {α : Type} (tag : String) (a : Except Rs.Err α) : Rs.M Log α := ExceptT.mk (fun w => (a, w ++ [tag]))

def evTag : SyncEvent → String
  | .Create _ _ _ => "emit:create" | .Update _ _ _ _ => "emit:update" | .Skip _ _ => "emit:skip"
  | .Delete _ => "emit:delete" | _ => "emit:other"

/-- every operation appends its name to the log and answers a fixed value; `delete` also logs the flag it was given;
    `Err.io` is the one `Io` error, of kind `kind` -/
def logExt (xfer : Except Rs.Err (Option TransferResult)) (verified : Except Rs.Err Bool) (isDir : Bool)
    (del : Except Rs.Err Unit) (kind : ErrorKind) : Ext Log where
  err_is_io e := e == .io
  io_error_kind _ := kind
  std_fs_metadata _ := logged "metadata" (.ok ⟨false, 0, 7⟩)
  tokio_time_sleep _ := logged "sleep" (.ok ())
  transferrer_create _ _ _ := logged "create" xfer
  transferrer_update _ _ _ := logged "update" xfer
  transferrer_delete _ _ b := logged (if b then "delete(dir)" else "delete(file)") del
  verify_transfer _ _ _ := logged "verify" verified
  emit ev := logged (evTag ev) (.ok ())
  limiter_consume _ _ := logged "consume" (.ok 5)
  path_is_dir _ := logged "is_dir" (.ok isDir)

def stats0 : SyncStats :=
  { files_scanned := 3, files_created := 0, files_updated := 0, files_skipped := 0, files_deleted := 0,
    bytes_transferred := 0, files_delta_synced := 0, delta_bytes_saved := 0, files_compressed := 0,
    compression_bytes_saved := 0, files_verified := 0, verification_failures := 0, duration := 0,
    bytes_would_add := 0, bytes_would_change := 0, bytes_would_delete := 0, errors := [] }

def exEntry : FileEntry :=
  { path := "/s/a".toList, relative_path := "a".toList, size := 10, modified := 5000, is_dir := false,
    is_symlink := false, symlink_target := none, is_sparse := false, allocated_size := 0, xattrs := none,
    inode := some 3, nlink := 1, acls := none, bsd_flags := none }

def exTask (a : SyncAction) : SyncTask :=
  { source := some exEntry, dest_path := "/d/a".toList, action := a, source_checksum := none, dest_checksum := none }

def exResult : TransferResult :=
  { bytes_written := 10, delta_operations := none, literal_bytes := none, transferred_bytes := none,
    compression_used := false }

def exErr (a : String) : SyncError := { path := "/d/a".toList, error := [], action := a.toList }

/-- Create, executor `Ok(Some)`, verification on, `verify_transfer` answers `Err`: a FAILURE is counted, the task is
    `Ok`, its event is emitted (seeded change C19b) -/
theorem run_create_verify_err :
    runM (run_task (logExt (.ok (some exResult)) (.error .io) false (.ok ()) .Other) (exTask .Create) {} {} stats0
      false true .Cryptographic none none) [] =
    (.ok (.ok (), { stats0 with files_created := 1, bytes_transferred := 10, verification_failures := 1 }),
      ["create", "verify", "emit:create"]) := by rfl

/-- … answers `Ok(true)`: verified; with a rate limiter: `consume`, then the sleep it asks for -/
theorem run_create_verified_limited :
    runM (run_task (logExt (.ok (some exResult)) (.ok true) false (.ok ()) .Other) (exTask .Create) {} {} stats0
      false true .Cryptographic (some {}) none) [] =
    (.ok (.ok (), { stats0 with files_created := 1, bytes_transferred := 10, files_verified := 1 }),
      ["create", "consume", "sleep", "verify", "emit:create"]) := by rfl

/-- Create, executor `Ok(None)` (dry run, directory, preserved or skipped link): COUNTED as created, nothing to verify -/
theorem run_create_none :
    runM (run_task (logExt (.ok none) (.ok true) false (.ok ()) .Other) (exTask .Create) {} {} stats0
      false true .Cryptographic none none) [] =
    (.ok (.ok (), { stats0 with files_created := 1 }), ["create", "emit:create"]) := by rfl

/-- Create, executor fails: ONE error record with action "create", no counter, NO event, nothing else is called -/
theorem run_create_error :
    runM (run_task (logExt (.error .io) (.ok true) false (.ok ()) .Other) (exTask .Create) {} {} stats0
      false true .Cryptographic (some {}) none) [] =
    (.ok (.error .io, { stats0 with errors := [exErr "create"] }), ["create"]) := by rfl

/-- Update, executor fails: the record says "update" -/
theorem run_update_error :
    runM (run_task (logExt (.error .io) (.ok true) false (.ok ()) .Other) (exTask .Update) {} {} stats0
      false true .Cryptographic none none) [] =
    (.ok (.error .io, { stats0 with errors := [exErr "update"] }), ["update"]) := by rfl

/-- Update with a delta result, `verify_transfer` answers `Ok(false)` -/
theorem run_update_delta_mismatch :
    runM (run_task (logExt (.ok (some { exResult with delta_operations := some 4, literal_bytes := some 3 }))
      (.ok false) false (.ok ()) .Other) (exTask .Update) {} {} stats0 false true .Fast none none) [] =
    (.ok (.ok (), { stats0 with files_updated := 1, bytes_transferred := 10, files_delta_synced := 1
                                delta_bytes_saved := 7, verification_failures := 1 }),
      ["update", "verify", "emit:update"]) := by rfl

/-- Skip: counted, one event — and none without `--json` -/
theorem run_skip :
    runM (run_task (logExt (.ok none) (.ok true) false (.ok ()) .Other) (exTask .Skip) {} {} stats0
      false true .Cryptographic none none) [] =
    (.ok (.ok (), { stats0 with files_skipped := 1 }), ["emit:skip"]) := by rfl

theorem run_skip_no_json :
    runM (run_task (logExt (.ok none) (.ok true) false (.ok ()) .Other) (exTask .Skip) {} {} stats0
      false false .Cryptographic none none) [] =
    (.ok (.ok (), { stats0 with files_skipped := 1 }), []) := by rfl

/-- Delete of a directory: `is_dir` is asked FIRST and handed to the executor; counted, one event -/
theorem run_delete_dir :
    runM (run_task (logExt (.ok none) (.ok true) true (.ok ()) .Other) (exTask .Delete) {} {} stats0
      false true .Cryptographic none none) [] =
    (.ok (.ok (), { stats0 with files_deleted := 1 }), ["is_dir", "delete(dir)", "emit:delete"]) := by rfl

/-- Delete, the executor fails with an `Io` error of kind NotFound: ALREADY GONE — counted as deleted, no error -/
theorem run_delete_not_found :
    runM (run_task (logExt (.ok none) (.ok true) false (.error .io) .NotFound) (exTask .Delete) {} {} stats0
      false true .Cryptographic none none) [] =
    (.ok (.ok (), { stats0 with files_deleted := 1 }), ["is_dir", "delete(file)", "emit:delete"]) := by rfl

/-- Delete, the executor fails with an `Io` error of ANOTHER kind (EIO on the unlink of a dangling link — seeded
    changes C10c / C19c): an error, recorded with action "delete", NOT counted, no event -/
theorem run_delete_eio :
    runM (run_task (logExt (.ok none) (.ok true) false (.error .io) .Other) (exTask .Delete) {} {} stats0
      false true .Cryptographic none none) [] =
    (.ok (.error .io, { stats0 with errors := [exErr "delete"] }), ["is_dir", "delete(file)"]) := by rfl

/-- … and an error that is not an `Io` error at all, whatever `io_error_kind` says of it -/
theorem run_delete_non_io :
    runM (run_task (logExt (.ok none) (.ok true) false (.error .other) .NotFound) (exTask .Delete) {} {} stats0
      false true .Cryptographic none none) [] =
    (.ok (.error .other, { stats0 with errors := [exErr "delete"] }), ["is_dir", "delete(file)"]) := by rfl

/-- Delete in a dry run of a non-directory: `metadata` for `bytes_would_delete`, then the executor -/
theorem run_delete_dry :
    runM (run_task (logExt (.ok none) (.ok true) false (.ok ()) .Other) (exTask .Delete) {} {} stats0
      true true .Cryptographic none none) [] =
    (.ok (.ok (), { stats0 with files_deleted := 1, bytes_would_delete := 7 }),
      ["is_dir", "metadata", "delete(file)", "emit:delete"]) := by rfl

/-- a Create task without source entry: nothing at all -/
theorem run_create_no_source :
    runM (run_task (logExt (.ok none) (.ok true) false (.ok ()) .Other) { (exTask .Create) with source := none } {} {}
      stats0 false true .Cryptographic none none) [] = (.ok (.ok (), stats0), []) := by rfl

/-- the hypotheses of `verification_outcome` / `verify_error_is_failure` / `delete_ok_iff` are satisfiable -/
example : runM (xferCall (logExt (.ok (some exResult)) (.error .io) false (.ok ()) .Other) (exTask .Create) {} exEntry) [] =
    (.ok (some exResult), ["create"]) := rfl
example : runM (throttle (logExt (.ok (some exResult)) (.error .io) false (.ok ()) .Other) none exResult.bytes_written)
    ["create"] = (.ok (), ["create"]) := rfl
example : (runM ((logExt (.ok (some exResult)) (.error .io) false (.ok ()) .Other).verify_transfer {} exEntry.path
    (exTask .Create).dest_path) ["create"]).1 = .error .io := rfl
example : runM (deletePre (logExt (.ok none) (.ok true) false (.error .io) .Other) (exTask .Delete) false stats0) [] =
    (.ok (false, stats0), ["is_dir"]) := rfl
example : VerifyDue (logExt (.ok (some exResult)) (.error .io) false (.ok ()) .Other) (exTask .Create) {} false
    .Cryptographic ([] : Log) :=
  ⟨exEntry, exResult, _, .inl rfl, rfl, rfl, by decide, rfl, rfl⟩
example : ¬ VerifyDue (logExt (.ok none) (.error .io) false (.ok ()) .Other) (exTask .Create) {} false
    .Cryptographic ([] : Log) := by
  rintro ⟨s, r, w1, _, _, h, _⟩
  have : (runM (xferCall (logExt (.ok none) (.error .io) false (.ok ()) .Other) (exTask .Create) {} s) ([] : Log)).1 =
      .ok none := rfl
  rw [h] at this; cases this

/-! ### the instance of Part 3 on a concrete tree (the world of Props/GenTransfer Part 5) -/

open SyModel.Engine SyModel.Lemmas.GenTransfer in
def exCfg : Cfg := SyModel.Props.GenTransfer.exCfg

open SyModel.Engine SyModel.Lemmas.GenTransfer in
/-- destination `/dst` holding the directory `a` and the file `a/old`; sources `/src/f` (regular file) -/
def exEW : EWorld := { xw := SyModel.Props.GenTransfer.exWorld, log := [] }

def exSrcEntry : FileEntry :=
  { path := "/src/f".toList, relative_path := "f".toList, size := 10, modified := 5000, is_dir := false,
    is_symlink := false, symlink_target := none, is_sparse := false, allocated_size := 0,
    xattrs := none, inode := some 3, nlink := 1, acls := none, bsd_flags := none }

open SyModel.Engine SyModel.Lemmas.GenTransfer in
def exTaskAt (a : SyncAction) (k : Engine.Path) : SyncTask :=
  { source := some exSrcEntry, dest_path := destOf exEW.xw.root k, action := a, source_checksum := none,
    dest_checksum := none }

/-- a decidable view of what the task answered: `Ok`/`Err` and the stats -/
def view (r : Except Rs.Err (Except Rs.Err Unit × SyncStats)) : Option (Bool × SyncStats) :=
  match r with
  | .ok (res, st) => some (isOk res, st)
  | .error _ => none

section
open SyModel.Engine SyModel.Lemmas.GenTransfer
example : CleanPath ["a", "f"] := by decide
example : (exTaskAt .Create ["a", "f"]).dest_path = destOf exEW.xw.root ["a", "f"] := rfl
example : Readable exCfg (toE exSrcEntry) := fun h => by cases h
example : SrcFile exEW.xw (toE exSrcEntry) := fun _ _ => ⟨_, rfl⟩
example : HasInode exCfg (toE exSrcEntry) := fun _ _ _ h => by simp [toE, exSrcEntry] at h
example : exCfg.dryRun = false ∧ exEW.xw.w.dst.get? ["gone"] = none := by decide

/-- Create of `a/f` with verification on, run by the kernel through BOTH translated units: the file is there, it
    verifies (content ids equal), one `create` event, `files_created = 1` -/
example : view (runM (run_task (engineExt exCfg) (exTaskAt .Create ["a", "f"]) {} {} stats0 false true .Cryptographic none
    none) exEW).1 = some (true, { stats0 with files_created := 1, bytes_transferred := 10, files_verified := 1 }) := by
  decide
example : (runM (run_task (engineExt exCfg) (exTaskAt .Create ["a", "f"]) {} {} stats0 false true .Cryptographic none none)
    exEW).2.log = [SyncEvent.Create (destOf exEW.xw.root ["a", "f"]) 10 10] := by decide
/-- Create of a file where the destination holds the DIRECTORY `a`: the copy fails, one error record, no event -/
example : view (runM (run_task (engineExt exCfg) (exTaskAt .Create ["a"]) {} {} stats0 false true .Cryptographic none none)
    exEW).1 = some (false, { stats0 with errors := [⟨destOf exEW.xw.root ["a"], [], "create".toList⟩] }) := by decide
example : (runM (run_task (engineExt exCfg) (exTaskAt .Create ["a"]) {} {} stats0 false true .Cryptographic none none)
    exEW).2.log = [] := by decide
/-- Delete of the directory `a`: gone with `a/old`; Delete of the absent `gone`: counted, world untouched -/
example : (runM (run_task (engineExt exCfg) (exTaskAt .Delete ["a"]) {} {} stats0 false true .None none none)
    exEW).2.xw.w.dst = [] := by decide
example : view (runM (run_task (engineExt exCfg) (exTaskAt .Delete ["gone"]) {} {} stats0 false true .None none none)
    exEW).1 = some (true, { stats0 with files_deleted := 1 }) := by decide
end

end SyModel.Props.GenEngineTask
