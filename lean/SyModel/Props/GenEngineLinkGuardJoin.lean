/-
  GenEngineLinkGuardJoin — the predicate of the TRANSLATED link guard (`Props/GenEngineLinkGuard.holds`, repair 0e87354) read on the
  paths the engine actually builds, `destination.join(relative)`: in COMPONENT terms it holds exactly when the task's relative path
  lies STRICTLY below the replaced link's relative path and the link is still a symlink.  This ties the guard's textual test
  (`!=` and `Path::starts_with`, the latter run against std by the harness stream `prelude`) to the entry-level model's
  `FailCause.ancestor`, which is stated over component lists (`isPrefix`): `dx/a` is not below `d`, `d` is not below itself.
-/
import SyModel.Props.GenEngineLinkGuard
import SyModel.Lemmas.GenEnginePlan
namespace SyModel.Props.GenEngineLinkGuardJoin
open SyModel SyModel.Engine SyModel.Generated
open SyModel.Props.GenEngineLinkGuard
open SyModel.Lemmas.GenEnginePlan (path_starts_with_join)
open SyModel.Lemmas.GenPlannerFx (compsOf)

/-- `Path::join` with a fixed root is injective in the relative part -/
theorem join_injective (root a b : Rs.Path) (h : Rs.join root a = Rs.join root b) : a = b := by
  unfold Rs.join at h
  cases root with
  | nil => simpa using h
  | cons x t =>
    simp only [List.isEmpty_cons, Bool.false_eq_true, if_false] at h
    have := List.append_cancel_left h
    simpa using this

/-- **the guard in component terms** -/
theorem holds_join {W : Type} (ext : EngineLinkGuard.Ext W) (w : W) (task : EngineLinkGuard.SyncTask) (root a b : Rs.Path) (hb : b ≠ [])
    (hd : task.dest_path = Rs.join root a) :
    holds ext w task (Rs.join root b) =
      ((a != b && isPrefix (compsOf b) (compsOf a)) && isLink ext w (Rs.join root b)) := by
  unfold holds
  rw [hd, path_starts_with_join root a b hb]
  congr 2
  rw [Bool.eq_iff_iff]
  simp only [bne_iff_ne, ne_eq]
  constructor
  · intro h e; exact h (by rw [e])
  · intro h e; exact h (join_injective root a b e)

/-- a task whose relative path is not strictly below the link's is never held back by that link, whatever the world -/
theorem not_below_not_held {W : Type} (ext : EngineLinkGuard.Ext W) (w : W) (task : EngineLinkGuard.SyncTask) (root a b : Rs.Path) (hb : b ≠ [])
    (hd : task.dest_path = Rs.join root a) (hn : isPrefix (compsOf b) (compsOf a) = false) :
    holds ext w task (Rs.join root b) = false := by
  rw [holds_join ext w task root a b hb hd, hn]; simp

/-- non-vacuity: `d/a` below `d` under the root `dst`; `dx/a` is not -/
example : (("d/a".toList != "d".toList) && isPrefix (compsOf "d".toList) (compsOf "d/a".toList)) = true := by decide
example : isPrefix (compsOf "d".toList) (compsOf "dx/a".toList) = false := by decide

end SyModel.Props.GenEngineLinkGuardJoin
