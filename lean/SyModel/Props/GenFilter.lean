/-
  GenFilter — the translated `FilterRule::matches`, `FilterEngine::{should_include, should_exclude}`
  (src/filter.rs, regenerated into `SyModel/Generated/Code/Filter.lean` on every run) compute the handwritten
  `Filter.Rule.matches` / `Filter.shouldInclude` that C16 is about.

  Abstraction map.
    * `FilterRule ↦ Rule` (`absRule`): `action == Include ↦ isInclude`, `pattern.text ↦ glob`
      (`Pattern::as_str()`), `pattern.toks ↦ toks` (the compiled pattern), `has_slash`, `is_dir_only`,
      `pattern_str ↦ patternStr` (neither side's `matches` reads it).
    * `FilterEngine ↦ List Rule` (`absEngine`): the rules, in order.
    * paths: both sides use `Filter.RelPath` (the component list); the meaning of `Path::to_str`, `file_name`,
      `ancestors` on it is the vocabulary of `Generated/PreludeFilter.lean` (trusted, = the conventions
      documented at the top of `Filter/Rule.lean`).
  No hypotheses: the theorems hold for all rules, all paths (clean or not), both values of `is_dir`.
-/
import SyModel.Generated.Code.Filter
import SyModel.Filter.ScanFilter
namespace SyModel.Props.GenFilter
open SyModel SyModel.Filter SyModel.Generated SyModel.Generated.Filter

/-! ### the abstraction map -/

def absRule (r : FilterRule) : Rule :=
  { isInclude := r.action == FilterAction.Include
    patternStr := r.pattern_str
    glob := r.pattern.text
    toks := r.pattern.toks
    hasSlash := r.has_slash
    dirOnly := r.is_dir_only }

def absEngine (e : FilterEngine) : List Rule := e.rules.map absRule

/-- the map is onto: every model rule is the image of a generated rule (nothing of the model is vacuous). -/
theorem absRule_onto (m : Rule) : ∃ r : FilterRule, absRule r = m :=
  ⟨⟨if m.isInclude then .Include else .Exclude, ⟨m.glob, m.toks⟩, m.patternStr, m.hasSlash, m.dirOnly⟩, by
    cases m with | mk i p g t h d => cases i <;> simp [absRule]⟩

/-! ### a `for` loop in `Id` whose body is `if c a then return v a` (and nothing else) -/

/-- the loop runs to the first element satisfying `c`, leaving `some (v a)` in the return slot, or to the end of
    the list, leaving `none`.  `f` is the body as the `do` elaborator produces it; `hf` says what it computes. -/
theorem forIn_early_return {α β : Type} (l : List α) (c : α → Bool) (v : α → β)
    (f : α → Option β × Unit → Id (ForInStep (Option β × Unit)))
    (hf : ∀ a s, f a s = if c a = true then pure (ForInStep.done (some (v a), ()))
                          else pure (ForInStep.yield (none, ()))) :
    forIn l ((none : Option β), ()) f = (pure ((l.find? c).map v, ()) : Id (Option β × Unit)) := by
  induction l with
  | nil => rfl
  | cons a t ih =>
    rw [List.forIn_cons, hf]
    cases hc : c a
    · simpa [hc] using ih
    · simp [hc]

/-- the same with what follows the loop. -/
theorem forIn_early_return_bind {α β γ : Type} (l : List α) (c : α → Bool) (v : α → β)
    (f : α → Option β × Unit → Id (ForInStep (Option β × Unit)))
    (hf : ∀ a s, f a s = if c a = true then pure (ForInStep.done (some (v a), ()))
                          else pure (ForInStep.yield (none, ())))
    (k : Option β × Unit → Id γ) :
    (forIn l ((none : Option β), ()) f >>= k) = k ((l.find? c).map v, ()) := by
  rw [forIn_early_return l c v f hf]; rfl

theorem any_eq_find?_isSome {α : Type} (l : List α) (c : α → Bool) : l.any c = (l.find? c).isSome := by
  induction l with
  | nil => rfl
  | cons a t ih => cases hc : c a <;> simp_all

/-- GENERAL LOOP LEMMA: `for a in l { if c a { return true } }; false` in `Id`  =  `List.any`. -/
theorem forIn_return_true_eq_any {α : Type} (l : List α) (c : α → Bool)
    (f : α → Option Bool × Unit → Id (ForInStep (Option Bool × Unit)))
    (hf : ∀ a s, f a s = if c a = true then pure (ForInStep.done (some true, ()))
                          else pure (ForInStep.yield (none, ()))) :
    (forIn l ((none : Option Bool), ()) f >>= fun s => match s.fst with | some r => pure r | none => pure false)
      = (pure (l.any c) : Id Bool) := by
  rw [forIn_early_return_bind l c (fun _ => true) f hf, any_eq_find?_isSome]
  cases List.find? c l <;> rfl

/-- first match decides, `true` if none  =  the model's `shouldIncludeLoop`. -/
theorem shouldIncludeLoop_eq_find? (path : RelPath) (isDir : Bool) (rs : List FilterRule)
    (hm : ∀ r : FilterRule, r.matches path isDir = (absRule r).matches path isDir) :
    shouldIncludeLoop path isDir (rs.map absRule) =
      ((rs.find? (fun r => r.matches path isDir)).map (fun r => r.action == FilterAction.Include)).getD true := by
  induction rs with
  | nil => rfl
  | cons a t ih =>
    have hma := hm a
    simp only [List.find?_cons, List.map_cons, shouldIncludeLoop, ← hma]
    cases hc : a.matches path isDir
    · simpa using ih
    · simp [absRule]

/-! ### the vocabulary, on `RelPath` -/

theorem skip_ancestors (p : RelPath) : Rs.skip (Rs.ancestors p) 1 = ancestorsSkip1 p := by
  simp [Rs.skip, Rs.ancestors]

theorem is_empty_eq {α : Type} (s : List α) : Rs.is_empty s = s.isEmpty := by
  cases s <;> simp [Rs.is_empty, Rs.len]

theorem opt_cases {α : Type} (o : Option α) : o = none ∨ ∃ b, o = some b := by
  cases o <;> simp

theorem as_str_pat (g : Rs.GlobPattern) : Rs.as_str g = g.text := rfl

theorem to_str_path (p : RelPath) : Rs.to_str p = some (pathStr p) := rfl

theorem file_name_to_str (p : RelPath) :
    Rs.and_then (Rs.file_name p) (fun n => Rs.to_str n) = fileName p := by
  unfold Rs.and_then Rs.file_name
  cases fileName p <;> rfl

/-! ### BRIDGE: `FilterRule::matches` -/

theorem matches_eq_model (r : FilterRule) (path : RelPath) (is_dir : Bool) :
    r.matches path is_dir = (absRule r).matches path is_dir := by
  obtain ⟨act, pat, pstr, has_slash, dir_only⟩ := r
  unfold FilterRule.matches Rule.matches
  dsimp only [absRule]
  simp only [skip_ancestors, to_str_path, file_name_to_str, as_str_pat, is_empty_eq, Rs.matches,
    any_eq_find?_isSome]
  -- the two ancestor loops
  have loop1 := @forIn_early_return_bind _ Bool Bool (ancestorsSkip1 path)
    (fun a => !(pathStr a).isEmpty && globMatch pat.toks (pathStr a)) (fun _ => true)
  have loop2 := @forIn_early_return_bind _ Bool Bool (ancestorsSkip1 path)
    (fun a => matchesBase pat.toks a) (fun _ => true)
  cases dir_only <;> cases has_slash <;> simp only [Id.run, Bool.false_eq_true, if_false, if_true]
  · -- plain name pattern: the base name
    unfold matchesBase
    obtain h | ⟨b, h⟩ := opt_cases (fileName path) <;> simp only [h] <;> rfl
  · -- plain path pattern: the full path
    rfl
  · -- `name/`
    by_cases hw : (pat.text == ['*']) = true
    · -- `*/`: directories only, never their contents
      rw [if_pos hw, if_pos hw]
      cases is_dir
      · rfl
      · simp only [Bool.not_true, Bool.false_eq_true, if_false]
        unfold matchesBase
        obtain h | ⟨b, h⟩ := opt_cases (fileName path) <;> simp only [h] <;> rfl
    · -- `build/`: the directory itself, or any ancestor's base name
      rw [if_neg hw, if_neg hw]
      rw [loop2]
      case hf =>
        intro a s
        unfold matchesBase
        obtain h | ⟨b, h⟩ := opt_cases (fileName a) <;> simp only [h] <;> rfl
      generalize List.find? _ (ancestorsSkip1 path) = o
      unfold matchesBase
      obtain h | ⟨b, h⟩ := opt_cases (fileName path) <;> simp only [h] <;>
        cases o <;> cases is_dir <;> (try cases globMatch pat.toks b) <;> rfl
  · -- `a/b/`: the full path of the entry (if a directory), then of each non-empty ancestor
    simp only [loop1 _ (fun _ _ => rfl)]
    generalize List.find? _ (ancestorsSkip1 path) = o
    cases o <;> cases is_dir <;> cases globMatch pat.toks (pathStr path) <;> rfl

/-! ### BRIDGE: `FilterEngine::should_include`, `should_exclude` -/

theorem should_include_eq_model (e : FilterEngine) (path : RelPath) (is_dir : Bool) :
    e.should_include path is_dir = shouldInclude (absEngine e) path is_dir := by
  unfold FilterEngine.should_include shouldInclude absEngine
  have loop := @forIn_early_return_bind _ Bool Bool e.rules (fun r => r.matches path is_dir)
    (fun r => r.action == FilterAction.Include)
  cases hr : e.rules with
  | nil => rfl
  | cons a t =>
    rw [← hr, shouldIncludeLoop_eq_find? path is_dir e.rules (fun r => matches_eq_model r path is_dir)]
    simp only [is_empty_eq, hr, List.isEmpty_cons, List.map_cons, Bool.false_eq_true, if_false, Id.run]
    rw [← hr, loop _ (fun _ _ => rfl)]
    generalize List.find? _ e.rules = o
    cases o <;> rfl

theorem should_exclude_eq_model (e : FilterEngine) (path : RelPath) (is_dir : Bool) :
    e.should_exclude path is_dir = !shouldInclude (absEngine e) path is_dir := by
  unfold FilterEngine.should_exclude
  rw [should_include_eq_model]

/-! ### the scan filter of `SyncEngine::sync` (src/sync/mod.rs): size bounds, the `.filter(|file| …)` closure

  Abstraction map: `SyncEngine` (the view of the fields the filter reads) ↦ `FilterCfg` (`absCfg`: rules through
  `absEngine`, `min_size ↦ minSize`, `max_size ↦ maxSize`); `FileEntry` (view) ↦ `Entry` (`absEntry`:
  `relative_path ↦ rel`, `is_dir ↦ isDir`, `size`).  The closure's captured `excluded_dirs` is the model's
  `ScanState.excludedDirs`; the model's `kept` is what `.filter(..).collect()` has collected so far. -/

def absCfg (e : SyncEngine) : FilterCfg :=
  { rules := absEngine e.filter_engine, minSize := e.min_size, maxSize := e.max_size }

def absEntry (f : FileEntry) : Entry := { rel := f.relative_path, isDir := f.is_dir, size := f.size }

/-- BRIDGE (a): `should_filter_by_size`, all bounds (present or absent, ordered or not), all sizes. -/
theorem should_filter_by_size_eq_model (e : SyncEngine) (size : Nat) :
    e.should_filter_by_size size = filterBySize (absCfg e) size := by
  obtain ⟨fe, mn, mx⟩ := e
  unfold SyncEngine.should_filter_by_size filterBySize
  dsimp only [absCfg]
  cases mn <;> cases mx <;> simp only [Id.run]
  · rfl
  · rename_i mx; cases decide (size > mx) <;> rfl
  · rename_i mn; cases decide (size < mn) <;> rfl
  · rename_i mn mx; cases decide (size < mn) <;> cases decide (size > mx) <;> rfl

theorem engine_should_exclude_eq_model (e : SyncEngine) (path : RelPath) (is_dir : Bool) :
    e.should_exclude path is_dir = !shouldInclude (absCfg e).rules path is_dir := by
  unfold SyncEngine.should_exclude
  rw [should_exclude_eq_model]; rfl

/-- BRIDGE (b): one call of the closure is one `scanStep`: the new `excluded_dirs` are the model's, and the entry is
    appended to `kept` exactly when the closure answers `true`.  All engines, all `excluded_dirs`, all entries,
    any `kept`. -/
theorem scan_filter_step_eq_model (e : SyncEngine) (dirs : List RelPath) (kept : List Entry) (f : FileEntry) :
    scanStep (absCfg e) ⟨dirs, kept⟩ (absEntry f) =
      ⟨(scan_filter_step e dirs f).2,
       if (scan_filter_step e dirs f).1 = true then kept ++ [absEntry f] else kept⟩ := by
  unfold scan_filter_step scanStep
  simp only [Id.run]
  rw [forIn_early_return_bind dirs (fun d => Rs.starts_with f.relative_path d) (fun _ => (false, dirs)) _
    (fun _ _ => rfl)]
  rw [engine_should_exclude_eq_model, should_filter_by_size_eq_model, any_eq_find?_isSome]
  have hsw : (fun d => startsWith (absEntry f).rel d) = (fun d => Rs.starts_with f.relative_path d) := rfl
  rw [hsw]
  generalize List.find? (fun d => Rs.starts_with f.relative_path d) dirs = o
  have h1 : (absEntry f).rel = f.relative_path := rfl
  have h2 : (absEntry f).isDir = f.is_dir := rfl
  have h3 : (absEntry f).size = f.size := rfl
  rw [h1, h2, h3]
  cases o <;> cases shouldInclude (absCfg e).rules f.relative_path f.is_dir <;> cases f.is_dir <;>
    cases filterBySize (absCfg e) f.size <;> rfl

/-- `all_files.into_iter().filter(closure).collect()`: the closure threaded over the scan (its captured
    `excluded_dirs` passed along), keeping the entries it answers `true` for. -/
def scanFold (e : SyncEngine) : List RelPath → List FileEntry → List FileEntry
  | _, [] => []
  | dirs, f :: t =>
    let r := scan_filter_step e dirs f
    if r.1 = true then f :: scanFold e r.2 t else scanFold e r.2 t

theorem scanFold_eq_foldl (e : SyncEngine) (scan : List FileEntry) (dirs : List RelPath) (kept : List Entry) :
    ((scan.map absEntry).foldl (scanStep (absCfg e)) ⟨dirs, kept⟩).kept =
      kept ++ (scanFold e dirs scan).map absEntry := by
  induction scan generalizing dirs kept with
  | nil => simp [scanFold]
  | cons f t ih =>
    rw [List.map_cons, List.foldl_cons, scan_filter_step_eq_model, ih]
    have hstep : scanFold e dirs (f :: t) =
        if (scan_filter_step e dirs f).1 = true then f :: scanFold e (scan_filter_step e dirs f).2 t
        else scanFold e (scan_filter_step e dirs f).2 t := rfl
    rw [hstep]
    cases h : (scan_filter_step e dirs f).1 <;> simp

/-- BRIDGE (c): the whole filter of `SyncEngine::sync` is the model's `scanFilter`, for every engine and scan. -/
theorem scan_filter_eq_model (e : SyncEngine) (scan : List FileEntry) :
    (scanFold e [] scan).map absEntry = scanFilter (absCfg e) (scan.map absEntry) := by
  unfold scanFilter
  have := scanFold_eq_foldl e scan [] []
  simpa using this.symm

end SyModel.Props.GenFilter
