/-
  C08 — Dry-run changes nothing and its plan matches the real run.
  Property theorems only.
-/
import SyModel.Lemmas.Engine
namespace SyModel.Props.C08
open SyModel SyModel.Engine

/-- the same configuration with `--dry-run` switched on / off -/
def dry (cfg : Cfg) : Cfg := { cfg with dryRun := true }
def wet (cfg : Cfg) : Cfg := { cfg with dryRun := false }

/-- With --dry-run the destination is returned unchanged — for every other flag
    (incl. --delete, thresholds, link modes, -X, -H, compare modes) and every pair of trees. -/
theorem dry_run_noop (cfg : Cfg) (flt : Faults) (scan : List SEntry) (dst : Map DNode) (n : Nat)
    (h : cfg.dryRun = true) : (runF cfg flt scan dst n).dst = dst := by
  unfold runF
  simp only
  split
  · rfl
  · simp only [foldl_execTask_dry_w cfg flt h, initExec]

/-- … and no task fails in a dry run, so a dry run that is not refused exits 0. -/
theorem dry_run_no_errors (cfg : Cfg) (flt : Faults) (scan : List SEntry) (dst : Map DNode) (n : Nat)
    (h : cfg.dryRun = true) : (runF cfg flt scan dst n).errors = [] := by
  unfold runF
  simp only
  split
  · rfl
  · simp only [foldl_execTask_dry_errors cfg flt h, initExec, List.reverse_nil]

/-- Planning does not look at the dry-run flag: the task list is identical. -/
theorem dry_run_same_plan (cfg : Cfg) (scan : List SEntry) (dst : Map DNode) :
    plan (dry cfg) scan dst = plan (wet cfg) scan dst :=
  (plan_dry cfg true scan dst).trans (plan_dry cfg false scan dst).symm

/-- The guard decides identically with and without --dry-run. -/
theorem dry_run_same_refusal (cfg : Cfg) (flt : Faults) (scan : List SEntry) (dst : Map DNode) (n : Nat) :
    (runF (dry cfg) flt scan dst n).refused = (runF (wet cfg) flt scan dst n).refused := by
  have hg : ∀ d c, guardRefuses (dry cfg) d c = guardRefuses (wet cfg) d c := fun _ _ => rfl
  unfold runF
  simp only [dry_run_same_plan, hg]
  split <;> rfl

/-- The actions a dry run reports are exactly the actions of the real run on the same trees,
    in the same order, whenever no task of the real run fails. -/
theorem dry_run_plan_eq (cfg : Cfg) (flt : Faults) (scan : List SEntry) (dst : Map DNode) (n : Nat)
    (hok : (runF (wet cfg) flt scan dst n).errors = []) :
    (runF (dry cfg) flt scan dst n).events = (runF (wet cfg) flt scan dst n).events := by
  have hg : ∀ d c, guardRefuses (dry cfg) d c = guardRefuses (wet cfg) d c := fun _ _ => rfl
  unfold runF at hok ⊢
  simp only [dry_run_same_plan, hg] at hok ⊢
  by_cases hr : guardRefuses (wet cfg) (List.filter (fun x => x.act == Act.delete) (plan (wet cfg) scan dst)).length
      (destCount dst) = true
  · simp only [hr, ↓reduceIte]
  · simp only [hr, Bool.false_eq_true, ↓reduceIte, List.reverse_eq_nil_iff] at hok ⊢
    rw [foldl_execTask_dry_events (dry cfg) flt rfl]
    rw [foldl_execTask_events_of_no_errors (wet cfg) flt _ _ (by rw [hok]; rfl)]

/-- … and the counters agree as well. -/
theorem dry_run_counters_eq (cfg : Cfg) (flt : Faults) (scan : List SEntry) (dst : Map DNode) (n : Nat)
    (hok : (runF (wet cfg) flt scan dst n).errors = []) :
    countAct .create (runF (dry cfg) flt scan dst n).events = countAct .create (runF (wet cfg) flt scan dst n).events ∧
    countAct .update (runF (dry cfg) flt scan dst n).events = countAct .update (runF (wet cfg) flt scan dst n).events ∧
    countAct .delete (runF (dry cfg) flt scan dst n).events = countAct .delete (runF (wet cfg) flt scan dst n).events ∧
    countAct .skip (runF (dry cfg) flt scan dst n).events = countAct .skip (runF (wet cfg) flt scan dst n).events := by
  rw [dry_run_plan_eq cfg flt scan dst n hok]; exact ⟨rfl, rfl, rfl, rfl⟩

/-! ### non-vacuity -/

def exCfg : Cfg where
  delete := true
  force := true
  dryRun := true
  xattrs := false
  hardlinks := false
  threshold := 50
  links := .preserve
  compare := .default
  minSize := none
  maxSize := none
  maxErrors := 100
  tie := false

def exScan : List SEntry :=
  [{ rel := ["a"], kind := .file { content := 1, size := 3, mtime := 5, xattrs := [], ino := 1 } 1, size := 3, excluded := false }]
def exDst : Map DNode := [(["z"], .dir)]

example : (run exCfg exScan exDst 10).dst = exDst := dry_run_noop exCfg noFaults exScan exDst 10 rfl
example : (plan exCfg exScan exDst).length = 2 := by decide

end SyModel.Props.C08
