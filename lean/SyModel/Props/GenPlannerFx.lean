/-
  GenPlannerFx — the translated planner of one-way sync, as an EFFECT unit
  (`SyModel/Generated/Code/PlannerFx.lean`, regenerated on every run from src/sync/strategy.rs:
  `StrategyPlanner::{plan_file_async, compute_checksums_local, needs_update, mtime_matches, plan_deletions}` and
  src/sync/mod.rs `SyncEngine::plan_symlink`),
  computes the handwritten engine model's `planEntry` / `planFileAct` / `planEntryDb` / `planDeletions`
  (`Engine/Model.lean`, `Engine/Caches.lean`) that C01, C03, C06, C18 are about.

  The world, the instance `extOf : Ext PlanWorld` (all externs are READ-ONLY probes of a `PlanWorld`: destination tree
  as the model's `Map DNode` under a root text, what links resolve to, what paths outside the destination hold, the
  checksum database as the model's `Db`) and the abstraction maps (`absAct`, `absEntry`, `absMeta`, `absTask`,
  `modeOf`, `compsOf`/`textOf`) are defined and documented in `Lemmas/GenPlannerFx.lean`.  `runM x w` is the pair
  (result, world afterwards) of running `x : Rs.M W α` from `w`.

  Hypotheses used below (each with a satisfiability example at the end):
    * the planner is called with the world's root: `dest_root = w.root` (the world IS the destination seen from
      that root);
    * `FromCli p` — the planner value was built by `with_comparison_flags`/`new` (tolerance 1 s; a `Fast` verifier
      exactly with `--checksum`); the fields are private, the crate builds no other value;
    * `NotLinkAt w rel` — no symlink node at the probed destination path.  The probes follow links; the model treats
      a symlink at a FILE's path as "never up to date", which the engine implements OUTSIDE this unit
      (src/sync/mod.rs:547-556) — `plan_file_async_file_over_link_fixup` proves that fix-up applied to the translated
      planner's answer gives the model's answer, for every link target.  For a DIRECTORY entry over a link the engine's
      planning loop overrides the answer with Update (fix 862af11, again OUTSIDE this unit):
      `plan_file_async_dir_override_eq_model` states `planEntry` = override ∘ `plan_file_async` for EVERY destination
      node, `plan_file_async_dir_over_link_probes_through` what `plan_file_async` alone still does;
    * `hsrc` — with `--checksum` the source file is a readable regular file (it was just scanned; otherwise see
      `plan_file_async_unreadable_source_updates`);
    * `CleanKeys w` — the destination keys are paths a walk can produce (non-empty components without `/`);
    * for `plan_symlink`: `file.is_symlink = true` (the caller's guard, src/sync/mod.rs:538), in preserve mode
      `symlink_target = Some(text)` (the scanner read the link; otherwise `plan_symlink_preserve_no_target`), in follow
      mode `file.is_dir = false` (the lstat kind of a link) and, with a database, no matching row on either side
      (`planEntryDb` does not consult the database for link entries).  `absLinkEntry` maps the entry to
      `.symlink text tgt` with `tgt` = what `std::fs::metadata(file.path)` finds (xattrs/inode of the target are
      not carried by the generated entry and are mapped as `absMeta` maps them);
    * for `planEntryDb`: `src.path = srcRoot.join(relative_path)` (the scanner's invariant) and `hmiss`: the
      database has no matching row for the DESTINATION path.  `planEntryDb` does not model the destination-side lookup
      of `compute_checksums_local`; `plan_file_async_db_dest_row_differs` is the concrete disagreement.
-/
import SyModel.Lemmas.GenPlannerFx
import SyModel.Props.C03
set_option linter.unusedVariables false
set_option linter.unusedSimpArgs false
namespace SyModel.Props.GenPlannerFx
open SyModel SyModel.Engine SyModel.Generated SyModel.Generated.PlannerFx SyModel.Lemmas.GenPlannerFx

/-! ### the pure kernels (re-translated inside this unit) -/

/-- BRIDGE: `mtime_matches` of a CLI-built planner is the model's `mtimeMatches`. -/
theorem mtime_matches_eq_model (p : StrategyPlanner) (hp : FromCli p) (a b : Rs.SystemTime) :
    p.mtime_matches a b = mtimeMatches a b := mtime_matches_eq_model' p hp.tol a b

/-- BRIDGE: `needs_update` of a CLI-built planner is the model's `needsUpdate` at the mode its flags stand for. -/
theorem needs_update_eq_model (p : StrategyPlanner) (hp : FromCli p) (src : FileEntry) (dst : FileInfo) :
    p.needs_update src dst = needsUpdate (modeOf p) src.size src.modified dst.size dst.modified :=
  needs_update_eq_model' p hp.tol src dst

/-! ### `plan_file_async`: totality and purity — every planner value, entry, world, database handle -/

/-- `plan_file_async` never returns `Err` (every probe failure is turned into a decision; the `?` on
    `compute_checksums_local` never fires because that function never fails). -/
theorem plan_file_async_never_fails (p : StrategyPlanner) (src : FileEntry) (w : PlanWorld) (t : Rs.Opaque)
    (db : Option Rs.Opaque) : ∃ task, (runM (p.plan_file_async extOf src w.root t db) w).1 = .ok task :=
  ⟨_, by rw [plan_file_async_run]⟩

/-- `plan_file_async` leaves the world as it found it. -/
theorem plan_file_async_read_only (p : StrategyPlanner) (src : FileEntry) (w : PlanWorld) (t : Rs.Opaque)
    (db : Option Rs.Opaque) : (runM (p.plan_file_async extOf src w.root t db) w).2 = w := by
  rw [plan_file_async_run]

/-- the task names the entry it was planned for, and its destination path is the root joined with the entry's
    relative path; the action is never `Delete`. -/
theorem plan_file_async_task_shape (p : StrategyPlanner) (src : FileEntry) (w : PlanWorld) (t : Rs.Opaque)
    (db : Option Rs.Opaque) :
    ∃ task, runM (p.plan_file_async extOf src w.root t db) w = (.ok task, w) ∧ task.source = some src ∧
      task.dest_path = Rs.join w.root src.relative_path ∧ w.relOf task.dest_path = some (compsOf src.relative_path) ∧
      task.action ≠ .Delete := by
  refine ⟨_, plan_file_async_run p src w t db, rfl, rfl, relOf_join w _, ?_⟩
  show (planAt w p src db.isSome).1 ≠ .Delete
  unfold planAt
  split <;> simp
  unfold decideAct
  split <;> split <;> simp

/-! ### `plan_file_async` = `planEntry` -/

/-- BRIDGE (directory entries): Skip iff the destination has a directory there, Create otherwise — also over a regular
    file (the creation then fails) — exactly the model's `planEntry … (.dir)`; no checksum is computed. -/
theorem plan_file_async_dir_eq_model (p : StrategyPlanner) (src : FileEntry) (w : PlanWorld) (t : Rs.Opaque)
    (db : Option Rs.Opaque) (hd : src.is_dir = true) (hnl : NotLinkAt w (compsOf src.relative_path)) (cfg : Cfg) :
    ∃ task, runM (p.plan_file_async extOf src w.root t db) w = (.ok task, w) ∧
      absTask w task = planEntry cfg w.dst (absEntry w src) ∧
      task.source_checksum = none ∧ task.dest_checksum = none := by
  refine ⟨_, plan_file_async_run p src w t db, ?_, ?_, ?_⟩ <;>
    simp only [absTask, planEntry, absEntry, hd, ↓reduceIte, relOf_join, Option.getD_some, planAt, stat_join,
      PlanWorld.resolve]
  all_goals
    cases hg : w.dst.get? (compsOf src.relative_path) with
    | none => simp [absAct]
    | some n =>
      cases n with
      | dir => simp [absAct]
      | file d => simp [absAct]
      | symlink s => exact absurd hg (hnl s)

/-- the same, spelled out as the three cases of the task statement. -/
theorem plan_file_async_dir_cases (p : StrategyPlanner) (src : FileEntry) (w : PlanWorld) (t : Rs.Opaque)
    (db : Option Rs.Opaque) (hd : src.is_dir = true) (hnl : NotLinkAt w (compsOf src.relative_path)) :
    ∃ task, runM (p.plan_file_async extOf src w.root t db) w = (.ok task, w) ∧
      (task.action = .Skip ↔ w.dst.get? (compsOf src.relative_path) = some .dir) ∧
      (task.action = .Create ↔ w.dst.get? (compsOf src.relative_path) ≠ some .dir) := by
  refine ⟨_, plan_file_async_run p src w t db, ?_, ?_⟩ <;>
    simp only [planAt, hd, stat_join, PlanWorld.resolve]
  all_goals
    cases hg : w.dst.get? (compsOf src.relative_path) with
    | none => simp
    | some n =>
      cases n with
      | dir => simp
      | file d => simp
      | symlink s => exact absurd hg (hnl s)

/-- BRIDGE (file entries, no checksum database): in every comparison mode — default / `--size-only` /
    `--ignore-times` through `needs_update`, `--checksum` through the two computed checksums — the task is the
    model's `planEntry`: absent ⇒ Create, a directory there ⇒ Update, a regular file ⇒ by the comparison. -/
theorem plan_file_async_file_eq_model (p : StrategyPlanner) (hp : FromCli p) (src : FileEntry) (w : PlanWorld)
    (t : Rs.Opaque) (hd : src.is_dir = false) (hnl : NotLinkAt w (compsOf src.relative_path))
    (hsrc : p.checksum = true → ∃ sm, w.stat src.path = .file sm)
    (cfg : Cfg) (hc : cfg.compare = modeOf p) :
    ∃ task, runM (p.plan_file_async extOf src w.root t none) w = (.ok task, w) ∧
      absTask w task = planEntry cfg w.dst (absEntry w src) := by
  refine ⟨_, plan_file_async_run p src w t none, ?_⟩
  have h := planAt_file_eq_planFileAct w p hp src false hd hsrc cfg hc
  rw [stat_join, seenNode_resolve_noDb w _ _ hnl] at h
  simp only [absTask, planEntry, absEntry, hd, Bool.false_eq_true, ↓reduceIte, relOf_join, Option.getD_some,
    Option.isSome_none, h]
  rfl

/-- the action alone, as the task statement puts it: `planFileAct cfg m (dst.get? rel)`. -/
theorem plan_file_async_file_action (p : StrategyPlanner) (hp : FromCli p) (src : FileEntry) (w : PlanWorld)
    (t : Rs.Opaque) (hd : src.is_dir = false) (hnl : NotLinkAt w (compsOf src.relative_path))
    (hsrc : p.checksum = true → ∃ sm, w.stat src.path = .file sm)
    (cfg : Cfg) (hc : cfg.compare = modeOf p) :
    ∃ task, runM (p.plan_file_async extOf src w.root t none) w = (.ok task, w) ∧
      absAct task.action = planFileAct cfg (absMeta w src) (w.dst.get? (compsOf src.relative_path)) := by
  obtain ⟨task, hr, ht⟩ := plan_file_async_file_eq_model p hp src w t hd hnl hsrc cfg hc
  refine ⟨task, hr, ?_⟩
  have := congrArg Task.act ht
  simpa [absTask, planEntry, absEntry, hd] using this

/-- BRIDGE (file entries, checksum database open, GENERAL form): the decision is the model's `planFileAct` on the
    contents the planner SEES — for the source `seenOr … src.path` (row keyed by the scanned mtime and size, else the
    real content), for the destination `seenOr … dest_path` (row keyed by the destination's CURRENT mtime and size) —
    against what the destination path resolves to (links followed). No `NotLinkAt`, no hypothesis on the rows. -/
theorem plan_file_async_file_db_general (p : StrategyPlanner) (hp : FromCli p) (src : FileEntry) (w : PlanWorld)
    (t : Rs.Opaque) (db : Option Rs.Opaque) (hd : src.is_dir = false)
    (hsrc : p.checksum = true → ∃ sm, w.stat src.path = .file sm)
    (cfg : Cfg) (hc : cfg.compare = modeOf p) :
    ∃ task, runM (p.plan_file_async extOf src w.root t db) w = (.ok task, w) ∧
      absAct task.action =
        planFileAct cfg
          (withContent (absMeta w src)
            (seenOr w db.isSome src.path src.modified src.size (w.contentAt src.path)))
          (seenNode w db.isSome (Rs.join w.root src.relative_path) (w.resolve (compsOf src.relative_path))) := by
  refine ⟨_, plan_file_async_run p src w t db, ?_⟩
  have h := planAt_file_eq_planFileAct w p hp src db.isSome hd hsrc cfg hc
  rw [stat_join] at h
  exact h

/-- BRIDGE (file entries, checksum database open): when the entry's path is the source root joined with its relative
    path (scanner invariant) and the database has no matching row for the DESTINATION path, the task is the model's
    `planEntryDb` — hit or miss of the source lookup (`seenContent`). -/
theorem plan_file_async_file_db_eq_model (p : StrategyPlanner) (hp : FromCli p) (src : FileEntry) (w : PlanWorld)
    (t o : Rs.Opaque) (hd : src.is_dir = false) (hnl : NotLinkAt w (compsOf src.relative_path))
    (hsrc : p.checksum = true → ∃ sm, w.stat src.path = .file sm)
    (hpath : src.path = Rs.join w.srcRoot src.relative_path)
    (hmiss : ∀ d, w.dst.get? (compsOf src.relative_path) = some (.file d) →
      w.dbSeen (Rs.join w.root src.relative_path) d.mtime d.size ['f', 'a', 's', 't'] = none)
    (cfg : Cfg) (hc : cfg.compare = modeOf p) :
    ∃ task, runM (p.plan_file_async extOf src w.root t (some o)) w = (.ok task, w) ∧
      absTask w task = planEntryDb cfg w.db w.dst (absEntry w src) := by
  refine ⟨_, plan_file_async_run p src w t (some o), ?_⟩
  have h := planAt_file_eq_planFileAct w p hp src true hd hsrc cfg hc
  rw [stat_join, seenNode_resolve_miss w true _ _ hnl hmiss] at h
  have hseen : seenOr w true src.path src.modified src.size (w.contentAt src.path) =
      seenContent w.db (compsOf src.relative_path) (absMeta w src) := by
    have hk : w.keyOf src.path = some (compsOf src.relative_path) := by rw [hpath]; exact keyOf_join w _
    unfold seenOr seenContent PlanWorld.dbSeen
    rw [hk]
    simp only [↓reduceIte, absMeta]
    cases w.db.lookup (compsOf src.relative_path) src.modified src.size <;> rfl
  rw [hseen] at h
  simp only [absTask, planEntryDb, absEntry, hd, Bool.false_eq_true, ↓reduceIte, relOf_join, Option.getD_some,
    Option.isSome_some, h]
  rfl

/-- the two cases of the source lookup, spelled out: a HIT compares the row's checksum, a MISS the real content. -/
theorem plan_file_async_file_db_hit_miss (p : StrategyPlanner) (hp : FromCli p) (hck : p.checksum = true)
    (src : FileEntry) (w : PlanWorld) (t o : Rs.Opaque) (hd : src.is_dir = false)
    (sm : FileMeta) (hsrc : w.stat src.path = .file sm)
    (hpath : src.path = Rs.join w.srcRoot src.relative_path)
    (d : FileMeta) (hg : w.dst.get? (compsOf src.relative_path) = some (.file d))
    (hmiss : w.dbSeen (Rs.join w.root src.relative_path) d.mtime d.size ['f', 'a', 's', 't'] = none) :
    ∃ task, runM (p.plan_file_async extOf src w.root t (some o)) w = (.ok task, w) ∧
      (∀ ck, w.db.lookup (compsOf src.relative_path) src.modified src.size = some ck →
        (task.action = .Skip ↔ ck = d.content) ∧ (task.action = .Update ↔ ck ≠ d.content)) ∧
      (w.db.lookup (compsOf src.relative_path) src.modified src.size = none →
        (task.action = .Skip ↔ sm.content = d.content) ∧ (task.action = .Update ↔ sm.content ≠ d.content)) := by
  have hnl : NotLinkAt w (compsOf src.relative_path) := by intro s hs; rw [hg] at hs; cases hs
  let cfg : Cfg := ⟨false, false, false, false, false, 0, .preserve, .checksum, none, none, 0, false⟩
  have hc : cfg.compare = modeOf p := by unfold modeOf; rw [hck]; rfl
  obtain ⟨task, hr, ht⟩ := plan_file_async_file_db_eq_model p hp src w t o hd hnl (fun _ => ⟨sm, hsrc⟩) hpath
    (by intro d' hd'; rw [hg] at hd'; cases hd'; exact hmiss) cfg hc
  refine ⟨task, hr, ?_⟩
  have hact := congrArg Task.act ht
  simp only [absTask, planEntryDb, absEntry, hd, Bool.false_eq_true, ↓reduceIte, hg, planFileAct, seenContent,
    absMeta, PlanWorld.contentAt, hsrc, cfg] at hact
  constructor
  · intro ck hl
    rw [hl] at hact
    simp only at hact
    by_cases h : ck = d.content
    · simp only [h, ↓reduceIte] at hact
      cases hta : task.action <;> simp_all [absAct]
    · simp only [h, ↓reduceIte] at hact
      cases hta : task.action <;> simp_all [absAct]
  · intro hl
    rw [hl] at hact
    simp only at hact
    by_cases h : sm.content = d.content
    · simp only [h, ↓reduceIte] at hact
      cases hta : task.action <;> simp_all [absAct]
    · simp only [h, ↓reduceIte] at hact
      cases hta : task.action <;> simp_all [absAct]

/-! ### where code and model part: symlinks at the probed path, unreadable sources, destination rows -/

/-- the engine's fix-up after planning a regular file (src/sync/mod.rs:547-556; NOT part of this unit, transcribed by
    hand): when `read_link(dest_path)` answers `Ok(Some(_))`, Skip and Create become Update. -/
def fixupOverLink : SyncAction → SyncAction
  | .Skip => .Update
  | .Create => .Update
  | a => a

/-- BRIDGE (file entry over a destination symlink): whatever the link resolves to — nothing, a directory, a file
    equal to the source or not — and in every mode, with or without database, the translated planner's answer after
    the engine's fix-up is the model's `planFileAct … (some (.symlink _)) = update`. -/
theorem plan_file_async_file_over_link_fixup (p : StrategyPlanner) (src : FileEntry) (w : PlanWorld) (t : Rs.Opaque)
    (db : Option Rs.Opaque) (hd : src.is_dir = false) (text : String)
    (hl : w.dst.get? (compsOf src.relative_path) = some (.symlink text)) (cfg : Cfg) (m : FileMeta) :
    ∃ task, runM (p.plan_file_async extOf src w.root t db) w = (.ok task, w) ∧
      absAct (fixupOverLink task.action) = planFileAct cfg m (w.dst.get? (compsOf src.relative_path)) := by
  refine ⟨_, plan_file_async_run p src w t db, ?_⟩
  rw [hl]
  show absAct (fixupOverLink (planAt w p src db.isSome).1) = .update
  rcases planAt_file_act w p src db.isSome with h | h | h <;> rw [h] <;> rfl

/-- WITHOUT the fix-up the translated planner looks through the link: over a link to a file that compares equal it
    answers Skip, where the model says update — the reason the fix-up exists (fix 1 of C02). -/
theorem plan_file_async_file_over_link_follows (p : StrategyPlanner) (hp : FromCli p) (hck : p.checksum = false)
    (src : FileEntry) (w : PlanWorld) (t : Rs.Opaque) (hd : src.is_dir = false) (text : String)
    (hl : w.dst.get? (compsOf src.relative_path) = some (.symlink text)) (d : FileMeta)
    (hto : w.through (compsOf src.relative_path) = .file d) :
    ∃ task, runM (p.plan_file_async extOf src w.root t none) w = (.ok task, w) ∧
      task.action = (if p.needs_update src ⟨d.size, d.mtime⟩ then .Update else .Skip) := by
  refine ⟨_, plan_file_async_run p src w t none, ?_⟩
  simp only [planAt, hd, stat_join, PlanWorld.resolve, hl, hto, cksumsAt, hp.ver, hck, Bool.false_eq_true,
    ↓reduceIte, decideAct]

/-- the engine's override after planning a DIRECTORY entry (src/sync/mod.rs planning loop, fix 862af11; NOT part of this
    unit, transcribed by hand): `else if file.is_dir && matches!(read_link(&task.dest_path), Ok(Some(_)))` ⇒
    `task.action = Update`.  `link` is what the `read_link` probe of the destination path answered. -/
def overrideDirOverLink (isDir : Bool) (link : Option Rs.Path) (a : SyncAction) : SyncAction :=
  if isDir && link.isSome then .Update else a

/-- the probe the override asks, on the instance: `read_link` does not follow — it answers the text of a symlink node at
    the key, `None` for anything else — and leaves the world alone -/
theorem read_link_probe (w : PlanWorld) (t : Rs.Opaque) (rel : Rs.Path) :
    runM (extOf.t_read_link t (Rs.join w.root rel)) w =
      (.ok (match w.dst.get? (compsOf rel) with | some (.symlink s) => some s.toList | _ => none), w) := by
  simp only [extOf_t_read_link, runM_probe, linkAt_join]
  cases w.dst.get? (compsOf rel) with
  | none => rfl
  | some n => cases n <;> rfl

/-- BRIDGE (directory entries, EVERY destination node — no `NotLinkAt`): the model's `planEntry` is the engine's
    override applied to what the translated `plan_file_async` answers.  `plan_file_async` itself was not changed by fix
    862af11: over a link it still probes THROUGH it (Skip when the link resolves to a directory, Create otherwise —
    `plan_file_async_dir_over_link_probes_through`); the override turns either into Update, which is `planEntry`'s
    answer for a symlink node; for every other node the override is the identity and `plan_file_async_dir_eq_model`
    applies. -/
theorem plan_file_async_dir_override_eq_model (p : StrategyPlanner) (src : FileEntry) (w : PlanWorld) (t : Rs.Opaque)
    (db : Option Rs.Opaque) (hd : src.is_dir = true) (cfg : Cfg) :
    ∃ task, runM (p.plan_file_async extOf src w.root t db) w = (.ok task, w) ∧
      absTask w { task with action := overrideDirOverLink src.is_dir (w.linkAt task.dest_path) task.action } =
        planEntry cfg w.dst (absEntry w src) := by
  refine ⟨_, plan_file_async_run p src w t db, ?_⟩
  have hdp : (planAt w p src db.isSome).1 = (planAt w p src db.isSome).1 := rfl
  simp only [absTask, planEntry, absEntry, hd, ↓reduceIte, relOf_join, Option.getD_some, planAt, stat_join,
    PlanWorld.resolve, overrideDirOverLink, linkAt_join, Bool.true_and]
  cases hg : w.dst.get? (compsOf src.relative_path) with
  | none => simp [absAct]
  | some n =>
    cases n with
    | dir => simp [absAct]
    | file d => simp [absAct]
    | symlink s => simp [absAct]

/-- the action alone, in the words of the task statement: `planEntry`'s action for a directory entry is
    (override ∘ `plan_file_async`) — Update exactly over a symlink node, else Skip over a directory, else Create. -/
theorem plan_file_async_dir_override_action (p : StrategyPlanner) (src : FileEntry) (w : PlanWorld) (t : Rs.Opaque)
    (db : Option Rs.Opaque) (hd : src.is_dir = true) (cfg : Cfg) :
    ∃ task, runM (p.plan_file_async extOf src w.root t db) w = (.ok task, w) ∧
      absAct (overrideDirOverLink src.is_dir (w.linkAt task.dest_path) task.action) =
        (planEntry cfg w.dst (absEntry w src)).act ∧
      ((planEntry cfg w.dst (absEntry w src)).act = .update ↔
        ∃ s, w.dst.get? (compsOf src.relative_path) = some (.symlink s)) := by
  obtain ⟨task, h1, h2⟩ := plan_file_async_dir_override_eq_model p src w t db hd cfg
  refine ⟨task, h1, ?_, ?_⟩
  · have := congrArg Task.act h2
    simpa [absTask] using this
  · simp only [planEntry, absEntry, hd, ↓reduceIte]
    cases hg : w.dst.get? (compsOf src.relative_path) with
    | none => simp
    | some n => cases n <;> simp

/-- what `plan_file_async` ALONE answers for a directory entry over a destination symlink (unchanged by fix 862af11):
    it probes through the link — Skip when the link resolves to a directory, Create when it resolves to a file or to
    nothing — while the model's `planEntry` answers update: the difference is exactly the engine's override. -/
theorem plan_file_async_dir_over_link_probes_through (p : StrategyPlanner) (src : FileEntry) (w : PlanWorld)
    (t : Rs.Opaque) (db : Option Rs.Opaque) (hd : src.is_dir = true) (text : String)
    (hl : w.dst.get? (compsOf src.relative_path) = some (.symlink text)) (cfg : Cfg) :
    ∃ task, runM (p.plan_file_async extOf src w.root t db) w = (.ok task, w) ∧
      (w.through (compsOf src.relative_path) = .dir → task.action = .Skip) ∧
      (w.through (compsOf src.relative_path) ≠ .dir → task.action = .Create) ∧
      overrideDirOverLink src.is_dir (w.linkAt task.dest_path) task.action = .Update ∧
      (planEntry cfg w.dst (absEntry w src)).act = .update := by
  refine ⟨_, plan_file_async_run p src w t db, ?_, ?_, ?_, ?_⟩
  · intro hto
    simp only [planAt, hd, stat_join, PlanWorld.resolve, hl, hto]
  · intro hto
    simp only [planAt, hd, stat_join, PlanWorld.resolve, hl]
  · simp [overrideDirOverLink, hd, linkAt_join, hl]
  · simp only [planEntry, absEntry, hd, ↓reduceIte, hl]

/-- with `--checksum` and no database, a source that cannot be read (vanished, a directory, …) against an existing
    regular file is planned as Update (the safe direction: `needs_update` answers true) — the model has no
    unreadable sources. -/
theorem plan_file_async_unreadable_source_updates (p : StrategyPlanner) (hp : FromCli p) (hck : p.checksum = true)
    (src : FileEntry) (w : PlanWorld) (t : Rs.Opaque) (hd : src.is_dir = false)
    (hsrc : ∀ sm, w.stat src.path ≠ .file sm) (d : FileMeta)
    (hs : w.stat (Rs.join w.root src.relative_path) = .file d) :
    ∃ task, runM (p.plan_file_async extOf src w.root t none) w = (.ok task, w) ∧ task.action = .Update ∧
      task.source_checksum = none := by
  refine ⟨_, plan_file_async_run p src w t none, ?_, ?_⟩ <;>
    simp only [planAt, hd, hs, cksumsAt, hp.ver, hck, ↓reduceIte, srcSeen, seenCk, Option.isSome_none,
      Bool.false_eq_true, PlanWorld.cksumAt, PlanWorld.existsAt]
  all_goals
    cases hst : w.stat src.path with
    | dangling => simp [decideAct, StrategyPlanner.needs_update, hck, Id.run]
    | dir => simp [decideAct, StrategyPlanner.needs_update, hck, Id.run, Rs.ok]
    | file sm => exact absurd hst (hsrc sm)

/-! ### `SyncEngine::plan_symlink` = the `.symlink` arm of `planEntry` -/

/-- `plan_symlink` never returns `Err` — every mode, planner, entry, world, database handle. -/
theorem plan_symlink_never_fails (eng : SyncEngine) (file : FileEntry) (w : PlanWorld) (p : StrategyPlanner)
    (db : Option Rs.Opaque) : ∃ task, (runM (eng.plan_symlink extOf file w.root p db) w).1 = .ok task :=
  ⟨_, by rw [plan_symlink_run]⟩

/-- `plan_symlink` leaves the world as it found it. -/
theorem plan_symlink_read_only (eng : SyncEngine) (file : FileEntry) (w : PlanWorld) (p : StrategyPlanner)
    (db : Option Rs.Opaque) : (runM (eng.plan_symlink extOf file w.root p db) w).2 = w := by
  rw [plan_symlink_run]

/-- BRIDGE (skip mode): nothing is probed, the task is Skip with nothing to transfer — the model's `.skip` arm. -/
theorem plan_symlink_skip_eq_model (eng : SyncEngine) (hm : eng.symlink_mode = .Skip) (file : FileEntry)
    (hl : file.is_symlink = true) (w : PlanWorld) (p : StrategyPlanner) (db : Option Rs.Opaque)
    (cfg : Cfg) (hc : cfg.links = absLinkMode eng.symlink_mode) :
    ∃ task, runM (eng.plan_symlink extOf file w.root p db) w = (.ok task, w) ∧
      absLinkTask eng.symlink_mode w task = planEntry cfg w.dst (absLinkEntry w file) := by
  refine ⟨_, plan_symlink_run eng file w p db, ?_⟩
  rw [hm] at hc
  simp only [linkPlan, hm, simpleTask, absLinkTask, hl, ↓reduceIte, planEntry, absLinkEntry, hc, absLinkMode,
    relOf_join, Option.getD_some, absAct]

/-- BRIDGE (preserve mode): the destination entry ITSELF is looked at (`read_link` does not follow; `exists` is only
    asked when there is no link there): nothing ⇒ create, a link with the same text ⇒ skip, a link with another text /
    a file / a directory ⇒ update — the model's `.preserve` arm, for EVERY destination (no `NotLinkAt`). -/
theorem plan_symlink_preserve_eq_model (eng : SyncEngine) (hm : eng.symlink_mode = .Preserve) (file : FileEntry)
    (hl : file.is_symlink = true) (text : Rs.Path) (ht : file.symlink_target = some text)
    (w : PlanWorld) (p : StrategyPlanner) (db : Option Rs.Opaque)
    (cfg : Cfg) (hc : cfg.links = absLinkMode eng.symlink_mode) :
    ∃ task, runM (eng.plan_symlink extOf file w.root p db) w = (.ok task, w) ∧
      absLinkTask eng.symlink_mode w task = planEntry cfg w.dst (absLinkEntry w file) := by
  refine ⟨_, plan_symlink_run eng file w p db, ?_⟩
  rw [hm] at hc
  simp only [linkPlan, hm, simpleTask, absLinkTask, hl, ↓reduceIte, planEntry, absLinkEntry, hc, absLinkMode,
    relOf_join, Option.getD_some, preserveAct, linkAt_join, existsAt_join, PlanWorld.resolve, linkText, ht]
  cases hg : w.dst.get? (compsOf file.relative_path) with
  | none => simp [absAct]
  | some n =>
    cases n with
    | dir => simp [absAct]
    | file d => simp [absAct]
    | symlink t =>
      simp only [Task.mk.injEq, and_true]
      by_cases hq : t = String.ofList text
      · subst hq; simp [String.toList_ofList, absAct]
      · have : ¬ t.toList = text := fun h => hq (by rw [← h, String.ofList_toList])
        simp [hq, this, absAct]

/-- preserve mode for an entry whose link text the scanner could not read (`symlink_target = None`: the link
    vanished between `lstat` and `readlink`): never Skip — Create over nothing, Update over anything. -/
theorem plan_symlink_preserve_no_target (eng : SyncEngine) (hm : eng.symlink_mode = .Preserve) (file : FileEntry)
    (ht : file.symlink_target = none) (w : PlanWorld) (p : StrategyPlanner) (db : Option Rs.Opaque) :
    ∃ task, runM (eng.plan_symlink extOf file w.root p db) w = (.ok task, w) ∧
      task.action = (if w.dst.get? (compsOf file.relative_path) = none then .Create else .Update) := by
  refine ⟨_, plan_symlink_run eng file w p db, ?_⟩
  simp only [linkPlan, hm, simpleTask, preserveAct, linkAt_join, existsAt_join, PlanWorld.resolve, ht]
  cases hg : w.dst.get? (compsOf file.relative_path) with
  | none => simp
  | some n =>
    cases n with
    | dir => simp
    | file d => simp
    | symlink t => simp

/-- BRIDGE (follow mode): `std::fs::metadata(file.path)` follows the source link; its answer is the model's `tgt`.
    A regular-file target is planned as that file through `plan_file_async` (size and mtime of the TARGET, content of
    the target, inode `None`, nlink 1) — the model's `planFileAct cfg m (dst.get? rel)` with payload `.file m 1`; a
    directory target or a dangling link ⇒ Skip with nothing to transfer.  Hypotheses as for files: `FromCli`,
    `NotLinkAt` (the symlink case of the model's `planFileAct` is the engine's fix-up, `…_follow_over_link_fixup`),
    the lstat kind of a link is not "directory", and — with a database — no matching row on either side
    (`planEntryDb` does not consult the database for link entries). -/
theorem plan_symlink_follow_eq_model (eng : SyncEngine) (hm : eng.symlink_mode = .Follow) (file : FileEntry)
    (hl : file.is_symlink = true) (hnd : file.is_dir = false) (w : PlanWorld) (p : StrategyPlanner) (hp : FromCli p)
    (db : Option Rs.Opaque) (hnl : NotLinkAt w (compsOf file.relative_path))
    (hmissS : db.isSome = true → ∀ d, w.stat file.path = .file d →
      w.dbSeen file.path d.mtime d.size ['f', 'a', 's', 't'] = none)
    (hmissD : db.isSome = true → ∀ d, w.dst.get? (compsOf file.relative_path) = some (.file d) →
      w.dbSeen (Rs.join w.root file.relative_path) d.mtime d.size ['f', 'a', 's', 't'] = none)
    (cfg : Cfg) (hc : cfg.links = absLinkMode eng.symlink_mode) (hcmp : cfg.compare = modeOf p) :
    ∃ task, runM (eng.plan_symlink extOf file w.root p db) w = (.ok task, w) ∧
      absLinkTask eng.symlink_mode w task = planEntry cfg w.dst (absLinkEntry w file) ∧
      absLinkTask eng.symlink_mode w task = planEntryDb cfg w.db w.dst (absLinkEntry w file) := by
  refine ⟨_, plan_symlink_run eng file w p db, ?_⟩
  have hdb : planEntryDb cfg w.db w.dst (absLinkEntry w file) = planEntry cfg w.dst (absLinkEntry w file) := rfl
  rw [hdb, and_self]
  rw [hm] at hc
  simp only [linkPlan, hm, PlanWorld.metaAt, planEntry, absLinkEntry, hc, absLinkMode]
  cases hs : w.stat file.path with
  | dangling => simp [simpleTask, absLinkTask, hl, absTarget, relOf_join, absAct]
  | dir => simp [simpleTask, absLinkTask, hl, absTarget, relOf_join, absAct]
  | file d =>
    have hstat : w.stat (followEntry file ⟨false, d.mtime, d.size⟩).path = .file d := hs
    have h := planAt_file_eq_planFileAct w p hp (followEntry file ⟨false, d.mtime, d.size⟩) db.isSome hnd
      (fun _ => ⟨d, hstat⟩) cfg hcmp
    have hrel : (followEntry file ⟨false, d.mtime, d.size⟩).relative_path = file.relative_path := rfl
    rw [hrel, stat_join] at h
    have hsrcSeen : seenOr w db.isSome (followEntry file ⟨false, d.mtime, d.size⟩).path
        (followEntry file ⟨false, d.mtime, d.size⟩).modified (followEntry file ⟨false, d.mtime, d.size⟩).size
        (w.contentAt (followEntry file ⟨false, d.mtime, d.size⟩).path) = d.content := by
      show seenOr w db.isSome file.path d.mtime d.size (w.contentAt file.path) = d.content
      unfold seenOr PlanWorld.contentAt
      rw [hs]
      cases hdbs : db.isSome
      · rfl
      · simp [hmissS hdbs d hs]
    have hdstSeen : seenNode w db.isSome (Rs.join w.root file.relative_path) (w.resolve (compsOf file.relative_path))
        = w.dst.get? (compsOf file.relative_path) := by
      cases hdbs : db.isSome
      · exact seenNode_resolve_noDb w _ _ hnl
      · exact seenNode_resolve_miss w true _ _ hnl (hmissD hdbs)
    rw [hsrcSeen, hdstSeen] at h
    have hmeta : withContent (absMeta w (followEntry file ⟨false, d.mtime, d.size⟩)) d.content =
        { content := d.content, size := d.size, mtime := d.mtime, xattrs := [], ino := 0 } := rfl
    rw [hmeta] at h
    simp only [Bool.false_eq_true, ↓reduceIte, absLinkTask, absTarget, relOf_join, Option.getD_some, h]
    have hm2 : absMeta w (followEntry file ⟨false, d.mtime, d.size⟩) =
        { content := d.content, size := d.size, mtime := d.mtime, xattrs := [], ino := 0 } := by
      simp [absMeta, followEntry, PlanWorld.contentAt, hs]
    have hsym : (followEntry file ⟨false, d.mtime, d.size⟩).is_symlink = false := rfl
    have hdir : (followEntry file ⟨false, d.mtime, d.size⟩).is_dir = false := hnd
    have hnl1 : (followEntry file ⟨false, d.mtime, d.size⟩).nlink = 1 := rfl
    simp only [hsym, hdir, hnl1, hm2, Bool.false_eq_true, ↓reduceIte]

/-- BRIDGE (follow mode over a destination symlink): the dereferenced entry is not a symlink, so the engine's fix-up
    (src/sync/mod.rs:547-556, `fixupOverLink`) applies; after it the answer is the model's
    `planFileAct … (some (.symlink _)) = update`, whatever either link resolves to. -/
theorem plan_symlink_follow_over_link_fixup (eng : SyncEngine) (hm : eng.symlink_mode = .Follow) (file : FileEntry)
    (hnd : file.is_dir = false) (w : PlanWorld) (p : StrategyPlanner) (db : Option Rs.Opaque) (d : FileMeta)
    (hs : w.stat file.path = .file d) (text : String)
    (hl : w.dst.get? (compsOf file.relative_path) = some (.symlink text)) (cfg : Cfg) (m : FileMeta) :
    ∃ task, runM (eng.plan_symlink extOf file w.root p db) w = (.ok task, w) ∧
      (∀ s, task.source = some s → s.is_symlink = false) ∧
      absAct (fixupOverLink task.action) = planFileAct cfg m (w.dst.get? (compsOf file.relative_path)) := by
  refine ⟨_, plan_symlink_run eng file w p db, ?_, ?_⟩
  · simp only [linkPlan, hm, PlanWorld.metaAt, hs, Bool.false_eq_true, ↓reduceIte]
    intro s h; cases h; rfl
  · rw [hl]
    simp only [linkPlan, hm, PlanWorld.metaAt, hs, Bool.false_eq_true, ↓reduceIte]
    show absAct (fixupOverLink (planAt w p _ db.isSome).1) = .update
    rcases planAt_file_act w p (followEntry file ⟨false, d.mtime, d.size⟩) db.isSome with h | h | h <;>
      rw [h] <;> rfl

/-! ### `plan_deletions` -/

/-- `plan_deletions` never fails and changes nothing (it returns a `Vec`, not a `Result`; a failing scan gives no
    deletions) — every source list, both branches. -/
theorem plan_deletions_never_fails_read_only (p : StrategyPlanner) (srcs : List FileEntry) (w : PlanWorld) :
    ∃ tasks, runM (p.plan_deletions extOf srcs w.root) w = (.ok tasks, w) :=
  ⟨_, plan_deletions_run p srcs w⟩

/-- BRIDGE: BOTH branches (`source_files.len()` above or below `BLOOM_THRESHOLD`) return exactly the destination
    entries whose relative path is not the relative path of a source entry, as `Delete` tasks without source, in the
    order of the walk (= the order of the model's map: the real walk order is unspecified, the model's driver sorts).
    This is the model's `planDeletions` before the engine's `retain` (no `scanned` list; own metadata files kept). -/
theorem plan_deletions_eq_candidates (p : StrategyPlanner) (srcs : List FileEntry) (w : PlanWorld) (hw : CleanKeys w) :
    ∃ tasks, runM (p.plan_deletions extOf srcs w.root) w = (.ok tasks, w) ∧
      tasks.map (absTask w) =
        (w.dst.keys.filter fun k => !((srcs.map (absEntry w)).any (·.rel == k))).map
          fun k => ⟨.delete, k, .nothing⟩ :=
  ⟨_, plan_deletions_run p srcs w, delsOf_abs w hw srcs⟩

/-- the engine's `retain` after `plan_deletions` (src/sync/mod.rs:563-569; NOT part of this unit, transcribed by hand):
    drop what any scanned source entry names and sy's own metadata files. -/
def retainDeletions (scanned : List SEntry) (ts : List Task) : List Task :=
  ts.filter fun t => !(scanned.any (·.rel == t.rel)) && !(ownMetadata.contains t.rel)

/-- BRIDGE: the translated `plan_deletions` followed by the engine's `retain` IS the model's `planDeletions`, for every
    filtered source list, every list of scanned entries, every clean destination — same tasks, same order. -/
theorem plan_deletions_eq_model (p : StrategyPlanner) (srcs : List FileEntry) (w : PlanWorld) (hw : CleanKeys w)
    (scanned : List SEntry) :
    ∃ tasks, runM (p.plan_deletions extOf srcs w.root) w = (.ok tasks, w) ∧
      retainDeletions scanned (tasks.map (absTask w)) = planDeletions (srcs.map (absEntry w)) scanned w.dst := by
  refine ⟨_, plan_deletions_run p srcs w, ?_⟩
  rw [delsOf_abs w hw srcs]
  unfold retainDeletions planDeletions
  rw [List.filter_map, List.filter_filter]
  congr 1
  apply List.filter_congr
  intro k _
  simp only [Function.comp_apply, Bool.and_assoc]
  cases (srcs.map (absEntry w)).any (·.rel == k) <;> simp

/-- with an empty `scanned` list and no own-metadata file in the destination, no `retain` is needed. -/
theorem plan_deletions_eq_model_plain (p : StrategyPlanner) (srcs : List FileEntry) (w : PlanWorld) (hw : CleanKeys w)
    (hown : ∀ k ∈ w.dst.keys, ownMetadata.contains k = false) :
    ∃ tasks, runM (p.plan_deletions extOf srcs w.root) w = (.ok tasks, w) ∧
      tasks.map (absTask w) = planDeletions (srcs.map (absEntry w)) [] w.dst := by
  refine ⟨_, plan_deletions_run p srcs w, ?_⟩
  rw [delsOf_abs w hw srcs]
  unfold planDeletions
  congr 1
  apply List.filter_congr
  intro k hk
  have hn : ¬ k ∈ ownMetadata := by simpa using hown k hk
  simp [hn]

/-- the Bloom branch and the HashSet branch give the SAME list: two source lists, one longer than the threshold and
    one not, that name the same set of relative paths, yield identical results (tasks and order) on every world.
    The Prelude gives `FileSetBloom` an unknown (opaque) set of false positives: the Bloom branch is right BECAUSE
    every "maybe" is re-checked against the `HashSet` — remove that re-check and this theorem is false. -/
theorem plan_deletions_branches_agree (p : StrategyPlanner) (big small : List FileEntry) (w : PlanWorld)
    (hbig : big.length > BLOOM_THRESHOLD) (hsmall : small.length ≤ BLOOM_THRESHOLD)
    (hsame : ∀ x, x ∈ big.map (·.relative_path) ↔ x ∈ small.map (·.relative_path)) :
    runM (p.plan_deletions extOf big w.root) w = runM (p.plan_deletions extOf small w.root) w := by
  rw [plan_deletions_run, plan_deletions_run]
  unfold delsOf
  congr 3
  apply List.filter_congr
  intro e _
  congr 1
  rw [Bool.eq_iff_iff]
  simp only [List.contains_eq_mem, decide_eq_true_eq]
  exact hsame _

/-- the constant the translated code compares with is the one the constant extractor reads. -/
theorem consts_ok_bloom_threshold : BLOOM_THRESHOLD = 10000 := by decide

/-- a path the source names is never among the planned deletions (C06 `counterpart_never_planned`, for the translated
    `plan_deletions` alone — before any `retain`). -/
theorem plan_deletions_spares_source_paths (p : StrategyPlanner) (srcs : List FileEntry) (w : PlanWorld)
    (hw : CleanKeys w) (e : FileEntry) (he : e ∈ srcs) :
    ∃ tasks, runM (p.plan_deletions extOf srcs w.root) w = (.ok tasks, w) ∧
      ∀ task ∈ tasks, (absTask w task).rel ≠ (absEntry w e).rel := by
  obtain ⟨tasks, hr, ht⟩ := plan_deletions_eq_candidates p srcs w hw
  refine ⟨tasks, hr, ?_⟩
  intro task htask heq
  have hmem : absTask w task ∈ tasks.map (absTask w) := List.mem_map.2 ⟨task, htask, rfl⟩
  rw [ht] at hmem
  obtain ⟨k, hk, hkt⟩ := List.mem_map.1 hmem
  have hk' := (List.mem_filter.1 hk).2
  have : (absTask w task).rel = k := by rw [← hkt]
  rw [this] at heq
  simp only [Bool.not_eq_eq_eq_not, Bool.not_true, List.any_eq_false, List.mem_map, beq_iff_eq,
    forall_exists_index, and_imp, forall_apply_eq_imp_iff₂] at hk'
  exact hk' e he heq.symm

/-! ### a C03/C01 lemma about the TRANSLATED planner -/

/-- **C03 `transferred_file_up_to_date` for the translated code.**  After a successful model transfer of the entry
    (`writeFile`: the destination node gets the source's content, size and mtime), the translated `plan_file_async`
    run against the resulting destination answers `Skip` — in default, `--size-only` and `--checksum` mode (every
    mode but `--ignore-times`), for every prior destination. -/
theorem plan_file_async_skips_after_transfer (p : StrategyPlanner) (hp : FromCli p) (src : FileEntry) (w : PlanWorld)
    (t : Rs.Opaque) (hd : src.is_dir = false)
    (hsrc : p.checksum = true → ∃ sm, w.stat src.path = .file sm)
    (cfg : Cfg) (hc : cfg.compare = modeOf p) (hni : modeOf p ≠ .ignoreTimes)
    (before after : Engine.World)
    (hw : writeFile cfg before (compsOf src.relative_path) (absMeta w src) = some after)
    (hdst : w.dst = after.dst) :
    ∃ task, runM (p.plan_file_async extOf src w.root t none) w = (.ok task, w) ∧ task.action = .Skip := by
  obtain ⟨d0, node, _, _, hset, hmatch, _, _⟩ := writeFile_spec hw
  have hg : w.dst.get? (compsOf src.relative_path) = some (.file node) := by
    rw [hdst, hset, Map.get?_set_same]
  have hnl : NotLinkAt w (compsOf src.relative_path) := by intro s hs; rw [hg] at hs; cases hs
  obtain ⟨task, hr, ha⟩ := plan_file_async_file_action p hp src w t hd hnl hsrc cfg hc
  refine ⟨task, hr, ?_⟩
  rw [hg, C03.transferred_file_up_to_date cfg (by rw [hc]; exact hni) (absMeta w src) node hmatch.1 hmatch.2.1
    hmatch.2.2.1 hmatch.2.2.2] at ha
  cases hta : task.action <;> simp_all [absAct]

/-- the same in the words of the task statement: the destination holds a regular file with the entry's size and
    mtime ⇒ `Skip` in default mode (and `--size-only`). -/
theorem plan_file_async_skips_equal_size_mtime (p : StrategyPlanner) (hp : FromCli p) (hck : p.checksum = false)
    (hit : p.ignore_times = false) (src : FileEntry) (w : PlanWorld) (t : Rs.Opaque) (db : Option Rs.Opaque)
    (hd : src.is_dir = false) (d : FileMeta)
    (hg : w.dst.get? (compsOf src.relative_path) = some (.file d))
    (hsize : d.size = src.size) (hmtime : d.mtime = src.modified) :
    ∃ task, runM (p.plan_file_async extOf src w.root t db) w = (.ok task, w) ∧ task.action = .Skip := by
  refine ⟨_, plan_file_async_run p src w t db, ?_⟩
  have hnu : p.needs_update src ⟨d.size, d.mtime⟩ = false := by
    rw [needs_update_eq_model p hp, hsize, hmtime]
    unfold modeOf needsUpdate
    rw [hck, hit]
    cases p.size_only <;> simp [mtimeMatches, absDiff]
  simp only [planAt, hd, stat_join, PlanWorld.resolve, hg, cksumsAt, hp.ver, hck, Bool.false_eq_true, ↓reduceIte,
    decideAct, hnu]

/-! ### the hypotheses are satisfiable; the code and the model on a concrete world -/

/-- a destination `d` with a file `a`, a directory `sub`, a file `sub/b`, a link `l`; the source `s` holds `a`, `c` -/
def exWorld : PlanWorld where
  root := "d".toList
  dst := [(["a"], .file ⟨7, 3, 5000000000, [], 1⟩), (["sub"], .dir), (["sub", "b"], .file ⟨8, 4, 6000000000, [], 2⟩),
          (["l"], .symlink "a")]
  through := fun k => if k = ["l"] then .file ⟨7, 3, 5000000000, [], 1⟩ else .dangling
  dirInfo := fun _ => (4096, 0)
  outside := fun p => if p = "s/a".toList then .file ⟨7, 3, 5000000000, [], 10⟩
                      else if p = "s/c".toList then .file ⟨9, 1, 1, [], 11⟩ else .dangling
  srcRoot := "s".toList
  db := []

def exPlanner (ck : Bool) : StrategyPlanner := ⟨1, false, false, ck, if ck then some ⟨.Fast, false⟩ else none⟩

def exEntry (rel : String) (size mtime : Nat) (dir : Bool) : FileEntry :=
  { path := Rs.join "s".toList rel.toList, relative_path := rel.toList, size := size, modified := mtime,
    is_dir := dir, is_symlink := false, symlink_target := none, is_sparse := false, allocated_size := 0,
    xattrs := none, inode := none, nlink := 1, acls := none, bsd_flags := none }

example : FromCli (exPlanner false) := ⟨rfl, rfl⟩
example : FromCli (exPlanner true) := ⟨rfl, rfl⟩
example : CleanKeys exWorld := by
  intro k hk
  simp only [exWorld, Map.keys, List.map_cons, List.map_nil, List.mem_cons, List.not_mem_nil, or_false] at hk
  rcases hk with rfl | rfl | rfl | rfl <;> decide
example : compsOf "sub/b".toList = ["sub", "b"] := by decide
example : NotLinkAt exWorld (compsOf "a".toList) := by
  intro t h
  have : compsOf "a".toList = ["a"] := by decide
  rw [this] at h
  simp [exWorld, Map.get?] at h
example : (exPlanner true).checksum = true → ∃ sm, exWorld.stat (exEntry "a" 3 5000000000 false).path = .file sm :=
  fun _ => ⟨⟨7, 3, 5000000000, [], 10⟩, by decide⟩

/-- the translated planner, RUN on the example (kernel evaluation of the generated definitions): `a` is up to date,
    `c` is new, `sub` exists, `sub/b` differs in size. -/
example : (runM ((exPlanner false).plan_file_async extOf (exEntry "a" 3 5000000000 false) "d".toList ⟨⟩ none) exWorld).1.toOption
    = some ⟨some (exEntry "a" 3 5000000000 false), "d/a".toList, .Skip, none, none⟩ := by decide
example : (runM ((exPlanner true).plan_file_async extOf (exEntry "a" 3 5000000000 false) "d".toList ⟨⟩ none) exWorld).1.toOption
    = some ⟨some (exEntry "a" 3 5000000000 false), "d/a".toList, .Skip, some 7, some 7⟩ := by decide
example : (runM ((exPlanner false).plan_file_async extOf (exEntry "c" 1 1 false) "d".toList ⟨⟩ none) exWorld).1.toOption
    = some ⟨some (exEntry "c" 1 1 false), "d/c".toList, .Create, none, none⟩ := by decide
example : (runM ((exPlanner false).plan_file_async extOf (exEntry "sub" 0 0 true) "d".toList ⟨⟩ none) exWorld).1.toOption
    = some ⟨some (exEntry "sub" 0 0 true), "d/sub".toList, .Skip, none, none⟩ := by decide
example : (runM ((exPlanner false).plan_file_async extOf (exEntry "sub" 5 0 false) "d".toList ⟨⟩ none) exWorld).1.toOption
    = some ⟨some (exEntry "sub" 5 0 false), "d/sub".toList, .Update, none, none⟩ := by decide
example : ((runM ((exPlanner false).plan_deletions extOf [exEntry "a" 3 5000000000 false, exEntry "c" 1 1 false]
      "d".toList) exWorld).1.toOption.getD []).map (·.dest_path)
    = ["d/sub".toList, "d/sub/b".toList, "d/l".toList] := by decide

/-- a source symlink entry `rel → text` -/
def exLink (rel text : String) : FileEntry :=
  { exEntry rel 1 9 false with is_symlink := true, symlink_target := some text.toList }

/-- `plan_symlink` RUN on the example: the destination has the link `l → a`: same text ⇒ Skip, other text ⇒ Update,
    no entry ⇒ Create; over the regular file `a` ⇒ Update; skip mode ⇒ Skip; follow mode: `s/c` read through a link
    named `c` is a new file (planned with the target's size and mtime), a dangling link is skipped. -/
example : ((runM (SyncEngine.plan_symlink extOf ⟨.Preserve, ⟨⟩⟩ (exLink "l" "a") "d".toList (exPlanner false) none)
    exWorld).1.toOption.map (·.action)) = some .Skip := by decide
example : ((runM (SyncEngine.plan_symlink extOf ⟨.Preserve, ⟨⟩⟩ (exLink "l" "b") "d".toList (exPlanner false) none)
    exWorld).1.toOption.map (·.action)) = some .Update := by decide
example : ((runM (SyncEngine.plan_symlink extOf ⟨.Preserve, ⟨⟩⟩ (exLink "n" "a") "d".toList (exPlanner false) none)
    exWorld).1.toOption.map (·.action)) = some .Create := by decide
example : ((runM (SyncEngine.plan_symlink extOf ⟨.Preserve, ⟨⟩⟩ (exLink "a" "a") "d".toList (exPlanner false) none)
    exWorld).1.toOption.map (·.action)) = some .Update := by decide
example : ((runM (SyncEngine.plan_symlink extOf ⟨.Skip, ⟨⟩⟩ (exLink "n" "a") "d".toList (exPlanner false) none)
    exWorld).1.toOption.map (·.action)) = some .Skip := by decide
example : ((runM (SyncEngine.plan_symlink extOf ⟨.Follow, ⟨⟩⟩ (exLink "c" "elsewhere") "d".toList (exPlanner false)
    none) exWorld).1.toOption.map (fun t => (t.action, t.source.map (fun s => (s.size, s.modified, s.is_symlink)))))
    = some (.Create, some (1, 1, false)) := by decide
example : ((runM (SyncEngine.plan_symlink extOf ⟨.Follow, ⟨⟩⟩ (exLink "n" "nowhere") "d".toList (exPlanner false)
    none) exWorld).1.toOption.map (·.action)) = some .Skip := by decide
example : NotLinkAt exWorld (compsOf (exLink "c" "elsewhere").relative_path) := by
  intro t h
  have : compsOf (exLink "c" "elsewhere").relative_path = ["c"] := by decide
  rw [this] at h
  simp [exWorld, Map.get?] at h

/-- DISAGREEMENT with `planEntryDb` (model gap, see the report): `compute_checksums_local` also asks the database
    about the DESTINATION path (keyed by the destination's current mtime and size).  A world in which that lookup
    hits a stale row: destination `s/d` inside the source root `s`, so that the destination path `s/d/f` has the row
    key `d/f`; the row says content 7, the destination really holds content 8, the source holds 7.  The translated
    planner answers Skip; `planEntryDb` (which only substitutes the SOURCE side) answers update. -/
def gapWorld : PlanWorld where
  root := "s/d".toList
  dst := [(["f"], .file ⟨8, 3, 50, [], 1⟩)]
  through := fun _ => .dangling
  dirInfo := fun _ => (4096, 0)
  outside := fun p => if p = "s/f".toList then .file ⟨7, 3, 60, [], 10⟩ else .dangling
  srcRoot := "s".toList
  db := [(["d", "f"], ⟨50, 3, 7⟩)]

theorem plan_file_async_db_dest_row_differs :
    (runM ((exPlanner true).plan_file_async extOf (exEntry "f" 3 60 false) gapWorld.root ⟨⟩ (some ⟨⟩)) gapWorld).1.toOption
        = some ⟨some (exEntry "f" 3 60 false), "s/d/f".toList, .Skip, some 7, some 7⟩ ∧
      (planEntryDb ⟨false, false, false, false, false, 0, .preserve, .checksum, none, none, 0, false⟩ gapWorld.db
        gapWorld.dst (absEntry gapWorld (exEntry "f" 3 60 false))).act = .update := by
  constructor <;> decide

end SyModel.Props.GenPlannerFx
