/-
  GenLocalCopy2 — second part of the bridge for the translated unit `LocalCopy` (continues `Props/GenLocalCopy.lean`).

  §1  FAULTS and the RAII guard on the temp+rename route (C05, C09, C10): with the single-fault countdown of the instance
      (`LWorld.fault`), for a fault at ANY fallible operation from `File::create(working file)` on — the opens, every
      read / seek / write of the block loop however long, `set_file_mtime`, the `rename` —: the call fails; every name
      refers to what it referred to before (the destination to its OLD inode); every inode that existed is unchanged; the
      working file is gone after `scope_exit`; no guard stays armed.  If the call succeeds the fault is still pending.
-/
import SyModel.Props.GenLocalCopy
import SyModel.Lemmas.GenLocalCopyFault
import SyModel.Lemmas.GenLocalCopyCow
import SyModel.Lemmas.GenLocalCopyFile
set_option autoImplicit false
namespace SyModel.Props.GenLocalCopy2
open SyModel SyModel.Generated.LocalCopy SyModel.Transfer SyModel.LocalCopy SyModel.Props.GenLocalCopy
open SyModel.Compress (setLen)

/-! ## §1 faults on the temp+rename route -/

/-- **Old or new (C09, C10).**  In-place rebuild route, the working-file path free, a fault due at the `(k+8)`-th fallible
    call or later (`File::create(working file)` is the 8th): the call either FAILS — then `FailPost`: all names and all
    old inodes as before, no guard, the fault used up — or SUCCEEDS — then `OkPost`: `dst` names the new inode, the
    working-file path is free, the old inode only lost a link, and the fault is still pending. -/
theorem inplace_fault_old_or_new (cfg : LocalCopy.Cfg) (self : LocalTransport) (w : LWorld) (src dst : Generated.Rs.Path) (is id : Nat)
    (S D : Bytes) (ms md : Nat) (xs xd : List Generated.Rs.Str) (ls ld k : Nat)
    (h : UpdPreF w src dst is id S D ms md xs xd ls ld) (hr : InPlaceRoute cfg D ld) (hF : w.fault = some (k + 7)) :
    ∃ r w', LocalTransport.sync_file_with_delta (posix cfg) self src dst w = (r, w') ∧
      ((∃ e, r = .error e ∧ FailPost w w') ∨ (∃ v, r = .ok v ∧ OkPost w dst (dst ++ TEMP_SUFFIX) id w.nextIno w')) := by
  have hwp := sync_inplace_wp cfg self w src dst is id S D ms md xs xd ls ld k h hF hr.big hr.notSparse hr.ratio hr.noCow hr.noVerify
  unfold wp at hwp
  rcases hrun : LocalTransport.sync_file_with_delta (posix cfg) self src dst w with ⟨r, w'⟩
  rw [hrun] at hwp
  refine ⟨r, w', rfl, ?_⟩
  cases r with
  | error e => exact Or.inl ⟨e, rfl, hwp⟩
  | ok v => exact Or.inr ⟨v, rfl, hwp⟩

/-- **If the fault fires, the call fails (C10) and the destination is the OLD file (C09).**  Same hypotheses; when the
    countdown has been used up at the end (`w'.fault = none`: some operation was hit), the result is `Err`, the name `dst`
    still refers to inode `id`, which still holds the old bytes / mtime / xattrs / link count; the source is untouched; the
    working file does not exist. -/
theorem inplace_fault_fired_fails (cfg : LocalCopy.Cfg) (self : LocalTransport) (w : LWorld) (src dst : Generated.Rs.Path) (is id : Nat)
    (S D : Bytes) (ms md : Nat) (xs xd : List Generated.Rs.Str) (ls ld k : Nat)
    (h : UpdPreF w src dst is id S D ms md xs xd ls ld) (hr : InPlaceRoute cfg D ld) (hF : w.fault = some (k + 7))
    (hfired : (LocalTransport.sync_file_with_delta (posix cfg) self src dst w).2.fault = none) :
    ∃ e w', LocalTransport.sync_file_with_delta (posix cfg) self src dst w = (.error e, w') ∧
      w'.names dst = some (.file id) ∧ w'.inodes id = some ⟨ofU8 D, md, xd, ld⟩ ∧
      w'.names src = some (.file is) ∧ w'.inodes is = some ⟨ofU8 S, ms, xs, ls⟩ ∧
      w'.names (dst ++ TEMP_SUFFIX) = none ∧ w'.guards = [] := by
  obtain ⟨r, w', hrun, hcase⟩ := inplace_fault_old_or_new cfg self w src dst is id S D ms md xs xd ls ld k h hr hF
  rw [hrun] at hfired
  rcases hcase with ⟨e, hre, hp⟩ | ⟨v, _, hp⟩
  · subst hre
    exact ⟨e, w', hrun, by rw [hp.names, h.hdst], by rw [hp.inodes id h.fresh.2, h.hidst], by rw [hp.names, h.hsrc],
      by rw [hp.inodes is h.fresh.1, h.hisrc], by rw [hp.names, h.hfree], hp.guards⟩
  · exact absurd hfired hp.pending

/-- **No working file remains (C05) — in particular after a failing `rename`.**  Whatever operation of the route the fault
    hits (the last fallible one is `fs::rename(temp, dest)`), when the call returns `Err` the working-file path is free and
    no guard is armed: `temp_guard.defuse()` comes AFTER the rename, so a failing rename leaves the guard armed and
    `scope_exit` removes the file.  (With `defuse()` before the rename this theorem is false: the proof of
    `sync_inplace_wp_*` stops at the rename's failure leaf.) -/
theorem inplace_failing_rename_leaves_no_working_file (cfg : LocalCopy.Cfg) (self : LocalTransport) (w : LWorld)
    (src dst : Generated.Rs.Path) (is id : Nat) (S D : Bytes) (ms md : Nat) (xs xd : List Generated.Rs.Str) (ls ld k : Nat)
    (h : UpdPreF w src dst is id S D ms md xs xd ls ld) (hr : InPlaceRoute cfg D ld) (hF : w.fault = some (k + 7))
    (e : Generated.Rs.Err) (w' : LWorld)
    (hfail : LocalTransport.sync_file_with_delta (posix cfg) self src dst w = (.error e, w')) :
    w'.names (dst ++ TEMP_SUFFIX) = none ∧ w'.guards = [] ∧ (∀ p, w'.names p = w.names p) := by
  obtain ⟨r, w'', hrun, hcase⟩ := inplace_fault_old_or_new cfg self w src dst is id S D ms md xs xd ls ld k h hr hF
  rw [hfail] at hrun
  obtain ⟨rfl, rfl⟩ := Prod.mk.inj hrun
  rcases hcase with ⟨_, _, hp⟩ | ⟨v, hv, _⟩
  · exact ⟨by rw [hp.names, h.hfree], hp.guards, hp.names⟩
  · cases hv

/-- a fault at one of the three `metadata` calls before the working file exists (3rd–5th fallible call): the call fails,
    no name and no inode has changed -/
theorem inplace_fault_before_working_file (cfg : LocalCopy.Cfg) (self : LocalTransport) (w : LWorld) (src dst : Generated.Rs.Path)
    (is id : Nat) (S D : Bytes) (ms md : Nat) (xs xd : List Generated.Rs.Str) (ls ld k : Nat)
    (h : UpdPreF w src dst is id S D ms md xs xd ls ld) (hF : w.fault = some k) (hk : k = 2 ∨ k = 3 ∨ k = 4)
    (hbig : 10485760 ≤ D.length) (hsp : cfg.sparse = false) :
    ∃ e w', LocalTransport.sync_file_with_delta (posix cfg) self src dst w = (.error e, w') ∧ FailPost w w' := by
  have hwp := sync_inplace_fault_early cfg self w src dst is id S D ms md xs xd ls ld k h hF hk hbig hsp
  unfold wp at hwp
  rcases hrun : LocalTransport.sync_file_with_delta (posix cfg) self src dst w with ⟨r, w'⟩
  rw [hrun] at hwp
  cases r with
  | error e => exact ⟨e, w', rfl, hwp⟩
  | ok v => exact absurd hwp (by simp)

/-- **On success `guard_defuse` precedes `scope_exit`, which then removes nothing**: without a fault the last operation of
    the route is the `rename`, no guard is armed at the end and the working-file path is free -/
theorem inplace_success_scope_exit_removes_nothing (cfg : LocalCopy.Cfg) (self : LocalTransport) (w : LWorld)
    (src dst : Generated.Rs.Path) (is id : Nat) (S D : Bytes) (ms md : Nat) (xs xd : List Generated.Rs.Str) (ls ld : Nat)
    (h : UpdPre w src dst is id S D ms md xs xd ls ld) (hr : InPlaceRoute cfg D ld) :
    ∃ v w', LocalTransport.sync_file_with_delta (posix cfg) self src dst w = (.ok v, w') ∧
      w'.log.getLast? = some (Op.rename (dst ++ TEMP_SUFFIX) dst) ∧ w'.guards = [] ∧ w'.names (dst ++ TEMP_SUFFIX) = none := by
  obtain ⟨w', hrun, _, ht, _, _, _, _, _, hlog, hg, _⟩ := sync_inplace_eval cfg self w src dst is id S D ms md xs xd ls ld h hr
  refine ⟨_, w', hrun, ?_, hg, ht⟩
  have hl : w'.log = ((unlinkSym w (dst ++ TEMP_SUFFIX)).log ++
      ([Op.create (dst ++ TEMP_SUFFIX) w.nextIno, Op.setLen w.nextIno (List.length S)] ++
        List.map (fun x => Op.write w.nextIno x.fst x.snd) (wsOf (inPlaceGo (fun _ => 65536) S D 0 (ipInit S))) ++
        [Op.utime (dst ++ TEMP_SUFFIX) w.nextIno ms])) ++ [Op.rename (dst ++ TEMP_SUFFIX) dst] := by
    rw [hlog]; simp [List.append_assoc]
  rw [hl, List.getLast?_concat]

/-- **the exception, stated at the guard itself**: when the removal performed by the guard's drop is the operation the fault
    hits, the working file STAYS (the error of `remove_file` is ignored by `Drop`, temp_file.rs:69-79).  On the route above
    this cannot happen with a single fault — the guard is only dropped armed after an error, and the error has used the
    fault up (`FailPost.spent`) — but it does happen after an error of the operation's own (`paranoid_*` below). -/
theorem dropGuard_hit_keeps_working_file (W : LWorld) (p : Generated.Rs.Path) (j : Nat) (hn : W.names p = some (.file j))
    (hF : W.fault = some 0) : (dropGuard W p).names p = some (.file j) ∧ (dropGuard W p).fault = none := by
  have hst : W.stat p = some (.file j) := stat_of_file W p j hn
  unfold dropGuard prim
  simp [hst, hF, hn]

/-! ## §2 the COW route (`use_cow_strategy`) -/

/-- with the production block size the translated COW loop (full 64 KiB reads) and the model (reads through a 256 KiB
    `BufReader`) compare the same blocks -/
theorem cowGo_eq_model (S D : Bytes) :
    cowGo (fun _ => 65536) S D 0 (cowInit D) = cowGo (chunkAt BUF_CAP LOCAL_BLOCK_SIZE) S D 0 (cowInit D) := by
  show cowGo (fun _ => 65536) S D 0 { temp := D, offset := 0, changed := 0, literal := 0, writes := [] } =
    cowGo (chunkAt BUF_CAP LOCAL_BLOCK_SIZE) S D 0 { temp := D, offset := 0, changed := 0, literal := 0, writes := [] }
  rw [cowGo_start_eq, cowGo_start_eq]
  have h1 := cmpBlocks_plain (fun _ => 65536) 65536 (by decide) (fun _ => rfl) S D
  have h2 := C01Bytes.production_blocks_plain S D
  rw [h1, h2]

/-- the loop state of the model's COW strategy before the final `set_len` -/
abbrev cowLoop (S D : Bytes) : Loop := cowGo (chunkAt BUF_CAP LOCAL_BLOCK_SIZE) S D 0 (cowInit D)

theorem cowLoop_setLen (S D : Bytes) : setLen (cowLoop S D).temp (cowLoop S D).offset = S := by
  have := C01Bytes.blockCompare_cow LOCAL_BLOCK_SIZE (by decide) S D
  simpa [rebuildCow, rebuildCowLoop, rebuildCowK] using this
theorem cowLoop_offset (S D : Bytes) : (cowLoop S D).offset = S.length := by
  have := (C01Bytes.blockCompare_bytes_written LOCAL_BLOCK_SIZE (by decide) S D).2
  simpa [rebuildCowLoop, rebuildCowK] using this
theorem cowLoop_changed (S D : Bytes) : (cowLoop S D).changed = (rebuildCow LOCAL_BLOCK_SIZE S D).2.1 := rfl
theorem cowLoop_literal (S D : Bytes) : (cowLoop S D).literal = (rebuildCow LOCAL_BLOCK_SIZE S D).2.2 := rfl

/-- the hypotheses under which `sync_file_with_delta` takes the COW route -/
structure CowRoute (cfg : LocalCopy.Cfg) (D : Bytes) (ld : Nat) : Prop where
  big : 10485760 ≤ D.length
  notSparse : cfg.sparse = false
  ratio : cfg.ratio ≠ some false
  /-- `supports_cow_reflinks && same_filesystem && !has_hard_links` -/
  cow : (cfg.cow && cfg.sameFs && !decide (1 < ld)) = true
  noVerify : cfg.verifyOnWrite = false

/-- **Postcondition of the COW route (C01, C03).**  The call succeeds; `dst` names a FRESH inode (the clone) holding exactly
    the source's bytes `S` — whatever `D` was: when the source is shorter the clone is cut by `set_len(bytes_written)` —
    with the source's mtime, no xattr (every attribute `fs::copy` brought along is stripped), one link; the working file is
    gone, no guard; source untouched; the old inode only lost its name; `bytes_written = |S|`, the counters are those of
    `rebuildCow LOCAL_BLOCK_SIZE S D`. -/
theorem sync_cow_postcondition (cfg : LocalCopy.Cfg) (self : LocalTransport) (w : LWorld) (src dst : Generated.Rs.Path) (is id : Nat)
    (S D : Bytes) (ms md : Nat) (xs xd : List Generated.Rs.Str) (ls ld : Nat) (h : UpdPre w src dst is id S D ms md xs xd ls ld)
    (hr : CowRoute cfg D ld) :
    ∃ w', LocalTransport.sync_file_with_delta (posix cfg) self src dst w =
      (.ok { bytes_written := S.length, delta_operations := some (rebuildCow LOCAL_BLOCK_SIZE S D).2.1,
             literal_bytes := some (rebuildCow LOCAL_BLOCK_SIZE S D).2.2, transferred_bytes := none,
             compression_used := false }, w') ∧
      w'.names dst = some (.file w.nextIno) ∧
      w'.inodes w.nextIno = some ⟨ofU8 S, ms, [], 1⟩ ∧
      w'.names (dst ++ TEMP_SUFFIX) = none ∧ w'.guards = [] ∧
      (∀ p, p ≠ dst → p ≠ dst ++ TEMP_SUFFIX → w'.names p = w.names p) ∧
      w'.inodes is = some ⟨ofU8 S, ms, xs, ls⟩ ∧ w'.inodes id = some ⟨ofU8 D, md, xd, ld - 1⟩ ∧
      (∀ i, i ≠ w.nextIno → i ≠ id → w'.inodes i = w.inodes i) ∧
      w'.log = (unlinkSym w (dst ++ TEMP_SUFFIX)).log ++
        ([Op.create (dst ++ TEMP_SUFFIX) w.nextIno, Op.write w.nextIno 0 (ofU8 D)] ++
          (stripNames (cloneXattrs cfg xd) (cloneXattrs cfg xd)).map (Op.xattrRemove w.nextIno) ++
          (wsOf (cowLoop S D)).map (fun x => Op.write w.nextIno x.1 x.2) ++
          [Op.setLen w.nextIno S.length, Op.utime (dst ++ TEMP_SUFFIX) w.nextIno ms, Op.rename (dst ++ TEMP_SUFFIX) dst]) := by
  obtain ⟨hbig, hsp, hratio, hcow, hv⟩ := hr
  have key : ∃ w', LocalTransport.sync_file_with_delta (posix cfg) self src dst w =
      (.ok (TransferResult.with_delta (cowGo (fun _ => 65536) S D 0 (cowInit D)).offset
          (cowGo (fun _ => 65536) S D 0 (cowInit D)).changed (cowGo (fun _ => 65536) S D 0 (cowInit D)).literal), w') ∧
      w'.names dst = some (.file w.nextIno) ∧ w'.names (dst ++ TEMP_SUFFIX) = none ∧
      (∀ p, p ≠ dst → p ≠ dst ++ TEMP_SUFFIX → w'.names p = w.names p) ∧
      w'.inodes w.nextIno = some ⟨ofU8 (setLen (cowGo (fun _ => 65536) S D 0 (cowInit D)).temp (cowGo (fun _ => 65536) S D 0 (cowInit D)).offset), ms, [], 1⟩ ∧
      w'.inodes is = some ⟨ofU8 S, ms, xs, ls⟩ ∧ w'.inodes id = some ⟨ofU8 D, md, xd, ld - 1⟩ ∧
      (∀ i, i ≠ w.nextIno → i ≠ id → w'.inodes i = w.inodes i) ∧
      w'.log = (unlinkSym w (dst ++ TEMP_SUFFIX)).log ++
        ([Op.create (dst ++ TEMP_SUFFIX) w.nextIno, Op.write w.nextIno 0 (ofU8 D)] ++
          (stripNames (cloneXattrs cfg xd) (cloneXattrs cfg xd)).map (Op.xattrRemove w.nextIno) ++
          (wsOf (cowGo (fun _ => 65536) S D 0 (cowInit D))).map (fun x => Op.write w.nextIno x.1 x.2) ++
          [Op.setLen w.nextIno (cowGo (fun _ => 65536) S D 0 (cowInit D)).offset,
           Op.utime (dst ++ TEMP_SUFFIX) w.nextIno ms, Op.rename (dst ++ TEMP_SUFFIX) dst]) ∧
      w'.guards = [] ∧ w'.fault = none := by
    cases hc : cfg.ratio with
    | none => exact sync_cow_eval_ratio_none cfg self w src dst is id S D ms md xs xd ls ld h hbig hsp hc hcow hv
    | some b =>
      cases b with
      | true => exact sync_cow_eval_ratio_true cfg self w src dst is id S D ms md xs xd ls ld h hbig hsp hc hcow hv
      | false => exact absurd hc hratio
  obtain ⟨w', hrun, hn, ht, hnames, hino, his, hid, hothers, hlog, hg, _⟩ := key
  rw [cowGo_eq_model] at hrun hino hlog
  change _ = (Except.ok (TransferResult.with_delta (cowLoop S D).offset (cowLoop S D).changed (cowLoop S D).literal), w') at hrun
  rw [cowLoop_offset, cowLoop_changed, cowLoop_literal] at hrun
  refine ⟨w', hrun, hn, ?_, ht, hg, hnames, his, hid, hothers, ?_⟩
  · rw [hino]
    change some (Inode.mk (ofU8 (setLen (cowLoop S D).temp (cowLoop S D).offset)) ms [] 1) = _
    rw [cowLoop_setLen]
  · rw [hlog]
    change _ ++ (_ ++ _ ++ _ ++ [Op.setLen w.nextIno (cowLoop S D).offset, _, _]) = _
    rw [cowLoop_offset]

/-- **Order facts of the COW route (C09).**  The appended operations are `pre ++ [utime tmp, rename tmp dst]`; nothing in
    `pre` names `dst` or touches the inode `dst` referred to (the clone is a NEW inode: `fs::copy(dest, temp)` only reads
    `dest`); the truncation `set_len(|S|)` is in `pre`; mtime is set on the working file immediately before the rename,
    which is last. -/
theorem sync_cow_order (cfg : LocalCopy.Cfg) (self : LocalTransport) (w : LWorld) (src dst : Generated.Rs.Path) (is id : Nat)
    (S D : Bytes) (ms md : Nat) (xs xd : List Generated.Rs.Str) (ls ld : Nat) (h : UpdPre w src dst is id S D ms md xs xd ls ld)
    (hr : CowRoute cfg D ld) :
    ∃ pre, (LocalTransport.sync_file_with_delta (posix cfg) self src dst w).2.log =
        w.log ++ pre ++ [Op.utime (dst ++ TEMP_SUFFIX) w.nextIno ms, Op.rename (dst ++ TEMP_SUFFIX) dst] ∧
      (∀ o ∈ pre, touchesDest dst id o = false) ∧ Op.setLen w.nextIno S.length ∈ pre := by
  obtain ⟨w', hrun, _, _, _, _, _, _, _, _, hlog⟩ := sync_cow_postcondition cfg self w src dst is id S D ms md xs xd ls ld h hr
  have htd : dst ++ TEMP_SUFFIX ≠ dst := by
    intro e; have := h.htmp; rw [e] at this
    rcases this with h1 | ⟨t, h1⟩ <;> rw [h.hdst] at h1 <;> cases h1
  have hid : w.nextIno ≠ id := by have := h.fresh.2; omega
  have hul : ∃ u, (unlinkSym w (dst ++ TEMP_SUFFIX)).log = w.log ++ u ∧ ∀ o ∈ u, touchesDest dst id o = false := by
    unfold unlinkSym
    split
    · exact ⟨[.unlink (dst ++ TEMP_SUFFIX)], rfl, by intro o ho; simp at ho; subst ho; simp [touchesDest, htd]⟩
    · exact ⟨[], by simp, by simp⟩
  obtain ⟨u, hu, hu2⟩ := hul
  refine ⟨u ++ ([Op.create (dst ++ TEMP_SUFFIX) w.nextIno, Op.write w.nextIno 0 (ofU8 D)] ++
      (stripNames (cloneXattrs cfg xd) (cloneXattrs cfg xd)).map (Op.xattrRemove w.nextIno) ++
      (wsOf (cowLoop S D)).map (fun x => Op.write w.nextIno x.1 x.2) ++ [Op.setLen w.nextIno S.length]), ?_, ?_, ?_⟩
  · rw [hrun]; show w'.log = _; rw [hlog, hu]; simp [List.append_assoc]
  · intro o ho
    simp only [List.mem_append, List.mem_cons, List.mem_map, List.not_mem_nil, or_false] at ho
    rcases ho with ho | (((ho | ho) | ⟨x, _, ho⟩) | ⟨x, _, ho⟩) | ho
    · exact hu2 o ho
    · subst ho; simp [touchesDest, htd]
    · subst ho; simp [touchesDest, hid]
    · subst ho; simp [touchesDest, hid]
    · subst ho; simp [touchesDest, hid]
    · subst ho; simp [touchesDest, hid]
  · simp

/-! ## §3 `copy_file` over an existing regular file (every file below 10 MiB) -/

/-- an operation is a `rename` -/
def isRename : Op → Bool
  | .rename _ _ => true
  | _ => false

/-- **`copy_file` over an existing file without other hard links (C01, C03, C09).**  For every world without a pending
    fault, `src` a regular file (inode record `ns`), `dst` an existing regular file (ANY content, mtime, stale xattrs; link
    count ≤ 1), the parent of `dst` usable: the call returns `Ok(new(|src|))`; `dst` is the SAME inode, now holding the
    source's bytes and mtime and NO extended attribute (every stale one — and every one `fs::copy` brought along — is
    removed); no other inode and no existing name changes; the log is `[mkdir parent]? truncate, write, removexattr…,
    utime` — the TRUNCATION of the destination is the first operation on it, `set_file_mtime` the last (the order C09's
    crash analysis of the full-copy route relies on), and there is no rename. -/
theorem copy_file_over_existing (cfg : LocalCopy.Cfg) (self : LocalTransport) (w : LWorld) (src dst : Generated.Rs.Path)
    (is id : Nat) (ns nd : Inode) (h : CopyPre w src dst is id ns nd) (hl : nd.nlink ≤ 1) :
    ∃ w' mid, LocalTransport.copy_file (posix cfg) self src dst w = (.ok (TransferResult.new ns.bytes.length), w') ∧
      w'.names dst = some (.file id) ∧ w'.inodes id = some ⟨ns.bytes, ns.mtime, [], nd.nlink⟩ ∧
      (∀ p, w.names p ≠ none → w'.names p = w.names p) ∧ (∀ i, i ≠ id → w'.inodes i = w.inodes i) ∧
      w'.log = w.log ++ parentOps w dst ++ ([Op.truncate id, Op.write id 0 ns.bytes] ++ mid ++ [Op.utime dst id ns.mtime]) ∧
      (∀ o ∈ mid, ∃ a, o = Op.xattrRemove id a ∧ a ∈ copiedXattrs cfg ns.xattrs nd.xattrs) ∧
      (∀ o ∈ w'.log, o ∉ w.log → isRename o = false) := by
  obtain ⟨w', h1, h2, h3, h4, h5, _, h7⟩ := copy_file_eval_inplace cfg self w src dst is id ns nd h hl
  refine ⟨w', _, h1, h2, h3, h4, h5, h7, ?_, ?_⟩
  · intro o ho
    obtain ⟨a, ha, rfl⟩ := List.mem_map.mp ho
    exact ⟨a, rfl, stripNames_subset _ _ a ha⟩
  · intro o ho hno
    rw [h7] at ho
    simp only [List.mem_append, List.mem_cons, List.mem_map, List.not_mem_nil, or_false] at ho
    rcases ho with (ho | ho) | ((ho | ho) | ⟨a, _, ho⟩) | ho
    · exact absurd ho hno
    · unfold parentOps at ho
      split at ho
      · split at ho
        · simp at ho
        · split at ho <;> simp at ho
          subst ho; rfl
      · simp at ho
    all_goals (subst ho; rfl)

/-- **A destination with other hard links is never written through (C02, C13).**  Link count > 1: the NAME `dst` is
    unlinked first (`break_unshared_hard_link`) and a NEW inode is created; the old inode keeps bytes, mtime and xattrs
    (every other name still sees the old content) and only loses one link. -/
theorem copy_file_breaks_hard_link (cfg : LocalCopy.Cfg) (self : LocalTransport) (w : LWorld) (src dst : Generated.Rs.Path)
    (is id : Nat) (ns nd : Inode) (h : CopyPre w src dst is id ns nd) (hl : 1 < nd.nlink) :
    ∃ w', LocalTransport.copy_file (posix cfg) self src dst w = (.ok (TransferResult.new ns.bytes.length), w') ∧
      w'.names dst = some (.file w.nextIno) ∧ w'.inodes w.nextIno = some ⟨ns.bytes, ns.mtime, [], 1⟩ ∧
      w'.inodes id = some { nd with nlink := nd.nlink - 1 } ∧
      (∀ p, p ≠ dst → w.names p ≠ none → w'.names p = w.names p) ∧ (∀ i, i ≠ id → i ≠ w.nextIno → w'.inodes i = w.inodes i) ∧
      w'.log = w.log ++ parentOps w dst ++ ([Op.unlink dst, Op.create dst w.nextIno, Op.write w.nextIno 0 ns.bytes] ++
        (stripNames (copiedXattrs cfg ns.xattrs []) (copiedXattrs cfg ns.xattrs [])).map (Op.xattrRemove w.nextIno) ++
        [Op.utime dst w.nextIno ns.mtime]) :=
  copy_file_eval_hardlink cfg self w src dst is id ns nd h hl

/-- **`copy_file` on its own never writes through a destination symlink (C02, C17).**  `dst` a symlink to ANYTHING (the
    source itself, an outside file, nothing), a bare name: `copy_file`'s OWN `remove_if_symlink` unlinks the link, then a
    fresh inode is created at the name; every inode that existed (in particular the link's target) and every other name is
    unchanged; the log is exactly `unlink dst, create dst, write, utime`.  (`GenLocalCopy.sync_symlink_dest_never_through`
    cannot see `copy_file`'s own call: there `sync_file_with_delta` has removed the link already — mutation M6.) -/
theorem copy_file_symlink_dest_never_through (cfg : LocalCopy.Cfg) (self : LocalTransport) (w : LWorld)
    (src dst t : Generated.Rs.Path) (is : Nat) (ns : Inode) (hnf : w.fault = none) (hsrc : w.names src = some (.file is))
    (hisrc : w.inodes is = some ns) (hdst : w.names dst = some (.symlink t)) (hfresh : is < w.nextIno)
    (hpar : Generated.Rs.parent dst = some []) (hx : cfg.copyXattrs = false) :
    ∃ w', LocalTransport.copy_file (posix cfg) self src dst w = (.ok (TransferResult.new ns.bytes.length), w') ∧
      w'.names dst = some (.file w.nextIno) ∧ w'.inodes w.nextIno = some ⟨ns.bytes, ns.mtime, [], 1⟩ ∧
      (∀ p, p ≠ dst → w'.names p = w.names p) ∧ (∀ i, i ≠ w.nextIno → w'.inodes i = w.inodes i) ∧
      w'.inodes is = some ns ∧
      w'.log = w.log ++ [Op.unlink dst, Op.create dst w.nextIno, Op.write w.nextIno 0 ns.bytes, Op.utime dst w.nextIno ns.mtime] := by
  obtain ⟨w', h1, h2, h3, h4, h5, h6⟩ := copy_file_symlink_dest_eval cfg self w src dst t is ns hnf hsrc hisrc hdst hfresh hpar hx
  exact ⟨w', h1, h2, h3, h4, h5, by rw [h5 is (by omega), hisrc], h6⟩

-- the hypotheses hold in `GenLocalCopy.linkW` (`d` → `s`, the source itself)
example : ∃ w', (LocalTransport.copy_file (posix plainCfg) default ['s'] ['d'] linkW).2 = w' ∧
    w'.inodes 0 = some ⟨[1, 2, 3], 7, [], 1⟩ ∧ w'.names ['d'] = some (.file 1) := by
  obtain ⟨w', h1, h2, _, _, _, h6, _⟩ := copy_file_symlink_dest_never_through plainCfg default linkW ['s'] ['d'] ['s'] 0
    ⟨[1, 2, 3], 7, [], 1⟩ rfl rfl rfl rfl (by decide) (by decide) rfl
  exact ⟨w', by rw [h1], h6, h2⟩

/-! ## §4 the change-ratio fallback of `sync_file_with_delta` -/

/-- **Finding C09/large-update-rewritten-in-place, as a theorem.**  Destination ≥ 10 MiB, source not sparse, the sampled
    change ratio above the threshold (`!ratio.use_delta`), no other hard link: the call succeeds and the destination ends
    up with the source's bytes / mtime / no xattrs — but it is the SAME inode, the FIRST operation of the call is the
    truncation of that inode, and there is NO working file and NO rename: a crash after the first operation leaves a
    destination that is neither the old nor the new file. -/
theorem ratio_fallback_rewrites_in_place (cfg : LocalCopy.Cfg) (self : LocalTransport) (w : LWorld) (src dst : Generated.Rs.Path)
    (is id : Nat) (ns nd : Inode) (hnf : w.fault = none) (hsrc : w.names src = some (.file is)) (hisrc : w.inodes is = some ns)
    (hdst : w.names dst = some (.file id)) (hidst : w.inodes id = some nd) (hne : is ≠ id)
    (hfresh : is < w.nextIno ∧ id < w.nextIno) (hng : w.guards = [])
    (hbig : 10485760 ≤ nd.bytes.length) (hsp : cfg.sparse = false) (hr : cfg.ratio = some false) (hl : nd.nlink ≤ 1) :
    ∃ w' rest, LocalTransport.sync_file_with_delta (posix cfg) self src dst w = (.ok (TransferResult.new ns.bytes.length), w') ∧
      w'.names = w.names ∧ w'.inodes id = some ⟨ns.bytes, ns.mtime, [], nd.nlink⟩ ∧
      (∀ i, i ≠ id → w'.inodes i = w.inodes i) ∧
      w'.log = w.log ++ Op.truncate id :: rest ∧ (∀ o ∈ rest, isRename o = false) ∧
      rest.getLast? = some (Op.utime dst id ns.mtime) := by
  obtain ⟨w', h1, h2, h3, h4, _, h6⟩ := sync_ratio_fallback_eval_inplace cfg self w src dst is id ns nd hnf hsrc hisrc hdst hidst hne
    hfresh hng hbig hsp hr hl
  refine ⟨w', [Op.write id 0 ns.bytes] ++ (stripNames (copiedXattrs cfg ns.xattrs nd.xattrs) (copiedXattrs cfg ns.xattrs nd.xattrs)).map (Op.xattrRemove id) ++
      [Op.utime dst id ns.mtime], h1, h2, h3, h4, by rw [h6]; simp, ?_, ?_⟩
  · intro o ho
    simp only [List.mem_append, List.mem_cons, List.mem_map, List.not_mem_nil, or_false] at ho
    rcases ho with (ho | ⟨a, _, ho⟩) | ho <;> (subst ho; rfl)
  · rw [List.getLast?_concat]

/-- the same fallback over a destination with other hard links: the link is broken first (C02, C13) -/
theorem ratio_fallback_breaks_hard_link (cfg : LocalCopy.Cfg) (self : LocalTransport) (w : LWorld) (src dst : Generated.Rs.Path)
    (is id : Nat) (ns nd : Inode) (hnf : w.fault = none) (hsrc : w.names src = some (.file is)) (hisrc : w.inodes is = some ns)
    (hdst : w.names dst = some (.file id)) (hidst : w.inodes id = some nd) (hne : is ≠ id)
    (hfresh : is < w.nextIno ∧ id < w.nextIno) (hng : w.guards = [])
    (hbig : 10485760 ≤ nd.bytes.length) (hsp : cfg.sparse = false) (hr : cfg.ratio = some false) (hl : 1 < nd.nlink) :
    ∃ w', LocalTransport.sync_file_with_delta (posix cfg) self src dst w = (.ok (TransferResult.new ns.bytes.length), w') ∧
      w'.names dst = some (.file w.nextIno) ∧ w'.inodes w.nextIno = some ⟨ns.bytes, ns.mtime, [], 1⟩ ∧
      w'.inodes id = some { nd with nlink := nd.nlink - 1 } ∧
      (∀ p, p ≠ dst → w'.names p = w.names p) ∧ (∀ i, i ≠ id → i ≠ w.nextIno → w'.inodes i = w.inodes i) ∧
      w'.log = w.log ++ ([Op.unlink dst, Op.create dst w.nextIno, Op.write w.nextIno 0 ns.bytes] ++
        (stripNames (copiedXattrs cfg ns.xattrs []) (copiedXattrs cfg ns.xattrs [])).map (Op.xattrRemove w.nextIno) ++
        [Op.utime dst w.nextIno ns.mtime]) :=
  sync_ratio_fallback_eval_hardlink cfg self w src dst is id ns nd hnf hsrc hisrc hdst hidst hne hfresh hng hbig hsp hr hl

/-! ### non-vacuity -/

/-- the 10 MiB world of `GenLocalCopy.exW` with a fault due at the 30th fallible call -/
def exWF : LWorld := { exW with fault := some (22 + 7) }

theorem exWF_pre : UpdPreF exWF ['s'] ['d'] 0 1 [1, 2, 3] (List.replicate 10485760 0) 7 5 [] [['u']] 1 1 :=
  { hsrc := rfl, hisrc := rfl, hdst := rfl, hidst := rfl, ne := by decide, hfree := rfl, fresh := by decide, noguards := rfl }

example : ∃ r w', LocalTransport.sync_file_with_delta (posix plainCfg) default ['s'] ['d'] exWF = (r, w') ∧
    ((∃ e, r = .error e ∧ FailPost exWF w') ∨ (∃ v, r = .ok v ∧ OkPost exWF ['d'] (['d'] ++ TEMP_SUFFIX) 1 2 w')) :=
  inplace_fault_old_or_new plainCfg default exWF ['s'] ['d'] 0 1 [1, 2, 3] (List.replicate 10485760 0) 7 5 [] [['u']] 1 1 22
    exWF_pre exW_route rfl

/-- `dropGuard_hit_keeps_working_file` is not vacuous -/
example : (dropGuard { exW with names := fun p => if p = ['t'] then some (.file 0) else exW.names p, fault := some 0 } ['t']).names ['t']
    = some (.file 0) := by
  exact (dropGuard_hit_keeps_working_file _ ['t'] 0 rfl rfl).1

def cowCfg : LocalCopy.Cfg := { sparse := false, ratio := some true, cow := true, sameFs := true, verifyOnWrite := false, copyXattrs := true }

theorem exW_cow_route : CowRoute cowCfg (List.replicate 10485760 0) 1 :=
  { big := by rw [List.length_replicate]; exact Nat.le_refl _, notSparse := rfl, ratio := by decide, cow := rfl, noVerify := rfl }

/-- the COW postcondition instantiated: the 3-byte source replaces the 10 MiB destination (cut by `set_len(3)`), the stale
    xattr `u` the clone inherited is removed -/
example : ∃ w', (LocalTransport.sync_file_with_delta (posix cowCfg) default ['s'] ['d'] exW).2 = w' ∧
    w'.names ['d'] = some (.file 2) ∧ w'.inodes 2 = some ⟨ofU8 [1, 2, 3], 7, [], 1⟩ := by
  obtain ⟨w', h1, h2, h3, _⟩ := sync_cow_postcondition cowCfg default exW ['s'] ['d'] 0 1 [1, 2, 3]
    (List.replicate 10485760 0) 7 5 [] [['u']] 1 1 exW_pre exW_cow_route
  exact ⟨w', by rw [h1], h2, h3⟩

/-- a small world for `copy_file`: `s` (inode 0), `d` (inode 1: stale xattr `u`, two links), bare names -/
def cpW : LWorld :=
  { names := fun p => if p = ['s'] then some (.file 0) else if p = ['d'] then some (.file 1) else if p = ['e'] then some (.file 1) else none,
    inodes := fun i => if i = 0 then some ⟨[1, 2, 3], 7, [], 1⟩ else if i = 1 then some ⟨[9, 9, 9, 9], 5, [['u']], 2⟩ else none,
    nextIno := 2, handles := fun _ => none, nextHandle := 0, guards := [], log := [], now := 9, fault := none }

theorem cpW_pre : CopyPre cpW ['s'] ['d'] 0 1 ⟨[1, 2, 3], 7, [], 1⟩ ⟨[9, 9, 9, 9], 5, [['u']], 2⟩ :=
  { nf := rfl, hsrc := rfl, hisrc := rfl, hdst := rfl, hidst := rfl, ne := by decide, fresh := by decide,
    parent := by intro d hd; left; have : Generated.Rs.parent ['d'] = some [] := by decide
                 rw [this] at hd; exact (Option.some.inj hd).symm }

/-- the hard-link theorem instantiated: `e`, the other name of inode 1, still sees `[9,9,9,9]` -/
example : ∃ w', (LocalTransport.copy_file (posix plainCfg) default ['s'] ['d'] cpW).2 = w' ∧
    w'.names ['d'] = some (.file 2) ∧ w'.names ['e'] = some (.file 1) ∧
    w'.inodes 1 = some ⟨[9, 9, 9, 9], 5, [['u']], 1⟩ ∧ w'.inodes 2 = some ⟨[1, 2, 3], 7, [], 1⟩ := by
  obtain ⟨w', h1, h2, h3, h4, h5, _⟩ := copy_file_breaks_hard_link plainCfg default cpW ['s'] ['d'] 0 1 _ _ cpW_pre (by decide)
  exact ⟨w', by rw [h1], h2, by rw [h5 ['e'] (by decide) (by decide)]; rfl, h4, h3⟩

/-- the in-place hypotheses are satisfiable as well (link count 1) -/
example : CopyPre { cpW with inodes := fun i => if i = 0 then some ⟨[1, 2, 3], 7, [], 1⟩ else if i = 1 then some ⟨[9], 5, [['u']], 1⟩ else none }
    ['s'] ['d'] 0 1 ⟨[1, 2, 3], 7, [], 1⟩ ⟨[9], 5, [['u']], 1⟩ :=
  { nf := rfl, hsrc := rfl, hisrc := rfl, hdst := rfl, hidst := rfl, ne := by decide, fresh := by decide,
    parent := by intro d hd; left; have : Generated.Rs.parent ['d'] = some [] := by decide
                 rw [this] at hd; exact (Option.some.inj hd).symm }

/-- `ratio_fallback_*`: the hypotheses hold in `exW` with the ratio gate answering "no delta" -/
example : exW.fault = none ∧ exW.names ['s'] = some (.file 0) ∧ exW.names ['d'] = some (.file 1) ∧ exW.guards = [] ∧
    (⟨false, some false, false, true, false, false⟩ : LocalCopy.Cfg).ratio = some false := by decide

end SyModel.Props.GenLocalCopy2
