/-
  Props/GenWatch — bridge between the TRANSLATED watch loop (Generated/Code/Watch.lean, regenerated from
  src/sync/watch.rs on every run by tools/rs2lean.py) and the handwritten model `SyModel.Watch` that the theorems
  of Props/C20 are about.  Vocabulary, the world `WWorld`, the instance `inst` (trusted) and helper lemmas are in
  Lemmas/GenWatch.lean.

    1. `should_sync_event_eq_model`, `should_sync_event_ignores_self_and_payload`
    2. `watch_eq` (for ANY instance: the call sequence of `watch`, the watcher armed BEFORE the initial sync, the
       endless loop as `loopN fuel body`), `watch_arm_failure_skips_initial_sync`, `watch_initial_sync_failure`
    3. one iteration on `inst` = the model's moves: `iter_sigint`, `iter_event`, `iter_watch_error`,
       `iter_timeout_idle`, `iter_timeout_sync`, `iter_disconnected`, the uniform `iter_sim`;
       n iterations for every fuel: `loop_sim`
    4. `boot_sim` (arming, initial sync, entering the loop = four model steps with `armFirst = true`),
       `watch_sim` (the whole function), `loop_sync_failure_is_swallowed`
    5. corollaries about the translated loop: `gen_dropped_kind_never_syncs`, `gen_pending_cleared_only_by_sync`,
       `gen_event_during_initial_sync_is_queued`, `gen_initial_sync_logged_armed`
       (the model's theorems of Props/C20 about `run` apply to the translated loop through `loop_sim` / `watch_sim`)
-/
import SyModel.Lemmas.GenWatch
import SyModel.Props.C20
namespace SyModel.Props.GenWatch
open SyModel SyModel.Watch SyModel.Generated SyModel.Generated.Watch

/-! ## 1. the event filter -/

/-- the translated `should_sync_event` is the model's `Kind.kept` of the abstracted kind — for every event -/
theorem should_sync_event_eq_model (self : WatchMode) (ev : Event) :
    WatchMode.should_sync_event self ev = (absKind ev.kind).kept :=
  should_sync_event_kept self ev

/-- …and it looks neither at `self` nor at the payload of the kind -/
theorem should_sync_event_ignores_self_and_payload (s1 s2 : WatchMode) (e1 e2 : Event)
    (h : absKind e1.kind = absKind e2.kind) :
    WatchMode.should_sync_event s1 e1 = WatchMode.should_sync_event s2 e2 := by
  rw [should_sync_event_kept, should_sync_event_kept, h]

/-- the abstraction reaches every kind of the model except `error` (which is the `Ok(Err(e))` item) -/
theorem absKind_surjective (k : Kind) (hk : k ≠ .error) : ∃ e : EventKind, absKind e = k := by
  cases k
  · exact ⟨.Any, rfl⟩
  · exact ⟨.Access ⟨⟩, rfl⟩
  · exact ⟨.Create ⟨⟩, rfl⟩
  · exact ⟨.Modify ⟨⟩, rfl⟩
  · exact ⟨.Remove ⟨⟩, rfl⟩
  · exact ⟨.Other, rfl⟩
  · exact absurd rfl hk

/-! ## 2. the call sequence of `watch`, for ANY instance -/

/-- **Order of arming.**  For every instance of the externs the translated `watch` IS this computation: create the
    channel, create the watcher, ARM it (`watcher.watch`), and only then run the initial sync; read the clock,
    create the `ctrl_c` future, and iterate `body` at most `fuel` times from `(pending_changes, last_sync) = ([], t)`.
    (`rfl`: any reordering of these statements in the Rust source — e.g. the pinned order, initial sync before
    `watcher.watch` — changes the generated term and breaks this theorem.) -/
theorem watch_eq {W : Type} (ext : Ext W) (self : WatchMode) :
    WatchMode.watch ext self = (do
      let (tx, rx) ← ext.channel ()
      let watcher ← ext.notify_recommended_watcher tx
      ext.watcher_watch watcher self.source ()
      let _ ← ext.engine_sync self.engine self.source self.destination
      let t ← ext.Instant_now ()
      let _ ← ext.signal_ctrl_c ()
      let _ ← loopN ext.fuel (body ext self rx) ([], t)
      pure ()) := by
  have h : WatchMode.watch ext self = (do
      let (tx, rx) ← ext.channel ()
      let watcher ← ext.notify_recommended_watcher tx
      ext.watcher_watch watcher self.source ()
      let _ ← ext.engine_sync self.engine self.source self.destination
      let t ← ext.Instant_now ()
      let _ ← ext.signal_ctrl_c ()
      let _ ← forIn [0:ext.fuel] (([], t) : Locals) (fun _ r => body ext self rx r)
      pure ()) := rfl
  rw [h]
  simp only [forIn_range_eq_loopN]

/-- the part of `watch` after the initial sync -/
def afterInit {W : Type} (ext : Ext W) (self : WatchMode) (rx : Rs.Opaque) : Rs.M W Unit := do
  let t ← ext.Instant_now ()
  let _ ← ext.signal_ctrl_c ()
  let _ ← loopN ext.fuel (body ext self rx) ([], t)
  pure ()

section AnyInstance
variable {W : Type} (ext : Ext W) (self : WatchMode) {w w1 w2 w3 w4 : W} {tx rx wt : Rs.Opaque}

/-- `watch` run from `w`, given what the first three operations answer: the initial sync starts in the world the
    ARMING left (`w3`) -/
theorem watch_run_prefix (h1 : runM (ext.channel ()) w = (.ok (tx, rx), w1))
    (h2 : runM (ext.notify_recommended_watcher tx) w1 = (.ok wt, w2))
    (h3 : runM (ext.watcher_watch wt self.source ()) w2 = (.ok (), w3)) :
    runM (WatchMode.watch ext self) w =
      runM (ext.engine_sync self.engine self.source self.destination >>= fun _ => afterInit ext self rx) w3 := by
  rw [watch_eq, runM_bind_ok h1]
  dsimp only
  rw [runM_bind_ok h2, runM_bind_ok h3]
  rfl

/-- **A failing initial sync makes `watch` fail** (`?`, watch.rs:86) with that error, in the world the sync left:
    neither the clock is read, nor `ctrl_c` created, nor the loop entered. -/
theorem watch_initial_sync_failure {e : Rs.Err} (h1 : runM (ext.channel ()) w = (.ok (tx, rx), w1))
    (h2 : runM (ext.notify_recommended_watcher tx) w1 = (.ok wt, w2))
    (h3 : runM (ext.watcher_watch wt self.source ()) w2 = (.ok (), w3))
    (h4 : runM (ext.engine_sync self.engine self.source self.destination) w3 = (.error e, w4)) :
    runM (WatchMode.watch ext self) w = (.error e, w4) := by
  rw [watch_run_prefix ext self h1 h2 h3, runM_bind_error h4]

/-- a failure to arm the watcher ends `watch` BEFORE the initial sync is called -/
theorem watch_arm_failure_skips_initial_sync {e : Rs.Err} (h1 : runM (ext.channel ()) w = (.ok (tx, rx), w1))
    (h2 : runM (ext.notify_recommended_watcher tx) w1 = (.ok wt, w2))
    (h3 : runM (ext.watcher_watch wt self.source ()) w2 = (.error e, w3)) :
    runM (WatchMode.watch ext self) w = (.error e, w3) := by
  rw [watch_eq, runM_bind_ok h1]
  dsimp only
  rw [runM_bind_ok h2, runM_bind_error h3]

/-- after a successful initial sync -/
theorem watch_run_after_init {r : Rs.Opaque} {t : Nat} {cc : Rs.Opaque} {w5 w6 : W}
    (h1 : runM (ext.channel ()) w = (.ok (tx, rx), w1))
    (h2 : runM (ext.notify_recommended_watcher tx) w1 = (.ok wt, w2))
    (h3 : runM (ext.watcher_watch wt self.source ()) w2 = (.ok (), w3))
    (h4 : runM (ext.engine_sync self.engine self.source self.destination) w3 = (.ok r, w4))
    (h5 : runM (ext.Instant_now ()) w4 = (.ok t, w5))
    (h6 : runM (ext.signal_ctrl_c ()) w5 = (.ok cc, w6)) :
    runM (WatchMode.watch ext self) w =
      runM (loopN ext.fuel (body ext self rx) ([], t) >>= fun _ => pure ()) w6 := by
  rw [watch_run_prefix ext self h1 h2 h3, runM_bind_ok h4]
  unfold afterInit
  rw [runM_bind_ok h5, runM_bind_ok h6]

/-- **A failing sync INSIDE the loop does not end the loop** — for any instance: the iteration continues
    (`yield`), with `pending_changes` cleared and `last_sync` reset to the clock read after the failure.  An event
    received before that sync started is thereby forgotten although it was never propagated; what saves C20 is that
    the failure is caused by a change whose own event is still in the channel (`C20.failed_sync_recovers`). -/
theorem loop_sync_failure_is_swallowed (loc : Locals) {e : Rs.Err} {t : Nat}
    (hs : runM (ext.engine_sync self.engine self.source self.destination) w = (.error e, w1))
    (hn : runM (ext.Instant_now ()) w1 = (.ok t, w2)) :
    runM (syncPart ext self loc) w = (.ok (.yield ([], t)), w2) :=
  syncPart_any ext self loc hs hn

end AnyInstance

/-! ## 3. one iteration of the translated loop on `inst` is the model's move(s) -/

/-- the world after the environment's next `pre` chunk (what `tokio_select` lets happen first) -/
def afterPre (w : WWorld) : WWorld := wrun { w with pre := w.pre.tail } (w.pre.headD [])
/-- that chunk as model inputs -/
def preIn (w : WWorld) : List Input := (w.pre.headD []).map absIn
/-- the environment's next `during` entry as model inputs -/
def durIn (w : WWorld) : List Input × Bool :=
  ((w.during.headD ([], true)).1.map absIn, (w.during.headD ([], true)).2)

theorem afterPre_fields (w : WWorld) : (afterPre w).handler = w.handler ∧ (afterPre w).disc = w.disc ∧
    (afterPre w).pre = w.pre.tail ∧ (afterPre w).during = w.during ∧ (afterPre w).log = w.log ∧
    (afterPre w).armed = w.armed :=
  wrun_fields _ _

theorem abs_afterPre (c : Cfg) (loc : Locals) (w : WWorld) (hh : w.handler = true) :
    absAt .loop loc (afterPre w) = run c (absAt .loop loc w) (preIn w) :=
  absAt_wrun c .loop loc (by decide) _ { w with pre := w.pre.tail } (Or.inl hh)

theorem run_pre_step (c : Cfg) (loc : Locals) (w : WWorld) (hh : w.handler = true) :
    run c (absAt .loop loc w) (preIn w ++ [.step]) = (step c (absAt .loop loc (afterPre w))).1 := by
  rw [run_append, ← abs_afterPre c loc w hh]; rfl

theorem recvW_timeout (d : Rs.Duration) (w : WWorld) (hq : w.queue = []) (hd : w.disc = false) :
    recvW d w = (.ok (.error .Timeout), { w with now := w.now + d }) := by
  unfold recvW
  split
  · rename_i it q h; rw [hq] at h; cases h
  · simp only [hd, Bool.false_eq_true, if_false]

theorem recvW_disconnected (d : Rs.Duration) (w : WWorld) (hq : w.queue = []) (hd : w.disc = true) :
    recvW d w = (.ok (.error .Disconnected), w) := by
  unfold recvW
  split
  · rename_i it q h; rw [hq] at h; cases h
  · simp only [hd, if_true]

theorem syncW_ok (c : Cfg) (w : WWorld) (h : (w.during.headD ([], true)).2 = true) :
    syncW c w = (.ok ⟨⟩, { wrun (syncStarted w) (w.during.headD ([], true)).1 with
      dst := syncTo c (wrun (syncStarted w) (w.during.headD ([], true)).1).snap
                      (wrun (syncStarted w) (w.during.headD ([], true)).1).dst }) := by
  simp only [syncW, h, if_true]

theorem syncW_err (c : Cfg) (w : WWorld) (h : (w.during.headD ([], true)).2 = false) :
    syncW c w = (.error .io, { wrun (syncStarted w) (w.during.headD ([], true)).1 with ok := false }) := by
  simp only [syncW, h, Bool.false_eq_true, if_false]

section Iter
variable (c : Cfg) (fuel : Nat) (self : WatchMode) (rx : Rs.Opaque) (loc : Locals) (w : WWorld)

theorem selW_sig (hs : (afterPre w).sig = true) : selW c w = (.ok 0, afterPre w) := by
  have : selW c w = (if (afterPre w).sig then (.ok 0, afterPre w)
      else (.ok 1, { afterPre w with now := (afterPre w).now + c.selectSleep })) := rfl
  rw [this, hs]; rfl
theorem selW_sleep (hs : (afterPre w).sig = false) :
    selW c w = (.ok 1, { afterPre w with now := (afterPre w).now + c.selectSleep }) := by
  have : selW c w = (if (afterPre w).sig then (.ok 0, afterPre w)
      else (.ok 1, { afterPre w with now := (afterPre w).now + c.selectSleep })) := rfl
  rw [this, hs]; rfl

/-- **select outcome 0 (SIGINT pending).**  The iteration `break`s without touching the channel; this is the model's
    `exitSigint` move after the environment's chunk. -/
theorem iter_sigint (hh : w.handler = true) (hs : (afterPre w).sig = true) :
    runM (body (inst c fuel) self rx loc) w = (.ok (.done loc), afterPre w) ∧
    absR (.done loc) (afterPre w) = run c (absAt .loop loc w) (preIn w ++ [.step]) := by
  refine ⟨body_sigint _ self rx loc (by show selW c w = _; exact selW_sig c w hs), ?_⟩
  rw [run_pre_step c loc w hh, step_abs_sig c loc _ hs]; rfl

/-- **select outcome 1, `Ok(Ok(event))`.**  The oldest item is popped; the event is appended to `pending_changes`
    iff its kind is kept: the model's `eventKept` / `eventDropped` move. -/
theorem iter_event {ev : Event} {q} (hh : w.handler = true) (hs : (afterPre w).sig = false)
    (hq : (afterPre w).queue = .ok ev :: q) :
    let w' : WWorld := { afterPre w with now := (afterPre w).now + c.selectSleep, queue := q }
    let loc' : Locals := (if WatchMode.should_sync_event self ev then loc.1 ++ [ev] else loc.1, loc.2)
    runM (body (inst c fuel) self rx loc) w = (.ok (.yield loc'), w') ∧
    absR (.yield loc') w' = run c (absAt .loop loc w) (preIn w ++ [.step]) := by
  refine ⟨?_, ?_⟩
  · rw [body_sleep (k := 0) _ self rx loc (by show selW c w = _; exact selW_sleep c w hs)]
    exact recvPart_event _ self rx loc (by show recvW _ _ = _; simp only [recvW, hq])
  · rw [run_pre_step c loc w hh, step_abs_event c self loc _ hs hq]; rfl

/-- **`Ok(Err(e))`.**  The item is popped and ignored; the loop goes on: the model's `eventDropped error` move. -/
theorem iter_watch_error {e : Rs.Err} {q} (hh : w.handler = true) (hs : (afterPre w).sig = false)
    (hq : (afterPre w).queue = .error e :: q) :
    let w' : WWorld := { afterPre w with now := (afterPre w).now + c.selectSleep, queue := q }
    runM (body (inst c fuel) self rx loc) w = (.ok (.yield loc), w') ∧
    absR (.yield loc) w' = run c (absAt .loop loc w) (preIn w ++ [.step]) := by
  refine ⟨?_, ?_⟩
  · rw [body_sleep (k := 0) _ self rx loc (by show selW c w = _; exact selW_sleep c w hs)]
    exact recvPart_watch_error (e := e) _ self rx loc (by show recvW _ _ = _; simp only [recvW, hq])
  · rw [run_pre_step c loc w hh, step_abs_watch_error c loc _ hs hq]; rfl

/-- the world when `recv_timeout` answered `Timeout` -/
def timedOut (w : WWorld) : WWorld :=
  { afterPre w with now := (afterPre w).now + c.selectSleep + Rs.duration_from_millis 100 }

theorem recv_timeout_run (hs : (afterPre w).sig = false) (hq : (afterPre w).queue = [])
    (hd : w.disc = false) :
    runM (body (inst c fuel) self rx loc) w = runM (recvPart (inst c fuel) self rx loc)
        { afterPre w with now := (afterPre w).now + c.selectSleep } ∧
    runM ((inst c fuel).recv_timeout rx (Rs.duration_from_millis 100))
        { afterPre w with now := (afterPre w).now + c.selectSleep } = (.ok (.error .Timeout), timedOut c w) := by
  refine ⟨body_sleep (k := 0) _ self rx loc (by show selW c w = _; exact selW_sleep c w hs), ?_⟩
  show recvW _ _ = _
  have hd' : (afterPre w).disc = false := by rw [(afterPre_fields w).2.1]; exact hd
  exact (recvW_timeout _ { afterPre w with now := (afterPre w).now + c.selectSleep } hq hd').trans rfl

/-- **`Err(Timeout)`, no sync** (nothing pending, or the debounce has not elapsed): the model's `timeoutIdle`. -/
theorem iter_timeout_idle (ht : Tied c self) (hh : w.handler = true) (hd : w.disc = false)
    (hs : (afterPre w).sig = false) (hq : (afterPre w).queue = [])
    (h : loc.1 = [] ∨ (timedOut c w).now - loc.2 < self.debounce) :
    runM (body (inst c fuel) self rx loc) w = (.ok (.yield loc), timedOut c w) ∧
    absR (.yield loc) (timedOut c w) = run c (absAt .loop loc w) (preIn w ++ [.step]) := by
  obtain ⟨hb, hr⟩ := recv_timeout_run c fuel self rx loc w hs hq hd
  refine ⟨?_, ?_⟩
  · rw [hb]
    by_cases hp : loc.1 = []
    · exact recvPart_timeout_empty _ self rx loc hp hr
    · exact recvPart_timeout_early (d := (timedOut c w).now - loc.2) _ self rx loc hp hr rfl
        (by rcases h with h | h; exact absurd h hp; exact h)
  · rw [run_pre_step c loc w hh, step_abs_idle c loc _ hs hq (by
      rcases h with h | h
      · exact Or.inl h
      · right; rw [ht.hdeb, ht.hrecv]; exact h)]
    simp only [absR, timedOut, ht.hrecv]

/-- what the model does for a sync of the loop: the `during` chunk, then the move that completes (or fails) it -/
theorem abs_syncW (w3 : WWorld) (hh : w3.handler = true) :
    absAt .loop ([], (syncW c w3).2.now) (syncW c w3).2 =
      run c (absAt .sync loc { w3 with snap := w3.src, syncs := w3.syncs + 1, ok := true })
        ((durIn w3).1 ++ [if (durIn w3).2 then .step else .fail]) := by
  rw [run_append]
  have hrun := absAt_wrun c .sync loc (by decide) (w3.during.headD ([], true)).1 (syncStarted w3) (Or.inl hh)
  have hsame : absAt .sync loc (syncStarted w3) =
      absAt .sync loc { w3 with snap := w3.src, syncs := w3.syncs + 1, ok := true } := rfl
  rw [hsame] at hrun
  simp only [durIn]
  rw [← hrun]
  by_cases hd2 : (w3.during.headD ([], true)).2 = true
  case neg =>
    have hd3 := Bool.eq_false_iff.mpr hd2
    rw [syncW_err c w3 hd3]
    simp only [hd3, Bool.false_eq_true, if_false]
    show _ = (failMove c _).1
    rw [fail_abs_sync]
  case pos =>
    rw [syncW_ok c w3 hd2]
    simp only [hd2, if_true]
    show _ = (step c _).1
    rw [step_abs_sync_end]

/-- **`Err(Timeout)`, sync due** (something pending and `last_sync.elapsed() >= debounce`): the model's `timeoutSync`
    move, then whatever the environment does while the sync runs, then the model's `syncEnd` (the sync returned
    `Ok`) or `syncFailed` (`Err`) move.  In both cases the loop goes on with `pending_changes = []` and
    `last_sync` = the clock after the sync. -/
theorem iter_timeout_sync (ht : Tied c self) (hh : w.handler = true) (hd : w.disc = false)
    (hs : (afterPre w).sig = false) (hq : (afterPre w).queue = []) (hp : loc.1 ≠ [])
    (hdue : self.debounce ≤ (timedOut c w).now - loc.2) :
    let w' := (syncW c (timedOut c w)).2
    runM (body (inst c fuel) self rx loc) w = (.ok (.yield ([], w'.now)), w') ∧
    absR (.yield ([], w'.now)) w' = run c (absAt .loop loc w)
      (preIn w ++ [.step] ++ (durIn w).1 ++ [if (durIn w).2 then .step else .fail]) ∧
    (run c (absAt .loop loc w) (preIn w ++ [.step])).phase = .sync := by
  obtain ⟨hb, hr⟩ := recv_timeout_run c fuel self rx loc w hs hq hd
  have hstep := step_abs_sync c loc (afterPre w) hs hq hp (by rw [ht.hdeb, ht.hrecv]; exact hdue)
  refine ⟨?_, ?_, ?_⟩
  · rw [hb, recvPart_timeout_due (d := (timedOut c w).now - loc.2) _ self rx loc hp hr rfl hdue]
    refine syncPart_any (r := (syncW c (timedOut c w)).1) _ self loc ?_ rfl
    rfl
  · have hh3 : (timedOut c w).handler = true := by
      show (afterPre w).handler = true
      rw [(afterPre_fields w).1]; exact hh
    have hdur : durIn (timedOut c w) = durIn w := by
      simp only [durIn, timedOut, (afterPre_fields w).2.2.2.1]
    rw [List.append_assoc, run_append, run_pre_step c loc w hh, hstep, ht.hrecv]
    have := abs_syncW c loc (timedOut c w) hh3
    rw [hdur] at this
    exact this
  · rw [run_pre_step c loc w hh, hstep]; rfl

/-- **`Err(Disconnected)`** (unreachable in the real program, see `WWorld.disc`): the loop `break`s, no sync,
    nothing cleared. -/
theorem iter_disconnected (hs : (afterPre w).sig = false) (hq : (afterPre w).queue = []) (hd : w.disc = true) :
    runM (body (inst c fuel) self rx loc) w =
      (.ok (.done loc), { afterPre w with now := (afterPre w).now + c.selectSleep }) := by
  rw [body_sleep (k := 0) _ self rx loc (by show selW c w = _; exact selW_sleep c w hs)]
  refine recvPart_disconnected _ self rx loc ?_
  show recvW _ _ = _
  have hd' : (afterPre w).disc = true := by rw [(afterPre_fields w).2.1]; exact hd
  exact recvW_disconnected _ { afterPre w with now := (afterPre w).now + c.selectSleep } hq hd'

end Iter

theorem syncW_fields (c : Cfg) (w : WWorld) : (syncW c w).2.handler = w.handler ∧ (syncW c w).2.disc = w.disc ∧
    (syncW c w).2.pre = w.pre ∧ (syncW c w).2.during = w.during.tail ∧ (syncW c w).2.armed = w.armed ∧
    (syncW c w).2.log = w.log ++ [⟨w.now, w.armed, w.queue.length, (w.during.headD ([], true)).2⟩] := by
  obtain ⟨h1, h2, h3, h4, h5, h6⟩ := wrun_fields (w.during.headD ([], true)).1 (syncStarted w)
  by_cases hd2 : (w.during.headD ([], true)).2 = true
  · rw [syncW_ok c w hd2]; exact ⟨h1, h2, h3, h4, h6, h5⟩
  · rw [syncW_err c w (Bool.eq_false_iff.mpr hd2)]; exact ⟨h1, h2, h3, h4, h6, h5⟩

theorem absPre_head (w : WWorld) : (absPre w).headD [] = preIn w := by
  cases h : w.pre <;> simp [absPre, preIn, h]
theorem absDur_head (w : WWorld) : (absDur w).headD ([], true) = durIn w := by
  cases h : w.during <;> simp [absDur, durIn, h]

theorem iterIn_of_not_sync (c : Cfg) (s : State) (p : List Input) (d : List Input × Bool)
    (h : (run c s (p ++ [.step])).phase ≠ .sync) : iterIn c s p d = p ++ [.step] := by
  unfold iterIn; rw [if_neg h]
theorem iterIn_of_sync (c : Cfg) (s : State) (p : List Input) (d : List Input × Bool)
    (h : (run c s (p ++ [.step])).phase = .sync) :
    iterIn c s p d = p ++ [.step] ++ d.1 ++ [if d.2 then .step else .fail] := by
  unfold iterIn; rw [if_pos h]

section Sim
variable (c : Cfg) (fuel : Nat) (self : WatchMode) (rx : Rs.Opaque)

/-- **Loop-iteration bridge, uniform statement.**  From any world with tokio's handler installed and a live channel,
    ONE iteration of the translated loop body on `inst` succeeds, and the abstraction of what it returns and leaves is
    the model's `run` over `iterIn`: the environment's `pre` chunk, one `step` of the loop thread, and — exactly when
    that step started a sync — the `during` chunk and the completing `step` / `fail`.  It `break`s exactly when the
    model's step went to `done`; it consumes one `pre` chunk, and one `during` entry exactly when a sync ran. -/
theorem iter_sim (ht : Tied c self) (loc : Locals) (w : WWorld) (hh : w.handler = true) (hd : w.disc = false) :
    ∃ r w', runM (body (inst c fuel) self rx loc) w = (.ok r, w') ∧ w'.handler = true ∧ w'.disc = false ∧
      absR r w' = run c (absAt .loop loc w) (iterIn c (absAt .loop loc w) (preIn w) (durIn w)) ∧
      w'.pre = w.pre.tail ∧
      w'.during = (if (run c (absAt .loop loc w) (preIn w ++ [.step])).phase = .sync then w.during.tail
                   else w.during) ∧
      ((∃ l, r = .done l) ↔ (run c (absAt .loop loc w) (preIn w ++ [.step])).phase = .done) := by
  obtain ⟨f1, f2, f3, f4, _, _⟩ := afterPre_fields w
  by_cases hs : (afterPre w).sig = true
  · obtain ⟨h1, h2⟩ := iter_sigint c fuel self rx loc w hh hs
    have hph : (run c (absAt .loop loc w) (preIn w ++ [.step])).phase = .done := by rw [← h2]; rfl
    refine ⟨_, _, h1, by rw [f1]; exact hh, by rw [f2]; exact hd, ?_, f3, ?_, ?_⟩
    · rw [iterIn_of_not_sync _ _ _ _ (by rw [hph]; decide)]; exact h2
    · rw [if_neg (by rw [hph]; decide)]; exact f4
    · exact ⟨fun _ => hph, fun _ => ⟨loc, rfl⟩⟩
  · have hs : (afterPre w).sig = false := Bool.eq_false_iff.mpr hs
    -- every remaining case yields, and (except the sync) is one model step that stays in the loop
    have fin : ∀ (l : Locals) (w' : WWorld), runM (body (inst c fuel) self rx loc) w = (.ok (.yield l), w') →
        absR (.yield l) w' = run c (absAt .loop loc w) (preIn w ++ [.step]) →
        w'.handler = true → w'.disc = false → w'.pre = w.pre.tail → w'.during = w.during →
        ∃ r w', runM (body (inst c fuel) self rx loc) w = (.ok r, w') ∧ w'.handler = true ∧ w'.disc = false ∧
          absR r w' = run c (absAt .loop loc w) (iterIn c (absAt .loop loc w) (preIn w) (durIn w)) ∧
          w'.pre = w.pre.tail ∧
          w'.during = (if (run c (absAt .loop loc w) (preIn w ++ [.step])).phase = .sync then w.during.tail
                       else w.during) ∧
          ((∃ l, r = .done l) ↔ (run c (absAt .loop loc w) (preIn w ++ [.step])).phase = .done) := by
      intro l w' h1 h2 g1 g2 g3 g4
      have hph : (run c (absAt .loop loc w) (preIn w ++ [.step])).phase = .loop := by rw [← h2]; rfl
      refine ⟨_, _, h1, g1, g2, ?_, g3, ?_, ?_⟩
      · rw [iterIn_of_not_sync _ _ _ _ (by rw [hph]; decide)]; exact h2
      · rw [if_neg (by rw [hph]; decide)]; exact g4
      · exact ⟨fun ⟨l, hl⟩ => (by cases hl), fun h => (by rw [hph] at h; cases h)⟩
    cases hq : (afterPre w).queue with
    | cons it q =>
      cases it with
      | ok ev =>
        obtain ⟨h1, h2⟩ := iter_event c fuel self rx loc w hh hs hq
        exact fin _ _ h1 h2 (by show (afterPre w).handler = true; rw [f1]; exact hh)
          (by show (afterPre w).disc = false; rw [f2]; exact hd) f3 f4
      | error e =>
        obtain ⟨h1, h2⟩ := iter_watch_error c fuel self rx loc w hh hs hq
        exact fin _ _ h1 h2 (by show (afterPre w).handler = true; rw [f1]; exact hh)
          (by show (afterPre w).disc = false; rw [f2]; exact hd) f3 f4
    | nil =>
      by_cases hidle : loc.1 = [] ∨ (timedOut c w).now - loc.2 < self.debounce
      · obtain ⟨h1, h2⟩ := iter_timeout_idle c fuel self rx loc w ht hh hd hs hq hidle
        exact fin _ _ h1 h2 (by show (afterPre w).handler = true; rw [f1]; exact hh)
          (by show (afterPre w).disc = false; rw [f2]; exact hd) f3 f4
      · have hp : loc.1 ≠ [] := fun h => hidle (Or.inl h)
        have hdue : self.debounce ≤ (timedOut c w).now - loc.2 := by
          have : ¬ (timedOut c w).now - loc.2 < self.debounce := fun h => hidle (Or.inr h)
          exact Nat.le_of_not_lt this
        obtain ⟨h1, h2, h3⟩ := iter_timeout_sync c fuel self rx loc w ht hh hd hs hq hp hdue
        obtain ⟨k1, k2, k3, k4, _, _⟩ := syncW_fields c (timedOut c w)
        refine ⟨_, _, h1, ?_, ?_, ?_, ?_, ?_, ?_⟩
        · rw [k1]; show (afterPre w).handler = true; rw [f1]; exact hh
        · rw [k2]; show (afterPre w).disc = false; rw [f2]; exact hd
        · rw [iterIn_of_sync _ _ _ _ h3]; exact h2
        · rw [k3]; exact f3
        · rw [if_pos h3, k4]; show (afterPre w).during.tail = _; rw [f4]
        · exact ⟨fun ⟨l, hl⟩ => (by cases hl), fun h => (by rw [h3] at h; cases h)⟩

/-- **The translated loop, for EVERY fuel `n`.**  Running `n` iterations of the translated body on `inst` succeeds,
    and the model's `run` over the schedule `sched` (the environment's scripts interleaved with the loop thread's
    moves, computed by the MODEL) ends in the abstraction of the locals and the world the translated loop ended
    with — at the top of the loop if the fuel ran out, after `exitSigint` if it broke. -/
theorem loop_sim (ht : Tied c self) : ∀ (n : Nat) (loc : Locals) (w : WWorld), w.handler = true → w.disc = false →
    ∃ l' w', runM (loopN n (body (inst c fuel) self rx) loc) w = (.ok l', w') ∧ w'.handler = true ∧
      (run c (absAt .loop loc w) (sched c n (absAt .loop loc w) (absPre w) (absDur w)) = absAt .loop l' w' ∨
       run c (absAt .loop loc w) (sched c n (absAt .loop loc w) (absPre w) (absDur w)) =
         exited (absAt .loop l' w')) := by
  intro n
  induction n with
  | zero => intro loc w hh _; exact ⟨loc, w, rfl, hh, Or.inl rfl⟩
  | succ n ih =>
    intro loc w hh hd
    obtain ⟨r, w', hrun, hh', hd', habs, hpre, hdur, hdone⟩ := iter_sim c fuel self rx ht loc w hh hd
    simp only [sched, absPre_head, absDur_head]
    cases r with
    | done l =>
      have hph := hdone.mp ⟨l, rfl⟩
      rw [if_pos hph]
      refine ⟨l, w', runM_loopN_done n hrun, hh', Or.inr ?_⟩
      rw [iterIn_of_not_sync _ _ _ _ (by rw [hph]; decide)] at habs
      exact habs.symm
    | yield l =>
      have hph : (run c (absAt .loop loc w) (preIn w ++ [.step])).phase ≠ .done := by
        intro h; obtain ⟨l', hl'⟩ := hdone.mpr h; cases hl'
      rw [if_neg hph, runM_loopN_yield n hrun]
      have hp' : absPre w' = (absPre w).tail := by simp [absPre, hpre]
      obtain ⟨l', w'', k1, k2, k3⟩ := ih l w' hh' hd'
      refine ⟨l', w'', k1, k2, ?_⟩
      have habs' : run c (absAt .loop loc w) (iterIn c (absAt .loop loc w) (preIn w) (durIn w)) =
          absAt .loop l w' := habs.symm
      by_cases hsy : (run c (absAt .loop loc w) (preIn w ++ [.step])).phase = .sync
      · rw [if_pos hsy] at hdur ⊢
        have hd'' : absDur w' = (absDur w).tail := by simp [absDur, hdur]
        rw [run_append, habs', ← hp', ← hd'']
        exact k3
      · rw [if_neg hsy] at hdur ⊢
        have hd'' : absDur w' = absDur w := by simp [absDur, hdur]
        rw [run_append, habs', ← hp', ← hd'']
        exact k3

end Sim

/-! ## 4. the start of `watch` on `inst`, and the whole function -/

/-- the world `watch` starts in: nothing armed, nothing queued, clock 0 — the model's `init v0 d0` -/
def wInit (v0 d0 : Ver) (pre : List (List EnvIn)) (during : List (List EnvIn × Bool)) : WWorld :=
  { queue := [], armed := false, now := 0, src := v0, dst := d0, snap := d0, handler := false, sig := false,
    disc := false, syncs := 0, ok := true, log := [], pre := pre, during := during }

theorem abs_wInit (v0 d0 : Ver) (pre during) : absAt .boot ([], 0) (wInit v0 d0 pre during) = init v0 d0 := rfl

/-- the items the environment sends in a chunk -/
def itemsOf : List EnvIn → List (Except Rs.Err Event)
  | [] => []
  | .event it _ :: t => it :: itemsOf t
  | _ :: t => itemsOf t

theorem wrun_queue_armed (es : List EnvIn) : ∀ w : WWorld, w.armed = true →
    (wrun w es).queue = w.queue ++ itemsOf es := by
  induction es with
  | nil => intro w _; simp [wrun, itemsOf]
  | cons e t ih =>
    intro w ha
    show (wrun (wapply w e) t).queue = _
    rw [ih _ (by rw [wapply_armed]; exact ha)]
    cases e with
    | event it ed => cases ed <;> simp [wapply, ha, itemsOf]
    | tick δ => simp [wapply, itemsOf]
    | sigint => simp [wapply, itemsOf]

/-- the world after `watcher.watch(..)` -/
def armW (w : WWorld) : WWorld := { w with armed := true }

section Boot
variable (c : Cfg) (fuel : Nat) (self : WatchMode)

/-- the world in which the loop is entered, when the initial sync succeeded -/
def atLoop (w : WWorld) : WWorld := { (syncW c (armW w)).2 with handler := true }

/-- **The start of `watch` on `inst`** (initial sync succeeds, no SIGINT before the handler exists): the translated
    prefix is the model's four moves `armed`, `initialSyncStart`, `initialSyncEnd`, `loopStart` of the REPAIRED order
    (`armFirst = true`) around the environment's chunk; the loop is entered with `([], now)`. -/
theorem boot_sim (hfix : c.armFirst = true) (w : WWorld) (ha : w.armed = false)
    (hns : ∀ e ∈ (w.during.headD ([], true)).1, e ≠ .sigint) (hok : (w.during.headD ([], true)).2 = true) :
    runM (WatchMode.watch (inst c fuel) self) w =
      runM (loopN fuel (body (inst c fuel) self ⟨⟩) ([], (atLoop c w).now) >>= fun _ => pure ()) (atLoop c w) ∧
    absAt .loop ([], (atLoop c w).now) (atLoop c w) =
      run c (absAt .boot ([], 0) w) ([.step, .step] ++ (durIn w).1 ++ [.step, .step]) := by
  refine ⟨?_, ?_⟩
  · have hsy : runM ((inst c fuel).engine_sync self.engine self.source self.destination) (armW w) =
        (.ok ⟨⟩, (syncW c (armW w)).2) := by
      show syncW c _ = _
      rw [syncW_ok c (armW w) hok]
    exact watch_run_after_init (inst c fuel) self (w := w) (w1 := w) (w2 := w) (tx := ⟨⟩) (rx := ⟨⟩) (wt := ⟨⟩)
      rfl rfl rfl hsy rfl rfl
  · have e1 : (step c (absAt .boot ([], 0) w)).1 = absAt .boot ([], 0) (armW w) := by
      simp [step, absAt, hfix, ha, armW]
    have e2 : (step c (absAt .boot ([], 0) (armW w))).1 =
        absAt .initSync ([], 0) (syncStarted (armW w)) := by
      simp [step, absAt, syncStarted, armW]
    have e3 := absAt_wrun c .initSync ([], 0) (by decide) (w.during.headD ([], true)).1
      (syncStarted (armW w)) (Or.inr hns)
    obtain ⟨_, _, _, _, _, harm⟩ := wrun_fields (w.during.headD ([], true)).1 (syncStarted (armW w))
    have harm' : (wrun (syncStarted (armW w)) (w.during.headD ([], true)).1).armed = true := harm
    rw [run_append, run_append]
    show _ = (step c (step c (run c (step c (step c _).1).1 _)).1).1
    rw [e1, e2]
    simp only [durIn]
    rw [← e3]
    unfold atLoop
    have hdur : (armW w).during = w.during := rfl
    rw [syncW_ok c (armW w) hok, hdur]
    generalize wrun (syncStarted (armW w)) (w.during.headD ([], true)).1 = w5 at harm' ⊢
    simp [step, absAt, harm']

/-- **A failing initial sync on `inst`**: `watch` returns the error (the model's `initialSyncFailed`: exit status 1);
    the loop is never entered, tokio's handler never installed. -/
theorem boot_fail (w : WWorld) (hok : (w.during.headD ([], true)).2 = false) :
    runM (WatchMode.watch (inst c fuel) self) w = (.error .io, (syncW c (armW w)).2) ∧
    (syncW c (armW w)).2.handler = w.handler := by
  refine ⟨?_, (syncW_fields c _).1⟩
  have hsy : runM ((inst c fuel).engine_sync self.engine self.source self.destination) (armW w) =
      (.error .io, (syncW c (armW w)).2) := by
    show syncW c _ = _
    rw [syncW_err c (armW w) hok]
  exact watch_initial_sync_failure (inst c fuel) self (w := w) (w1 := w) (w2 := w) (tx := ⟨⟩) (rx := ⟨⟩) (wt := ⟨⟩)
    rfl rfl rfl hsy

/-- **Events during the initial sync are queued** (the point of arming first, fix fbc3639): on `inst`, every item
    the environment sends while the initial sync runs is in the channel, in order, when the loop is entered. -/
theorem gen_event_during_initial_sync_is_queued (w : WWorld) :
    (atLoop c w).queue = w.queue ++ itemsOf (w.during.headD ([], true)).1 := by
  unfold atLoop
  by_cases hok : (w.during.headD ([], true)).2 = true
  · rw [syncW_ok c (armW w) hok]
    exact wrun_queue_armed _ (syncStarted (armW w)) rfl
  · rw [syncW_err c (armW w) (Bool.eq_false_iff.mpr hok)]
    exact wrun_queue_armed _ (syncStarted (armW w)) rfl

/-- the initial sync is logged as started with the watcher ARMED -/
theorem gen_initial_sync_logged_armed (w : WWorld) :
    (atLoop c w).log = w.log ++ [⟨w.now, true, w.queue.length, (w.during.headD ([], true)).2⟩] :=
  (syncW_fields c (armW w)).2.2.2.2.2

/-- **The whole translated `watch` on `inst`, for every fuel, every environment script, every `WatchMode`.**
    From the model's initial state, `watch` returns `Ok(())`, and the model's `run` over: the four boot moves around
    the initial sync's chunk, then the schedule of `fuel` iterations, ends in the abstraction of the world `watch`
    left — at the top of the loop (fuel exhausted) or after `exitSigint`. -/
theorem watch_sim (ht : Tied c self) (hfix : c.armFirst = true) (v0 d0 : Ver) (pre : List (List EnvIn))
    (during : List (List EnvIn × Bool))
    (hns : ∀ e ∈ (during.headD ([], true)).1, e ≠ .sigint) (hok : (during.headD ([], true)).2 = true) :
    let w := wInit v0 d0 pre during
    let sL := absAt .loop ([], (atLoop c w).now) (atLoop c w)
    let is := [.step, .step] ++ (durIn w).1 ++ [.step, .step] ++ sched c fuel sL (absPre (atLoop c w)) (absDur (atLoop c w))
    ∃ l' w', runM (WatchMode.watch (inst c fuel) self) w = (.ok (), w') ∧
      (run c (init v0 d0) is = absAt .loop l' w' ∨ run c (init v0 d0) is = exited (absAt .loop l' w')) := by
  intro w sL is
  obtain ⟨h1, h2⟩ := boot_sim c fuel self hfix w rfl hns hok
  have hdisc : (atLoop c w).disc = false := (syncW_fields c (armW w)).2.1
  obtain ⟨l', w', k1, _, k3⟩ := loop_sim c fuel self ⟨⟩ ht fuel ([], (atLoop c w).now) (atLoop c w) rfl hdisc
  refine ⟨l', w', ?_, ?_⟩
  · rw [h1, runM_bind_ok k1]; rfl
  · show run c (absAt .boot ([], 0) w) _ = _ ∨ run c (absAt .boot ([], 0) w) _ = _
    rw [run_append, ← h2]
    exact k3

end Boot

/-! ## 5. corollaries about the translated loop -/

section Corollaries
variable (c : Cfg) (fuel : Nat) (self : WatchMode) (rx : Rs.Opaque)

/-- **A dropped kind never triggers a sync** — for ANY instance: receiving an event whose kind the model drops
    leaves `pending_changes` as it was and performs no operation after `recv_timeout` (the world is the one
    `recv_timeout` left: in particular `engine_sync` is not called); and a `Timeout` with nothing pending does not
    sync either.  So only kept kinds can make `pending_changes` non-empty, and only a non-empty one syncs. -/
theorem gen_dropped_kind_never_syncs {W : Type} (ext : Ext W) (loc : Locals) {w w1 : W} {ev : Event}
    (hk : (absKind ev.kind).kept = false)
    (h : runM (ext.recv_timeout rx (Rs.duration_from_millis 100)) w = (.ok (.ok (.ok ev)), w1)) :
    runM (recvPart ext self rx loc) w = (.ok (.yield loc), w1) ∧
    (loc.1 = [] → ∀ w2 w3, runM (ext.recv_timeout rx (Rs.duration_from_millis 100)) w2 = (.ok (.error .Timeout), w3) →
      runM (recvPart ext self rx loc) w2 = (.ok (.yield loc), w3)) := by
  refine ⟨?_, fun hp w2 w3 h2 => recvPart_timeout_empty ext self rx loc hp h2⟩
  rw [recvPart_event ext self rx loc h, should_sync_event_eq_model, hk]; rfl

/-- **`pending_changes` is cleared only by a sync that STARTED after the events were received.**  On `inst`: if an
    iteration that began with something pending ends with nothing pending, then exactly one sync was logged in that
    iteration, it started at the clock of the `Timeout` (after everything in `pending_changes` had been received, in
    earlier iterations), with an EMPTY channel, so its snapshot is at least as new as every received event; events
    arriving later stay in the channel (`absR` of `iter_timeout_sync`). -/
theorem gen_pending_cleared_only_by_sync (ht : Tied c self) (loc l' : Locals) (w w' : WWorld)
    (hh : w.handler = true) (hd : w.disc = false) (hp : loc.1 ≠ [])
    (hrun : runM (body (inst c fuel) self rx loc) w = (.ok (.yield l'), w')) (hclr : l'.1 = []) :
    ∃ ok, w'.log = w.log ++ [⟨(timedOut c w).now, w.armed, 0, ok⟩] ∧
      self.debounce ≤ (timedOut c w).now - loc.2 ∧ l'.2 = w'.now ∧ (afterPre w).queue = [] := by
  obtain ⟨_, _, _, _, f5, f6⟩ := afterPre_fields w
  have key : ∀ {a b : Except Rs.Err (ForInStep Locals) × WWorld}, a = b → a.1 = b.1 ∧ a.2 = b.2 :=
    fun h => by rw [h]; exact ⟨rfl, rfl⟩
  by_cases hs : (afterPre w).sig = true
  · have := (iter_sigint c fuel self rx loc w hh hs).1
    rw [hrun] at this; cases this
  · have hs : (afterPre w).sig = false := Bool.eq_false_iff.mpr hs
    cases hq : (afterPre w).queue with
    | cons it q =>
      cases it with
      | ok ev =>
        have := (iter_event c fuel self rx loc w hh hs hq).1
        rw [hrun] at this
        injection this with h1 h2
        injection h1 with h1; injection h1 with h1
        rw [h1] at hclr
        split at hclr
        · simp at hclr
        · exact absurd hclr hp
      | error e =>
        have := (iter_watch_error c fuel self rx loc w hh hs hq).1
        rw [hrun] at this
        injection this with h1 h2
        injection h1 with h1; injection h1 with h1
        rw [h1] at hclr
        exact absurd hclr hp
    | nil =>
      by_cases hidle : loc.1 = [] ∨ (timedOut c w).now - loc.2 < self.debounce
      · have := (iter_timeout_idle c fuel self rx loc w ht hh hd hs hq hidle).1
        rw [hrun] at this
        injection this with h1 h2
        injection h1 with h1; injection h1 with h1
        rw [h1] at hclr
        exact absurd hclr hp
      · have hdue : self.debounce ≤ (timedOut c w).now - loc.2 :=
          Nat.le_of_not_lt (fun h => hidle (Or.inr h))
        have := (iter_timeout_sync c fuel self rx loc w ht hh hd hs hq hp hdue).1
        rw [hrun] at this
        injection this with h1 h2
        injection h1 with h1; injection h1 with h1
        have hlog := (syncW_fields c (timedOut c w)).2.2.2.2.2
        refine ⟨((timedOut c w).during.headD ([], true)).2, ?_, hdue, ?_, rfl⟩
        · rw [h2, hlog]
          show (afterPre w).log ++ [⟨(timedOut c w).now, (afterPre w).armed, (afterPre w).queue.length, _⟩] = _
          rw [f5, f6, hq]; rfl
        · rw [h1, h2]

end Corollaries

/-! ## non-vacuity: every hypothesis is satisfiable, on worlds where something happens -/

/-- `sy --watch` as main.rs builds it: debounce 500 ms -/
def wmEx : WatchMode := { engine := ⟨⟩, source := ['s'], destination := ['d'], debounce := Rs.duration_from_millis 500 }
/-- the model configuration tied to it: sy's constants in nanoseconds -/
def cEx : Cfg := cfgOf { Cfg.sy with selectSleep := Rs.duration_from_millis 10 } wmEx

example : Tied cEx wmEx := tied_cfgOf _ _
example : cEx.armFirst = true := rfl
example : cEx.debounce = 1000000 * Cfg.sy.debounce ∧ cEx.recvTimeout = 1000000 * Cfg.sy.recvTimeout ∧
    cEx.selectSleep = 1000000 * Cfg.sy.selectSleep := by decide

def evCreate : Except Rs.Err Event := .ok ⟨.Create ⟨⟩⟩
def evAccess : Except Rs.Err Event := .ok ⟨.Access ⟨⟩⟩

/-- a file is created WHILE THE INITIAL SYNC RUNS; later an access event, a watcher error, and a SIGINT in the 12th
    select; the second sync (the loop's) fails -/
def wEx : WWorld :=
  wInit C20.v0 C20.d0 ([[], [.event evAccess none], [.event (.error .io) none]] ++ List.replicate 8 [] ++ [[.sigint]])
    [([.event evCreate (some C20.v1), .tick 7], true), ([.tick 5], false)]

example : ∀ e ∈ (wEx.during.headD ([], true)).1, e ≠ EnvIn.sigint := by
  intro e he; simp [wEx, wInit] at he; rcases he with h | h <;> (rw [h]; exact fun h => nomatch h)
example : (wEx.during.headD ([], true)).2 = true := rfl
example : wEx.armed = false := rfl
/-- the created file's event is in the channel when the loop is entered (`gen_event_during_initial_sync_is_queued`) -/
example : (atLoop cEx wEx).queue.map absItem = [.create] := by decide
/-- a failing initial sync: `watch` fails (`boot_fail`) -/
example : ((runM (WatchMode.watch (inst cEx 40) wmEx) (wInit C20.v0 C20.d0 [] [([], false)])).1
    matches .error _) = true := by decide

/-- a world at the top of the loop with a pending SIGINT after the next chunk (hypotheses of `iter_sigint`) -/
def wSig : WWorld := { atLoop cEx wEx with pre := [[.tick 3, .sigint]] }
example : wSig.handler = true ∧ wSig.disc = false ∧ (afterPre wSig).sig = true := by decide
/-- hypotheses of `iter_event`: the create event is the oldest item -/
example : (atLoop cEx wEx).handler = true ∧ (afterPre (atLoop cEx wEx)).sig = false ∧
    (afterPre (atLoop cEx wEx)).queue.map absItem = [.create] := by decide
/-- hypotheses of `iter_watch_error`, `iter_timeout_idle`, `iter_timeout_sync`, `iter_disconnected` on hand-made worlds -/
def wErr : WWorld := { atLoop cEx wEx with queue := [.error .io], pre := [] }
example : (afterPre wErr).sig = false ∧ ((afterPre wErr).queue matches [.error _]) = true := by decide
def wQuiet : WWorld := { atLoop cEx wEx with queue := [], pre := [[.tick 1000000000]] }
example : (afterPre wQuiet).sig = false ∧ (afterPre wQuiet).queue.length = 0 ∧ wQuiet.disc = false ∧
    wmEx.debounce ≤ (timedOut cEx wQuiet).now - 7 ∧ ¬ (timedOut cEx { wQuiet with pre := [] }).now - 7 ≥ wmEx.debounce := by
  decide
example : ({ wQuiet with disc := true } : WWorld).disc = true := rfl
/-- `gen_pending_cleared_only_by_sync` is not vacuous: that iteration does clear a non-empty `pending_changes` -/
example : ((runM (body (inst cEx 1) wmEx ⟨⟩ ([⟨.Create ⟨⟩⟩], 7)) wQuiet).1 matches .ok (.yield ([], _))) = true := by
  decide
/-- `gen_dropped_kind_never_syncs`: an access event is a dropped kind -/
example : (absKind (EventKind.Access ⟨⟩)).kept = false := rfl

end SyModel.Props.GenWatch
