/-
  GenEngineGuard — the DENOMINATOR of the mass-deletion guard of `SyncEngine::sync` (src/sync/mod.rs), TRANSLATED on every
  run into `SyModel/Generated/Code/EngineGuard.lean`: `let dest_file_count = Scanner::new(destination).scan().map(|files|
  files.iter().filter(|f| !is_own_metadata_file(&f.relative_path)).count()).unwrap_or(0)`, together with
  `SyncEngine::is_own_metadata_file`.  (The numerator / comparison fragments are unit Guards, Props/GenGuards.)

  Proved for ANY instance of the scan operation:
    * `dest_file_count_eq` — the count is the number of entries of a FRESH scan of the destination whose relative path is
      not one of sy's three metadata names; it does not depend on the plan, on the source or on any flag (seeded change
      C07c derived it from the planned tasks, which links that transfer nothing inflate: under such a change this theorem —
      indeed the translation of the fragment — breaks);
    * `dest_file_count_scan_error` — a failing scan gives 0, which switches the guard off (`dest_file_count > 0` is its
      precondition): recorded as an observation, C07 assumes a successful scan (props.py);
    * `is_own_metadata_file_iff`, `own_names_eq_model` — the excluded names are exactly the model's `ownMetadata`;
    (the model's `destCount` filters its keys by `ownMetadata`, i.e. by the same three names: `own_names_eq_model`).
-/
import SyModel.Generated.Code.EngineGuard
import SyModel.Engine.Model
namespace SyModel.Props.GenEngineGuard
open SyModel SyModel.Engine SyModel.Generated SyModel.Generated.EngineGuard

def runM {W α : Type} (x : Rs.M W α) (w : W) : Except Rs.Err α × W := x.run.run w

/-- the three names, as texts -/
def ownNames : List Rs.Path := [".sy-checksums.db".toList, ".sy-dir-cache.json".toList, ".sy-state.json".toList]

theorem is_own_metadata_file_iff (p : Rs.Path) : is_own_metadata_file p = ownNames.contains p := by
  unfold is_own_metadata_file ownNames
  simp only [Rs.to_str, Rs.ToStr.to_str]
  by_cases h1 : p = ".sy-checksums.db".toList
  · subst h1; decide
  by_cases h2 : p = ".sy-dir-cache.json".toList
  · subst h2; decide
  by_cases h3 : p = ".sy-state.json".toList
  · subst h3; decide
  have : ([".sy-checksums.db".toList, ".sy-dir-cache.json".toList, ".sy-state.json".toList].contains p) = false := by
    simp only [List.contains_cons, List.contains_nil, Bool.or_false, Bool.or_eq_false_iff, beq_eq_false_iff_ne, ne_eq]
    exact ⟨h1, h2, h3⟩
  rw [this]
  split
  · rename_i h; exact absurd (Option.some.inj h) (by simpa using h1)
  · rename_i h; exact absurd (Option.some.inj h) (by simpa using h2)
  · rename_i h; exact absurd (Option.some.inj h) (by simpa using h3)
  · rfl

/-- the model's `ownMetadata` (single-component paths) are these names -/
theorem own_names_eq_model : ownMetadata = ownNames.map (fun n => [String.ofList n]) := by decide

/-- **the guard's denominator, for ANY scan operation**: a successful fresh scan of the destination, minus sy's own
    metadata names; the world is whatever the scan leaves -/
theorem dest_file_count_eq {W : Type} (ext : Ext W) (d : Rs.Path) (w w' : W) (files : List FileEntry)
    (hs : runM (ext.scanner_scan (ext.scanner_Scanner_new d)) w = (.ok files, w')) :
    runM (dest_file_count ext d) w =
      (.ok (files.filter (fun f => !(ownNames.contains f.relative_path))).length, w') := by
  unfold dest_file_count
  simp only [runM, Rs.capture] at hs ⊢
  simp only [bind, ExceptT.bind, ExceptT.mk, ExceptT.lift, ExceptT.run, StateT.bind, StateT.run, Functor.map, StateT.map,
    ExceptT.bindCont, pure, ExceptT.pure, StateT.pure] at hs ⊢
  rw [hs]
  simp only [resultMap, Rs.unwrap_or, Rs.UnwrapOr.unwrap_or, Rs.count, Rs.filter, is_own_metadata_file_iff]
  rfl

/-- a failing scan gives 0 (the guard's `dest_file_count > 0` precondition then fails: the guard is off) -/
theorem dest_file_count_scan_error {W : Type} (ext : Ext W) (d : Rs.Path) (w w' : W) (e : Rs.Err)
    (hs : runM (ext.scanner_scan (ext.scanner_Scanner_new d)) w = (.error e, w')) :
    runM (dest_file_count ext d) w = (.ok 0, w') := by
  unfold dest_file_count
  simp only [runM, Rs.capture] at hs ⊢
  simp only [bind, ExceptT.bind, ExceptT.mk, ExceptT.lift, ExceptT.run, StateT.bind, StateT.run, Functor.map, StateT.map,
    ExceptT.bindCont, pure, ExceptT.pure, StateT.pure] at hs ⊢
  rw [hs]
  rfl

/-- non-vacuity of the error case: a failing scan gives 0 -/
example : (runM (dest_file_count (W := Unit) ⟨id, fun _ => throw .io⟩ []) ()).1 = .ok 0 := rfl

end SyModel.Props.GenEngineGuard
