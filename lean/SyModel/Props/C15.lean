/-
  C15 — Verify-only reports exactly the differences and is read-only.
  Property theorems only.
-/
import SyModel.Lemmas.Verify
import SyModel.Generated.Consts
namespace SyModel.Props.C15
open SyModel SyModel.Engine

/-- verification always uses a real checksum: mode `fast` (no checksum) is replaced by xxh3
    (regenerated from src/sync/mod.rs each run) -/
theorem consts_ok_verify_never_none : Generated.VERIFY_REPLACES_NONE_CHECKSUM = true := by decide

/-- the body of `SyncEngine::verify` calls no mutating transport operation (regenerated) -/
theorem consts_ok_verify_body_read_only : Generated.VERIFY_BODY_MUTATING_CALLS = 0 := by decide

/-- a source entry's verdict determines in which list its path appears -/
theorem classify_of_file (dst : List VEntry) (hd : UniqueRels dst) (s : VEntry) (hs : s.isDir = false) :
    (classify noBounds dst s = .onlySrc ∧ ∀ d ∈ dst, d.rel = s.rel → d.isDir = true) ∨
    (∃ d ∈ dst, d.rel = s.rel ∧ d.isDir = false ∧
      ((∃ a b, s.content = some a ∧ d.content = some b ∧ a = b ∧ classify noBounds dst s = .matched) ∨
       (∃ a b, s.content = some a ∧ d.content = some b ∧ a ≠ b ∧ classify noBounds dst s = .mismatched) ∨
       ((s.content = none ∨ d.content = none) ∧ classify noBounds dst s = .error))) := by
  cases hdf : destFile dst s.rel with
  | none => exact Or.inl ⟨classify_none dst s hs hdf, (destFile_none_iff dst hd s.rel).mp hdf⟩
  | some d =>
    obtain ⟨hdm, hdd, hdr⟩ := (destFile_some_iff dst hd _ d).mp hdf
    refine Or.inr ⟨d, hdm, hdr, hdd, ?_⟩
    cases ha : s.content with
    | none => exact Or.inr (Or.inr ⟨Or.inl rfl, classify_unreadable dst s d hs hdf (Or.inl ha)⟩)
    | some a =>
      cases hb : d.content with
      | none => exact Or.inr (Or.inr ⟨Or.inr rfl, classify_unreadable dst s d hs hdf (Or.inr hb)⟩)
      | some b =>
        have hc := classify_some dst s d a b hs hdf ha hb
        by_cases hab : a = b
        · exact Or.inl ⟨a, b, rfl, rfl, hab, by rw [hc, if_pos hab]⟩
        · exact Or.inr (Or.inl ⟨a, b, rfl, rfl, hab, by rw [hc, if_neg hab]⟩)

/-- The lists are exactly the true sets (no size bounds): a path is reported as mismatched iff
    it is a file on both sides, both readable, with different content … -/
theorem mismatched_exact (src dst : List VEntry) (hd : UniqueRels dst) (p : Path) :
    p ∈ (verify noBounds src dst).mismatched ↔
      ∃ s ∈ src, ∃ d ∈ dst, s.rel = p ∧ d.rel = p ∧ s.isDir = false ∧ d.isDir = false ∧
        ∃ a b, s.content = some a ∧ d.content = some b ∧ a ≠ b := by
  show p ∈ (((src.map fun s => (s.rel, classify noBounds dst s)).filter (·.2 == .mismatched)).map (·.1)) ↔ _
  rw [mem_verdict]
  constructor
  · rintro ⟨s, hs, rfl, hv⟩
    cases hsd : s.isDir with
    | true => rw [classify_dir _ _ _ hsd] at hv; cases hv
    | false =>
      rcases classify_of_file dst hd s hsd with ⟨h, _⟩ | ⟨d, hdm, hdr, hdd, h⟩
      · rw [h] at hv; cases hv
      · rcases h with ⟨_, _, _, _, _, h⟩ | ⟨a, b, ha, hb, hab, _⟩ | ⟨_, h⟩
        · rw [h] at hv; cases hv
        · exact ⟨s, hs, d, hdm, rfl, hdr, hsd, hdd, a, b, ha, hb, hab⟩
        · rw [h] at hv; cases hv
  · rintro ⟨s, hs, d, hdm, rfl, hdr, hsd, hdd, a, b, ha, hb, hne⟩
    refine ⟨s, hs, rfl, ?_⟩
    have hdf := (destFile_some_iff dst hd s.rel d).mpr ⟨hdm, hdd, hdr⟩
    rw [classify_some dst s d a b hsd hdf ha hb, if_neg hne]

/-- … as only-in-source iff it is a source file with no destination *file* at that path … -/
theorem onlySrc_exact (src dst : List VEntry) (hd : UniqueRels dst) (p : Path) :
    p ∈ (verify noBounds src dst).onlySrc ↔
      ∃ s ∈ src, s.rel = p ∧ s.isDir = false ∧ ∀ d ∈ dst, d.rel = p → d.isDir = true := by
  show p ∈ (((src.map fun s => (s.rel, classify noBounds dst s)).filter (·.2 == .onlySrc)).map (·.1)) ↔ _
  rw [mem_verdict]
  constructor
  · rintro ⟨s, hs, rfl, hv⟩
    cases hsd : s.isDir with
    | true => rw [classify_dir _ _ _ hsd] at hv; cases hv
    | false =>
      rcases classify_of_file dst hd s hsd with ⟨_, hall⟩ | ⟨d, hdm, hdr, hdd, h⟩
      · exact ⟨s, hs, rfl, hsd, hall⟩
      · rcases h with ⟨_, _, _, _, _, h⟩ | ⟨_, _, _, _, _, h⟩ | ⟨_, h⟩ <;> (rw [h] at hv; cases hv)
  · rintro ⟨s, hs, rfl, hsd, hall⟩
    exact ⟨s, hs, rfl, classify_none dst s hsd ((destFile_none_iff dst hd s.rel).mpr hall)⟩

/-- … as an error iff it is a file on both sides and one of the two cannot be read … -/
theorem errors_exact (src dst : List VEntry) (hd : UniqueRels dst) (p : Path) :
    p ∈ (verify noBounds src dst).errors ↔
      ∃ s ∈ src, ∃ d ∈ dst, s.rel = p ∧ d.rel = p ∧ s.isDir = false ∧ d.isDir = false ∧
        (s.content = none ∨ d.content = none) := by
  show p ∈ (((src.map fun s => (s.rel, classify noBounds dst s)).filter (·.2 == .error)).map (·.1)) ↔ _
  rw [mem_verdict]
  constructor
  · rintro ⟨s, hs, rfl, hv⟩
    cases hsd : s.isDir with
    | true => rw [classify_dir _ _ _ hsd] at hv; cases hv
    | false =>
      rcases classify_of_file dst hd s hsd with ⟨h, _⟩ | ⟨d, hdm, hdr, hdd, h⟩
      · rw [h] at hv; cases hv
      · rcases h with ⟨_, _, _, _, _, h⟩ | ⟨_, _, _, _, _, h⟩ | ⟨hc, _⟩
        · rw [h] at hv; cases hv
        · rw [h] at hv; cases hv
        · exact ⟨s, hs, d, hdm, rfl, hdr, hsd, hdd, hc⟩
  · rintro ⟨s, hs, d, hdm, rfl, hdr, hsd, hdd, hc⟩
    exact ⟨s, hs, rfl, classify_unreadable dst s d hsd ((destFile_some_iff dst hd s.rel d).mpr ⟨hdm, hdd, hdr⟩) hc⟩

/-- … and as only-in-destination iff it is a destination file with no source *file* at that path
    (a source directory of the same name does not count as a counterpart). -/
theorem onlyDst_exact (c : VCfg) (src dst : List VEntry) (p : Path) :
    p ∈ (verify c src dst).onlyDst ↔
      ∃ d ∈ dst, d.rel = p ∧ d.isDir = false ∧ ∀ s ∈ src, s.rel = p → s.isDir = true := by
  simp only [verify, List.mem_map, List.mem_filter, List.contains_eq_mem,
    decide_eq_false_iff_not, not_exists, not_and, Bool.not_eq_eq_eq_not, Bool.not_true]
  constructor
  · rintro ⟨d, ⟨⟨hdm, hdd⟩, hn⟩, rfl⟩
    refine ⟨d, hdm, rfl, hdd, ?_⟩
    intro s hs hr
    cases hsd : s.isDir with
    | true => rfl
    | false => exact absurd hr (hn s ⟨hs, hsd⟩)
  · rintro ⟨d, hdm, rfl, hdd, hall⟩
    refine ⟨d, ⟨⟨hdm, hdd⟩, ?_⟩, rfl⟩
    intro s ⟨hs, hsd⟩ hr
    have := hall s hs hr
    rw [hsd] at this; cases this

/-- Exit status 2 exactly when some compared file could not be read. -/
theorem exit_two_iff (c : VCfg) (src dst : List VEntry) :
    exitCode (verify c src dst) = 2 ↔ (verify c src dst).errors ≠ [] := by
  unfold exitCode
  cases h : (verify c src dst).errors with
  | nil => simp; split <;> simp
  | cons a t => simp

/-- Exit status 0 iff nothing was mismatched, missing on either side or unreadable; otherwise 1
    (or 2 on read errors). -/
theorem exit_zero_iff_lists_empty (c : VCfg) (src dst : List VEntry) :
    exitCode (verify c src dst) = 0 ↔
      (verify c src dst).errors = [] ∧ (verify c src dst).mismatched = [] ∧
      (verify c src dst).onlySrc = [] ∧ (verify c src dst).onlyDst = [] := by
  unfold exitCode
  cases (verify c src dst).errors <;> cases (verify c src dst).mismatched <;>
    cases (verify c src dst).onlySrc <;> cases (verify c src dst).onlyDst <;> simp

theorem exit_le_two (c : VCfg) (src dst : List VEntry) : exitCode (verify c src dst) ≤ 2 := by
  unfold exitCode
  split
  · omega
  · split <;> omega

/-- `--verify-only` exits 0 if and only if source and destination contain the same files with
    identical contents (all files readable). -/
theorem verify_exit_zero_iff (src dst : List VEntry) (hd : UniqueRels dst)
    (hread : ∀ e ∈ src ++ dst, e.isDir = false → e.content ≠ none) :
    exitCode (verify noBounds src dst) = 0 ↔
      (∀ s ∈ src, s.isDir = false → ∃ d ∈ dst, d.rel = s.rel ∧ d.isDir = false ∧ d.content = s.content) ∧
      (∀ d ∈ dst, d.isDir = false → ∃ s ∈ src, s.rel = d.rel ∧ s.isDir = false) := by
  rw [exit_zero_iff_lists_empty]
  constructor
  · rintro ⟨_, hm, ho, hod⟩
    constructor
    · intro s hsm hsd
      rcases classify_of_file dst hd s hsd with ⟨_, hall⟩ | ⟨d, hdm, hdr, hdd, h⟩
      · have : s.rel ∈ (verify noBounds src dst).onlySrc :=
          (onlySrc_exact src dst hd s.rel).mpr ⟨s, hsm, rfl, hsd, hall⟩
        rw [ho] at this; cases this
      · refine ⟨d, hdm, hdr, hdd, ?_⟩
        rcases h with ⟨a, b, ha, hb, hab, _⟩ | ⟨a, b, ha, hb, hab, _⟩ | ⟨hc, _⟩
        · rw [ha, hb, hab]
        · have : s.rel ∈ (verify noBounds src dst).mismatched :=
            (mismatched_exact src dst hd s.rel).mpr ⟨s, hsm, d, hdm, rfl, hdr, hsd, hdd, a, b, ha, hb, hab⟩
          rw [hm] at this; cases this
        · rcases hc with hc | hc
          · exact absurd hc (hread s (List.mem_append_left _ hsm) hsd)
          · exact absurd hc (hread d (List.mem_append_right _ hdm) hdd)
    · intro d hdm hdd
      refine Classical.byContradiction fun hno => ?_
      have : d.rel ∈ (verify noBounds src dst).onlyDst := by
        rw [onlyDst_exact]
        refine ⟨d, hdm, rfl, hdd, ?_⟩
        intro s hsm hsr
        cases hsd : s.isDir with
        | true => rfl
        | false => exact absurd ⟨s, hsm, hsr, hsd⟩ hno
      rw [hod] at this; cases this
  · rintro ⟨h1, h2⟩
    refine ⟨?_, ?_, ?_, ?_⟩ <;> apply List.eq_nil_iff_forall_not_mem.mpr <;> intro p hp
    · rw [errors_exact src dst hd] at hp
      obtain ⟨s, hsm, d, hdm, rfl, hdr, hsd, hdd, hc⟩ := hp
      rcases hc with hc | hc
      · exact hread s (List.mem_append_left _ hsm) hsd hc
      · exact hread d (List.mem_append_right _ hdm) hdd hc
    · rw [mismatched_exact src dst hd] at hp
      obtain ⟨s, hsm, d, hdm, rfl, hdr, hsd, hdd, a, b, ha, hb, hne⟩ := hp
      obtain ⟨d', hdm', hdr', hdd', hc⟩ := h1 s hsm hsd
      have : d = d' := nodup_map_inj (fun x : VEntry => x.rel) dst hd hdm hdm' (hdr.trans hdr'.symm)
      subst this
      rw [ha, hb] at hc
      exact hne (Option.some.inj hc).symm
    · rw [onlySrc_exact src dst hd] at hp
      obtain ⟨s, hsm, rfl, hsd, hall⟩ := hp
      obtain ⟨d, hdm, hdr, hdd, _⟩ := h1 s hsm hsd
      have := hall d hdm hdr
      rw [hdd] at this; cases this
    · rw [onlyDst_exact] at hp
      obtain ⟨d, hdm, rfl, hdd, hall⟩ := hp
      obtain ⟨s, hsm, hsr, hsd⟩ := h2 d hdm hdd
      have := hall s hsm hsr
      rw [hsd] at this; cases this

/-! ### non-vacuity -/

def exSrc : List VEntry := [⟨["a"], false, some 1, 3⟩, ⟨["x"], true, none, 0⟩, ⟨["x", "b"], false, some 2, 5⟩]
def exDst : List VEntry := [⟨["a"], false, some 9, 3⟩, ⟨["x"], false, some 4, 1⟩, ⟨["z"], false, some 5, 1⟩]

example : verify noBounds exSrc exDst =
    { matched := 0, mismatched := [["a"]], onlySrc := [["x", "b"]], onlyDst := [["x"], ["z"]], errors := [] } := by decide
example : exitCode (verify noBounds exSrc exDst) = 1 := by decide
example : exitCode (verify noBounds exSrc exSrc) = 0 := by decide
example : UniqueRels exDst := by unfold UniqueRels; decide

end SyModel.Props.C15
