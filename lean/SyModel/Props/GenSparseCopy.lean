/-
  GenSparseCopy — the translated sparse copiers of the local transport (`SyModel/Generated/Code/SparseCopy.lean`,
  regenerated on every run from src/transport/local.rs:14-170: `is_file_sparse`, `copy_sparse_file_seek`,
  `copy_sparse_file_blocks`, `copy_sparse_file`), run in the POSIX world `SWorld` of `Lemmas/GenSparseCopy.lean` PART 1
  on the trusted instance `sparseExt seekSupported`, do what the handwritten models say:

      is_file_sparse              ↦  Compress.isSparseLocal                      (Compress/Sparse.lean)
      copy_sparse_file_seek       ↦  Compress.localSeekOver .create  = source     (C14.sparse_local_seek, C01)
      copy_sparse_file_blocks     ↦  Compress.localBlocksOver .create = source     (C14.sparse_local_blocks, C01)
      copy_sparse_file            ↦  seek variant; block variant exactly on EINVAL
      the LOG of either run       ↦  the step lists `sparseSeekSteps` / `sparseBlocksSteps` of Engine/Steps.lean:
                                     seek: every intermediate state of the destination is a PREFIX of the source
                                     (`grow` steps; `set_len` LAST); blocks: `set_len(final)` FIRST (`setLen` … `fill`,
                                     the recorded finding C09/sparse-setlen-torn-accepted)

  Abstraction map.  Bytes: `Vec<u8>` is `List Nat` in the translated code and `Bytes = List UInt8` in the models; the
  theorems quantify over all model byte strings `content` and speak about the worlds whose source file holds
  `ofU8 content`.  The kernel's SEEK_DATA / SEEK_HOLE answers come from `SWorld.dataMap source`, constrained only by
  the contract `Compress.Covers content (dataMap source)` of C14 (extents inside the file; holes read as zeros) —
  extents may be unsorted, overlapping, adjacent or empty.  A run is `f (sparseExt b) source dest w :
  Except Rs.Err Nat × SWorld`; `runLog w w'` is what the run appended to the log, and the `after` field of a log line
  is the destination's content right after that system call — the states a kill can leave behind.

  Hypotheses, all explicit (satisfiability: the `example`s at the end):
    * `w.files source = some (ofU8 content)` — the source is a regular file;
    * `source ≠ dest` (DOMAIN RESTRICTION: handles refer to paths in `SWorld`; the code unlinks `dest` first);
    * `Covers content (w.dataMap source)` for the seek variant on a file system with SEEK_DATA (none for the blocks);
    * fuel theorems: any fuel function with `n < fuel n`.
  The prior content of the destination is arbitrary (absent, or any bytes).
-/
import SyModel.Lemmas.GenSparseCopy
import SyModel.Props.C14
set_option autoImplicit false
namespace SyModel.Props.GenSparseCopy
open SyModel SyModel.Generated SyModel.Generated.SparseCopy SyModel.Compress SyModel.SparseCopy

/-! ### vocabulary of the statements -/

/-- what a run from `w` to `w'` appended to the log -/
def runLog (w w' : SWorld) : List LogEntry := w'.log.drop w.log.length

/-- the log line is a `set_len` -/
def IsSetLen (e : LogEntry) : Prop := ∃ n, e.op = .setLen n

/-- every state of the destination recorded in `l` is "absent" or a PREFIX of the source — the step-level model's
    `file cid len _` ("holds the first `len` bytes of content `cid`") -/
def PrefixStates (content : Bytes) (l : List LogEntry) : Prop :=
  ∀ e ∈ l, e.after = none ∨ ∃ n, n ≤ content.length ∧ e.after = some (ofU8 (content.take n))

/-- `source` holds `content`, and nothing else differs between `w` and `w'` except `dest`, which holds `out` -/
def Copied (w w' : SWorld) (dest : Rs.Path) (out : List Nat) : Prop :=
  w'.files dest = some out ∧ ∀ q, q ≠ dest → w'.files q = w.files q

theorem copied_cw (w : SWorld) (src dst : Rs.Path) (ps pd : Nat) (out : List Nat) (err : Int) (lg : List LogEntry) :
    Copied w (cw w src dst ps pd out err lg) dst out :=
  ⟨upd_same _ _ _, fun _ hq => upd_ne _ _ hq⟩

theorem runLog_cw (w : SWorld) (src dst : Rs.Path) (ps pd : Nat) (out : List Nat) (err : Int) (l : List LogEntry) :
    runLog w (cw w src dst ps pd out err (w.log ++ l)) = l := by
  simp [runLog, cw]

/-! ### 4. `is_file_sparse` -/

/-- `is_file_sparse` is the model's `isSparseLocal` on `blocks * 512` and the size -/
theorem is_file_sparse_eq_model (m : SMeta) : is_file_sparse m = isSparseLocal (m.blocks * 512) m.size := rfl

/-- a file is treated as sparse iff it is LARGER than 4096 bytes and its allocated size is below `size - 4096`
    (the subtraction cannot wrap under the first conjunct) -/
theorem is_file_sparse_iff (m : SMeta) :
    is_file_sparse m = true ↔ m.size > 4096 ∧ m.blocks * 512 < m.size - 4096 := by
  show (decide (m.size > 4096) && decide (m.blocks * 512 < m.size - 4096)) = true ↔ _
  rw [Bool.and_eq_true, decide_eq_true_eq, decide_eq_true_eq]

/-- … in particular a file of at most 4096 bytes is never treated as sparse (whatever `st_blocks` says) -/
theorem is_file_sparse_small (m : SMeta) (h : m.size ≤ 4096) : is_file_sparse m = false := by
  cases hs : is_file_sparse m with
  | false => rfl
  | true => have := (is_file_sparse_iff m).mp hs; omega

/-- the threshold is the regenerated constant -/
theorem consts_ok_sparse_threshold : Generated.SPARSE_THRESHOLD_LOCAL = 4096 ∧ SPARSE_THRESHOLD = 4096 ∧
    LOCAL_BLOCK = 4096 := by decide

/-! ### 2./3. `copy_sparse_file_blocks` -/

section blocks
variable (b : Bool) (w : SWorld) (source dest : Rs.Path) (content : Bytes)
  (hsrc : w.files source = some (ofU8 content)) (hne : source ≠ dest)
include hsrc hne

/-- FUEL of the block copier: the translated loop `for _ in [0:file_size + 2]` ends through its own test — every fuel
    above the file size computes the very same result and world (each round advances `pos` by a non-empty block, so
    `file_size` rounds plus the exit round suffice; `+ 2` has one round of slack) -/
theorem copy_sparse_file_blocks_fuel_sufficient (fuel : Nat → Nat) (hfuel : content.length < fuel content.length) :
    blocksNF (sparseExt b) fuel source dest w = copy_sparse_file_blocks (sparseExt b) source dest w := by
  obtain ⟨ps, pd, ws, h, _⟩ := blocksNF_run w source dest content hsrc hne b
  rw [blocks_nf, h fuel hfuel, h (· + 2) (by omega)]

/-- the full statement about one run of the block copier, for ANY content and ANY prior destination, with or without
    SEEK_DATA support: `Ok(file_size)`; the destination holds the model's `localBlocksOver .create prior content`;
    no other file changed; the log of the run is `[unlink]? create · set_len(size) ↦ zeros · writes… · sync`, every
    write leaving a file of the final size -/
theorem copy_sparse_file_blocks_run (prior : Option Bytes) :
    ∃ w' ws,
      copy_sparse_file_blocks (sparseExt b) source dest w = (.ok content.length, w') ∧
      Copied w w' dest (ofU8 (localBlocksOver .create prior content)) ∧
      runLog w w' = preLog w dest ++ ⟨dest, .setLen content.length, some (zerosN content.length)⟩ :: ws ++
        [⟨dest, .sync, some (ofU8 content)⟩] ∧
      ∀ e ∈ ws, BlockWrite dest content.length e := by
  obtain ⟨ps, pd, ws, h, hws⟩ := blocksNF_run w source dest content hsrc hne b
  refine ⟨_, ws, by rw [blocks_nf]; exact h (· + 2) (by omega), copied_cw _ _ _ _ _ _ _ _, ?_, hws⟩
  have : w.log ++ preLog w dest ++ [⟨dest, .setLen content.length, some (zerosN content.length)⟩] ++ ws ++
      [⟨dest, .sync, some (ofU8 (localBlocks content))⟩] =
      w.log ++ (preLog w dest ++ ⟨dest, .setLen content.length, some (zerosN content.length)⟩ :: ws ++
        [⟨dest, .sync, some (ofU8 content)⟩]) := by
    rw [C14.sparse_local_blocks]; simp
  rw [this, runLog_cw]

/-- C14.sparse_local_blocks / C14.sparse_local_over_prior about the TRANSLATED block copier: whatever the content
    (no assumption about the kernel) and whatever the destination held, it returns `Ok(file_size)` and the
    destination holds exactly the source bytes; all-hole and empty files included -/
theorem translated_sparse_local_blocks :
    ∃ w', copy_sparse_file_blocks (sparseExt b) source dest w = (.ok content.length, w') ∧
      Copied w w' dest (ofU8 content) := by
  obtain ⟨w', _, h1, h2, _⟩ := copy_sparse_file_blocks_run b w source dest content hsrc hne none
  refine ⟨w', h1, ?_⟩
  have : localBlocksOver .create none content = content := C14.sparse_local_blocks content
  rw [this] at h2; exact h2

/-- C09, ORDER: in the block copier the FIRST mutating operation after `create` is `set_len(file_size)`; it leaves a
    file of the final size that holds only zeros -/
theorem copy_sparse_file_blocks_setlen_first :
    ∃ w' rest, copy_sparse_file_blocks (sparseExt b) source dest w = (.ok content.length, w') ∧
      runLog w w' = preLog w dest ++ ⟨dest, .setLen content.length, some (zerosN content.length)⟩ :: rest ∧
      (preLog w dest).getLast? = some ⟨dest, .create, some []⟩ := by
  obtain ⟨w', ws, h1, _, h3, _⟩ := copy_sparse_file_blocks_run b w source dest content hsrc hne none
  refine ⟨w', ws ++ [⟨dest, .sync, some (ofU8 content)⟩], h1, by rw [h3]; simp, by simp [preLog]⟩

/-- … and from then on EVERY recorded state of the destination has the final size -/
theorem copy_sparse_file_blocks_sized_throughout :
    ∃ w' pre rest, copy_sparse_file_blocks (sparseExt b) source dest w = (.ok content.length, w') ∧
      runLog w w' = pre ++ rest ∧ pre = preLog w dest ∧
      ∀ e ∈ rest, ∃ c, e.after = some c ∧ c.length = content.length := by
  obtain ⟨w', ws, h1, _, h3, h4⟩ := copy_sparse_file_blocks_run b w source dest content hsrc hne none
  refine ⟨w', preLog w dest, _, h1, by rw [h3, List.append_assoc], rfl, ?_⟩
  intro e he
  simp only [List.cons_append, List.mem_cons, List.mem_append, List.not_mem_nil, or_false] at he
  rcases he with rfl | he | rfl
  · exact ⟨_, rfl, by simp [zerosN]⟩
  · obtain ⟨off, len, c, rfl, hc⟩ := h4 e he
    exact ⟨c, rfl, hc⟩
  · exact ⟨_, rfl, ofU8_length _⟩

/-- THE RECORDED FINDING `C09/sparse-setlen-torn-accepted`, about the translated code: for every source with at least
    one non-zero byte the run of the block copier passes through a state in which the destination HAS THE FINAL SIZE
    but NOT the content (it is all zeros) — a kill there leaves a file that a size (+ mtime) comparison accepts -/
theorem copy_sparse_file_blocks_torn_state (i : Nat) (hi : at0 content i ≠ 0) :
    ∃ w' e c, copy_sparse_file_blocks (sparseExt b) source dest w = (.ok content.length, w') ∧
      e ∈ runLog w w' ∧ e.op = .setLen content.length ∧ e.after = some c ∧
      c.length = content.length ∧ c ≠ ofU8 content := by
  obtain ⟨w', ws, h1, _, h3, _⟩ := copy_sparse_file_blocks_run b w source dest content hsrc hne none
  refine ⟨w', ⟨dest, .setLen content.length, some (zerosN content.length)⟩, _, h1, by rw [h3]; simp, rfl, rfl,
    by simp [zerosN], ?_⟩
  intro h
  have hz : ofU8 (zeros content.length) = ofU8 content := by rw [ofU8_zeros]; exact h
  have := ofU8_inj hz
  rw [← this, at0_zeros] at hi
  exact hi rfl

end blocks

/-! ### 2./3. `copy_sparse_file_seek` on a file system with SEEK_DATA -/

section seek
variable (w : SWorld) (source dest : Rs.Path) (content : Bytes)
  (hsrc : w.files source = some (ofU8 content)) (hne : source ≠ dest) (hcov : Covers content (w.dataMap source))
include hsrc hne hcov

/-- FUEL of the seek copier: both translated loops `for _ in [0:file_size + 2]` end through their own exits — all fuel
    functions above the file size compute the very same result and world.  (Each outer round either breaks or moves
    `pos` past a NON-EMPTY extent: `hole_start > data_start` because `data_start` lies in data; each inner round either
    breaks or reads at least one byte.) -/
theorem copy_sparse_file_seek_fuel_sufficient (fo fi : Nat → Nat) (hfo : content.length < fo content.length)
    (hfi : content.length < fi content.length) :
    seekNF (sparseExt true) fo fi source dest w = copy_sparse_file_seek (sparseExt true) source dest w := by
  obtain ⟨ps, pd, err, ws, tail, h, _⟩ := seekNF_run w source dest content hsrc hne hcov
  rw [seek_nf, h fo fi hfo hfi, h (· + 2) (· + 2) (by omega) (by omega)]

/-- the full statement about one run of the seek copier under the SEEK_DATA contract, for ANY prior destination:
    `Ok(file_size)`; the destination holds the source bytes; no other file changed; the log of the run is
    `[unlink]? create · writes… · set_len(size) ↦ content` followed by `sync` — or by nothing on the all-hole exit
    (then there was no write either and the kernel reports no data inside the file); every write puts `len > 0` bytes
    at `off` and leaves EXACTLY the prefix `content.take (off + len)` -/
theorem copy_sparse_file_seek_run :
    ∃ w' ws tail,
      copy_sparse_file_seek (sparseExt true) source dest w = (.ok content.length, w') ∧
      Copied w w' dest (ofU8 content) ∧
      runLog w w' = preLog w dest ++ ws ++ [⟨dest, .setLen content.length, some (ofU8 content)⟩] ++ tail ∧
      (∀ e ∈ ws, SeekWrite dest content e) ∧
      ((tail = [] ∧ ws = [] ∧ ∀ i, isData (w.dataMap source) i = true → content.length ≤ i) ∨
       tail = [⟨dest, .sync, some (ofU8 content)⟩]) := by
  obtain ⟨ps, pd, err, ws, tail, h, hws, htail⟩ := seekNF_run w source dest content hsrc hne hcov
  refine ⟨_, ws, tail, by rw [seek_nf]; exact h (· + 2) (· + 2) (by omega) (by omega), copied_cw _ _ _ _ _ _ _ _, ?_,
    hws, htail⟩
  have : w.log ++ preLog w dest ++ ws ++ [⟨dest, .setLen content.length, some (ofU8 content)⟩] ++ tail =
      w.log ++ (preLog w dest ++ ws ++ [⟨dest, .setLen content.length, some (ofU8 content)⟩] ++ tail) := by simp
  rw [this, runLog_cw]

/-- C14.sparse_local_seek / C14.sparse_local_over_prior (and C01's byte clause) about the TRANSLATED seek copier:
    under `Covers` it returns `Ok(file_size)` and the destination holds the model's
    `localSeekOver .create prior content regions` = the source bytes, whatever it held before -/
theorem translated_sparse_local_seek (prior : Option Bytes) :
    ∃ w', copy_sparse_file_seek (sparseExt true) source dest w = (.ok content.length, w') ∧
      Copied w w' dest (ofU8 (localSeekOver .create prior content (w.dataMap source))) ∧
      Copied w w' dest (ofU8 content) := by
  obtain ⟨w', _, _, h1, h2, _⟩ := copy_sparse_file_seek_run w source dest content hsrc hne hcov
  have : localSeekOver .create prior content (w.dataMap source) = content :=
    (C14.sparse_local_over_prior prior content _ hcov).1
  exact ⟨w', h1, by rw [this]; exact h2, h2⟩

/-- C09, ORDER: in the seek copier `set_len(file_size)` is the LAST mutating operation before `sync` (the last one at
    all on the all-hole exit), and NO earlier operation of the run is a `set_len` -/
theorem copy_sparse_file_seek_setlen_last :
    ∃ w' before tail, copy_sparse_file_seek (sparseExt true) source dest w = (.ok content.length, w') ∧
      runLog w w' = before ++ [⟨dest, .setLen content.length, some (ofU8 content)⟩] ++ tail ∧
      (tail = [] ∨ tail = [⟨dest, .sync, some (ofU8 content)⟩]) ∧
      ∀ e ∈ before, ¬ IsSetLen e := by
  obtain ⟨w', ws, tail, h1, _, h3, h4, h5⟩ := copy_sparse_file_seek_run w source dest content hsrc hne hcov
  refine ⟨w', preLog w dest ++ ws, tail, h1, h3, ?_, ?_⟩
  · rcases h5 with ⟨h, _⟩ | h
    · exact Or.inl h
    · exact Or.inr h
  · intro e he
    rcases List.mem_append.mp he with he | he
    · simp only [preLog, List.mem_append, List.mem_singleton] at he
      rcases he with he | rfl
      · split at he
        · simp only [List.mem_singleton] at he; subst he; rintro ⟨n, hn⟩; cases hn
        · simp at he
      · rintro ⟨n, hn⟩; cases hn
    · obtain ⟨off, len, _, _, rfl⟩ := h4 e he
      rintro ⟨n, hn⟩; cases hn

/-- C09, the invariant behind `no_torn_accepted` for this route: EVERY state of the destination a kill can leave
    behind is "absent" or a PREFIX of the source (empty after `create`, `content.take (off + len)` after a write, the
    whole content after `set_len`) — exactly the `unlink · openTrunc · grow… ` reading of `sparseSeekSteps` -/
theorem copy_sparse_file_seek_prefix_states :
    ∃ w', copy_sparse_file_seek (sparseExt true) source dest w = (.ok content.length, w') ∧
      PrefixStates content (runLog w w') := by
  obtain ⟨w', ws, tail, h1, _, h3, h4, h5⟩ := copy_sparse_file_seek_run w source dest content hsrc hne hcov
  refine ⟨w', h1, ?_⟩
  rw [h3]
  have hfull : ofU8 content = ofU8 (content.take content.length) := by rw [List.take_length]
  intro e he
  simp only [List.mem_append, List.mem_singleton] at he
  rcases he with ((he | he) | rfl) | he
  · simp only [preLog, List.mem_append, List.mem_singleton] at he
    rcases he with he | rfl
    · split at he
      · simp only [List.mem_singleton] at he; subst he; exact Or.inl rfl
      · simp at he
    · exact Or.inr ⟨0, by omega, rfl⟩
  · obtain ⟨off, len, _, hle, rfl⟩ := h4 e he
    exact Or.inr ⟨off + len, hle, rfl⟩
  · exact Or.inr ⟨content.length, Nat.le_refl _, congrArg some hfull⟩
  · rcases h5 with ⟨h, _⟩ | h
    · rw [h] at he; simp at he
    · rw [h] at he; simp only [List.mem_singleton] at he; subst he
      exact Or.inr ⟨content.length, Nat.le_refl _, congrArg some hfull⟩

/-- … hence THE FACT `C09.no_torn_accepted` NEEDS: a recorded state of the destination that has the FINAL SIZE holds
    the complete content — without any condition on where the last extent ends.  (When the last extent ends at EOF
    the final size is first reached by the last write of that extent, and then all data is in place; when a hole
    follows it, only `set_len` reaches the final size.  Before that the size is the end of the last write.) -/
theorem copy_sparse_file_seek_final_size_complete :
    ∃ w', copy_sparse_file_seek (sparseExt true) source dest w = (.ok content.length, w') ∧
      ∀ e ∈ runLog w w', ∀ c, e.after = some c → c.length = content.length → c = ofU8 content := by
  obtain ⟨w', h1, h2⟩ := copy_sparse_file_seek_prefix_states w source dest content hsrc hne hcov
  refine ⟨w', h1, ?_⟩
  intro e he c hc hlen
  rcases h2 e he with h | ⟨n, hn, h⟩
  · rw [h] at hc; cases hc
  · rw [h] at hc
    simp only [Option.some.injEq] at hc
    subst hc
    rw [ofU8_length, List.length_take] at hlen
    have : n = content.length := by omega
    subst this
    rw [List.take_length]

omit hsrc hne hcov in
/-- the precise characterisation of the sizes: a write `(off, len)` leaves a file of size `off + len ≤ file_size`; it
    has the final size iff the write ends at EOF -/
theorem seek_write_size (e : LogEntry) (he : SeekWrite dest content e) :
    ∃ off len c, e.op = .write off len ∧ e.after = some c ∧ c.length = off + len ∧ off + len ≤ content.length ∧
      (c.length = content.length ↔ off + len = content.length) := by
  obtain ⟨off, len, _, hle, rfl⟩ := he
  refine ⟨off, len, _, rfl, rfl, ?_, hle, ?_⟩
  · rw [ofU8_length, List.length_take]; omega
  · rw [ofU8_length, List.length_take]; omega

end seek

/-! ### 2. `copy_sparse_file`: seek variant, block variant exactly on EINVAL -/

/-- for EVERY instance: `copy_sparse_file` is the seek variant; exactly when that fails with an error whose
    `raw_os_error()` is `Some(EINVAL)` the block variant is run, in the world the failed attempt left; every other
    error is returned as it is -/
theorem copy_sparse_file_dispatch {W : Type} (ext : Ext W) (source dest : Rs.Path) (w : W) :
    copy_sparse_file ext source dest w =
      match copy_sparse_file_seek ext source dest w with
      | (.ok size, w') => (.ok size, w')
      | (.error e, w') =>
        if (ext.raw_os_error e == some EINVAL) = true then copy_sparse_file_blocks ext source dest w'
        else (.error e, w') :=
  copy_sparse_file_eq ext source dest w

/-- any other error propagates (no fallback), for every instance -/
theorem copy_sparse_file_other_error_propagates {W : Type} (ext : Ext W) (source dest : Rs.Path) (w w' : W) (e : Rs.Err)
    (hrun : copy_sparse_file_seek ext source dest w = (.error e, w')) (hraw : ext.raw_os_error e ≠ some EINVAL) :
    copy_sparse_file ext source dest w = (.error e, w') := by
  rw [copy_sparse_file_dispatch, hrun]
  have : (ext.raw_os_error e == some EINVAL) = false := by simpa using hraw
  simp only [this, Bool.false_eq_true, if_false]

/-- … for instance a missing source: ENOENT from `File::open` is returned, nothing is touched, the block copier is not
    tried -/
theorem copy_sparse_file_missing_source (b : Bool) (w : SWorld) (source dest : Rs.Path) (h : w.files source = none) :
    copy_sparse_file (sparseExt b) source dest w = (.error .io, w) := by
  apply copy_sparse_file_other_error_propagates
  · rw [seek_nf]
    simp only [seekNF, prologue, run_bind, ext_open, openOp, h]
  · rw [ext_raw]; decide

section dispatch
variable (w : SWorld) (source dest : Rs.Path) (content : Bytes)
  (hsrc : w.files source = some (ofU8 content)) (hne : source ≠ dest)
include hsrc hne

/-- on a file system with SEEK_DATA (contract `Covers`) `copy_sparse_file` IS the seek variant: same result, same
    world, same log -/
theorem copy_sparse_file_supported (hcov : Covers content (w.dataMap source)) :
    copy_sparse_file (sparseExt true) source dest w = copy_sparse_file_seek (sparseExt true) source dest w := by
  obtain ⟨w', _, _, h1, _⟩ := copy_sparse_file_seek_run w source dest content hsrc hne hcov
  rw [copy_sparse_file_dispatch, h1]

/-- the world the failed seek attempt leaves on a file system without SEEK_DATA: destination created and empty -/
def afterProbe (w : SWorld) (source dest : Rs.Path) : SWorld :=
  cw w source dest 0 0 [] EINVAL (w.log ++ preLog w dest)

/-- on a file system WITHOUT SEEK_DATA the seek variant returns the EINVAL error after `[unlink]? create` … -/
theorem copy_sparse_file_seek_unsupported :
    copy_sparse_file_seek (sparseExt false) source dest w = (.error .other, afterProbe w source dest) ∧
    rawOsError .other = some EINVAL := by
  rw [seek_nf]
  exact ⟨seekNF_unsupported w source dest content hsrc hne _ _, rfl⟩

/-- … and `copy_sparse_file` IS the block variant run from there -/
theorem copy_sparse_file_unsupported :
    copy_sparse_file (sparseExt false) source dest w =
      copy_sparse_file_blocks (sparseExt false) source dest (afterProbe w source dest) := by
  rw [copy_sparse_file_dispatch, (copy_sparse_file_seek_unsupported w source dest content hsrc hne).1]
  rfl

/-- the source is still there after the failed probe -/
theorem afterProbe_source : (afterProbe w source dest).files source = some (ofU8 content) := by
  simp only [afterProbe, cw]
  rw [upd_ne _ _ hne, hsrc]

/-- C14 / C01 for `copy_sparse_file` on a file system without SEEK_DATA, ANY content, any prior destination:
    `Ok(file_size)`, the destination holds the source bytes, nothing else changed; the log of the whole call is
    `[unlink]? create · unlink · create · set_len(size) ↦ zeros · writes… · sync` -/
theorem copy_sparse_file_unsupported_run :
    ∃ w' ws, copy_sparse_file (sparseExt false) source dest w = (.ok content.length, w') ∧
      Copied w w' dest (ofU8 content) ∧
      runLog w w' = preLog w dest ++ [⟨dest, .unlink, none⟩, ⟨dest, .create, some []⟩,
        ⟨dest, .setLen content.length, some (zerosN content.length)⟩] ++ ws ++ [⟨dest, .sync, some (ofU8 content)⟩] ∧
      ∀ e ∈ ws, BlockWrite dest content.length e := by
  obtain ⟨ps, pd, ws, h, hws⟩ := blocksNF_run (afterProbe w source dest) source dest content
    (afterProbe_source w source dest content hsrc hne) hne false
  have hrun := h (· + 2) (by omega)
  rw [← blocks_nf, ← copy_sparse_file_unsupported w source dest content hsrc hne, C14.sparse_local_blocks] at hrun
  refine ⟨_, ws, hrun, ?_, ?_, hws⟩
  · refine ⟨upd_same _ _ _, fun q hq => ?_⟩
    show upd (afterProbe w source dest).files dest _ q = _
    rw [upd_ne _ _ hq]
    exact upd_ne _ _ hq
  · have hpre : preLog (afterProbe w source dest) dest = [⟨dest, .unlink, none⟩, ⟨dest, .create, some []⟩] := by
      simp [preLog, afterProbe, cw]
    have hl : (afterProbe w source dest).log = w.log ++ preLog w dest := rfl
    simp only [runLog, cw, hpre, hl, List.append_assoc, List.drop_left']
    simp

end dispatch

/-! ### the hypotheses are satisfiable -/

/-- a world for `copy_sparse_file s d`: `s` holds a file with a leading hole, an unaligned data extent and a trailing
    hole (the layout of `C14.covers_example`), `d` holds `prior` (or does not exist) -/
def exampleWorld (prior : Option (List Nat)) : SWorld :=
  { files := fun p => if p = ['s'] then some (ofU8 [0, 0, 7, 8, 9, 0, 0]) else if p = ['d'] then prior else none,
    dataMap := fun p => if p = ['s'] then [{ offset := 1, length := 4 }] else [],
    blocks := fun _ => 8, opened := 0, handle := fun _ => none, errno := 0, log := [] }

example (prior : Option (List Nat)) :
    (exampleWorld prior).files ['s'] = some (ofU8 [0, 0, 7, 8, 9, 0, 0]) ∧ (['s'] : Rs.Path) ≠ ['d'] ∧
    Covers [0, 0, 7, 8, 9, 0, 0] ((exampleWorld prior).dataMap ['s']) :=
  ⟨by simp [exampleWorld], by decide, C14.covers_example⟩

/-- the all-hole layout: no extent at all (the `ENXIO` exit of the seek copier) -/
example (n : Nat) : Covers (zeros n) ([] : List Region) := C14.covers_all_hole n

/-- every content has a `Covers` witness (one extent over the whole file: what a file system that does not track holes
    reports), so the seek theorems are not vacuous for any file -/
theorem covers_whole (content : Bytes) : Covers content [{ offset := 0, length := content.length }] where
  inRange := by intro r hr; simp only [List.mem_singleton] at hr; subst hr; simp
  holesZero := by intro i hi _; exact ⟨_, List.mem_singleton.mpr rfl, by simp, by simpa using hi⟩

/-- sanity of the trusted `lseek` answers on the layout `hole [0,1) · data [1,5) · hole [5,7)`: SEEK_DATA from a hole is
    the start of the next extent, from inside data the offset itself, `none` (ENXIO) when only a hole follows;
    SEEK_HOLE is the end of the extent, the offset itself in a hole; adjacent extents merge and EOF counts as a hole -/
example : seekData [⟨1, 4⟩] 7 0 = some 1 ∧ seekData [⟨1, 4⟩] 7 3 = some 3 ∧ seekData [⟨1, 4⟩] 7 5 = none ∧
    seekHole [⟨1, 4⟩] 7 1 = 5 ∧ seekHole [⟨1, 4⟩] 7 0 = 0 ∧ seekHole [⟨1, 4⟩, ⟨5, 2⟩] 7 1 = 7 := by decide

/-- fuel functions above the file size exist: the translation's own `file_size + 2` -/
example (n : Nat) : n < (· + 2) n := by show n < n + 2; omega

/-- the finding's hypothesis: a file with a non-zero byte -/
example : at0 ([0, 0, 7, 8, 9, 0, 0] : Bytes) 2 ≠ 0 := by decide

/-- the hypothesis of `copy_sparse_file_missing_source` -/
example : (exampleWorld none).files ['x'] = none := by simp [exampleWorld]

/-- end to end on the concrete world, both kinds of file system, destination present before: the destination holds
    the source bytes afterwards -/
example : ∃ w', copy_sparse_file (sparseExt true) ['s'] ['d'] (exampleWorld (some [1, 2, 3])) = (.ok 7, w') ∧
    w'.files ['d'] = some (ofU8 [0, 0, 7, 8, 9, 0, 0]) := by
  have hs : (exampleWorld (some [1, 2, 3])).files ['s'] = some (ofU8 [0, 0, 7, 8, 9, 0, 0]) := by simp [exampleWorld]
  rw [copy_sparse_file_supported _ ['s'] ['d'] [0, 0, 7, 8, 9, 0, 0] hs (by decide) C14.covers_example]
  obtain ⟨w', h1, _, h2⟩ := translated_sparse_local_seek _ ['s'] ['d'] [0, 0, 7, 8, 9, 0, 0] hs (by decide)
    C14.covers_example none
  exact ⟨w', h1, h2.1⟩

example : ∃ w', copy_sparse_file (sparseExt false) ['s'] ['d'] (exampleWorld (some [1, 2, 3])) = (.ok 7, w') ∧
    w'.files ['d'] = some (ofU8 [0, 0, 7, 8, 9, 0, 0]) := by
  have hs : (exampleWorld (some [1, 2, 3])).files ['s'] = some (ofU8 [0, 0, 7, 8, 9, 0, 0]) := by simp [exampleWorld]
  obtain ⟨w', _, h1, h2, _⟩ := copy_sparse_file_unsupported_run _ ['s'] ['d'] [0, 0, 7, 8, 9, 0, 0] hs (by decide)
  exact ⟨w', h1, h2.1⟩

end SyModel.Props.GenSparseCopy
