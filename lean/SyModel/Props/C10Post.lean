/-
  C10 — I/O faults are contained and truthfully reported (second part: the C01 post-condition
  under faults, and containment).  Property theorems only.

  A fault plan `flt : Task → Option (Option DNode)` makes any chosen set of tasks fail, each
  leaving arbitrary garbage (or nothing) at its own path.
-/
import SyModel.Props.C01
import SyModel.Lemmas.EngineContain
namespace SyModel.Props.C10Post
open SyModel SyModel.Engine

/-- **Exit status 0 implies the post-condition of C01**, for every fault plan and error budget. -/
theorem C10_exit_zero_implies_C01 (cfg : Cfg) (hnd : cfg.dryRun = false) (flt : Faults) (scan : List SEntry)
    (dst : Map DNode) (n : Nat) (hu : UniqueRels scan)
    (hdel : cfg.delete = true → ParentClosed scan ∧ dst.get? [] = none)
    (hino : cfg.hardlinks = true → InoConsistent scan)
    (hok : (runF cfg flt scan dst n).exit = 0) :
    ∀ e ∈ scanFilter cfg scan,
      (e.kind = .dir → e.rel ≠ [] → (runF cfg flt scan dst n).dst.get? e.rel = some .dir) ∧
      (∀ m k, e.kind = .file m k → ∃ d, (runF cfg flt scan dst n).dst.get? e.rel = some (.file d) ∧
        (planFileAct cfg m (dst.get? e.rel) ≠ .skip → C01.Carries cfg d m)) ∧
      (∀ text tgt, e.kind = .symlink text tgt → cfg.links = .preserve →
        (runF cfg flt scan dst n).dst.get? e.rel = some (.symlink text)) ∧
      (∀ text m, e.kind = .symlink text (.file m) → cfg.links = .follow →
        ∃ d, (runF cfg flt scan dst n).dst.get? e.rel = some (.file d) ∧
          (planFileAct cfg m (dst.get? e.rel) ≠ .skip → C01.Carries cfg d m)) ∧
      (∀ text tgt, e.kind = .symlink text tgt →
        (cfg.links = .skip ∨ (cfg.links = .follow ∧ ∀ m, tgt ≠ .file m)) → ParentClosed scan →
        (runF cfg flt scan dst n).dst.get? e.rel = dst.get? e.rel) :=
  C01.C01 cfg hnd flt scan dst n hu hdel hino hok

/-- A run that exits 0 under a fault plan *is* the fault-free run: same destination, same events,
    same counters (no fault can have fired, because a fired fault is recorded as an error). -/
theorem exit_zero_is_fault_free (cfg : Cfg) (flt : Faults) (scan : List SEntry) (dst : Map DNode) (n : Nat)
    (hok : (runF cfg flt scan dst n).exit = 0) : runF cfg flt scan dst n = run cfg scan dst n :=
  runF_eq_run_of_exit_zero hok

/-- **Containment.**  Whatever faults hit *other* tasks (any number, any garbage left behind),
    every selected entry whose own operation completed — its action event is in the report —
    satisfies the C01 post-condition in the final destination: garbage of faulted tasks never
    overwrites or removes a correctly transferred entry, and a non-zero exit status does not
    invalidate the entries that were reported as done. -/
theorem fault_contained (cfg : Cfg) (hnd : cfg.dryRun = false) (flt : Faults) (scan : List SEntry)
    (dst : Map DNode) (n : Nat) (hu : UniqueRels scan)
    (hdel : cfg.delete = true → ParentClosed scan ∧ dst.get? [] = none)
    (hino : cfg.hardlinks = true → InoConsistent scan)
    (e : SEntry) (he : e ∈ scanFilter cfg scan)
    (hev : ((planEntry cfg dst e).act, e.rel) ∈ (runF cfg flt scan dst n).events) :
    EntryPost cfg scan dst e ((runF cfg flt scan dst n).dst.get? e.rel) :=
  entryPost_of_event hnd flt scan dst n hu hdel hino he hev

/-- equality of destination nodes up to the inode number of regular files -/
def NodeSim : Option DNode → Option DNode → Prop
  | some (.file d), some (.file d') =>
      d.content = d'.content ∧ d.size = d'.size ∧ d.mtime = d'.mtime ∧ d.xattrs = d'.xattrs
  | a, b => a = b

/-- **Same as the fault-free run.**  For a selected entry whose operation completed both under
    the fault plan and in the fault-free run, the final node at its path is the same in both runs
    (regular files up to the inode number, which depends on how many files were created before). -/
theorem fault_contained_agrees (cfg : Cfg) (hnd : cfg.dryRun = false) (flt : Faults) (scan : List SEntry)
    (dst : Map DNode) (n : Nat) (hu : UniqueRels scan) (hc : ParentClosed scan)
    (hroot : cfg.delete = true → dst.get? [] = none)
    (hino : cfg.hardlinks = true → InoConsistent scan)
    (e : SEntry) (he : e ∈ scanFilter cfg scan) (hne : e.rel ≠ [])
    (hevF : ((planEntry cfg dst e).act, e.rel) ∈ (runF cfg flt scan dst n).events)
    (hev0 : ((planEntry cfg dst e).act, e.rel) ∈ (run cfg scan dst n).events) :
    NodeSim ((runF cfg flt scan dst n).dst.get? e.rel) ((run cfg scan dst n).dst.get? e.rel) := by
  have hdel : cfg.delete = true → ParentClosed scan ∧ dst.get? [] = none := fun h => ⟨hc, hroot h⟩
  have pF := fault_contained cfg hnd flt scan dst n hu hdel hino e he hevF
  have p0 := fault_contained cfg hnd noFaults scan dst n hu hdel hino e he hev0
  have hes := mem_of_mem_scanFilter he
  have fileCase : ∀ m, FilePost cfg dst e m ((runF cfg flt scan dst n).dst.get? e.rel) →
      FilePost cfg dst e m ((runF cfg noFaults scan dst n).dst.get? e.rel) →
      NodeSim ((runF cfg flt scan dst n).dst.get? e.rel) ((runF cfg noFaults scan dst n).dst.get? e.rel) := by
    intro m ⟨d, h1, h2, h3, _⟩ ⟨d', h1', h2', h3', _⟩
    rw [h1, h1']
    by_cases hs : planFileAct cfg m (dst.get? e.rel) = .skip
    · have := (h2 hs).trans (h2' hs).symm
      rw [h1, h1'] at this
      simp only [Option.some.injEq, DNode.file.injEq] at this
      rw [this]; exact ⟨rfl, rfl, rfl, rfl⟩
    · obtain ⟨a, b, c, x⟩ := h3 hs
      obtain ⟨a', b', c', x'⟩ := h3' hs
      exact ⟨a.trans a'.symm, b.trans b'.symm, c.trans c'.symm, x.trans x'.symm⟩
  have eqCase : ∀ {a b : Option DNode}, a = b → NodeSim a b := by
    intro a b h; subst h
    cases a with
    | none => rfl
    | some v => cases v <;> first | rfl | exact ⟨rfl, rfl, rfl, rfl⟩
  unfold run
  cases hk : e.kind with
  | dir => exact eqCase ((pF.dir hk hne).trans (p0.dir hk hne).symm)
  | file m k => exact fileCase m (pF.file m k hk) (p0.file m k hk)
  | symlink text tgt =>
    have hkd : e.kind ≠ .dir := by rw [hk]; simp
    cases hl : cfg.links with
    | preserve => exact eqCase ((pF.link_preserve text tgt hk hl).trans (p0.link_preserve text tgt hk hl).symm)
    | skip =>
      exact eqCase (((pF.link_skip text tgt hk hl).eq hu hc hes hkd).trans
        ((p0.link_skip text tgt hk hl).eq hu hc hes hkd).symm)
    | follow =>
      cases tgt with
      | file m => exact fileCase m (pF.link_follow text m hk hl) (p0.link_follow text m hk hl)
      | dir =>
        exact eqCase (((pF.link_follow_other text _ hk hl (by simp)).eq hu hc hes hkd).trans
          ((p0.link_follow_other text _ hk hl (by simp)).eq hu hc hes hkd).symm)
      | dangling =>
        exact eqCase (((pF.link_follow_other text _ hk hl (by simp)).eq hu hc hes hkd).trans
          ((p0.link_follow_other text _ hk hl (by simp)).eq hu hc hes hkd).symm)

/-- **Containment, strong form.**  Let the fault plan spare the task of a selected entry `e` and
    the tasks at its ancestor directories (every other task may fail in any way and leave any
    garbage).  Then `e`'s operation is reported as done under the fault plan exactly when it is in
    the fault-free run, and the final node at its path is then the same in both runs (regular
    files up to the inode number). -/
theorem fault_contained_strong (cfg : Cfg) (hnd : cfg.dryRun = false) (flt : Faults) (scan : List SEntry)
    (dst : Map DNode) (n : Nat) (hu : UniqueRels scan) (hc : ParentClosed scan)
    (hroot : cfg.delete = true → dst.get? [] = none)
    (hino : cfg.hardlinks = true → InoConsistent scan)
    (e : SEntry) (he : e ∈ scanFilter cfg scan) (hne : e.rel ≠ [])
    (hspare : ∀ t ∈ plan cfg scan dst, isPrefix t.rel e.rel = true → flt t = none) :
    (((planEntry cfg dst e).act, e.rel) ∈ (runF cfg flt scan dst n).events ↔
      ((planEntry cfg dst e).act, e.rel) ∈ (run cfg scan dst n).events) ∧
    (((planEntry cfg dst e).act, e.rel) ∈ (run cfg scan dst n).events →
      NodeSim ((runF cfg flt scan dst n).dst.get? e.rel) ((run cfg scan dst n).dst.get? e.rel)) := by
  have hsp : SparesPath cfg flt (plan cfg scan dst) e.rel := by
    intro t ht hp
    unfold faultOf; split
    · rfl
    · exact hspare t ht hp
  have hsp0 := sparesPath_noFaults cfg (plan cfg scan dst) e.rel
  have hiff : ((planEntry cfg dst e).act, e.rel) ∈ (runF cfg flt scan dst n).events ↔
      ((planEntry cfg dst e).act, e.rel) ∈ (run cfg scan dst n).events := by
    unfold run
    cases hr : (runF cfg flt scan dst n).refused with
    | true =>
      have hr0 : (runF cfg noFaults scan dst n).refused = true := by
        rw [runF_refused_iff] at hr ⊢; exact hr
      rw [runF_refused_events hr, runF_refused_events hr0]
    | false =>
      have hr0 : (runF cfg noFaults scan dst n).refused = false := by
        rw [runF_refused_iff] at hr ⊢; exact hr
      rw [event_iff_taskOk hu he hr, event_iff_taskOk hu he hr0]
      exact ⟨taskOk_transfer hnd flt noFaults n hu hc hroot he hne hsp hsp0,
        taskOk_transfer hnd noFaults flt n hu hc hroot he hne hsp0 hsp⟩
  exact ⟨hiff, fun h0 => fault_contained_agrees cfg hnd flt scan dst n hu hc hroot hino e he hne (hiff.2 h0) h0⟩

/-! ### non-vacuity: a fault on `g` (first name of the hard-link pair) leaving a symlink behind -/

def exFlt : Faults := fun t => if t.rel = ["g"] then some (some (.symlink "garbage")) else none

/-- the run fails (exit ≠ 0) … -/
example : (runF C01.exCfg exFlt exScan exDst 1000).exit = 1 := by decide

/-- … `d/f` was reported as updated and carries the source's data all the same -/
example : ∃ d, (runF C01.exCfg exFlt exScan exDst 1000).dst.get? ["d", "f"] = some (.file d) ∧
    Matches C01.exCfg d (exMeta 1 10 5000000000 3) := by
  have h := fault_contained C01.exCfg rfl exFlt exScan exDst 1000 (by decide)
    (fun _ => ⟨by decide, by decide⟩) (fun _ => exScan_inoConsistent)
    ⟨["d", "f"], .file (exMeta 1 10 5000000000 3) 1, 10, false⟩ (by decide) (by decide)
  obtain ⟨d, h1, _, h3, _⟩ := h.file _ _ rfl
  exact ⟨d, h1, h3 (by decide)⟩

/-- … and the second name `d/h`, which now becomes the first writer of its group, agrees with
    the fault-free run up to the inode number -/
example : NodeSim ((runF C01.exCfg exFlt exScan exDst 1000).dst.get? ["d", "h"])
    ((run C01.exCfg exScan exDst 1000).dst.get? ["d", "h"]) :=
  fault_contained_agrees C01.exCfg rfl exFlt exScan exDst 1000 (by decide) (by decide) (fun _ => by decide)
    (fun _ => exScan_inoConsistent)
    ⟨["d", "h"], .file (exMeta 2 20 7000000000 7) 2, 20, false⟩ (by decide) (by decide) (by decide) (by decide)

/-- the strong form applied: `d/h` is spared by `exFlt` (which hits `g` only) -/
example : ((Act.create, ["d", "h"]) ∈ (runF C01.exCfg exFlt exScan exDst 1000).events ↔
    (Act.create, ["d", "h"]) ∈ (run C01.exCfg exScan exDst 1000).events) :=
  (fault_contained_strong C01.exCfg rfl exFlt exScan exDst 1000 (by decide) (by decide) (fun _ => by decide)
    (fun _ => exScan_inoConsistent)
    ⟨["d", "h"], .file (exMeta 2 20 7000000000 7) 2, 20, false⟩ (by decide) (by decide)
    (by
      intro t ht hp
      have : t.rel ≠ ["g"] := by
        intro h; rw [h] at hp; revert hp; decide
      simp [exFlt, this])).1

example : (runF C01.exCfg noFaults exScan exDst 1000) = run C01.exCfg exScan exDst 1000 :=
  exit_zero_is_fault_free _ _ _ _ _ (by decide)

end SyModel.Props.C10Post
