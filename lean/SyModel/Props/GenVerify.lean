/-
  GenVerify — the TRANSLATED `SyncEngine::verify` (the body of `sy --verify-only`) and
  `SyncEngine::should_filter_by_size` (src/sync/mod.rs, regenerated into `SyModel/Generated/Code/Verify.lean` on every
  run, in the effect monad `Rs.M W = ExceptT Rs.Err (StateM W)` over the externs `Ext W`) compute the handwritten model
  `Engine.verify` / `VCfg.sizeFiltered` (Engine/Verify.lean) that the C15 theorems are about.

  World and instance (Lemmas/GenVerify §2).  `World` = the answer of `transport.scan` per root (a list of entries with
  absolute paths, or the error that aborts the run), a content id per absolute path (`none` = unreadable; content ids
  stand for checksums — collision-freeness is C15's standing assumption) and the reading of the clock.  `inst : Ext World`
  only looks at the world; its `compare_checksums` is faithful to `IntegrityVerifier::compute_file_checksum`: with
  `ChecksumType::None` it answers `Ok(true)` WITHOUT reading, with any real checksum `Ok(a == b)` / `Err`.

  Abstraction (Lemmas/GenVerify §3).  `absEntry w root f : VEntry` = ⟨`pathOf (relOf root f)`, `f.is_dir`,
  `w.content f.path`, `f.size`⟩ where `relOf root f` is literally the code's `path.strip_prefix(root).unwrap_or(&path)`
  and `pathOf` splits a text at `/` — injective on ALL texts (`pathOf_injective`), so no hypothesis "the path lies under
  the root" is needed for the bridge; `cfgOf e = ⟨e.min_size, e.max_size⟩`; `absResult` maps the four path lists with
  `pathOf` and the error records to their paths.

  Results (all for ALL engines, roots, worlds):
    * `should_filter_by_size_eq_model`
    * `verify_never_uses_none`  — for ANY externs: `verify` does not depend on what `compare_checksums` does with a
      verifier whose `checksum_type` is `None`
    * `verify_exec`, `verify_eq_model` — on `inst`, when both scans succeed the run returns `Ok r`, never fails, and
      `absResult r = Engine.verify (cfgOf e) (absScan … S) (absScan … D)`: EQUAL lists, same order (the model's order
      is the scan order); `verify_scan_error_*` — when a scan fails the run fails with that error
    * `verify_read_only_of_ext` (any externs whose operations are read-only, by induction over the loops),
      `verify_read_only` (the instance): the world after the run is the world before, also when the run fails
    * `verify_exit_zero_iff` — C15's headline restated about the translated function.
  No disagreement between code and model was found: see the notes at `verify_eq_model`.
-/
import SyModel.Lemmas.GenVerify
import SyModel.Props.C15
namespace SyModel.Props.GenVerify
open SyModel SyModel.Engine SyModel.Generated SyModel.Generated.Verify SyModel.GenVerify

/-! ### 1. `should_filter_by_size` -/

theorem should_filter_by_size_eq_model (e : SyncEngine) (n : Nat) :
    e.should_filter_by_size n = (cfgOf e).sizeFiltered n := by
  unfold SyncEngine.should_filter_by_size VCfg.sizeFiltered cfgOf
  cases e.min_size <;> cases e.max_size <;> simp only [Id.run, pure] <;> (repeat' split) <;> simp_all

/-! ### 2. the checksum type -/

/-- the verifier `verify` builds: `--checksum`, or verification mode `fast` (= `ChecksumType::None`, no checksum at
    all), select xxh3; otherwise the configured real checksum.  Never `None`. -/
theorem checksum_type_ne_none (e : SyncEngine) :
    (IntegrityVerifier.mk (if (e.checksum || e.verification_mode == ChecksumType.None) = true then ChecksumType.Fast
      else e.verification_mode) false).checksum_type ≠ ChecksumType.None := by
  show (if _ then _ else _) ≠ _
  split
  · exact fun h => nomatch h
  · rename_i h; simp at h; exact h.2

/-- **The verifier passed to `compare_checksums` never has `checksum_type = None`**, stated extensionally for ANY
    externs: two `Ext`s that differ only in what `compare_checksums` does with a `None` verifier give the same `verify`
    (as computations: same result, same effects).  In particular the degenerate comparison "`Checksum::None ==
    Checksum::None`", which would report every pair of files as matching, is unreachable. -/
theorem verify_never_uses_none {W : Type} (ext ext' : Ext W)
    (hnow : ext'.std_time_Instant_now = ext.std_time_Instant_now)
    (hscan : ext'.transport_scan = ext.transport_scan)
    (helapsed : ext'.instant_elapsed = ext.instant_elapsed)
    (hcmp : ∀ e a b v, v.checksum_type ≠ ChecksumType.None →
      ext'.compare_checksums e a b v = ext.compare_checksums e a b v)
    (e : SyncEngine) (s d : Rs.Path) :
    SyncEngine.verify ext' e s d = SyncEngine.verify ext e s d := by
  have key : ∀ a b, ext'.compare_checksums e a b
        ⟨if (e.checksum || e.verification_mode == ChecksumType.None) = true then ChecksumType.Fast
          else e.verification_mode, false⟩ = ext.compare_checksums e a b
        ⟨if (e.checksum || e.verification_mode == ChecksumType.None) = true then ChecksumType.Fast
          else e.verification_mode, false⟩ :=
    fun a b => hcmp _ _ _ _ (checksum_type_ne_none e)
  unfold SyncEngine.verify
  simp only [hnow, hscan, helapsed, key]

/-- the instance with the `None` shortcut removed (every comparison reads both files) -/
def instReal : Ext World := { inst with compare_checksums := fun _ a b _ => reads (fun w => cmpReal w a b) }

/-- on the instance: the `Ok(true)`-without-reading answer of a `None` verifier is never used -/
theorem verify_inst_eq_instReal (e : SyncEngine) (s d : Rs.Path) :
    SyncEngine.verify inst e s d = SyncEngine.verify instReal e s d :=
  verify_never_uses_none instReal inst rfl rfl rfl
    (fun _ a b v hv => by
      show reads (fun w => cmpContents w a b v) = reads (fun w => cmpReal w a b)
      congr 1; funext w; exact cmpContents_real w a b v hv) e s d

/-! ### 3. the run of the translated `verify` on the instance -/

/-- The whole run, for every engine, pair of roots and world in which both scans succeed: it returns `resultG`
    (Lemmas/GenVerify §6: the lists are the source scan filtered by the MODEL's `classify` verdict, in scan order) and
    leaves the world as it was.  The three loops are folded by `exec_forIn_yield`; the loop bodies are never written
    down here (they are found by unification), only what one iteration does (`mapStep`, `accStep`, the push). -/
theorem verify_exec (e : SyncEngine) (s d : Rs.Path) (w : World) (S D : List FileEntry)
    (hs : w.scan s = .ok S) (hd : w.scan d = .ok D) :
    exec (SyncEngine.verify inst e s d) w = (.ok (resultG e w s d S D), w) := by
  unfold SyncEngine.verify
  cases hpm : e.perf_monitor <;>
  · simp only [exec_bind, inst, exec_pure, exec_reads, hs, hd]
    -- first loop: `dest_map`
    rw [exec_forIn_yield D _ (mapStep d) w (by
      intro x _ r; unfold mapStep relOf; split <;> rfl)]
    simp only []
    -- second loop: one source entry
    rw [exec_forIn_yield S _ (fun f => accStep (relOf s f) (verdictOf e w s d D f)) w (by
      intro x _ r
      have hrel : Rs.unwrap_or (Rs.strip_prefix x.path s) x.path = relOf s x := rfl
      simp only [hrel, get_dest_map, verdictOf, classify, absEntry, ← should_filter_by_size_eq_model,
        destFile_absScan]
      cases hdir : x.is_dir with
      | true => simp [accStep, exec_pure]
      | false =>
      cases hf : e.should_filter_by_size x.size with
      | true => simp [accStep, exec_pure]
      | false =>
      cases hdf : destFileG d D (relOf s x) with
      | none => simp [accStep, exec_pure]
      | some g =>
        simp only [Option.map_some, exec_bind, exec_capture, exec_reads, Bool.false_eq_true, ↓reduceIte, absEntry,
          cmpContents_real _ _ _ ⟨_, false⟩ (checksum_type_ne_none e), cmpReal]
        cases w.content x.path with
        | none => cases w.content g.path <;> simp [accStep, exec_pure] <;> rfl
        | some a =>
          cases w.content g.path with
          | none => simp [accStep, exec_pure]; rfl
          | some b =>
            by_cases hab : a = b
            · simp [hab, accStep, exec_pure]
            · simp [hab, beq_false_of_ne hab, accStep, exec_pure])]
    simp only []
    -- third loop: one destination entry
    rw [exec_forIn_yield D _ (fun g acc =>
        if (!g.is_dir && !((S.filter (!·.is_dir)).map (relOf s)).contains (relOf d g)) = true
        then acc ++ [relOf d g] else acc) w (by
      intro x _ r
      have hrel : Rs.unwrap_or (Rs.strip_prefix x.path d) x.path = relOf d x := rfl
      cases hdir : x.is_dir with
      | true => simp [exec_pure]
      | false =>
        have hrel2 : (fun f : FileEntry => Rs.unwrap_or (Rs.strip_prefix f.path s) f.path) = relOf s := rfl
        simp only [hrel, hrel2, Rs.contains, Rs.collect, Rs.map, Rs.filter, Bool.false_eq_true, ↓reduceIte,
          Bool.not_false, Bool.true_and]
        split <;> rfl)]
    simp only [foldl_accStep, foldl_push_if, Nat.zero_add, List.nil_append]
    rfl

/-- the returned record, read through the abstraction, IS the model's result: equal lists in equal order -/
theorem absResult_resultG (e : SyncEngine) (w : World) (s d : Rs.Path) (S D : List FileEntry) :
    absResult (resultG e w s d S D) = Engine.verify (cfgOf e) (absScan w s S) (absScan w d D) := by
  simp only [absResult, resultG, Engine.verify, absScan, verdictOf, List.map_map, List.filter_map, List.length_map,
    VResult.mk.injEq]
  refine ⟨rfl, rfl, rfl, ?_, rfl⟩
  rw [List.filter_filter]
  congr 1
  apply List.filter_congr
  intro g _
  simp only [Function.comp_apply, absEntry]
  rw [← contains_map_pathOf, List.map_map, Bool.and_comm]
  rfl

/-- **`verify_eq_model`.**  For every engine configuration, every pair of roots and every world in which both roots
    can be scanned, the translated `SyncEngine::verify` returns `Ok r` — it never fails: an unreadable file becomes
    an `errors` entry — and `r` abstracts to the model's result on the abstracted scans:
      `r.files_matched = matched`, `r.files_mismatched.map pathOf = mismatched`, … `r.errors.map (pathOf ·.path) =
      errors` — equal LISTS (the model's order is the scan order, and so is the code's: `Vec::push` in a loop over
      the scan);
    every error record has action `"verify"`; `duration` is the clock reading; the world is unchanged.

    No hypothesis on the scans is needed.  In particular code and model agree on
      * duplicate relative paths in the destination scan (`HashMap::insert` is last-wins = `destFile`'s `getLast?`);
      * a directory in the destination at a source file's path (not a counterpart: only-in-source; the map holds
        files only);  a source directory at a destination file's path (only-in-destination);
      * the size filter (applied to the SOURCE entry's size, in the second loop only: a filtered source file is not
        reported at all and its destination twin is not "only in destination");
      * paths outside their root (`strip_prefix` fails, `unwrap_or` keeps the absolute path — both sides alike). -/
theorem verify_eq_model (e : SyncEngine) (s d : Rs.Path) (w : World) (S D : List FileEntry)
    (hs : w.scan s = .ok S) (hd : w.scan d = .ok D) :
    ∃ r, exec (SyncEngine.verify inst e s d) w = (.ok r, w) ∧
      absResult r = Engine.verify (cfgOf e) (absScan w s S) (absScan w d D) ∧
      (∀ x ∈ r.errors, x.action = "verify".toList) ∧ r.duration = w.elapsed :=
  ⟨resultG e w s d S D, verify_exec e s d w S D hs hd, absResult_resultG e w s d S D,
    fun x hx => by
      simp only [resultG, List.mem_map] at hx
      obtain ⟨f, _, rfl⟩ := hx
      rfl,
    rfl⟩

/-- field by field, as the assignment states it -/
theorem verify_eq_model_fields (e : SyncEngine) (s d : Rs.Path) (w : World) (S D : List FileEntry)
    (hs : w.scan s = .ok S) (hd : w.scan d = .ok D) :
    ∃ r, exec (SyncEngine.verify inst e s d) w = (.ok r, w) ∧
      r.files_matched = (Engine.verify (cfgOf e) (absScan w s S) (absScan w d D)).matched ∧
      r.files_mismatched.map pathOf = (Engine.verify (cfgOf e) (absScan w s S) (absScan w d D)).mismatched ∧
      r.files_only_in_source.map pathOf = (Engine.verify (cfgOf e) (absScan w s S) (absScan w d D)).onlySrc ∧
      r.files_only_in_dest.map pathOf = (Engine.verify (cfgOf e) (absScan w s S) (absScan w d D)).onlyDst ∧
      r.errors.map (fun x => pathOf x.path) = (Engine.verify (cfgOf e) (absScan w s S) (absScan w d D)).errors := by
  obtain ⟨r, hr, habs, _⟩ := verify_eq_model e s d w S D hs hd
  refine ⟨r, hr, ?_⟩
  rw [← habs]
  exact ⟨rfl, rfl, rfl, rfl, rfl⟩

/-- a root that cannot be scanned aborts the run with that error (`?`), before anything else happens -/
theorem verify_scan_error_source (e : SyncEngine) (s d : Rs.Path) (w : World) (x : Rs.Err)
    (hs : w.scan s = .error x) : exec (SyncEngine.verify inst e s d) w = (.error x, w) := by
  unfold SyncEngine.verify
  cases hpm : e.perf_monitor <;> simp only [exec_bind, inst, exec_pure, exec_reads, hs]

theorem verify_scan_error_dest (e : SyncEngine) (s d : Rs.Path) (w : World) (S : List FileEntry) (x : Rs.Err)
    (hs : w.scan s = .ok S) (hd : w.scan d = .error x) :
    exec (SyncEngine.verify inst e s d) w = (.error x, w) := by
  unfold SyncEngine.verify
  cases hpm : e.perf_monitor <;> simp only [exec_bind, inst, exec_pure, exec_reads, hs, hd]

/-- `transport`, `perf_monitor`, `checksum`, `verification_mode`, `quiet` do not influence the run: only the two
    size bounds do -/
theorem verify_depends_on_bounds_only (e e' : SyncEngine) (h : cfgOf e = cfgOf e') (s d : Rs.Path) (w : World) :
    exec (SyncEngine.verify inst e s d) w = exec (SyncEngine.verify inst e' s d) w := by
  cases hs : w.scan s with
  | error x => rw [verify_scan_error_source e s d w x hs, verify_scan_error_source e' s d w x hs]
  | ok S =>
    cases hd : w.scan d with
    | error x => rw [verify_scan_error_dest e s d w S x hs hd, verify_scan_error_dest e' s d w S x hs hd]
    | ok D =>
      rw [verify_exec e s d w S D hs hd, verify_exec e' s d w S D hs hd]
      simp only [resultG, verdictOf, h]

/-! ### 4. read-only -/

/-- **For ANY externs whose four operations leave the world alone, `verify` leaves the world alone** — whatever it
    returns, also when a scan fails.  Structural: `bind`, `if`, `match`, `capture` and (by induction over the list)
    `for` loops preserve `ReadOnly`; the translated body contains nothing else. -/
theorem verify_read_only_of_ext {W : Type} (ext : Ext W) (h : ExtReadOnly ext) (e : SyncEngine) (s d : Rs.Path) :
    ReadOnly (SyncEngine.verify ext e s d) := by
  unfold SyncEngine.verify
  repeat' first
    | exact h.now _ | exact h.scan _ _ | exact h.elapsed _
    | exact ReadOnly.capture (h.cmp _ _ _ _)
    | exact ReadOnly.pure _
    | apply ReadOnly.bind
    | apply ReadOnly.forIn
    | apply ReadOnly.ite
    | intro _
    | split
    | dsimp only

/-- **C15, "never modifies either tree"**: the world after `verify` equals the world before, for every engine, pair
    of roots and world -/
theorem verify_read_only (e : SyncEngine) (s d : Rs.Path) (w : World) :
    (exec (SyncEngine.verify inst e s d) w).2 = w :=
  (verify_read_only_of_ext inst inst_readOnly e s d).same w

/-! ### 5. C15 about the translated function -/

/-- unique relative paths in a scan (generated side) give the model's `UniqueRels` -/
theorem uniqueRels_absScan (w : World) (root : Rs.Path) (l : List FileEntry) (h : (l.map (relOf root)).Nodup) :
    UniqueRels (absScan w root l) := by
  unfold UniqueRels absScan
  rw [List.map_map]
  unfold List.Nodup at *
  rw [List.pairwise_map] at *
  exact h.imp fun hne hp => hne (pathOf_injective hp)

/-- **`sy --verify-only` (the translated `verify`, no size bounds, relative paths of the destination scan unique, all
    files readable) yields exit status 0 iff source and destination hold the same files with identical contents.**
    `exitCode` is src/main.rs:405-415 (`errors` non-empty → 2; any of the three lists non-empty → 1; else 0), which
    reads the result only through `is_empty`, i.e. through `absResult`. -/
theorem verify_exit_zero_iff (e : SyncEngine) (s d : Rs.Path) (w : World) (S D : List FileEntry)
    (hs : w.scan s = .ok S) (hd : w.scan d = .ok D)
    (hnb : e.min_size = none ∧ e.max_size = none)
    (huniq : (D.map (relOf d)).Nodup)
    (hread : ∀ f ∈ S ++ D, f.is_dir = false → w.content f.path ≠ none) :
    ∃ r, exec (SyncEngine.verify inst e s d) w = (.ok r, w) ∧
      (exitCode (absResult r) = 0 ↔
        (∀ f ∈ S, f.is_dir = false →
          ∃ g ∈ D, relOf d g = relOf s f ∧ g.is_dir = false ∧ w.content g.path = w.content f.path) ∧
        (∀ g ∈ D, g.is_dir = false → ∃ f ∈ S, relOf s f = relOf d g ∧ f.is_dir = false)) := by
  obtain ⟨r, hr, habs, _⟩ := verify_eq_model e s d w S D hs hd
  refine ⟨r, hr, ?_⟩
  have hcfg : cfgOf e = noBounds := by unfold cfgOf noBounds; rw [hnb.1, hnb.2]
  have hread' : ∀ v ∈ absScan w s S ++ absScan w d D, v.isDir = false → v.content ≠ none := by
    intro v hv hvd
    rcases List.mem_append.mp hv with h | h <;> obtain ⟨f, hf, rfl⟩ := List.mem_map.mp h
    · exact hread f (List.mem_append_left _ hf) hvd
    · exact hread f (List.mem_append_right _ hf) hvd
  rw [habs, hcfg, C15.verify_exit_zero_iff _ _ (uniqueRels_absScan w d D huniq) hread']
  constructor
  · rintro ⟨h1, h2⟩
    refine ⟨fun f hf hfd => ?_, fun g hg hgd => ?_⟩
    · obtain ⟨g', hg', hrel, hgd, hc⟩ := h1 (absEntry w s f) (List.mem_map_of_mem hf) hfd
      obtain ⟨g, hg, rfl⟩ := List.mem_map.mp hg'
      exact ⟨g, hg, pathOf_injective hrel, hgd, hc⟩
    · obtain ⟨f', hf', hrel, hfd⟩ := h2 (absEntry w d g) (List.mem_map_of_mem hg) hgd
      obtain ⟨f, hf, rfl⟩ := List.mem_map.mp hf'
      exact ⟨f, hf, pathOf_injective hrel, hfd⟩
  · rintro ⟨h1, h2⟩
    refine ⟨fun a ha had => ?_, fun b hb hbd => ?_⟩
    · obtain ⟨f, hf, rfl⟩ := List.mem_map.mp ha
      obtain ⟨g, hg, hrel, hgd, hc⟩ := h1 f hf had
      exact ⟨absEntry w d g, List.mem_map_of_mem hg, congrArg pathOf hrel, hgd, hc⟩
    · obtain ⟨g, hg, rfl⟩ := List.mem_map.mp hb
      obtain ⟨f, hf, hrel, hfd⟩ := h2 g hg hbd
      exact ⟨absEntry w s f, List.mem_map_of_mem hf, congrArg pathOf hrel, hfd⟩

/-- the same with the hypothesis a real scan satisfies: every destination path lies under the destination root and is
    listed once (then the relative paths are unique: `nodup_relOf_of_underRoot`) -/
theorem verify_exit_zero_iff_of_underRoot (e : SyncEngine) (s d : Rs.Path) (w : World) (S D : List FileEntry)
    (hs : w.scan s = .ok S) (hd : w.scan d = .ok D)
    (hnb : e.min_size = none ∧ e.max_size = none)
    (hunder : ∀ g ∈ D, UnderRoot d g.path) (honce : (D.map (·.path)).Nodup)
    (hread : ∀ f ∈ S ++ D, f.is_dir = false → w.content f.path ≠ none) :
    ∃ r, exec (SyncEngine.verify inst e s d) w = (.ok r, w) ∧
      (exitCode (absResult r) = 0 ↔
        (∀ f ∈ S, f.is_dir = false →
          ∃ g ∈ D, relOf d g = relOf s f ∧ g.is_dir = false ∧ w.content g.path = w.content f.path) ∧
        (∀ g ∈ D, g.is_dir = false → ∃ f ∈ S, relOf s f = relOf d g ∧ f.is_dir = false)) :=
  verify_exit_zero_iff e s d w S D hs hd hnb (nodup_relOf_of_underRoot d D hunder honce) hread

/-! ### 6. non-vacuity: a world satisfying every hypothesis above, and the translated code RUN on it

  source `/s`: file `a` (content 1), directory `x`, file `x/b` (content 2);
  destination `/d`: file `a` (content 9), FILE `x` (content 4), file `z` (content 5), file `u` (unreadable) — and the
  source has an unreadable `u` too.  This is C15's `exSrc`/`exDst` plus the unreadable pair. -/

def mkEntry (p : String) (dir : Bool) (size : Nat) : FileEntry :=
  { (default : FileEntry) with path := p.toList, is_dir := dir, size := size }

def exS : List FileEntry := [mkEntry "/s/a" false 3, mkEntry "/s/x" true 0, mkEntry "/s/x/b" false 5, mkEntry "/s/u" false 1]
def exD : List FileEntry := [mkEntry "/d/a" false 3, mkEntry "/d/x" false 1, mkEntry "/d/z" false 1, mkEntry "/d/u" false 1]

def exWorld : World where
  scan r := if r = "/s".toList then .ok exS else if r = "/d".toList then .ok exD else .error .io
  content p :=
    if p = "/s/a".toList then some 1 else if p = "/s/x/b".toList then some 2
    else if p = "/d/a".toList then some 9 else if p = "/d/x".toList then some 4
    else if p = "/d/z".toList then some 5 else none
  elapsed := 7

def exEngine : SyncEngine :=
  { transport := {}, perf_monitor := none, checksum := false, verification_mode := .None, quiet := false,
    min_size := none, max_size := none }

/-- the translated `verify`, executed by the kernel (verification mode `fast` = `ChecksumType::None`: still compares) -/
example : (exec (SyncEngine.verify inst exEngine "/s".toList "/d".toList) exWorld).1 =
    .ok { files_matched := 0, files_mismatched := ["a".toList], files_only_in_source := ["x/b".toList],
          files_only_in_dest := ["x".toList, "z".toList], errors := [verifyError "u".toList], duration := 7 } := by
  rfl

example : exWorld.scan "/s".toList = .ok exS ∧ exWorld.scan "/d".toList = .ok exD := ⟨rfl, rfl⟩
example : exEngine.min_size = none ∧ exEngine.max_size = none := ⟨rfl, rfl⟩
example : (exD.map (relOf "/d".toList)).Nodup := by decide
example : ∀ g ∈ exD, UnderRoot "/d".toList g.path := by
  intro g hg
  simp only [exD, List.mem_cons, List.not_mem_nil, or_false] at hg
  rcases hg with rfl | rfl | rfl | rfl
  · exact .inr ⟨"a".toList, by decide, by decide⟩
  · exact .inr ⟨"x".toList, by decide, by decide⟩
  · exact .inr ⟨"z".toList, by decide, by decide⟩
  · exact .inr ⟨"u".toList, by decide, by decide⟩
example : (exD.map (·.path)).Nodup := by decide
/-- readability (hypothesis `hread` of `verify_exit_zero_iff`) holds for the world without the unreadable pair -/
example : ∀ f ∈ exS.dropLast ++ exD.dropLast, f.is_dir = false → exWorld.content f.path ≠ none := by decide
/-- the model on the abstraction of the same world (what `verify_eq_model` says the run above abstracts to) -/
example : Engine.verify (cfgOf exEngine) (absScan exWorld "/s".toList exS) (absScan exWorld "/d".toList exD) =
    { matched := 0, mismatched := [["a"]], onlySrc := [["x", "b"]], onlyDst := [["x"], ["z"]], errors := [["u"]] } := by
  decide
/-- the instance is a read-only `Ext` (hypothesis of `verify_read_only_of_ext`) -/
example : ExtReadOnly inst := inst_readOnly

end SyModel.Props.GenVerify
