/-
  C04 — Delta encoding reconstructs the new file exactly for every old/new pair.
  Property theorems only; helper lemmas live in `SyModel/Lemmas`.
-/
import SyModel.Lemmas.Adler
import SyModel.Lemmas.Delta
import SyModel.Lemmas.Stream
import SyModel.Generated.Consts
namespace SyModel.Props.C04
open SyModel SyModel.Delta

/-! ### side conditions on the constants extracted from the Rust source on this run -/

/-- the model's modulus is the code's `MOD_ADLER`. -/
theorem consts_ok_mod : Generated.MOD_ADLER = MOD := by decide

/-- `calculate_block_size` never exceeds the streaming `CHUNK_SIZE` (needed by `genStream_reconstructs`). -/
theorem consts_ok_chunk : Generated.BLOCK_SIZE_MAX ≤ Generated.STREAM_CHUNK_SIZE := by decide

/-- the largest block size cannot wrap `n * old` in `u32` (needed by `adler_roll_window`). -/
theorem consts_ok_adler : Generated.BLOCK_SIZE_MAX * 255 < 4294967296 := by decide

theorem consts_ok_block_min : 0 < Generated.BLOCK_SIZE_MIN := by decide

/-! ### rolling checksum -/

/-- After any number `k` of roll steps the rolling state equals the directly computed
    checksum state of the current window `d[k .. k+n)`. -/
theorem adler_roll_window (d : Bytes) (n k : Nat) (hn : 0 < n) (hov : n * 255 < 4294967296)
    (hk : k + n ≤ d.length) :
    (rollN n (Adler.ofBlock (d.take n)) d k).digest = hashBytes ((d.drop k).take n) := by
  rw [rollN_window n hn hov k d hk]; rfl

/-- … in particular for every block size sy can choose (`calculate_block_size` ≤ 128 KiB). -/
theorem adler_roll_window_sy (d : Bytes) (n k : Nat) (hn : 0 < n) (hmax : n ≤ Generated.BLOCK_SIZE_MAX)
    (hk : k + n ≤ d.length) :
    (rollN n (Adler.ofBlock (d.take n)) d k).digest = hashBytes ((d.drop k).take n) := by
  apply adler_roll_window d n k hn _ hk
  have h1 := consts_ok_adler
  have h2 : n * 255 ≤ Generated.BLOCK_SIZE_MAX * 255 := Nat.mul_le_mul_right 255 hmax
  exact Nat.lt_of_le_of_lt h2 h1

/-- No intermediate value of `roll` leaves `u32` (so modelling it in `Nat` is exact), given a
    state in range. -/
theorem adler_no_wrap (n : Nat) (s : Adler) (old new : UInt8) (ha : s.a < MOD) (hb : s.b < MOD) :
    s.a + MOD * 2 - old.toNat + new.toNat < 4294967296 ∧
    s.b + MOD * 3 - wrap32 (wrap32 n * old.toNat) % MOD + (Adler.roll n s old new).a - 1 < 4294967296 ∧
    (Adler.roll n s old new).a < MOD ∧ (Adler.roll n s old new).b < MOD := by
  have hx : old.toNat < 256 := old.toNat_lt
  have hy : new.toNat < 256 := new.toNat_lt
  have h1 : wrap32 (wrap32 n * old.toNat) % MOD < MOD := Nat.mod_lt _ (by unfold MOD; omega)
  have h2 : (Adler.roll n s old new).a < MOD := Nat.mod_lt _ (by unfold MOD; omega)
  have h3 : (Adler.roll n s old new).b < MOD := Nat.mod_lt _ (by unfold MOD; omega)
  simp only [MOD] at *
  refine ⟨by omega, by omega, h2, h3⟩

/-! ### block checksums -/

/-- Every entry of `checksums` describes a real, in-range slice of `old`, block-aligned, of
    full size except possibly the last. -/
theorem checksums_cover {H} (strong : Bytes → H) (old : Bytes) (bs : Nat) :
    ∀ c ∈ checksums strong bs old, BlockOK strong old bs c :=
  checksums_ok strong old bs

/-! ### reconstruction -/

/-- In-memory generator: applying the generated delta to `old` yields exactly `new`. -/
theorem genMem_reconstructs {H} [BEq H] (strong : Bytes → H) (old new : Bytes) (bs : Nat)
    (h : 0 < bs) (hc : NoCollision strong old new bs) :
    applyOps old (genMem strong (checksums strong bs old) bs new) = some new := by
  unfold genMem
  exact genMemGo_spec strong old new _ bs h (candidatesSound_of_noCollision strong old new bs hc)
    new _ [] [] [] (by simp [applyOps]) (by simp)

/-- Streaming generator, for every window size `chunk ≥ bs`. -/
theorem genStream_reconstructs {H} [BEq H] (strong : Bytes → H) (old new : Bytes) (bs chunk : Nat)
    (h : 0 < bs) (hchunk : bs ≤ chunk) (hc : NoCollision strong old new bs) :
    ∃ ops, genStream strong (checksums strong bs old) bs chunk new = some ops ∧
      applyOps old ops = some new := by
  unfold genStream
  rw [dif_pos h]
  refine ⟨_, rfl, ?_⟩
  obtain ⟨inv, hhead⟩ := sinit_inv old new bs chunk h hchunk
  exact genStreamGo_spec strong old new _ bs chunk h hchunk
    (candidatesSound_of_noCollision strong old new bs hc) _ [] inv hhead

/-- … in particular with the code's `CHUNK_SIZE` and every block size `calculate_block_size` yields. -/
theorem genStream_reconstructs_sy {H} [BEq H] (strong : Bytes → H) (old new : Bytes) (bs : Nat)
    (h : 0 < bs) (hmax : bs ≤ Generated.BLOCK_SIZE_MAX) (hc : NoCollision strong old new bs) :
    ∃ ops, genStream strong (checksums strong bs old) bs Generated.STREAM_CHUNK_SIZE new = some ops ∧
      applyOps old ops = some new :=
  genStream_reconstructs strong old new bs _ h (Nat.le_trans hmax consts_ok_chunk) hc

/-- Copy operations only reference ranges inside `old` (both generators). -/
theorem copies_in_range_mem {H} [BEq H] (strong : Bytes → H) (old new : Bytes) (bs : Nat)
    (h : 0 < bs) (hc : NoCollision strong old new bs) :
    ∀ off sz, Op.copy off sz ∈ genMem strong (checksums strong bs old) bs new → sz = 0 ∨ off + sz ≤ old.length :=
  copies_in_range_of_apply old _ new (genMem_reconstructs strong old new bs h hc)

theorem copies_in_range_stream {H} [BEq H] (strong : Bytes → H) (old new : Bytes) (bs chunk : Nat)
    (h : 0 < bs) (hchunk : bs ≤ chunk) (hc : NoCollision strong old new bs) :
    ∀ ops, genStream strong (checksums strong bs old) bs chunk new = some ops →
      ∀ off sz, Op.copy off sz ∈ ops → sz = 0 ∨ off + sz ≤ old.length := by
  intro ops hops
  obtain ⟨ops', h1, h2⟩ := genStream_reconstructs strong old new bs chunk h hchunk hc
  rw [hops] at h1; cases h1
  exact copies_in_range_of_apply old _ new h2

/-! ### non-vacuity: the hypotheses are satisfiable on non-trivial inputs -/

/-- with an injective strong hash (`id`) `NoCollision` holds for every pair. -/
theorem noCollision_id (old new : Bytes) (bs : Nat) : NoCollision (H := Bytes) id old new bs := by
  intro c _ w _ h
  simpa using h

example : applyOps [1, 2, 3, 4, 5, 6, 7] (genMem (H := Bytes) id (checksums id 3 [1, 2, 3, 4, 5, 6, 7]) 3
    [9, 4, 5, 6, 1, 2, 3, 7, 7]) = some [9, 4, 5, 6, 1, 2, 3, 7, 7] :=
  genMem_reconstructs id _ _ 3 (by decide) (noCollision_id _ _ _)

end SyModel.Props.C04
