/-
  C09 — Crash safety: killing sy at any instant loses nothing and a re-run converges.
  Property theorems only; the model is `SyModel/Engine/Steps.lean`, helper lemmas live in
  `SyModel/Lemmas/Steps*.lean`.

  A crash state is `applyAll (σ.take k) w` for ANY interleaving `σ` of the task step lists and ANY
  `k` (process death between two mutating system calls; power loss / page-cache loss is outside the
  model).  The destination tree is the only state of the model: steps have no source-side paths,
  so "the source is unchanged" is C02's theorem, not restated here.

  Status: `crash_untouched`, `crash_large_update_atomic` (temp + rename route), `crash_temp_only_garbage`,
  `recovery_removes_temp` hold for every route.  `no_torn_accepted` holds for every route except the
  `set_len`-first sparse block copier (`no_torn_accepted_counterexample_sparse_setlen`, finding
  `C09/sparse-setlen-torn-accepted`).  Updates of ≥-threshold destinations that do NOT go through
  temp + rename (sparse source, change ratio > 75 %, followed link) are rewritten in place:
  `crash_large_update_atomic_counterexample_inplace` (finding `C09/large-update-rewritten-in-place`,
  DESIGN §7 #17).
-/
import SyModel.Lemmas.StepsCrash
import SyModel.Props.C05
set_option linter.unusedVariables false
namespace SyModel.Props.C09
open SyModel SyModel.Engine

/-! ### constants -/

/-- the comparison tolerance the model's `mtimeMatches` uses is the source's (strategy.rs) -/
theorem consts_ok_tolerance : Generated.MTIME_TOLERANCE_SECS = 1 := by decide
/-- sparse sources are larger than the zero-size corner of the `set_len`-first copier -/
theorem consts_ok_sparse_threshold : 0 < Generated.SPARSE_THRESHOLD_LOCAL := by decide

/-! ### paths nobody is working on -/

/-- For pairwise independent step lists, any interleaving `σ`, any crash index `k`: there is a
    progress vector `g` (how far each task got: `(done, rest)` per task, the done parts interleave to
    the executed prefix) such that every path touched by no started-but-unfinished task holds its
    initial or its final node.  Paths touched only by shared `mkdir`s or only by deletions hold the
    initial or the final node whoever is in flight. -/
theorem crash_untouched {ls : List (List Step)} (hind : PairwiseIndep ls) {σ : List Step}
    (hσ : Interleaving ls σ) (k : Nat) (w : SWorld) :
    ∃ g : Progress Step, g.wholes = ls ∧ Interleaving g.dones (σ.take k) ∧
      ∀ x, (∀ d ∈ g, touchesList (d.1 ++ d.2) x → d.1 = [] ∨ d.2 = []) →
        applyAll (σ.take k) w x = w x ∨ applyAll (σ.take k) w x = applyAll σ w x :=
  crash_untouched_gen hind hσ k w

/-- A path that one task owns holds, in every crash state, what a prefix of that task's own list
    makes of the INITIAL world (the same prefix for all paths the task owns). -/
theorem crash_local {pre post : List (List Step)} {L σ : List Step}
    (hind : PairwiseIndep (pre ++ L :: post)) (hσ : Interleaving (pre ++ L :: post) σ) (k : Nat)
    (w : SWorld) :
    ∃ n, ∀ x, (∀ l ∈ pre ++ post, ∀ s ∈ l, s.touches x = false) →
      applyAll (σ.take k) w x = applyAll (L.take n) w x :=
  crash_task_local hind hσ k w

section plan
variable {cfg : Cfg} {thr ch : Nat} {sfx : String} {hint : Task → Hint} {tasks : List Task}
  {dst : Map DNode}

/-- exclusivity of a task's own path and temp path, and the common prefix -/
private theorem own_prefix (hok : PlanOK tasks) (hf : TempFresh sfx tasks (ofMap dst)) {σ : List Step}
    (hσ : Interleaving (taskLists cfg thr ch sfx hint dst tasks) σ) (k : Nat) {t : Task}
    (ht : t ∈ tasks) (hnl : isLinkTask cfg t = false) :
    ∃ n, ∀ x, (∃ s ∈ stepsOfH cfg thr ch sfx (hint t) (dst.get? t.rel) t, s.touches x = true ∧
        s.isMkdir = false ∧ s.isDeletion = false) →
      applyAll (σ.take k) (ofMap dst) x =
        applyAll ((stepsOfH cfg thr ch sfx (hint t) (dst.get? t.rel) t).take n) (ofMap dst) x := by
  have hind := taskLists_indep (cfg := cfg) (thr := thr) (ch := ch) hok hf hint dst
  obtain ⟨a, b, hls, _⟩ := taskLists_split (cfg := cfg) (thr := thr) (ch := ch) (sfx := sfx)
    (hint := hint) (dst := dst) hok.uniq ht hnl
  rw [hls] at hσ hind
  obtain ⟨n, hn⟩ := crash_task_local hind hσ k (ofMap dst)
  exact ⟨n, fun x ⟨s, hs, hx, hm, hd⟩ => hn x (exclusive_of_step hind hs hx hm hd)⟩

/-- **Large updates are atomic.**  A destination file updated through temp + rename holds, at every
    crash point of every interleaving, exactly its old node or its complete new node
    `file content size mtime` — never a mix, and with the source's mtime as soon as it is new. -/
theorem crash_large_update_atomic (hok : PlanOK tasks) (hf : TempFresh sfx tasks (ofMap dst))
    {σ : List Step} (hσ : Interleaving (taskLists cfg thr ch sfx hint dst tasks) σ) (k : Nat)
    {t : Task} (ht : t ∈ tasks) (hnl : isLinkTask cfg t = false)
    (hu : usesDelta cfg thr (hint t) (dst.get? t.rel) t = true) :
    ∃ m n d, t.payload = .file m n ∧ dst.get? t.rel = some (.file d) ∧ thr ≤ d.size ∧
      (applyAll (σ.take k) (ofMap dst) t.rel = some (.file d.content d.size d.mtime) ∨
       applyAll (σ.take k) (ofMap dst) t.rel = some (.file m.content m.size m.mtime)) := by
  obtain ⟨m, n, d, hpay, hact, hold, hsz, hL⟩ := stepsOfH_delta (ch := ch) (sfx := sfx) hu
  refine ⟨m, n, d, hpay, hold, hsz, ?_⟩
  have hmd : t.mayDelta := ⟨hact, by simp [hpay, Payload.isFile]⟩
  have hq : tempOf sfx t.rel ≠ t.rel := by
    intro h; have := hf.notPlanned t ht hmd t ht; rw [h, isPrefix_refl] at this; cases this
  have hwp : ofMap dst t.rel = some (.file d.content d.size d.mtime) := by
    unfold ofMap; rw [hold]; rfl
  obtain ⟨n', hn⟩ := own_prefix (cfg := cfg) (thr := thr) (ch := ch) hok hf hσ k ht hnl
  rw [hn t.rel ⟨Step.unlinkIfSymlink t.rel, by rw [hL]; simp, by simp [Step.touches], rfl, rfl⟩, hL]
  rcases delta_prefix_dest sfx t.rel m (ofMap dst) d hwp hq n' with h | h
  · left; rw [h, hwp]
  · right; exact h

/-- **Classification of crash states.**  At every path, in every crash state, the node is the
    initial one, the final one, or `Garbage` of one task: nothing (old entry unlinked, new one not yet
    created), a torn file (first `l ≤ size` bytes of the NEW content, mtime = time of the run) or a
    `set_len`-first holey file at the path of a file being copied in place, or the working file at
    the temp path of a temp + rename update. -/
theorem crash_temp_only_garbage (hok : PlanOK tasks) (hf : TempFresh sfx tasks (ofMap dst))
    {σ : List Step} (hσ : Interleaving (taskLists cfg thr ch sfx hint dst tasks) σ) (k : Nat)
    (x : Path) :
    applyAll (σ.take k) (ofMap dst) x = ofMap dst x ∨
    applyAll (σ.take k) (ofMap dst) x = applyAll σ (ofMap dst) x ∨
    ∃ t ∈ tasks, isLinkTask cfg t = false ∧
      Garbage cfg thr sfx (hint t) (dst.get? t.rel) t x (applyAll (σ.take k) (ofMap dst) x) := by
  have hind := taskLists_indep (cfg := cfg) (thr := thr) (ch := ch) hok hf hint dst
  rcases touch_classes hind x with ⟨pre, L, post, hls, hothers⟩ | hM | hD
  · have hLmem : L ∈ taskLists cfg thr ch sfx hint dst tasks := by rw [hls]; simp
    obtain ⟨t, ht, hnl, hL⟩ := mem_taskLists hLmem
    have hN := hσ.toShuffleN
    rw [hls] at hσ hind hN
    obtain ⟨n, hn⟩ := crash_task_local hind hσ k (ofMap dst)
    rw [hn x hothers, crash_owned hind hN x hothers, hL]
    rcases task_prefix (cfg := cfg) (thr := thr) (ch := ch) (sfx := sfx) (h := hint t)
        (old := dst.get? t.rel) (t := t) (ofMap dst) rfl n x with h | h | h
    · exact Or.inl h
    · exact Or.inr (Or.inl h)
    · exact Or.inr (Or.inr ⟨t, ht, hnl, h⟩)
  · rcases crash_absorbing hσ x _ (absorbs_class_mkdir hM) k (ofMap dst) with h | h
    · exact Or.inl h
    · exact Or.inr (Or.inl h)
  · rcases crash_absorbing hσ x _ (absorbs_class_deletion hD) k (ofMap dst) with h | h
    · exact Or.inl h
    · exact Or.inr (Or.inl h)

/-- what `Garbage` can be at the task's own path -/
private theorem garbage_at_dest {h : Hint} {old : Option DNode} {t : Task} {x : Path}
    {v : Option SNode} (hg : Garbage cfg thr sfx h old t x v) (hx : x = t.rel)
    (hq : usesDelta cfg thr h old t = true → tempOf sfx t.rel ≠ t.rel) :
    v = none ∨ (∃ m n l, t.payload = .file m n ∧ l ≤ m.size ∧ v = some (.file m.content l h.now)) ∨
    (∃ m n d, t.payload = .file m n ∧ h.route = .sparseBlocks ∧
      v = some (.holey m.content m.size d h.now)) := by
  cases hg with
  | gone => exact Or.inl rfl
  | torn l hp hl => exact Or.inr (Or.inl ⟨_, _, l, hp, hl, rfl⟩)
  | holey d hp hr hd h0 => exact Or.inr (Or.inr ⟨_, _, d, hp, hr, rfl⟩)
  | temp hp hu => exact absurd hx (hq hu)

/-- **No torn file is ever accepted as up to date** (key lemma).  For a file task with source meta
    `m` (create or update, any route but the `set_len`-first sparse copier), in every crash state of
    every interleaving: if the node at its path looks like a regular file whose (size, mtime) the
    comparison rule `c` accepts — `needsUpdate c … = false`, i.e. size equal (default, size-only)
    and mtime within tolerance (default) — then it IS the complete new file.  Sizes only reach the
    source's when the data is complete.

    Hypotheses and what they exclude:
    * `hinit` — the node the task started from is not accepted by `c` (the task was planned as
      create/update by that very rule).  Excludes: judging the crash state with a laxer rule than
      the one that planned the run (e.g. planned with `--checksum`, re-run with the default rule:
      an old same-size, same-mtime, different-content file is then "accepted" before and after).
    * `hroute` — the route is not `sparseBlocks`, OR the rule is the default one and the time of
      the run is NOT within the mtime tolerance of the source's mtime.  Excludes exactly the finding
      `C09/sparse-setlen-torn-accepted` below.
    No hypothesis on `now` is needed for the other routes: a torn file has a smaller size. -/
theorem no_torn_accepted (hok : PlanOK tasks) (hf : TempFresh sfx tasks (ofMap dst))
    {σ : List Step} (hσ : Interleaving (taskLists cfg thr ch sfx hint dst tasks) σ) (k : Nat)
    {t : Task} (ht : t ∈ tasks) (hnl : isLinkTask cfg t = false) {m : FileMeta} {nl : Nat}
    (hpay : t.payload = .file m nl) (hact : t.act = .create ∨ t.act = .update)
    (hdry : cfg.dryRun = false) (c : Compare)
    (hinit : ∀ n0 s0 t0, ofMap dst t.rel = some n0 → n0.stat = some (s0, t0) →
      needsUpdate c m.size m.mtime s0 t0 = true)
    (hroute : (hint t).route ≠ .sparseBlocks ∨
      (c = .default ∧ mtimeMatches m.mtime (hint t).now = false))
    (v : SNode) (sz mt : Nat) (hv : applyAll (σ.take k) (ofMap dst) t.rel = some v)
    (hstat : v.stat = some (sz, mt)) (hacc : needsUpdate c m.size m.mtime sz mt = false) :
    v = .file m.content m.size mt := by
  have hsteps : ∃ s ∈ stepsOfH cfg thr ch sfx (hint t) (dst.get? t.rel) t,
      s.touches t.rel = true ∧ s.isMkdir = false ∧ s.isDeletion = false := by
    refine ⟨Step.unlinkIfSymlink t.rel, ?_, by simp [Step.touches], rfl, rfl⟩
    unfold stepsOfH
    simp only [hdry, hpay, Bool.false_eq_true, ↓reduceIte]
    rcases hact with ha | ha
    · simp [ha, fullCopySteps]
    · simp only [ha]; split
      · simp [fullCopySteps]
      · simp
  obtain ⟨n, hn⟩ := own_prefix (cfg := cfg) (thr := thr) (ch := ch) hok hf hσ k ht hnl
  rw [hn t.rel hsteps] at hv
  have hq : usesDelta cfg thr (hint t) (dst.get? t.rel) t = true → tempOf sfx t.rel ≠ t.rel := by
    intro hu h
    obtain ⟨m', n', d, hp', ha', _, _, _⟩ := stepsOfH_delta (ch := ch) (sfx := sfx) hu
    have hmd : t.mayDelta := ⟨ha', by simp [hp', Payload.isFile]⟩
    have := hf.notPlanned t ht hmd t ht; rw [h, isPrefix_refl] at this; cases this
  -- the node the whole list leaves, if it is accepted, is the complete new file
  have hfinal : applyAll (stepsOfH cfg thr ch sfx (hint t) (dst.get? t.rel) t) (ofMap dst) t.rel = some v →
      v = .file m.content m.size mt := by
    intro hfin
    cases hu : usesDelta cfg thr (hint t) (dst.get? t.rel) t with
    | true =>
      obtain ⟨m', n', d, hp', _, hold, _, hL⟩ := stepsOfH_delta (ch := ch) (sfx := sfx) hu
      rw [hpay] at hp'; cases hp'
      have hwp : ofMap dst t.rel = some (.file d.content d.size d.mtime) := by
        unfold ofMap; rw [hold]; rfl
      have h3 := delta_prefix_dest sfx t.rel m (ofMap dst) d hwp (hq hu) 3
      rw [List.take_of_length_le (by simp [deltaSteps]), ← hL, hfin] at h3
      rcases h3 with h | h
      · have := hinit v sz mt h.symm hstat; rw [this] at hacc; cases hacc
      · cases h; simp [SNode.stat] at hstat; rw [hstat.2]
    | false =>
      have hdel : t.act ≠ .delete := by rcases hact with h | h <;> simp [h]
      have hsingle := allSingle_mem (stepsOfH_allSingle (ch := ch) (sfx := sfx) hu hdel)
      have hseg := file_task_seg (ch := ch) (sfx := sfx) hpay hu hdry hact (ofMap dst t.rel) True
        (fun _ => trivial)
      rw [applyAll_single _ hsingle] at hfin
      rcases (hseg _ (Or.inl rfl)).2 with ⟨_, h⟩ | ⟨_, h⟩
      · rw [hfin] at h; cases h; simp [SNode.stat] at hstat
      · rw [hfin] at h; cases h; simp [SNode.stat] at hstat; rw [hstat.2]
  rcases task_prefix (cfg := cfg) (thr := thr) (ch := ch) (sfx := sfx) (h := hint t)
      (old := dst.get? t.rel) (t := t) (ofMap dst) rfl n t.rel with h | h | h
  · rw [hv] at h
    have := hinit v sz mt h.symm hstat; rw [this] at hacc; cases hacc
  · rw [hv] at h; exact hfinal h.symm
  · rw [hv] at h
    rcases garbage_at_dest h rfl hq with h0 | ⟨m', n', l, hp', hl, h1⟩ | ⟨m', n', d, hp', hr, h1⟩
    · cases h0
    · rw [hpay] at hp'; cases hp'
      cases h1
      simp only [SNode.stat, Option.some.injEq, Prod.mk.injEq] at hstat
      have := accepted_size hacc
      rw [hstat.1, hstat.2, this]
    · rw [hpay] at hp'; cases hp'
      cases h1
      simp only [SNode.stat, Option.some.injEq, Prod.mk.injEq] at hstat
      rcases hroute with hr' | ⟨hc, hm⟩
      · exact absurd hr hr'
      · subst hc
        rw [← hstat.2] at hacc
        simp [needsUpdate, hm] at hacc

/-- the working files of a crash state belong to interrupted temp + rename updates whose
    destination still holds its old node -/
theorem crash_temp_is_inflight_delta (hok : PlanOK tasks) (hf : TempFresh sfx tasks (ofMap dst))
    {σ : List Step} (hσ : Interleaving (taskLists cfg thr ch sfx hint dst tasks) σ) (k : Nat)
    (x : Path) (c : Nat) (hx : applyAll (σ.take k) (ofMap dst) x = some (.temp c)) :
    ∃ t ∈ tasks, isLinkTask cfg t = false ∧
      usesDelta cfg thr (hint t) (dst.get? t.rel) t = true ∧ x = tempOf sfx t.rel ∧
      applyAll (σ.take k) (ofMap dst) t.rel = ofMap dst t.rel := by
  have hind := taskLists_indep (cfg := cfg) (thr := thr) (ch := ch) hok hf hint dst
  have hnt : NoTemp (ofMap dst) := by
    intro y c' h
    unfold ofMap at h
    cases hg : dst.get? y with
    | none => simp [hg] at h
    | some n => cases n <;> simp [hg, embed] at h
  rcases crash_temp_only_garbage (cfg := cfg) (thr := thr) (ch := ch) hok hf hσ k x with h | h | ⟨t, ht, hnl, hg⟩
  · rw [hx] at h; exact absurd h.symm (hnt x c)
  · rw [hx] at h
    exact absurd h.symm (run_no_temp hind hσ (ofMap dst) x (Or.inl (hnt x)) c)
  · rw [hx] at hg
    have key : ∀ {y : Path} {v : Option SNode},
        Garbage cfg thr sfx (hint t) (dst.get? t.rel) t y v → v = some (.temp c) →
        usesDelta cfg thr (hint t) (dst.get? t.rel) t = true ∧ y = tempOf sfx t.rel := by
      intro y v hg hv
      cases hg with
      | gone => cases hv
      | torn => cases hv
      | holey => cases hv
      | temp hp hu => exact ⟨hu, rfl⟩
    obtain ⟨hu, hxq⟩ := key hg rfl
    refine ⟨t, ht, hnl, hu, hxq, ?_⟩
    obtain ⟨m, n, d, hpay, hact, hold, _, hL⟩ := stepsOfH_delta (ch := ch) (sfx := sfx) hu
    have hmd : t.mayDelta := ⟨hact, by simp [hpay, Payload.isFile]⟩
    have hq : tempOf sfx t.rel ≠ t.rel := by
      intro h; have := hf.notPlanned t ht hmd t ht; rw [h, isPrefix_refl] at this; cases this
    have hwp : ofMap dst t.rel = some (.file d.content d.size d.mtime) := by
      unfold ofMap; rw [hold]; rfl
    obtain ⟨n', hn⟩ := own_prefix (cfg := cfg) (thr := thr) (ch := ch) hok hf hσ k ht hnl
    have hp := hn t.rel ⟨Step.unlinkIfSymlink t.rel, by rw [hL]; simp, by simp [Step.touches], rfl, rfl⟩
    have hqq := hn (tempOf sfx t.rel) ⟨Step.createTemp (tempOf sfx t.rel) m.content,
      by rw [hL]; simp [deltaSteps], by simp [Step.touches], rfl, rfl⟩
    rw [hp, hL]
    rw [← hxq, hx, hL] at hqq
    rw [hxq] at hqq
    exact delta_prefix_joint sfx t.rel m (ofMap dst) d hwp hq n' c (hnt _) hqq.symm

/-- the planner's decision for an entry depends only on the destination node at its path: a
    re-run that finds the old node of an interrupted temp + rename update plans the same task -/
theorem replan_unchanged (cfg : Cfg) (dst dst' : Map DNode) (e : SEntry)
    (h : dst'.get? e.rel = dst.get? e.rel) : planEntry cfg dst' e = planEntry cfg dst e := by
  unfold planEntry; rw [h]

/-- **Recovery removes every working file.**  Take any crash state of a first run; run the command
    again to completion from that state, in any interleaving, with whatever it plans
    (`tasks2`/`dst2`/`hint2`) — as long as it re-plans the interrupted temp + rename updates whose
    destination is unchanged (which it does: `replan_unchanged`, the destination node is all the
    planner looks at).  Then the re-run's own `createTemp` truncates each left-over working file
    and its `rename` moves it away: no working file remains. -/
theorem recovery_removes_temp (hok : PlanOK tasks) (hf : TempFresh sfx tasks (ofMap dst))
    {σ : List Step} (hσ : Interleaving (taskLists cfg thr ch sfx hint dst tasks) σ) (k : Nat)
    {tasks2 : List Task} {dst2 : Map DNode} {hint2 : Task → Hint}
    (hind2 : PairwiseIndep (taskLists cfg thr ch sfx hint2 dst2 tasks2)) {σ2 : List Step}
    (hσ2 : Interleaving (taskLists cfg thr ch sfx hint2 dst2 tasks2) σ2)
    (hreplan : ∀ t ∈ tasks, isLinkTask cfg t = false →
      usesDelta cfg thr (hint t) (dst.get? t.rel) t = true →
      applyAll (σ.take k) (ofMap dst) t.rel = ofMap dst t.rel →
      t ∈ tasks2 ∧ usesDelta cfg thr (hint2 t) (dst2.get? t.rel) t = true) :
    NoTemp (applyAll σ2 (applyAll (σ.take k) (ofMap dst))) := by
  intro x c
  apply run_no_temp hind2 hσ2 _ x
  by_cases hx : ∃ c', applyAll (σ.take k) (ofMap dst) x = some (.temp c')
  · obtain ⟨c', hx⟩ := hx
    obtain ⟨t, ht, hnl, hu, hxq, hdest⟩ :=
      crash_temp_is_inflight_delta (cfg := cfg) (thr := thr) (ch := ch) hok hf hσ k x c' hx
    obtain ⟨h1, h2⟩ := hreplan t ht hnl hu hdest
    exact Or.inr ⟨t, h1, hnl, h2, hxq⟩
  · left; intro c' h; exact hx ⟨c', h⟩

/-- **C09** (model level).  For the non-link tasks of any well-laid-out plan (`PlanOK`, `TempFresh`),
    every interleaving `σ`, every crash index `k`, with `w' := applyAll (σ.take k) (ofMap dst)`:
    1. every node of `w'` is initial, final or classified `Garbage` of one task;
    2. every destination updated through temp + rename holds its old or its complete new node;
    3. no torn file at the path of an in-place file task is accepted by the rule that planned it
       (routes other than the `set_len`-first sparse copier);
    4. every completed re-run that re-plans the interrupted temp + rename updates leaves no working
       file. -/
theorem C09 (hok : PlanOK tasks) (hf : TempFresh sfx tasks (ofMap dst))
    {σ : List Step} (hσ : Interleaving (taskLists cfg thr ch sfx hint dst tasks) σ) (k : Nat) :
    (∀ x, applyAll (σ.take k) (ofMap dst) x = ofMap dst x ∨
        applyAll (σ.take k) (ofMap dst) x = applyAll σ (ofMap dst) x ∨
        ∃ t ∈ tasks, isLinkTask cfg t = false ∧
          Garbage cfg thr sfx (hint t) (dst.get? t.rel) t x (applyAll (σ.take k) (ofMap dst) x)) ∧
    (∀ t ∈ tasks, isLinkTask cfg t = false → usesDelta cfg thr (hint t) (dst.get? t.rel) t = true →
      ∃ m n d, t.payload = .file m n ∧ dst.get? t.rel = some (.file d) ∧ thr ≤ d.size ∧
        (applyAll (σ.take k) (ofMap dst) t.rel = some (.file d.content d.size d.mtime) ∨
         applyAll (σ.take k) (ofMap dst) t.rel = some (.file m.content m.size m.mtime))) ∧
    (∀ t ∈ tasks, isLinkTask cfg t = false → ∀ m nl, t.payload = .file m nl →
      (t.act = .create ∨ t.act = .update) → cfg.dryRun = false → ∀ c : Compare,
      (∀ n0 s0 t0, ofMap dst t.rel = some n0 → n0.stat = some (s0, t0) →
        needsUpdate c m.size m.mtime s0 t0 = true) →
      (hint t).route ≠ .sparseBlocks →
      ∀ v sz mt, applyAll (σ.take k) (ofMap dst) t.rel = some v → v.stat = some (sz, mt) →
        needsUpdate c m.size m.mtime sz mt = false → v = .file m.content m.size mt) ∧
    (∀ (tasks2 : List Task) (dst2 : Map DNode) (hint2 : Task → Hint) (σ2 : List Step),
      PairwiseIndep (taskLists cfg thr ch sfx hint2 dst2 tasks2) →
      Interleaving (taskLists cfg thr ch sfx hint2 dst2 tasks2) σ2 →
      (∀ t ∈ tasks, isLinkTask cfg t = false →
        usesDelta cfg thr (hint t) (dst.get? t.rel) t = true →
        applyAll (σ.take k) (ofMap dst) t.rel = ofMap dst t.rel →
        t ∈ tasks2 ∧ usesDelta cfg thr (hint2 t) (dst2.get? t.rel) t = true) →
      NoTemp (applyAll σ2 (applyAll (σ.take k) (ofMap dst)))) := by
  refine ⟨fun x => crash_temp_only_garbage hok hf hσ k x,
    fun t ht hnl hu => crash_large_update_atomic hok hf hσ k ht hnl hu,
    fun t ht hnl m nl hpay hact hdry c hinit hroute v sz mt hv hstat hacc =>
      no_torn_accepted hok hf hσ k ht hnl hpay hact hdry c hinit (Or.inl hroute) v sz mt hv hstat hacc,
    fun tasks2 dst2 hint2 σ2 hind2 hσ2 hre => recovery_removes_temp hok hf hσ k hind2 hσ2 hre⟩

end plan


/-! ### the two paths that are not crash safe -/

theorem single_interleaving (L : List Step) : Interleaving [L] L :=
  (ShuffleN.cons .nil Shuffle.nil_right).toInterleaving

namespace Finding
/-- destination: a 12 MiB file; source: a newer 12 MiB version (same size), mtime 9.0 s -/
def dst : Map DNode := [(["big"], .file ⟨30, 12582912, 5, [], 1⟩)]
def m : FileMeta := ⟨3, 12582912, 9000000000, [], 13⟩
def t : Task := ⟨.update, ["big"], .file m 1⟩
/-- the run happens 0.5 s after the source was last written -/
def hintSparse : Task → Hint := fun _ => { route := .sparseBlocks, now := 9500000000 }
def hintRatio : Task → Hint := fun _ => { route := .full, now := 20000000000 }
def chunk : Nat := 4194304

end Finding

theorem finding_planOK : PlanOK [Finding.t] := ⟨by decide, by decide, by decide⟩
theorem finding_tempFresh : TempFresh Generated.TEMP_SUFFIX [Finding.t] (ofMap Finding.dst) :=
  ⟨by decide, by decide⟩

open Finding in
/-- `C09/sparse-setlen-torn-accepted` (known finding).  `copy_sparse_file_blocks` (local.rs:129-170,
    reached for a sparse source when `lseek(SEEK_DATA)` answers EINVAL, destination ≥ 10 MiB) removes
    the destination, recreates it and `set_len`s it to the FINAL size before writing any data.
    Killed right after that `ftruncate`, the destination is a file of the source's size, all zeros,
    with mtime = time of the run.  If the run happens within the 2 s mtime tolerance of the source's
    mtime (a sparse image / database file that was just written), the default rule — and the
    size-only rule at any time — accepts it: `needsUpdate` is false although the content is
    incomplete.  Every hypothesis of `no_torn_accepted` except `hroute` holds. -/
theorem no_torn_accepted_counterexample_sparse_setlen :
    let ls := taskLists C05.cfg0 Generated.DELTA_THRESHOLD chunk Generated.TEMP_SUFFIX hintSparse dst [t]
    let σ := stepsOfH C05.cfg0 Generated.DELTA_THRESHOLD chunk Generated.TEMP_SUFFIX (hintSparse t) (dst.get? t.rel) t
    let v : SNode := .holey 3 12582912 0 9500000000
    Interleaving ls σ ∧
    (∀ n0 s0 t0, ofMap dst t.rel = some n0 → n0.stat = some (s0, t0) →
      needsUpdate .default m.size m.mtime s0 t0 = true) ∧
    applyAll (σ.take 4) (ofMap dst) t.rel = some v ∧
    v.stat = some (12582912, 9500000000) ∧
    needsUpdate .default m.size m.mtime 12582912 9500000000 = false ∧
    needsUpdate .sizeOnly m.size m.mtime 12582912 9500000000 = false ∧
    v ≠ .file m.content m.size 9500000000 := by
  intro ls σ v
  refine ⟨single_interleaving _, ?_, by decide, by decide, by decide, by decide, by decide⟩
  intro n0 s0 t0 h0 hs
  have : ofMap dst t.rel = some (.file 30 12582912 5) := by decide
  rw [this] at h0; cases h0
  simp only [SNode.stat, Option.some.injEq, Prod.mk.injEq] at hs
  rw [← hs.1, ← hs.2]; decide

/-- `no_torn_accepted_partial`: with the default rule, even the `set_len`-first copier is safe when
    the run is not within the mtime tolerance of the source's mtime; and every other route is safe
    unconditionally (this is `no_torn_accepted` with the two alternatives of `hroute` spelled out). -/
theorem no_torn_accepted_partial {cfg : Cfg} {thr ch : Nat} {sfx : String} {hint : Task → Hint}
    {tasks : List Task} {dst : Map DNode} (hok : PlanOK tasks) (hf : TempFresh sfx tasks (ofMap dst))
    {σ : List Step} (hσ : Interleaving (taskLists cfg thr ch sfx hint dst tasks) σ) (k : Nat)
    {t : Task} (ht : t ∈ tasks) (hnl : isLinkTask cfg t = false) {m : FileMeta} {nl : Nat}
    (hpay : t.payload = .file m nl) (hact : t.act = .create ∨ t.act = .update)
    (hdry : cfg.dryRun = false)
    (hinit : ∀ n0 s0 t0, ofMap dst t.rel = some n0 → n0.stat = some (s0, t0) →
      needsUpdate .default m.size m.mtime s0 t0 = true)
    (hclock : (hint t).route = .sparseBlocks → mtimeMatches m.mtime (hint t).now = false)
    (v : SNode) (sz mt : Nat) (hv : applyAll (σ.take k) (ofMap dst) t.rel = some v)
    (hstat : v.stat = some (sz, mt)) (hacc : needsUpdate .default m.size m.mtime sz mt = false) :
    v = .file m.content m.size mt := by
  apply no_torn_accepted hok hf hσ k ht hnl hpay hact hdry .default hinit _ v sz mt hv hstat hacc
  by_cases hr : (hint t).route = .sparseBlocks
  · exact Or.inr ⟨rfl, hclock hr⟩
  · exact Or.inl hr

open Finding in
/-- `C09/large-update-rewritten-in-place` (DESIGN §7 #17).  When the ≥ 10 MiB update does not go
    through temp + rename — change ratio above 75 % (`fs::copy` in place), sparse source
    (remove + recreate), followed symlink — the destination is truncated and rewritten in place:
    killed after the `open(O_TRUNC)` it holds neither its old nor its new content (here: empty). -/
theorem crash_large_update_atomic_counterexample_inplace :
    let ls := taskLists C05.cfg0 Generated.DELTA_THRESHOLD chunk Generated.TEMP_SUFFIX hintRatio dst [t]
    let σ := stepsOfH C05.cfg0 Generated.DELTA_THRESHOLD chunk Generated.TEMP_SUFFIX (hintRatio t) (dst.get? t.rel) t
    Interleaving ls σ ∧
    dst.get? t.rel = some (.file ⟨30, 12582912, 5, [], 1⟩) ∧ Generated.DELTA_THRESHOLD ≤ 12582912 ∧
    usesDelta C05.cfg0 Generated.DELTA_THRESHOLD (hintRatio t) (dst.get? t.rel) t = false ∧
    applyAll (σ.take 2) (ofMap dst) t.rel = some (.file 3 0 20000000000) ∧
    applyAll (σ.take 2) (ofMap dst) t.rel ≠ some (.file 30 12582912 5) ∧
    applyAll (σ.take 2) (ofMap dst) t.rel ≠ some (.file m.content m.size m.mtime) := by
  intro ls σ
  exact ⟨single_interleaving _, by decide, by decide, by decide, by decide, by decide, by decide⟩

/-- `crash_large_update_atomic_partial`: the atomicity clause holds exactly for the temp + rename
    route (`usesDelta`), which is `crash_large_update_atomic`; with the default hint every update of
    a destination file of at least the threshold takes that route. -/
theorem crash_large_update_atomic_partial (cfg : Cfg) (thr : Nat) (t : Task) (m : FileMeta) (n : Nat)
    (d : FileMeta) (hdry : cfg.dryRun = false) (hact : t.act = .update) (hpay : t.payload = .file m n)
    (hsz : thr ≤ d.size) :
    usesDelta cfg thr {} (some (.file d)) t = true := by
  unfold usesDelta
  simp [hdry, hact, hpay]
  omega

/-! ### non-vacuity: the example plan of C05 (create `d`, `d/a`, `d/b`; temp + rename update of `big`) -/

namespace Example
open C05.Example

def σ : List Step := lists.flatten
end Example

theorem example_interleaving : Interleaving C05.Example.lists Example.σ :=
  C05.seq_is_interleaving C05.Example.lists

namespace Example
open C05.Example

/-- crash after 15 steps: `d/a`, `d/b` complete, `big` untouched, its working file in place -/
example : applyAll (σ.take 15) (ofMap dst) ["big"] = some (.file 30 6000 5) ∧
    applyAll (σ.take 15) (ofMap dst) ["big.sy.tmp"] = some (.temp 3) ∧
    applyAll (σ.take 15) (ofMap dst) ["d", "a"] = some (.file 1 2500 100) := by decide

/-- crash after 5 steps: `d/a` is torn (1000 of 2500 bytes) and NOT accepted by the default rule -/
example : applyAll (σ.take 5) (ofMap dst) ["d", "a"] = some (.file 1 1000 0) ∧
    needsUpdate .default 2500 100 1000 0 = true := by decide

/-- the hypotheses of `no_torn_accepted` are satisfiable (task `d/a` of the example, every crash
    index): whatever is accepted at `d/a` is the complete file -/
example (k : Nat) (v : SNode) (sz mt : Nat)
    (hv : applyAll (σ.take k) (ofMap dst) ["d", "a"] = some v) (hstat : v.stat = some (sz, mt))
    (hacc : needsUpdate .default 2500 100 sz mt = false) : v = .file 1 2500 mt := by
  have ht : (⟨.create, ["d", "a"], .file ⟨1, 2500, 100, [], 11⟩ 1⟩ : Task) ∈ tasks := by decide
  exact no_torn_accepted (cfg := C05.cfg0) (thr := 5000) (ch := 1000) (hint := fun _ => {})
    C05.example_planOK C05.example_tempFresh example_interleaving k ht (by decide) rfl (Or.inl rfl) rfl .default
    (by intro n0 s0 t0 h0; have : ofMap dst ["d", "a"] = none := by decide
        rw [this] at h0; cases h0)
    (Or.inl (by decide)) v sz mt hv hstat hacc

/-- re-running the same plan from ANY crash state of the example leaves no working file -/
example (k : Nat) (σ2 : List Step) (hσ2 : Interleaving lists σ2) :
    NoTemp (applyAll σ2 (applyAll (σ.take k) (ofMap dst))) :=
  recovery_removes_temp (cfg := C05.cfg0) (thr := 5000) (ch := 1000) (hint := fun _ => {})
    C05.example_planOK C05.example_tempFresh example_interleaving k
    (taskLists_indep (cfg := C05.cfg0) (thr := 5000) (ch := 1000) C05.example_planOK C05.example_tempFresh (fun _ => {}) dst)
    hσ2 (fun t ht _ hu _ => ⟨ht, hu⟩)

/-- `big` is old or new at every crash index of the example -/
example (k : Nat) :
    applyAll (σ.take k) (ofMap dst) ["big"] = some (.file 30 6000 5) ∨
    applyAll (σ.take k) (ofMap dst) ["big"] = some (.file 3 7000 9000000000) := by
  have ht : (⟨.update, ["big"], .file ⟨3, 7000, 9000000000, [], 13⟩ 1⟩ : Task) ∈ tasks := by decide
  obtain ⟨m, n, d, hp, hd, _, h⟩ := crash_large_update_atomic (cfg := C05.cfg0) (thr := 5000)
    (ch := 1000) (hint := fun _ => {}) C05.example_planOK C05.example_tempFresh example_interleaving k ht (by decide) (by decide)
  have hd' : dst.get? ["big"] = some (.file ⟨30, 6000, 5, [], 1⟩) := by decide
  simp only at hp hd
  rw [hd'] at hd; cases hd; cases hp
  exact h
end Example

end SyModel.Props.C09
