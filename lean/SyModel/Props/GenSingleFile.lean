/-
  GenSingleFile — the TRANSLATED `SyncEngine::sync_single_file` (src/sync/mod.rs, regenerated into
  `SyModel/Generated/Code/SingleFile.lean` on every run, in the effect monad `Rs.M W = ExceptT Rs.Err (StateM W)` over
  the externs `Ext W`: clock, `path_metadata`, `t_exists`, `transferrer_create`, `transferrer_update`,
  `verify_transfer`, `should_exclude`).

  Everything in Parts 0–3 holds for ALL engines, paths, worlds and for ANY instance `ext : Ext W` (the operations do
  whatever they do, may fail, may change the world).  `runM x w` = (result, world afterwards) (Lemmas/GenTransfer).
  "X is never called" is stated extensionally: replacing the operation by an ARBITRARY other function gives the same
  run (same result, same final world), the style of `verify_never_uses_none` in Props/GenVerify.

  Part 0  `sync_single_file_is_structured` — the generated do-block is the structured program `singleSpec`
          (Lemmas/GenSingleFile §1: probe → finish | exists → metadata → create/update → verify → finish).
  Part 1  C16 (single-file clause) / C03: `filtered_run`, `filtered_never_transfers`, `filtered_stats`,
          `unfiltered_run`, `no_dest_never_calls_update`, `dest_exists_never_calls_create`,
          `dest_exists_always_updates` (finding `C03/single-file-mode-always-rewrites`), `entryOf_fields`.
  Part 2  C19 / C10: `stats_bookkeeping`, `verification_outcome`, `verified_only_if_verify_ok`,
          `metadata_error_propagates`, `exists_error_propagates`, `create_error_propagates`, `update_error_propagates`,
          `no_file_name_fails`, `failure_sources`.
  Part 3  C08: `dry_run_never_verifies`, `mode_none_never_verifies`, `transferrer_carries_dry_run`,
          `single_file_dry_run_changes_nothing` (composition with the TRANSLATED `Transferrer::create/update` of the
          unit Transfer through `withTransfer`, using `GenTransfer.dry_run_changes_nothing`).
  Part 4  C16 model: `should_filter_by_size_eq_model`, `single_file_decision_eq_model`,
          `model_empty_never_transfers`, `model_nonempty_transfers`, `excludeOfFilter_is_model` (the abstraction of
          `should_exclude` is met by the TRANSLATED `SyncEngine::should_exclude` of the unit Filter).
  Part 5  non-vacuity: a world that LOGS every call, and the translated function run on it by the kernel.
-/
import SyModel.Lemmas.GenSingleFile
import SyModel.Props.GenTransfer
import SyModel.Props.GenFilter
import SyModel.Props.C16
set_option linter.unusedVariables false
namespace SyModel.Props.GenSingleFile
open SyModel SyModel.Generated SyModel.Generated.SingleFile SyModel.GenSingleFile
open SyModel.Lemmas.GenTransfer (runM runM_bind runM_bind_ok runM_bind_error runM_pure)

section anyInstance
variable {W : Type} (ext : Ext W) (self : SyncEngine) (s d : Rs.Path)

/-! ## Part 0 — the normal form -/

/-- the generated function, as a computation, IS the structured program (any instance) -/
theorem sync_single_file_is_structured :
    SyncEngine.sync_single_file ext self s d = singleSpec ext self s d :=
  sync_single_file_eq_spec ext self s d

/-! ## Part 1 — filtering (C16), create versus update (C03) -/

/-- "the run reaches the filter test": the clock answered `t`, the source has the file name `name`, `metadata()`
    answered `md`, `should_exclude(name, false)` answered `ex`, and the world is now `w3` -/
def ReachesFilter (w : W) (t : Rs.Opaque) (name : Rs.Str) (md : Rs.Metadata) (ex : Bool) (w3 : W) : Prop :=
  Rs.path_file_name s = some name ∧ ∃ w1 w2, runM (ext.std_time_Instant_now ()) w = (.ok t, w1) ∧
    runM (ext.path_metadata s) w1 = (.ok md, w2) ∧ runM (ext.should_exclude self name false) w2 = (.ok ex, w3)

theorem ReachesFilter.probe {ext : Ext W} {self : SyncEngine} {s : Rs.Path} {w w3 : W} {t name md ex}
    (h : ReachesFilter ext self s w t name md ex w3) :
    runM (probe ext self s) w = (.ok (t, ex || self.should_filter_by_size md.size), w3) := by
  obtain ⟨hn, w1, w2, hnow, hmd, hex⟩ := h
  exact probe_run ext self s hnow hn hmd hex

/-- **Filtered ⇒ only the clock is read again.**  When `should_exclude(name, false)` answers true OR the size bound
    rejects `metadata().len()`, the rest of the run is `start_time.elapsed()` and nothing else: the right-hand side
    mentions neither `transferrer_create` nor `transferrer_update` nor `verify_transfer` nor `t_exists`, and the
    statistics are the initial ones. -/
theorem filtered_run {w w3 : W} {t name md ex} (h : ReachesFilter ext self s w t name md ex w3)
    (hf : ex = true ∨ self.should_filter_by_size md.size = true) :
    runM (SyncEngine.sync_single_file ext self s d) w =
      match runM (ext.instant_elapsed t) w3 with
      | (.ok el, w4) => (.ok { stats0 with duration := el }, w4)
      | (.error e, w4) => (.error e, w4) := by
  have hflt : (ex || self.should_filter_by_size md.size) = true := by
    rcases hf with h | h <;> simp [h]
  rw [sync_single_file_eq_spec]
  unfold singleSpec
  rw [runM_bind_ok h.probe]
  simp only [hflt, if_true]
  exact finish_run ext t stats0 w3

/-- the same, extensionally: whatever `create`, `update`, `verify_transfer` are replaced with, the run is the same -/
theorem filtered_never_transfers {w w3 : W} {t name md ex} (h : ReachesFilter ext self s w t name md ex w3)
    (hf : ex = true ∨ self.should_filter_by_size md.size = true)
    (c u : Transferrer → FileEntry → Rs.Path → Rs.M W (Option TransferResult))
    (v : IntegrityVerifier → Rs.Path → Rs.Path → Rs.M W Bool) :
    runM (SyncEngine.sync_single_file
        { ext with transferrer_create := c, transferrer_update := u, verify_transfer := v } self s d) w =
      runM (SyncEngine.sync_single_file ext self s d) w := by
  rw [filtered_run ext self s d h hf,
    filtered_run { ext with transferrer_create := c, transferrer_update := u, verify_transfer := v } self s d
      (w := w) (w3 := w3) (t := t) (name := name) (md := md) (ex := ex) h hf]

/-- and what a filtered run reports: nothing created, updated, transferred or verified -/
theorem filtered_stats {w w3 wf : W} {t name md ex} (h : ReachesFilter ext self s w t name md ex w3)
    (hf : ex = true ∨ self.should_filter_by_size md.size = true) {st : SyncStats}
    (hok : runM (SyncEngine.sync_single_file ext self s d) w = (.ok st, wf)) :
    st.files_scanned = 1 ∧ st.files_created = 0 ∧ st.files_updated = 0 ∧ st.bytes_transferred = 0 ∧
      st.files_verified = 0 ∧ st.verification_failures = 0 ∧ st.errors = [] := by
  rw [filtered_run ext self s d h hf] at hok
  rcases hel : runM (ext.instant_elapsed t) w3 with ⟨_ | el, w4⟩ <;> rw [hel] at hok <;> cases hok
  exact ⟨rfl, rfl, rfl, rfl, rfl, rfl, rfl⟩

/-- the operation the transfer step calls: `update` when `exists(destination)` answered true, else `create` -/
def transferOp (de : Bool) : Transferrer → FileEntry → Rs.Path → Rs.M W (Option TransferResult) :=
  if de then ext.transferrer_update else ext.transferrer_create
/-- the statistics after it -/
def transferStats (de : Bool) (r : Option TransferResult) : SyncStats := if de then updateStats r else createStats r

/-- **Not filtered ⇒ exactly one of `create` / `update`, chosen by `exists(destination)`.**  After the filter test
    let both pass, `exists(destination)` answered `de` and the SECOND `metadata()` answered `md'`: the rest of the run
    is ONE call `transferOp de` with the executor `transferrerOf self` (the engine's own flags, empty hard-link map) and
    the entry `entryOf s name md'` (`path` = the source, `relative_path` = its file name, `size`/`modified` from that
    second `metadata()` — see `entryOf_fields`), then the verification phase, then the clock. -/
theorem unfiltered_run {w w3 w4 w5 : W} {t name md md'} {de : Bool}
    (h : ReachesFilter ext self s w t name md false w3)
    (hsz : self.should_filter_by_size md.size = false)
    (hde : runM (ext.t_exists self.transport d) w3 = (.ok de, w4))
    (hmd : runM (ext.path_metadata s) w4 = (.ok md', w5)) :
    runM (SyncEngine.sync_single_file ext self s d) w =
      runM (transferOp ext de (transferrerOf self) (entryOf s name md') d >>= fun r =>
            verifyPhase ext self s d (transferStats de r) >>= fun st => finish ext t st) w5 := by
  rw [sync_single_file_eq_spec]
  unfold singleSpec
  rw [runM_bind_ok h.probe]
  simp only [hsz, Bool.or_self, Bool.false_eq_true, if_false]
  unfold transferPhase
  rw [runM_bind, transferStep_run ext self s d hde hmd h.1]
  cases de <;> simp only [Bool.false_eq_true, if_false, if_true, transferOp, transferStats]
  · rw [runM_bind, runM_bind (ext.transferrer_create _ _ _)]
    rcases runM (ext.transferrer_create (transferrerOf self) (entryOf s name md') d) w5 with ⟨_ | _, _⟩ <;> rfl
  · rw [runM_bind, runM_bind (ext.transferrer_update _ _ _)]
    rcases runM (ext.transferrer_update (transferrerOf self) (entryOf s name md') d) w5 with ⟨_ | _, _⟩ <;> rfl

/-- what `create`/`update` are handed -/
theorem entryOf_fields (name : Rs.Str) (md : Rs.Metadata) :
    (entryOf s name md).path = s ∧ (entryOf s name md).relative_path = name ∧ (entryOf s name md).size = md.size ∧
      (entryOf s name md).modified = md.mtime ∧ (entryOf s name md).is_dir = false ∧
      (entryOf s name md).is_symlink = false ∧ (entryOf s name md).nlink = 1 ∧ (entryOf s name md).inode = none ∧
      (entryOf s name md).xattrs = none :=
  ⟨rfl, rfl, rfl, rfl, rfl, rfl, rfl, rfl, rfl⟩

theorem transferrerOf_fields :
    (transferrerOf self).transport = self.transport ∧ (transferrerOf self).dry_run = self.dry_run ∧
      (transferrerOf self).diff_mode = self.diff_mode ∧ (transferrerOf self).symlink_mode = self.symlink_mode ∧
      (transferrerOf self).preserve_hardlinks = self.preserve_hardlinks ∧ (transferrerOf self).hardlink_map = [] :=
  ⟨rfl, rfl, rfl, rfl, rfl, rfl⟩

/-- no destination ⇒ `update` is never called (whatever it is replaced with) -/
theorem no_dest_never_calls_update {w w3 w4 w5 : W} {t name md md'}
    (h : ReachesFilter ext self s w t name md false w3) (hsz : self.should_filter_by_size md.size = false)
    (hde : runM (ext.t_exists self.transport d) w3 = (.ok false, w4))
    (hmd : runM (ext.path_metadata s) w4 = (.ok md', w5))
    (u : Transferrer → FileEntry → Rs.Path → Rs.M W (Option TransferResult)) :
    runM (SyncEngine.sync_single_file { ext with transferrer_update := u } self s d) w =
      runM (SyncEngine.sync_single_file ext self s d) w := by
  rw [unfiltered_run ext self s d h hsz hde hmd,
    unfiltered_run { ext with transferrer_update := u } self s d (w := w) (w3 := w3) (w4 := w4) (w5 := w5) (t := t)
      (name := name) (md := md) (md' := md') (de := false) h hsz hde hmd]
  rfl

/-- the destination exists ⇒ `create` is never called -/
theorem dest_exists_never_calls_create {w w3 w4 w5 : W} {t name md md'}
    (h : ReachesFilter ext self s w t name md false w3) (hsz : self.should_filter_by_size md.size = false)
    (hde : runM (ext.t_exists self.transport d) w3 = (.ok true, w4))
    (hmd : runM (ext.path_metadata s) w4 = (.ok md', w5))
    (c : Transferrer → FileEntry → Rs.Path → Rs.M W (Option TransferResult)) :
    runM (SyncEngine.sync_single_file { ext with transferrer_create := c } self s d) w =
      runM (SyncEngine.sync_single_file ext self s d) w := by
  rw [unfiltered_run ext self s d h hsz hde hmd,
    unfiltered_run { ext with transferrer_create := c } self s d (w := w) (w3 := w3) (w4 := w4) (w5 := w5) (t := t)
      (name := name) (md := md) (md' := md') (de := true) h hsz hde hmd]
  rfl

/-- **Finding `C03/single-file-mode-always-rewrites`, as a theorem about the generated function.**  When
    `exists(destination)` answers true, `update` IS called — no hypothesis about the destination's content, size or
    modification time appears, and none could: `Ext` has no operation that reads them (the only question the function
    asks about the destination is `exists`).  A second run over an identical pair transfers again and reports
    `files_updated = 1`. -/
theorem dest_exists_always_updates {w w3 w4 w5 : W} {t name md md'}
    (h : ReachesFilter ext self s w t name md false w3) (hsz : self.should_filter_by_size md.size = false)
    (hde : runM (ext.t_exists self.transport d) w3 = (.ok true, w4))
    (hmd : runM (ext.path_metadata s) w4 = (.ok md', w5)) :
    runM (SyncEngine.sync_single_file ext self s d) w =
      runM (ext.transferrer_update (transferrerOf self) (entryOf s name md') d >>= fun r =>
            verifyPhase ext self s d (updateStats r) >>= fun st => finish ext t st) w5 :=
  unfiltered_run ext self s d h hsz hde hmd

/-! ## Part 2 — bookkeeping (C19) and faults (C10) -/

theorem createStats_fields (r : Option TransferResult) :
    (createStats r).files_scanned = 1 ∧ (createStats r).files_created = 1 ∧ (createStats r).files_updated = 0 ∧
      (createStats r).files_skipped = 0 ∧ (createStats r).files_deleted = 0 ∧ (createStats r).files_verified = 0 ∧
      (createStats r).verification_failures = 0 ∧ (createStats r).errors = [] ∧
      (createStats r).bytes_transferred = (r.map (·.bytes_written)).getD 0 := by
  rcases r with _ | ⟨bw, dops, lit, tb, cu⟩
  · exact ⟨rfl, rfl, rfl, rfl, rfl, rfl, rfl, rfl, rfl⟩
  · cases cu <;> cases tb <;> exact ⟨rfl, rfl, rfl, rfl, rfl, rfl, rfl, rfl, rfl⟩

theorem updateStats_fields (r : Option TransferResult) :
    (updateStats r).files_scanned = 1 ∧ (updateStats r).files_created = 0 ∧ (updateStats r).files_updated = 1 ∧
      (updateStats r).files_skipped = 0 ∧ (updateStats r).files_deleted = 0 ∧ (updateStats r).files_verified = 0 ∧
      (updateStats r).verification_failures = 0 ∧ (updateStats r).errors = [] ∧
      (updateStats r).bytes_transferred = (r.map (·.bytes_written)).getD 0 := by
  rcases r with _ | ⟨bw, dops, lit, tb, cu⟩
  · exact ⟨rfl, rfl, rfl, rfl, rfl, rfl, rfl, rfl, rfl⟩
  · cases cu <;> cases tb <;> cases dops <;> cases lit <;> exact ⟨rfl, rfl, rfl, rfl, rfl, rfl, rfl, rfl, rfl⟩

/-- a successful run, taken apart: either filtered (initial statistics) or ONE transfer (`base` = the statistics after
    `create`/`update`) followed by the verification phase, which, when wanted, folds the `Result` `v` of ONE call of
    `verify_transfer` into the statistics -/
theorem ok_shape {w wf : W} {st : SyncStats}
    (hok : runM (SyncEngine.sync_single_file ext self s d) w = (.ok st, wf)) :
    (∃ el, st = { stats0 with duration := el }) ∨
    ∃ de r el, (if wantsVerify self = true then
        ∃ w', st = { verifyStats (transferStats de r) (runM (ext.verify_transfer (verifierOf self) s d) w').1
                      with duration := el }
      else st = { transferStats de r with duration := el }) := by
  rw [sync_single_file_eq_spec] at hok
  obtain ⟨t, flt, w1, _, h | h⟩ := spec_ok_inv ext self s d hok
  · obtain ⟨_, el, _, rfl⟩ := h
    exact .inl ⟨el, rfl⟩
  · obtain ⟨_, base, w2, el, hb, _, st', hv, rfl⟩ := h
    obtain ⟨de, _, _, _, _, _, _, _, hcase⟩ := transferStep_ok_inv ext self s d hb
    have hbase : ∃ r, base = transferStats de r := by
      rcases hcase with ⟨rfl, r, _, rfl⟩ | ⟨rfl, r, _, rfl⟩ <;> exact ⟨r, rfl⟩
    obtain ⟨r, rfl⟩ := hbase
    refine .inr ⟨de, r, el, ?_⟩
    rw [verifyPhase_run] at hv
    cases hw : wantsVerify self <;> simp only [hw, Bool.false_eq_true, if_false, if_true] at hv ⊢
    · cases hv; rfl
    · cases hv; exact ⟨w2, rfl⟩

theorem transferStats_fields (de : Bool) (r : Option TransferResult) :
    (transferStats de r).files_scanned = 1 ∧
      (transferStats de r).files_created + (transferStats de r).files_updated = 1 ∧
      (transferStats de r).files_skipped = 0 ∧ (transferStats de r).files_deleted = 0 ∧
      (transferStats de r).files_verified = 0 ∧ (transferStats de r).verification_failures = 0 ∧
      (transferStats de r).errors = [] := by
  cases de
  · obtain ⟨h1, h2, h3, h4, h5, h6, h7, h8, _⟩ := createStats_fields r
    simp only [transferStats, Bool.false_eq_true, if_false]
    exact ⟨h1, by rw [h2, h3], h4, h5, h6, h7, h8⟩
  · obtain ⟨h1, h2, h3, h4, h5, h6, h7, h8, _⟩ := updateStats_fields r
    simp only [transferStats, if_true]
    exact ⟨h1, by rw [h2, h3], h4, h5, h6, h7, h8⟩

theorem verifyStats_fields (st : SyncStats) (v : Except Rs.Err Bool) :
    (verifyStats st v).files_scanned = st.files_scanned ∧ (verifyStats st v).files_created = st.files_created ∧
      (verifyStats st v).files_updated = st.files_updated ∧ (verifyStats st v).files_skipped = st.files_skipped ∧
      (verifyStats st v).files_deleted = st.files_deleted ∧ (verifyStats st v).errors = st.errors ∧
      (verifyStats st v).files_verified = (if v = .ok true then 1 else st.files_verified) ∧
      (verifyStats st v).verification_failures = (if v = .ok true then st.verification_failures else 1) := by
  rcases v with e | (_ | _) <;> exact ⟨rfl, rfl, rfl, rfl, rfl, rfl, rfl, rfl⟩

/-- the bookkeeping invariant of a report (`duration` is not mentioned) -/
def Book (self : SyncEngine) (st : SyncStats) : Prop :=
  st.files_scanned = 1 ∧ st.files_created + st.files_updated ≤ 1 ∧ st.files_skipped = 0 ∧ st.files_deleted = 0 ∧
    st.errors = [] ∧
    st.files_verified + st.verification_failures =
      (if st.files_created + st.files_updated = 1 ∧ self.verification_mode ≠ ChecksumType.None ∧
          self.dry_run = false then 1 else 0)

theorem wantsVerify_iff : wantsVerify self = true ↔ self.verification_mode ≠ ChecksumType.None ∧ self.dry_run = false := by
  unfold wantsVerify; cases self.dry_run <;> simp

theorem book_filtered : Book self stats0 := by
  refine ⟨rfl, by decide, rfl, rfl, rfl, ?_⟩
  rw [if_neg]
  · rfl
  · intro h; exact absurd h.1 (by decide)

theorem book_transfer (de : Bool) (r : Option TransferResult) (hw : ¬ wantsVerify self = true) :
    Book self (transferStats de r) := by
  obtain ⟨f1, f2, f3, f4, f5, f6, f7⟩ := transferStats_fields de r
  refine ⟨f1, Nat.le_of_eq f2, f3, f4, f7, ?_⟩
  rw [f5, f6, if_neg]
  intro hh; exact hw ((wantsVerify_iff self).mpr hh.2)

theorem book_verified (de : Bool) (r : Option TransferResult) (v : Except Rs.Err Bool)
    (hw : wantsVerify self = true) : Book self (verifyStats (transferStats de r) v) := by
  obtain ⟨f1, f2, f3, f4, f5, f6, f7⟩ := transferStats_fields de r
  obtain ⟨g1, g2, g3, g4, g5, g6, g7, g8⟩ := verifyStats_fields (transferStats de r) v
  refine ⟨g1.trans f1, ?_, g4.trans f3, g5.trans f4, g6.trans f7, ?_⟩
  · rw [g2, g3, f2]; exact Nat.le_refl 1
  · have hcond : 1 = 1 ∧ self.verification_mode ≠ ChecksumType.None ∧ self.dry_run = false :=
      ⟨rfl, (wantsVerify_iff self).mp hw⟩
    rw [g7, g8, g2, g3, f2, f5, f6, if_pos hcond]
    split <;> rfl

/-- **C19/C10 bookkeeping of a successful run, any instance.**  One file was scanned; at most one was created or
    updated; nothing skipped or deleted; the error list is empty; and
    `files_verified + verification_failures = 1` EXACTLY when a transfer happened, the verification mode is not `None`
    and the run is not a dry run — otherwise both are 0. -/
theorem stats_bookkeeping {w wf : W} {st : SyncStats}
    (hok : runM (SyncEngine.sync_single_file ext self s d) w = (.ok st, wf)) :
    st.files_scanned = 1 ∧ st.files_created + st.files_updated ≤ 1 ∧ st.files_skipped = 0 ∧ st.files_deleted = 0 ∧
      st.errors = [] ∧
      st.files_verified + st.verification_failures =
        (if st.files_created + st.files_updated = 1 ∧ self.verification_mode ≠ ChecksumType.None ∧
            self.dry_run = false then 1 else 0) := by
  rcases ok_shape ext self s d hok with ⟨el, rfl⟩ | ⟨de, r, el, h⟩
  · exact book_filtered self
  · by_cases hw : wantsVerify self = true
    · rw [if_pos hw] at h
      obtain ⟨w', rfl⟩ := h
      exact book_verified self de r _ hw
    · rw [if_neg hw] at h
      subst h
      exact book_transfer self de r hw

/-- **Truthful verification counters.**  After a transfer with verification wanted, the two counters are decided by
    the `Result` `v` of ONE call of `verify_transfer(source, destination)` with the engine's verifier: `Ok(true)` ⇒
    verified; `Ok(false)` AND `Err(_)` ⇒ a verification failure, never "verified". -/
theorem verification_outcome {w wf : W} {st : SyncStats}
    (hok : runM (SyncEngine.sync_single_file ext self s d) w = (.ok st, wf))
    (hw : self.verification_mode ≠ ChecksumType.None ∧ self.dry_run = false)
    (ht : st.files_created + st.files_updated = 1) :
    ∃ w', ((runM (ext.verify_transfer (verifierOf self) s d) w').1 = .ok true →
              st.files_verified = 1 ∧ st.verification_failures = 0) ∧
          ((runM (ext.verify_transfer (verifierOf self) s d) w').1 ≠ .ok true →
              st.files_verified = 0 ∧ st.verification_failures = 1) := by
  have hwv : wantsVerify self = true := by
    unfold wantsVerify; rw [hw.2]; simpa using hw.1
  rcases ok_shape ext self s d hok with ⟨el, rfl⟩ | ⟨de, r, el, h⟩
  · exact absurd ht (by show ¬ ((0 : Nat) + 0 = 1); decide)
  · rw [if_pos hwv] at h
    obtain ⟨w', rfl⟩ := h
    obtain ⟨_, _, _, _, f5, f6, _⟩ := transferStats_fields de r
    obtain ⟨_, _, _, _, _, _, g7, g8⟩ :=
      verifyStats_fields (transferStats de r) (runM (ext.verify_transfer (verifierOf self) s d) w').1
    refine ⟨w', fun hv => ?_, fun hv => ?_⟩
    · exact ⟨by show (verifyStats _ _).files_verified = 1; rw [g7, if_pos hv],
        by show (verifyStats _ _).verification_failures = 0; rw [g8, if_pos hv, f6]⟩
    · exact ⟨by show (verifyStats _ _).files_verified = 0; rw [g7, if_neg hv, f5],
        by show (verifyStats _ _).verification_failures = 1; rw [g8, if_neg hv]⟩

/-- `files_verified = 1` is reported only when some call of `verify_transfer` answered `Ok(true)` -/
theorem verified_only_if_verify_ok {w wf : W} {st : SyncStats}
    (hok : runM (SyncEngine.sync_single_file ext self s d) w = (.ok st, wf)) (hv : st.files_verified ≠ 0) :
    ∃ w', (runM (ext.verify_transfer (verifierOf self) s d) w').1 = .ok true := by
  rcases ok_shape ext self s d hok with ⟨el, rfl⟩ | ⟨de, r, el, h⟩
  · exact absurd rfl hv
  · obtain ⟨_, _, _, _, f5, _, _⟩ := transferStats_fields de r
    by_cases hw : wantsVerify self = true
    · rw [if_pos hw] at h
      obtain ⟨w', rfl⟩ := h
      refine ⟨w', ?_⟩
      obtain ⟨_, _, _, _, _, _, g7, _⟩ :=
        verifyStats_fields (transferStats de r) (runM (ext.verify_transfer (verifierOf self) s d) w').1
      by_cases hres : (runM (ext.verify_transfer (verifierOf self) s d) w').1 = .ok true
      · exact hres
      · exfalso; apply hv
        show (verifyStats _ _).files_verified = 0
        rw [g7, if_neg hres, f5]
    · rw [if_neg hw] at h
      subst h
      exact absurd f5 hv

/-- an `Err` of the first `metadata()` is the error of the whole function (`?`), before anything else happens -/
theorem metadata_error_propagates {w w1 w2 : W} {t name} {e : Rs.Err}
    (hnow : runM (ext.std_time_Instant_now ()) w = (.ok t, w1)) (hn : Rs.path_file_name s = some name)
    (hmd : runM (ext.path_metadata s) w1 = (.error e, w2)) :
    runM (SyncEngine.sync_single_file ext self s d) w = (.error e, w2) := by
  rw [sync_single_file_eq_spec]
  unfold singleSpec probe
  refine runM_bind_error ?_
  rw [runM_bind_ok hnow]
  simp only [hn]
  exact runM_bind_error hmd

/-- an `Err` of `exists(destination)` propagates -/
theorem exists_error_propagates {w w3 w4 : W} {t name md} {e : Rs.Err}
    (h : ReachesFilter ext self s w t name md false w3) (hsz : self.should_filter_by_size md.size = false)
    (hde : runM (ext.t_exists self.transport d) w3 = (.error e, w4)) :
    runM (SyncEngine.sync_single_file ext self s d) w = (.error e, w4) := by
  rw [sync_single_file_eq_spec]
  unfold singleSpec
  rw [runM_bind_ok h.probe]
  simp only [hsz, Bool.or_self, Bool.false_eq_true, if_false]
  unfold transferPhase transferStep
  exact runM_bind_error (runM_bind_error hde)

/-- **an `Err` from `create` is an error of the whole function — never swallowed** (and the world is the one `create`
    left) -/
theorem create_error_propagates {w w3 w4 w5 w6 : W} {t name md md'} {e : Rs.Err}
    (h : ReachesFilter ext self s w t name md false w3) (hsz : self.should_filter_by_size md.size = false)
    (hde : runM (ext.t_exists self.transport d) w3 = (.ok false, w4))
    (hmd : runM (ext.path_metadata s) w4 = (.ok md', w5))
    (hc : runM (ext.transferrer_create (transferrerOf self) (entryOf s name md') d) w5 = (.error e, w6)) :
    runM (SyncEngine.sync_single_file ext self s d) w = (.error e, w6) := by
  rw [unfiltered_run ext self s d h hsz hde hmd]
  exact runM_bind_error hc

/-- the same for `update` -/
theorem update_error_propagates {w w3 w4 w5 w6 : W} {t name md md'} {e : Rs.Err}
    (h : ReachesFilter ext self s w t name md false w3) (hsz : self.should_filter_by_size md.size = false)
    (hde : runM (ext.t_exists self.transport d) w3 = (.ok true, w4))
    (hmd : runM (ext.path_metadata s) w4 = (.ok md', w5))
    (hc : runM (ext.transferrer_update (transferrerOf self) (entryOf s name md') d) w5 = (.error e, w6)) :
    runM (SyncEngine.sync_single_file ext self s d) w = (.error e, w6) := by
  rw [unfiltered_run ext self s d h hsz hde hmd]
  exact runM_bind_error hc

/-- a source path without a file name (`""`, `..`): the filters are SKIPPED, `exists` and `metadata` are still
    called, and then the function fails with `Io("Invalid source path")` -/
theorem no_file_name_fails {w w1 w2 w3 : W} {t de md}
    (hnow : runM (ext.std_time_Instant_now ()) w = (.ok t, w1)) (hn : Rs.path_file_name s = none)
    (hde : runM (ext.t_exists self.transport d) w1 = (.ok de, w2))
    (hmd : runM (ext.path_metadata s) w2 = (.ok md, w3)) :
    runM (SyncEngine.sync_single_file ext self s d) w = (.error .io, w3) := by
  rw [sync_single_file_eq_spec]
  unfold singleSpec
  rw [runM_bind_ok (probe_run_noname ext self s hnow hn)]
  simp only [Bool.false_eq_true, if_false]
  unfold transferPhase transferStep
  refine runM_bind_error ?_
  rw [runM_bind_ok hde, runM_bind_ok hmd, hn]
  rfl

/-- **Where a failure of the function can come from** (the converse of the propagation theorems): the error and the
    final world are those of a failing call of the clock, `metadata`, `should_exclude`, `exists`, `create`, `update`,
    or the missing file name.  `verify_transfer` is NOT in the list: its `Err` is counted (`verification_outcome`),
    it never fails the function. -/
theorem failure_sources {w wf : W} {e : Rs.Err}
    (herr : runM (SyncEngine.sync_single_file ext self s d) w = (.error e, wf)) :
    (∃ w', runM (ext.std_time_Instant_now ()) w' = (.error e, wf)) ∨
    (∃ w', runM (ext.path_metadata s) w' = (.error e, wf)) ∨
    (∃ name w', runM (ext.should_exclude self name false) w' = (.error e, wf)) ∨
    (∃ w', runM (ext.t_exists self.transport d) w' = (.error e, wf)) ∨
    (Rs.path_file_name s = none ∧ e = .io) ∨
    (∃ en w', runM (ext.transferrer_create (transferrerOf self) en d) w' = (.error e, wf)) ∨
    (∃ en w', runM (ext.transferrer_update (transferrerOf self) en d) w' = (.error e, wf)) ∨
    (∃ t w', runM (ext.instant_elapsed t) w' = (.error e, wf)) := by
  rw [sync_single_file_eq_spec] at herr
  unfold singleSpec at herr
  have hfinish : ∀ t st w', runM (finish ext t st) w' = (.error e, wf) →
      ∃ t w', runM (ext.instant_elapsed t) w' = (.error e, wf) := by
    intro t st w' h
    rw [finish_run] at h
    rcases hel : runM (ext.instant_elapsed t) w' with ⟨e' | el, w4⟩ <;> rw [hel] at h
    · cases h; exact ⟨t, w', hel⟩
    · cases h
  rcases runM_bind_eq_error herr with hp | ⟨⟨t, flt⟩, w1, hp, hrest⟩
  · -- the probe failed
    unfold probe at hp
    rcases runM_bind_eq_error hp with h | ⟨t, w1, _, hp⟩
    · exact .inl ⟨w, h⟩
    · cases hn : Rs.path_file_name s with
      | none => simp only [hn] at hp; cases hp
      | some name =>
        simp only [hn] at hp
        rcases runM_bind_eq_error hp with h | ⟨md, w2, _, hp⟩
        · exact .inr (.inl ⟨w1, h⟩)
        · rcases runM_bind_eq_error hp with h | ⟨ex, w3, _, hp⟩
          · exact .inr (.inr (.inl ⟨name, w2, h⟩))
          · cases hp
  · cases flt
    · simp only [Bool.false_eq_true, if_false] at hrest
      unfold transferPhase at hrest
      rcases runM_bind_eq_error hrest with hts | ⟨base, w2, _, hrest⟩
      · -- the transfer step failed
        unfold transferStep at hts
        rcases runM_bind_eq_error hts with h | ⟨de, w2, _, hts⟩
        · exact .inr (.inr (.inr (.inl ⟨w1, h⟩)))
        · rcases runM_bind_eq_error hts with h | ⟨md, w3, _, hts⟩
          · exact .inr (.inl ⟨w2, h⟩)
          · cases hn : Rs.path_file_name s with
            | none =>
              rw [hn] at hts
              rcases runM_bind_eq_error hts with h | ⟨_, _, h, _⟩
              · cases h; exact .inr (.inr (.inr (.inr (.inl ⟨rfl, rfl⟩))))
              · cases h
            | some name =>
              rw [hn, liftE_ok_or_else_some, pure_bind] at hts
              cases de
              · simp only [Bool.false_eq_true, if_false] at hts
                rcases runM_bind_eq_error hts with h | ⟨_, _, _, h⟩
                · exact .inr (.inr (.inr (.inr (.inr (.inl ⟨_, w3, h⟩)))))
                · cases h
              · simp only [if_true] at hts
                rcases runM_bind_eq_error hts with h | ⟨_, _, _, h⟩
                · exact .inr (.inr (.inr (.inr (.inr (.inr (.inl ⟨_, w3, h⟩))))))
                · cases h
      · rcases runM_bind_eq_error hrest with hv | ⟨st', w3, _, hrest⟩
        · -- the verification phase never fails
          rw [verifyPhase_run] at hv
          split at hv <;> cases hv
        · exact .inr (.inr (.inr (.inr (.inr (.inr (.inr (hfinish _ _ _ hrest)))))))
    · simp only [if_true] at hrest
      exact .inr (.inr (.inr (.inr (.inr (.inr (.inr (hfinish _ _ _ hrest)))))))

/-! ## Part 3 — dry run (C08) -/

/-- **With `dry_run`, `verify_transfer` is never called** — as an equation between computations: whatever
    `verify_transfer` is replaced with, the function is the same. -/
theorem dry_run_never_verifies (hdry : self.dry_run = true)
    (v : IntegrityVerifier → Rs.Path → Rs.Path → Rs.M W Bool) :
    SyncEngine.sync_single_file { ext with verify_transfer := v } self s d =
      SyncEngine.sync_single_file ext self s d := by
  have hw : wantsVerify self = false := by unfold wantsVerify; rw [hdry]; simp
  rw [sync_single_file_eq_spec, sync_single_file_eq_spec]
  unfold singleSpec transferPhase verifyPhase
  simp only [hw, Bool.false_eq_true, if_false]
  rfl

/-- the same when the verification mode is `ChecksumType::None` (`--mode fast`) -/
theorem mode_none_never_verifies (hmode : self.verification_mode = ChecksumType.None)
    (v : IntegrityVerifier → Rs.Path → Rs.Path → Rs.M W Bool) :
    SyncEngine.sync_single_file { ext with verify_transfer := v } self s d =
      SyncEngine.sync_single_file ext self s d := by
  have hw : wantsVerify self = false := by unfold wantsVerify; rw [hmode]; rfl
  rw [sync_single_file_eq_spec, sync_single_file_eq_spec]
  unfold singleSpec transferPhase verifyPhase
  simp only [hw, Bool.false_eq_true, if_false]
  rfl

/-- **The executor handed to `create`/`update` carries the engine's `dry_run`**: replacing both operations by
    functions that agree with them on every `Transferrer` whose `dry_run` flag (and transport) is the engine's gives
    the same function.  So a dry run of the engine is a dry run of the executor. -/
theorem transferrer_carries_dry_run
    (c u : Transferrer → FileEntry → Rs.Path → Rs.M W (Option TransferResult))
    (hc : ∀ t e p, t.dry_run = self.dry_run → t.transport = self.transport → c t e p = ext.transferrer_create t e p)
    (hu : ∀ t e p, t.dry_run = self.dry_run → t.transport = self.transport → u t e p = ext.transferrer_update t e p) :
    SyncEngine.sync_single_file { ext with transferrer_create := c, transferrer_update := u } self s d =
      SyncEngine.sync_single_file ext self s d := by
  rw [sync_single_file_eq_spec, sync_single_file_eq_spec]
  unfold singleSpec transferPhase transferStep
  simp only [hc (transferrerOf self) _ _ rfl rfl, hu (transferrerOf self) _ _ rfl rfl]
  rfl

end anyInstance

/-! ### composition with the TRANSLATED `Transferrer::create` / `update` (unit Transfer)

  The two units are translated separately, each with its own copy of `FileEntry`, `Transferrer`, `TransferResult`
  (same fields; the Transfer unit's `Transferrer` view has the five fields its executors read).  `withTransfer base tx`
  is the `Ext` of this unit whose `transferrer_create` / `transferrer_update` ARE the translated executors over the
  transport operations `tx`, through the field-by-field conversions `toT`, `toE`, `ofR`. -/

def toMode : SymlinkMode → Generated.Transfer.SymlinkMode
  | .Preserve => .Preserve | .Follow => .Follow | .Skip => .Skip

def toT (t : Transferrer) : Generated.Transfer.Transferrer :=
  { transport := t.transport, dry_run := t.dry_run, diff_mode := t.diff_mode, symlink_mode := toMode t.symlink_mode,
    preserve_hardlinks := t.preserve_hardlinks }

def toE (e : FileEntry) : Generated.Transfer.FileEntry :=
  { path := e.path, relative_path := e.relative_path, size := e.size, modified := e.modified, is_dir := e.is_dir,
    is_symlink := e.is_symlink, symlink_target := e.symlink_target, is_sparse := e.is_sparse,
    allocated_size := e.allocated_size, xattrs := e.xattrs, inode := e.inode, nlink := e.nlink, acls := e.acls,
    bsd_flags := e.bsd_flags }

def ofR (r : Generated.Transfer.TransferResult) : TransferResult :=
  { bytes_written := r.bytes_written, delta_operations := r.delta_operations, literal_bytes := r.literal_bytes,
    transferred_bytes := r.transferred_bytes, compression_used := r.compression_used }

def withTransfer {W : Type} (base : Ext W) (tx : Generated.Transfer.Ext W) : Ext W :=
  { base with
    transferrer_create := fun t e p =>
      Generated.Transfer.Transferrer.create tx (toT t) (toE e) p >>= fun r => pure (r.map ofR)
    transferrer_update := fun t e p =>
      Generated.Transfer.Transferrer.update tx (toT t) (toE e) p >>= fun r => pure (r.map ofR) }

/-- the five probes of an `Ext` leave the world alone (what they are on a real file system: clock readings, `stat`s,
    and the pure rule matcher) -/
structure ProbesPure {W : Type} (ext : Ext W) : Prop where
  now : ∀ u, Quiet (ext.std_time_Instant_now u)
  elapsed : ∀ t, Quiet (ext.instant_elapsed t)
  metadata : ∀ p, Quiet (ext.path_metadata p)
  t_exists : ∀ t p, Quiet (ext.t_exists t p)
  exclude : ∀ e p b, Quiet (ext.should_exclude e p b)

/-- **C08 for single-file mode, composed across the two translated units.**  For ANY transport operations `tx`
    (they may do anything) and any `base` whose probes are read-only: with `self.dry_run = true` the world after
    `sync_single_file` — whose `create`/`update` are the translated executors — is the world before, whatever the
    function returns.  (`verify_transfer` of `base` is arbitrary: it is never called; `create`/`update` receive
    `dry_run = true` and by `GenTransfer.dry_run_changes_nothing` call nothing.) -/
theorem single_file_dry_run_changes_nothing {W : Type} (base : Ext W) (tx : Generated.Transfer.Ext W)
    (hro : ProbesPure base) (self : SyncEngine) (s d : Rs.Path) (hdry : self.dry_run = true) (w : W) :
    (runM (SyncEngine.sync_single_file (withTransfer base tx) self s d) w).2 = w := by
  have hw : wantsVerify self = false := by unfold wantsVerify; rw [hdry]; simp
  have hcreate : ∀ e p, Quiet ((withTransfer base tx).transferrer_create (transferrerOf self) e p) := by
    intro e p w
    show (runM (Generated.Transfer.Transferrer.create tx (toT (transferrerOf self)) (toE e) p >>= _) w).2 = w
    rw [runM_bind, (GenTransfer.dry_run_changes_nothing tx (toT (transferrerOf self)) (toE e) p w hdry false).1]
    rfl
  have hupdate : ∀ e p, Quiet ((withTransfer base tx).transferrer_update (transferrerOf self) e p) := by
    intro e p w
    show (runM (Generated.Transfer.Transferrer.update tx (toT (transferrerOf self)) (toE e) p >>= _) w).2 = w
    rw [runM_bind, (GenTransfer.dry_run_changes_nothing tx (toT (transferrerOf self)) (toE e) p w hdry false).2.1]
    rfl
  have hfinish : ∀ t st, Quiet (finish (withTransfer base tx) t st) :=
    fun t st => Quiet.bind (hro.elapsed t) fun _ => Quiet.pure _
  rw [sync_single_file_eq_spec]
  refine Quiet.bind ?_ (fun p => Quiet.ite (hfinish _ _) ?_) w
  · -- the probe
    refine Quiet.bind (hro.now _) fun t => ?_
    cases Rs.path_file_name s with
    | none => exact Quiet.pure _
    | some name =>
      exact Quiet.bind (hro.metadata _) fun _ => Quiet.bind (hro.exclude _ _ _) fun _ => Quiet.pure _
  · -- the transfer phase
    refine Quiet.bind ?_ fun st => Quiet.bind ?_ fun st' => hfinish _ _
    · refine Quiet.bind (hro.t_exists _ _) fun de => Quiet.bind (hro.metadata _) fun md =>
        Quiet.bind (Quiet.liftE _) fun fname => Quiet.ite ?_ ?_
      · exact Quiet.bind (hupdate _ _) fun _ => Quiet.pure _
      · exact Quiet.bind (hcreate _ _) fun _ => Quiet.pure _
    · unfold verifyPhase
      rw [hw]
      exact Quiet.pure _

/-! ## Part 4 — the C16 model of single-file sources (`Filter.transferSet cfg (.singleFile e)`) -/

/-- the model configuration: the rule list is a parameter (this unit sees `should_exclude` as an extern), the size
    bounds are the engine's -/
def cfgOf (rules : List Filter.Rule) (self : SyncEngine) : Filter.FilterCfg :=
  { rules := rules, minSize := self.min_size, maxSize := self.max_size }

/-- the model entry of a single-file source: its `relative_path` is the file name (ONE component: `file_name()` never
    contains a separator), it is not a directory, its size is `metadata().len()` -/
def entryAbs (name : Rs.Str) (md : Rs.Metadata) : Filter.Entry := { rel := [name], isDir := false, size := md.size }

/-- `should_filter_by_size` of THIS unit is the model's `filterBySize` (all bounds, all sizes) — the twin of
    `GenFilter.should_filter_by_size_eq_model` / `GenVerify.should_filter_by_size_eq_model` -/
theorem should_filter_by_size_eq_model (rules : List Filter.Rule) (self : SyncEngine) (n : Nat) :
    self.should_filter_by_size n = Filter.filterBySize (cfgOf rules self) n := by
  unfold SyncEngine.should_filter_by_size Filter.filterBySize cfgOf
  cases self.min_size <;> cases self.max_size <;> simp only [Id.run]
  · rfl
  · rename_i mx; cases decide (n > mx) <;> rfl
  · rename_i mn; cases decide (n < mn) <;> rfl
  · rename_i mn mx; cases decide (n < mn) <;> cases decide (n > mx) <;> rfl

/-- the model's transfer set of a single-file source, in the generated function's terms -/
theorem transferSet_single_eq (rules : List Filter.Rule) (self : SyncEngine) (name : Rs.Str) (md : Rs.Metadata) :
    Filter.transferSet (cfgOf rules self) (.singleFile (entryAbs name md)) =
      if (Filter.shouldInclude rules [name] false && !self.should_filter_by_size md.size) = true
      then [entryAbs name md] else [] := by
  unfold Filter.transferSet
  simp only [entryAbs, ← should_filter_by_size_eq_model]
  rfl

/-- THE ABSTRACTION OF `should_exclude`: for a file name, the instance answers what the model's rule list says
    (`FilterEngine::should_exclude = !should_include`), without failing and without touching the world -/
def ExcludeIsModel {W : Type} (ext : Ext W) (rules : List Filter.Rule) : Prop :=
  ∀ (self : SyncEngine) (name : Rs.Str) (w : W),
    runM (ext.should_exclude self name false) w = (.ok (!Filter.shouldInclude rules [name] false), w)

section model
variable {W : Type} (ext : Ext W) (self : SyncEngine) (s d : Rs.Path) (rules : List Filter.Rule)

/-- **The decision of the generated function is the model's.**  Under the abstraction of `should_exclude`, once the
    clock and `metadata()` have answered: the function continues into the transfer phase exactly when
    `transferSet cfg (.singleFile e) ≠ []`, and otherwise only reads the clock again. -/
theorem single_file_decision_eq_model (hex : ExcludeIsModel ext rules) {w w1 w2 : W} {t name md}
    (hnow : runM (ext.std_time_Instant_now ()) w = (.ok t, w1)) (hn : Rs.path_file_name s = some name)
    (hmd : runM (ext.path_metadata s) w1 = (.ok md, w2)) :
    runM (SyncEngine.sync_single_file ext self s d) w =
      if Filter.transferSet (cfgOf rules self) (.singleFile (entryAbs name md)) = [] then
        runM (finish ext t stats0) w2
      else runM (transferPhase ext self s d t) w2 := by
  rw [sync_single_file_eq_spec]
  unfold singleSpec
  rw [runM_bind_ok (probe_run ext self s hnow hn hmd (hex self name w2))]
  rw [transferSet_single_eq]
  cases Filter.shouldInclude rules [name] false <;> cases self.should_filter_by_size md.size <;> simp

/-- the model hands nothing to the transfer step ⇒ `create`, `update`, `verify_transfer` are never called and the
    report says so -/
theorem model_empty_never_transfers (hex : ExcludeIsModel ext rules) {w w1 w2 : W} {t name md}
    (hnow : runM (ext.std_time_Instant_now ()) w = (.ok t, w1)) (hn : Rs.path_file_name s = some name)
    (hmd : runM (ext.path_metadata s) w1 = (.ok md, w2))
    (hempty : Filter.transferSet (cfgOf rules self) (.singleFile (entryAbs name md)) = [])
    (c u : Transferrer → FileEntry → Rs.Path → Rs.M W (Option TransferResult))
    (v : IntegrityVerifier → Rs.Path → Rs.Path → Rs.M W Bool) :
    runM (SyncEngine.sync_single_file
        { ext with transferrer_create := c, transferrer_update := u, verify_transfer := v } self s d) w =
      runM (SyncEngine.sync_single_file ext self s d) w ∧
    ∀ st wf, runM (SyncEngine.sync_single_file ext self s d) w = (.ok st, wf) →
      st.files_created = 0 ∧ st.files_updated = 0 ∧ st.bytes_transferred = 0 := by
  have hreach : ReachesFilter ext self s w t name md (!Filter.shouldInclude rules [name] false) w2 :=
    ⟨hn, w1, w2, hnow, hmd, hex self name w2⟩
  have hf : (!Filter.shouldInclude rules [name] false) = true ∨ self.should_filter_by_size md.size = true := by
    rw [transferSet_single_eq] at hempty
    cases h1 : Filter.shouldInclude rules [name] false <;> cases h2 : self.should_filter_by_size md.size <;>
      simp_all
  refine ⟨filtered_never_transfers ext self s d hreach hf c u v, fun st wf hok => ?_⟩
  obtain ⟨_, h1, h2, h3, _⟩ := filtered_stats ext self s d hreach hf hok
  exact ⟨h1, h2, h3⟩

/-- the model hands the file to the transfer step ⇒ exactly one `create`/`update` of the entry follows -/
theorem model_nonempty_transfers (hex : ExcludeIsModel ext rules) {w w1 w2 w3 w4 : W} {t name md md'} {de : Bool}
    (hnow : runM (ext.std_time_Instant_now ()) w = (.ok t, w1)) (hn : Rs.path_file_name s = some name)
    (hmd : runM (ext.path_metadata s) w1 = (.ok md, w2))
    (hne : Filter.transferSet (cfgOf rules self) (.singleFile (entryAbs name md)) ≠ [])
    (hde : runM (ext.t_exists self.transport d) w2 = (.ok de, w3))
    (hmd' : runM (ext.path_metadata s) w3 = (.ok md', w4)) :
    runM (SyncEngine.sync_single_file ext self s d) w =
      runM (transferOp ext de (transferrerOf self) (entryOf s name md') d >>= fun r =>
            verifyPhase ext self s d (transferStats de r) >>= fun st => finish ext t st) w4 := by
  have hinc : Filter.shouldInclude rules [name] false = true ∧ self.should_filter_by_size md.size = false := by
    rw [transferSet_single_eq] at hne
    cases h1 : Filter.shouldInclude rules [name] false <;> cases h2 : self.should_filter_by_size md.size <;>
      simp_all
  have hreach : ReachesFilter ext self s w t name md false w2 := by
    refine ⟨hn, w1, w2, hnow, hmd, ?_⟩
    have := hex self name w2
    rw [hinc.1] at this
    exact this
  exact unfiltered_run ext self s d hreach hinc.2 hde hmd'

end model

/-- the abstraction is met by the TRANSLATED filter (unit Filter): an `Ext` whose `should_exclude` evaluates the
    translated `SyncEngine::should_exclude` on the one-component path `[name]` answers what the model's rule list
    `absEngine fe.filter_engine` says -/
theorem excludeOfFilter_is_model {W : Type} (ext : Ext W) (fe : Generated.Filter.SyncEngine)
    (h : ∀ e name b, ext.should_exclude e name b = pure (fe.should_exclude [name] b)) :
    ExcludeIsModel ext (GenFilter.absCfg fe).rules := by
  intro self name w
  rw [h, GenFilter.engine_should_exclude_eq_model]
  rfl

/-! ## Part 5 — non-vacuity: a world that LOGS every call, and the translated function run on it by the kernel -/

/-- the world is the list of calls made so far -/
abbrev Log := List String

def logged {α : Type} (tag : String) (a : Except Rs.Err α) : Rs.M Log α := ExceptT.mk (fun w => (a, w ++ [tag]))

/-- every operation appends its name to the log and answers a fixed value; `create`/`update` also log the executor's
    `dry_run` flag and the entry's size -/
def logExt (excluded destExists : Bool) (size : Nat) (transferred : Except Rs.Err (Option TransferResult))
    (verified : Except Rs.Err Bool) : Ext Log where
  std_time_Instant_now _ := logged "now" (.ok {})
  instant_elapsed _ := logged "elapsed" (.ok 7)
  path_metadata _ := logged "metadata" (.ok ⟨false, 5, size⟩)
  t_exists _ _ := logged "exists" (.ok destExists)
  transferrer_create t e _ := logged (if t.dry_run then "create(dry)" else "create") transferred
  transferrer_update t e _ := logged (if t.dry_run then "update(dry)" else "update") transferred
  verify_transfer _ _ _ := logged "verify" verified
  should_exclude _ _ _ := logged "exclude" (.ok excluded)

def exEngine : SyncEngine :=
  { transport := {}, dry_run := false, diff_mode := false, symlink_mode := .Preserve, preserve_xattrs := false,
    preserve_hardlinks := false, preserve_acls := false, preserve_flags := false, verification_mode := .Cryptographic,
    verify_on_write := false, min_size := none, max_size := some 10 }

def exSrc : Rs.Path := "/s/a.log".toList
def exDst : Rs.Path := "/d/a.log".toList
def exResult : TransferResult :=
  { bytes_written := 5, delta_operations := none, literal_bytes := none, transferred_bytes := none,
    compression_used := false }

example : Rs.path_file_name exSrc = some "a.log".toList := by decide

/-- excluded by a rule: clock, `metadata`, `should_exclude`, clock — and nothing else -/
theorem run_excluded : runM (SyncEngine.sync_single_file (logExt true false 5 (.ok (some exResult)) (.ok true)) exEngine exSrc exDst) [] =
    (.ok { stats0 with duration := 7 }, ["now", "metadata", "exclude", "elapsed"]) := by rfl

/-- rejected by `--max-size 10` (11 bytes): the same four calls -/
theorem run_size_filtered : runM (SyncEngine.sync_single_file (logExt false false 11 (.ok (some exResult)) (.ok true)) exEngine exSrc exDst) [] =
    (.ok { stats0 with duration := 7 }, ["now", "metadata", "exclude", "elapsed"]) := by rfl

/-- not filtered, no destination: ONE `create`, then `verify_transfer`; its `Err` is a verification failure -/
theorem run_create_verify_err : runM (SyncEngine.sync_single_file (logExt false false 5 (.ok (some exResult)) (.error .io)) exEngine exSrc exDst) [] =
    (.ok { stats0 with files_created := 1, bytes_transferred := 5, verification_failures := 1, duration := 7 },
      ["now", "metadata", "exclude", "exists", "metadata", "create", "verify", "elapsed"]) := by rfl

/-- the destination exists: ONE `update` (no comparison of any kind precedes it), verified -/
theorem run_update_verified : runM (SyncEngine.sync_single_file (logExt false true 5 (.ok (some exResult)) (.ok true)) exEngine exSrc exDst) [] =
    (.ok { stats0 with files_updated := 1, bytes_transferred := 5, files_verified := 1, duration := 7 },
      ["now", "metadata", "exclude", "exists", "metadata", "update", "verify", "elapsed"]) := by rfl

/-- `create` fails: the function fails with that error, nothing is verified, the clock is not read again -/
theorem run_create_error : runM (SyncEngine.sync_single_file (logExt false false 5 (.error .io) (.ok true)) exEngine exSrc exDst) [] =
    (.error .io, ["now", "metadata", "exclude", "exists", "metadata", "create"]) := by rfl

/-- dry run: the executor is handed `dry_run = true`; `verify_transfer` is not called; "created" is still reported -/
theorem run_dry_run : runM (SyncEngine.sync_single_file (logExt false false 5 (.ok none) (.ok true))
      { exEngine with dry_run := true } exSrc exDst) [] =
    (.ok { stats0 with files_created := 1, duration := 7 },
      ["now", "metadata", "exclude", "exists", "metadata", "create(dry)", "elapsed"]) := by rfl

/-- a source without a file name (`..`): no filter call, `exists` + `metadata`, then `Err(Io)` -/
theorem run_no_file_name : runM (SyncEngine.sync_single_file (logExt true false 5 (.ok none) (.ok true)) exEngine "/s/..".toList exDst) [] =
    (.error .io, ["now", "exists", "metadata"]) := by rfl

/-- the hypotheses of Part 1 and 2 are satisfiable (both values of `ex`, both outcomes of `exists`) -/
example : ReachesFilter (logExt true false 5 (.ok none) (.ok true)) exEngine exSrc [] {} "a.log".toList ⟨false, 5, 5⟩ true
    ["now", "metadata", "exclude"] := ⟨by decide, _, _, rfl, rfl, rfl⟩
example : ReachesFilter (logExt false true 5 (.ok none) (.ok true)) exEngine exSrc [] {} "a.log".toList ⟨false, 5, 5⟩ false
    ["now", "metadata", "exclude"] := ⟨by decide, _, _, rfl, rfl, rfl⟩
example : exEngine.should_filter_by_size 5 = false ∧ exEngine.should_filter_by_size 11 = true := ⟨rfl, rfl⟩
example : runM ((logExt false true 5 (.ok none) (.ok true)).t_exists exEngine.transport exDst) ["now", "metadata", "exclude"] =
    (.ok true, ["now", "metadata", "exclude", "exists"]) := rfl
example : exEngine.verification_mode ≠ ChecksumType.None ∧ exEngine.dry_run = false := ⟨by decide, rfl⟩

/-- an `Ext` over a trivial world whose probes are pure functions and whose `should_exclude` asks the model's rule
    list: `ProbesPure` and `ExcludeIsModel` hold of it -/
def modelExt (rules : List Filter.Rule) (size : Nat) (destExists : Bool) : Ext Unit where
  std_time_Instant_now _ := pure {}
  instant_elapsed _ := pure 0
  path_metadata _ := pure ⟨false, 0, size⟩
  t_exists _ _ := pure destExists
  transferrer_create _ _ _ := pure none
  transferrer_update _ _ _ := pure none
  verify_transfer _ _ _ := pure true
  should_exclude _ name _ := pure (!Filter.shouldInclude rules [name] false)

example (rules : List Filter.Rule) (n : Nat) (b : Bool) : ProbesPure (modelExt rules n b) :=
  ⟨fun _ _ => rfl, fun _ _ => rfl, fun _ _ => rfl, fun _ _ _ => rfl, fun _ _ _ _ => rfl⟩
example (rules : List Filter.Rule) (n : Nat) (b : Bool) : ExcludeIsModel (modelExt rules n b) rules :=
  fun _ _ _ => rfl

/-- the hypothesis of `excludeOfFilter_is_model`: an `Ext` whose `should_exclude` is the translated one of unit Filter -/
example (fe : Generated.Filter.SyncEngine) :
    ∀ e name b, ({ modelExt [] 0 false with
        should_exclude := fun _ name b => pure (fe.should_exclude [name] b) } : Ext Unit).should_exclude e name b =
      pure (fe.should_exclude [name] b) := fun _ _ _ => rfl

/-- the regression witness of C16 (`transferSet_single_file_witness`: `--exclude '*.log'` on `a.log`) through the
    bridge: the model's transfer set is empty, so the translated function does not transfer -/
example : Filter.transferSet (cfgOf [⟨false, "*.log".toList, "*.log".toList,
      [.anySeq, .char '.', .char 'l', .char 'o', .char 'g'], false, false⟩] exEngine)
    (.singleFile (entryAbs "a.log".toList ⟨false, 0, 6⟩)) = [] := by decide

end SyModel.Props.GenSingleFile
