/-
  C19 — The machine-readable report is truthful (second part: events vs. the destination diff).
  Property theorems only.  Everything here holds under every fault plan: a failed or faulted
  task produces an error record, never an action event.
-/
import SyModel.Lemmas.EngineEvents
import SyModel.Lemmas.EngineFilter
namespace SyModel.Props.C19Truth
open SyModel SyModel.Engine

/-- **Events are truthful** (real, i.e. non-dry, runs).
    * a `create` event for `p`: `p` did not exist before and exists afterwards;
    * an `update` event for `p`: `p` existed before and exists afterwards;
    * a `delete` event for `p`: `p` existed before and does not exist afterwards;
    * a `skip` event for `p`: the node at `p` is what it was (`Unchanged`: the one exception is an
      absent path that became a directory because a selected entry lives below it — impossible
      for a parent-closed scan, see `skip_event_unchanged`). -/
theorem events_truthful (cfg : Cfg) (hnd : cfg.dryRun = false) (flt : Faults) (scan : List SEntry)
    (dst : Map DNode) (n : Nat) (hu : UniqueRels scan) (hnr : NoRoot scan) (hk : dst.keys.Nodup)
    (hdel : cfg.delete = true → ParentClosed scan ∧ dst.get? [] = none)
    (hino : cfg.hardlinks = true → InoConsistent scan) (p : Path) :
    ((Act.create, p) ∈ (runF cfg flt scan dst n).events →
      dst.get? p = none ∧ (runF cfg flt scan dst n).dst.get? p ≠ none) ∧
    ((Act.update, p) ∈ (runF cfg flt scan dst n).events →
      dst.get? p ≠ none ∧ (runF cfg flt scan dst n).dst.get? p ≠ none) ∧
    ((Act.delete, p) ∈ (runF cfg flt scan dst n).events →
      dst.get? p ≠ none ∧ (runF cfg flt scan dst n).dst.get? p = none) ∧
    ((Act.skip, p) ∈ (runF cfg flt scan dst n).events →
      ∃ e ∈ scanFilter cfg scan, e.rel = p ∧ Unchanged cfg scan dst e ((runF cfg flt scan dst n).dst.get? p)) := by
  -- create and update share the argument
  have cu : ∀ a, (a = .create ∨ a = .update) → (a, p) ∈ (runF cfg flt scan dst n).events →
      ∃ e ∈ scanFilter cfg scan, e.rel = p ∧ (planEntry cfg dst e).act = a ∧
        (runF cfg flt scan dst n).dst.get? p ≠ none ∧
        (e.kind = .dir → dst.get? p = none ∨ dst.get? p = some .dir ∨ ∃ s, dst.get? p = some (.symlink s)) := by
    intro a ha hev
    obtain ⟨hr, t, ht, hok, hact, hrel⟩ := event_task hev
    have hnd' : t.act ≠ .delete := by rw [hact]; rcases ha with h | h <;> rw [h] <;> simp
    have hns : t.act ≠ .skip := by rw [hact]; rcases ha with h | h <;> rw [h] <;> simp
    obtain ⟨e, he, rfl⟩ := entry_of_task ht hnd'
    rw [planEntry_rel] at hrel
    have tp := run_task_post hnd flt scan dst n hu hdel hino hok
    have hne : (planEntry cfg dst e).rel ≠ [] := by rw [planEntry_rel]; exact hnr e (mem_of_mem_scanFilter he)
    refine ⟨e, he, hrel, hact, ?_, fun hkd => ?_⟩
    · rw [(runF_of_not_refused hr).1, ← hrel]
      exact taskPost_present tp hns (planEntry_payload_of_cu hns) hne
    · have := tp.dir_pre hns (planEntry_payload_dir hkd) hne
      rw [planEntry_rel, hrel] at this
      rcases this with h | h | ⟨_, h⟩
      · exact Or.inl h
      · exact Or.inr (Or.inl h)
      · exact Or.inr (Or.inr h)
  refine ⟨fun hev => ?_, fun hev => ?_, fun hev => ?_, fun hev => ?_⟩
  · obtain ⟨e, _, hrel, hact, hres, hdir⟩ := cu .create (Or.inl rfl) hev
    refine ⟨?_, hres⟩
    by_cases hkd : e.kind = .dir
    · -- a directory already there is planned as `skip`, a link there as `update` — not `create`
      rcases planEntry_dir_act (cfg := cfg) (dst := dst) hkd with ⟨_, h'⟩ | ⟨_, h'⟩ | ⟨hnd', hnl', _⟩
      · rw [h'] at hact; cases hact
      · rw [h'] at hact; cases hact
      · rcases hdir hkd with h | h | ⟨s, h⟩
        · exact h
        · exact absurd (hrel ▸ h) hnd'
        · exact absurd (hrel ▸ h) (hnl' s)
    · exact hrel ▸ planEntry_create_none hkd hact
  · obtain ⟨e, _, hrel, hact, hres, _⟩ := cu .update (Or.inr rfl) hev
    exact ⟨hrel ▸ planEntry_update_some hact, hres⟩
  · obtain ⟨hr, t, ht, hok, hact, hrel⟩ := event_task hev
    obtain ⟨_, htd⟩ := deletion_of_task ht hact
    obtain ⟨q, rfl, hq, _⟩ := mem_planDeletions.1 htd
    simp only at hrel; subst hrel
    refine ⟨(Map.mem_keys_iff dst q).1 hq, ?_⟩
    rw [(runF_of_not_refused hr).1]
    exact delete_ok_absent hnd hk rfl hok
  · obtain ⟨hr, t, ht, hok, hact, hrel⟩ := event_task hev
    obtain ⟨e, he, rfl⟩ := entry_of_task ht (by rw [hact]; simp)
    rw [planEntry_rel] at hrel
    refine ⟨e, he, hrel, ?_⟩
    have tp := run_task_post hnd flt scan dst n hu hdel hino hok
    rw [(runF_of_not_refused hr).1, ← hrel]
    exact unchanged_of_taskPost tp (Or.inl hact)

/-- With a parent-closed scan a `skip` event means exactly "unchanged" — for every kind of entry. -/
theorem skip_event_unchanged (cfg : Cfg) (hnd : cfg.dryRun = false) (flt : Faults) (scan : List SEntry)
    (dst : Map DNode) (n : Nat) (hu : UniqueRels scan) (hnr : NoRoot scan) (hk : dst.keys.Nodup)
    (hc : ParentClosed scan) (hroot : cfg.delete = true → dst.get? [] = none)
    (hino : cfg.hardlinks = true → InoConsistent scan) (p : Path)
    (hev : (Act.skip, p) ∈ (runF cfg flt scan dst n).events) :
    (runF cfg flt scan dst n).dst.get? p = dst.get? p := by
  obtain ⟨e, he, hrel, hun⟩ :=
    (events_truthful cfg hnd flt scan dst n hu hnr hk (fun h => ⟨hc, hroot h⟩) hino p).2.2.2 hev
  subst hrel
  by_cases hkd : e.kind = .dir
  · -- a directory is skipped only when something exists at its path
    rcases hun with h | ⟨hnone, _⟩
    · exact h
    · -- absent before: then the plan was `create`, whose event is not `skip`
      have hcr : (planEntry cfg dst e).act = .create := by
        unfold planEntry; simp [hkd, hnone]
      obtain ⟨_, t, ht, _, hact', hrel'⟩ := event_task hev
      obtain ⟨e', he', rfl⟩ := entry_of_task ht (by rw [hact']; simp)
      rw [planEntry_rel] at hrel'
      have := hu.eq_of_rel (mem_of_mem_scanFilter he') (mem_of_mem_scanFilter he) hrel'
      subst this
      rw [hcr] at hact'; cases hact'
  · exact hun.eq hu hc (mem_of_mem_scanFilter he) hkd

/-- **Every change is reported.**  If the node at `p` differs before and after the run then the
    report contains — as an action event or as an error record — a delete at or above `p`, or a
    create/update at or below `p` (a parent directory made on the way to a created entry). -/
theorem changes_reported (cfg : Cfg) (flt : Faults) (scan : List SEntry) (dst : Map DNode) (n : Nat) (p : Path)
    (hch : (runF cfg flt scan dst n).dst.get? p ≠ dst.get? p) :
    ∃ a q, ((a, q) ∈ (runF cfg flt scan dst n).events ∨ (a, q) ∈ (runF cfg flt scan dst n).errors) ∧
      ((a = .delete ∧ isPrefix q p = true) ∨ (a ≠ .delete ∧ a ≠ .skip ∧ isPrefix p q = true)) := by
  cases hr : (runF cfg flt scan dst n).refused with
  | true => rw [runF_refused_dst hr] at hch; exact absurd rfl hch
  | false =>
    obtain ⟨h1, h2, h3, _⟩ := runF_of_not_refused hr
    rw [h1] at hch
    obtain ⟨t, ht, hcov⟩ := changed_covered cfg flt _ _ p hch
    refine ⟨t.act, t.rel, ?_, hcov⟩
    rw [h2, h3, List.mem_reverse, List.mem_reverse]
    exact task_accounted _ _ ht

/-- … so in a run without errors every change has an action event. -/
theorem changes_have_events (cfg : Cfg) (flt : Faults) (scan : List SEntry) (dst : Map DNode) (n : Nat) (p : Path)
    (hne : (runF cfg flt scan dst n).errors = [])
    (hch : (runF cfg flt scan dst n).dst.get? p ≠ dst.get? p) :
    ∃ a q, (a, q) ∈ (runF cfg flt scan dst n).events ∧
      ((a = .delete ∧ isPrefix q p = true) ∨ (a ≠ .delete ∧ a ≠ .skip ∧ isPrefix p q = true)) := by
  obtain ⟨a, q, h | h, hc⟩ := changes_reported cfg flt scan dst n p hch
  · exact ⟨a, q, h, hc⟩
  · rw [hne] at h; cases h

/-- **… path for path.**  When the scan lists parents before children (what the walker
    guarantees) and nothing failed, every changed path has an action event for *that very path*,
    or vanished with a stale directory whose deletion is reported: no destination change is
    implicit. -/
theorem changes_have_own_events (cfg : Cfg) (flt : Faults) (scan : List SEntry) (dst : Map DNode) (n : Nat)
    (hu : UniqueRels scan) (hpf : ParentsFirst scan) (p : Path) (hp0 : p ≠ [])
    (hne : (runF cfg flt scan dst n).errors = [])
    (hch : (runF cfg flt scan dst n).dst.get? p ≠ dst.get? p) :
    (∃ a, (a, p) ∈ (runF cfg flt scan dst n).events) ∨
    (∃ q, (Act.delete, q) ∈ (runF cfg flt scan dst n).events ∧ isPrefix q p = true ∧ q ≠ p) := by
  obtain ⟨a, q, hev, hc⟩ := changes_have_events cfg flt scan dst n p hne hch
  rcases hc with ⟨ha, hq⟩ | ⟨hnd, _, hq⟩
  · by_cases hqp : q = p
    · exact Or.inl ⟨a, hqp ▸ hev⟩
    · exact Or.inr ⟨q, ha ▸ hev, hq, hqp⟩
  · by_cases hqp : p = q
    · exact Or.inl ⟨a, hqp ▸ hev⟩
    · left
      obtain ⟨hr, t, ht, _, hact, hrel⟩ := event_task hev
      obtain ⟨e, he, rfl⟩ := entry_of_task ht (by rw [hact]; exact hnd)
      rw [planEntry_rel] at hrel
      obtain ⟨d, hd, hdr, _⟩ := selected_ancestors_selected hu hpf he
        (mem_ancestors.2 ⟨hp0, hrel ▸ hq, hrel ▸ hqp⟩)
      obtain ⟨_, h2, h3, _⟩ := runF_of_not_refused hr
      have hacc := task_accounted (cfg := cfg) (flt := flt) (plan cfg scan dst) (initExec dst n)
        (planEntry_mem_plan (dst := dst) hd)
      rw [planEntry_rel, hdr] at hacc
      rcases hacc with h | h
      · exact ⟨_, by rw [h2, List.mem_reverse]; exact h⟩
      · exfalso
        rw [h3] at hne
        have : (finalExec cfg flt scan dst n).b.errors = [] := by simpa using hne
        unfold finalExec at this
        rw [this] at h; cases h

/-! ### non-vacuity -/

def exCfg : Cfg where
  delete := true
  force := true
  dryRun := false
  xattrs := true
  hardlinks := false
  threshold := 50
  links := .preserve
  compare := .default
  minSize := none
  maxSize := none
  maxErrors := 100
  tie := false

example : exDst.keys.Nodup := by decide

example : exDst.get? ["l"] = none ∧ (run exCfg exScan exDst 1000).dst.get? ["l"] ≠ none :=
  (events_truthful exCfg rfl noFaults exScan exDst 1000 (by decide) (by decide) (by decide)
    (fun _ => ⟨by decide, by decide⟩) (fun h => by cases h) ["l"]).1 (by decide)

example : (run exCfg exScan exDst 1000).dst.get? ["x", "y"] = none :=
  ((events_truthful exCfg rfl noFaults exScan exDst 1000 (by decide) (by decide) (by decide)
    (fun _ => ⟨by decide, by decide⟩) (fun h => by cases h) ["x", "y"]).2.2.1 (by decide)).2

example : (run exCfg exScan exDst 1000).dst.get? ["d"] = exDst.get? ["d"] :=
  skip_event_unchanged exCfg rfl noFaults exScan exDst 1000 (by decide) (by decide) (by decide) (by decide)
    (fun _ => by decide) (fun h => by cases h) ["d"] (by decide)

example : ∃ a q, (a, q) ∈ (run exCfg exScan exDst 1000).events ∧
    ((a = .delete ∧ isPrefix q ["x", "y"] = true) ∨ (a ≠ .delete ∧ a ≠ .skip ∧ isPrefix ["x", "y"] q = true)) :=
  changes_have_events exCfg noFaults exScan exDst 1000 ["x", "y"] (by decide) (by decide)

example : (∃ a, (a, ["x", "y"]) ∈ (run exCfg exScan exDst 1000).events) ∨
    (∃ q, (Act.delete, q) ∈ (run exCfg exScan exDst 1000).events ∧ isPrefix q ["x", "y"] = true ∧ q ≠ ["x", "y"]) :=
  changes_have_own_events exCfg noFaults exScan exDst 1000 (by decide) (by decide) ["x", "y"] (by decide)
    (by decide) (by decide)

end SyModel.Props.C19Truth
