/-
  GenCompress — the translated `COMPRESSED_EXTENSIONS`, `is_compressed_extension`, `should_compress_adaptive`,
  `should_compress` (src/compress/mod.rs, regenerated into `SyModel/Generated/Code/Compress.lean` on every run)
  compute the handwritten `Compress.isCompressedExtension` / `shouldCompressAdaptive` / `shouldCompress` that C14's
  decision theorems are about.

  Abstraction map.
    * file names: `Rs.Str = List Char` on both sides (identity);
    * `Generated.Compress.Compression ↦ Compress.Compression` (`absCompression`): `None ↦ none`, `Lz4 ↦ lz4`,
      `Zstd ↦ zstd`;
    * `_network_speed_mbps` is ignored (the model has no such argument; the code does not read it);
    * `file_size: u64 ↦ Nat` (identity; only compared with the literal `1024 * 1024`).
  No hypotheses: the theorems hold for all names (any characters, with or without dots, empty), all sizes, both
  values of `is_local`, every `_network_speed_mbps`.
-/
import SyModel.Generated.Code.Compress
import SyModel.Compress.Decision
import SyModel.Generated.Consts
namespace SyModel.Props.GenCompress
open SyModel SyModel.Compress SyModel.Generated
open SyModel.Generated.Compress (is_compressed_extension should_compress_adaptive
  should_compress)

def absCompression : Generated.Compress.Compression → Compress.Compression
  | .None => .none
  | .Lz4 => .lz4
  | .Zstd => .zstd

/-- the map is a bijection (no two code values are identified by the model, none is missing). -/
theorem absCompression_bijective :
    (∀ a b, absCompression a = absCompression b → a = b) ∧ (∀ m, ∃ a, absCompression a = m) := by
  refine ⟨fun a b => by cases a <;> cases b <;> simp [absCompression], fun m => ?_⟩
  cases m
  · exact ⟨.None, rfl⟩
  · exact ⟨.Lz4, rfl⟩
  · exact ⟨.Zstd, rfl⟩

/-! ### the vocabulary -/

/-- the Prelude's ASCII lower-casing (stated with `Char` order) is the model's (stated with code points). -/
theorem lowerAscii_eq_model (c : Char) : Rs.lowerAscii c = Compress.lowerAscii c := by
  unfold Rs.lowerAscii Compress.lowerAscii
  simp only [Char.le_def, UInt32.le_iff_toNat_le]
  rfl

theorem eq_ignore_ascii_case_eq_model (a b : List Char) :
    Rs.eq_ignore_ascii_case a b = eqIgnoreAsciiCase a b := by
  unfold Rs.eq_ignore_ascii_case eqIgnoreAsciiCase
  rw [show Rs.lowerAscii = Compress.lowerAscii from funext lowerAscii_eq_model]

theorem splitAux_ne_nil (c : Char) (s cur : List Char) : Rs.splitAux c s cur ≠ [] := by
  induction s generalizing cur with
  | nil => simp [Rs.splitAux]
  | cons x t ih =>
    unfold Rs.splitAux
    split
    · simp
    · exact ih _

theorem takeWhile_append_stop {α : Type} (p : α → Bool) (l : List α) (c : α) (r : List α) (hc : p c = false) :
    (l ++ c :: r).takeWhile p = l.takeWhile p := by
  induction l with
  | nil => simp [List.takeWhile, hc]
  | cons a t ih => simp only [List.cons_append, List.takeWhile_cons, ih]

theorem takeWhile_all {α : Type} (p : α → Bool) (l : List α) (h : ∀ x ∈ l, p x = true) : l.takeWhile p = l := by
  induction l with
  | nil => rfl
  | cons a t ih =>
    rw [List.takeWhile_cons, h a (by simp), if_pos rfl, ih (fun x hx => h x (by simp [hx]))]

/-- the splitter, with its accumulator: the last piece is what follows the last separator of `cur.reverse ++ s`
    (the accumulator never holds a separator). -/
theorem splitAux_getLast? (c : Char) (s cur : List Char) (hcur : ∀ x ∈ cur, x ≠ c) :
    (Rs.splitAux c s cur).getLast? =
      some (((cur.reverse ++ s).reverse.takeWhile (fun x => decide (x ≠ c))).reverse) := by
  induction s generalizing cur with
  | nil =>
    have : cur.takeWhile (fun x => decide (x ≠ c)) = cur :=
      takeWhile_all _ _ (fun x hx => by simpa using hcur x hx)
    simp only [Rs.splitAux, List.append_nil, List.reverse_reverse, this, List.getLast?_singleton]
  | cons x t ih =>
    unfold Rs.splitAux
    by_cases hx : x = c
    · subst hx
      rw [if_pos (by simp), List.getLast?_cons_of_ne_nil (splitAux_ne_nil _ _ _), ih [] (by simp)]
      have : (cur.reverse ++ x :: t).reverse = t.reverse ++ x :: cur := by simp
      rw [this, takeWhile_append_stop _ _ _ _ (by simp)]
      simp
    · rw [if_neg (by simpa using hx), ih (x :: cur) (by
        intro y hy
        rcases List.mem_cons.mp hy with rfl | hy
        · exact hx
        · exact hcur y hy)]
      simp

/-- `filename.rsplit('.').next()` is `Some` of the model's `lastSegment`, for every name. -/
theorem next_rsplit_eq_lastSegment (name : List Char) :
    Rs.next (Rs.rsplit name '.') = some (lastSegment name) := by
  unfold Rs.next Rs.rsplit Rs.split lastSegment
  rw [List.head?_reverse, splitAux_getLast? '.' name [] (by simp)]
  simp

/-- the table: the generated character lists are the model's strings. -/
theorem extensions_eq_model : Generated.Compress.COMPRESSED_EXTENSIONS = compressedExtensions.map String.toList := by decide

/-- the translator's table and the constant extractor's table (`Generated/Consts.lean`, which `C14.consts_ok_extensions`
    compares with the model) are the same list: the two readers of the source agree. -/
theorem extensions_eq_consts :
    Generated.Compress.COMPRESSED_EXTENSIONS = Generated.COMPRESSED_EXTENSIONS.map String.toList := by decide

/-! ### BRIDGE -/

theorem is_compressed_extension_eq_model (name : List Char) :
    is_compressed_extension name = isCompressedExtension name := by
  unfold is_compressed_extension isCompressedExtension
  rw [next_rsplit_eq_lastSegment]
  simp only [Rs.any, extensions_eq_model, List.any_map, eq_ignore_ascii_case_eq_model]
  rfl

theorem should_compress_adaptive_eq_model (name : List Char) (size : Nat) (is_local : Bool) (speed : Option Nat) :
    absCompression (should_compress_adaptive name size is_local speed) =
      shouldCompressAdaptive name size is_local := by
  unfold should_compress_adaptive shouldCompressAdaptive
  rw [is_compressed_extension_eq_model]
  have hgate : (1024 * 1024 : Nat) = SIZE_GATE := by decide
  rw [hgate]
  cases is_local <;> by_cases hs : size < SIZE_GATE <;> cases isCompressedExtension name <;>
    simp [Id.run, hs, absCompression] <;> rfl

theorem should_compress_eq_model (name : List Char) (size : Nat) :
    absCompression (should_compress name size) = shouldCompress name size := by
  unfold should_compress shouldCompress
  exact should_compress_adaptive_eq_model name size false none

end SyModel.Props.GenCompress
