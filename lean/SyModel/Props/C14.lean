/-
  C14 — Compression and remote-helper wire formats are byte-transparent.
  Property theorems only; helper lemmas live in `SyModel/Lemmas/{Codec,Sparse,Json}`.

  What is proved is everything sy adds around the codecs: the decision, the dispatch, the
  sender's routing, the helper's magic sniffing, the mtime argument, the sparse region
  protocol (gather / regions JSON / set_len + seek + write) and the local sparse copiers.
  `decompress (compress x) = x` for zstd and lz4 themselves is the hypothesis
  `Codec.Lossless` / `Codec.Sound` (validated by the correspondence stream on every payload);
  the kernel's hole reporting is the hypothesis `Covers`.
-/
import SyModel.Lemmas.Codec
import SyModel.Lemmas.Sparse
import SyModel.Generated.Consts
namespace SyModel.Props.C14
open SyModel SyModel.Compress SyModel.Json

/-! ### side conditions on the constants extracted from the Rust source on this run -/

theorem consts_ok_size_gate_smart : Generated.COMPRESS_SIZE_GATE_SMART = SIZE_GATE := by decide
theorem consts_ok_size_gate_adaptive : Generated.COMPRESS_SIZE_GATE_ADAPTIVE = SIZE_GATE := by decide
theorem consts_ok_ratio :
    Generated.COMPRESS_RATIO_NUM = RATIO_NUM ∧ Generated.COMPRESS_RATIO_DEN = RATIO_DEN := by decide
theorem consts_ok_sample_size : Generated.COMPRESS_SAMPLE_SIZE = SAMPLE_SIZE := by decide

/-- the exact-rational reading of `ratio < 0.9` agrees with the `f64` comparison: for a sample of at
    most `SAMPLE_SIZE` bytes a quotient below 9/10 stays at least `1/(10·s)` below it, which is more
    than `2^-50` — far above the rounding error of one division near 1 (`2^-53`). -/
theorem consts_ok_sample_f64_margin :
    Generated.COMPRESS_RATIO_DEN * Generated.COMPRESS_SAMPLE_SIZE < 2 ^ 50 := by decide

theorem consts_ok_extensions : Generated.COMPRESSED_EXTENSIONS = compressedExtensions := by decide

/-- the bytes `sy-remote receive-file` compares are the model's magic, in positions 0‥3. -/
theorem consts_ok_magic_receive_file :
    Generated.ZSTD_MAGIC_RECEIVE_FILE = zstdMagic.map UInt8.toNat := by decide
theorem consts_ok_sniff_len_receive_file :
    Generated.SNIFF_MIN_LEN_RECEIVE_FILE = zstdMagic.length := by decide
/-- `hasZstdMagic` is "starts with `zstdMagic`". -/
theorem sniff_test_is_prefix (l : Bytes) : hasZstdMagic l = true ↔ ∃ r, l = zstdMagic ++ r :=
  hasZstdMagic_iff l

theorem consts_ok_sparse_threshold : Generated.SPARSE_THRESHOLD_LOCAL = SPARSE_THRESHOLD := by decide
theorem consts_ok_sparse_block : Generated.SPARSE_BLOCK_SIZE_LOCAL = LOCAL_BLOCK ∧ 0 < LOCAL_BLOCK := by decide

/-- the sender's routing as the anchors see it: the compressed arm runs `receive-file`, the
    `Compression::None` arm opens an SFTP file (anchor fails to match otherwise); the sparse path
    runs `receive-sparse-file`. -/
theorem consts_ok_sender_commands :
    Generated.SENDER_COMPRESSED_COMMAND = "receive-file" ∧
    Generated.SENDER_SPARSE_COMMAND = "receive-sparse-file" := by decide

/-! ### the decision -/

/-- `should_compress_smart` never answers `Lz4`: only raw or zstd payloads exist on the wire. -/
theorem decision_range (i : Inputs) :
    shouldCompressSmart i = .none ∨ shouldCompressSmart i = .zstd := by
  unfold shouldCompressSmart
  repeat' split
  all_goals simp

/-- the same for the adaptive twin and the legacy wrapper. -/
theorem decision_range_adaptive (name : List Char) (size : Nat) (isLocal : Bool) :
    shouldCompressAdaptive name size isLocal = .none ∨ shouldCompressAdaptive name size isLocal = .zstd := by
  unfold shouldCompressAdaptive
  repeat' split
  all_goals simp

/-- below the size gate, for local transfers and for listed extensions nothing is compressed
    unless the mode is `always`; `never` never compresses. -/
theorem decision_gates (i : Inputs) (hm : i.mode ≠ .always)
    (h : i.isLocal = true ∨ i.mode = .never ∨ i.size < SIZE_GATE ∨ isCompressedExtension i.name = true) :
    shouldCompressSmart i = .none := by
  obtain ⟨name, size, isLocal, mode, sample⟩ := i
  simp only at hm h
  unfold shouldCompressSmart
  cases isLocal
  · cases mode
    · rcases h with h | h | h | h <;> simp_all
    · rcases h with h | h | h | h <;> simp_all
    · exact absurd rfl hm
    · simp
  · simp

/-! ### the codec dispatch -/

/-- `decompress(compress(x, a), a) = x` for every algorithm, given that the two third-party codecs
    are lossless. -/
theorem dispatch_roundtrip (L Z : Codec) (hL : L.Lossless) (hZ : Z.Lossless) (a : Compression) (x : Bytes) :
    decompress L Z a (compress L Z a x) = some x := by
  cases a
  · rfl
  · exact hL x
  · exact hZ x

/-! ### the regular path: sender's branch + `receive-file` -/

/-- the helper on a zstd frame writes the original bytes and the given mtime. -/
theorem receive_file_on_frame (Z : Codec) (hZ : Z.Sound) (x : Bytes) (m : Option Nat) :
    receiveFile Z (Z.compress x) m = some { content := x, mtimeSec := m } := by
  unfold receiveFile
  rw [sniff_compress Z hZ]; rfl

/-- the helper on a raw payload without the magic writes it unchanged. -/
theorem receive_file_on_raw (Z : Codec) (x : Bytes) (m : Option Nat) (h : hasZstdMagic x = false) :
    receiveFile Z x m = some { content := x, mtimeSec := m } := by
  unfold receiveFile
  rw [sniff_raw Z x h]; rfl

/-- Byte transparency of the regular path: whatever the compression decision (size, extension,
    content sample or override) and whatever the payload — empty, incompressible, or itself
    beginning with a compression magic number — the remote file holds exactly the original bytes
    and the source mtime in whole seconds.
    It holds *because* of `decision_range` and the sender's branch: the helper only ever receives
    zstd frames, and `Compression::None` bypasses the helper (SFTP). -/
theorem receive_file_transparent (L Z : Codec) (hZ : Z.Sound) (x : Bytes) (i : Inputs) (srcMtimeNs : Option Nat) :
    remoteAfter Z (sendFile L Z (shouldCompressSmart i) x srcMtimeNs) =
      some { content := x, mtimeSec := mtimeSecs srcMtimeNs } := by
  rcases decision_range i with h | h <;> rw [h]
  · rfl
  · exact receive_file_on_frame Z hZ x _

/-- the helper sets exactly the `--mtime` argument, which is the source mtime truncated to whole
    seconds. -/
theorem receive_file_mtime (Z : Codec) (stdin : Bytes) (m : Option Nat) (f : RemoteFile)
    (h : receiveFile Z stdin m = some f) : f.mtimeSec = m := by
  unfold receiveFile at h
  cases hs : sniff Z stdin with
  | none => simp [hs] at h
  | some d => simp [hs] at h; rw [← h]

theorem mtime_whole_seconds (ns : Nat) :
    ∃ s, mtimeSecs (some ns) = some s ∧ s * 1000000000 ≤ ns ∧ ns < (s + 1) * 1000000000 := by
  refine ⟨ns / 1000000000, rfl, ?_, ?_⟩ <;> omega

/-! #### why the theorem depends on the decision and on the sender's branch

  The helper *taken alone* is not transparent: these two theorems are the reason the statement
  above needs `decision_range`. Neither situation is reachable from `ssh.rs` as it stands. -/

/-- a raw payload that begins with `28 B5 2F FD` is not written as it is. -/
theorem helper_alone_counterexample_raw_magic :
    ∃ (Z : Codec) (_ : Z.Sound) (x : Bytes),
      receiveFile Z x none ≠ some { content := x, mtimeSec := none } :=
  ⟨toyZ, toyZ_sound, [0x28, 0xB5, 0x2F, 0xFD, 1, 2, 3], by decide⟩

/-- in general: on a magic-prefixed input the helper writes `decompress input` or fails. -/
theorem helper_on_magic (Z : Codec) (x : Bytes) (m : Option Nat) (h : hasZstdMagic x = true) :
    receiveFile Z x m = (Z.decompress x).map fun d => { content := d, mtimeSec := m } := by
  unfold receiveFile sniff
  rw [h]; rfl

/-- if the decision were `Lz4` the sender would pipe an lz4 block to a helper that only knows the
    zstd magic: the remote file would hold the *compressed* bytes. -/
theorem lz4_route_counterexample :
    ∃ (L Z : Codec) (_ : L.Lossless) (_ : Z.Sound) (x : Bytes),
      remoteAfter Z (sendFile L Z .lz4 x none) ≠ some { content := x, mtimeSec := none } :=
  ⟨toyL, toyZ, toyL_lossless, toyZ_sound, [1, 2, 3], by decide⟩

/-! ### sparse transfers -/

/-- regions JSON: the helper's `serde_json::from_str` inverts the sender's `to_string`. -/
theorem regions_json_roundtrip (rs : List Region) : decodeRegions (encodeRegions rs) = some rs :=
  decodeRegions_encode rs

/-- the region protocol: what the sender concatenates, fed to the helper's
    `set_len` + `seek` + `read_exact` + `write_all` loop, rebuilds the source content — for every
    layout the kernel can report (`Covers`): all data, leading / trailing holes, many small
    regions, unaligned boundaries, overlapping or unsorted regions. -/
theorem sparse_reconstruct (content : Bytes) (rs : List Region) (h : Covers content rs) :
    ∃ buf, gather content rs = some buf ∧ receiveSparse content.length rs buf = some content := by
  refine ⟨rs.flatMap (slice content), gather_eq content rs h.inRange, ?_⟩
  have := receiveSparse_gather content rs h []
  simpa using this

/-- sender + helper with the real arguments (regions as JSON on the command line, `--total-size`,
    `--mtime`). -/
theorem sparse_helper_transparent (content : Bytes) (r : Region) (rs : List Region)
    (h : Covers content (r :: rs)) (srcMtimeNs : Option Nat) :
    ∃ total regs stdin m,
      sendSparse content (some (r :: rs)) srcMtimeNs = .helper total regs stdin m ∧
      receiveSparseFile total regs stdin m =
        some { content := content, mtimeSec := mtimeSecs srcMtimeNs } := by
  obtain ⟨buf, hg, hr⟩ := sparse_reconstruct content (r :: rs) h
  refine ⟨content.length, encodeRegions (r :: rs), buf, mtimeSecs srcMtimeNs, ?_, ?_⟩
  · simp only [sendSparse, hg]
  · simp only [receiveSparseFile, decodeRegions_encode, hr]

/-- a file that is all hole (no region reported), or whose detection fails, is not sent through the
    sparse helper. -/
theorem all_hole_falls_back (content : Bytes) (srcMtimeNs : Option Nat) :
    sendSparse content (some []) srcMtimeNs = .fallback ∧ sendSparse content none srcMtimeNs = .fallback :=
  ⟨rfl, rfl⟩

/-- `SshTransport::copy_file` as a whole — sparse or not, whatever the detection answers within its
    contract, whatever the compression decision: the remote file has the source content and the
    source mtime in whole seconds. -/
theorem copy_file_remote_transparent (L Z : Codec) (hZ : Z.Sound) (ci : CopyInputs)
    (hcov : ∀ rs, ci.detected = some rs → Covers ci.content rs) :
    copyFileRemote L Z ci = some { content := ci.content, mtimeSec := mtimeSecs ci.srcMtimeNs } := by
  have hreg := receive_file_transparent L Z hZ ci.content ci.decision ci.srcMtimeNs
  unfold copyFileRemote
  simp only [hreg]
  split
  · cases hd : ci.detected with
    | none => simp [sendSparse]
    | some rs =>
      cases rs with
      | nil => simp [sendSparse]
      | cons r rs =>
        obtain ⟨total, regs, stdin, m, h1, h2⟩ :=
          sparse_helper_transparent ci.content r rs (hcov _ hd) ci.srcMtimeNs
        rw [h1]
        simp only [h2]
  · rfl

/-- local `copy_sparse_file_seek`. -/
theorem sparse_local_seek (content : Bytes) (rs : List Region) (h : Covers content rs) :
    localSeek content rs = content :=
  localSeek_eq content rs h

/-- local `copy_sparse_file_blocks` (needs no assumption about the kernel at all). -/
theorem sparse_local_blocks (content : Bytes) : localBlocks content = content :=
  localBlocks_eq content

/-! ### whatever the destination path held before

  The helpers and the local sparse copiers are also used over an *existing* destination (a re-sent
  image, an update). `File::create` truncates it first; the constants regenerated from the source
  say whether the code still does. -/

theorem consts_ok_writers_truncate :
    Generated.HELPER_RECEIVE_FILE_TRUNCATES = true ∧ Generated.HELPER_SPARSE_TRUNCATES = true ∧
    Generated.LOCAL_SPARSE_SEEK_CREATES = 1 ∧ Generated.LOCAL_SPARSE_BLOCKS_CREATES = 1 := by decide

/-- the open mode of `receive-file` / `receive-sparse-file` as the source has it on this run. -/
def receiveFileMode : OpenMode := OpenMode.ofTruncates Generated.HELPER_RECEIVE_FILE_TRUNCATES
def receiveSparseMode : OpenMode := OpenMode.ofTruncates Generated.HELPER_SPARSE_TRUNCATES

/-- `receive-file` over any existing destination content writes exactly what it writes to a fresh
    path. -/
theorem receive_file_ignores_prior (Z : Codec) (prior : Option Bytes) (stdin : Bytes) (m : Option Nat) :
    receiveFileOver receiveFileMode Z prior stdin m = receiveFile Z stdin m := by
  have h : receiveFileMode = .create := by
    simp [receiveFileMode, OpenMode.ofTruncates, consts_ok_writers_truncate.1]
  simp [receiveFileOver, receiveFile, h, openOutput, writeAll]

/-- `receive-sparse-file` over any existing destination content (same size, longer, shorter, any
    bytes in what are now holes) rebuilds exactly the source content. -/
theorem sparse_helper_transparent_over_prior (prior : Option Bytes) (content : Bytes) (r : Region)
    (rs : List Region) (h : Covers content (r :: rs)) (srcMtimeNs : Option Nat) :
    ∃ total regs stdin m,
      sendSparse content (some (r :: rs)) srcMtimeNs = .helper total regs stdin m ∧
      receiveSparseFileOver receiveSparseMode prior total regs stdin m =
        some { content := content, mtimeSec := mtimeSecs srcMtimeNs } := by
  obtain ⟨total, regs, stdin, m, hs, hr⟩ := sparse_helper_transparent content r rs h srcMtimeNs
  refine ⟨total, regs, stdin, m, hs, ?_⟩
  have hm : receiveSparseMode = .create := by
    simp [receiveSparseMode, OpenMode.ofTruncates, consts_ok_writers_truncate.2.1]
  rw [← hr]
  simp [receiveSparseFileOver, receiveSparseFile, receiveSparseOver, receiveSparse, hm, openOutput]

/-- both local sparse copiers over any existing destination content. -/
theorem sparse_local_over_prior (prior : Option Bytes) (content : Bytes) (rs : List Region)
    (h : Covers content rs) :
    localSeekOver .create prior content rs = content ∧ localBlocksOver .create prior content = content :=
  ⟨sparse_local_seek content rs h, sparse_local_blocks content⟩

/-- Why the open mode matters (the witness a change from `File::create` to a non-truncating open
    would reproduce): stale bytes survive in what is a hole of the new layout, and beyond the end of
    a shorter `receive-file` payload. -/
theorem keep_mode_counterexample :
    receiveSparseOver .keep (some [9, 9, 9, 9]) 4 [{ offset := 1, length := 2 }] [7, 8] = some [9, 7, 8, 9] ∧
    receiveSparseOver .create (some [9, 9, 9, 9]) 4 [{ offset := 1, length := 2 }] [7, 8] = some [0, 7, 8, 0] ∧
    (receiveFileOver .keep toyZ (some [9, 9, 9]) [1] none).map (·.content) = some [1, 9, 9] := by
  refine ⟨by decide, by decide, ?_⟩
  simp [receiveFileOver, sniff, hasZstdMagic, openOutput, writeAll]

/-! ### non-vacuity -/

example : toyZ.Sound := toyZ_sound
example : toyL.Lossless := toyL_lossless

/-- a layout with a leading hole, an unaligned data region and a trailing hole satisfies `Covers`. -/
theorem covers_example : Covers [0, 0, 7, 8, 9, 0, 0] [{ offset := 1, length := 4 }] where
  inRange := by decide
  holesZero := by
    intro i hi hne
    refine ⟨_, List.mem_singleton.mpr rfl, ?_⟩
    have h7 : i < 7 := hi
    match i, h7 with
    | 0, _ => exact absurd rfl hne
    | 1, _ => decide
    | 2, _ => decide
    | 3, _ => decide
    | 4, _ => decide
    | 5, _ => exact absurd rfl hne
    | 6, _ => exact absurd rfl hne

/-- the all-hole layout satisfies `Covers` with no region at all. -/
theorem covers_all_hole (n : Nat) : Covers (zeros n) [] where
  inRange := by simp
  holesZero := by intro i _ hne; exact absurd (at0_zeros n i) hne

/-- every decision outcome is reachable (the transparency theorem is not about one branch only). -/
example : shouldCompressSmart { name := "a.txt".toList, size := 2000000, isLocal := false, mode := .auto, sample := .ratio 100 65536 } = .zstd := by decide
example : shouldCompressSmart { name := "a.txt".toList, size := 2000000, isLocal := false, mode := .auto, sample := .ratio 65000 65536 } = .none := by decide
example : shouldCompressSmart { name := "A.JPG".toList, size := 2000000, isLocal := false, mode := .extension, sample := .noPath } = .none := by decide
example : shouldCompressSmart { name := "a.txt".toList, size := 5, isLocal := false, mode := .always, sample := .noPath } = .zstd := by decide

/-- the transparency theorem on a payload that itself begins with the zstd magic, compressed route. -/
example : remoteAfter toyZ (sendFile toyL toyZ
    (shouldCompressSmart { name := "x".toList, size := 7, isLocal := false, mode := .always, sample := .noPath })
    [0x28, 0xB5, 0x2F, 0xFD, 1, 2, 3] (some 1700000000999999999)) =
    some { content := [0x28, 0xB5, 0x2F, 0xFD, 1, 2, 3], mtimeSec := some 1700000000 } :=
  receive_file_transparent toyL toyZ toyZ_sound _ _ _

end SyModel.Props.C14
