/-
  C19 — The machine-readable report is well-formed and truthful.
  Property theorems only (first part: counters, accounting of failures, log sink).
-/
import SyModel.Lemmas.Engine
import SyModel.Generated.Consts
namespace SyModel.Props.C19
open SyModel SyModel.Engine

/-- `main.rs` configures the tracing subscriber with `.with_writer(std::io::stderr)`: log text
    never shares stdout with the JSON objects (regenerated from source each run). -/
theorem consts_ok_log_sink : Generated.LOG_WRITER_IS_STDERR = true := by decide

/-- failed operations are emitted as `error` events before the summary (regenerated) -/
theorem consts_ok_error_events : Generated.EMITS_ERROR_EVENTS = true := by decide

/-- The summary counters equal the number of events of each kind, for every run. -/
theorem counters_eq_events (cfg : Cfg) (flt : Faults) (scan : List SEntry) (dst : Map DNode) (n : Nat) :
    (runF cfg flt scan dst n).created = countAct .create (runF cfg flt scan dst n).events ∧
    (runF cfg flt scan dst n).updated = countAct .update (runF cfg flt scan dst n).events ∧
    (runF cfg flt scan dst n).skipped = countAct .skip (runF cfg flt scan dst n).events ∧
    (runF cfg flt scan dst n).deleted = countAct .delete (runF cfg flt scan dst n).events := by
  unfold runF
  simp only
  split
  · simp [countAct]
  · have inv := foldl_execTask_bookInv cfg flt (plan cfg scan dst) (initExec dst n) (initExec_bookInv dst n)
    have hrev : ∀ a (l : List (Act × Path)), countAct a l.reverse = countAct a l := by
      intro a l; simp [countAct, List.filter_reverse]
    simp only [hrev]
    exact ⟨inv.c, inv.u, inv.s, inv.d⟩

/-- Every planned task is represented in the report exactly once: as an action event or as an
    error — a failed file is never simply missing from the stream. -/
theorem failures_reported (cfg : Cfg) (flt : Faults) (scan : List SEntry) (dst : Map DNode) (n : Nat)
    (h : (runF cfg flt scan dst n).refused = false) :
    (runF cfg flt scan dst n).events.length + (runF cfg flt scan dst n).errors.length
      = (runF cfg flt scan dst n).tasks.length := by
  unfold runF at h ⊢
  simp only at h ⊢
  split
  · rename_i hg; simp [hg] at h
  · have := foldl_execTask_accounted cfg flt (plan cfg scan dst) (initExec dst n)
    simp only [List.length_reverse]
    simpa [initExec] using this

/-- A dry run reports every planned task as an event and nothing as an error. -/
theorem dry_run_reports_plan (cfg : Cfg) (flt : Faults) (scan : List SEntry) (dst : Map DNode) (n : Nat)
    (hd : cfg.dryRun = true) (h : (runF cfg flt scan dst n).refused = false) :
    (runF cfg flt scan dst n).events = (plan cfg scan dst).map fun t => (t.act, t.rel) := by
  unfold runF at h ⊢
  simp only at h ⊢
  split
  · rename_i hg; simp [hg] at h
  · simp only [foldl_execTask_dry_events cfg flt hd, initExec, List.append_nil, List.reverse_reverse]

end SyModel.Props.C19
