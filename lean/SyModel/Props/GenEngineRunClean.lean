/-
  GenEngineRunClean — the capstone `GenEngineRun.seqEngine_eq_model` with its restriction `FailClean` DISCHARGED from
  structural hypotheses about the input.

  `RunHyp` (Props/GenEngineRun.lean) carries `failClean : FailClean cfg (initExec dst n) (plan cfg scan dst)` — "every
  failed Create/Update of the model's run leaves no residue" — which was known only for dry runs and for runs without
  any error.  Here it is a THEOREM:

    `failClean_of_closed_dst`   `UniqueRels (scanFilter cfg scan)` (already a clause of `RunHyp`) + `DstParentClosed dst`
                                (every strict ancestor of a listed destination path is a listed DIRECTORY)
                                ⇒ `FailClean cfg (initExec dst n) (plan cfg scan dst)`        [Lemmas/GenEngineRunClean]

  for every configuration — `-H`, `--delete`, `--dry-run`, any link mode, any comparison mode — and for runs with any
  number of failing tasks.  `ParentsFirst` is not needed for it (it stays in the hypotheses: the planning stage uses it).

    `RunHypS`                         `RunHyp` without `failClean` and `nothingBelowLinks`, with `closed : DstParentClosed dst`
    `RunHypS.toRunHyp`                the structural hypotheses give `RunHyp` (so every `translated_*` corollary applies)
    `seqEngine_eq_model_structural`   THE CAPSTONE, `FailClean` discharged
    `structural_dst_closed`           the destination the composition leaves is parent-closed again (the hypothesis is
                                      re-established for the next run)
    `failCauses_complete`             the complete list of failure causes of the model's `perform` (six)
    `closed_needed`, `unique_needed`  kernel-checked witnesses: dropping either hypothesis makes `FailClean` false
    `exFailHyp`, `exFail_values`, `exFail_result`   non-vacuity: a run with THREE failing tasks (a directory where a
                                      file goes, a file where a directory goes, a file on the way) satisfies `RunHypS`;
                                      its values through the theorem; the composition RUN BY THE KERNEL
-/
import SyModel.Lemmas.GenEngineRunClean
set_option linter.unusedVariables false
set_option linter.unusedSimpArgs false
namespace SyModel.Props.GenEngineRunClean
open SyModel SyModel.Engine SyModel.Generated SyModel.GenEngineTask SyModel.Lemmas.GenEngineRun
open SyModel.Lemmas.GenEnginePlan (NothingBelowLinks)
open SyModel.Props.GenEngineRun
open SyModel.Lemmas.GenEngineRunClean

/-! ## the structural theorem (re-exported) and what it rests on -/

/-- **`FailClean` from structural hypotheses**: no path twice in the filtered scan, parent-closed destination -/
theorem failClean_structural (cfg : Cfg) (scan : List SEntry) (dst : Map DNode) (n : Nat)
    (hu : UniqueRels (scanFilter cfg scan)) (hc : DstParentClosed dst) :
    FailClean cfg (initExec dst n) (plan cfg scan dst) :=
  failClean_of_closed_dst cfg scan dst n hu hc

/-- **the failure causes of the model's `perform` without a fault plan, complete**: a task fails only outside a dry run,
    only as a Create / Update, and only because (1) a strict ancestor of its path is a file or a link, (2) a directory
    stands where a file / link / hard link goes, (3) a file stands where a directory goes, (4) a link stands where a
    directory is to be CREATED, (5) `-H`: `link()` onto an existing name, (6) `-H`: the group's first member is no
    regular file -/
theorem failCauses_complete {cfg : Cfg} {w : World} {t : Task} (h : perform cfg w t = none) :
    cfg.dryRun = false ∧ (t.act = .create ∨ t.act = .update) ∧ FailCause cfg w t :=
  perform_none_cause h

/-- a parent-closed destination lists nothing below a symlink node -/
theorem nothingBelowLinks_of_closed {dst : Map DNode} (hc : DstParentClosed dst) : NothingBelowLinks dst := by
  intro link q s hl hne hp hq
  apply Classical.byContradiction
  intro hn
  have := (gclosed_iff dst).2 hc q hn link hne hp (Ne.symm hq)
  rw [hl] at this
  cases this

/-! ## the capstone with `FailClean` discharged -/

/-- **the hypotheses of the capstone, structural version**: `RunHyp` with the clauses `failClean` and
    `nothingBelowLinks` replaced by `closed` (each remaining clause as documented at `RunHyp`) -/
structure RunHypS (cfg : Cfg) (I : RunIn) (ew : EWorld) (scan : List SEntry) (dst : Map DNode) (n : Nat) : Prop where
  init : ew.xw.w = { dst := dst, linkMap := [], nextIno := n, bytes := 0 }
  logEmpty : ew.log = []
  tie : cfg.tie = false
  modeNone : I.mode = .None
  filtered : I.files.map (absS ew.xw) = scanFilter cfg scan
  scannedRels : I.scanned.map SyModel.Lemmas.GenPlannerFx.compsOf = scan.map (·.rel)
  files : ∀ f ∈ I.files, FileOK cfg ew I.view f
  cleanKeys : ∀ k ∈ dst.keys, SyModel.Lemmas.GenPlannerFx.CleanPath k
  unique : UniqueRels (scanFilter cfg scan)
  parentsFirst : ParentsFirst (scanFilter cfg scan)
  /-- the destination map is the listing of a tree: every strict ancestor of a listed path is a listed DIRECTORY
      (`DstParentClosed` of Lemmas/EngineWF; decidable) — in particular nothing is listed below a link or a file -/
  closed : DstParentClosed dst

theorem RunHypS.toRunHyp {cfg : Cfg} {I : RunIn} {ew : EWorld} {scan : List SEntry} {dst : Map DNode} {n : Nat}
    (H : RunHypS cfg I ew scan dst n) : RunHyp cfg I ew scan dst n where
  init := H.init
  logEmpty := H.logEmpty
  tie := H.tie
  modeNone := H.modeNone
  filtered := H.filtered
  scannedRels := H.scannedRels
  files := H.files
  cleanKeys := H.cleanKeys
  unique := H.unique
  parentsFirst := H.parentsFirst
  nothingBelowLinks := nothingBelowLinks_of_closed H.closed
  failClean := failClean_of_closed_dst cfg scan dst n H.unique H.closed

/-- conversely `RunHypS` is `RunHyp` + a parent-closed destination: nothing else was added -/
theorem RunHypS.of_runHyp {cfg : Cfg} {I : RunIn} {ew : EWorld} {scan : List SEntry} {dst : Map DNode} {n : Nat}
    (H : RunHyp cfg I ew scan dst n) (hc : DstParentClosed dst) : RunHypS cfg I ew scan dst n :=
  ⟨H.init, H.logEmpty, H.tie, H.modeNone, H.filtered, H.scannedRels, H.files, H.cleanKeys, H.unique, H.parentsFirst, hc⟩

section capstone
variable {cfg : Cfg} {I : RunIn} {ew : EWorld} {scan : List SEntry} {dst : Map DNode} {n : Nat}

/-- **THE CAPSTONE, `FailClean` discharged.**  Under the structural hypotheses the sequential composition of the
    translated pieces answers, and the abstraction of what it answers IS the model's fault-free run — whether or not
    tasks fail. -/
theorem seqEngine_eq_model_structural (H : RunHypS cfg I ew scan dst n) :
    ∃ o, seqEngine cfg I ew = some o ∧ absOut cfg ew o = run cfg scan dst n :=
  seqEngine_eq_model H.toRunHyp

/-- the model's run keeps a parent-closed destination parent-closed (refused or not, errors or not) -/
theorem run_dst_closed (cfg : Cfg) (scan : List SEntry) (dst : Map DNode) (n : Nat) (hc : DstParentClosed dst) :
    DstParentClosed (run cfg scan dst n).dst := by
  rw [← gclosed_iff] at hc ⊢
  unfold run runF
  simp only []
  split
  · exact hc
  · exact foldl_noFaults_closed cfg _ _ hc

/-- **the structural hypothesis is re-established**: the destination tree the translated composition leaves is
    parent-closed again -/
theorem structural_dst_closed (H : RunHypS cfg I ew scan dst n) :
    ∃ o, seqEngine cfg I ew = some o ∧ DstParentClosed o.world.xw.w.dst := by
  obtain ⟨o, ho, heq⟩ := seqEngine_eq_model_structural H
  refine ⟨o, ho, ?_⟩
  have := run_dst_closed cfg scan dst n H.closed
  rw [← heq] at this
  exact this

/-- C10 on the raw output, structural hypotheses: exit status 0 means not refused and no error record -/
theorem structural_exit_zero_no_error_records (H : RunHypS cfg I ew scan dst n) :
    ∃ o, seqEngine cfg I ew = some o ∧ (o.exit = 0 → o.refused = false ∧ o.stats.errors = []) :=
  translated_exit_zero_no_error_records H.toRunHyp

end capstone

/-! ## both hypotheses are needed (kernel-checked witnesses) -/

section witnesses

/-- `closed` is needed: the destination of `GenEngineRun.left_residue_witness` (`p/k` listed, `p` not) is not
    parent-closed, `FailClean` fails there, and the translated `run_task` really leaves `p` behind -/
theorem closed_needed :
    ¬ DstParentClosed exBadDst ∧ ¬ FailClean { exCfg with delete := false } (initExec exBadDst 0) [exBadTask] :=
  ⟨by decide, failClean_fails_witness⟩

/-- a scan that lists `k` twice: as a symlink and as a directory -/
def exTwiceScan : List SEntry := [⟨["k"], .symlink "t" .dangling, 1, false⟩, ⟨["k"], .dir, 0, false⟩]

/-- `unique` is needed for `FailClean` AS DEFINED: with `k` scanned twice the second task — the creation of a directory,
    planned against the empty destination — meets the symlink the first one made and fails; `NoResidue` (whose second
    clause is the over-approximation `Left` of the Transfer bridge) does not hold -/
theorem unique_needed :
    DstParentClosed ([] : Map DNode) ∧ ¬ UniqueRels (scanFilter { exCfg with delete := false } exTwiceScan) ∧
      ¬ FailClean { exCfg with delete := false } (initExec [] 0) (plan { exCfg with delete := false } exTwiceScan []) := by
  decide

end witnesses

/-! ## non-vacuity: a run WITH failing tasks under the structural hypotheses -/

section examples

/-- `--delete --force-delete`, preserve links, default comparison -/
def exCfgF : Cfg := { exCfg with force := true }

/-- the source: the files `a`, `c`, the directory `sub` with the file `sub/b` -/
def exFilesF : List EnginePlan.FileEntry :=
  [exEntry "a" 3 5000000000 false, exEntry "c" 2 7 false, exEntry "sub" 0 0 true, exEntry "sub/b" 1 1000000000 false]

/-- the destination: `a` is a DIRECTORY (holding `a/x`), `sub` is a FILE — a parent-closed listing -/
def exDstF : Map DNode := [(["a"], .dir), (["a", "x"], .file ⟨9, 1, 1, [], 2⟩), (["sub"], .file ⟨5, 1, 1, [], 3⟩)]

def exEWF : EWorld :=
  { xw := { root := "d".toList, w := { dst := exDstF, linkMap := [], nextIno := 100, bytes := 0 },
            src := fun p => if p = "s/a".toList then .file ⟨7, 3, 5000000000, [], 10⟩
                            else if p = "s/c".toList then .file ⟨6, 2, 7, [], 12⟩
                            else if p = "s/sub/b".toList then .file ⟨8, 1, 1000000000, [], 11⟩
                            else if p = "s/sub".toList then .dir else .dangling,
            valId := fun _ => 0 },
    log := [] }

def exInF : RunIn :=
  { files := exFilesF, scanned := ["a".toList, "c".toList, "sub".toList, "sub/b".toList],
    view := { through := fun _ => .dangling, dirInfo := fun _ => (4096, 0), srcRoot := "s".toList }, mode := .None }

def exScanF : List SEntry := exFilesF.map (absS exEWF.xw)

theorem exFileOKF (cfg : Cfg) : ∀ f ∈ exInF.files, FileOK cfg exEWF exInF.view f := by
  intro f hf
  simp only [exInF, exFilesF, List.mem_cons, List.not_mem_nil, or_false] at hf
  rcases hf with rfl | rfl | rfl | rfl
  · exact ⟨by decide, (fun h => by cases h), (fun h => by cases h), by decide, (fun _ _ => ⟨_, rfl, rfl, rfl⟩),
      (fun _ _ _ h => absurd h (by decide))⟩
  · exact ⟨by decide, (fun h => by cases h), (fun h => by cases h), by decide, (fun _ _ => ⟨_, rfl, rfl, rfl⟩),
      (fun _ _ _ h => absurd h (by decide))⟩
  · exact ⟨by decide, (fun h => by cases h), (fun h => by cases h), by decide, (fun _ h => by cases h),
      (fun _ h => by cases h)⟩
  · exact ⟨by decide, (fun h => by cases h), (fun h => by cases h), by decide, (fun _ _ => ⟨_, rfl, rfl, rfl⟩),
      (fun _ _ _ h => absurd h (by decide))⟩

/-- **`RunHypS` is satisfiable on a run with failing tasks** — no clause about failures is assumed -/
theorem exFailHyp : RunHypS exCfgF exInF exEWF exScanF exDstF 100 where
  init := rfl
  logEmpty := rfl
  tie := rfl
  modeNone := rfl
  filtered := by decide
  scannedRels := by decide
  files := exFileOKF _
  cleanKeys := by decide
  unique := by decide
  parentsFirst := by decide
  closed := by decide

/-- the model's run of the example DOES record errors: the update of `a` (a directory is in the way), the creation of
    the directory `sub` (a file is in the way), the creation of `sub/b` (the file `sub` is on the way) — so neither
    `failClean_of_no_errors` nor `failClean_of_dry_run` applies -/
example : ((plan exCfgF exScanF exDstF).foldl (execTask exCfgF noFaults) (initExec exDstF 100)).b.errors.reverse =
    [(.update, ["a"]), (.create, ["sub"]), (.create, ["sub", "b"])] := by decide

/-- … each of them with its cause -/
example : perform exCfgF (initExec exDstF 100).w ⟨.update, ["a"], .file ⟨7, 3, 5000000000, [], 10⟩ 1⟩ = none ∧
    perform exCfgF (initExec exDstF 100).w ⟨.create, ["sub"], .dir⟩ = none ∧
    perform exCfgF (initExec exDstF 100).w ⟨.create, ["sub", "b"], .file ⟨8, 1, 1000000000, [], 11⟩ 1⟩ = none := by
  decide

/-- `FailClean` of that run, BY THE THEOREM -/
example : FailClean exCfgF (initExec exDstF 100) (plan exCfgF exScanF exDstF) :=
  failClean_structural exCfgF exScanF exDstF 100 (by decide) (by decide)

/-- **the capstone on the failing example**: the composition answers, exits 1, reports exactly the three errors, still
    creates `c` and deletes `a/x`; `a` and `sub` stay what they were — the values are the MODEL's, transported through
    `seqEngine_eq_model_structural` -/
theorem exFail_values : ∃ o, seqEngine exCfgF exInF exEWF = some o ∧
    (absOut exCfgF exEWF o).refused = false ∧ (absOut exCfgF exEWF o).exit = 1 ∧
    (absOut exCfgF exEWF o).errors = [(.update, ["a"]), (.create, ["sub"]), (.create, ["sub", "b"])] ∧
    (absOut exCfgF exEWF o).events = [(.create, ["c"]), (.delete, ["a", "x"])] ∧
    (absOut exCfgF exEWF o).dst.keys = [["c"], ["a"], ["sub"]] := by
  obtain ⟨o, ho, heq⟩ := seqEngine_eq_model_structural exFailHyp
  refine ⟨o, ho, ?_⟩
  rw [heq]
  decide

/-- … and the destination it leaves is parent-closed again -/
example : ∃ o, seqEngine exCfgF exInF exEWF = some o ∧ DstParentClosed o.world.xw.w.dst :=
  structural_dst_closed exFailHyp

/-- **THE COMPOSITION, RUN BY THE KERNEL, on the failing example**: every translated unit evaluated — four planning
    rounds, `plan_deletions` + `retain`, five task bodies through the translated executors (three of them answer `Err`),
    the exit decision: exit 1, `c` created, `a/x` deleted, three error records, two events, NO residue -/
theorem exFail_result : viewOut (seqEngine exCfgF exInF exEWF) =
    some ⟨false, 1, [["c"], ["a"], ["sub"]], 1, 0, 0, 1, 3, 2⟩ := by decide

/-! ### `-H`: a failing member of a link group (model level) -/

/-- `-H`, no `--delete` -/
def exCfgH : Cfg := { exCfg with delete := false, hardlinks := true }

/-- two names `g1`, `g2` of one inode (9), and a third one `g3` -/
def exScanH : List SEntry :=
  [⟨["g1"], .file ⟨1, 1, 1, [], 9⟩ 3, 1, false⟩, ⟨["g2"], .file ⟨1, 1, 1, [], 9⟩ 3, 1, false⟩,
   ⟨["g3"], .file ⟨1, 1, 1, [], 9⟩ 3, 1, false⟩]

/-- `g2` is a directory in the destination -/
def exDstH : Map DNode := [(["g2"], .dir)]

/-- the re-link of `g2` fails (a directory is in the way) while `g1` is written and `g3` is linked to it -/
example : ((plan exCfgH exScanH exDstH).foldl (execTask exCfgH noFaults) (initExec exDstH 0)).b.errors =
    [(.update, ["g2"])] ∧
    ((plan exCfgH exScanH exDstH).foldl (execTask exCfgH noFaults) (initExec exDstH 0)).w.dst.keys =
      [["g3"], ["g1"], ["g2"]] := by decide

example : FailClean exCfgH (initExec exDstH 0) (plan exCfgH exScanH exDstH) :=
  failClean_structural exCfgH exScanH exDstH 0 (by decide) (by decide)

end examples

end SyModel.Props.GenEngineRunClean
