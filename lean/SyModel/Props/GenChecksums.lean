/-
  Props.GenChecksums — bridge theorems for the translated unit `Checksums` (`SyModel/Generated/Code/Checksums.lean`,
  regenerated from /repo/src/delta/checksum.rs on every run): the translated `compute_checksums`, run on the documented
  instance `cinst strong` of its `Ext` record (Lemmas/GenChecksums.lean PART 1, trusted), computes exactly the
  handwritten model `SyModel.Delta.checksums` the C04 theorems are about; the dependence of that equality on FULL reads
  as a theorem (positive with the hypothesis `FullReads`, negative on the instance `cinstShort k`); C04 restated about
  the COMPOSITION of the translated functions (checksums of the old file, either translated generator on the new file).
  Property theorems only; helper lemmas live in `SyModel/Lemmas/GenChecksums.lean`.
-/
import SyModel.Lemmas.GenChecksums
import SyModel.Props.GenDelta
import SyModel.Props.GenDeltaStream
set_option autoImplicit false
namespace SyModel.Props.GenChecksums
open SyModel SyModel.Delta SyModel.Generated SyModel.Generated.Checksums SyModel.GenDelta SyModel.GenChecksums

/-! ### 1. normal form (every `Ext`) -/

/-- NORMAL FORM (every `Ext`): the translated `compute_checksums` is `metadata(path)`, the empty-file return, then
    the closure `blockM` (open, `seek(index * block_size)`, ONE `read` into a zeroed buffer of `block_size` bytes, the
    record with `offset = index * block_size`, `size = bytes_read`, both hashes over `buffer[..bytes_read]`) for the
    indices `0 … div_ceil(len, block_size) - 1` IN ORDER, the first error ending the run.  This is the only theorem
    that depends on the SHAPE of the generated code; everything below is about `blockM`. -/
theorem compute_checksums_normal_form {W : Type} (ext : Ext W) (path : Rs.Path) (bs : Nat) :
    compute_checksums ext path bs =
      (ext.std_fs_metadata path >>= fun md =>
        if (Rs.len md == 0) = true then pure []
        else seqM (blockM ext path bs) (List.range' 0 (Rs.div_ceil (Rs.len md) bs))) :=
  compute_checksums_nf ext path bs

/-! ### 2. the translated function on the instance is the model -/

/-- **`compute_checksums` = model, the full-read hypothesis explicit.**  For every `read` operation that is FULL on
    live handles (`FullReads`), every world in which `p` is a regular file with content `old` and every
    `0 < block_size`: the translated `compute_checksums` succeeds with a list `cs` whose abstraction is exactly the
    model's `checksums strong bs old`; entry `i` carries `index = i` and `offset = i * bs`; there are
    `div_ceil(|old|, bs)` entries; file contents are what they were (one more open handle per block). -/
theorem compute_checksums_eq_model_of_fullReads (strong : Bytes → Nat)
    (rd : Nat → List Nat → Rs.M DWorld (Nat × List Nat)) (hfull : FullReads rd)
    (w : DWorld) (p : Rs.Path) (old : Bytes) (hfile : w.files p = some old) (bs : Nat) (hbs : 0 < bs) :
    ∃ cs w', compute_checksums (cinstWith strong rd) p bs w = (.ok cs, w') ∧
      cs.map absBlockC = checksums strong bs old ∧
      cs.length = Rs.div_ceil old.length bs ∧
      (∀ i (h : i < cs.length), cs[i].index = i ∧ cs[i].offset = i * bs) ∧
      w'.files = w.files ∧ w'.opened = w.opened + cs.length := by
  refine ⟨_, _, compute_checksums_cap bs strong rd bs (fullReads_cap rd hfull bs) p old w hfile,
    map_blockOf_full bs strong bs hbs (Nat.le_refl _) old, by simp, ?_, foldl_stepW_files _ _ _ _ _ _, ?_⟩
  · intro i h
    simp [blockOf]
  · rw [foldl_stepW_opened]; simp

/-- **`compute_checksums` = model** on THE instance `cinst strong` (full reads, `GenDelta.readOp`). -/
theorem compute_checksums_eq_model (strong : Bytes → Nat) (w : DWorld) (p : Rs.Path) (old : Bytes)
    (hfile : w.files p = some old) (bs : Nat) (hbs : 0 < bs) :
    ∃ cs w', compute_checksums (cinst strong) p bs w = (.ok cs, w') ∧
      cs.map absBlockC = checksums strong bs old ∧
      cs.length = Rs.div_ceil old.length bs ∧
      (∀ i (h : i < cs.length), cs[i].index = i ∧ cs[i].offset = i * bs) ∧
      w'.files = w.files ∧ w'.opened = w.opened + cs.length :=
  compute_checksums_eq_model_of_fullReads strong readOp fullReads_readOp w p old hfile bs hbs

/-- the same result as records of unit `Delta` (what the translated generators take): exactly `repBlock bs` of the
    model's list — in particular `index = offset / block_size`, the reading `Delta.Core` gives of the field the model
    does not carry -/
theorem compute_checksums_eq_repBlock (strong : Bytes → Nat) (w : DWorld) (p : Rs.Path) (old : Bytes)
    (hfile : w.files p = some old) (bs : Nat) (hbs : 0 < bs) :
    ∃ cs w', compute_checksums (cinst strong) p bs w = (.ok cs, w') ∧
      cs.map toDeltaBC = (checksums strong bs old).map (repBlock bs) := by
  obtain ⟨cs, w', hrun, hmodel, -, hidx, -, -⟩ := compute_checksums_eq_model strong w p old hfile bs hbs
  refine ⟨cs, w', hrun, ?_⟩
  rw [← hmodel, List.map_map]
  apply List.ext_getElem (by simp)
  intro i h1 h2
  simp only [List.getElem_map, Function.comp, toDeltaBC, repBlock, absBlockC]
  obtain ⟨hi, ho⟩ := hidx i (by simpa using h1)
  rw [hi, ho, Nat.mul_div_cancel _ hbs]

/-- a missing file: the `std::fs::metadata` error, nothing changes (no handle is opened) -/
theorem compute_checksums_missing (strong : Bytes → Nat) (rd : Nat → List Nat → Rs.M DWorld (Nat × List Nat))
    (w : DWorld) (p : Rs.Path) (hfile : w.files p = none) (bs : Nat) :
    compute_checksums (cinstWith strong rd) p bs w = (.error .io, w) := by
  rw [compute_checksums_nf, run_bind]
  have h1 : (cinstWith strong rd).std_fs_metadata p w = (.error .io, w) := by simp [cinstWith, statOp, hfile]
  rw [h1]

/-- an empty file: no block, no handle opened, for every block size (0 included: Rust returns before the division) -/
theorem compute_checksums_empty (strong : Bytes → Nat) (rd : Nat → List Nat → Rs.M DWorld (Nat × List Nat))
    (w : DWorld) (p : Rs.Path) (hfile : w.files p = some []) (bs : Nat) :
    compute_checksums (cinstWith strong rd) p bs w = (.ok [], w) := by
  rw [compute_checksums_nf, run_bind]
  have h1 : (cinstWith strong rd).std_fs_metadata p w = (.ok { dir := false, mtime := 0, size := 0 }, w) :=
    statOp_some p [] w hfile
  rw [h1]
  rfl

/-- the file contents are never changed, with or without the file, for every block size -/
theorem compute_checksums_files_unchanged (strong : Bytes → Nat) (w : DWorld) (p : Rs.Path) (bs : Nat) :
    (compute_checksums (cinst strong) p bs w).2.files = w.files := by
  cases hfile : w.files p with
  | none => rw [cinst, compute_checksums_missing strong readOp w p hfile]
  | some old =>
    rw [cinst, compute_checksums_cap bs strong readOp bs (fullReads_cap readOp fullReads_readOp bs) p old w hfile]
    exact foldl_stepW_files _ _ _ _ _ _

/-! ### `block_size = 0`: an observation about the translation -/

/-- OBSERVATION.  For `block_size = 0` and a NON-EMPTY file the Rust code panics (`u64::div_ceil(0)`: "attempt to
    divide by zero", checksum.rs:41).  The TRANSLATION computes `Rs.div_ceil n 0 = (n + 0 - 1) / 0 = 0` (`Nat`
    division by zero is 0), runs the loop zero times and answers `Ok([])` without opening the file; the MODEL
    (`checksumsFrom`, branch `bs = 0`) answers `[]` as well.  So translation and model agree with each other and both
    differ from the code (a panic is not representable in `Rs.M`); the bridge theorems carry `0 < bs` for that reason,
    not because the equality fails.  `calculate_block_size` never yields 0 (`C04.consts_ok_block_min`); `sy-remote
    checksums --block-size 0` reaches the panic. -/
theorem compute_checksums_bs0_observation (strong : Bytes → Nat) (rd : Nat → List Nat → Rs.M DWorld (Nat × List Nat))
    (w : DWorld) (p : Rs.Path) (old : Bytes) (hfile : w.files p = some old) :
    compute_checksums (cinstWith strong rd) p 0 w = (.ok [], w) ∧ checksums strong 0 old = [] ∧
      ∀ n, Rs.div_ceil n 0 = 0 := by
  refine ⟨?_, ?_, fun n => by simp [Rs.div_ceil]⟩
  · rw [compute_checksums_nf, run_bind]
    have h1 : (cinstWith strong rd).std_fs_metadata p w = (.ok { dir := false, mtime := 0, size := old.length }, w) :=
      statOp_some p old w hfile
    rw [h1]
    simp only
    split
    · rfl
    · simp [Rs.div_ceil, seqM]; rfl
  · rw [checksums, checksumsFrom]; simp

/-! ### 3. the short-read hazard

`compute_checksums` performs ONE `read` per block and labels the block `size = bytes_read`.  `Read::read` may deliver
fewer bytes than asked for before end of file; the equality with the model holds exactly as long as it does not. -/

/-- EXACT RESULT on the instance whose `read` delivers at most `k` bytes per call, for every `k`, block size and file:
    block `i` is `offset = i * bs`, `size = min(bs, k, |old| - i * bs)` with the hashes of exactly those bytes; the
    number of blocks is still `div_ceil(|old|, bs)` (it comes from the file length, not from what was read). -/
theorem compute_checksums_short_exact (k : Nat) (strong : Bytes → Nat) (w : DWorld) (p : Rs.Path) (old : Bytes)
    (hfile : w.files p = some old) (bs : Nat) :
    compute_checksums (cinstShort k strong) p bs w =
      (.ok ((List.range' 0 (Rs.div_ceil old.length bs)).map (blockOf k strong bs old)),
       (List.range' 0 (Rs.div_ceil old.length bs)).foldl (stepW k bs p old) w) :=
  compute_checksums_cap k strong (readCapOp k) bs (fun _ _ _ => rfl) p old w hfile

/-- a cap of at least one block is harmless: the model's list -/
theorem compute_checksums_short_ge_eq_model (k : Nat) (strong : Bytes → Nat) (w : DWorld) (p : Rs.Path) (old : Bytes)
    (hfile : w.files p = some old) (bs : Nat) (hbs : 0 < bs) (hk : bs ≤ k) :
    ∃ cs w', compute_checksums (cinstShort k strong) p bs w = (.ok cs, w') ∧
      cs.map absBlockC = checksums strong bs old :=
  ⟨_, _, compute_checksums_short_exact k strong w p old hfile bs, map_blockOf_full k strong bs hbs hk old⟩

/-- **THE HAZARD, for all inputs.**  When one `read` delivers at most `k < block_size` bytes and the file is longer
    than `k`, the translated `compute_checksums` still SUCCEEDS and its result is NOT the model's checksum list (the
    first entry already has `size = k` where the model has `min(bs, |old|) > k`).  So `FullReads` cannot be dropped
    from `compute_checksums_eq_model_of_fullReads`. -/
theorem compute_checksums_short_ne_model (k : Nat) (strong : Bytes → Nat) (w : DWorld) (p : Rs.Path) (old : Bytes)
    (hfile : w.files p = some old) (bs : Nat) (hbs : 0 < bs) (hk : k < bs) (hlen : k < old.length) :
    ∃ cs w', compute_checksums (cinstShort k strong) p bs w = (.ok cs, w') ∧
      cs.map absBlockC ≠ checksums strong bs old := by
  refine ⟨_, _, compute_checksums_short_exact k strong w p old hfile bs, ?_⟩
  rw [checksums, checksumsFrom_eq_range strong bs hbs, div_ceil_step _ _ (by omega) hbs, List.range'_succ]
  simp only [List.map_cons]
  intro h
  have h0 := (List.cons.inj h).1
  have hs : (absBlockC (blockOf k strong bs old 0)).size = (modelBlock strong bs 0 old 0).size := by rw [h0]
  simp only [absBlockC, blockOf, modelBlock, Nat.zero_mul, Nat.sub_zero, List.drop_zero, List.length_take] at hs
  omega

/-- … and yet every entry is TRUTHFUL: it lies inside `old` and carries the two hashes of exactly the bytes
    `old[offset .. offset + size)` — because the closure SEEKS to `index * block_size` for every block, a short read
    shortens the entry but never mislabels it.  What is lost is the tiling (`C04.checksums_cover`: `size = bs` except
    at the end), i.e. matches, not the soundness of a match.  The seeded change C04c read SEQUENTIALLY through one
    buffered handle (no seek per block) with the same `offset = index * block_size` labelling; there the short read
    also shifts every later block, the entries stop being truthful and reconstruction fails. -/
theorem compute_checksums_short_entries_truthful (k : Nat) (strong : Bytes → Nat) (w : DWorld) (p : Rs.Path)
    (old : Bytes) (hfile : w.files p = some old) (bs : Nat) (hbs : 0 < bs) :
    ∃ cs w', compute_checksums (cinstShort k strong) p bs w = (.ok cs, w') ∧
      ∀ c ∈ cs, c.offset + c.size ≤ old.length ∧ c.size ≤ bs ∧ c.offset % bs = 0 ∧
        c.weak = hashBytes ((old.drop c.offset).take c.size) ∧
        c.strong = strong ((old.drop c.offset).take c.size) := by
  refine ⟨_, _, compute_checksums_short_exact k strong w p old hfile bs, ?_⟩
  intro c hc
  obtain ⟨i, hi, rfl⟩ := List.mem_map.mp hc
  have hi' : i < Rs.div_ceil old.length bs := by simpa using (List.mem_range'_1.mp hi).2
  have hlt : i * bs < old.length := by
    unfold Rs.div_ceil at hi'
    have := (Nat.le_div_iff_mul_le hbs).mp hi'
    rw [Nat.succ_mul] at this
    omega
  refine ⟨?_, ?_, ?_, rfl, rfl⟩
  · simp only [blockOf]; omega
  · simp only [blockOf]; omega
  · simp [blockOf]

/-- the world of the concrete witness: one file `s` holding seven bytes — three blocks of size 3 -/
def wS : DWorld :=
  { files := fun p => if p = ['s'] then some [1, 2, 3, 4, 5, 6, 7] else none, opened := 0, handle := fun _ => none }

/-- **Concrete counterexample (`k = block_size - 1`).**  `old = [1..7]`, `block_size = 3`, a `read` that delivers at
    most 2 bytes per call: the translated `compute_checksums` answers three entries of sizes 2, 2, 1 at offsets 0, 3, 6
    (the bytes `old[2]` and `old[5]` belong to no entry), the model three entries of sizes 3, 3, 1; with full reads the
    translated function answers the model's list. -/
theorem compute_checksums_counterexample_short_read (strong : Bytes → Nat) :
    (compute_checksums (cinstShort 2 strong) ['s'] 3 wS).1 =
        .ok [⟨0, 0, 2, hashBytes [1, 2], strong [1, 2]⟩, ⟨1, 3, 2, hashBytes [4, 5], strong [4, 5]⟩,
             ⟨2, 6, 1, hashBytes [7], strong [7]⟩] ∧
      checksums strong 3 [1, 2, 3, 4, 5, 6, 7] =
        [⟨0, 3, hashBytes [1, 2, 3], strong [1, 2, 3]⟩, ⟨3, 3, hashBytes [4, 5, 6], strong [4, 5, 6]⟩,
         ⟨6, 1, hashBytes [7], strong [7]⟩] ∧
      (compute_checksums (cinst strong) ['s'] 3 wS).1 =
        .ok [⟨0, 0, 3, hashBytes [1, 2, 3], strong [1, 2, 3]⟩, ⟨1, 3, 3, hashBytes [4, 5, 6], strong [4, 5, 6]⟩,
             ⟨2, 6, 1, hashBytes [7], strong [7]⟩] := by
  have hr : List.range' 0 (Rs.div_ceil 7 3) = [0, 1, 2] := by decide
  refine ⟨?_, ?_, ?_⟩
  · rw [compute_checksums_short_exact 2 strong wS ['s'] [1, 2, 3, 4, 5, 6, 7] (by simp [wS]) 3]
    simp [hr, blockOf, blkBytes]
  · rw [checksums, checksumsFrom_eq_range strong 3 (by decide)]
    simp [hr, modelBlock]
  · rw [cinst, compute_checksums_cap 3 strong readOp 3 (fullReads_cap readOp fullReads_readOp 3) ['s']
      [1, 2, 3, 4, 5, 6, 7] wS (by simp [wS])]
    simp [hr, blockOf, blkBytes]

/-- `FullReads` is what separates the two instances: a capped `read` is not full (for any cap) -/
theorem capped_read_not_full (k : Nat) : ¬ FullReads (readCapOp k) := by
  intro h
  have := h 1 (List.replicate (k + 1) 0)
    { files := fun _ => some (List.replicate (k + 1) 0), opened := 1, handle := fun _ => some ([], 0) } (by simp [DWorld.source])
  have h1 := congrArg (fun r => r.1.toOption.map (·.1)) this
  simp [readCapOp, readOp, DWorld.source, Except.toOption] at h1

/-! ### 4. C04 about the COMPOSITION of the translated functions -/

/-- **C04, translated pipeline (in-memory generator).**  In any world where `pOld` holds `old` and `pNew` holds `new`,
    for `0 < bs` and `NoCollision` (as in `Props/C04`): running the translated `compute_checksums` on the old file and
    handing its result — as it is, through the field-by-field record conversion `toDeltaBC` — to the translated
    `generate_delta` on the new file succeeds, leaves all file contents as they were, and applying the returned ops to
    `old` gives exactly `new`. -/
theorem translated_pipeline_reconstructs (strong : Bytes → Nat) (w : DWorld) (pOld pNew : Rs.Path) (old new : Bytes)
    (hold : w.files pOld = some old) (hnew : w.files pNew = some new) (bs : Nat) (hbs : 0 < bs)
    (hc : NoCollision strong old new bs) :
    ∃ d w', (compute_checksums (cinst strong) pOld bs >>= fun cs =>
        Generated.Delta.generate_delta (inst strong) pNew (cs.map toDeltaBC) bs) w = (.ok d, w') ∧
      w'.files = w.files ∧ d.source_size = new.length ∧ d.block_size = bs ∧
      applyOps old (d.ops.map absOp) = some new := by
  obtain ⟨cs, w1, hrun, hmodel, -, -, hfiles, -⟩ := compute_checksums_eq_model strong w pOld old hold bs hbs
  obtain ⟨d, w2, hgen, hfiles2, hs, hb, happ⟩ := GenDelta.translated_genMem_reconstructs strong w1 pNew old new
    (by rw [hfiles]; exact hnew) (cs.map toDeltaBC) bs (by rw [map_absBlock_toDeltaBC]; exact hmodel) hbs hc
  refine ⟨d, w2, ?_, by rw [hfiles2, hfiles], hs, hb, happ⟩
  rw [run_bind, hrun]
  exact hgen

/-- **C04, translated pipeline (streaming generator, the one `sy` uses for remote delta sync).**  The same with
    `generate_delta_streaming`, for `0 < bs ≤ CHUNK_SIZE = 256 * 1024` (sy's block sizes are `≤ 128 KiB`,
    `C04.consts_ok_chunk`). -/
theorem translated_pipeline_streaming_reconstructs (strong : Bytes → Nat) (w : DWorld) (pOld pNew : Rs.Path)
    (old new : Bytes) (hold : w.files pOld = some old) (hnew : w.files pNew = some new) (bs : Nat) (hbs : 0 < bs)
    (hchunk : bs ≤ 256 * 1024) (hc : NoCollision strong old new bs) :
    ∃ d w', (compute_checksums (cinst strong) pOld bs >>= fun cs =>
        Generated.Delta.generate_delta_streaming (inst strong) pNew (cs.map toDeltaBC) bs) w = (.ok d, w') ∧
      w'.files = w.files ∧ d.source_size = new.length ∧ d.block_size = bs ∧
      applyOps old (d.ops.map absOp) = some new := by
  obtain ⟨cs, w1, hrun, hmodel, -, -, hfiles, -⟩ := compute_checksums_eq_model strong w pOld old hold bs hbs
  obtain ⟨d, w2, hgen, hfiles2, hs, hb, happ⟩ := GenDeltaStream.translated_genStream_reconstructs strong w1 pNew old new
    (by rw [hfiles]; exact hnew) (cs.map toDeltaBC) bs (by rw [map_absBlock_toDeltaBC]; exact hmodel) hbs hchunk hc
  refine ⟨d, w2, ?_, by rw [hfiles2, hfiles], hs, hb, happ⟩
  rw [run_bind, hrun]
  exact hgen

/-- every `Copy` either translated pipeline returns references a range inside `old` -/
theorem translated_pipeline_copies_in_range (strong : Bytes → Nat) (w : DWorld) (pOld pNew : Rs.Path) (old new : Bytes)
    (hold : w.files pOld = some old) (hnew : w.files pNew = some new) (bs : Nat) (hbs : 0 < bs)
    (hchunk : bs ≤ 256 * 1024) (hc : NoCollision strong old new bs) :
    (∃ d w', (compute_checksums (cinst strong) pOld bs >>= fun cs =>
        Generated.Delta.generate_delta (inst strong) pNew (cs.map toDeltaBC) bs) w = (.ok d, w') ∧
      ∀ off sz, Generated.Delta.DeltaOp.Copy off sz ∈ d.ops → sz = 0 ∨ off + sz ≤ old.length) ∧
    (∃ d w', (compute_checksums (cinst strong) pOld bs >>= fun cs =>
        Generated.Delta.generate_delta_streaming (inst strong) pNew (cs.map toDeltaBC) bs) w = (.ok d, w') ∧
      ∀ off sz, Generated.Delta.DeltaOp.Copy off sz ∈ d.ops → sz = 0 ∨ off + sz ≤ old.length) := by
  obtain ⟨cs, w1, hrun, hmodel, -, -, hfiles, -⟩ := compute_checksums_eq_model strong w pOld old hold bs hbs
  have hnew1 : w1.files pNew = some new := by rw [hfiles]; exact hnew
  have hcs : (cs.map toDeltaBC).map absBlock = checksums strong bs old := by rw [map_absBlock_toDeltaBC]; exact hmodel
  constructor
  · obtain ⟨d, w2, hgen, hr⟩ := GenDelta.translated_copies_in_range strong w1 pNew old new hnew1 _ bs hcs hbs hc
    exact ⟨d, w2, by rw [run_bind, hrun]; exact hgen, hr⟩
  · obtain ⟨d, w2, hgen, hr⟩ := GenDeltaStream.translated_streaming_copies_in_range strong w1 pNew old new hnew1 _ bs
      hcs hbs hchunk hc
    exact ⟨d, w2, by rw [run_bind, hrun]; exact hgen, hr⟩

/-- **What the hazard costs in THIS code: matches, not correctness.**  With a `read` capped at ANY `k` (short reads
    included) and a collision-free strong hash, the composition `compute_checksums` → `generate_delta` still
    reconstructs `new` exactly: the entries are truthful (`compute_checksums_short_entries_truthful`), and the
    generators only need that (`CandidatesSound`).  The per-block `seek` is what makes this true; compare mutation
    (c) of INTEGRATION.md and the seeded change C04c, where it is gone. -/
theorem translated_pipeline_short_reads_still_reconstruct (k : Nat) (strong : Bytes → Nat)
    (hinj : ∀ a b, strong a = strong b → a = b) (w : DWorld) (pOld pNew : Rs.Path) (old new : Bytes)
    (hold : w.files pOld = some old) (hnew : w.files pNew = some new) (bs : Nat) (hbs : 0 < bs) :
    ∃ d w', (compute_checksums (cinstShort k strong) pOld bs >>= fun cs =>
        Generated.Delta.generate_delta (inst strong) pNew (cs.map toDeltaBC) bs) w = (.ok d, w') ∧
      applyOps old (d.ops.map absOp) = some new := by
  obtain ⟨cs, w1, hrun, htruth⟩ := compute_checksums_short_entries_truthful k strong w pOld old hold bs hbs
  have hfiles : w1.files = w.files := by
    rw [compute_checksums_short_exact k strong w pOld old hold bs] at hrun
    rw [← (Prod.mk.inj hrun).2]; exact foldl_stepW_files _ _ _ _ _ _
  have hgen := GenDelta.generate_delta_eq_model strong w1 pNew new (by rw [hfiles]; exact hnew) (cs.map toDeltaBC) bs hbs
  refine ⟨_, _, by rw [run_bind, hrun]; exact hgen, ?_⟩
  simp only [GenDelta.absOps_repOps, map_absBlock_toDeltaBC]
  unfold genMem
  refine genMemGo_spec strong old new _ bs hbs ?_ new _ [] [] [] (by simp [applyOps]) (by simp)
  intro c hc win _ hst
  obtain ⟨c', hc', rfl⟩ := List.mem_map.mp hc
  obtain ⟨hrange, -, -, -, hstrong⟩ := htruth c' hc'
  have : (old.drop c'.offset).take c'.size = win := hinj _ _ (by simpa [absBlockC, hstrong] using hst)
  show readExact old c'.offset c'.size = some win
  unfold readExact
  rw [if_pos (Or.inr hrange), this]

/-! ### non-vacuity of the hypotheses -/

/-- `FullReads` holds of the world's `read` -/
example : FullReads readOp := fullReads_readOp

/-- `w.files p = some old`, `0 < bs`: the bridge on the witness world computes three blocks -/
example : ∃ cs w', compute_checksums (cinst (fun _ => 0)) ['s'] 3 wS = (.ok cs, w') ∧ cs.length = 3 := by
  obtain ⟨cs, w', h, -, hl, -⟩ := compute_checksums_eq_model (fun _ => 0) wS ['s'] [1, 2, 3, 4, 5, 6, 7] (by simp [wS]) 3
    (by decide)
  exact ⟨cs, w', h, by rw [hl]; decide⟩

/-- missing file: `w.files p = none` is satisfiable -/
example : (compute_checksums (cinst (fun _ => 0)) ['g'] 3 wS).1 = .error .io := by
  rw [cinst, compute_checksums_missing _ _ wS ['g'] (by simp [wS])]

/-- empty file: `w.files p = some []` is satisfiable -/
example : (compute_checksums (cinst (fun _ => 0)) ['e'] 3
    { files := fun p => if p = ['e'] then some [] else none, opened := 0, handle := fun _ => none }).1 = .ok [] := by
  rw [cinst, compute_checksums_empty _ _ _ ['e'] (by simp)]

/-- `k < bs`, `k < |old|` (the hazard) and `bs ≤ k` (harmless cap) are satisfiable on the witness world -/
example (strong : Bytes → Nat) : ∃ cs w', compute_checksums (cinstShort 2 strong) ['s'] 3 wS = (.ok cs, w') ∧
    cs.map absBlockC ≠ checksums strong 3 [1, 2, 3, 4, 5, 6, 7] :=
  compute_checksums_short_ne_model 2 strong wS ['s'] _ (by simp [wS]) 3 (by decide) (by decide) (by decide)

example (strong : Bytes → Nat) : ∃ cs w', compute_checksums (cinstShort 3 strong) ['s'] 3 wS = (.ok cs, w') ∧
    cs.map absBlockC = checksums strong 3 [1, 2, 3, 4, 5, 6, 7] :=
  compute_checksums_short_ge_eq_model 3 strong wS ['s'] _ (by simp [wS]) 3 (by decide) (by decide)

/-- an injective strong hash exists (`hinj` of `translated_pipeline_short_reads_still_reconstruct` and of the
    examples below is satisfiable): bytes as digits in base 257 -/
def enc : Bytes → Nat
  | [] => 0
  | x :: t => enc t * 257 + x.toNat + 1

theorem enc_injective : ∀ a b, enc a = enc b → a = b := by
  intro a
  induction a with
  | nil => intro b h; cases b with
    | nil => rfl
    | cons y t => simp [enc] at h
  | cons x t ih => intro b h; cases b with
    | nil => simp [enc] at h
    | cons y t' =>
      have hx := x.toNat_lt
      have hy := y.toNat_lt
      simp only [enc] at h
      have h1 : enc t = enc t' := by omega
      have h2 : x.toNat = y.toNat := by omega
      rw [ih t' h1, UInt8.toNat_inj.mp h2]

/-- short reads, `k = 2 < bs = 3`: the pipeline still reconstructs (instance of the theorem with a real `strong`) -/
example : ∃ d w', (compute_checksums (cinstShort 2 enc) ['o'] 3 >>= fun cs =>
      Generated.Delta.generate_delta (inst enc) ['n'] (cs.map toDeltaBC) 3)
        { files := fun p => if p = ['o'] then some [1, 2, 3, 4, 5, 6, 7] else if p = ['n'] then some [9, 4, 5, 6, 1, 2, 3, 7, 7]
            else none, opened := 0, handle := fun _ => none } = (.ok d, w') ∧
    applyOps [1, 2, 3, 4, 5, 6, 7] (d.ops.map absOp) = some [9, 4, 5, 6, 1, 2, 3, 7, 7] :=
  translated_pipeline_short_reads_still_reconstruct 2 enc enc_injective _ ['o'] ['n'] [1, 2, 3, 4, 5, 6, 7]
    [9, 4, 5, 6, 1, 2, 3, 7, 7] (by simp) (by simp) 3 (by decide)

/-- the world of the pipeline examples: the old file `o` and the new file `n` -/
def wP : DWorld :=
  { files := fun p => if p = ['o'] then some [1, 2, 3, 4, 5, 6, 7] else if p = ['n'] then some [9, 4, 5, 6, 1, 2, 3, 7, 7]
      else none,
    opened := 0, handle := fun _ => none }

/-- the hypotheses of both pipeline theorems are satisfiable together (two files, `bs = 3 ≤ 256 KiB`, `NoCollision`
    from an injective strong hash as in `Props/GenDelta`) -/
example (strong : Bytes → Nat) (hinj : ∀ a b, strong a = strong b → a = b) :
    ∃ d w', (compute_checksums (cinst strong) ['o'] 3 >>= fun cs =>
        Generated.Delta.generate_delta_streaming (inst strong) ['n'] (cs.map toDeltaBC) 3) wP = (.ok d, w') ∧
      applyOps [1, 2, 3, 4, 5, 6, 7] (d.ops.map absOp) = some [9, 4, 5, 6, 1, 2, 3, 7, 7] := by
  obtain ⟨d, w', h, -, -, -, ha⟩ := translated_pipeline_streaming_reconstructs strong wP ['o'] ['n']
    [1, 2, 3, 4, 5, 6, 7] [9, 4, 5, 6, 1, 2, 3, 7, 7] (by simp [wP]) (by simp [wP]) 3 (by decide) (by decide)
    (by intro c _ w _ h; exact hinj _ _ (by simpa using h))
  exact ⟨d, w', h, ha⟩

/-- … and the old and the new file may be the same path (`sy` re-syncing an unchanged file) -/
example (strong : Bytes → Nat) (hinj : ∀ a b, strong a = strong b → a = b) :
    ∃ d w', (compute_checksums (cinst strong) ['s'] 3 >>= fun cs =>
        Generated.Delta.generate_delta (inst strong) ['s'] (cs.map toDeltaBC) 3) wS = (.ok d, w') ∧
      applyOps [1, 2, 3, 4, 5, 6, 7] (d.ops.map absOp) = some [1, 2, 3, 4, 5, 6, 7] := by
  obtain ⟨d, w', h, -, -, -, ha⟩ := translated_pipeline_reconstructs strong wS ['s'] ['s']
    [1, 2, 3, 4, 5, 6, 7] [1, 2, 3, 4, 5, 6, 7] (by simp [wS]) (by simp [wS]) 3 (by decide)
    (by intro c _ w _ h; exact hinj _ _ (by simpa using h))
  exact ⟨d, w', h, ha⟩

end SyModel.Props.GenChecksums
