/-
  GenEngineRun — THE CAPSTONE: the SEQUENTIAL composition of the translated pieces of the one-way engine
  (`SyncEngine::sync`, src/sync/mod.rs, and the exit decision of `main`, src/main.rs) IS the model's run
  (`Engine.run` = `Engine.runF … noFaults`, Engine/Model.lean) — so every property theorem about `runF` (C01, C03, C06, C07,
  C08, C10, C19 …) is, for fault-free sequential runs, a theorem about "the translated pieces glued by a fold".

  The glue is `seqEngine` (Lemmas/GenEngineRunGlue.lean, TRUSTED, quoted in INTEGRATION.md): planning = the translated
  round `EnginePlan.plan_round` (instance `ext2`: planner operations = unit PlannerFx) folded over the filtered scan;
  with `--delete` the translated `plan_deletions`, the `retain`, the guard with the translated fragments
  (`EngineGuard.dest_file_count`, `Guards.delete_percentage`, `Guards.threshold_exceeded`); execution = the translated
  `EngineTask.run_task` (instance `engineExt cfg`: executors = unit Transfer) folded over the tasks with the statistics
  threaded; exit status = the translated `MainExit.sync_failed`.

  Theorems
    stage (i)   `planning_stage`        the task list handed to the executors, abstracted, IS `Engine.plan` (planned
                                        tasks in scan order, then the deletions); every task satisfies the hypotheses of
                                        the execution bridge
    stage (ii)  `guard_stage`           the glue's guard IS `guardRefuses` on the number of planned deletions and `destCount`
    stage (iii) `execution_stage`       the fold of `run_task` IS the fold of `execTask cfg noFaults` (world, counters,
                                        events, errors) — `Lemmas.GenEngineRun.execLoop_eq_foldl` applied to the plan
    stage (iv)  `exit_stage`            `sync_failed` on the final statistics IS the model's exit status
    `seqEngine_eq_model`                all together: `absOut (seqEngine …) = run cfg scan dst n`
    `failClean_of_dry_run`, `failClean_of_no_errors`   the restriction `FailClean` holds for dry runs and error-free runs
    `translated_*`                      C19, C19Truth, C10, C07, C08, C01 restated about the translated composition

  Hypotheses: ONE structure `RunHyp` (each clause documented; non-vacuity: `exRunHyp`, and the composition RUN by the
  kernel on that instance: `exRun_*`).

  NOT covered (details in INTEGRATION.md): more than one worker (C05's interleaving theorem + the Steps refinement), fault
  plans other than `noFaults`, runs in which a failed Create/Update leaves created parent directories behind (`FailClean`),
  the checksum database, the filter closure (its bridge is Props/GenFilter; the filtered list is an input here), the
  sort / barrier after planning, `Start` / `Summary` events, post-transfer verification (`verification_mode ≠ None`),
  `max_errors`, the f64 tie of the guard.
-/
import SyModel.Lemmas.GenEngineRunPlan
import SyModel.Props.C19
import SyModel.Props.C19Truth
import SyModel.Props.C10
import SyModel.Props.C07
import SyModel.Props.C08
import SyModel.Props.C01
set_option linter.unusedVariables false
set_option linter.unusedSimpArgs false
namespace SyModel.Props.GenEngineRun
open SyModel SyModel.Engine SyModel.Generated SyModel.GenEngineTask SyModel.Lemmas.GenEngineRun
open SyModel.Lemmas.GenEnginePlan (ext2 toPEntry ofPTask NothingBelowLinks)
open SyModel.Props.GenEnginePlan (planLoop modelAt_self ModelAt)

/-! ## the hypotheses -/

/-- **ALL hypotheses of the capstone**, collected from the component bridges.  `cfg` is the model's configuration (the
    engine's fields are read off it: `engOf`, `plannerOf`, `selfOf`, `GenGuards.viewOf`), `I` the run's other inputs
    (filtered files, scanned paths, the planner's extra view, the verification mode), `ew` the world the run starts in;
    `scan`, `dst`, `n` are what the model quantifies over. -/
structure RunHyp (cfg : Cfg) (I : RunIn) (ew : EWorld) (scan : List SEntry) (dst : Map DNode) (n : Nat) : Prop where
  /-- the world starts as the model's `initExec dst n`: destination map `dst`, no link group recorded, next inode `n`,
      byte counter 0 … -/
  init : ew.xw.w = { dst := dst, linkMap := [], nextIno := n, bytes := 0 }
  /-- … and nothing emitted yet -/
  logEmpty : ew.log = []
  /-- exact arithmetic in the guard (`f64` as ℚ; Props/GenGuards) -/
  tie : cfg.tie = false
  /-- no post-transfer verification (`verification_mode = None`: the model's verification failures are error records) -/
  modeNone : I.mode = .None
  /-- the files handed to the planning loop are the model's filtered scan (the filter closure is NOT composed here:
      Props/GenFilter `scan_filter_eq_model`) -/
  filtered : I.files.map (absS ew.xw) = scanFilter cfg scan
  /-- `scanned_paths` are the relative paths of the model's scan -/
  scannedRels : I.scanned.map SyModel.Lemmas.GenPlannerFx.compsOf = scan.map (·.rel)
  /-- the per-entry hypotheses (`CleanPath`, `Readable`, `SrcFile`, `HasInode`, `EntryOK`) -/
  files : ∀ f ∈ I.files, FileOK cfg ew I.view f
  /-- `CleanKeys` of Lemmas/GenPlannerFx: the destination's keys are paths a walk produces -/
  cleanKeys : ∀ k ∈ dst.keys, SyModel.Lemmas.GenPlannerFx.CleanPath k
  /-- no path twice / parents first in the filtered scan (`UniqueRels`, `ParentsFirst` of Lemmas/EngineWF) -/
  unique : UniqueRels (scanFilter cfg scan)
  parentsFirst : ParentsFirst (scanFilter cfg scan)
  /-- the destination map lists nothing below a symlink node (links are not resolved; GenEnginePlan `modelAt_self`) -/
  nothingBelowLinks : NothingBelowLinks dst
  /-- failed tasks leave nothing behind (Lemmas/GenEngineRun: the `Left` relation collapses) -/
  failClean : FailClean cfg (initExec dst n) (plan cfg scan dst)

/-! ## names for the intermediate values of the glue -/

/-- the retained deletions of the run (`[]` without `--delete`) -/
def delsOfRun (cfg : Cfg) (I : RunIn) (ew : EWorld) : List PlannerFx.SyncTask :=
  if cfg.delete then
    retainGlue I.scanned ew.xw.root
      (SyModel.Lemmas.GenPlannerFx.delsOf (I.files.map toPEntry) ((planWorldOf ew I.view).scanOf ew.xw.root))
  else []

/-- the task list handed to the execution loop, given what the planning loop returned -/
def tasksOfRun (cfg : Cfg) (I : RunIn) (ew : EWorld) (ts : List EnginePlan.SyncTask) : List EngineTask.SyncTask :=
  ts.map toXTask ++ (delsOfRun cfg I ew).map (fun d => toXTask (ofPTask d))

/-- the glue, with the planning loop's result named -/
theorem seqEngine_unfold (cfg : Cfg) (I : RunIn) (ew : EWorld) (ts : List EnginePlan.SyncTask) (rl : List Rs.Path)
    (hplan : SyModel.Lemmas.GenPlannerFx.runM
      (planLoop (ext2 (plannerOf cfg)) (engOf cfg) (planWorldOf ew I.view).root {} none I.files [] [])
      (planWorldOf ew I.view) = (.ok (ts, rl), planWorldOf ew I.view)) :
    seqEngine cfg I ew =
      if (cfg.delete && guardGlue cfg (delsOfRun cfg I ew) (planWorldOf ew I.view)) = true then
        some { refused := true, tasks := tasksOfRun cfg I ew ts, stats := stats0, results := [], world := ew, exit := 1 }
      else
        match SyModel.Lemmas.GenTransfer.runM
            (execLoop (engineExt cfg) {} {} cfg.dryRun true I.mode none none (tasksOfRun cfg I ew ts) stats0 []) ew with
        | (.error _, _) => none
        | (.ok (st, rs), ew') =>
          some { refused := false, tasks := tasksOfRun cfg I ew ts, stats := st, results := rs, world := ew',
                 exit := if MainExit.sync_failed ⟨st.errors.map fun _ => ⟨⟩, st.verification_failures⟩ then 1 else 0 } := by
  unfold seqEngine
  simp only [hplan, SyModel.Lemmas.GenPlannerFx.plan_deletions_run]
  rfl

section stages
variable {cfg : Cfg} {I : RunIn} {ew : EWorld} {scan : List SEntry} {dst : Map DNode} {n : Nat}

theorem RunHyp.dst_eq (H : RunHyp cfg I ew scan dst n) : ew.xw.w.dst = dst := by rw [H.init]

theorem RunHyp.cleanKeysW (H : RunHyp cfg I ew scan dst n) :
    SyModel.Lemmas.GenPlannerFx.CleanKeys (planWorldOf ew I.view) := by
  intro k hk
  have : k ∈ ew.xw.w.dst.keys := hk
  rw [H.dst_eq] at this
  exact H.cleanKeys k this

theorem RunHyp.init_exec (H : RunHyp cfg I ew scan dst n) : absExec ew stats0 = initExec dst n := by
  unfold absExec absBook initExec
  rw [H.init, H.logEmpty]
  rfl

/-! ## stage (i): planning -/

/-- **STAGE (i): the planning stage IS `Engine.plan`.**  The translated round folded over the filtered files never
    fails and leaves the world alone; the tasks it returns, followed by the retained result of the translated
    `plan_deletions` (with `--delete`), converted to the executors' type and read by THEIR abstraction (`absTaskE` at the
    task's key), are exactly the model's plan — same tasks, same order, payloads (xattrs included) as the executors will
    transfer them.  Every task satisfies the hypotheses of the execution bridge. -/
theorem planning_stage (H : RunHyp cfg I ew scan dst n) :
    ∃ ts rl,
      SyModel.Lemmas.GenPlannerFx.runM
        (planLoop (ext2 (plannerOf cfg)) (engOf cfg) (planWorldOf ew I.view).root {} none I.files [] [])
        (planWorldOf ew I.view) = (.ok (ts, rl), planWorldOf ew I.view) ∧
      (tasksOfRun cfg I ew ts).map (fun t => absTaskE cfg ew.xw t (keyOfTask ew.xw.root t)) = plan cfg scan dst ∧
      (∀ t ∈ tasksOfRun cfg I ew ts, TaskOK cfg ew.xw t (keyOfTask ew.xw.root t)) ∧
      (delsOfRun cfg I ew).length = ((plan cfg scan dst).filter (·.act == .delete)).length := by
  have hdst := H.dst_eq
  have hwo : SyModel.Props.GenEnginePlan.WalkOrder [] I.files :=
    walkOrder_of_absS ew.xw I.files (by rw [H.filtered]; exact H.unique) (by rw [H.filtered]; exact H.parentsFirst)
      (fun f hf => rel_ne_nil_of_clean _ (H.files f hf).clean)
  obtain ⟨ts, rl, hplan, hpairs⟩ := planLoop_coupled (plannerOf cfg) (engOf cfg) (planWorldOf ew I.view) {} I.files
    [] [] [] hwo (by intro l; simp)
  have hplan' : SyModel.Lemmas.GenPlannerFx.runM
      (planLoop (ext2 (plannerOf cfg)) (engOf cfg) (planWorldOf ew I.view).root {} none I.files [] [])
      (planWorldOf ew I.view) = (.ok (ts, rl), planWorldOf ew I.view) := by simpa using hplan
  -- every planned task: its key, its model task, `TaskOK`
  have hkeyP : ∀ t f, f ∈ I.files → Coupled (planWorldOf ew I.view) (plannerOf cfg) (engOf cfg) t f →
      keyOfTask ew.xw.root (toXTask t) = SyModel.Lemmas.GenPlannerFx.compsOf f.relative_path := by
    intro t f hf hc
    have hOK := coupled_taskOK cfg ew I.view f (H.files f hf) t hc
    unfold keyOfTask
    rw [hOK.dest, SyModel.Lemmas.GenTransfer.keyOf_destOf _ _ hOK.clean]
    rfl
  have hM : ∀ k, ModelAt (planWorldOf ew I.view) dst k := by
    intro k
    have := modelAt_self (planWorldOf ew I.view)
      (by show NothingBelowLinks ew.xw.w.dst; rw [hdst]; exact H.nothingBelowLinks) k
    rwa [show (planWorldOf ew I.view).dst = dst from hdst] at this
  have hts : ts.map (fun t => absTaskE cfg ew.xw (toXTask t) (keyOfTask ew.xw.root (toXTask t))) =
      I.files.map (fun f => planEntry cfg dst (absS ew.xw f)) :=
    hpairs.map_eq (fun t f _ hf hc => by
      rw [hkeyP t f hf hc]
      exact coupled_taskE cfg ew I.view f (H.files f hf) t hc dst (hM _))
  -- the deletions
  have hdelabs : (delsOfRun cfg I ew).map (SyModel.Lemmas.GenPlannerFx.absTask (planWorldOf ew I.view)) =
      if cfg.delete then planDeletions (scanFilter cfg scan) scan dst else [] := by
    unfold delsOfRun
    cases hd : cfg.delete
    · rfl
    · simp only [if_true]
      have := (deletions_eq_model cfg (planWorldOf ew I.view) H.cleanKeysW (plannerOf cfg) I.files I.scanned scan ew.xw
        H.scannedRels H.filtered).2
      rw [show (planWorldOf ew I.view).dst = dst from hdst] at this
      exact this
  have hdelE : ∀ d ∈ delsOfRun cfg I ew,
      absTaskE cfg ew.xw (toXTask (ofPTask d)) (keyOfTask ew.xw.root (toXTask (ofPTask d))) =
        SyModel.Lemmas.GenPlannerFx.absTask (planWorldOf ew I.view) d ∧
      TaskOK cfg ew.xw (toXTask (ofPTask d)) (keyOfTask ew.xw.root (toXTask (ofPTask d))) := by
    intro d hd
    unfold delsOfRun at hd
    cases hdel : cfg.delete
    · rw [hdel] at hd; simp at hd
    · rw [hdel] at hd
      simp only [if_true] at hd
      exact deletion_taskE cfg ew I.view H.cleanKeysW _ _ d hd
  refine ⟨ts, rl, hplan', ?_, ?_, ?_⟩
  · unfold tasksOfRun
    rw [List.map_append, List.map_map, List.map_map, plan_eq]
    congr 1
    · refine Eq.trans hts ?_
      rw [← H.filtered, List.map_map]
      rfl
    · rw [← hdelabs]
      exact List.map_congr_left (fun d hd => (hdelE d hd).1)
  · intro t' ht'
    unfold tasksOfRun at ht'
    rcases List.mem_append.1 ht' with h | h
    · obtain ⟨t, ht, rfl⟩ := List.mem_map.1 h
      obtain ⟨f, hf, hc⟩ := hpairs.forall_left t ht
      rw [hkeyP t f hf hc]
      exact coupled_taskOK cfg ew I.view f (H.files f hf) t hc
    · obtain ⟨d, hd, rfl⟩ := List.mem_map.1 h
      exact (hdelE d hd).2
  · rw [plan_eq, List.filter_append]
    have h1 : ((scanFilter cfg scan).map (planEntry cfg dst)).filter (·.act == .delete) = [] := by
      rw [List.filter_eq_nil_iff]
      intro t ht
      obtain ⟨e, _, rfl⟩ := List.mem_map.1 ht
      simpa using planEntry_act_ne_delete cfg dst e
    have h2 : (if cfg.delete then planDeletions (scanFilter cfg scan) scan dst else []).filter (·.act == .delete) =
        (if cfg.delete then planDeletions (scanFilter cfg scan) scan dst else []) := by
      rw [List.filter_eq_self]
      intro t ht
      cases hd : cfg.delete
      · rw [hd] at ht; simp at ht
      · rw [hd] at ht
        simp only [if_true] at ht
        simp [planDeletions_act ht]
    rw [h1, h2, List.nil_append, ← hdelabs, List.length_map]

/-! ## stage (ii): the guard -/

/-- **STAGE (ii): the guard stage IS `guardRefuses`** — numerator = the number of deletion tasks of the model's plan,
    denominator = `destCount dst` (through the translated `dest_file_count`), comparison = the translated fragments. -/
theorem guard_stage (H : RunHyp cfg I ew scan dst n) :
    (cfg.delete && guardGlue cfg (delsOfRun cfg I ew) (planWorldOf ew I.view)) =
      guardRefuses cfg ((plan cfg scan dst).filter (·.act == .delete)).length (destCount dst) := by
  obtain ⟨_, _, _, _, _, hlen⟩ := planning_stage H
  rw [guardGlue_eq cfg H.tie _ H.cleanKeysW, hlen]
  rw [show (planWorldOf ew I.view).dst = dst from H.dst_eq]

/-! ## stage (iii): execution -/

/-- **STAGE (iii): the execution stage IS the model's fold of `execTask cfg noFaults` over the plan.**  The translated task
    body folded over the run's task list from the initial world and `SyncStats::default()`: the loop never throws; the
    abstraction of the final world, statistics and event stream is the model's final `Exec`; no verification failure is
    counted; every error record is one the report's abstraction reads. -/
theorem execution_stage (H : RunHyp cfg I ew scan dst n) (ts : List EnginePlan.SyncTask)
    (habs : (tasksOfRun cfg I ew ts).map (fun t => absTaskE cfg ew.xw t (keyOfTask ew.xw.root t)) = plan cfg scan dst)
    (hok : ∀ t ∈ tasksOfRun cfg I ew ts, TaskOK cfg ew.xw t (keyOfTask ew.xw.root t)) :
    ∃ st rs ew',
      SyModel.Lemmas.GenTransfer.runM
        (execLoop (engineExt cfg) {} {} cfg.dryRun true I.mode none none (tasksOfRun cfg I ew ts) stats0 []) ew =
          (.ok (st, rs), ew') ∧
      absExec ew' st = (plan cfg scan dst).foldl (execTask cfg noFaults) (initExec dst n) ∧
      rs.length = (plan cfg scan dst).length ∧
      st.verification_failures = 0 ∧ AllErrAbs ew'.xw.root st := by
  let tks : List (EngineTask.SyncTask × Engine.Path) :=
    (tasksOfRun cfg I ew ts).map fun t => (t, keyOfTask ew.xw.root t)
  have htks1 : tks.map (·.1) = tasksOfRun cfg I ew ts := by
    simp only [tks, List.map_map]
    exact List.map_id' _
  have htksA : absTasksE cfg ew.xw tks = plan cfg scan dst := by
    rw [← habs]
    simp only [absTasksE, tks, List.map_map]
    rfl
  obtain ⟨st, rs, ew', hrun, henv, hfold, hlen, hv, herr⟩ :=
    execLoop_eq_foldl cfg {} {} I.mode none none tks ew stats0 []
      (by
        intro tk htk
        obtain ⟨t, ht, rfl⟩ := List.mem_map.1 htk
        exact hok t ht)
      (by rw [htksA, H.init_exec]; exact H.failClean)
  rw [htks1] at hrun
  rw [htksA, H.init_exec] at hfold
  refine ⟨st, rs, ew', by simpa using hrun, hfold, ?_, hv H.modeNone, ?_⟩
  · rw [hlen, ← htksA]; simp [absTasksE]
  · rw [henv.1]
    exact herr (by intro r hr; cases hr)

/-! ## stage (iv): the exit status -/

/-- **STAGE (iv): the translated failure test decides the model's exit status** whenever no verification failure was
    counted and the model's error list is as long as `stats.errors` -/
theorem exit_stage (st : EngineTask.SyncStats) (b : Book) (hv : st.verification_failures = 0)
    (hl : b.errors.length = st.errors.length) :
    (if MainExit.sync_failed ⟨st.errors.map fun _ => ⟨⟩, st.verification_failures⟩ then 1 else 0) =
      if b.errors.isEmpty then 0 else 1 := by
  unfold MainExit.sync_failed
  rw [hv]
  cases hs : st.errors <;> cases hb : b.errors <;> simp_all [Rs.is_empty, Rs.Len.len]

/-! ## all together -/

/-- **THE CAPSTONE.**  Under `RunHyp`: the sequential composition of the translated pieces answers, and the abstraction
    of what it answers — refused flag, final destination map, tasks, the four counters, byte counter, event list, error
    list, exit status — IS the model's fault-free run `run cfg scan dst n`. -/
theorem seqEngine_eq_model (H : RunHyp cfg I ew scan dst n) :
    ∃ o, seqEngine cfg I ew = some o ∧ absOut cfg ew o = run cfg scan dst n := by
  obtain ⟨ts, rl, hplan, habs, hok, _⟩ := planning_stage H
  have hguard := guard_stage H
  rw [seqEngine_unfold cfg I ew ts rl hplan]
  unfold run runF
  simp only []
  by_cases hg : guardRefuses cfg ((plan cfg scan dst).filter (·.act == .delete)).length (destCount dst) = true
  · rw [hguard, if_pos hg, if_pos hg]
    refine ⟨_, rfl, ?_⟩
    unfold absOut
    simp only [habs, H.logEmpty, H.dst_eq]
    rw [H.init]
    rfl
  · rw [hguard, if_neg hg, if_neg hg]
    obtain ⟨st, rs, ew', hrun, hfold, _, hv, herr⟩ := execution_stage H ts habs hok
    rw [hrun]
    refine ⟨_, rfl, ?_⟩
    have hw : ew'.xw.w = ((plan cfg scan dst).foldl (execTask cfg noFaults) (initExec dst n)).w :=
      congrArg Exec.w hfold
    have hb : absBook ew'.xw.root st ew'.log = ((plan cfg scan dst).foldl (execTask cfg noFaults) (initExec dst n)).b :=
      congrArg Exec.b hfold
    have hlen := absBook_errors_length ew'.xw.root st ew'.log herr
    unfold absOut
    simp only [habs, hw, hb, exit_stage st _ hv (hb ▸ hlen), Bool.not_false, Bool.true_and]

end stages

/-! ## the restriction `FailClean`: where it is known to hold -/

/-- in a DRY RUN no task fails -/
theorem failClean_of_dry_run (cfg : Cfg) (hd : cfg.dryRun = true) (ts : List Task) (st : Exec) :
    FailClean cfg st ts := by
  induction ts generalizing st with
  | nil => trivial
  | cons t ts ih =>
    refine ⟨fun h => ?_, ih _⟩
    rw [SyModel.Lemmas.GenTransfer.perform_dry cfg st.w t hd] at h
    cases h

/-- a run in which the MODEL records no error has no failed task -/
theorem failClean_of_no_new_errors (cfg : Cfg) (ts : List Task) (st : Exec)
    (h : (ts.foldl (execTask cfg noFaults) st).b.errors.length = st.b.errors.length) : FailClean cfg st ts := by
  induction ts generalizing st with
  | nil => trivial
  | cons t ts ih =>
    rw [List.foldl_cons] at h
    have h1 := execTask_errors_len cfg noFaults st t
    have h2 := foldl_errors_len cfg noFaults ts (execTask cfg noFaults st t)
    refine ⟨fun hp => ?_, ih _ (by omega)⟩
    exfalso
    have : (execTask cfg noFaults st t).b.errors.length = st.b.errors.length + 1 := by
      rw [execTask_noFaults, hp]; rfl
    omega

/-- … in particular a run the model reports error-free -/
theorem failClean_of_no_errors (cfg : Cfg) (scan : List SEntry) (dst : Map DNode) (n : Nat)
    (h : ((plan cfg scan dst).foldl (execTask cfg noFaults) (initExec dst n)).b.errors = []) :
    FailClean cfg (initExec dst n) (plan cfg scan dst) :=
  failClean_of_no_new_errors cfg _ _ (by rw [h]; rfl)

/-! ## corollaries: property theorems restated about the translated composition -/

section corollaries
variable {cfg : Cfg} {I : RunIn} {ew : EWorld} {scan : List SEntry} {dst : Map DNode} {n : Nat}

/-- C19 `counters_eq_events`: the counters the translated composition reports are the numbers of events it emitted -/
theorem translated_counters_eq_events (H : RunHyp cfg I ew scan dst n) :
    ∃ o, seqEngine cfg I ew = some o ∧
      (absOut cfg ew o).created = countAct .create (absOut cfg ew o).events ∧
      (absOut cfg ew o).updated = countAct .update (absOut cfg ew o).events ∧
      (absOut cfg ew o).skipped = countAct .skip (absOut cfg ew o).events ∧
      (absOut cfg ew o).deleted = countAct .delete (absOut cfg ew o).events := by
  obtain ⟨o, ho, heq⟩ := seqEngine_eq_model H
  exact ⟨o, ho, by rw [heq]; exact SyModel.Props.C19.counters_eq_events cfg noFaults scan dst n⟩

/-- C19Truth `events_truthful`: every event of the translated composition is true of the destination it leaves -/
theorem translated_events_truthful (H : RunHyp cfg I ew scan dst n) (hnd : cfg.dryRun = false) (hu : UniqueRels scan)
    (hnr : NoRoot scan) (hk : dst.keys.Nodup) (hdel : cfg.delete = true → ParentClosed scan ∧ dst.get? [] = none)
    (hino : cfg.hardlinks = true → InoConsistent scan) (p : Engine.Path) :
    ∃ o, seqEngine cfg I ew = some o ∧
      ((Act.create, p) ∈ (absOut cfg ew o).events → dst.get? p = none ∧ (absOut cfg ew o).dst.get? p ≠ none) ∧
      ((Act.update, p) ∈ (absOut cfg ew o).events → dst.get? p ≠ none ∧ (absOut cfg ew o).dst.get? p ≠ none) ∧
      ((Act.delete, p) ∈ (absOut cfg ew o).events → dst.get? p ≠ none ∧ (absOut cfg ew o).dst.get? p = none) ∧
      ((Act.skip, p) ∈ (absOut cfg ew o).events →
        ∃ e ∈ scanFilter cfg scan, e.rel = p ∧ Unchanged cfg scan dst e ((absOut cfg ew o).dst.get? p)) := by
  obtain ⟨o, ho, heq⟩ := seqEngine_eq_model H
  exact ⟨o, ho, by rw [heq]; exact SyModel.Props.C19Truth.events_truthful cfg hnd noFaults scan dst n hu hnr hk hdel hino p⟩

/-- C10 `exit_zero_clean`: exit status 0 of the translated composition means not refused and no error record -/
theorem translated_exit_zero_clean (H : RunHyp cfg I ew scan dst n) :
    ∃ o, seqEngine cfg I ew = some o ∧
      ((absOut cfg ew o).exit = 0 → (absOut cfg ew o).refused = false ∧ (absOut cfg ew o).errors = []) := by
  obtain ⟨o, ho, heq⟩ := seqEngine_eq_model H
  exact ⟨o, ho, by rw [heq]; exact SyModel.Props.C10.exit_zero_clean cfg noFaults scan dst n⟩

/-- … and on the raw output: exit status 0 means `stats.errors` is empty -/
theorem translated_exit_zero_no_error_records (H : RunHyp cfg I ew scan dst n) :
    ∃ o, seqEngine cfg I ew = some o ∧ (o.exit = 0 → o.refused = false ∧ o.stats.errors = []) := by
  obtain ⟨ts, rl, hplan, habs, hok, _⟩ := planning_stage H
  rw [seqEngine_unfold cfg I ew ts rl hplan]
  split
  · exact ⟨_, rfl, fun h => by cases h⟩
  · obtain ⟨st, rs, ew', hrun, _, _, hv, _⟩ := execution_stage H ts habs hok
    rw [hrun]
    refine ⟨_, rfl, fun h => ⟨rfl, ?_⟩⟩
    simp only [] at h
    have hf : MainExit.sync_failed ⟨st.errors.map fun _ => ⟨⟩, st.verification_failures⟩ = false := by
      cases hsf : MainExit.sync_failed ⟨st.errors.map fun _ => ⟨⟩, st.verification_failures⟩
      · rfl
      · rw [hsf] at h; simp at h
    have := (SyModel.Props.GenMainExit.sync_ok_clean _ hf).1
    simpa using this

/-- C07 `refuse_changes_nothing`: a refused run of the translated composition changes nothing and exits non-zero -/
theorem translated_refuse_changes_nothing (H : RunHyp cfg I ew scan dst n) :
    ∃ o, seqEngine cfg I ew = some o ∧
      ((absOut cfg ew o).refused = true →
        (absOut cfg ew o).dst = dst ∧ (absOut cfg ew o).events = [] ∧ (absOut cfg ew o).created = 0 ∧
        (absOut cfg ew o).updated = 0 ∧ (absOut cfg ew o).deleted = 0 ∧ (absOut cfg ew o).exit ≠ 0) := by
  obtain ⟨o, ho, heq⟩ := seqEngine_eq_model H
  exact ⟨o, ho, by rw [heq]; exact SyModel.Props.C07.refuse_changes_nothing cfg noFaults scan dst n⟩

/-- C08 `dry_run_noop`: with `--dry-run` the translated composition returns the destination unchanged -/
theorem translated_dry_run_noop (H : RunHyp cfg I ew scan dst n) (hd : cfg.dryRun = true) :
    ∃ o, seqEngine cfg I ew = some o ∧ o.world.xw.w.dst = dst := by
  obtain ⟨o, ho, heq⟩ := seqEngine_eq_model H
  refine ⟨o, ho, ?_⟩
  have := SyModel.Props.C08.dry_run_noop cfg noFaults scan dst n hd
  rw [← (show run cfg scan dst n = runF cfg noFaults scan dst n from rfl), ← heq] at this
  exact this

/-- C01: if the translated composition exits 0 (not a dry run) every selected entry is present with the right kind and
    every transferred file carries the source's data -/
theorem translated_C01 (H : RunHyp cfg I ew scan dst n) (hnd : cfg.dryRun = false) (hu : UniqueRels scan)
    (hdel : cfg.delete = true → ParentClosed scan ∧ dst.get? [] = none)
    (hino : cfg.hardlinks = true → InoConsistent scan) :
    ∃ o, seqEngine cfg I ew = some o ∧ (o.exit = 0 →
      ∀ e ∈ scanFilter cfg scan,
        (e.kind = .dir → e.rel ≠ [] → o.world.xw.w.dst.get? e.rel = some .dir) ∧
        (∀ m k, e.kind = .file m k → ∃ d, o.world.xw.w.dst.get? e.rel = some (.file d) ∧
          (planFileAct cfg m (dst.get? e.rel) ≠ .skip → SyModel.Props.C01.Carries cfg d m)) ∧
        (∀ text tgt, e.kind = .symlink text tgt → cfg.links = .preserve →
          o.world.xw.w.dst.get? e.rel = some (.symlink text)) ∧
        (∀ text m, e.kind = .symlink text (.file m) → cfg.links = .follow →
          ∃ d, o.world.xw.w.dst.get? e.rel = some (.file d) ∧
            (planFileAct cfg m (dst.get? e.rel) ≠ .skip → SyModel.Props.C01.Carries cfg d m)) ∧
        (∀ text tgt, e.kind = .symlink text tgt →
          (cfg.links = .skip ∨ (cfg.links = .follow ∧ ∀ m, tgt ≠ .file m)) → ParentClosed scan →
          o.world.xw.w.dst.get? e.rel = dst.get? e.rel)) := by
  obtain ⟨o, ho, heq⟩ := seqEngine_eq_model H
  refine ⟨o, ho, fun hex => ?_⟩
  have hex' : (runF cfg noFaults scan dst n).exit = 0 := by
    rw [← (show run cfg scan dst n = runF cfg noFaults scan dst n from rfl), ← heq]; exact hex
  have := SyModel.Props.C01.C01 cfg hnd noFaults scan dst n hu hdel hino hex'
  rw [← (show run cfg scan dst n = runF cfg noFaults scan dst n from rfl), ← heq] at this
  exact this

end corollaries

/-! ## non-vacuity: `RunHyp` is satisfiable; the composition RUN by the kernel -/

section examples

/-- `--delete --delete-threshold 50`, preserve links, default comparison -/
def exCfg : Cfg := ⟨true, false, false, false, false, 50, .preserve, .default, none, none, 0, false⟩

def exEntry (rel : String) (size mtime : Nat) (dir : Bool) : EnginePlan.FileEntry :=
  { path := Rs.join "s".toList rel.toList, relative_path := rel.toList, size := size, modified := mtime, is_dir := dir,
    is_symlink := false, symlink_target := none, is_sparse := false, allocated_size := 0, xattrs := none,
    inode := none, nlink := 1, acls := none, bsd_flags := none }

/-- the source: the file `a` (unchanged), the directory `sub` with the new file `sub/b` -/
def exFiles : List EnginePlan.FileEntry :=
  [exEntry "a" 3 5000000000 false, exEntry "sub" 0 0 true, exEntry "sub/b" 1 1000000000 false]

/-- the destination `d`: `a` up to date, `old` stale -/
def exDst : Map DNode := [(["a"], .file ⟨7, 3, 5000000000, [], 1⟩), (["old"], .file ⟨9, 1, 1, [], 2⟩)]

def exEW : EWorld :=
  { xw := { root := "d".toList, w := { dst := exDst, linkMap := [], nextIno := 100, bytes := 0 },
            src := fun p => if p = "s/a".toList then .file ⟨7, 3, 5000000000, [], 10⟩
                            else if p = "s/sub/b".toList then .file ⟨8, 1, 1000000000, [], 11⟩
                            else if p = "s/sub".toList then .dir else .dangling,
            valId := fun _ => 0 },
    log := [] }

def exIn : RunIn :=
  { files := exFiles, scanned := ["a".toList, "sub".toList, "sub/b".toList],
    view := { through := fun _ => .dangling, dirInfo := fun _ => (4096, 0), srcRoot := "s".toList }, mode := .None }

/-- the model's scan: the abstraction of the files (nothing is filtered out) -/
def exScan : List SEntry := exFiles.map (absS exEW.xw)

theorem get?_mem {α : Type} : ∀ {m : Map α} {k : Engine.Path} {v : α}, m.get? k = some v → (k, v) ∈ m
  | [], _, _, h => by cases h
  | (q, u) :: t, k, v, h => by
    rw [Map.get?_cons] at h
    split at h
    · rename_i hq; cases h; subst hq; simp
    · exact List.mem_cons_of_mem _ (get?_mem h)

/-- a map without symlink nodes lists nothing below links -/
theorem nothingBelowLinks_of_no_links (m : Map DNode)
    (h : ∀ kv ∈ m, (match kv.2 with | .symlink _ => false | _ => true) = true) : NothingBelowLinks m := by
  intro link q s hl _ _ _
  have := h _ (get?_mem hl)
  simp at this

theorem exFileOK (cfg : Cfg) : ∀ f ∈ exIn.files, FileOK cfg exEW exIn.view f := by
  intro f hf
  simp only [exIn, exFiles, List.mem_cons, List.not_mem_nil, or_false] at hf
  rcases hf with rfl | rfl | rfl
  · exact ⟨by decide, (fun h => by cases h), (fun h => by cases h), by decide, (fun _ _ => ⟨_, rfl, rfl, rfl⟩),
      (fun _ _ _ h => absurd h (by decide))⟩
  · exact ⟨by decide, (fun h => by cases h), (fun h => by cases h), by decide, (fun _ h => by cases h),
      (fun _ h => by cases h)⟩
  · exact ⟨by decide, (fun h => by cases h), (fun h => by cases h), by decide, (fun _ _ => ⟨_, rfl, rfl, rfl⟩),
      (fun _ _ _ h => absurd h (by decide))⟩

/-- **`RunHyp` is satisfiable** (every clause, on a run that creates a directory and a file, skips one and deletes one) -/
theorem exRunHyp : RunHyp exCfg exIn exEW exScan exDst 100 where
  init := rfl
  logEmpty := rfl
  tie := rfl
  modeNone := rfl
  filtered := by decide
  scannedRels := by decide
  files := exFileOK _
  cleanKeys := by decide
  unique := by decide
  parentsFirst := by decide
  nothingBelowLinks := nothingBelowLinks_of_no_links _ (by decide)
  failClean := by decide

/-- the same run with `--delete-threshold 49` -/
def exCfg49 : Cfg := { exCfg with threshold := 49 }

theorem exRunHyp49 : RunHyp exCfg49 exIn exEW exScan exDst 100 where
  init := rfl
  logEmpty := rfl
  tie := rfl
  modeNone := rfl
  filtered := by decide
  scannedRels := by decide
  files := exFileOK _
  cleanKeys := by decide
  unique := by decide
  parentsFirst := by decide
  nothingBelowLinks := nothingBelowLinks_of_no_links _ (by decide)
  failClean := by decide

/-- **the capstone on the example**: the composition answers; it is not refused (1 of 2 entries = 50 %, not above the
    threshold), exits 0, leaves `sub`, `sub/b`, `a` (and no `old`), and reports skip `a`, create `sub`, create `sub/b`,
    delete `old` — the values are the MODEL's, transported through `seqEngine_eq_model` -/
theorem exRun_values : ∃ o, seqEngine exCfg exIn exEW = some o ∧
    (absOut exCfg exEW o).refused = false ∧ (absOut exCfg exEW o).exit = 0 ∧
    (absOut exCfg exEW o).dst.keys = [["sub", "b"], ["sub"], ["a"]] ∧
    (absOut exCfg exEW o).events =
      [(.skip, ["a"]), (.create, ["sub"]), (.create, ["sub", "b"]), (.delete, ["old"])] := by
  obtain ⟨o, ho, heq⟩ := seqEngine_eq_model exRunHyp
  refine ⟨o, ho, ?_⟩
  rw [heq]
  decide

/-- … with `--delete-threshold 49` the translated guard REFUSES: exit 1, destination untouched, no event -/
theorem exRun_refused : ∃ o, seqEngine exCfg49 exIn exEW = some o ∧
    (absOut exCfg49 exEW o).refused = true ∧ (absOut exCfg49 exEW o).exit = 1 ∧
    (absOut exCfg49 exEW o).dst = exDst ∧ (absOut exCfg49 exEW o).events = [] := by
  obtain ⟨o, ho, heq⟩ := seqEngine_eq_model exRunHyp49
  refine ⟨o, ho, ?_⟩
  rw [heq]
  decide

/-- a decidable view of what the composition answers -/
structure OutView where
  refused : Bool
  exit : Nat
  keys : List Engine.Path
  created : Nat
  updated : Nat
  skipped : Nat
  deleted : Nat
  errors : Nat
  events : Nat
deriving DecidableEq

def viewOut (o : Option SeqOut) : Option OutView :=
  o.map fun o => ⟨o.refused, o.exit, o.world.xw.w.dst.keys, o.stats.files_created, o.stats.files_updated,
    o.stats.files_skipped, o.stats.files_deleted, o.stats.errors.length, o.world.log.length⟩

/-- **THE COMPOSITION, RUN BY THE KERNEL** with `--force-delete` (the guard's ℚ arithmetic does not reduce under
    `decide`; with `force_delete` the glue does not reach it — the guarded runs above go through the theorem): every
    other translated unit evaluated — three planning rounds, `plan_deletions` + `retain`, four task bodies through the
    translated executors, the exit decision: exit 0, `sub` and `sub/b` created, `a` skipped, `old` deleted, four events -/
theorem exRun_result : viewOut (seqEngine { exCfg with force := true } exIn exEW) =
    some ⟨false, 0, [["sub", "b"], ["sub"], ["a"]], 2, 0, 1, 1, 0, 4⟩ := by decide

/-! ### `FailClean` is a real restriction: the `Left` phenomenon on a concrete world -/

/-- a destination that is NOT parent-closed: `p/k` is listed as a directory, `p` is not listed -/
def exBadDst : Map DNode := [(["p", "k"], .dir)]

/-- the model fails the creation of the FILE `p/k` (a directory is in the way) and keeps its world … -/
def exBadTask : Task := ⟨.create, ["p", "k"], .file ⟨1, 1, 1, [], 0⟩ 1⟩

example : perform { exCfg with delete := false } ⟨exBadDst, [], 0, 0⟩ exBadTask = none := by decide

/-- … `FailClean` does not hold of that run: `create_dir_all(p)` has something to create -/
theorem failClean_fails_witness :
    ¬ FailClean { exCfg with delete := false } (initExec exBadDst 0) [exBadTask] := by decide

/-- … and the INSTANCE (the translated `run_task` through the translated `Transferrer::create`) answers `Err` having
    created `p`: after a failure the two worlds differ — which is why the fold theorem carries `FailClean`. -/
theorem left_residue_witness :
    let ew : EWorld := { xw := { root := "d".toList, w := ⟨exBadDst, [], 0, 0⟩,
                                 src := fun _ => .file ⟨1, 1, 1, [], 0⟩, valId := fun _ => 0 }, log := [] }
    let t : EngineTask.SyncTask := toXTask { source := some (exEntry "p/k" 1 1 false), dest_path := "d/p/k".toList,
                                             action := .Create, source_checksum := none, dest_checksum := none }
    let r := SyModel.Lemmas.GenTransfer.runM
      (EngineTask.run_task (engineExt { exCfg with delete := false }) t {} {} stats0 false true .None none none) ew
    (r.1.toOption.map fun x => SyModel.Props.GenEngineTask.isOk x.1) = some false ∧
      r.2.xw.w.dst.keys = [["p"], ["p", "k"]] := by decide

/-! ### the remaining hypotheses are satisfiable (jointly with `RunHyp`) -/

example : NoResidue exDst ["sub", "b"] = False ∨ NoResidue exDst ["a"] := Or.inr (by decide)
example : ¬ NoResidue exBadDst ["p", "k"] := by decide
/-- the model's run on the example records no error: the hypothesis of `failClean_of_no_errors` -/
example : ((plan exCfg exScan exDst).foldl (execTask exCfg noFaults) (initExec exDst 100)).b.errors = [] := by decide
example : FailClean exCfg (initExec exDst 100) (plan exCfg exScan exDst) :=
  failClean_of_no_errors exCfg exScan exDst 100 (by decide)
example : FailClean { exCfg with dryRun := true } (initExec exBadDst 0) [exBadTask] :=
  failClean_of_dry_run _ rfl _ _
/-- every task of the example run satisfies `TaskOK` at its key (`planning_stage`) -/
example : ∃ ts, ∀ t ∈ tasksOfRun exCfg exIn exEW ts, TaskOK exCfg exEW.xw t (keyOfTask exEW.xw.root t) := by
  obtain ⟨ts, _, _, _, hok, _⟩ := planning_stage exRunHyp
  exact ⟨ts, hok⟩
/-- the hypotheses the restated property theorems add (C19Truth, C01) hold of the example together with `RunHyp` -/
example (p : Engine.Path) : True := by
  have := translated_events_truthful exRunHyp rfl (by decide) (by decide) (by decide) (fun _ => by decide)
    (fun h => by cases h) p
  trivial
example : True := by
  have := translated_C01 exRunHyp rfl (by decide) (fun _ => by decide) (fun h => by cases h)
  trivial
example : exCfg.dryRun = false ∧ UniqueRels exScan ∧ NoRoot exScan ∧ exDst.keys.Nodup ∧ ParentClosed exScan ∧
    exDst.get? [] = none := by decide
/-- a dry run satisfies `RunHyp` too (C08's corollary is not vacuous) -/
theorem exRunHypDry : RunHyp { exCfg with dryRun := true } exIn exEW exScan exDst 100 where
  init := rfl
  logEmpty := rfl
  tie := rfl
  modeNone := rfl
  filtered := by decide
  scannedRels := by decide
  files := exFileOK _
  cleanKeys := by decide
  unique := by decide
  parentsFirst := by decide
  nothingBelowLinks := nothingBelowLinks_of_no_links _ (by decide)
  failClean := failClean_of_dry_run _ rfl _ _
theorem exRun_dry_noop : ∃ o, seqEngine { exCfg with dryRun := true } exIn exEW = some o ∧ o.world.xw.w.dst = exDst :=
  translated_dry_run_noop exRunHypDry rfl

end examples

end SyModel.Props.GenEngineRun
