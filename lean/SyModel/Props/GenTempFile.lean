/-
  GenTempFile — the NAME of the working file of a block-delta update, `working_file_path` (src/temp_file.rs), TRANSLATED on every run
  into `SyModel/Generated/Code/TempFile.lean`.

  C05 ("concurrent transfers never interfere") and C06 rest on this name being an injective function of the destination path that never
  answers the path itself: two planned transfers never share a working file, and a transfer's working file is never another
  transfer's destination unless a file of that very name exists (the recorded residual collision).  Until now the tie was one constant
  (`extract_consts`: the literal pushed onto the name) and an instance definition (`p ++ TEMP_SUFFIX` in the LocalCopy world).  Proved
  here about the translated function, for every path text whose last component is a proper file name (not empty, not `..`):

    * `working_file_path_eq`         — the answer is the path text with the suffix appended: exactly the instance definition of
                                        `Lemmas/GenLocalCopyWorld.posix` and the parameter of `GenEngineOrder`;
    * `suffix_is_the_extracted_one`  — that suffix is the constant `extract_consts` reads (`Generated.TEMP_SUFFIX`);
    * `working_file_path_injective`, `working_file_path_ne_self`, `working_file_path_same_dir`.
  Seeded change C05c (the name is cut to fit NAME_MAX) makes the unit untranslatable; a version of it that translates makes
  `working_file_path_injective` false (two names of 249 bytes sharing 248).
-/
import SyModel.Generated.Code.TempFile
import SyModel.Generated.Consts
import SyModel.Lemmas.PathText
import SyModel.Lemmas.GenLocalCopyWorld
namespace SyModel.Props.GenTempFile
open SyModel.Generated SyModel.Generated.TempFile

def sfx : Rs.Str := ['.', 's', 'y', '.', 't', 'm', 'p']

theorem suffix_is_the_extracted_one : sfx = Generated.TEMP_SUFFIX.toList := by decide

/-- the last component of a path text is a proper file name -/
def ProperName (p : Rs.Path) : Prop := Rs.lastComponent p ≠ [] ∧ Rs.lastComponent p ≠ ['.', '.']

/-- every text either has no `/` or splits at its LAST `/` -/
theorem last_slash (p : Rs.Str) : '/' ∉ p ∨ ∃ a c, p = a ++ '/' :: c ∧ '/' ∉ c := by
  induction p with
  | nil => exact .inl (by simp)
  | cons x p ih =>
    rcases ih with h | ⟨a, c, rfl, hc⟩
    · by_cases hx : x = '/'
      · subst hx; exact .inr ⟨[], p, rfl, h⟩
      · exact .inl (by simp [hx, h]; exact fun e => hx e.symm)
    · exact .inr ⟨x :: a, c, rfl, hc⟩

/-- **the working file of `p` is `p` with the suffix appended** -/
theorem working_file_path_eq (p : Rs.Path) (h : ProperName p) : working_file_path p = p ++ sfx := by
  unfold working_file_path
  simp only [Id.run, Rs.path_file_name, Rs.with_file_name, Rs.unwrap_or_default_str, Rs.opt_map]
  obtain ⟨h1, h2⟩ := h
  rcases last_slash p with hn | ⟨a, c, rfl, hc⟩
  · have hs := SyModel.Lemmas.PathText.splitLastAt_none p hn
    have hl : Rs.lastComponent p = p := by simp [Rs.lastComponent, hs]
    rw [hl] at h1 h2
    simp [hl, hs, h1, h2, sfx, List.isEmpty_iff]
    rfl
  · have hs := SyModel.Lemmas.PathText.splitLastAt_last a c hc
    have hl : Rs.lastComponent (a ++ '/' :: c) = c := by simp [Rs.lastComponent, hs]
    rw [hl] at h1 h2
    simp [hl, hs, h1, h2, sfx, List.isEmpty_iff]
    rfl

/-- two destinations never share a working file -/
theorem working_file_path_injective (p q : Rs.Path) (hp : ProperName p) (hq : ProperName q)
    (h : working_file_path p = working_file_path q) : p = q := by
  rw [working_file_path_eq p hp, working_file_path_eq q hq] at h
  exact List.append_cancel_right h

/-- the working file is never the destination itself -/
theorem working_file_path_ne_self (p : Rs.Path) (hp : ProperName p) : working_file_path p ≠ p := by
  rw [working_file_path_eq p hp]
  intro h
  have := congrArg List.length h
  simp [sfx] at this

/-- the working file lies in the destination's own directory (same text up to the last `/`): a rename within one directory -/
theorem working_file_path_same_dir (a c : Rs.Str) (hc : '/' ∉ c) (h1 : c ≠ []) (h2 : c ≠ ['.', '.']) :
    working_file_path (a ++ '/' :: c) = a ++ '/' :: (c ++ sfx) := by
  have hs := SyModel.Lemmas.PathText.splitLastAt_last a c hc
  have hl : Rs.lastComponent (a ++ '/' :: c) = c := by simp [Rs.lastComponent, hs]
  rw [working_file_path_eq _ ⟨by rw [hl]; exact h1, by rw [hl]; exact h2⟩]
  simp

/-- the working file's own name is a proper file name again (so every theorem above applies to it: a leftover working file that a
    later run meets as a destination entry has a working file of its own, different from it) -/
theorem working_file_path_proper (p : Rs.Path) (hp : ProperName p) : ProperName (working_file_path p) := by
  rw [working_file_path_eq p hp]
  obtain ⟨h1, h2⟩ := hp
  rcases last_slash p with hn | ⟨a, c, rfl, hc⟩
  · have hn' : '/' ∉ p ++ sfx := by simp [sfx, hn]
    have hs := SyModel.Lemmas.PathText.splitLastAt_none (p ++ sfx) hn'
    have hl : Rs.lastComponent (p ++ sfx) = p ++ sfx := by simp [Rs.lastComponent, hs]
    unfold ProperName
    rw [hl]
    refine ⟨by simp [sfx], fun h => ?_⟩
    have := congrArg List.length h
    simp [sfx] at this
  · have hc' : '/' ∉ c ++ sfx := by simp [sfx, hc]
    have hs := SyModel.Lemmas.PathText.splitLastAt_last a (c ++ sfx) hc'
    have hl : Rs.lastComponent (a ++ '/' :: (c ++ sfx)) = c ++ sfx := by simp [Rs.lastComponent, hs]
    have e : (a ++ '/' :: c) ++ sfx = a ++ '/' :: (c ++ sfx) := by simp
    rw [e]
    unfold ProperName
    rw [hl]
    refine ⟨by simp [sfx], fun h => ?_⟩
    have := congrArg List.length h
    simp [sfx] at this

/-- **the working file is never above or below its destination**: neither text is the other followed by `/…`.  This is the
    structural fact behind the repair d5ee1fe's frame — a working file can occupy the name of a stale DIRECTORY only when that
    directory is a sibling bearing the working-file name, never an ancestor of the file being updated -/
theorem working_file_path_not_below (p : Rs.Path) (hp : ProperName p) (r : Rs.Str) :
    working_file_path p ≠ p ++ '/' :: r := by
  rw [working_file_path_eq p hp]
  intro h
  have := List.append_cancel_left h
  simp [sfx] at this

theorem working_file_path_not_above (p : Rs.Path) (hp : ProperName p) (r : Rs.Str) :
    p ≠ working_file_path p ++ '/' :: r := by
  rw [working_file_path_eq p hp]
  intro h
  have := congrArg List.length h
  simp [sfx] at this

/-- the residual collision, exactly: the working file of `p` is the destination `q` iff `q` bears `p`'s name with the suffix (the
    recorded finding `C05/user-file-named-like-temp`; nothing else collides) -/
theorem working_file_path_hits_iff (p q : Rs.Path) (hp : ProperName p) : working_file_path p = q ↔ q = p ++ sfx := by
  rw [working_file_path_eq p hp]; exact eq_comm

example : ProperName (working_file_path ['d', '/', 'a']) := working_file_path_proper _ ⟨by decide, by decide⟩

/-- **the instance definition of the LocalCopy world is the translated function** (on proper names): what `GenLocalCopy` /
    `GenLocalCopy2` prove about the working file `dst ++ TEMP_SUFFIX` is about the name the code computes -/
theorem posix_working_file_is_translated (cfg : SyModel.LocalCopy.Cfg) (p : Rs.Path) (h : ProperName p) :
    (SyModel.LocalCopy.posix cfg).working_file_path p = working_file_path p := by
  rw [working_file_path_eq p h]
  rfl

/-- non-vacuity, and the two shapes the engine builds: a name below the root, a nested name -/
example : working_file_path ['a', '.', 'b'] = ['a', '.', 'b', '.', 's', 'y', '.', 't', 'm', 'p'] := by decide
example : working_file_path ['d', '/', 'a'] = ['d', '/', 'a', '.', 's', 'y', '.', 't', 'm', 'p'] := by decide
example : ProperName ['d', '/', 'a'] := ⟨by decide, by decide⟩
/-- outside the domain (`..` has no file name): the suffix alone is appended after the last `/` — what `Path::with_file_name` does -/
example : working_file_path ['d', '/', '.', '.'] = ['d', '/', '.', 's', 'y', '.', 't', 'm', 'p'] := by decide

end SyModel.Props.GenTempFile
