/-
  C01 (byte level) — every local transfer path leaves the destination byte-identical to the source
  and carrying its mtime.  Property theorems only; helper lemmas live in
  `SyModel/Lemmas/Transfer{Blocks,Rebuild,Route}.lean`, the model in
  `SyModel/Transfer/BlockCompare.lean`.

  This discharges, for `C := Bytes`, the assumption `∀ s d, xfer s d = s` under which the entry-level
  engine theorems (`SyModel.Props.C01`) are stated: `blockCompare_inplace`, `blockCompare_cow`, the
  full copy and the sparse copiers are the real transfer paths of `LocalTransport`, and
  `transfer_postcondition` covers the routing between them.

  All statements hold for ALL byte strings and every block size > 0 (no hypothesis on the prior
  destination: shorter, longer, empty, not block aligned).  Hypotheses that remain: the block size
  is positive (`blockSize_zero_counterexample` shows it is needed) and, on the sparse route only,
  the kernel's SEEK_DATA/SEEK_HOLE contract `Covers` (`sparse_contract_counterexample`).
-/
import SyModel.Lemmas.TransferRoute
import SyModel.Generated.Consts
namespace SyModel.Props.C01Bytes
open SyModel SyModel.Transfer
open SyModel.Compress (Covers Region writeAt setLen zeros localSeek localBlocks)

/-! ### side conditions on the constants extracted from the Rust source on this run -/

theorem consts_ok_bufreader_cap :
    Generated.XFER_BUFREADER_CAP = BUF_CAP ∧ Generated.XFER_BUFREADER_CAP_RATIO = BUF_CAP := by decide
theorem consts_ok_delta_threshold : Generated.DELTA_THRESHOLD = DELTA_THRESHOLD := by decide
theorem consts_ok_small_dest_gate : Generated.XFER_SMALL_DEST_GATE = SMALL_DEST := by decide
theorem consts_ok_block_size : Generated.LOCAL_BLOCK_SIZE = LOCAL_BLOCK_SIZE ∧ 0 < LOCAL_BLOCK_SIZE := by decide
theorem consts_ok_sample_count : Generated.XFER_SAMPLE_COUNT = SAMPLE_COUNT := by decide
/-- 0.75 and 0.5 as exact rationals. -/
theorem consts_ok_ratio_threshold :
    Generated.XFER_RATIO_THRESHOLD_NUM * RATIO_DEN = RATIO_NUM * Generated.XFER_RATIO_THRESHOLD_DEN ∧
    Generated.XFER_SIZE_DIFF_RATIO_NUM * SIZE_DIFF_DEN = SIZE_DIFF_NUM * Generated.XFER_SIZE_DIFF_RATIO_DEN := by decide
/-- shape of the sampler and of the two strategies as the anchors see it: `use_delta` is `<=`,
    the step is `total_blocks / (sample_count - 1)`, indices are clamped to the last block of the
    *destination*, the COW branch truncates to `bytes_written`, the in-place branch preallocates
    `source_size`, and the mtime is put on the temp file before the rename. -/
theorem consts_ok_shape :
    Generated.XFER_USE_DELTA_IS_LE = true ∧ Generated.XFER_SAMPLE_STEP_DIV = true ∧
    Generated.XFER_SAMPLE_IDX_CLAMP = true ∧ Generated.XFER_TOTAL_BLOCKS_OF_DEST = true ∧
    Generated.XFER_COW_TRUNCATES = true ∧ Generated.XFER_INPLACE_PREALLOCATES = true ∧
    Generated.XFER_MTIME_BEFORE_RENAME = true := by decide
/-- the exact-rational reading of the two `f64` comparisons (`> 0.5`, `<= 0.75`) agrees with the
    floating-point one as long as `4 · dest_size < 2^54`: a quotient `x/d` that is not equal to the
    bound differs from it by at least `1/(4d)`, more than half an ulp (`2^-54`) below 1. Files of
    at most 2^50 bytes (1 PiB) satisfy this. -/
theorem consts_ok_f64_margin : 4 * 2 ^ 50 < 2 ^ 54 ∧ RATIO_DEN = 4 ∧ SIZE_DIFF_DEN = 2 := by decide
/-- the production block size divides the reader capacity: production reads are plain 64 KiB blocks. -/
theorem consts_ok_block_divides_cap : Generated.LOCAL_BLOCK_SIZE ∣ Generated.XFER_BUFREADER_CAP := ⟨4, by decide⟩

/-! ### the two rebuild strategies reproduce the source -/

/-- In-place strategy: for every block size > 0, every source and every prior destination, the
    renamed temp file is the source. -/
theorem blockCompare_inplace (bs : Nat) (hbs : 0 < bs) (src dst : Bytes) :
    (rebuildInPlace bs src dst).1 = src :=
  inplace_temp _ (fun p => chunkAt_pos BUF_CAP bs p hbs) src dst

/-- COW strategy (clone of the destination, selective writes, `set_len`): same statement. -/
theorem blockCompare_cow (bs : Nat) (hbs : 0 < bs) (src dst : Bytes) :
    (rebuildCow bs src dst).1 = src :=
  (cow_temp _ (fun p => chunkAt_pos BUF_CAP bs p hbs) src dst).1

/-- both hold for any way the reads are chunked (any positive chunk bound per position): the
    result does not depend on how `BufReader` slices the files. -/
theorem blockCompare_anyChunking (k : Nat → Nat) (hk : ∀ p, 0 < k p) (src dst : Bytes) :
    (rebuildInPlaceK k src dst).temp = src ∧ (rebuildCowK k src dst).temp = src :=
  ⟨inplace_temp k hk src dst, (cow_temp k hk src dst).1⟩

/-- `bytes_written` of both strategies is the source size. -/
theorem blockCompare_bytes_written (bs : Nat) (hbs : 0 < bs) (src dst : Bytes) :
    (rebuildInPlaceLoop bs src dst).offset = src.length ∧ (rebuildCowLoop bs src dst).offset = src.length :=
  ⟨inplace_offset _ (fun p => chunkAt_pos BUF_CAP bs p hbs) src dst,
   (cow_temp _ (fun p => chunkAt_pos BUF_CAP bs p hbs) src dst).2⟩

/-- the hypothesis `0 < bs` is needed: with block size 0 the first read returns 0 bytes, the loop
    ends at once and the preallocated temp file (zeros) is renamed over the destination. (Not
    reachable in production: the block size is the constant 64 KiB.) -/
theorem blockSize_zero_counterexample : (rebuildInPlace 0 [7] [7]).1 = [0] ∧ (rebuildInPlace 0 [7] [7]).1 ≠ [7] := by
  have h : (rebuildInPlace 0 [7] [7]).1 = [0] := by
    simp [rebuildInPlace, rebuildInPlaceLoop, rebuildInPlaceK, inPlaceGo, chunkAt, setLen, zeros]
  rw [h]; exact ⟨rfl, by decide⟩

/-! ### the counters -/

/-- `changed_blocks` / `literal_bytes` of both strategies: the loops compare, position by position,
    what source and destination hold there (`cmpBlocks`); `changed_blocks` is the number of compared
    positions whose blocks differ (in length or content) and `literal_bytes` the sum of the source
    blocks' lengths at those positions. Both strategies report the same numbers. -/
theorem changed_blocks_spec (bs : Nat) (src dst : Bytes) :
    (rebuildInPlace bs src dst).2.1 = ((cmpBlocks (chunkAt BUF_CAP bs) src dst).filter Blk.differs).length ∧
    (rebuildInPlace bs src dst).2.2 =
      (((cmpBlocks (chunkAt BUF_CAP bs) src dst).filter Blk.differs).map (·.s.length)).sum ∧
    (rebuildCow bs src dst).2 = (rebuildInPlace bs src dst).2 := by
  have hi := inplace_counters (chunkAt BUF_CAP bs) src dst
  have hc := cow_counters (chunkAt BUF_CAP bs) src dst
  refine ⟨hi.1, hi.2.1, ?_⟩
  show ((rebuildCowK _ src dst).changed, (rebuildCowK _ src dst).literal) =
    ((rebuildInPlaceK _ src dst).changed, (rebuildInPlaceK _ src dst).literal)
  rw [hi.1, hi.2.1, hc.1, hc.2.1]

/-- what the compared positions are: the blocks tile the source without gap or overlap, each holds
    the bytes of source and destination at its offset (at most the chunk bound, cut at end of
    file), and `differs` is plain inequality of the two slices. -/
theorem cmpBlocks_spec (bs : Nat) (hbs : 0 < bs) (src dst : Bytes) :
    ((cmpBlocks (chunkAt BUF_CAP bs) src dst).flatMap (·.s) = src) ∧
    Chain 0 (cmpBlocks (chunkAt BUF_CAP bs) src dst) ∧
    (∀ b ∈ cmpBlocks (chunkAt BUF_CAP bs) src dst,
      b.s = (src.drop b.off).take (chunkAt BUF_CAP bs b.off) ∧
      b.d = (dst.drop b.off).take (chunkAt BUF_CAP bs b.off) ∧ b.s ≠ [] ∧
      (b.differs = true ↔ b.s ≠ b.d)) := by
  refine ⟨cmpBlocksGo_join _ (fun p => chunkAt_pos BUF_CAP bs p hbs) 0 src dst,
    cmpBlocksGo_chain _ 0 src dst, ?_⟩
  intro b hb
  have := cmpBlocksGo_mem (chunkAt BUF_CAP bs) src dst 0 b (by simpa [cmpBlocks] using hb)
  exact ⟨this.2.1, this.2.2.1, this.2.2.2, Blk.differs_iff b⟩

/-- for a block size that divides the reader capacity (256 KiB) or is at least as large — in
    particular the production value 64 KiB — the compared positions are the fixed-size blocks
    `i·bs`, `i < ⌈|src| / bs⌉`: `changed_blocks` counts exactly the block indices where block `i`
    of the source and block `i` of the destination differ. -/
theorem changed_blocks_spec_plain (bs : Nat) (hbs : 0 < bs) (hdiv : bs ∣ BUF_CAP ∨ BUF_CAP ≤ bs) (src dst : Bytes) :
    cmpBlocks (chunkAt BUF_CAP bs) src dst = plainBlocks bs src dst ∧
    (rebuildInPlace bs src dst).2.1 = ((plainBlocks bs src dst).filter Blk.differs).length ∧
    (rebuildCow bs src dst).2.1 = ((plainBlocks bs src dst).filter Blk.differs).length := by
  have hk : ∀ i, chunkAt BUF_CAP bs (i * bs) = bs := by
    intro i
    rcases hdiv with h | h
    · exact chunkAt_of_dvd _ _ _ h
    · exact chunkAt_of_ge _ _ _ h
  have hp := cmpBlocks_plain (chunkAt BUF_CAP bs) bs hbs hk src dst
  have hs := changed_blocks_spec bs src dst
  refine ⟨hp, ?_, ?_⟩
  · rw [hs.1, hp]
  · have : (rebuildCow bs src dst).2.1 = (rebuildInPlace bs src dst).2.1 := by rw [hs.2.2]
    rw [this, hs.1, hp]

theorem production_blocks_plain (src dst : Bytes) :
    cmpBlocks (chunkAt BUF_CAP LOCAL_BLOCK_SIZE) src dst = plainBlocks LOCAL_BLOCK_SIZE src dst :=
  (changed_blocks_spec_plain LOCAL_BLOCK_SIZE (by decide) (Or.inl ⟨4, by decide⟩) src dst).1

/-- a block size that neither divides nor reaches the capacity is cut in front of a multiple of
    256 KiB (only reachable through `SY_VERIF_BLOCK_SIZE`): the counters then count read chunks. -/
theorem short_chunk_witness :
    chunkAt BUF_CAP 3000 261000 = 1144 ∧ chunkAt BUF_CAP 3000 262144 = 3000 ∧ chunkAt 8 3 6 = 2 := by decide

/-- zero changed blocks: exactly when all compared blocks are equal; this makes the source a prefix
    of the destination, and the two files equal when the destination is not longer. -/
theorem changed_zero_iff (bs : Nat) (hbs : 0 < bs) (src dst : Bytes) :
    ((rebuildCow bs src dst).2.1 = 0 ↔ ∀ b ∈ cmpBlocks (chunkAt BUF_CAP bs) src dst, b.s = b.d) ∧
    ((rebuildCow bs src dst).2.1 = 0 → src <+: dst) ∧
    ((rebuildCow bs src dst).2.1 = 0 → dst.length ≤ src.length → dst = src) ∧
    (dst = src → (rebuildCow bs src dst).2.1 = 0 ∧ (rebuildCow bs src dst).2.2 = 0) := by
  have hs := changed_blocks_spec bs src dst
  have hcow : (rebuildCow bs src dst).2.1 = changedOf (cmpBlocks (chunkAt BUF_CAP bs) src dst) := by
    have : (rebuildCow bs src dst).2.1 = (rebuildInPlace bs src dst).2.1 := by rw [hs.2.2]
    rw [this, hs.1]; rfl
  have hpre : (rebuildCow bs src dst).2.1 = 0 → src <+: dst := by
    intro h
    rw [hcow, changedOf_eq_zero_iff] at h
    exact prefix_of_all_equal _ (fun p => chunkAt_pos BUF_CAP bs p hbs) 0 src dst h
  refine ⟨by rw [hcow, changedOf_eq_zero_iff], hpre, ?_, ?_⟩
  · intro h hlen
    obtain ⟨t, ht⟩ := hpre h
    have : t = [] := by
      have := congrArg List.length ht
      simp only [List.length_append] at this
      exact List.eq_nil_of_length_eq_zero (by omega)
    rw [← ht, this]; simp
  · intro he
    subst he
    have hall := all_equal_of_same (chunkAt BUF_CAP bs) 0 dst dst rfl
    have h0 : changedOf (cmpBlocks (chunkAt BUF_CAP bs) dst dst) = 0 := (changedOf_eq_zero_iff _).mpr hall
    refine ⟨by rw [hcow, h0], ?_⟩
    have : (rebuildCow bs dst dst).2.2 = literalOf (cmpBlocks (chunkAt BUF_CAP bs) dst dst) := by
      have : (rebuildCow bs dst dst).2.2 = (rebuildInPlace bs dst dst).2.2 := by rw [hs.2.2]
      rw [this, hs.2.1]; rfl
    rw [this]
    unfold literalOf
    have hnil : (cmpBlocks (chunkAt BUF_CAP bs) dst dst).filter Blk.differs = [] := by
      unfold changedOf at h0; exact List.eq_nil_of_length_eq_zero h0
    rw [hnil]; rfl

/-- "0 changed blocks iff dst = src" is false in one direction: a destination that continues after
    a block-aligned source has no changed block (the COW branch then only truncates). -/
theorem changed_zero_counterexample_longer_dest :
    (rebuildCow 2 [1, 2] [1, 2, 3]).2.1 = 0 ∧ ([1, 2, 3] : Bytes) ≠ [1, 2] ∧ (rebuildCow 2 [1, 2] [1, 2, 3]).1 = [1, 2] := by
  refine ⟨?_, by decide, blockCompare_cow 2 (by decide) _ _⟩
  rw [(changed_blocks_spec_plain 2 (by decide) (Or.inl ⟨131072, by decide⟩) [1, 2] [1, 2, 3]).2.2]
  decide

/-- `literal_bytes ≤ bytes_written = |src|` and `changed_blocks ≤` number of compared positions. -/
theorem counters_bounded (bs : Nat) (hbs : 0 < bs) (src dst : Bytes) :
    (rebuildInPlace bs src dst).2.2 ≤ src.length ∧
    (rebuildInPlace bs src dst).2.1 ≤ (cmpBlocks (chunkAt BUF_CAP bs) src dst).length := by
  have hs := changed_blocks_spec bs src dst
  constructor
  · rw [hs.2.1]
    have := literalOf_le (cmpBlocks (chunkAt BUF_CAP bs) src dst)
    rw [sum_length_flatMap, (cmpBlocks_spec bs hbs src dst).1] at this
    exact this
  · rw [hs.1]; exact changedOf_le _

/-! ### what is written -/

/-- The COW strategy issues one `seek + write_all` per *changed* position and none for an
    unchanged one: its write log is exactly the changed blocks (offset, source bytes) in file
    order; every written block differs from the block the destination reader returned there; and
    the temp file is the replay of that log over the clone, cut to `bytes_written`. -/
theorem cow_writes_only_changed (bs : Nat) (src dst : Bytes) :
    (rebuildCowLoop bs src dst).writes.reverse =
      ((cmpBlocks (chunkAt BUF_CAP bs) src dst).filter Blk.differs).map (fun b => (b.off, b.s)) ∧
    (∀ w ∈ (rebuildCowLoop bs src dst).writes,
      w.2 ≠ (dst.drop w.1).take (chunkAt BUF_CAP bs w.1)) ∧
    (rebuildCowLoop bs src dst).temp =
      setLen ((rebuildCowLoop bs src dst).writes.reverse.foldl (fun t w => writeAt t w.1 w.2) dst)
        (rebuildCowLoop bs src dst).offset := by
  have hc := (cow_counters (chunkAt BUF_CAP bs) src dst).2.2
  refine ⟨hc, ?_, cow_temp_replay _ src dst⟩
  intro w hw
  have hw' : w ∈ (rebuildCowK (chunkAt BUF_CAP bs) src dst).writes.reverse := List.mem_reverse.mpr hw
  rw [hc] at hw'
  obtain ⟨b, hb, rfl⟩ := List.mem_map.mp hw'
  obtain ⟨hbm, hbd⟩ := List.mem_filter.mp hb
  have hmem := cmpBlocksGo_mem (chunkAt BUF_CAP bs) src dst 0 b (by simpa [cmpBlocks] using hbm)
  show b.s ≠ _
  rw [← hmem.2.2.1]
  exact (Blk.differs_iff b).mp hbd

/-- a written *full* block (length = chunk bound) really changes the bytes it overwrites. -/
theorem cow_full_block_write_changes_bytes (bs : Nat) (src dst : Bytes) :
    ∀ w ∈ (rebuildCowLoop bs src dst).writes, w.2.length = chunkAt BUF_CAP bs w.1 →
      (dst.drop w.1).take w.2.length ≠ w.2 := by
  intro w hw hl h
  have := (cow_writes_only_changed bs src dst).2.1 w hw
  rw [hl] at h
  exact this h.symm

/-- the last, short source block is also written when the destination merely continues past it
    (read sizes differ) although the bytes it overwrites are identical. -/
theorem cow_redundant_tail_write_witness :
    (rebuildCowLoop 4 [1, 2, 3] [1, 2, 3, 4]).writes = [(0, [1, 2, 3])] := by
  have h := (cow_writes_only_changed 4 [1, 2, 3] [1, 2, 3, 4]).1
  rw [(changed_blocks_spec_plain 4 (by decide) (Or.inl ⟨65536, by decide⟩) _ _).1] at h
  have h2 : ((plainBlocks 4 [1, 2, 3] [1, 2, 3, 4]).filter Blk.differs).map (fun b => (b.off, b.s)) = [(0, [1, 2, 3])] := by
    decide
  rw [h2] at h
  have := congrArg List.reverse h
  simpa using this

/-- The in-place strategy writes every compared block, changed or not, each exactly once and in
    file order; the temp file is the replay of the log over the preallocated zeros. -/
theorem inplace_writes_all (bs : Nat) (src dst : Bytes) :
    (rebuildInPlaceLoop bs src dst).writes.reverse =
      (cmpBlocks (chunkAt BUF_CAP bs) src dst).map (fun b => (b.off, b.s)) ∧
    (rebuildInPlaceLoop bs src dst).temp =
      (rebuildInPlaceLoop bs src dst).writes.reverse.foldl (fun t w => writeAt t w.1 w.2) (setLen [] src.length) :=
  ⟨(inplace_counters _ src dst).2.2, inplace_temp_replay _ src dst⟩

/-! ### routing -/

/-- side conditions per route: the kernel contract on the sparse route, a positive block size on
    the two block-compare routes. Nothing about the prior destination. -/
structure RouteOK (cfg : Cfg) (route : Route) (src : Bytes) : Prop where
  seek : route = .sparse → ∀ rs, cfg.seekData = some rs → Covers src rs
  block : route = .deltaCow ∨ route = .deltaInPlace → 0 < cfg.blockSize

/-- Every transfer path leaves (content, mtime) = the source's: for every route (also one the gates
    would not have chosen), every prior destination and every time of the run. -/
theorem transfer_postcondition (cfg : Cfg) (route : Route) (src : FileSt) (dst : Option FileSt) (now : Nat)
    (hok : RouteOK cfg route src.bytes) :
    (perform cfg route src dst now).file = src := by
  have hfull : ∀ r, (copyFile r src now).file = src := by
    intro r
    show setMtime (fsCopy src.bytes now).1 src.mtime = src
    unfold setMtime
    rw [fsCopy_bytes]
  cases route with
  | absent => exact hfull _
  | belowThreshold => exact hfull _
  | smallDest => exact hfull _
  | sparse =>
    show setMtime (copySparseFile src.bytes cfg.seekData now).1 src.mtime = src
    unfold setMtime
    rw [copySparseFile_bytes _ _ _ (hok.seek rfl)]
  | ratioFull =>
    show setMtime (fsCopy src.bytes now).1 src.mtime = src
    unfold setMtime
    rw [fsCopy_bytes]
  | deltaCow =>
    have hb := hok.block (Or.inl rfl)
    show setMtime { bytes := (rebuildCowLoop cfg.blockSize src.bytes _).temp, mtime := now } src.mtime = src
    unfold setMtime
    have := blockCompare_cow cfg.blockSize hb src.bytes ((dst.map (·.bytes)).getD [])
    simp only [rebuildCow] at this
    simp only [this]
  | deltaInPlace =>
    have hb := hok.block (Or.inr rfl)
    show setMtime { bytes := (rebuildInPlaceLoop cfg.blockSize src.bytes _).temp, mtime := now } src.mtime = src
    unfold setMtime
    have := blockCompare_inplace cfg.blockSize hb src.bytes ((dst.map (·.bytes)).getD [])
    simp only [rebuildInPlace] at this
    simp only [this]

/-- `sync_file_with_delta` as a whole. -/
theorem transfer_postcondition_sync (cfg : Cfg) (src : FileSt) (dst : Option FileSt) (now : Nat)
    (hb : 0 < cfg.blockSize) (hseek : cfg.srcSparse = true → ∀ rs, cfg.seekData = some rs → Covers src.bytes rs) :
    (syncFileWithDelta cfg src dst now).file = src := by
  apply transfer_postcondition
  constructor
  · intro hr
    apply hseek
    -- the sparse route is only taken for a sparse source
    unfold routeOf at hr
    cases hd : dst.map (·.bytes) with
    | none => rw [hd] at hr; simp at hr
    | some d =>
      rw [hd] at hr
      simp only at hr
      split at hr
      · simp at hr
      · split at hr
        · simp at hr
        · split at hr
          · assumption
          · split at hr
            · simp at hr
            · split at hr <;> simp at hr
  · intro _; exact hb

/-- `TransferResult.bytes_written` is the source size on every route. -/
theorem bytes_written_eq_size (cfg : Cfg) (route : Route) (src : FileSt) (dst : Option FileSt) (now : Nat)
    (hb : route = .deltaCow ∨ route = .deltaInPlace → 0 < cfg.blockSize) :
    (perform cfg route src dst now).bytesWritten = src.bytes.length := by
  cases route with
  | absent => rfl
  | belowThreshold => rfl
  | smallDest => rfl
  | sparse => exact copySparseFile_count _ _ _
  | ratioFull => rfl
  | deltaCow => exact (blockCompare_bytes_written cfg.blockSize (hb (Or.inl rfl)) _ _).2
  | deltaInPlace => exact (blockCompare_bytes_written cfg.blockSize (hb (Or.inr rfl)) _ _).1

/-- `used_delta()` is true exactly on the two block-compare routes, where `delta_operations` and
    `literal_bytes` are the counters of `changed_blocks_spec`. -/
theorem used_delta_iff_route (cfg : Cfg) (route : Route) (src : FileSt) (dst : Option FileSt) (now : Nat) :
    ((perform cfg route src dst now).usedDelta = true ↔ route = .deltaCow ∨ route = .deltaInPlace) ∧
    (perform cfg route src dst now).route = route ∧
    (route = .deltaCow → (perform cfg route src dst now).deltaOps =
        some (rebuildCow cfg.blockSize src.bytes ((dst.map (·.bytes)).getD [])).2.1 ∧
      (perform cfg route src dst now).literalBytes =
        some (rebuildCow cfg.blockSize src.bytes ((dst.map (·.bytes)).getD [])).2.2) ∧
    (route = .deltaInPlace → (perform cfg route src dst now).deltaOps =
        some (rebuildInPlace cfg.blockSize src.bytes ((dst.map (·.bytes)).getD [])).2.1 ∧
      (perform cfg route src dst now).literalBytes =
        some (rebuildInPlace cfg.blockSize src.bytes ((dst.map (·.bytes)).getD [])).2.2) := by
  cases route <;> simp [perform, copyFile, Outcome.usedDelta, rebuildCow, rebuildInPlace]

/-- the `dest_size < 4096` gate is dead code: no input takes it. -/
theorem small_gate_dead (cfg : Cfg) (src : Bytes) (dst : Option Bytes) : routeOf cfg src dst ≠ .smallDest :=
  routeOf_ne_smallDest cfg src dst

/-- which inputs reach the block-compare routes: destination present, size at least 10 MiB (or at
    least the hook threshold), source not sparse, and the ratio gate answers "delta" (or fails). -/
theorem delta_route_iff (cfg : Cfg) (src : Bytes) (d : Bytes) :
    (routeOf cfg src (some d) = .deltaCow ∨ routeOf cfg src (some d) = .deltaInPlace) ↔
      DELTA_THRESHOLD ≤ effDestSize cfg d.length ∧ cfg.srcSparse = false ∧
      (cfg.ratioFails = true ∨ (changeRatio cfg.blockSize src d).useDelta = true) := by
  unfold routeOf
  simp only
  by_cases h1 : effDestSize cfg d.length < DELTA_THRESHOLD
  · simp [h1]; intro h; omega
  · rw [if_neg h1, if_neg (by simp only [DELTA_THRESHOLD, SMALL_DEST] at *; omega)]
    cases hs : cfg.srcSparse
    · cases hf : cfg.ratioFails <;> cases hu : (changeRatio cfg.blockSize src d).useDelta <;>
        cases hc : cfg.useCow <;> simp <;> omega
    · simp

/-- identical non-empty files above the gate are never sent through a full copy by the ratio gate. -/
theorem same_content_uses_delta (cfg : Cfg) (src : Bytes) (hne : 0 < src.length)
    (hsz : DELTA_THRESHOLD ≤ effDestSize cfg src.length) (hsp : cfg.srcSparse = false) :
    routeOf cfg src (some src) = .deltaCow ∨ routeOf cfg src (some src) = .deltaInPlace :=
  (delta_route_iff cfg src src).mpr ⟨hsz, hsp, Or.inr (changeRatio_same _ _ hne)⟩

/-! ### the sampler -/

/-- `estimate_change_ratio`: at most 20 blocks are compared, all inside the destination, the first
    one is block 0; `use_delta` is `4·num ≤ 3·den`; sizes further apart than half the destination
    are decided without reading (and still choose delta up to three quarters). -/
theorem change_ratio_spec (bs : Nat) (src dst : Bytes) :
    (changeRatio bs src dst).changed ≤ (changeRatio bs src dst).sampled ∧
    (changeRatio bs src dst).sampled ≤ SAMPLE_COUNT ∧
    0 < (changeRatio bs src dst).den ∧
    (0 < dst.length → dst.length < 2 * absDiff src.length dst.length →
      (changeRatio bs src dst).sampled = 0 ∧
      ((changeRatio bs src dst).useDelta = true ↔ 4 * absDiff src.length dst.length ≤ 3 * dst.length)) ∧
    (dst.length = 0 → (changeRatio bs src dst).useDelta = false) := by
  have h1 := changeRatioH_changed_le (fun b => b) bs src dst
  refine ⟨h1.1, h1.2, changeRatioH_den_pos _ bs src dst, changeRatioH_size_gate _ bs src dst, ?_⟩
  intro h0
  simp [changeRatio, changeRatioH, h0, RatioResult.mk']

theorem sample_positions_spec (tb sc : Nat) (htb : 0 < tb) (hsc : 0 < sc) :
    (samplePositions tb sc).length = sc ∧ (∀ p ∈ samplePositions tb sc, p < tb) ∧
    (samplePositions tb sc).head? = some 0 :=
  ⟨length_samplePositions tb sc, samplePositions_lt tb sc htb, samplePositions_head tb sc hsc⟩

/-! ### non-vacuity -/

/-- `RouteOK` is satisfiable on every route (default configuration, any source). -/
theorem routeOK_example (route : Route) (src : Bytes) (h : Covers src []) : RouteOK {} route src :=
  ⟨fun _ rs hrs => by cases hrs; exact h, fun _ => by decide⟩

example : Covers [0, 0, 0] [] := ⟨by simp, by intro i hi h; exfalso; revert h; match i, hi with | 0, _ | 1, _ | 2, _ => decide⟩

/-- the `Covers` hypothesis is needed on the sparse route: regions that miss a data byte lose it. -/
theorem sparse_contract_counterexample :
    (perform { seekData := some [] } .sparse { bytes := [5], mtime := 1 } none 9).file.bytes = [0] := by
  simp [perform, copySparseFile, localSeek, setLen, zeros, setMtime]

-- destination shorter / longer / empty / equal, block size not dividing the length
example : (rebuildInPlace 4 [1, 2, 3, 4, 5, 6, 7] [1, 2, 3]).1 = [1, 2, 3, 4, 5, 6, 7] := blockCompare_inplace 4 (by decide) _ _
example : (rebuildCow 4 [1, 2, 3, 4, 5, 6, 7] [1, 2, 3]).1 = [1, 2, 3, 4, 5, 6, 7] := blockCompare_cow 4 (by decide) _ _
example : (rebuildCow 4 [1, 2, 3] [1, 2, 3, 4, 5, 6, 7, 8, 9]).1 = [1, 2, 3] := blockCompare_cow 4 (by decide) _ _
example : (rebuildCow 3 [1, 2, 3, 4] []).1 = [1, 2, 3, 4] := blockCompare_cow 3 (by decide) _ _
example : (rebuildCow 3 [] [1, 2, 3, 4]).1 = [] := blockCompare_cow 3 (by decide) _ _
example : (rebuildInPlace 3 [] [1, 2, 3, 4]).1 = [] := blockCompare_inplace 3 (by decide) _ _

/-- counters on a concrete pair (bs = 4, 7 source bytes, destination longer, second block differs):
    one changed block of 3 literal bytes; one write at offset 4. -/
theorem counters_example :
    (rebuildCow 4 [1, 2, 3, 4, 5, 6, 7] [1, 2, 3, 4, 5, 6, 9, 9, 9]).2 = (1, 3) ∧
    (rebuildCowLoop 4 [1, 2, 3, 4, 5, 6, 7] [1, 2, 3, 4, 5, 6, 9, 9, 9]).writes = [(4, [5, 6, 7])] := by
  have hp := changed_blocks_spec_plain 4 (by decide) (Or.inl ⟨65536, by decide⟩)
    [1, 2, 3, 4, 5, 6, 7] [1, 2, 3, 4, 5, 6, 9, 9, 9]
  have hs := changed_blocks_spec 4 [1, 2, 3, 4, 5, 6, 7] [1, 2, 3, 4, 5, 6, 9, 9, 9]
  have hw := (cow_writes_only_changed 4 [1, 2, 3, 4, 5, 6, 7] [1, 2, 3, 4, 5, 6, 9, 9, 9]).1
  rw [hp.1] at hw hs
  constructor
  · rw [hs.2.2]
    have e1 := hs.1
    have e2 := hs.2.1
    have d1 : ((plainBlocks 4 [1, 2, 3, 4, 5, 6, 7] [1, 2, 3, 4, 5, 6, 9, 9, 9]).filter Blk.differs).length = 1 := by decide
    have d2 : (((plainBlocks 4 [1, 2, 3, 4, 5, 6, 7] [1, 2, 3, 4, 5, 6, 9, 9, 9]).filter Blk.differs).map (·.s.length)).sum = 3 := by decide
    rw [d1] at e1; rw [d2] at e2
    exact Prod.ext e1 e2
  · have d3 : ((plainBlocks 4 [1, 2, 3, 4, 5, 6, 7] [1, 2, 3, 4, 5, 6, 9, 9, 9]).filter Blk.differs).map (fun b => (b.off, b.s))
        = [(4, [5, 6, 7])] := by decide
    rw [d3] at hw
    have := congrArg List.reverse hw
    simpa using this

-- every route is reachable (hook threshold 8, block size 4)
example : routeOf { hookThreshold := some 8, blockSize := 4 } [1] none = .absent := by decide
example : routeOf { hookThreshold := some 8, blockSize := 4 } [1] (some [1, 2, 3]) = .belowThreshold := by decide
example : routeOf { hookThreshold := some 8, blockSize := 4, srcSparse := true } [1] (some [1, 2, 3, 4, 5, 6, 7, 8]) = .sparse := by decide
example : routeOf { hookThreshold := some 8, blockSize := 4 } [1] (some [1, 2, 3, 4, 5, 6, 7, 8]) = .ratioFull := by decide
example : routeOf { hookThreshold := some 8, blockSize := 4, useCow := true } [1, 2, 3, 4, 5, 6, 7, 9] (some [1, 2, 3, 4, 5, 6, 7, 8]) = .deltaCow := by decide
example : routeOf { hookThreshold := some 8, blockSize := 4 } [1, 2, 3, 4, 5, 6, 7, 9] (some [1, 2, 3, 4, 5, 6, 7, 8]) = .deltaInPlace := by decide
-- production gate: a 3-byte destination is below 10 MiB
example : routeOf {} [1] (some [1, 2, 3]) = .belowThreshold := by decide
-- the sampler on a concrete pair: 2 blocks, both sampled, one changed → ratio 1/2, delta
example : changeRatio 4 [1, 2, 3, 4, 5, 6, 7, 9] [1, 2, 3, 4, 5, 6, 7, 8] =
    { num := 1, den := 2, sampled := 2, changed := 1, useDelta := true } := by decide
-- size difference between one half and three quarters of the destination: no sample, delta
example : changeRatio 4 [1, 2, 3] [1, 2, 3, 4, 5, 6, 7, 8] =
    { num := 5, den := 8, sampled := 0, changed := 0, useDelta := true } := by decide
example : samplePositions 38 20 = [0, 2, 4, 6, 8, 10, 12, 14, 16, 18, 20, 22, 24, 26, 28, 30, 32, 34, 36, 37] := by decide

end SyModel.Props.C01Bytes
