/-
  GenEnginePlan — the bridge for the translated unit `EnginePlan` (`SyModel/Generated/Code/EnginePlan.lean`, regenerated on
  every run from src/sync/mod.rs): `plan_round`, ONE round of the planning loop of `SyncEngine::sync`
  (`for file in &source_files { … }`): planner call, override 1 (a destination symlink at the path of a regular file is
  never up to date: fixes 0eacf0e, 90eec9e), override 2 (a destination symlink at the path of a source directory is
  replaced, never followed, and everything below it is created: fixes 862af11, 135a0e1), `tasks.push(task)`.

  Vocabulary, the structured program `roundSpec`, the composed instance `ext2`, the world-level reading `roundOut`, the
  path lemmas and `pruneLinks` are in `Lemmas/GenEnginePlan.lean`; world (`PlanWorld`), `extOf`, `runM`, the abstraction
  maps of unit PlannerFx in `Lemmas/GenPlannerFx.lean`.

  Items (numbers of the task statement):
    1. `plan_round_is_structured` (any instance): the round = `plannerCall → override1 → override2 → push`;
       `override1_silent/_asks`, `override2_below_silent/_nondir_silent/_dir_asks`: the two `read_link` probes run exactly
       under the conditions of the source; `plan_round_ok_shape`: one task appended, `replaced_links` grows by at most
       the task's own path and only for a directory entry.
    2. `ext2_is_generated`: the composed instance's planner operations are the generated functions of unit PlannerFx.
    3. `plan_round_eq_planEntry`: every entry kind × every destination node × below a replaced link or not:
       abstraction of the appended task = `planEntry cfg M (absE w file)`; the invariant `RL` is kept.
       `override2_eq_overrideDirOverLink`, `plan_round_dir_eq_model`: the handwritten `overrideDirOverLink` of
       `Props/GenPlannerFx` is what the translated override 2 computes.
    4. `plan_loop_eq_model` (+ `_self`, `plan_loop_is_plan_prefix`, `walkOrder_of_parentsFirst`).
    5. `replaced_link_children_are_creates` (C02), `symlink_dest_never_skip_for_file` (C17/C02), `second_run_skips` (C03).

  Hypotheses (each with a satisfiability example at the end of the file):
    * the round is called with the world's root and, for item 3/4, without a checksum database (`db = none`; with a
      database the file arm is `planEntryDb` — `GenPlannerFx.plan_file_async_file_db_eq_model` — not composed here);
    * `EntryOK` — the per-entry hypotheses of `Props/GenPlannerFx` (configuration = engine, `FromCli`, a symlink entry
      is not a directory entry, preserve mode has the link text, `--checksum` sources are readable);
    * `RL w planned rl` and `Walked planned file` — the loop invariant and what a parents-first, duplicate-free walk
      gives; derived for the whole loop from `UniqueRels` / `ParentsFirst` of the abstracted scan;
    * `ModelAt w M k` — the model's map lists at `k` what the world lists, unless `k` is reached THROUGH a destination
      link: then nothing.  The world may list nodes below a symlink node: that is what probes see through the link
      (`PlanWorld.stat` answers from the map at the full key).  Two instances: `pruneLinks w.dst` always
      (`modelAt_pruneLinks`); `w.dst` itself under `NothingBelowLinks w.dst` (`modelAt_self`).
-/
import SyModel.Lemmas.GenEnginePlan
import SyModel.Props.GenPlannerFx
set_option linter.unusedVariables false
set_option linter.unusedSimpArgs false
namespace SyModel.Props.GenEnginePlan
open SyModel SyModel.Engine SyModel.Generated SyModel.Generated.EnginePlan SyModel.Lemmas.GenEnginePlan
open SyModel.Lemmas.GenPlannerFx (PlanWorld runM runM_pure runM_bind runM_probe runM_capture runM_map probe extOf
  compsOf textOf CleanPath planAt linkPlan absAct absTask absEntry absMeta absLinkTask absLinkEntry absLinkMode
  absTarget linkText modeOf FromCli NotLinkAt relOf_join stat_join linkAt_join existsAt_join simpleTask preserveAct
  followEntry planAt_file_eq_planFileAct seenNode_resolve_noDb planAt_file_act compsOf_injective)

/-! ## abstraction of this unit's types (through unit PlannerFx's maps) -/

/-- `SyncTask ↦ Task` -/
def absT (mode : SymlinkMode) (w : PlanWorld) (t : SyncTask) : Task := absLinkTask (toPMode mode) w (toPTask t)

/-- `FileEntry ↦ SEntry`: symlink entries by `absLinkEntry`, all others by `absEntry` -/
def absE (w : PlanWorld) (file : FileEntry) : SEntry :=
  if file.is_symlink then absLinkEntry w (toPEntry file) else absEntry w (toPEntry file)

theorem absE_rel (w : PlanWorld) (file : FileEntry) : (absE w file).rel = compsOf file.relative_path := by
  unfold absE; split <;> rfl

/-- `planEntry` reads the destination map at the entry's own path only -/
theorem planEntry_congr (cfg : Cfg) (M M' : Map DNode) (e : SEntry) (h : M.get? e.rel = M'.get? e.rel) :
    planEntry cfg M e = planEntry cfg M' e := by
  unfold planEntry; rw [h]

theorem planned_dest (w : PlanWorld) (p : PlannerFx.StrategyPlanner) (self : SyncEngine) (file : FileEntry) (u : Bool) :
    (planned w p self file u).dest_path = Rs.join w.root file.relative_path := by
  unfold planned linkPlan simpleTask
  split
  · split
    · rfl
    · rfl
    · split
      · split <;> rfl
      · rfl
  · rfl

theorem ofPTask_dest (t : PlannerFx.SyncTask) : (ofPTask t).dest_path = t.dest_path := rfl

theorem fix1_dest (w : PlanWorld) (file : FileEntry) (t : SyncTask) : (fix1 w file t).dest_path = t.dest_path := by
  unfold fix1 setAct; split <;> rfl

theorem fix1_source (w : PlanWorld) (file : FileEntry) (t : SyncTask) : (fix1 w file t).source = t.source := by
  unfold fix1 setAct; split <;> rfl

theorem linkAt_isSome (w : PlanWorld) (rel : Rs.Path) :
    (w.linkAt (Rs.join w.root rel)).isSome = isLinkNode (w.dst.get? (compsOf rel)) := by
  rw [linkAt_join]
  cases w.dst.get? (compsOf rel) with
  | none => rfl
  | some n => cases n <;> rfl

/-- what the round leaves in `replaced_links` -/
theorem roundOut_links (w : PlanWorld) (p : PlannerFx.StrategyPlanner) (self : SyncEngine) (file : FileEntry)
    (u : Bool) (rl : List Rs.Path) :
    (roundOut w p self file u rl).2 =
      if !belowReplaced rl (Rs.join w.root file.relative_path) && file.is_dir &&
          isLinkNode (w.dst.get? (compsOf file.relative_path))
      then rl ++ [Rs.join w.root file.relative_path] else rl := by
  unfold roundOut fix2
  simp only [fix1_dest, ofPTask, planned_dest, linkAt_isSome]
  cases belowReplaced rl (Rs.join w.root file.relative_path) <;> cases file.is_dir <;>
    cases isLinkNode (w.dst.get? (compsOf file.relative_path)) <;> rfl

/-! ## the two overrides on the composed world, as one action rewrite -/

theorem setAct_self (t : SyncTask) : setAct t t.action = t := rfl

/-- NON-DIRECTORY entry, task whose source is NOT a symlink (plain files; the dereferenced entry of follow mode):
    below a replaced link ⇒ Create; else a link node at the path turns Skip/Create into Update; else unchanged.
    `replaced_links` is unchanged. -/
theorem overrides_file (w : PlanWorld) (self : SyncEngine) (file : FileEntry) (hfd : file.is_dir = false)
    (t0 : SyncTask) (f : FileEntry) (hsrc : t0.source = some f) (hfs : f.is_symlink = false)
    (hdp : t0.dest_path = Rs.join w.root file.relative_path) (rl : List Rs.Path) :
    (fix2 w self file (fix1 w file t0) rl).1 =
      setAct t0 (if belowReplaced rl (Rs.join w.root file.relative_path) then .Create
        else if isSkipOrCreate t0.action && isLinkNode (w.dst.get? (compsOf file.relative_path)) then .Update
        else t0.action) := by
  have hpa : probe1Asked file t0 = isSkipOrCreate t0.action := by
    simp [probe1Asked, hfd, hsrc, Rs.is_some_and, hfs]
  have hntt : ∀ a, nothingToTransfer self (setAct t0 a) = false := by
    intro a; simp [nothingToTransfer, setAct, hsrc, Rs.is_some_and, hfs]
  have h1 : fix1 w file t0 =
      setAct t0 (if isSkipOrCreate t0.action && isLinkNode (w.dst.get? (compsOf file.relative_path)) then .Update
        else t0.action) := by
    unfold fix1
    rw [hpa, hdp, linkAt_isSome]
    split <;> rfl
  rw [h1]
  unfold fix2
  simp only [hntt, hfd, Bool.false_and, Bool.false_eq_true, if_false]
  have hd' : ∀ a, (setAct t0 a).dest_path = Rs.join w.root file.relative_path := fun a => hdp
  rw [hd']
  cases belowReplaced rl (Rs.join w.root file.relative_path) <;> rfl

/-- NON-DIRECTORY entry, task whose source IS a symlink (what `plan_symlink` returns when the link itself, or nothing,
    is transferred): no probe at all; below a replaced link ⇒ Create unless nothing is transferred. -/
theorem overrides_link (w : PlanWorld) (self : SyncEngine) (file : FileEntry) (hfd : file.is_dir = false)
    (t0 : SyncTask) (f : FileEntry) (hsrc : t0.source = some f) (hfs : f.is_symlink = true)
    (hdp : t0.dest_path = Rs.join w.root file.relative_path) (rl : List Rs.Path) :
    (fix2 w self file (fix1 w file t0) rl).1 =
      setAct t0 (if belowReplaced rl (Rs.join w.root file.relative_path) &&
          !(isSkip t0.action && self.symlink_mode != SymlinkMode.Preserve) then .Create else t0.action) := by
  have hpa : probe1Asked file t0 = false := by
    simp [probe1Asked, hfd, hsrc, Rs.is_some_and, hfs]
  have h1 : fix1 w file t0 = t0 := by unfold fix1; rw [hpa]; rfl
  rw [h1]
  unfold fix2
  have hntt : nothingToTransfer self t0 = (isSkip t0.action && self.symlink_mode != SymlinkMode.Preserve) := by
    simp [nothingToTransfer, hsrc, Rs.is_some_and, hfs]
  rw [hntt, hdp]
  simp only [hfd, Bool.false_and, Bool.false_eq_true, if_false]
  cases belowReplaced rl (Rs.join w.root file.relative_path) <;>
    cases (isSkip t0.action && self.symlink_mode != SymlinkMode.Preserve) <;> rfl

/-- DIRECTORY entry (task source not a symlink): no probe of override 1; below a replaced link ⇒ Create, else a link
    node at the path ⇒ Update. -/
theorem overrides_dir (w : PlanWorld) (self : SyncEngine) (file : FileEntry) (hfd : file.is_dir = true)
    (t0 : SyncTask) (f : FileEntry) (hsrc : t0.source = some f) (hfs : f.is_symlink = false)
    (hdp : t0.dest_path = Rs.join w.root file.relative_path) (rl : List Rs.Path) :
    (fix2 w self file (fix1 w file t0) rl).1 =
      setAct t0 (if belowReplaced rl (Rs.join w.root file.relative_path) then .Create
        else if isLinkNode (w.dst.get? (compsOf file.relative_path)) then .Update else t0.action) := by
  have hpa : probe1Asked file t0 = false := by simp [probe1Asked, hfd]
  have h1 : fix1 w file t0 = t0 := by unfold fix1; rw [hpa]; rfl
  rw [h1]
  unfold fix2
  have hntt : nothingToTransfer self t0 = false := by simp [nothingToTransfer, hsrc, Rs.is_some_and, hfs]
  rw [hntt, hdp, linkAt_isSome]
  simp only [hfd, Bool.true_and, Bool.false_eq_true, if_false]
  cases belowReplaced rl (Rs.join w.root file.relative_path) <;>
    cases isLinkNode (w.dst.get? (compsOf file.relative_path)) <;> rfl

/-! ## the round, kind by kind -/

/-- where the model's map stands with respect to the world's: at key `k` it lists what the world lists, unless `k` is
    reached through a link — then nothing -/
def ModelAt (w : PlanWorld) (M : Map DNode) (k : Engine.Path) : Prop :=
  M.get? k = if hasLinkAbove w.dst k then none else w.dst.get? k

theorem absT_file (mode : SymlinkMode) (w : PlanWorld) (src : PlannerFx.FileEntry) (hd : src.is_dir = false)
    (hs : src.is_symlink = false) (rel : Rs.Path) (a : SyncAction) (c1 c2 : Option Rs.Opaque) :
    absT mode w { source := some (ofPEntry src), dest_path := Rs.join w.root rel, action := a,
                  source_checksum := c1, dest_checksum := c2 } =
      ⟨absAct (toPAct a), compsOf rel, .file (absMeta w src) src.nlink⟩ := by
  simp [absT, absLinkTask, toPTask, relOf_join, hs, hd]

theorem absT_dir (mode : SymlinkMode) (w : PlanWorld) (src : PlannerFx.FileEntry) (hd : src.is_dir = true)
    (hs : src.is_symlink = false) (rel : Rs.Path) (a : SyncAction) (c1 c2 : Option Rs.Opaque) :
    absT mode w { source := some (ofPEntry src), dest_path := Rs.join w.root rel, action := a,
                  source_checksum := c1, dest_checksum := c2 } =
      ⟨absAct (toPAct a), compsOf rel, .dir⟩ := by
  simp [absT, absLinkTask, toPTask, relOf_join, hs, hd]

theorem absT_link (mode : SymlinkMode) (w : PlanWorld) (src : PlannerFx.FileEntry) (hs : src.is_symlink = true)
    (rel : Rs.Path) (a : SyncAction) (c1 c2 : Option Rs.Opaque) :
    absT mode w { source := some (ofPEntry src), dest_path := Rs.join w.root rel, action := a,
                  source_checksum := c1, dest_checksum := c2 } =
      ⟨absAct (toPAct a), compsOf rel,
        match mode with | .Preserve => .symlink (linkText src) | _ => .nothing⟩ := by
  cases mode <;> simp [absT, absLinkTask, toPTask, relOf_join, hs, toPMode]

@[simp] theorem toPEntry_is_dir (e : FileEntry) : (toPEntry e).is_dir = e.is_dir := rfl
@[simp] theorem toPEntry_is_symlink (e : FileEntry) : (toPEntry e).is_symlink = e.is_symlink := rfl
@[simp] theorem toPEntry_relative_path (e : FileEntry) : (toPEntry e).relative_path = e.relative_path := rfl
@[simp] theorem toPEntry_path (e : FileEntry) : (toPEntry e).path = e.path := rfl
@[simp] theorem toPEntry_symlink_target (e : FileEntry) : (toPEntry e).symlink_target = e.symlink_target := rfl

/-- REGULAR FILES (plain entries and the dereferenced entry of follow mode): for a task planned by `plan_file_async`
    from a non-directory, non-symlink entry `src` — every destination node at the path, and below a replaced link —
    the two overrides give the model's `planFileAct` against the MODEL's map. -/
theorem file_core (w : PlanWorld) (p : PlannerFx.StrategyPlanner) (hp : FromCli p) (self : SyncEngine)
    (file : FileEntry) (hfd : file.is_dir = false) (src : PlannerFx.FileEntry) (hd : src.is_dir = false)
    (hs : src.is_symlink = false) (hrel : src.relative_path = file.relative_path)
    (hsrc : p.checksum = true → ∃ sm, w.stat src.path = .file sm)
    (cfg : Cfg) (hc : cfg.compare = modeOf p) (rl : List Rs.Path) (M : Map DNode)
    (hcov : belowReplaced rl (Rs.join w.root file.relative_path) = hasLinkAbove w.dst (compsOf file.relative_path))
    (hM : ModelAt w M (compsOf file.relative_path)) (c1 c2 : Option Nat) :
    absT self.symlink_mode w
        (fix2 w self file (fix1 w file (ofPTask
          { source := some src, dest_path := Rs.join w.root file.relative_path,
            action := (planAt w p src false).1, source_checksum := c1, dest_checksum := c2 })) rl).1 =
      ⟨planFileAct cfg (absMeta w src) (M.get? (compsOf file.relative_path)), compsOf file.relative_path,
        .file (absMeta w src) src.nlink⟩ := by
  rw [overrides_file w self file hfd _ (ofPEntry src) rfl hs rfl]
  simp only [ofPTask, Option.map_some, setAct, absT_file _ _ _ hd hs, hcov]
  unfold ModelAt at hM
  rw [hM]
  cases hla : hasLinkAbove w.dst (compsOf file.relative_path)
  · simp only [Bool.false_eq_true, if_false]
    have hnlOf : (∀ t, w.dst.get? (compsOf file.relative_path) ≠ some (.symlink t)) →
        absAct (planAt w p src false).1 =
          planFileAct cfg (absMeta w src) (w.dst.get? (compsOf file.relative_path)) := by
      intro hnl0
      have hnl : NotLinkAt w (compsOf src.relative_path) := by rw [hrel]; exact hnl0
      have h := planAt_file_eq_planFileAct w p hp src false hd hsrc cfg hc
      rw [stat_join, seenNode_resolve_noDb w _ _ hnl, hrel] at h
      rw [h]; rfl
    cases hg : w.dst.get? (compsOf file.relative_path) with
    | none =>
      simp only [isLinkNode, Bool.and_false, Bool.false_eq_true, if_false, toPAct_ofPAct]
      rw [hnlOf (by rw [hg]; intro t ht; cases ht), hg]
    | some n =>
      cases n with
      | symlink t =>
        simp only [isLinkNode, Bool.and_true, planFileAct]
        rcases planAt_file_act w p src false with h | h | h <;> rw [h] <;>
          simp [isSkipOrCreate, ofPAct, toPAct, absAct]
      | dir =>
        simp only [isLinkNode, Bool.and_false, Bool.false_eq_true, if_false, toPAct_ofPAct]
        rw [hnlOf (by rw [hg]; intro t ht; cases ht), hg]
      | file d =>
        simp only [isLinkNode, Bool.and_false, Bool.false_eq_true, if_false, toPAct_ofPAct]
        rw [hnlOf (by rw [hg]; intro t ht; cases ht), hg]
  · simp [planFileAct, toPAct, absAct]

/-- what the bridge assumes of the configuration and of ONE scanned entry (each clause as in `Props/GenPlannerFx`):
    the model's configuration is the engine's (`links`, `compare`); the planner value was built by the CLI constructor;
    a symlink entry is not a directory entry (the scanner's `is_dir` is the lstat kind, src/sync/scanner.rs) and, in
    preserve mode, carries the link text the scanner read; with `--checksum` a regular-file source is readable. -/
structure EntryOK (w : PlanWorld) (p : PlannerFx.StrategyPlanner) (self : SyncEngine) (cfg : Cfg) (file : FileEntry) :
    Prop where
  links : cfg.links = absLinkMode (toPMode self.symlink_mode)
  cmp : cfg.compare = modeOf p
  cli : FromCli p
  linkNotDir : file.is_symlink = true → file.is_dir = false
  target : file.is_symlink = true → self.symlink_mode = .Preserve → ∃ text, file.symlink_target = some text
  readable : p.checksum = true → file.is_symlink = false → file.is_dir = false → ∃ sm, w.stat file.path = .file sm

/-- the task appended by the round, abstracted, IS the model's `planEntry` against the model's map — the pure core of
    `plan_round_eq_planEntry` (no database) -/
theorem roundOut_eq_planEntry (w : PlanWorld) (p : PlannerFx.StrategyPlanner) (self : SyncEngine) (file : FileEntry)
    (cfg : Cfg) (hok : EntryOK w p self cfg file) (rl : List Rs.Path) (M : Map DNode)
    (hcov : belowReplaced rl (Rs.join w.root file.relative_path) = hasLinkAbove w.dst (compsOf file.relative_path))
    (hM : ModelAt w M (compsOf file.relative_path)) :
    absT self.symlink_mode w (roundOut w p self file false rl).1 = planEntry cfg M (absE w file) := by
  obtain ⟨hlinks, hcmp, hcli, hlnd, htarget, hreadable⟩ := hok
  unfold roundOut planned absE
  cases hsl : file.is_symlink
  · -- not a symlink entry: `plan_file_async`
    simp only [Bool.false_eq_true, if_false]
    cases hfd : file.is_dir
    · -- a regular file
      rw [file_core w p hcli self file hfd (toPEntry file) hfd hsl rfl
        (fun hck => hreadable hck hsl hfd) cfg hcmp rl M hcov hM]
      simp [planEntry, absEntry, toPEntry, hfd]
    · -- a directory
      rw [overrides_dir w self file hfd _ file rfl hsl rfl]
      unfold ModelAt at hM
      simp only [ofPTask, Option.map_some, setAct, absT_dir _ _ (toPEntry file) hfd hsl, hcov, planEntry, absEntry,
        toPEntry_is_dir, toPEntry_relative_path, hfd, if_true, hM, planAt, stat_join, PlanWorld.resolve]
      cases hla : hasLinkAbove w.dst (compsOf file.relative_path)
      · cases hg : w.dst.get? (compsOf file.relative_path) with
        | none => simp [isLinkNode, ofPAct, toPAct, absAct]
        | some n => cases n <;> simp [isLinkNode, ofPAct, toPAct, absAct]
      · simp [toPAct, absAct]
  · -- a symlink entry: `plan_symlink`
    have hfd := hlnd hsl
    simp only [if_true]
    unfold linkPlan
    cases hmode : self.symlink_mode with
    | Skip =>
      rw [hmode] at hlinks
      simp only [toPEngine, hmode, toPMode]
      rw [overrides_link w self file hfd _ file rfl hsl rfl]
      simp only [ofPTask, simpleTask, Option.map_some, setAct, absT_link _ _ (toPEntry file) hsl]
      simp [ofPAct, isSkip, hmode, toPAct, absAct, planEntry, absLinkEntry, hlinks, absLinkMode, toPMode]
    | Preserve =>
      rw [hmode] at hlinks
      obtain ⟨text, htext⟩ := htarget hsl hmode
      simp only [toPEngine, hmode, toPMode]
      rw [overrides_link w self file hfd _ file rfl hsl rfl]
      unfold ModelAt at hM
      simp only [ofPTask, simpleTask, Option.map_some, setAct, absT_link _ _ (toPEntry file) hsl, hmode,
        bne_self_eq_false, Bool.and_false, Bool.not_false, Bool.and_true, hcov, planEntry, absLinkEntry, hlinks,
        absLinkMode, toPMode, hM, toPEntry_relative_path]
      cases hla : hasLinkAbove w.dst (compsOf file.relative_path)
      · simp only [Bool.false_eq_true, if_false, toPAct_ofPAct, preserveAct, linkAt_join, existsAt_join,
          PlanWorld.resolve, toPEntry_relative_path, toPEntry_symlink_target, htext]
        cases hg : w.dst.get? (compsOf file.relative_path) with
        | none => simp [absAct]
        | some n =>
          cases n with
          | dir => simp [absAct]
          | file d => simp [absAct]
          | symlink t =>
            have hlt : linkText (toPEntry file) = String.ofList text := by simp [linkText, htext]
            simp only [Task.mk.injEq, and_true, hlt]
            by_cases hq : t = String.ofList text
            · subst hq; simp [String.toList_ofList, absAct]
            · have : ¬ t.toList = text := fun h => hq (by rw [← h, String.ofList_toList])
              simp [hq, this, absAct]
      · simp [toPAct, absAct]
    | Follow =>
      rw [hmode] at hlinks
      simp only [toPEngine, hmode, toPMode]
      simp only [planEntry, absLinkEntry, hlinks, absLinkMode, toPMode, PlanWorld.metaAt, toPEntry_path]
      cases hst : w.stat file.path with
      | dangling =>
        simp only [absTarget]
        rw [overrides_link w self file hfd _ file rfl hsl rfl]
        simp only [ofPTask, simpleTask, Option.map_some, setAct, absT_link _ _ (toPEntry file) hsl]
        simp [ofPAct, isSkip, hmode, toPAct, absAct]
      | dir =>
        simp only [if_true, absTarget]
        rw [overrides_link w self file hfd _ file rfl hsl rfl]
        simp only [ofPTask, simpleTask, Option.map_some, setAct, absT_link _ _ (toPEntry file) hsl]
        simp [ofPAct, isSkip, hmode, toPAct, absAct]
      | file d =>
        simp only [Bool.false_eq_true, if_false, absTarget]
        have hsrc : p.checksum = true →
            ∃ sm, w.stat (followEntry (toPEntry file) ⟨false, d.mtime, d.size⟩).path = .file sm := fun _ => ⟨d, hst⟩
        have hcore := file_core w p hcli self file hfd (followEntry (toPEntry file) ⟨false, d.mtime, d.size⟩) hfd rfl
          rfl hsrc cfg hcmp rl M hcov hM
        have hmeta : absMeta w (followEntry (toPEntry file) ⟨false, d.mtime, d.size⟩) =
            { content := d.content, size := d.size, mtime := d.mtime, xattrs := [], ino := 0 } := by
          simp [absMeta, followEntry, PlanWorld.contentAt, hst]
        have hnl1 : (followEntry (toPEntry file) ⟨false, d.mtime, d.size⟩).nlink = 1 := rfl
        rw [hmeta, hnl1, hmode] at hcore
        exact hcore _ _

/-! ## `replaced_links` and the destination links above a path: the invariant `RL` -/

/-- what a parents-first, duplicate-free walk guarantees when `file` is reached after `planned`: no earlier entry has
    its path, no earlier path is the root, and every strict ancestor of its path is an earlier DIRECTORY entry -/
structure Walked (planned : List FileEntry) (file : FileEntry) : Prop where
  fresh : ∀ f ∈ planned, f.relative_path ≠ file.relative_path
  nonroot : ∀ f ∈ planned, f.relative_path ≠ []
  parents : ∀ a ∈ ancestors (compsOf file.relative_path),
    ∃ f ∈ planned, compsOf f.relative_path = a ∧ f.is_dir = true

/-- THE INVARIANT of the planning loop: `replaced_links` holds exactly the destination paths of the directory entries
    planned so far at which the destination map has a symlink node that is not itself reached through a link -/
def RL (w : PlanWorld) (planned : List FileEntry) (rl : List Rs.Path) : Prop :=
  ∀ l, l ∈ rl ↔ ∃ f ∈ planned, f.is_dir = true ∧ l = Rs.join w.root f.relative_path ∧
    isLinkNode (w.dst.get? (compsOf f.relative_path)) = true ∧ hasLinkAbove w.dst (compsOf f.relative_path) = false

theorem isPrefix_lt_of_ne {a b : Engine.Path} (h : isPrefix a b = true) (hne : a ≠ b) : a.length < b.length := by
  have hle := isPrefix_length h
  rcases Nat.lt_or_ge a.length b.length with hlt | hge
  · exact hlt
  · exact absurd (isPrefix_eq_of_length h hge) hne

/-- a link above a path ⇒ a TOPMOST link above it (one that is not itself reached through a link) -/
theorem exists_top_link (m : Map DNode) (k : Engine.Path) :
    ∀ n a, a.length ≤ n → a ∈ ancestors k → isLinkNode (m.get? a) = true →
      ∃ a' ∈ ancestors k, isLinkNode (m.get? a') = true ∧ hasLinkAbove m a' = false := by
  intro n
  induction n with
  | zero =>
    intro a hlen ha hl
    have : a = [] := List.eq_nil_of_length_eq_zero (Nat.le_zero.1 hlen)
    exact absurd this (mem_ancestors.1 ha).1
  | succ n ih =>
    intro a hlen ha hl
    cases hla : hasLinkAbove m a
    · exact ⟨a, ha, hl, hla⟩
    · unfold hasLinkAbove at hla
      obtain ⟨b, hb, hbl⟩ := List.any_eq_true.1 hla
      obtain ⟨hb0, hbp, hbne⟩ := mem_ancestors.1 hb
      obtain ⟨ha0, hap, hane⟩ := mem_ancestors.1 ha
      have hlt := isPrefix_lt_of_ne hbp hbne
      have hbk : b ∈ ancestors k := by
        refine mem_ancestors.2 ⟨hb0, isPrefix_trans hbp hap, ?_⟩
        intro e
        have := isPrefix_lt_of_ne hap hane
        rw [e] at hlt
        omega
      exact ih b (by omega) hbk hbl

/-- under the invariant, "below a replaced link" (the text test of the code) IS "reached through a destination link"
    (the component test of the model) -/
theorem below_eq_hasLinkAbove (w : PlanWorld) (planned : List FileEntry) (rl : List Rs.Path) (file : FileEntry)
    (hrl : RL w planned rl) (hwk : Walked planned file) :
    belowReplaced rl (Rs.join w.root file.relative_path) = hasLinkAbove w.dst (compsOf file.relative_path) := by
  rw [Bool.eq_iff_iff]
  constructor
  · intro hb
    unfold belowReplaced at hb
    obtain ⟨l, hl, hsw⟩ := List.any_eq_true.1 hb
    obtain ⟨f, hf, hfd, rfl, hlink, _⟩ := (hrl l).1 hl
    rw [path_starts_with_join _ _ _ (hwk.nonroot f hf)] at hsw
    have hne : compsOf f.relative_path ≠ compsOf file.relative_path :=
      fun e => hwk.fresh f hf (compsOf_injective e)
    unfold hasLinkAbove
    exact List.any_eq_true.2 ⟨_, mem_ancestors.2 ⟨compsOf_ne_nil _, hsw, hne⟩, hlink⟩
  · intro hla
    unfold hasLinkAbove at hla
    obtain ⟨a, ha, hal⟩ := List.any_eq_true.1 hla
    obtain ⟨a', ha', hl', htop⟩ := exists_top_link w.dst _ a.length a (Nat.le_refl _) ha hal
    obtain ⟨f, hf, hfa, hfd⟩ := hwk.parents a' ha'
    have hmem : Rs.join w.root f.relative_path ∈ rl :=
      (hrl _).2 ⟨f, hf, hfd, rfl, by rw [hfa]; exact hl', by rw [hfa]; exact htop⟩
    unfold belowReplaced
    refine List.any_eq_true.2 ⟨_, hmem, ?_⟩
    rw [path_starts_with_join _ _ _ (hwk.nonroot f hf), hfa]
    exact (mem_ancestors.1 ha').2.1

/-- the round keeps the invariant -/
theorem RL_step (w : PlanWorld) (p : PlannerFx.StrategyPlanner) (self : SyncEngine) (planned : List FileEntry)
    (rl : List Rs.Path) (file : FileEntry) (u : Bool) (hrl : RL w planned rl) (hwk : Walked planned file) :
    RL w (planned ++ [file]) (roundOut w p self file u rl).2 := by
  rw [roundOut_links, below_eq_hasLinkAbove w planned rl file hrl hwk]
  intro l
  by_cases hc : (!hasLinkAbove w.dst (compsOf file.relative_path) && file.is_dir &&
      isLinkNode (w.dst.get? (compsOf file.relative_path))) = true
  · rw [if_pos hc]
    simp only [Bool.and_eq_true, Bool.not_eq_true'] at hc
    simp only [List.mem_append, List.mem_singleton, hrl l]
    constructor
    · rintro (⟨f, hf, h⟩ | rfl)
      · exact ⟨f, Or.inl hf, h⟩
      · exact ⟨file, Or.inr rfl, hc.1.2, rfl, hc.2, hc.1.1⟩
    · rintro ⟨f, hf | rfl, h⟩
      · exact Or.inl ⟨f, hf, h⟩
      · exact Or.inr h.2.1
  · rw [if_neg hc]
    simp only [List.mem_append, List.mem_singleton, hrl l]
    constructor
    · rintro ⟨f, hf, h⟩; exact ⟨f, Or.inl hf, h⟩
    · rintro ⟨f, hf | rfl, h⟩
      · exact ⟨f, hf, h⟩
      · exfalso; apply hc
        simp [h.1, h.2.2.1, h.2.2.2]

/-! ## item 3: the bridge for one round -/

/-- **BRIDGE (one round, every entry kind, every destination node, below a replaced link or not).**  On the composed
    instance `ext2 p` — planner operations = the generated code of unit PlannerFx — from any world `w`, with
    `replaced_links` satisfying the loop invariant for the entries planned so far: the round never fails, leaves the
    world as it was, appends exactly one task whose abstraction is the model's `planEntry cfg M (absE w file)` for every
    map `M` that lists at the entry's path what the world lists unless the path is reached through a link (then
    nothing), and answers `replaced_links` for which the invariant holds again. -/
theorem plan_round_eq_planEntry (p : PlannerFx.StrategyPlanner) (self : SyncEngine) (file : FileEntry) (w : PlanWorld)
    (pl : Rs.Opaque) (tasks : List SyncTask) (planned : List FileEntry) (rl : List Rs.Path) (cfg : Cfg)
    (M : Map DNode) (hok : EntryOK w p self cfg file) (hrl : RL w planned rl) (hwk : Walked planned file)
    (hM : ModelAt w M (compsOf file.relative_path)) :
    ∃ t rl', runM (plan_round (ext2 p) self file w.root pl none tasks rl) w = (.ok ((), tasks ++ [t], rl'), w) ∧
      absT self.symlink_mode w t = planEntry cfg M (absE w file) ∧ RL w (planned ++ [file]) rl' :=
  ⟨_, _, plan_round_run p self file w pl none tasks rl,
    roundOut_eq_planEntry w p self file cfg hok rl M (below_eq_hasLinkAbove w planned rl file hrl hwk) hM,
    RL_step w p self planned rl file false hrl hwk⟩

/-! ## item 4: the whole loop -/

/-- `for file in &source_files { … }` with the two threaded variables: the rounds in list order, each `?` ending the loop
    (the `for` itself is not translated: its body is; this fold is the trusted reading of Rust's `for` over a `Vec`) -/
def planLoop {W : Type} (ext : Ext W) (self : SyncEngine) (dest : Rs.Path) (pl : Rs.Opaque) (db : Option Rs.Opaque) :
    List FileEntry → List SyncTask → List Rs.Path → Rs.M W (List SyncTask × List Rs.Path)
  | [], ts, rl => pure (ts, rl)
  | f :: fs, ts, rl => do
    let r ← plan_round ext self f dest pl db ts rl
    planLoop ext self dest pl db fs r.2.1 r.2.2

/-- every entry of `rest` is reached in walk order after `pre` and the entries before it -/
def WalkOrder : List FileEntry → List FileEntry → Prop
  | _, [] => True
  | pre, f :: rest => Walked pre f ∧ WalkOrder (pre ++ [f]) rest

theorem planLoop_from (p : PlannerFx.StrategyPlanner) (self : SyncEngine) (w : PlanWorld) (pl : Rs.Opaque) (cfg : Cfg)
    (M : Map DNode) (rest : List FileEntry) :
    ∀ (pre : List FileEntry) (ts : List SyncTask) (rl : List Rs.Path),
      (∀ f ∈ rest, EntryOK w p self cfg f) → (∀ f ∈ rest, ModelAt w M (compsOf f.relative_path)) →
      WalkOrder pre rest → RL w pre rl →
      ∃ ts' rl', runM (planLoop (ext2 p) self w.root pl none rest ts rl) w = (.ok (ts ++ ts', rl'), w) ∧
        ts'.map (absT self.symlink_mode w) = (rest.map (absE w)).map (planEntry cfg M) ∧ RL w (pre ++ rest) rl' := by
  induction rest with
  | nil =>
    intro pre ts rl _ _ _ hrl
    exact ⟨[], rl, by simp [planLoop], rfl, by simpa using hrl⟩
  | cons f fs ih =>
    intro pre ts rl hok hM hwo hrl
    obtain ⟨hwk, hwo'⟩ := hwo
    obtain ⟨t, rl1, hrun, habs, hrl1⟩ := plan_round_eq_planEntry p self f w pl ts pre rl cfg M
      (hok f (by simp)) hrl hwk (hM f (by simp))
    obtain ⟨ts', rl', hrun', habs', hrl'⟩ := ih (pre ++ [f]) (ts ++ [t]) rl1
      (fun g hg => hok g (by simp [hg])) (fun g hg => hM g (by simp [hg])) hwo' hrl1
    refine ⟨t :: ts', rl', ?_, ?_, ?_⟩
    · simp only [planLoop, runM_bind, hrun, hrun']
      simp
    · simp [habs, habs']
    · simpa using hrl'

/-- **THE WHOLE PLANNING LOOP.**  Folding the translated round over a scan in walk order, from `tasks = []` and
    `replaced_links = []`, on the composed instance: never fails, changes nothing, and the tasks, abstracted, are
    exactly `scan.map (planEntry cfg M)` — the first part of `Engine.plan` (before the deletions) — in scan order, for
    the model's map `M` = the world's map with nothing listed below a link (`ModelAt`). -/
theorem plan_loop_eq_model (p : PlannerFx.StrategyPlanner) (self : SyncEngine) (w : PlanWorld) (pl : Rs.Opaque)
    (cfg : Cfg) (M : Map DNode) (files : List FileEntry) (hok : ∀ f ∈ files, EntryOK w p self cfg f)
    (hM : ∀ f ∈ files, ModelAt w M (compsOf f.relative_path)) (hwo : WalkOrder [] files) :
    ∃ ts rl, runM (planLoop (ext2 p) self w.root pl none files [] []) w = (.ok (ts, rl), w) ∧
      ts.map (absT self.symlink_mode w) = (files.map (absE w)).map (planEntry cfg M) ∧ RL w files rl := by
  obtain ⟨ts, rl, h1, h2, h3⟩ := planLoop_from p self w pl cfg M files [] [] [] hok hM hwo
    (by intro l; simp)
  exact ⟨ts, rl, by simpa using h1, h2, by simpa using h3⟩

/-! ### `WalkOrder` from the model's scan hypotheses -/

theorem walkOrder_of_index (rest : List FileEntry) :
    ∀ pre, (∀ i (h : i < rest.length), Walked (pre ++ rest.take i) rest[i]) → WalkOrder pre rest := by
  induction rest with
  | nil => intro _ _; trivial
  | cons f fs ih =>
    intro pre h
    have h0 : Walked (pre ++ (f :: fs).take 0) f := h 0 (by simp)
    refine ⟨by simpa using h0, ih (pre ++ [f]) ?_⟩
    intro i hi
    have := h (i + 1) (by simp; omega)
    simpa [List.append_assoc] using this

theorem absE_kind_dir (w : PlanWorld) (f : FileEntry) (h : (absE w f).kind = .dir) : f.is_dir = true := by
  unfold absE at h
  split at h
  · simp [absLinkEntry] at h
  · cases hd : f.is_dir
    · simp [absEntry, hd] at h
    · rfl

/-- the walk-order hypothesis follows from the MODEL's hypotheses on the abstracted scan: parents first, no path twice
    (`ParentsFirst`, `UniqueRels` of `Lemmas/EngineWF.lean`), and no entry for the root itself -/
theorem walkOrder_of_parentsFirst (w : PlanWorld) (files : List FileEntry)
    (hu : UniqueRels (files.map (absE w))) (hpf : ParentsFirst (files.map (absE w)))
    (hnr : ∀ f ∈ files, f.relative_path ≠ []) : WalkOrder [] files := by
  apply walkOrder_of_index
  intro i hi
  simp only [List.nil_append]
  refine ⟨?_, fun f hf => hnr f (List.mem_of_mem_take hf), ?_⟩
  · intro f hf e
    obtain ⟨j, hj, rfl⟩ := List.getElem_of_mem hf
    have hjlen : j < (files.take i).length := hj
    have hji : j < i := by simp at hjlen; omega
    rw [List.getElem_take] at e
    unfold UniqueRels at hu
    rw [List.pairwise_iff_getElem] at hu
    have := hu j i (by simp; omega) (by simpa using hi) hji
    simp only [List.getElem_map, absE_rel] at this
    exact this (by rw [e])
  · intro a ha
    have := hpf i (by simpa using hi) a (by simpa [absE_rel] using ha)
    obtain ⟨d, hd, hdr, hdk⟩ := this
    rw [← List.map_take] at hd
    obtain ⟨f, hf, rfl⟩ := List.mem_map.1 hd
    exact ⟨f, hf, by rw [← absE_rel w f]; exact hdr, absE_kind_dir w f hdk⟩

/-! ### the model's map: two instances of `ModelAt` -/

/-- ALWAYS: the world's map with everything below a symlink node removed (what a listing that does not resolve links
    shows) is a model map — whatever the world lists below links, i.e. whatever probes see THROUGH them -/
theorem modelAt_pruneLinks (w : PlanWorld) (k : Engine.Path) : ModelAt w (pruneLinks w.dst) k :=
  get?_pruneLinks w.dst k

/-- the hypothesis in the words of the task statement: when the world's map itself lists nothing strictly below a
    symlink node (`∀ link q, isPrefix link q → q ≠ link → w.dst.get? q = none`), it is its own model map -/
theorem modelAt_self (w : PlanWorld) (h : NothingBelowLinks w.dst) (k : Engine.Path) : ModelAt w w.dst k :=
  (get?_of_nothingBelow h k).symm

/-- the loop against the world's own map, under `NothingBelowLinks` -/
theorem plan_loop_eq_model_self (p : PlannerFx.StrategyPlanner) (self : SyncEngine) (w : PlanWorld) (pl : Rs.Opaque)
    (cfg : Cfg) (files : List FileEntry) (hok : ∀ f ∈ files, EntryOK w p self cfg f)
    (hnb : NothingBelowLinks w.dst) (hwo : WalkOrder [] files) :
    ∃ ts rl, runM (planLoop (ext2 p) self w.root pl none files [] []) w = (.ok (ts, rl), w) ∧
      ts.map (absT self.symlink_mode w) = (files.map (absE w)).map (planEntry cfg w.dst) ∧ RL w files rl :=
  plan_loop_eq_model p self w pl cfg w.dst files hok (fun f _ => modelAt_self w hnb _) hwo

/-- … and as the first part of `Engine.plan`: when the files handed to the loop are the filtered scan, the model's plan
    is the loop's tasks followed by the deletions (none without `--delete`) -/
theorem plan_loop_is_plan_prefix (p : PlannerFx.StrategyPlanner) (self : SyncEngine) (w : PlanWorld) (pl : Rs.Opaque)
    (cfg : Cfg) (M : Map DNode) (files : List FileEntry) (scan : List SEntry)
    (hfiles : files.map (absE w) = scanFilter cfg scan) (hok : ∀ f ∈ files, EntryOK w p self cfg f)
    (hM : ∀ f ∈ files, ModelAt w M (compsOf f.relative_path)) (hwo : WalkOrder [] files) :
    ∃ ts rl, runM (planLoop (ext2 p) self w.root pl none files [] []) w = (.ok (ts, rl), w) ∧
      plan cfg scan M = ts.map (absT self.symlink_mode w) ++
        (if cfg.delete then planDeletions (scanFilter cfg scan) scan M else []) := by
  obtain ⟨ts, rl, h1, h2, _⟩ := plan_loop_eq_model p self w pl cfg M files hok hM hwo
  refine ⟨ts, rl, h1, ?_⟩
  rw [h2, hfiles]
  unfold plan
  cases cfg.delete <;> simp

/-! ## item 1: the shape of a round for ANY instance -/

section anyInstance
variable {W : Type} (ext : Ext W) (self : SyncEngine) (file : FileEntry)

/-- the generated round IS `planner call → override 1 → override 2 → push` -/
theorem plan_round_is_structured (destination : Rs.Path) (planner : Rs.Opaque) (db : Option Rs.Opaque)
    (tasks : List SyncTask) (rl : List Rs.Path) :
    plan_round ext self file destination planner db tasks rl =
      roundSpec ext self file destination planner db tasks rl :=
  plan_round_eq_spec ext self file destination planner db tasks rl

/-- override 1 asks NOTHING unless the entry is not a directory, the task is Skip/Create and its source is not a link -/
theorem override1_silent (t : SyncTask) (h : probe1Asked file t = false) : override1 ext self file t = pure t := by
  unfold override1; rw [h]; rfl

/-- … and then asks `read_link(dest_path)` exactly once; `Ok(Some(_))` and `Err(_)` both force Update -/
theorem override1_asks (t : SyncTask) (h : probe1Asked file t = true) :
    override1 ext self file t = (do
      let r ← Rs.capture (ext.t_read_link self.transport t.dest_path)
      pure (if hit1 r then setAct t .Update else t)) := by
  unfold override1; rw [h]; rfl

/-- override 2 asks NOTHING below a replaced link: Create, unless nothing is transferred -/
theorem override2_below_silent (t : SyncTask) (rl : List Rs.Path) (h : belowReplaced rl t.dest_path = true) :
    override2 ext self file t rl = pure (if nothingToTransfer self t then t else setAct t .Create, rl) := by
  unfold override2; rw [h]; rfl

/-- override 2 asks NOTHING for a non-directory entry -/
theorem override2_nondir_silent (t : SyncTask) (rl : List Rs.Path) (h : belowReplaced rl t.dest_path = false)
    (hd : file.is_dir = false) : override2 ext self file t rl = pure (t, rl) := by
  unfold override2; rw [h, hd]; rfl

/-- override 2 asks `read_link(dest_path)` exactly once for a directory entry not below a replaced link; only
    `Ok(Some(_))` makes it a replaced link -/
theorem override2_dir_asks (t : SyncTask) (rl : List Rs.Path) (h : belowReplaced rl t.dest_path = false)
    (hd : file.is_dir = true) :
    override2 ext self file t rl = (do
      let r ← Rs.capture (ext.t_read_link self.transport t.dest_path)
      pure (if hit2 r then (setAct t .Update, rl ++ [t.dest_path]) else (t, rl))) := by
  unfold override2; rw [h, hd]; rfl

theorem runM_bind_ok_inv {α β : Type} {x : Rs.M W α} {k : α → Rs.M W β} {w w' : W} {b : β}
    (h : runM (x >>= k) w = (.ok b, w')) : ∃ a w1, runM x w = (.ok a, w1) ∧ runM (k a) w1 = (.ok b, w') := by
  rw [runM_bind] at h
  rcases hx : runM x w with ⟨_ | a, w1⟩ <;> rw [hx] at h
  · cases h
  · exact ⟨a, w1, rfl, h⟩

theorem override2_ok_shape {t : SyncTask} {rl : List Rs.Path} {w w' : W} {r : SyncTask × List Rs.Path}
    (h : runM (override2 ext self file t rl) w = (.ok r, w')) :
    r.1.dest_path = t.dest_path ∧ r.1.source = t.source ∧
      (r.2 = rl ∨ (file.is_dir = true ∧ r.2 = rl ++ [r.1.dest_path])) := by
  unfold override2 at h
  split at h
  · rw [runM_pure] at h
    cases h
    refine ⟨?_, ?_, Or.inl rfl⟩ <;> (simp only [setAct]; split <;> rfl)
  · split at h
    · rename_i hd
      obtain ⟨a, w1, _, h2⟩ := runM_bind_ok_inv h
      rw [runM_pure] at h2
      cases h2
      cases hit2 a
      · exact ⟨rfl, rfl, Or.inl rfl⟩
      · exact ⟨rfl, rfl, Or.inr ⟨hd, rfl⟩⟩
    · rw [runM_pure] at h
      cases h
      exact ⟨rfl, rfl, Or.inl rfl⟩

/-- **Exactly one task is appended; `replaced_links` grows by at most one path — the task's own — and only for a
    directory entry.**  For every instance and every successful run of the round. -/
theorem plan_round_ok_shape {destination : Rs.Path} {planner : Rs.Opaque} {db : Option Rs.Opaque}
    {tasks ts : List SyncTask} {rl rl' : List Rs.Path} {w w' : W} {u : Unit}
    (h : runM (plan_round ext self file destination planner db tasks rl) w = (.ok (u, ts, rl'), w')) :
    ∃ t, ts = tasks ++ [t] ∧ (rl' = rl ∨ (file.is_dir = true ∧ rl' = rl ++ [t.dest_path])) := by
  rw [plan_round_eq_spec] at h
  unfold roundSpec at h
  obtain ⟨t0, w1, _, h⟩ := runM_bind_ok_inv h
  obtain ⟨t1, w2, _, h⟩ := runM_bind_ok_inv h
  obtain ⟨r, w3, h2, h⟩ := runM_bind_ok_inv h
  rw [runM_pure] at h
  cases h
  exact ⟨r.1, rfl, (override2_ok_shape ext self file h2).2.2⟩

/-- (C10, fix 90eec9e) **an unanswered link probe forces the transfer**: for ANY instance, when override 1 asks and
    `read_link` answers `Err`, the task becomes Update (the entry cannot be trusted to be up to date) -/
theorem override1_probe_error_forces_update (t : SyncTask) (h : probe1Asked file t = true) {w w' : W} {e : Rs.Err}
    (herr : runM (ext.t_read_link self.transport t.dest_path) w = (.error e, w')) :
    runM (override1 ext self file t) w = (.ok (setAct t .Update), w') := by
  rw [override1_asks ext self file t h, runM_bind, runM_capture, herr]
  rfl

/-- for a DIRECTORY entry whose `read_link` probe fails, the planner's answer stands and nothing is recorded: override 1
    does not look at directories, override 2 accepts `Ok(Some(_))` only (ANY instance) -/
theorem dir_probe_error_keeps_plan (t : SyncTask) (rl : List Rs.Path) (hd : file.is_dir = true)
    (hnb : belowReplaced rl t.dest_path = false) {w w' : W} {e : Rs.Err}
    (herr : runM (ext.t_read_link self.transport t.dest_path) w = (.error e, w')) :
    runM (override1 ext self file t >>= fun t1 => override2 ext self file t1 rl) w = (.ok (t, rl), w') := by
  have h1 : probe1Asked file t = false := by simp [probe1Asked, hd]
  rw [override1_silent ext self file t h1, pure_bind, override2_dir_asks ext self file t rl hnb hd, runM_bind,
    runM_capture, herr]
  rfl

end anyInstance

/-! ## item 2: the composed instance, spelled out -/

/-- the planner operations of `ext2 p` ARE the generated functions of unit PlannerFx on its instance `extOf` -/
theorem ext2_is_generated (p : PlannerFx.StrategyPlanner) (self : SyncEngine) (file : FileEntry) (dest : Rs.Path)
    (pl t : Rs.Opaque) (db : Option Rs.Opaque) :
    (ext2 p).plan_file_async pl file dest t db = ofPTask <$> p.plan_file_async extOf (toPEntry file) dest t db ∧
    (ext2 p).plan_symlink self file dest pl db =
      ofPTask <$> PlannerFx.SyncEngine.plan_symlink extOf (toPEngine self) (toPEntry file) dest p db ∧
    (ext2 p).t_read_link = extOf.t_read_link := ⟨rfl, rfl, rfl⟩

/-! ## the handwritten `overrideDirOverLink` of `Props/GenPlannerFx` is the translated override 2 -/

/-- For a directory entry that is not below a replaced link, the TRANSLATED override 2, run on the composed instance,
    computes exactly the handwritten `GenPlannerFx.overrideDirOverLink` on the probe's answer — and pushes the path on
    `replaced_links` exactly when that function changes the action's cause (a link at the path). -/
theorem override2_eq_overrideDirOverLink (p : PlannerFx.StrategyPlanner) (self : SyncEngine) (file : FileEntry)
    (t : SyncTask) (rl : List Rs.Path) (w : PlanWorld) (hnb : belowReplaced rl t.dest_path = false) :
    runM (override2 (ext2 p) self file t rl) w =
      (.ok (setAct t (ofPAct (GenPlannerFx.overrideDirOverLink file.is_dir (w.linkAt t.dest_path) (toPAct t.action))),
            if file.is_dir && (w.linkAt t.dest_path).isSome then rl ++ [t.dest_path] else rl), w) := by
  rw [override2_run]
  unfold fix2 GenPlannerFx.overrideDirOverLink
  rw [hnb]
  cases file.is_dir <;> cases (w.linkAt t.dest_path).isSome <;> simp [setAct] <;> rfl

/-- DIRECTORY entries, any database handle: the round on the composed instance against the model's map -/
theorem roundOut_dir_eq_planEntry (w : PlanWorld) (p : PlannerFx.StrategyPlanner) (self : SyncEngine)
    (file : FileEntry) (hsl : file.is_symlink = false) (hfd : file.is_dir = true) (u : Bool) (cfg : Cfg)
    (rl : List Rs.Path) (M : Map DNode)
    (hcov : belowReplaced rl (Rs.join w.root file.relative_path) = hasLinkAbove w.dst (compsOf file.relative_path))
    (hM : ModelAt w M (compsOf file.relative_path)) :
    absT self.symlink_mode w (roundOut w p self file u rl).1 = planEntry cfg M (absE w file) := by
  unfold roundOut planned absE
  simp only [hsl, Bool.false_eq_true, if_false]
  rw [overrides_dir w self file hfd _ file rfl hsl rfl]
  unfold ModelAt at hM
  simp only [ofPTask, Option.map_some, setAct, absT_dir _ _ (toPEntry file) hfd hsl, hcov, planEntry, absEntry,
    toPEntry_is_dir, toPEntry_relative_path, hfd, if_true, hM, planAt, stat_join, PlanWorld.resolve]
  cases hla : hasLinkAbove w.dst (compsOf file.relative_path)
  · cases hg : w.dst.get? (compsOf file.relative_path) with
    | none => simp [isLinkNode, ofPAct, toPAct, absAct]
    | some n => cases n <;> simp [isLinkNode, ofPAct, toPAct, absAct]
  · simp [toPAct, absAct]

/-- **`GenPlannerFx.plan_file_async_dir_override_eq_model` as a corollary, with the override TRANSLATED.**  A directory
    entry, every destination node at its path (no `NotLinkAt`), every database handle, nothing replaced yet: the task
    appended by the generated round is the model's `planEntry` against the world's own map; `replaced_links` becomes
    `[dest_path]` exactly over a symlink node. -/
theorem plan_round_dir_eq_model (p : PlannerFx.StrategyPlanner) (self : SyncEngine) (file : FileEntry)
    (hsl : file.is_symlink = false) (hfd : file.is_dir = true) (w : PlanWorld) (pl : Rs.Opaque)
    (db : Option Rs.Opaque) (tasks : List SyncTask) (cfg : Cfg)
    (htop : hasLinkAbove w.dst (compsOf file.relative_path) = false) :
    ∃ t rl', runM (plan_round (ext2 p) self file w.root pl db tasks []) w = (.ok ((), tasks ++ [t], rl'), w) ∧
      absT self.symlink_mode w t = planEntry cfg w.dst (absE w file) ∧
      rl' = if isLinkNode (w.dst.get? (compsOf file.relative_path)) then [Rs.join w.root file.relative_path] else [] := by
  refine ⟨_, _, plan_round_run p self file w pl db tasks [], ?_, ?_⟩
  · exact roundOut_dir_eq_planEntry w p self file hsl hfd _ cfg [] w.dst (by rw [htop]; rfl)
      (by unfold ModelAt; rw [htop]; rfl)
  · rw [roundOut_links]
    simp [belowReplaced, hfd]

/-! ## item 5: corollaries for the properties -/

theorem roundOut_dest (w : PlanWorld) (p : PlannerFx.StrategyPlanner) (self : SyncEngine) (file : FileEntry)
    (u : Bool) (rl : List Rs.Path) :
    (roundOut w p self file u rl).1.dest_path = Rs.join w.root file.relative_path := by
  unfold roundOut fix2
  have hd : (fix1 w file (ofPTask (planned w p self file u))).dest_path = Rs.join w.root file.relative_path := by
    rw [fix1_dest]; exact planned_dest w p self file u
  split
  · split <;> simp [setAct, hd]
  · split <;> simp [setAct, hd]

/-- **(C02) Below a replaced link nothing is decided by probing through the link.**  Every planner value, engine view,
    entry of every kind, database handle, world — no hypothesis on what the probes answered: if the entry's path lies
    below (component-wise) a path of `replaced_links`, the appended task is a Create, or the Skip of a symlink entry for
    which nothing is transferred (mode not Preserve) — never an Update, never a Skip that came from a comparison — and
    `replaced_links` is unchanged. -/
theorem replaced_link_children_are_creates (p : PlannerFx.StrategyPlanner) (self : SyncEngine) (file : FileEntry)
    (w : PlanWorld) (pl : Rs.Opaque) (db : Option Rs.Opaque) (tasks : List SyncTask) (rl : List Rs.Path)
    (lrel : Rs.Path) (hl : Rs.join w.root lrel ∈ rl) (hne : lrel ≠ [])
    (hbelow : isPrefix (compsOf lrel) (compsOf file.relative_path) = true) :
    ∃ t, runM (plan_round (ext2 p) self file w.root pl db tasks rl) w = (.ok ((), tasks ++ [t], rl), w) ∧
      (t.action = .Create ∨
        (t.action = .Skip ∧ self.symlink_mode ≠ .Preserve ∧ ∃ f, t.source = some f ∧ f.is_symlink = true)) := by
  have hb : belowReplaced rl (Rs.join w.root file.relative_path) = true := by
    unfold belowReplaced
    exact List.any_eq_true.2 ⟨_, hl, by rw [path_starts_with_join _ _ _ hne]; exact hbelow⟩
  have hlinks : (roundOut w p self file db.isSome rl).2 = rl := by rw [roundOut_links, hb]; rfl
  refine ⟨(roundOut w p self file db.isSome rl).1, ?_, ?_⟩
  · have := plan_round_run p self file w pl db tasks rl
    rw [hlinks] at this; exact this
  · unfold roundOut fix2
    rw [fix1_dest, ofPTask_dest, planned_dest, hb]
    simp only [if_true]
    cases hntt : nothingToTransfer self (fix1 w file (ofPTask (planned w p self file db.isSome)))
    · left; rfl
    · right
      simp only [if_true]
      unfold nothingToTransfer at hntt
      simp only [Bool.and_eq_true] at hntt
      obtain ⟨⟨h1, h2⟩, h3⟩ := hntt
      refine ⟨?_, ?_, ?_⟩
      · revert h1; unfold isSkip; split <;> simp_all
      · intro e; rw [e] at h2; simp at h2
      · revert h3; unfold Rs.is_some_and; split
        · rename_i v hv; intro h; exact ⟨v, hv, h⟩
        · intro h; cases h

/-- **(C17/C02) A regular-file entry over a destination symlink is never planned Skip.**  Every planner value
    (comparison mode, `--checksum` or not), database handle, `replaced_links`, whatever the link resolves to: the
    appended task is Update (or Create below a replaced link) — the comparison THROUGH the link never decides. -/
theorem symlink_dest_never_skip_for_file (p : PlannerFx.StrategyPlanner) (self : SyncEngine) (file : FileEntry)
    (hsl : file.is_symlink = false) (hfd : file.is_dir = false) (w : PlanWorld) (pl : Rs.Opaque)
    (db : Option Rs.Opaque) (tasks : List SyncTask) (rl : List Rs.Path) (text : String)
    (hlink : w.dst.get? (compsOf file.relative_path) = some (.symlink text)) :
    ∃ t, runM (plan_round (ext2 p) self file w.root pl db tasks rl) w = (.ok ((), tasks ++ [t], rl), w) ∧
      t.action ≠ .Skip ∧
      (belowReplaced rl (Rs.join w.root file.relative_path) = false → t.action = .Update) ∧
      (belowReplaced rl (Rs.join w.root file.relative_path) = true → t.action = .Create) := by
  have hlinks : (roundOut w p self file db.isSome rl).2 = rl := by rw [roundOut_links, hfd]; simp
  have hact : (roundOut w p self file db.isSome rl).1.action =
      if belowReplaced rl (Rs.join w.root file.relative_path) then .Create else .Update := by
    unfold roundOut planned
    simp only [hsl, Bool.false_eq_true, if_false]
    rw [overrides_file w self file hfd _ file rfl hsl rfl]
    simp only [setAct, ofPTask, hlink, isLinkNode, Bool.and_true]
    cases belowReplaced rl (Rs.join w.root file.relative_path)
    · simp only [Bool.false_eq_true, if_false]
      rcases planAt_file_act w p (toPEntry file) db.isSome with h | h | h <;> rw [h] <;> rfl
    · rfl
  refine ⟨(roundOut w p self file db.isSome rl).1, ?_, ?_, ?_, ?_⟩
  · have := plan_round_run p self file w pl db tasks rl
    rw [hlinks] at this; exact this
  · rw [hact]; split <;> simp
  · intro h; rw [hact, h]; rfl
  · intro h; rw [hact, h]; rfl

theorem absT_act (mode : SymlinkMode) (w : PlanWorld) (t : SyncTask) : (absT mode w t).act = absAct (toPAct t.action) := rfl

/-- **(C03) A second run plans Skip.**  If the model's destination node at the entry's path is what a completed first
    run leaves for that entry (`EntryPost` of `Lemmas/EnginePost.lean`: the directory; the file with the source's
    content, size and mtime; the preserved link with the source's text; …), then — in every comparison mode but
    `--ignore-times` — the translated round plans Skip.  Through item 3 and the model's fixed-point lemma
    `planEntry_skip_of_entryPost`. -/
theorem second_run_skips (p : PlannerFx.StrategyPlanner) (self : SyncEngine) (file : FileEntry) (w : PlanWorld)
    (pl : Rs.Opaque) (tasks : List SyncTask) (planned : List FileEntry) (rl : List Rs.Path) (cfg : Cfg)
    (M : Map DNode) (hok : EntryOK w p self cfg file) (hrl : RL w planned rl) (hwk : Walked planned file)
    (hM : ModelAt w M (compsOf file.relative_path)) (hcmp : cfg.compare ≠ .ignoreTimes)
    (scan : List SEntry) (dst0 : Map DNode)
    (hpost : EntryPost cfg scan dst0 (absE w file) (M.get? (absE w file).rel)) :
    ∃ t rl', runM (plan_round (ext2 p) self file w.root pl none tasks rl) w = (.ok ((), tasks ++ [t], rl'), w) ∧
      t.action = .Skip := by
  obtain ⟨t, rl', hrun, habs, _⟩ := plan_round_eq_planEntry p self file w pl tasks planned rl cfg M hok hrl hwk hM
  refine ⟨t, rl', hrun, ?_⟩
  have hskip := planEntry_skip_of_entryPost hcmp (fun _ => by rw [absE_rel]; exact compsOf_ne_nil _) hpost
  rw [← habs, absT_act] at hskip
  cases hta : t.action <;> rw [hta] at hskip <;> simp [toPAct, absAct] at hskip

/-! ## the hypotheses are satisfiable; the translated loop RUN on a concrete world -/

/-- destination `d`: an up-to-date file `a`; a symlink `lk` that an earlier run placed (the source entry was a link to a
    directory then) — the world ALSO lists `lk/x`: what probes see THROUGH the link (the link's target holds a file `x`
    that compares equal to the source's `lk/x`); a symlink `l2` where the source has a regular file -/
def exW : PlanWorld where
  root := "d".toList
  dst := [(["a"], .file ⟨7, 3, 5000000000, [], 1⟩), (["lk"], .symlink "/elsewhere"),
          (["lk", "x"], .file ⟨9, 1, 1000000000, [], 2⟩), (["l2"], .symlink "a")]
  through := fun k => if k = ["lk"] then .dir else if k = ["l2"] then .file ⟨7, 3, 5000000000, [], 1⟩ else .dangling
  dirInfo := fun _ => (4096, 0)
  outside := fun p => if p = "s/a".toList then .file ⟨7, 3, 5000000000, [], 10⟩
                      else if p = "s/lk/x".toList then .file ⟨9, 1, 1000000000, [], 11⟩
                      else if p = "s/l2".toList then .file ⟨7, 3, 5000000000, [], 12⟩ else .dangling
  srcRoot := "s".toList
  db := []

def exFile (rel : String) (size mtime : Nat) (dir : Bool) : FileEntry := ofPEntry (GenPlannerFx.exEntry rel size mtime dir)
def exLinkEntry (rel text : String) : FileEntry :=
  { exFile rel 1 9 false with is_symlink := true, symlink_target := some text.toList }

/-- the source now has a real directory `lk` with a file `x` and a link `s` in it, the file `a`, a regular file `l2` -/
def exFiles : List FileEntry :=
  [exFile "lk" 0 0 true, exFile "lk/x" 1 1000000000 false, exLinkEntry "lk/s" "x", exFile "a" 3 5000000000 false,
   exFile "l2" 3 5000000000 false]

def exEngine (m : SymlinkMode) : SyncEngine := ⟨m, ⟨⟩⟩
def exCfg (l : LinkMode) : Cfg := ⟨false, false, false, false, false, 0, l, .default, none, none, 0, false⟩

example (f : FileEntry) (hf : f ∈ exFiles) :
    EntryOK exW (GenPlannerFx.exPlanner false) (exEngine .Skip) (exCfg .skip) f := by
  refine ⟨rfl, rfl, ⟨rfl, rfl⟩, ?_, ?_, ?_⟩
  · intro h
    simp only [exFiles, List.mem_cons, List.not_mem_nil, or_false] at hf
    rcases hf with rfl | rfl | rfl | rfl | rfl <;> first | rfl | cases h
  · intro _ h; cases h
  · intro h; cases h
example : EntryOK exW (GenPlannerFx.exPlanner true) (exEngine .Preserve) ⟨false, false, false, false, false, 0, .preserve,
    .checksum, none, none, 0, false⟩ (exLinkEntry "lk/s" "x") :=
  ⟨rfl, rfl, ⟨rfl, rfl⟩, fun _ => rfl, fun _ _ => ⟨_, rfl⟩, fun _ h => (by cases h)⟩
example : EntryOK exW (GenPlannerFx.exPlanner true) (exEngine .Follow) ⟨false, false, false, false, false, 0, .follow,
    .checksum, none, none, 0, false⟩ (exFile "a" 3 5000000000 false) :=
  ⟨rfl, rfl, ⟨rfl, rfl⟩, fun h => (by cases h), fun h => (by cases h),
    fun _ _ _ => ⟨⟨7, 3, 5000000000, [], 10⟩, by decide⟩⟩

example : RL exW [] [] := by intro l; simp
example : Walked [] (exFile "lk" 0 0 true) :=
  ⟨by simp, by simp, by intro a ha; have : compsOf (exFile "lk" 0 0 true).relative_path = ["lk"] := by decide
                        rw [this] at ha; simp [ancestors] at ha⟩
theorem exFiles_walkOrder : WalkOrder [] exFiles := by
  apply walkOrder_of_parentsFirst exW
  · decide
  · decide
  · intro f hf
    simp only [exFiles, List.mem_cons, List.not_mem_nil, or_false] at hf
    rcases hf with rfl | rfl | rfl | rfl | rfl <;> decide

/-- the world lists something below a link (what is seen through it): it is NOT its own model map … -/
example : ¬ NothingBelowLinks exW.dst := by
  intro h
  have := h ["lk"] ["lk", "x"] "/elsewhere" (by decide) (by decide) (by decide) (by decide)
  revert this; decide
/-- … a world without such entries is -/
example : NothingBelowLinks GenPlannerFx.exWorld.dst := by
  intro link q s hl h0 hp hne
  have hlink : link = ["l"] := by
    simp only [GenPlannerFx.exWorld, Map.get?] at hl
    split at hl
    · cases hl
    · split at hl
      · cases hl
      · split at hl
        · cases hl
        · split at hl
          · rename_i h; exact h.symm
          · cases hl
  subst hlink
  simp only [GenPlannerFx.exWorld, Map.get?]
  have hq : ∀ k : Engine.Path, isPrefix ["l"] k = true → k ≠ ["l"] → k ≠ ["a"] ∧ k ≠ ["sub"] ∧ k ≠ ["sub", "b"] := by
    intro k hk hne
    refine ⟨?_, ?_, ?_⟩ <;> (intro e; subst e; revert hk; decide)
  obtain ⟨h1, h2, h3⟩ := hq q hp hne
  simp [Ne.symm h1, Ne.symm h2, Ne.symm h3, Ne.symm hne]

/-- THE TRANSLATED LOOP, RUN (kernel evaluation of both generated units): the link `lk` is replaced (Update) and
    recorded; `lk/x` is a Create although the probes, THROUGH the link, saw an identical file; the skip-mode link
    `lk/s` stays a Skip (nothing to transfer); `a` is up to date; the regular file `l2` over a link whose target
    compares equal is an Update. -/
theorem exLoop_run :
    (runM (planLoop (ext2 (GenPlannerFx.exPlanner false)) (exEngine .Skip) "d".toList ⟨⟩ none exFiles [] []) exW).1.toOption.map
        (fun r => (r.1.map (·.action), r.2)) =
      some ([.Update, .Create, .Skip, .Skip, .Update], ["d/lk".toList]) := by decide

/-- without override 2 the same entry, planned with nothing recorded in `replaced_links`, is decided THROUGH the link -/
example : (runM (plan_round (ext2 (GenPlannerFx.exPlanner false)) (exEngine .Skip) (exFile "lk/x" 1 1000000000 false)
      "d".toList ⟨⟩ none [] []) exW).1.toOption.map (fun r => r.2.1.map (·.action)) = some [.Skip] := by decide
example : (runM (plan_round (ext2 (GenPlannerFx.exPlanner false)) (exEngine .Skip) (exFile "lk/x" 1 1000000000 false)
      "d".toList ⟨⟩ none [] ["d/lk".toList]) exW).1.toOption.map (fun r => r.2.1.map (·.action)) = some [.Create] := by
  decide

/-- … and the model, against the pruned map, says exactly that -/
example : (exFiles.map (absE exW)).map (fun e => (planEntry (exCfg .skip) (pruneLinks exW.dst) e).act) =
    [.update, .create, .skip, .skip, .update] := by decide

/-- `Rs.path_starts_with` against `std::path::Path::starts_with` on sample texts: component-wise (`a/bc` does not start
    with `a/b`), reflexive, the empty path is a prefix of everything (as in std); NOT faithful for the root `/` as the
    second argument (std: `"/a".starts_with("/")` is true) and for texts std normalises (`a/./b`, `a//b`, `a/b/`) -/
example : Rs.path_starts_with "d/lk/x".toList "d/lk".toList = true := by decide
example : Rs.path_starts_with "d/lkx".toList "d/lk".toList = false := by decide
example : Rs.path_starts_with "d/lk".toList "d/lk".toList = true := by decide
example : Rs.path_starts_with "d/lk".toList [] = true := by decide
theorem path_starts_with_root_differs : Rs.path_starts_with "/a".toList "/".toList = false := by decide
theorem path_starts_with_trailing_differs : Rs.path_starts_with "d/lk/x".toList "d/lk/".toList = false := by decide

end SyModel.Props.GenEnginePlan
