/-
  C01 — One-way sync makes every selected file byte-identical to its source (engine level).
  Property theorems only.  The byte-level transfer paths are proved separately; here file content
  is an opaque id and the statement is about the whole run `runF` (scan → filter → plan → guard →
  execute), for every configuration, fault plan, scan and prior destination.

  Hypotheses and what they exclude (definitions and examples in `Lemmas/EngineWF.lean`):
  * `UniqueRels scan` — the scanner never reports a relative path twice.
  * only with `--delete`: `ParentClosed scan` (a scan lists the directories above every entry) and
    `dst.get? [] = none` (the destination listing does not contain the root itself).  Without
    them a stale destination directory above a freshly written file would be planned for
    deletion and take the file with it.
  * only with `--hard-links`: `InoConsistent scan` (names of one inode carry the same data).
  Type conflicts need no hypothesis: a destination directory where the source has a file or
  link, a non-directory above a selected entry, or a non-directory where the source has a
  directory (`C01_dir_over_nondir_fails`, planned as a creation since fix 481828a) make the task
  fail, which `exit = 0` excludes.  A destination SYMLINK where the source has a directory is
  neither: since fix 862af11 it is replaced by a directory (planned as an update that runs before
  everything below it), so `C01` covers that configuration with a real conclusion
  (`C02.dir_over_own_link_replaced`).
-/
import SyModel.Lemmas.EnginePost
namespace SyModel.Props.C01
open SyModel SyModel.Engine

/-- the destination node carries the source's data (xattrs only with `-X`) -/
def Carries (cfg : Cfg) (d m : FileMeta) : Prop :=
  d.content = m.content ∧ d.size = m.size ∧ d.mtime = m.mtime ∧
    d.xattrs = (if cfg.xattrs then m.xattrs else [])

/-- **The active comparison rule.**  A regular file is *skipped* exactly when the destination has
    a regular file there and: default — same size and mtimes less than 2 s apart (whole-second
    truncation, tolerance 1); `--checksum` — same content; `--size-only` — same size;
    `--ignore-times` — never. -/
theorem compare_rule_spec (cfg : Cfg) (m : FileMeta) (o : Option DNode) :
    planFileAct cfg m o = .skip ↔
      ∃ d, o = some (.file d) ∧
        match cfg.compare with
        | .default => m.size = d.size ∧ absDiff m.mtime d.mtime < 2000000000
        | .checksum => m.content = d.content
        | .sizeOnly => m.size = d.size
        | .ignoreTimes => False := by
  rw [planFileAct_skip_iff]
  constructor <;> rintro ⟨d, hd, h⟩ <;> refine ⟨d, hd, ?_⟩ <;> revert h <;> unfold UpToDate <;>
    cases cfg.compare <;> simp only [mtime_window] <;> exact id

/-- **C01.**  If a (non-dry) run exits 0 then every selected entry is present with the right kind,
    and every file that was absent or differed under the comparison rule carries the source's
    content, size and mtime — whatever the destination contained before, under every fault plan. -/
theorem C01 (cfg : Cfg) (hnd : cfg.dryRun = false) (flt : Faults) (scan : List SEntry) (dst : Map DNode)
    (n : Nat) (hu : UniqueRels scan)
    (hdel : cfg.delete = true → ParentClosed scan ∧ dst.get? [] = none)
    (hino : cfg.hardlinks = true → InoConsistent scan)
    (hok : (runF cfg flt scan dst n).exit = 0) :
    ∀ e ∈ scanFilter cfg scan,
      -- a selected directory is a directory, whatever the destination contained before
      (e.kind = .dir → e.rel ≠ [] → (runF cfg flt scan dst n).dst.get? e.rel = some .dir) ∧
      -- a selected regular file is a regular file; transferred ones carry the source's data
      (∀ m k, e.kind = .file m k → ∃ d, (runF cfg flt scan dst n).dst.get? e.rel = some (.file d) ∧
        (planFileAct cfg m (dst.get? e.rel) ≠ .skip → Carries cfg d m)) ∧
      -- preserve: that symlink, with the source's text
      (∀ text tgt, e.kind = .symlink text tgt → cfg.links = .preserve →
        (runF cfg flt scan dst n).dst.get? e.rel = some (.symlink text)) ∧
      -- follow, file target: a regular file with the target's data
      (∀ text m, e.kind = .symlink text (.file m) → cfg.links = .follow →
        ∃ d, (runF cfg flt scan dst n).dst.get? e.rel = some (.file d) ∧
          (planFileAct cfg m (dst.get? e.rel) ≠ .skip → Carries cfg d m)) ∧
      -- skip mode, or follow with a directory/dangling target: nothing is done at that path
      (∀ text tgt, e.kind = .symlink text tgt →
        (cfg.links = .skip ∨ (cfg.links = .follow ∧ ∀ m, tgt ≠ .file m)) → ParentClosed scan →
        (runF cfg flt scan dst n).dst.get? e.rel = dst.get? e.rel) := by
  intro e he
  have hr := runF_exit_zero hok
  rw [(runF_of_not_refused hr.1).1]
  have ep := run_entry_post hnd flt scan dst n hu hdel hino (taskOk_of_exit_zero hok (planEntry_mem_plan he))
  refine ⟨ep.dir, fun m k hk => ?_, ep.link_preserve, fun text m hk hl => ?_,
    fun text tgt hk hl hc => ?_⟩
  · obtain ⟨d, h1, _, h3, _⟩ := ep.file m k hk
    exact ⟨d, h1, h3⟩
  · obtain ⟨d, h1, _, h3, _⟩ := ep.link_follow text m hk hl
    exact ⟨d, h1, h3⟩
  · have hkd : e.kind ≠ .dir := by rw [hk]; simp
    rcases hl with hl | ⟨hl, hnf⟩
    · exact (ep.link_skip text tgt hk hl).eq hu hc (mem_of_mem_scanFilter he) hkd
    · exact (ep.link_follow_other text tgt hk hl hnf).eq hu hc (mem_of_mem_scanFilter he) hkd

/-- A file that the comparison rule skips is left exactly as it was. -/
theorem C01_skipped_untouched (cfg : Cfg) (hnd : cfg.dryRun = false) (flt : Faults) (scan : List SEntry)
    (dst : Map DNode) (n : Nat) (hu : UniqueRels scan)
    (hdel : cfg.delete = true → ParentClosed scan ∧ dst.get? [] = none)
    (hino : cfg.hardlinks = true → InoConsistent scan)
    (hok : (runF cfg flt scan dst n).exit = 0) (e : SEntry) (he : e ∈ scanFilter cfg scan)
    (m : FileMeta) (k : Nat) (hk : e.kind = .file m k) (hs : planFileAct cfg m (dst.get? e.rel) = .skip) :
    (runF cfg flt scan dst n).dst.get? e.rel = dst.get? e.rel := by
  have hr := runF_exit_zero hok
  rw [(runF_of_not_refused hr.1).1]
  have ep := run_entry_post hnd flt scan dst n hu hdel hino (taskOk_of_exit_zero hok (planEntry_mem_plan he))
  obtain ⟨d, _, h2, _⟩ := ep.file m k hk
  exact h2 hs

/-- **`-H`: transferred names of one source inode are names of one destination node.**  With
    `--hard-links`, after a run that exits 0, any two selected regular files with link count > 1
    and the same source inode that were both transferred (created *or updated*: since a68466f an
    update of a later group member re-links it to the first member's destination) hold the very
    same node — same data (which `C01` shows to be the source's) and same inode. -/
theorem C01_hardlink_members_share_node (cfg : Cfg) (hnd : cfg.dryRun = false) (hhl : cfg.hardlinks = true)
    (flt : Faults) (scan : List SEntry) (dst : Map DNode) (n : Nat) (hu : UniqueRels scan)
    (hdel : cfg.delete = true → ParentClosed scan ∧ dst.get? [] = none)
    (hok : (runF cfg flt scan dst n).exit = 0)
    (e e' : SEntry) (he : e ∈ scanFilter cfg scan) (he' : e' ∈ scanFilter cfg scan)
    (m m' : FileMeta) (k k' : Nat) (hk : e.kind = .file m k) (hk' : e'.kind = .file m' k')
    (h1 : 1 < k) (h1' : 1 < k') (hi : m.ino = m'.ino)
    (hs : planFileAct cfg m (dst.get? e.rel) ≠ .skip) (hs' : planFileAct cfg m' (dst.get? e'.rel) ≠ .skip) :
    (runF cfg flt scan dst n).dst.get? e.rel = (runF cfg flt scan dst n).dst.get? e'.rel := by
  rw [(runF_of_not_refused (runF_exit_zero hok).1).1]
  exact run_share hnd flt scan dst n hu hdel hhl hk hk' h1 h1' hi hs hs'
    (taskOk_of_exit_zero hok (planEntry_mem_plan he)) (taskOk_of_exit_zero hok (planEntry_mem_plan he'))

/-- An existing destination directory at the path of a selected directory is kept (planned as
    `skip`); a destination symlink there is replaced by a directory (planned as `update`, fix 862af11);
    nothing else can be there after a run that exits 0. -/
theorem C01_existing_dir_node_kept (cfg : Cfg) (hnd : cfg.dryRun = false) (flt : Faults) (scan : List SEntry)
    (dst : Map DNode) (n : Nat) (hu : UniqueRels scan)
    (hdel : cfg.delete = true → ParentClosed scan ∧ dst.get? [] = none)
    (hino : cfg.hardlinks = true → InoConsistent scan)
    (hok : (runF cfg flt scan dst n).exit = 0) (e : SEntry) (he : e ∈ scanFilter cfg scan)
    (hk : e.kind = .dir) (hne : e.rel ≠ []) (hp : dst.get? e.rel ≠ none) :
    (dst.get? e.rel = some .dir ∧ (runF cfg flt scan dst n).dst.get? e.rel = dst.get? e.rel) ∨
    ((∃ s, dst.get? e.rel = some (.symlink s)) ∧ (runF cfg flt scan dst n).dst.get? e.rel = some .dir) := by
  have ep := entryPost_of_exit_zero hnd flt scan dst n hu hdel hino he hok
  rcases ep.dir_pre hk hne with h | h | h
  · exact absurd h hp
  · exact Or.inl ⟨h, by rw [ep.dir hk hne, h]⟩
  · exact Or.inr ⟨h, ep.dir hk hne⟩

/-- **A regular file where the source has a directory makes the run fail** (it is planned as a
    creation, `create_dir_all` hits the existing entry): the exit status is non-zero and, unless
    the run was refused by the deletion guard, the failed creation is in the error list — under
    every fault plan.  (Before fix 481828a this was planned as `skip` and silently left alone.  A
    destination SYMLINK there is no longer a failure: since fix 862af11 it is replaced by a directory,
    `C01_existing_dir_node_kept`, `C02.dir_over_own_link_replaced` — hence the hypothesis `hvl`.) -/
theorem C01_dir_over_nondir_fails (cfg : Cfg) (hnd : cfg.dryRun = false) (flt : Faults) (scan : List SEntry)
    (dst : Map DNode) (n : Nat) (hu : UniqueRels scan)
    (hdel : cfg.delete = true → ParentClosed scan ∧ dst.get? [] = none)
    (hino : cfg.hardlinks = true → InoConsistent scan)
    (e : SEntry) (he : e ∈ scanFilter cfg scan) (hk : e.kind = .dir) (hne : e.rel ≠ [])
    (v : DNode) (hv : dst.get? e.rel = some v) (hvd : v ≠ .dir) (hvl : ∀ s, v ≠ .symlink s) :
    (runF cfg flt scan dst n).exit ≠ 0 ∧
    ((runF cfg flt scan dst n).refused = false → (Act.create, e.rel) ∈ (runF cfg flt scan dst n).errors) := by
  have hnd' : dst.get? e.rel ≠ some .dir := by rw [hv]; simpa using hvd
  have hpe : planEntry cfg dst e = ⟨.create, e.rel, .dir⟩ := by
    unfold planEntry; simp only [hk, hv]
    cases v with
    | dir => exact absurd rfl hvd
    | symlink s => exact absurd rfl (hvl s)
    | file m => rfl
  have notOk : ¬ TaskOk cfg flt (plan cfg scan dst) (initExec dst n) (planEntry cfg dst e) := by
    intro hok
    have ep := run_entry_post hnd flt scan dst n hu hdel hino hok
    rcases ep.dir_pre hk hne with h | h | ⟨s, h⟩
    · rw [hv] at h; cases h
    · exact hnd' h
    · rw [hv] at h; simp only [Option.some.injEq] at h; exact hvl s h
  refine ⟨fun h0 => notOk (taskOk_of_exit_zero h0 (planEntry_mem_plan he)), fun hr => ?_⟩
  obtain ⟨_, h2, h3, _⟩ := runF_of_not_refused hr
  have hacc := task_accounted (cfg := cfg) (flt := flt) (plan cfg scan dst) (initExec dst n)
    (planEntry_mem_plan (dst := dst) he)
  rw [hpe] at hacc
  rcases hacc with h | h
  · exfalso
    apply notOk
    have hev : ((planEntry cfg dst e).act, e.rel) ∈ (runF cfg flt scan dst n).events := by
      rw [hpe, h2, List.mem_reverse]; exact h
    exact (completed_of_event hu he hev).2
  · rw [h3, List.mem_reverse]; exact h

/-! ### the former counterexample, now an error -/

def cxCfg : Cfg where
  delete := false
  force := false
  dryRun := false
  xattrs := false
  hardlinks := false
  threshold := 50
  links := .preserve
  compare := .default
  minSize := none
  maxSize := none
  maxErrors := 100
  tie := false

/-- the witness of the former `C01_counterexample_dir_over_nondir` (source directory `d`, destination
    regular file `d`): the run now fails with the creation of `d` in its error list -/
example :
    (run cxCfg [⟨["d"], .dir, 4096, false⟩] [(["d"], .file (exMeta 1 2 3 4))] 10).exit ≠ 0 ∧
    (Act.create, ["d"]) ∈ (run cxCfg [⟨["d"], .dir, 4096, false⟩] [(["d"], .file (exMeta 1 2 3 4))] 10).errors := by
  have h := C01_dir_over_nondir_fails cxCfg rfl noFaults [⟨["d"], .dir, 4096, false⟩]
    [(["d"], .file (exMeta 1 2 3 4))] 10 (by decide) (fun h => by cases h) (fun h => by cases h)
    ⟨["d"], .dir, 4096, false⟩ (by decide) rfl (by decide) (.file (exMeta 1 2 3 4)) (by decide) (by decide)
    (fun s => by simp)
  exact ⟨h.1, h.2 (by decide)⟩

/-- the destination is left as it was (the failed task changes nothing) -/
example : (run cxCfg [⟨["d"], .dir, 4096, false⟩] [(["d"], .file (exMeta 1 2 3 4))] 10).dst
    = [(["d"], .file (exMeta 1 2 3 4))] := by decide

/-! ### non-vacuity -/

def exCfg : Cfg where
  delete := true
  force := true
  dryRun := false
  xattrs := true
  hardlinks := true
  threshold := 50
  links := .preserve
  compare := .default
  minSize := none
  maxSize := none
  maxErrors := 100
  tie := false

/-- all hypotheses of `C01` hold on the example tree (stale file `d/f`, extras `x/`, `x/y`, a hard
    link pair, a preserved symlink, an excluded file) and its conclusion is used: the stale `d/f`
    carries the source's data afterwards -/
example : ∃ d, (run exCfg exScan exDst 1000).dst.get? ["d", "f"] = some (.file d) ∧
    Carries exCfg d (exMeta 1 10 5000000000 3) := by
  have h := C01 exCfg rfl noFaults exScan exDst 1000 (by decide) (fun _ => ⟨by decide, by decide⟩)
    (fun _ => exScan_inoConsistent) (by decide)
    ⟨["d", "f"], .file (exMeta 1 10 5000000000 3) 1, 10, false⟩ (by decide)
  obtain ⟨d, h1, h2⟩ := h.2.1 _ _ rfl
  exact ⟨d, h1, h2 (by decide)⟩

/-- the second name of the hard-linked inode carries the data too -/
example : ∃ d, (run exCfg exScan exDst 1000).dst.get? ["d", "h"] = some (.file d) ∧
    Carries exCfg d (exMeta 2 20 7000000000 7) := by
  have h := C01 exCfg rfl noFaults exScan exDst 1000 (by decide) (fun _ => ⟨by decide, by decide⟩)
    (fun _ => exScan_inoConsistent) (by decide)
    ⟨["d", "h"], .file (exMeta 2 20 7000000000 7) 2, 20, false⟩ (by decide)
  obtain ⟨d, h1, h2⟩ := h.2.1 _ _ rfl
  exact ⟨d, h1, h2 (by decide)⟩

example : (run exCfg exScan exDst 1000).dst.get? ["l"] = some (.symlink "d/f") :=
  (C01 exCfg rfl noFaults exScan exDst 1000 (by decide) (fun _ => ⟨by decide, by decide⟩)
    (fun _ => exScan_inoConsistent) (by decide)
    ⟨["l"], .symlink "d/f" (.file (exMeta 1 10 5000000000 3)), 3, false⟩ (by decide)).2.2.1 _ _ rfl rfl

/-- `-H` *update*: both names of inode 7 already exist in the destination as two unrelated stale
    files; `g` (first of the group) is rewritten, `d/h` is re-linked to it — it carries the
    source's data and is the same node as `g` -/
def dstH : Map DNode :=
  (["g"], .file (exMeta 0 20 1 201)) :: (["d", "h"], .file (exMeta 0 20 1 202)) :: exDst

example : (planEntry exCfg dstH ⟨["d", "h"], .file (exMeta 2 20 7000000000 7) 2, 20, false⟩).act = .update := by
  decide

example : ∃ d, (run exCfg exScan dstH 1000).dst.get? ["d", "h"] = some (.file d) ∧
    Carries exCfg d (exMeta 2 20 7000000000 7) := by
  have h := C01 exCfg rfl noFaults exScan dstH 1000 (by decide) (fun _ => ⟨by decide, by decide⟩)
    (fun _ => exScan_inoConsistent) (by decide)
    ⟨["d", "h"], .file (exMeta 2 20 7000000000 7) 2, 20, false⟩ (by decide)
  obtain ⟨d, h1, h2⟩ := h.2.1 _ _ rfl
  exact ⟨d, h1, h2 (by decide)⟩

example : (run exCfg exScan dstH 1000).dst.get? ["d", "h"] = (run exCfg exScan dstH 1000).dst.get? ["g"] :=
  C01_hardlink_members_share_node exCfg rfl rfl noFaults exScan dstH 1000 (by decide)
    (fun _ => ⟨by decide, by decide⟩) (by decide)
    ⟨["d", "h"], .file (exMeta 2 20 7000000000 7) 2, 20, false⟩ ⟨["g"], .file (exMeta 2 20 7000000000 7) 2, 20, false⟩
    (by decide) (by decide) _ _ 2 2 rfl rfl (by decide) (by decide) rfl (by decide) (by decide)

/-- the comparison rule on concrete data: 1.999…s apart is up to date, 2 s apart is not -/
example : planFileAct exCfg (exMeta 1 10 5000000000 3) (some (.file (exMeta 0 10 3000000001 9))) = .skip :=
  (compare_rule_spec _ _ _).2 ⟨_, rfl, by show _ ∧ _; decide⟩
example : planFileAct exCfg (exMeta 1 10 5000000000 3) (some (.file (exMeta 0 10 3000000000 9))) ≠ .skip := by
  decide

end SyModel.Props.C01
