/-
  GenEngineCache — the directory cache as `SyncEngine::sync` uses it (src/sync/mod.rs, src/sync/dircache.rs), TRANSLATED on
  every run into `SyModel/Generated/Code/EngineCache.lean`:

    * `can_use_cache`   — `let can_use_cache = if let Some(ref cache) = dir_cache { … !cache.needs_rescan(".", source_mtime) … }`
    * `scan_or_cached`  — `let all_files = if can_use_cache { cached listing of "." … } else { self.transport.scan(source) }`
    * `record_scan`     — the body of `if let Some(ref mut cache) = dir_cache { for file in &all_files { … } … }`
    * `DirectoryCache::{needs_rescan, update, get_cached_files, cache_files}`, `CachedFile::{from_file_entry, to_file_entry}`.

  Property C18 says that enabling the cache never changes the outcome.  The substituted listing (`to_file_entry`) WOULD lose
  symlinks, hard links, sparse information and extended attributes (`to_file_entry_forgets` below) and could miss edits below
  the root — so the property holds because the substitution is UNREACHABLE: the staleness test asks for the key "." and no run
  ever records that key.  Proved here about the translated code, for ANY instance of the two operations (stat of the source,
  the transport's scan):

    * `record_scan_dir_keys`            — the directory keys after a run are the old keys plus the relative paths of the scanned
                                           directories — nothing else;
    * `record_scan_keeps_root_absent`   — if no scanned entry has the relative path "." (the scanner skips the root itself) and
                                           the cache had no key "." before, it has none afterwards (the invariant over all runs);
    * `can_use_cache_false_of_no_root`  — without the key "." (and without a cache at all) the answer is `false`;
    * `scan_or_cached_real`             — with `false` the scanned list is exactly the transport's scan of the source;
    * `cache_never_substitutes`         — composition: from ANY cache without the key ".", the files planned are the real scan
                                           and the cache saved at the end again has no key ".".
  Seeded change C18c made `--use-cache` effective (root recorded, listing reused): it breaks `record_scan_keeps_root_absent`
  (the translation changes) — and the twin-world stream finds the missed creation.
-/
import SyModel.Generated.Code.EngineCache
namespace SyModel.Props.GenEngineCache
open SyModel.Generated SyModel.Generated.EngineCache

def runM {W α : Type} (x : Rs.M W α) (w : W) : Except Rs.Err α × W := x.run.run w

/-- the key of the source root in the cache: the text `"."` -/
def rootKey : Rs.Path := ['.']

/-- does the cache have a directory entry for this key -/
def hasDir (c : DirectoryCache) (k : Rs.Path) : Bool := c.dir_entries.any (fun p => p.1 == k)

theorem get_none_of_not_any {ν : Type} (m : Rs.HashMap Rs.Path ν) (k : Rs.Path) (h : m.any (fun p => p.1 == k) = false) :
    Rs.get m k = none := by
  unfold Rs.get
  have : m.find? (fun p => p.1 == k) = none := by
    rw [List.find?_eq_none]; intro x hx hc
    have : m.any (fun p => p.1 == k) = true := List.any_eq_true.mpr ⟨x, hx, hc⟩
    rw [h] at this; exact absurd this (by simp)
  rw [this]; rfl

/-- `needs_rescan` answers "rescan" for a key the cache does not have -/
theorem needs_rescan_of_absent (c : DirectoryCache) (k : Rs.Path) (t : Rs.SystemTime) (h : hasDir c k = false) :
    c.needs_rescan k t = true := by
  unfold DirectoryCache.needs_rescan
  rw [get_none_of_not_any _ _ h]

/-- **without the key "." the cached listing may not be used** — for ANY stat operation; no cache at all: the same -/
theorem can_use_cache_false_of_no_root {W : Type} (ext : Ext W) (dc : Option DirectoryCache) (source : Rs.Path) (w : W)
    (h : ∀ c, dc = some c → hasDir c rootKey = false) :
    (runM (can_use_cache ext dc source) w).1 = .ok false := by
  unfold can_use_cache
  cases dc with
  | none => rfl
  | some c =>
    have hc := needs_rescan_of_absent c rootKey
    simp only [runM, Rs.capture, bind, ExceptT.bind, ExceptT.mk, ExceptT.lift, ExceptT.run, StateT.bind, StateT.run,
      Functor.map, StateT.map, ExceptT.bindCont, pure, ExceptT.pure]
    rcases hs : ext.std_fs_metadata source w with ⟨r, w'⟩
    cases r with
    | error e => rfl
    | ok m =>
      simp only [Rs.modified]
      show (Except.ok (!(c.needs_rescan ['.'] m.mtime)), w').1 = _
      rw [show (['.'] : Rs.Path) = rootKey from rfl, hc m.mtime (h c rfl)]
      rfl

/-- **with `can_use_cache = false` the scanned list is the transport's scan** (same result, same effects) -/
theorem scan_or_cached_real {W : Type} (ext : Ext W) (self : SyncEngine) (dc : Option DirectoryCache) (source : Rs.Path) :
    scan_or_cached ext self false dc source = ext.transport_scan self.transport source := by
  unfold scan_or_cached
  simp only [Bool.false_eq_true, ↓reduceIte, bind_pure]

/-- what the substitution WOULD lose: an entry rebuilt from the cache is never a symlink, has link count 1, no inode, no
    xattrs, is never sparse — whatever the scanned entry was -/
theorem to_file_entry_forgets (f : FileEntry) (source : Rs.Path) :
    let g := (CachedFile.from_file_entry f).to_file_entry source
    g.is_symlink = false ∧ g.symlink_target = none ∧ g.nlink = 1 ∧ g.inode = none ∧ g.xattrs = none ∧ g.is_sparse = false ∧
      g.relative_path = f.relative_path ∧ g.size = f.size ∧ g.modified = f.modified ∧ g.is_dir = f.is_dir := by
  simp [CachedFile.from_file_entry, CachedFile.to_file_entry]

/-! ### what a run records -/

/-- the loop of `record_scan` as a fold: the directory keys it adds -/
def dirKeysAfter (c : DirectoryCache) (files : List FileEntry) : DirectoryCache :=
  files.foldl (fun c f => if f.is_dir then c.update f.relative_path f.modified else c) c

theorem update_eq (c : DirectoryCache) (p : Rs.Path) (t : Rs.SystemTime) :
    c.update p t = { c with dir_entries := Rs.insert_mut c.dir_entries p t } := rfl

theorem cache_files_eq (c : DirectoryCache) (p : Rs.Path) (fs : List CachedFile) :
    c.cache_files p fs = { c with file_entries := Rs.insert_mut c.file_entries p fs } := rfl

theorem hasDir_update (c : DirectoryCache) (p : Rs.Path) (t : Rs.SystemTime) (k : Rs.Path) :
    hasDir (c.update p t) k = (p == k || hasDir c k) := by
  rw [update_eq]
  simp only [hasDir, Rs.insert_mut, List.any_cons, List.any_filter]
  by_cases hpk : (p == k) = true
  · simp [hpk]
  · have hf : (p == k) = false := by simpa using hpk
    simp only [hf, Bool.false_or]
    congr 1; funext q
    by_cases hq : (q.1 == k) = true
    · have e2 : q.1 = k := by simpa using hq
      have : (q.1 == p) = false := by
        rcases Bool.eq_false_or_eq_true (q.1 == p) with h | h
        · have e1 : q.1 = p := by simpa using h
          rw [e1] at e2; rw [e2] at hf; simp at hf
        · exact h
      simp [this, hq]
    · have : (q.1 == k) = false := by simpa using hq
      simp [this]

theorem dirKeysAfter_cons (c : DirectoryCache) (f : FileEntry) (fs : List FileEntry) :
    dirKeysAfter c (f :: fs) = dirKeysAfter (if f.is_dir then c.update f.relative_path f.modified else c) fs := rfl

theorem hasDir_dirKeysAfter (files : List FileEntry) (c : DirectoryCache) (k : Rs.Path) :
    hasDir (dirKeysAfter c files) k = (hasDir c k || files.any (fun f => f.is_dir && f.relative_path == k)) := by
  induction files generalizing c with
  | nil => simp [dirKeysAfter]
  | cons f fs ih =>
    rw [dirKeysAfter_cons, ih, List.any_cons]
    by_cases hd : f.is_dir = true
    · simp only [hd, ↓reduceIte, Bool.true_and, hasDir_update]
      cases (f.relative_path == k) <;> cases hasDir c k <;> simp
    · have : f.is_dir = false := by simpa using hd
      simp [this]

/-- `cache_files` does not touch the directory keys -/
theorem hasDir_cache_files (c : DirectoryCache) (p : Rs.Path) (fs : List CachedFile) (k : Rs.Path) :
    hasDir (c.cache_files p fs) k = hasDir c k := by
  rw [cache_files_eq]; rfl

/-- a `for` loop whose body performs no operation is a fold -/
theorem forIn_pure {W σ α : Type} (g : α → σ → σ) (l : List α) (s : σ) (body : α → σ → Rs.M W (ForInStep σ))
    (h : ∀ x s, body x s = pure (ForInStep.yield (g x s))) :
    forIn l s body = (pure (l.foldl (fun s x => g x s) s) : Rs.M W σ) := by
  induction l generalizing s with
  | nil => rfl
  | cons x xs ih => simp only [List.forIn_cons, h, pure_bind, List.foldl_cons]; exact ih _

/-- first loop of `record_scan`: what it does to the pair (cache, files by directory) -/
def step1 (file : FileEntry) (s : DirectoryCache × Rs.HashMap Rs.Path (List CachedFile)) :
    DirectoryCache × Rs.HashMap Rs.Path (List CachedFile) :=
  (if file.is_dir then s.1.update file.relative_path file.modified else s.1,
   Rs.entry_push s.2 (if file.is_dir then file.relative_path
     else unwrapOrElse (Rs.opt_map (Rs.parent file.relative_path) fun p => p) fun _ => ['.']) (CachedFile.from_file_entry file))

theorem step1_fold_fst (files : List FileEntry) (s : DirectoryCache × Rs.HashMap Rs.Path (List CachedFile)) :
    (files.foldl (fun s x => step1 x s) s).1 = dirKeysAfter s.1 files := by
  induction files generalizing s with
  | nil => rfl
  | cons f fs ih => simp only [List.foldl_cons, dirKeysAfter]; rw [ih]; rfl

theorem hasDir_fold_cache_files (l : List (Rs.Path × List CachedFile)) (c : DirectoryCache) (k : Rs.Path) :
    hasDir (l.foldl (fun s x => DirectoryCache.cache_files s x.1 x.2) c) k = hasDir c k := by
  induction l generalizing c with
  | nil => rfl
  | cons x xs ih => simp only [List.foldl_cons]; rw [ih, hasDir_cache_files]

/-- the cache `record_scan` answers, for ANY instance (the block performs no operation of the world) -/
theorem record_scan_pure {W : Type} (ext : Ext W) (c : DirectoryCache) (files : List FileEntry) (w : W) :
    ∃ c', runM (record_scan ext c files) w = (.ok ((), c'), w) ∧ ∀ k, hasDir c' k = hasDir (dirKeysAfter c files) k := by
  unfold record_scan
  dsimp only
  rw [forIn_pure (W := W) step1 files (c, [])]
  · simp only [pure_bind]
    rw [forIn_pure (W := W) (fun x s => DirectoryCache.cache_files s x.1 x.2)]
    · refine ⟨_, rfl, fun k => ?_⟩
      rw [hasDir_fold_cache_files, step1_fold_fst]
    · intro x s; rfl
  · intro x s
    by_cases hd : x.is_dir = true <;> simp [hd, step1]

/-- **the directory keys after a run**: the old keys plus the relative paths of the scanned directories, nothing else -/
theorem record_scan_dir_keys {W : Type} (ext : Ext W) (c : DirectoryCache) (files : List FileEntry) (w : W) :
    ∃ c', runM (record_scan ext c files) w = (.ok ((), c'), w) ∧
      ∀ k, hasDir c' k = (hasDir c k || files.any (fun f => f.is_dir && f.relative_path == k)) := by
  obtain ⟨c', h, hk⟩ := record_scan_pure ext c files w
  exact ⟨c', h, fun k => by rw [hk k, hasDir_dirKeysAfter]⟩

/-- **the invariant over all runs**: the scanner never lists the root itself (relative path "."), so a cache without the key
    "." stays without it -/
theorem record_scan_keeps_root_absent {W : Type} (ext : Ext W) (c : DirectoryCache) (files : List FileEntry) (w : W)
    (hroot : hasDir c rootKey = false) (hscan : ∀ f ∈ files, f.relative_path ≠ rootKey) :
    ∃ c', runM (record_scan ext c files) w = (.ok ((), c'), w) ∧ hasDir c' rootKey = false := by
  obtain ⟨c', h, hk⟩ := record_scan_dir_keys ext c files w
  refine ⟨c', h, ?_⟩
  rw [hk rootKey, hroot, Bool.false_or]
  rw [List.any_eq_false]
  intro f hf
  have := hscan f hf
  simp [this]

/-- **C18 for the directory cache, about the translated code**: from ANY cache without the key "." (an empty one, one saved by
    any earlier run, a damaged one read as empty), the cached listing is not used — the files planned are the transport's real
    scan — and the cache this run saves again lacks the key ".". -/
theorem cache_never_substitutes {W : Type} (ext : Ext W) (self : SyncEngine) (c : DirectoryCache) (source : Rs.Path) (w : W)
    (hroot : hasDir c rootKey = false) :
    (runM (can_use_cache ext (some c) source) w).1 = .ok false ∧
    scan_or_cached ext self false (some c) source = ext.transport_scan self.transport source ∧
    ∀ files w1, (∀ f ∈ files, f.relative_path ≠ rootKey) →
      ∃ c', runM (record_scan ext c files) w1 = (.ok ((), c'), w1) ∧ hasDir c' rootKey = false :=
  ⟨can_use_cache_false_of_no_root ext (some c) source w (fun c0 h => by cases h; exact hroot),
   scan_or_cached_real ext self (some c) source,
   fun files w1 hs => record_scan_keeps_root_absent ext c files w1 hroot hs⟩

/-- non-vacuity: the empty cache has no root key; and a cache that DID have the key "." with a fresh mtime would be used — the
    theorem's hypothesis is what keeps the substitution out -/
example : hasDir ⟨[], []⟩ rootKey = false := rfl
example : (DirectoryCache.needs_rescan ⟨[(rootKey, 5)], []⟩ rootKey 5) = false := by decide

end SyModel.Props.GenEngineCache
