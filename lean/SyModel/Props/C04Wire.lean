/-
  C04 (wire leg) — the delta survives the JSON + zstd wire encoding consumed by the remote
  helper, and the composition with both generators still reconstructs `new`.
  Property theorems only; helper lemmas live in `SyModel/Lemmas/{Json,Wire,Codec}`.
-/
import SyModel.Props.C04
import SyModel.Lemmas.Wire
import SyModel.Lemmas.Codec
import SyModel.Generated.Consts
namespace SyModel.Props.C04Wire
open SyModel SyModel.Delta SyModel.Compress SyModel.Json

/-! ### side conditions on the constants extracted from the Rust source on this run -/

/-- the bytes `sy-remote apply-delta` compares are the model's magic, in positions 0‥3. -/
theorem consts_ok_magic_apply_delta :
    Generated.ZSTD_MAGIC_APPLY_DELTA = zstdMagic.map UInt8.toNat := by decide

/-- the length guard of the sniffing test is the length of the magic. -/
theorem consts_ok_sniff_len_apply_delta :
    Generated.SNIFF_MIN_LEN_APPLY_DELTA = zstdMagic.length := by decide

/-- `hasZstdMagic` is "starts with `zstdMagic`" (so the two constants above pin it down). -/
theorem sniff_test_is_prefix (l : Bytes) : hasZstdMagic l = true ↔ ∃ r, l = zstdMagic ++ r :=
  hasZstdMagic_iff l

/-! ### numbers and JSON -/

/-- decimal print / parse round trip: a printed number followed by anything that does not start
    with a digit parses back to the number and leaves exactly the rest. -/
theorem number_roundtrip (n : Nat) (rest : Bytes) (h : startsDigit rest = false) :
    parseNat (printNat n ++ rest) = some (n, rest) :=
  parseNat_print n rest h

/-- the parser inverts the printer on every delta (any op list incl. empty ops and empty `Data`,
    any numbers). -/
theorem json_roundtrip (d : Delta) : decodeJson (encodeJson d) = some d :=
  decodeJson_encodeJson d

/-! ### through the helper's sniffing -/

/-- compressed leg: what `ssh.rs` sends (`compress(json, Zstd)`) is decoded by `apply-delta` to the
    delta that was sent. -/
theorem wire_roundtrip (Z : Codec) (hZ : Z.Sound) (d : Delta) :
    remoteDecode Z (Z.compress (encode d)) = some d := by
  unfold remoteDecode
  rw [sniff_compress Z hZ]
  exact decodeJson_encodeJson d

/-- uncompressed leg: plain JSON on stdin is never mistaken for a zstd frame (it starts with `{`),
    whatever the codec does. -/
theorem wire_roundtrip_uncompressed (Z : Codec) (d : Delta) :
    remoteDecode Z (encode d) = some d := by
  unfold remoteDecode encode
  rw [sniff_raw Z _ (encodeJson_no_magic d)]
  exact decodeJson_encodeJson d

/-! ### C04 composed: generator → JSON → zstd → helper → apply -/

/-- in-memory generator through the wire. -/
theorem C04_wire_mem {H} [BEq H] (Z : Codec) (hZ : Z.Sound) (strong : Bytes → H) (old new : Bytes) (bs : Nat)
    (h : 0 < bs) (hc : NoCollision strong old new bs) :
    remoteApply Z old
      (wireSend Z { ops := genMem strong (checksums strong bs old) bs new,
                    sourceSize := new.length, blockSize := bs }) = some new := by
  unfold remoteApply wireSend
  rw [wire_roundtrip Z hZ]
  exact C04.genMem_reconstructs strong old new bs h hc

/-- streaming generator (the one `ssh.rs` uses) through the wire, for every window ≥ block size. -/
theorem C04_wire_stream {H} [BEq H] (Z : Codec) (hZ : Z.Sound) (strong : Bytes → H) (old new : Bytes)
    (bs chunk : Nat) (h : 0 < bs) (hchunk : bs ≤ chunk) (hc : NoCollision strong old new bs) :
    ∃ ops, genStream strong (checksums strong bs old) bs chunk new = some ops ∧
      remoteApply Z old (wireSend Z { ops := ops, sourceSize := new.length, blockSize := bs }) = some new := by
  obtain ⟨ops, h1, h2⟩ := C04.genStream_reconstructs strong old new bs chunk h hchunk hc
  refine ⟨ops, h1, ?_⟩
  unfold remoteApply wireSend
  rw [wire_roundtrip Z hZ]
  exact h2

/-- … with the code's `CHUNK_SIZE` and every block size `calculate_block_size` yields. -/
theorem C04_wire_stream_sy {H} [BEq H] (Z : Codec) (hZ : Z.Sound) (strong : Bytes → H) (old new : Bytes)
    (bs : Nat) (h : 0 < bs) (hmax : bs ≤ Generated.BLOCK_SIZE_MAX) (hc : NoCollision strong old new bs) :
    ∃ ops, genStream strong (checksums strong bs old) bs Generated.STREAM_CHUNK_SIZE new = some ops ∧
      remoteApply Z old (wireSend Z { ops := ops, sourceSize := new.length, blockSize := bs }) = some new :=
  C04_wire_stream Z hZ strong old new bs _ h (Nat.le_trans hmax C04.consts_ok_chunk) hc

/-- the same two compositions when the JSON is sent uncompressed (the helper accepts both). -/
theorem C04_wire_mem_uncompressed {H} [BEq H] (Z : Codec) (strong : Bytes → H) (old new : Bytes) (bs : Nat)
    (h : 0 < bs) (hc : NoCollision strong old new bs) :
    remoteApply Z old
      (encode { ops := genMem strong (checksums strong bs old) bs new,
                sourceSize := new.length, blockSize := bs }) = some new := by
  unfold remoteApply
  rw [wire_roundtrip_uncompressed Z]
  exact C04.genMem_reconstructs strong old new bs h hc

theorem C04_wire_stream_uncompressed {H} [BEq H] (Z : Codec) (strong : Bytes → H) (old new : Bytes)
    (bs chunk : Nat) (h : 0 < bs) (hchunk : bs ≤ chunk) (hc : NoCollision strong old new bs) :
    ∃ ops, genStream strong (checksums strong bs old) bs chunk new = some ops ∧
      remoteApply Z old (encode { ops := ops, sourceSize := new.length, blockSize := bs }) = some new := by
  obtain ⟨ops, h1, h2⟩ := C04.genStream_reconstructs strong old new bs chunk h hchunk hc
  refine ⟨ops, h1, ?_⟩
  unfold remoteApply
  rw [wire_roundtrip_uncompressed Z]
  exact h2

/-! ### non-vacuity -/

/-- `Codec.Sound` is satisfiable ("identity with magic"). -/
example : toyZ.Sound := toyZ_sound

/-- the printer produces the documented text (`{"ops":[{"Copy":{"offset":0,"size":4}},{"Data":[1,2,3]}],"source_size":10,"block_size":4}`). -/
example : encodeJson { ops := [.copy 0 4, .data [1, 2, 3]], sourceSize := 10, blockSize := 4 } =
    lit "{\"ops\":[{\"Copy\":{\"offset\":0,\"size\":4}},{\"Data\":[1,2,3]}],\"source_size\":10,\"block_size\":4}" := by
  simp only [encodeJson, encodeOps, encodeOp, encodeByteList]
  rw [show (1 : UInt8).toNat = 1 from rfl, show (2 : UInt8).toNat = 2 from rfl, show (3 : UInt8).toNat = 3 from rfl]
  rw [printNat_lt (by omega : 0 < 10), printNat_lt (by omega : 4 < 10), printNat_lt (by omega : 1 < 10),
    printNat_lt (by omega : 2 < 10), printNat_lt (by omega : 3 < 10), printNat_ge (by omega : ¬ 10 < 10),
    printNat_lt (by omega : 10 / 10 < 10)]
  decide

/-- a concrete delta with a `Copy`, an empty and a non-empty `Data` and a `u64::MAX` offset survives
    the compressed wire. -/
example : remoteDecode toyZ (toyZ.compress (encode
    { ops := [.copy 18446744073709551615 0, .data [], .data [0, 255]], sourceSize := 7, blockSize := 3 })) =
    some { ops := [.copy 18446744073709551615 0, .data [], .data [0, 255]], sourceSize := 7, blockSize := 3 } :=
  wire_roundtrip toyZ toyZ_sound _

/-- the composed statement on a concrete non-trivial pair (injective strong hash). -/
example : remoteApply toyZ [1, 2, 3, 4, 5, 6, 7]
    (wireSend toyZ { ops := genMem (H := Bytes) id (checksums id 3 [1, 2, 3, 4, 5, 6, 7]) 3 [9, 4, 5, 6, 1, 2, 3, 7, 7],
                     sourceSize := 9, blockSize := 3 }) = some [9, 4, 5, 6, 1, 2, 3, 7, 7] :=
  C04_wire_mem toyZ toyZ_sound id _ _ 3 (by decide) (C04.noCollision_id _ _ _)

end SyModel.Props.C04Wire
