/-
  C03 — A completed sync is a fixed point: re-running changes nothing (engine level).
  Property theorems only.

  Hypotheses (see `Lemmas/EngineWF.lean`): `UniqueRels scan`, `NoRoot scan` (the source root is not
  itself an entry — otherwise the root "directory" would be re-created on every run); with
  `--delete` additionally `ParentClosed scan` and `dst.get? [] = none` (without parent-closedness
  the implicitly created parents of the first run would be deleted by the second); with
  `--hard-links` `InoConsistent scan`.  `C03_ignore_times` additionally assumes the prior
  destination is a real tree (`DstParentClosed dst`).
-/
import SyModel.Lemmas.EngineClosed
namespace SyModel.Props.C03
open SyModel SyModel.Engine

/-- Data written by a transfer is recognised as up to date by every comparison rule except
    `--ignore-times`. -/
theorem transferred_file_up_to_date (cfg : Cfg) (hcmp : cfg.compare ≠ .ignoreTimes) (m d : FileMeta)
    (hc : d.content = m.content) (hs : d.size = m.size) (ht : d.mtime = m.mtime)
    (hx : d.xattrs = (if cfg.xattrs then m.xattrs else [])) :
    planFileAct cfg m (some (.file d)) = .skip :=
  (planFileAct_skip_iff _ _ _).2 ⟨d, rfl, upToDate_of_matches ⟨hc, hs, ht, hx⟩ hcmp⟩

/-- A preserved symlink with the source's text is up to date (every comparison rule). -/
theorem preserved_link_up_to_date (cfg : Cfg) (hl : cfg.links = .preserve) (dst' : Map DNode) (e : SEntry)
    (text : String) (tgt : LinkTarget) (hk : e.kind = .symlink text tgt)
    (h : dst'.get? e.rel = some (.symlink text)) : (planEntry cfg dst' e).act = .skip := by
  unfold planEntry; simp [hk, hl, h]

/-- **Every transfer path leaves the entry in a state that the next comparison recognises as up
    to date**: after a run under any fault plan, every selected entry whose action was reported
    as done (files, directories, links in every mode) is planned as `skip` against the result. -/
theorem up_to_date_after_transfer (cfg : Cfg) (hnd : cfg.dryRun = false) (hcmp : cfg.compare ≠ .ignoreTimes)
    (flt : Faults) (scan : List SEntry) (dst : Map DNode) (n : Nat) (hu : UniqueRels scan) (hnr : NoRoot scan)
    (hdel : cfg.delete = true → ParentClosed scan ∧ dst.get? [] = none)
    (hino : cfg.hardlinks = true → InoConsistent scan)
    (e : SEntry) (he : e ∈ scanFilter cfg scan)
    (hev : ((planEntry cfg dst e).act, e.rel) ∈ (runF cfg flt scan dst n).events) :
    (planEntry cfg (runF cfg flt scan dst n).dst e).act = .skip :=
  planEntry_skip_of_entryPost hcmp (fun _ => hnr e (mem_of_mem_scanFilter he))
    (entryPost_of_event hnd flt scan dst n hu hdel hino he hev)

/-- **C03.**  Re-running the same command on the result of a clean run creates, updates and
    deletes nothing, transfers zero bytes, reports only skips, exits 0 and leaves the destination
    literally unchanged — for every flag set except `--ignore-times`, including `--delete`,
    `--hard-links`, every link mode, filters and size bounds. -/
theorem C03 (cfg : Cfg) (hnd : cfg.dryRun = false) (hcmp : cfg.compare ≠ .ignoreTimes)
    (scan : List SEntry) (dst : Map DNode) (n n' : Nat) (hu : UniqueRels scan) (hnr : NoRoot scan)
    (hdel : cfg.delete = true → ParentClosed scan ∧ dst.get? [] = none)
    (hino : cfg.hardlinks = true → InoConsistent scan)
    (h1 : (run cfg scan dst n).exit = 0) :
    (run cfg scan (run cfg scan dst n).dst n').created = 0 ∧
    (run cfg scan (run cfg scan dst n).dst n').updated = 0 ∧
    (run cfg scan (run cfg scan dst n).dst n').deleted = 0 ∧
    (run cfg scan (run cfg scan dst n).dst n').bytes = 0 ∧
    (run cfg scan (run cfg scan dst n).dst n').dst = (run cfg scan dst n).dst ∧
    (∀ ev ∈ (run cfg scan (run cfg scan dst n).dst n').events, ev.1 = .skip) ∧
    (run cfg scan (run cfg scan dst n).dst n').errors = [] ∧
    (run cfg scan (run cfg scan dst n).dst n').exit = 0 := by
  unfold run at h1
  have hs := replan_all_skip hnd hcmp hu hnr hdel hino h1
  obtain ⟨_, a, b, c, d, e, f, g, h⟩ :=
    run_all_skip (flt := noFaults) (n := n') hs
  unfold run
  exact ⟨b, c, d, e, a, h, f, g⟩

/-- **C03, `--ignore-times` (and every other mode).**  The second run leaves the node at every
    path exactly as it is — kind, content id, size, mtime, xattrs, link text and inode (a file
    rewritten in place keeps its inode; with `-H` a later member of a link group is re-linked to
    the node it already is a name of) — creates and deletes nothing and does not fail; only the
    `updated`/`bytes` counters are non-zero, by definition of the flag.  The destination is
    compared path by path (`get?`): the association list itself is reordered by the rewrites. -/
theorem C03_ignore_times (cfg : Cfg) (hnd : cfg.dryRun = false)
    (scan : List SEntry) (dst : Map DNode) (n n' : Nat) (hu : UniqueRels scan) (hnr : NoRoot scan)
    (hdel : cfg.delete = true → ParentClosed scan ∧ dst.get? [] = none)
    (hino : cfg.hardlinks = true → InoConsistent scan) (hc : DstParentClosed dst)
    (h1 : (run cfg scan dst n).exit = 0) :
    (∀ p, (run cfg scan (run cfg scan dst n).dst n').dst.get? p = (run cfg scan dst n).dst.get? p) ∧
    (run cfg scan (run cfg scan dst n).dst n').created = 0 ∧
    (run cfg scan (run cfg scan dst n).dst n').deleted = 0 ∧
    (run cfg scan (run cfg scan dst n).dst n').errors = [] ∧
    (run cfg scan (run cfg scan dst n).dst n').exit = 0 :=
  rerun_content_unchanged hnd hu hnr hdel hino ((gclosed_iff dst).2 hc) h1

/-- **C03 for every k-th re-run** (`iterRun … k` is the k-th run; `ns k` its inode counter):
    every run after a clean first one is a no-op on the same destination. -/
theorem C03_iter (cfg : Cfg) (hnd : cfg.dryRun = false) (hcmp : cfg.compare ≠ .ignoreTimes)
    (scan : List SEntry) (dst : Map DNode) (ns : Nat → Nat) (hu : UniqueRels scan) (hnr : NoRoot scan)
    (hdel : cfg.delete = true → ParentClosed scan ∧ dst.get? [] = none)
    (hino : cfg.hardlinks = true → InoConsistent scan)
    (h1 : (iterRun cfg scan dst ns 0).exit = 0) (k : Nat) :
    (iterRun cfg scan dst ns (k + 1)).created = 0 ∧ (iterRun cfg scan dst ns (k + 1)).updated = 0 ∧
    (iterRun cfg scan dst ns (k + 1)).deleted = 0 ∧ (iterRun cfg scan dst ns (k + 1)).bytes = 0 ∧
    (iterRun cfg scan dst ns (k + 1)).dst = (iterRun cfg scan dst ns 0).dst ∧
    (iterRun cfg scan dst ns (k + 1)).exit = 0 := by
  have base := C03 cfg hnd hcmp scan dst (ns 0) 
  induction k with
  | zero =>
    obtain ⟨a, b, c, d, e, _, _, g⟩ := base (ns 1) hu hnr hdel hino h1
    exact ⟨a, b, c, d, e, g⟩
  | succ k ih =>
    have hd : (iterRun cfg scan dst ns (k + 1)).dst = (run cfg scan dst (ns 0)).dst := ih.2.2.2.2.1
    show (run cfg scan (iterRun cfg scan dst ns (k + 1)).dst (ns (k + 1 + 1))).created = 0 ∧ _
    simp only [iterRun] at hd ⊢
    rw [hd]
    obtain ⟨a, b, c, d, e, _, _, g⟩ := base (ns (k + 1 + 1)) hu hnr hdel hino h1
    exact ⟨a, b, c, d, e, g⟩

/-- **Every k-th re-run, every comparison mode (including `--ignore-times`)**, on a destination that
    was a real tree: each run exits 0, creates and deletes nothing, and leaves the node at every
    path as the first run left it. -/
theorem C03_iter_ignore_times (cfg : Cfg) (hnd : cfg.dryRun = false)
    (scan : List SEntry) (dst : Map DNode) (ns : Nat → Nat) (hu : UniqueRels scan) (hnr : NoRoot scan)
    (hdel : cfg.delete = true → ParentClosed scan ∧ dst.get? [] = none)
    (hino : cfg.hardlinks = true → InoConsistent scan) (hc : DstParentClosed dst)
    (h1 : (iterRun cfg scan dst ns 0).exit = 0) (k : Nat) :
    (iterRun cfg scan dst ns (k + 1)).exit = 0 ∧ (iterRun cfg scan dst ns (k + 1)).created = 0 ∧
    (iterRun cfg scan dst ns (k + 1)).deleted = 0 ∧ (iterRun cfg scan dst ns (k + 1)).errors = [] ∧
    ∀ p, (iterRun cfg scan dst ns (k + 1)).dst.get? p = (iterRun cfg scan dst ns 0).dst.get? p := by
  obtain ⟨a, b, c⟩ := iterRun_stable hnd ns hu hnr hdel hino ((gclosed_iff dst).2 hc) h1 (k + 1)
  obtain ⟨c1, c2, c3⟩ := c (by omega)
  exact ⟨a, c1, c2, c3, b⟩

/-! ### non-vacuity (the example tree of `EngineWF`: stale file, extras, hard-link pair, link) -/

def exCfg : Cfg where
  delete := true
  force := true
  dryRun := false
  xattrs := true
  hardlinks := true
  threshold := 50
  links := .preserve
  compare := .default
  minSize := none
  maxSize := none
  maxErrors := 100
  tie := false

/-- the first run does real work (1 update, 3 creates, 2 deletes) … -/
example : (run exCfg exScan exDst 1000).updated = 1 ∧ (run exCfg exScan exDst 1000).created = 3 ∧
    (run exCfg exScan exDst 1000).deleted = 2 := by decide

/-- … and the hypotheses of `C03` hold, so the second run is a no-op -/
example : (run exCfg exScan (run exCfg exScan exDst 1000).dst 2000).updated = 0 ∧
    (run exCfg exScan (run exCfg exScan exDst 1000).dst 2000).dst = (run exCfg exScan exDst 1000).dst := by
  have h := C03 exCfg rfl (by decide) exScan exDst 1000 2000 (by decide) (by decide)
    (fun _ => ⟨by decide, by decide⟩) (fun _ => exScan_inoConsistent) (by decide)
  exact ⟨h.2.1, h.2.2.2.2.1⟩

example : (iterRun exCfg exScan exDst (fun k => 1000 * (k + 1)) 7).dst = (run exCfg exScan exDst 1000).dst :=
  (C03_iter exCfg rfl (by decide) exScan exDst _ (by decide) (by decide)
    (fun _ => ⟨by decide, by decide⟩) (fun _ => exScan_inoConsistent) (by decide) 6).2.2.2.2.1

example : ∀ p, (run { exCfg with compare := .ignoreTimes } exScan
      (run { exCfg with compare := .ignoreTimes } exScan exDst 1000).dst 2000).dst.get? p =
    (run { exCfg with compare := .ignoreTimes } exScan exDst 1000).dst.get? p :=
  (C03_ignore_times _ rfl exScan exDst 1000 2000 (by decide) (by decide)
    (fun _ => ⟨by decide, by decide⟩) (fun _ => exScan_inoConsistent) (by decide) (by decide)).1

/-- under `--ignore-times` the second run does rewrite (so the statement is not vacuous) -/
example : (run { exCfg with compare := .ignoreTimes } exScan
      (run { exCfg with compare := .ignoreTimes } exScan exDst 1000).dst 2000).updated = 3 := by decide

end SyModel.Props.C03
