/-
  SyModel.Basic — vocabulary shared by every model file.
  Model files import nothing outside core Lean so that `sydriver` links natively.
-/
namespace SyModel

abbrev Bytes := List UInt8

/-- `hasAtLeast n l = decide (n ≤ l.length)` computed in `O(n)` (not `O(l.length)`). -/
def hasAtLeast : Nat → List α → Bool
  | 0, _ => true
  | _ + 1, [] => false
  | n + 1, _ :: t => hasAtLeast n t

theorem hasAtLeast_iff (n : Nat) (l : List α) : hasAtLeast n l = true ↔ n ≤ l.length := by
  induction n generalizing l with
  | zero => simp [hasAtLeast]
  | succ n ih =>
    cases l with
    | nil => simp [hasAtLeast]
    | cons x t => simp [hasAtLeast, ih]

theorem hasAtLeast_false_iff (n : Nat) (l : List α) : hasAtLeast n l = false ↔ l.length < n := by
  rw [← Bool.not_eq_true, hasAtLeast_iff]; omega

end SyModel
