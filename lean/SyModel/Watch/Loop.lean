/-
  SyModel.Watch.Loop — the event loop of `sy --watch` (C20).

  Models `WatchMode::watch` (src/sync/watch.rs:37-109), the event filter
  `should_sync_event` (watch.rs:111-120) and the wiring in src/main.rs:489-500
  (debounce 500 ms).  Import-free and executable: `sydriver` runs exactly these
  definitions (area `watch.`), the theorems of `SyModel.Props.C20` are about them.

  Two kinds of inputs drive the model:

  * environment: `event k edit` (the source tree changes to version `edit`, if any, and
    the `notify` watcher — when armed — delivers an event of kind `k` into the mpsc
    channel), `tick δ` (δ time units pass), `sigint`;
  * the loop thread itself: `step` — the thread executes its next atomic piece of the
    program text: arming the watcher, starting / finishing the initial sync, one
    iteration of the `loop { select!; recv_timeout }` body up to (and including) the
    start of a sync, or the completion of a running sync.  A `step` taken with an empty
    channel is the `Err(RecvTimeoutError::Timeout)` arm ("timeout" in DESIGN §6 C20).

  A third kind, `fail`, is the same move of the loop thread when the sync it completes returns
  `Err` (observed on the real binary when a source entry vanishes under a running sync).

  Time is a `Nat` in an arbitrary unit (the driver uses microseconds, the constants of
  `Cfg.sy` are milliseconds); only lower bounds the code guarantees are built in:
  `tokio::time::sleep(10 ms)` takes ≥ 10 ms, a `recv_timeout(100 ms)` that returns
  `Timeout` took ≥ 100 ms.  Everything slower is a `tick`.
-/
namespace SyModel.Watch

/-- `notify::EventKind` (notify 6.1) plus `error` for the `Ok(Err(e))` arm (watch.rs:80-82). -/
inductive Kind
  | any | access | create | modify | remove | other | error
  deriving DecidableEq, Repr, Inhabited

/-- `should_sync_event` (watch.rs:111-120): Create / Modify / Remove are kept. -/
def Kind.kept : Kind → Bool
  | .create => true
  | .modify => true
  | .remove => true
  | _ => false

/-- the constructor name of `notify::EventKind` (tied to watch.rs:116 by `consts_ok_kept`) -/
def Kind.rust : Kind → String
  | .any => "Any"
  | .access => "Access"
  | .create => "Create"
  | .modify => "Modify"
  | .remove => "Remove"
  | .other => "Other"
  | .error => "Error"

/-- One version of the (selected part of the) source tree as the planner sees it.
    `id` identifies the content; `size`/`mtime` (ns) are the metadata the active comparison
    rule of `SyncPlanner::needs_update` (src/sync/strategy.rs:333-377) looks at for the entry
    that differs.  Creations, deletions (with `--delete`) and renames are always planned
    (dest missing ⇒ `Create`, strategy.rs:319; `plan_deletions` by name), so the harness
    encodes them with a fresh `size`. -/
structure Ver where
  id : Nat
  size : Nat
  mtime : Nat
  deriving DecidableEq, Repr, Inhabited

structure Cfg where
  /-- `Duration::from_millis(500)` (main.rs:495), compared at watch.rs:85 -/
  debounce : Nat
  /-- `rx.recv_timeout(Duration::from_millis(100))` (watch.rs:73) -/
  recvTimeout : Nat
  /-- `tokio::time::sleep(Duration::from_millis(10))` in the `select!` (watch.rs:67) -/
  selectSleep : Nat
  /-- `mtime_tolerance` in whole seconds (strategy.rs:50) -/
  tolerance : Nat
  /-- nanoseconds per second, the unit of `Ver.mtime` relative to `tolerance` -/
  nsPerSec : Nat
  /-- `true`: the watcher is armed *before* the initial sync (repaired order);
      `false`: initial sync first, then `watcher.watch` (pinned order, watch.rs:40-45). -/
  armFirst : Bool
  deriving Repr

/-- the values of the repaired tree, in milliseconds -/
def Cfg.sy : Cfg :=
  { debounce := 500, recvTimeout := 100, selectSleep := 10, tolerance := 1,
    nsPerSec := 1000000000, armFirst := true }

/-- the pinned tree: same constants, watcher armed after the initial sync -/
def Cfg.pinned : Cfg := { Cfg.sy with armFirst := false }

def absDiff (a b : Nat) : Nat := if a ≤ b then b - a else a - b

/-- `needs_update` without comparison flags (strategy.rs:356-368): size differs, or
    `duration.as_secs() > mtime_tolerance` (strategy.rs:372-376: whole-second truncation). -/
def needsUpdate (c : Cfg) (s d : Ver) : Bool :=
  (s.size != d.size) || decide (c.tolerance < absDiff s.mtime d.mtime / c.nsPerSec)

/-- The abstract sync: the destination becomes the snapshot the sync worked from when the
    comparison rule can see a difference; otherwise the entry is skipped. -/
def syncTo (c : Cfg) (snap dst : Ver) : Ver :=
  if needsUpdate c snap dst then snap else dst

/-- "the comparison rule can tell `d` from `a`" (or there is nothing to tell). -/
def Vis (c : Cfg) (a d : Ver) : Prop := d = a ∨ needsUpdate c a d = true

instance (c : Cfg) (a d : Ver) : Decidable (Vis c a d) := by unfold Vis; exact inferInstance

/-- program points of `watch()` -/
inductive Phase
  | boot      -- before the initial sync has started
  | initSync  -- `self.engine.sync(..).await?` of the initial sync is running (watch.rs:40)
  | postInit  -- initial sync returned, loop not entered yet
  | loop      -- at the top of `loop {` (watch.rs:60)
  | sync      -- `self.engine.sync(..).await` inside the Timeout arm is running (watch.rs:89)
  | done      -- `watch()` returned / the process is gone
  deriving DecidableEq, Repr, Inhabited

inductive Exit
  | sigint    -- ctrl_c branch of the select (watch.rs:63-66): `break`, `Ok(())`, exit status 0
  | killed    -- SIGINT before `signal::ctrl_c()` was first polled: default disposition
  | error     -- the initial sync returned `Err` and `?` propagated it (watch.rs:40): exit status 1
  deriving DecidableEq, Repr

structure State where
  phase : Phase
  /-- `pending_changes` (watch.rs:53) -/
  pending : List Kind
  /-- `last_sync` (watch.rs:54, 99) -/
  lastSync : Nat
  /-- contents of the mpsc channel `rx` (watch.rs:43) -/
  queue : List Kind
  now : Nat
  /-- current version of the source -/
  src : Ver
  /-- current version of the destination -/
  dst : Ver
  /-- the source version the most recently started sync works from -/
  snap : Ver
  /-- `watcher.watch(..)` has been called (watch.rs:45) -/
  armed : Bool
  /-- tokio's SIGINT handler is installed (first poll of `ctrl_c`, watch.rs:62-63) -/
  handler : Bool
  /-- a SIGINT was caught and not yet observed by the select -/
  sig : Bool
  exit : Option Exit
  /-- number of syncs started so far (ghost) -/
  syncs : Nat
  /-- the most recently started sync has not failed (ghost) -/
  ok : Bool
  deriving DecidableEq, Repr

def State.done (s : State) : Bool := s.phase == .done

def init (v0 d0 : Ver) : State :=
  { phase := .boot, pending := [], lastSync := 0, queue := [], now := 0, src := v0, dst := d0,
    snap := d0, armed := false, handler := false, sig := false, exit := none, syncs := 0, ok := true }

/-- what the loop thread decided in one `step` (one line of the H4 trace, except that
    `timeout` + `sync-start` are one decision) -/
inductive Decision
  | armed | initialSyncStart | initialSyncEnd | loopStart
  | exitSigint
  | eventKept (k : Kind) | eventDropped (k : Kind)
  | timeoutIdle | timeoutSync | syncEnd
  | initialSyncFailed | syncFailed
  | halted
  deriving DecidableEq, Repr

/-- One atomic move of the loop thread. -/
def step (c : Cfg) (s : State) : State × Decision :=
  match s.phase with
  | .boot =>
    if c.armFirst && !s.armed then
      ({ s with armed := true }, .armed)                                   -- repaired order
    else
      ({ s with phase := .initSync, snap := s.src, syncs := s.syncs + 1, ok := true }, .initialSyncStart)
  | .initSync =>
    ({ s with phase := .postInit, dst := syncTo c s.snap s.dst }, .initialSyncEnd)
  | .postInit =>
    if !s.armed then
      ({ s with armed := true }, .armed)                                   -- watch.rs:43-45 (pinned order)
    else
      -- `let mut pending_changes = Vec::new(); let mut last_sync = Instant::now();` (53-54),
      -- `ctrl_c` pinned (57-58) and polled for the first time by the first select
      ({ s with phase := .loop, pending := [], lastSync := s.now, handler := true }, .loopStart)
  | .loop =>
    if s.sig then
      -- watch.rs:63-66
      ({ s with phase := .done, armed := false, exit := some .sigint }, .exitSigint)
    else
      let now1 := s.now + c.selectSleep                                    -- watch.rs:67
      match s.queue with
      | k :: q =>
        -- watch.rs:74-82: `Ok(Ok(event))` filtered by `should_sync_event`; `Ok(Err(e))` logged
        if k.kept then
          ({ s with now := now1, queue := q, pending := s.pending ++ [k] }, .eventKept k)
        else
          ({ s with now := now1, queue := q }, .eventDropped k)
      | [] =>
        -- watch.rs:83-101: `Err(RecvTimeoutError::Timeout)`
        let now2 := now1 + c.recvTimeout
        if !s.pending.isEmpty && decide (c.debounce ≤ now2 - s.lastSync) then
          ({ s with now := now2, phase := .sync, snap := s.src, syncs := s.syncs + 1, ok := true }, .timeoutSync)
        else
          ({ s with now := now2 }, .timeoutIdle)
  | .sync =>
    -- watch.rs:89-99: the sync returns; `pending_changes.clear(); last_sync = Instant::now();`
    ({ s with phase := .loop, dst := syncTo c s.snap s.dst, pending := [], lastSync := s.now }, .syncEnd)
  | .done => (s, .halted)

/-- The loop thread's move when the sync it would complete returns `Err` (the scanner and the
    transfers fail with `NotFound` when a source entry vanishes under them).  The initial sync's
    error is propagated with `?` (watch.rs:40): `watch()` returns, the process exits with status 1.
    An error of a later sync is printed (watch.rs:93-95) and the loop goes on — after
    `pending_changes.clear()` (watch.rs:98).  At every other program point no sync is completing
    and the move is the ordinary `step`. -/
def failMove (c : Cfg) (s : State) : State × Decision :=
  match s.phase with
  | .initSync => ({ s with phase := .done, armed := false, exit := some .error, ok := false }, .initialSyncFailed)
  | .sync => ({ s with phase := .loop, pending := [], lastSync := s.now, ok := false }, .syncFailed)
  | _ => step c s

inductive Input
  | event (k : Kind) (edit : Option Ver)
  | step
  | tick (δ : Nat)
  | sigint
  | fail
  deriving DecidableEq, Repr

/-- A source change and/or the delivery of a watcher event.  Without an armed watcher nothing
    is delivered (the change still happens). -/
def deliver (s : State) (k : Kind) (edit : Option Ver) : State :=
  let s1 : State := match edit with
    | some v => { s with src := v }
    | none => s
  if s1.armed then { s1 with queue := s1.queue ++ [k] } else s1

/-- SIGINT: caught by tokio once `ctrl_c` has been polled, fatal before that. -/
def signal (s : State) : State :=
  if s.phase = .done then s
  else if s.handler then { s with sig := true }
  else { s with phase := .done, armed := false, exit := some .killed }

def advance (s : State) (δ : Nat) : State := { s with now := s.now + δ }

def apply (c : Cfg) (s : State) : Input → State
  | .event k e => deliver s k e
  | .step => (step c s).1
  | .tick δ => advance s δ
  | .sigint => signal s
  | .fail => (failMove c s).1

def run (c : Cfg) (s : State) (is : List Input) : State := is.foldl (apply c) s

/-- the decisions of the `step` inputs of a schedule, in order -/
def decisions (c : Cfg) : State → List Input → List Decision
  | _, [] => []
  | s, .step :: t => (step c s).2 :: decisions c (step c s).1 t
  | s, .fail :: t => (failMove c s).2 :: decisions c (failMove c s).1 t
  | s, i :: t => decisions c (apply c s i) t

/-- number of loop-thread moves in a schedule -/
def nSteps : List Input → Nat
  | [] => 0
  | .step :: t => nSteps t + 1
  | _ :: t => nSteps t

/-- quiescence: the environment only lets time pass -/
def Input.quiet : Input → Bool
  | .step => true
  | .tick _ => true
  | _ => false

def Quiescent (is : List Input) : Prop := ∀ i ∈ is, i.quiet = true

/-- the `notify` assumption: every change of the source comes with an event of a kept kind
    (inotify: IN_CREATE / IN_MODIFY / IN_ATTRIB / IN_MOVED_* / IN_DELETE map to
    Create / Modify / Remove in notify 6.1's inotify backend). -/
def Input.faithful : Input → Bool
  | .event k (some _) => k.kept
  | _ => true

/-- What the environment may do in state `s`: source changes come with a kept event (`faithful`),
    and a sync only fails when the source changed under it (no I/O faults are injected: C20 does not
    quantify over faults). -/
def admissible1 (s : State) : Input → Bool
  | .fail => if s.phase = .sync ∨ s.phase = .initSync then decide (s.snap ≠ s.src) else true
  | i => i.faithful

def admissible (c : Cfg) : State → List Input → Bool
  | _, [] => true
  | s, i :: t => admissible1 s i && admissible c (apply c s i) t

def ceilDiv (a b : Nat) : Nat := (a + b - 1) / b

end SyModel.Watch
